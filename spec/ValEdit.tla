----------------------------- MODULE ValEdit -----------------------------
(* C06 - values with a history.  "Equal values are interchangeable as set
   elements and map keys ... whichever equal representative is used": a
   representative may be an object that a program built long ago, used as a set
   member or a map key (its hash was taken, by whatever the implementation
   keeps about that), and then changed in place until it has its present
   content.  The machine holds one such object `w` (a list, a set, a map or a
   string, lists and map values nested one level) and drives it with the
   in-place writers of the language:

       w[i] = e            nodes.py NodeDerefAssign (lists, maps, strings)
       append(w, e)        functions.py FuncAppend      (lists, sets)
       insert_at(w, i, e)  FuncInsertAt
       delete_at(w, i)     FuncDeleteAt
       remove(w, e)        FuncRemove                   (lists, sets, maps)
       put(w, k, x)        FuncPut / w[k] = x
   and the same writers applied to an element of w that is itself a list
   (`w[i][j] = e`, `append(w[i], e)`, ...: the object w is not touched, its
   content changes).  Touch is the moment the hash of w is taken (`w in s`,
   `<<w>>`, `m[w]`): it changes nothing, which is the point - every read of the
   model is a function of the content (Val.tla ApplyEdit), so the invariants
   below hold for w exactly as for a freshly written value.

   Binding A: every transition (pre, path, op, post) is exported with the
   verdicts Equal(post, F[k]) against a pool F of freshly written values; the
   harness builds `pre`, has its hash taken, performs the edit on that very
   object through a program (and through the ckl.values methods) and demands
   that ==, hash, membership, lookup and container == of the edited object
   against a fresh `post` and against every F[k] are those verdicts.          *)
EXTENDS Val, TLC, Json, IOUtils, SequencesExt

CONSTANTS MaxLen,     \* longest list / string held
          MaxInner,   \* longest list one level down
          MaxKeys,    \* most keys of a held map
          Export

\* elements written into the top level, and into an inner list
ETop == <<VInt(1), VDec(1, 1), VInt(5), VList(<<VInt(1)>>), VStr(<<97>>)>>
EInn == <<VInt(1), VInt(2)>>
\* keys and values of a held map; characters of a held string
KeyP == <<VStr(<<97>>), VInt(1), VDec(1, 1)>>
ValP == <<VInt(7), VList(<<VInt(1)>>)>>
ChrP == <<VStr(<<97>>), VStr(<<98>>)>>

Starts == { VList(<<VInt(1), VInt(2)>>), VList(<<VList(<<VInt(1)>>)>>), VList(<< >>),
            VSet(<<VInt(1)>>), VSet(<< >>),
            VMap(<<VStr(<<97>>)>>, <<VList(<<VInt(1)>>)>>), VMap(<< >>, << >>),
            VStr(<<97, 98>>) }

\* freshly written values the edited object is compared with
F == << VList(<< >>), VList(<<VInt(1)>>), VList(<<VDec(1, 1)>>), VList(<<VInt(5)>>),
        VList(<<VInt(1), VInt(2)>>), VList(<<VInt(5), VInt(2)>>), VList(<<VDec(1, 1), VInt(2)>>),
        VList(<<VInt(2), VInt(1)>>), VList(<<VInt(1), VInt(1)>>), VList(<<VInt(2)>>),
        VList(<<VList(<<VInt(1)>>)>>), VList(<<VList(<<VInt(1), VInt(2)>>)>>), VList(<<VList(<<VInt(2)>>)>>),
        VList(<<VList(<< >>)>>), VList(<<VInt(1), VList(<<VInt(1)>>)>>), VList(<<VStr(<<97>>)>>),
        VSet(<< >>), VSet(<<VInt(1)>>), VSet(<<VDec(1, 1)>>), VSet(<<VInt(5), VInt(1)>>), VSet(<<VStr(<<97>>)>>),
        VSet(<<VList(<<VInt(1)>>)>>),
        VMap(<< >>, << >>), VMap(<<VStr(<<97>>)>>, <<VList(<<VInt(1)>>)>>),
        VMap(<<VStr(<<97>>)>>, <<VList(<<VInt(1), VInt(2)>>)>>), VMap(<<VStr(<<97>>)>>, <<VInt(7)>>),
        VMap(<<VInt(1)>>, <<VInt(7)>>), VMap(<<VDec(1, 1)>>, <<VInt(7)>>),
        VMap(<<VInt(1), VStr(<<97>>)>>, <<VInt(7), VInt(7)>>),
        VStr(<<97, 98>>), VStr(<<98, 98>>), VStr(<<97, 97>>), VStr(<<98, 97>>) >>

VARIABLES w,       \* the content of the held object
          last     \* label of the last transition (hidden by VIEW; read by EffectsProp)
vars == <<w, last>>
View == w

Emit(tag, rec) == IF Export THEN PrintT("@@" \o tag \o "@@" \o ToJson(rec)) ELSE TRUE
NoLab == [path |-> << >>, op |-> EOp("new", 0, VNull, VNull)]

Init == w \in Starts /\ last = NoLab

\* the model bound: nothing grows beyond MaxLen
Fits(v) == /\ Len(v.items) <= MaxLen /\ Len(v.s) <= MaxLen
           /\ v.k = "map" => Len(v.items) <= MaxKeys
           /\ \A i \in DOMAIN v.items : Len(v.items[i].items) <= MaxInner
           /\ \A i \in DOMAIN v.vals : Len(v.vals[i].items) <= MaxInner

Do(path, op) ==
  /\ PathOK(w, path) /\ EditOK(SubAt(w, path), op)
  /\ w' = EditAt(w, path, op)
  /\ Fits(w')
  /\ last' = [path |-> path, op |-> op]
  /\ Emit("EDGE", [pre |-> w, path |-> path, op |-> op, post |-> w',
                   eqs |-> [k \in DOMAIN F |-> Equal(w', F[k])]])

\* the writers on the object itself
WSetAt    == \E i \in 1..MaxLen, e \in DOMAIN ETop : Do(<< >>, EOp("setat", i, ETop[e], VNull))
WAppend   == \E e \in DOMAIN ETop : Do(<< >>, EOp("append", 0, ETop[e], VNull))
WInsertAt == \E i \in 1..(MaxLen + 1), e \in DOMAIN ETop : Do(<< >>, EOp("insertat", i, ETop[e], VNull))
WDeleteAt == \E i \in 1..MaxLen : Do(<< >>, EOp("deleteat", i, VNull, VNull))
WRemoveE  == \E e \in DOMAIN ETop : Do(<< >>, EOp("remove", 0, ETop[e], VNull))
WRemoveK  == \E k \in DOMAIN KeyP : Do(<< >>, EOp("remove", 0, KeyP[k], VNull))
WPut      == \E k \in DOMAIN KeyP, x \in DOMAIN ValP : Do(<< >>, EOp("put", 0, KeyP[k], ValP[x]))
WSetChar  == \E i \in 1..MaxLen, c \in DOMAIN ChrP : Do(<< >>, EOp("setchar", i, ChrP[c], VNull))
\* the writers one level down: on the list at position p of a held list, on the
\* list stored under a key of a held map
InnerSteps == {<<PStep(p, VNull)>> : p \in 1..MaxLen} \cup {<<PStep(0, KeyP[k])>> : k \in DOMAIN KeyP}
InnerOps == {EOp("setat", i, EInn[e], VNull) : i \in 1..MaxInner, e \in DOMAIN EInn}
            \cup {EOp("append", 0, EInn[e], VNull) : e \in DOMAIN EInn}
            \cup {EOp("insertat", i, EInn[e], VNull) : i \in 1..(MaxInner + 1), e \in DOMAIN EInn}
            \cup {EOp("deleteat", i, VNull, VNull) : i \in 1..MaxInner}
            \cup {EOp("remove", 0, EInn[e], VNull) : e \in DOMAIN EInn}
InnerEdit == \E path \in InnerSteps, op \in InnerOps : Do(path, op)
\* the hash of w is taken: no effect on the content
Touch == /\ w' = w /\ last' = [path |-> << >>, op |-> EOp("touch", 0, VNull, VNull)]

Next == WSetAt \/ WAppend \/ WInsertAt \/ WDeleteAt \/ WRemoveE \/ WRemoveK \/ WPut \/ WSetChar
        \/ InnerEdit \/ Touch
Spec == Init /\ [][Next]_vars

-----------------------------------------------------------------------------
TypeOK == WF(w) /\ w.k \in {"list", "set", "map", "str"} /\ Fits(w)

\* an edited set / map still holds no two equal elements / keys
NoEqualDuplicates == w.k \in {"set", "map"} => NoDup(w.items)

\* the edited object is interchangeable with every fresh value Equal to it:
\* as a probe, as an element, as a key, inside a list
HistoryFree ==
  \A k \in DOMAIN F : Equal(w, F[k]) =>
    \A c \in DOMAIN F : LET x == F[c] IN
      /\ Equal(F[k], w)
      /\ x.k \in {"list", "set", "map"} => (Has(x.items, w) <=> Has(x.items, F[k]))
      /\ x.k = "set" => Equal(SetAdd(x, w), SetAdd(x, F[k])) /\ Equal(SetRemove(x, w), SetRemove(x, F[k]))
      /\ x.k = "map" => MapGet(x, w) = MapGet(x, F[k]) /\ Equal(MapPut(x, w, VNull), MapPut(x, F[k], VNull))
      /\ x.k = "list" => ListFind(x, w) = ListFind(x, F[k])
      /\ Equal(VSet(<<w>>), VSet(<<F[k]>>)) /\ Equal(VList(<<w>>), VList(<<F[k]>>))
      /\ Len(SetAdd(VSet(<<w>>), F[k]).items) = 1
\* and is told apart from every fresh value not Equal to it
Distinct ==
  \A k \in DOMAIN F : ~Equal(w, F[k]) =>
      /\ ~Equal(VSet(<<w>>), VSet(<<F[k]>>)) /\ ~Has(<<F[k]>>, w)
      /\ Len(SetAdd(VSet(<<w>>), F[k]).items) = 2

\* what each writer does to the content (on the part addressed by the path)
Effects ==
  LET op == last'.op  p == last'.path
      o == SubAt(w, p)  n == SubAt(w', p) IN
  CASE op.name = "touch"    -> w' = w
    [] op.name = "setat"    -> /\ Len(n.items) = Len(o.items) /\ n.items[op.i] = op.e
                               /\ \A q \in DOMAIN o.items : q # op.i => n.items[q] = o.items[q]
    [] op.name = "append"   -> IF o.k = "list" THEN n.items = Append(o.items, op.e)
                               ELSE Has(n.items, op.e) /\ (Has(o.items, op.e) => n = o)
    [] op.name = "insertat" -> /\ Len(n.items) = Len(o.items) + 1 /\ n.items[op.i] = op.e
                               /\ \A q \in DOMAIN o.items : n.items[IF q < op.i THEN q ELSE q + 1] = o.items[q]
    [] op.name = "deleteat" -> /\ Len(n.items) = Len(o.items) - 1
                               /\ \A q \in DOMAIN n.items : n.items[q] = o.items[IF q < op.i THEN q ELSE q + 1]
    [] op.name = "remove"   -> /\ Len(n.items) = Len(o.items) - 1
                               /\ o.k # "list" => ~Has(n.items, op.e)
    [] op.name = "put"      -> MapGet(n, op.e) = [ok |-> TRUE, v |-> op.x]
    [] op.name = "setchar"  -> Len(n.s) = Len(o.s) /\ n.s[op.i] = op.e.s[1]
    [] OTHER -> FALSE
EffectsProp == [][Effects]_vars

\* an edit below the top level leaves everything else of w as it was
Local ==
  LET p == last'.path IN
  Len(p) = 1 /\ w.k = "list" =>
     /\ Len(w'.items) = Len(w.items)
     /\ \A q \in DOMAIN w.items : q # p[1].i => w'.items[q] = w.items[q]
LocalProp == [][Local]_vars

ExportPool == w = VList(<< >>) => Emit("FPOOL", [f |-> F])

=============================================================================
