----------------------------- MODULE ValCont -----------------------------
(* C06 - a set object and a map object as the implementation keeps them
   (values.py ValueSet / ValueMap: host hash containers keyed by value
   objects), driven by their mutators.  The state is one container `obj`
   (a Val set or map: the representatives in insertion order); the actions are
   append / remove on a set and put / remove on a map; membership, lookup and
   container equality are reads whose laws are invariants over every reachable
   container.

   Mirrors: values.py ValueSet.addItem/removeItem/hasItem,
   ValueMap.addItem/removeItem/hasItem/getItem, nodes.py NodeIn,
   functions.py FuncAppend, FuncRemove, FuncPut, FuncSub (set difference).   *)
EXTENDS Val, TLC, Json, IOUtils, SequencesExt

CONSTANTS Tier, MaxSize, Export

\* elements / keys: pairs of Equal but distinguishable representatives
\* (1 ~ 1.0, [1] ~ [1.0], <<1,2>> ~ <<2,1>>, 0.0 ~ -0.0) among unequal values
\* Tier 3: values a hair apart - 0.3 and 0.1 + 0.2 (neighbouring doubles), two
\* dates one second apart, one of them below the year 1000 - must be kept apart
\* as reliably as Equal ones are merged.  (Two dates INSIDE one second are not
\* in the pool: whether they are equal is not named by the statement, see
\* Val.tla ResolutionOnly; they are judged on consistency in Val_Trace.)
E == IF Tier = 1
     THEN <<VInt(1), VDec(1, 1), VInt(2), VStr(<<97>>), VBool(1),
            VList(<<VInt(1)>>), VList(<<VDec(1, 1)>>), VStr(<<49>>)>>
     ELSE IF Tier = 3
     THEN <<VFine(1, <<4595, 5284, 3195, 5404>>, 54), VFine(1, <<1149, 8821, 798, 1351>>, 52),
            VDate(<<999, 12, 31, 23, 59, 59, 0>>), VDate(<<999, 12, 31, 23, 59, 58, 0>>),
            VInt(1), VDec(1, 1), VList(<<VFine(1, <<4595, 5284, 3195, 5404>>, 54)>>)>>
     ELSE <<VInt(1), VDec(1, 1), VInt(2), VStr(<<97>>), VBool(1), VBool(0),
            VList(<<VInt(1)>>), VList(<<VDec(1, 1)>>), VStr(<<49>>),
            VSet(<<VInt(1), VInt(2)>>), VSet(<<VInt(2), VDec(1, 1)>>),
            VDec(0, 1), VNegZero, VNull>>
\* values stored in the map
X == <<VInt(7), VStr(<<120>>)>>

EIdx == 1..Len(E)
XIdx == 1..Len(X)

VARIABLES obj,     \* the container
          last     \* label of the last transition [op, e, x]; not part of the
                   \* state identity (VIEW obj), read only by EffectsProp
vars == <<obj, last>>
View == obj

Emit(tag, rec) == IF Export THEN PrintT("@@" \o tag \o "@@" \o ToJson(rec)) ELSE TRUE

Init == obj \in {VSet(<< >>), VMap(<< >>, << >>)} /\ last = [op |-> "new", e |-> 0, x |-> 0]

\* compact export: a container as the indices of its items in E (and X)
IdxE(v) == CHOOSE e \in EIdx : E[e] = v
IdxX(v) == CHOOSE x \in XIdx : X[x] = v
Cmp(o) == [k |-> o.k, ks |-> [i \in DOMAIN o.items |-> IdxE(o.items[i])],
           vs |-> [i \in DOMAIN o.vals |-> IdxX(o.vals[i])]]
Edge(op, e, x) == Emit("EDGE", [pre |-> Cmp(obj), op |-> op, e |-> e, x |-> x, post |-> Cmp(obj')])

\* the steps (pure), and the actions (step + export of the transition)
Room(e) == Len(obj.items) < MaxSize \/ Has(obj.items, E[e])       \* model bound
AppendStep(e) == obj.k = "set" /\ Room(e) /\ obj' = SetAdd(obj, E[e])
\* removing an absent element is an error (C13), not modelled here
SetRemoveStep(e) == obj.k = "set" /\ Has(obj.items, E[e]) /\ obj' = SetRemove(obj, E[e])
PutStep(e, x) == obj.k = "map" /\ Room(e) /\ obj' = MapPut(obj, E[e], X[x])
MapRemoveStep(e) == obj.k = "map" /\ MapHas(obj, E[e]) /\ obj' = MapRemove(obj, E[e])

Lab(op, e, x) == last' = [op |-> op, e |-> e, x |-> x]
SetAppend(e)  == AppendStep(e) /\ Lab("append", e, 0) /\ Edge("append", e, 0)
SetRemoveA(e) == SetRemoveStep(e) /\ Lab("remove", e, 0) /\ Edge("remove", e, 0)
MapPutA(e, x) == PutStep(e, x) /\ Lab("put", e, x) /\ Edge("put", e, x)
MapRemoveA(e) == MapRemoveStep(e) /\ Lab("remove", e, 0) /\ Edge("remove", e, 0)

Next == \/ \E e \in EIdx : SetAppend(e) \/ SetRemoveA(e) \/ MapRemoveA(e)
        \/ \E e \in EIdx, x \in XIdx : MapPutA(e, x)

Spec == Init /\ [][Next]_vars

-----------------------------------------------------------------------------
TypeOK == WF(obj) /\ obj.k \in {"set", "map"}

\* a set never holds two equal elements (nor a map two equal keys)
NoEqualDuplicates == NoDup(obj.items)

\* membership and lookup give the same answer for equal representatives
Congruence ==
  \A e \in EIdx, f \in EIdx :
    Equal(E[e], E[f]) =>
      /\ Has(obj.items, E[e]) <=> Has(obj.items, E[f])
      /\ obj.k = "map" => MapGet(obj, E[e]) = MapGet(obj, E[f])
      /\ obj.k = "set" => Equal(SetRemove(obj, E[e]), SetRemove(obj, E[f]))
      /\ obj.k = "map" => Equal(MapRemove(obj, E[e]), MapRemove(obj, E[f]))
      /\ obj.k = "set" => Equal(SetDiff(obj, VSet(<<E[e]>>)), SetDiff(obj, VSet(<<E[f]>>)))

Perms(n) == {p \in [1..n -> 1..n] : \A i \in 1..n, j \in 1..n : i # j => p[i] # p[j]}
Reorder(o, p) == IF o.k = "set" THEN VSet([i \in DOMAIN o.items |-> o.items[p[i]]])
                 ELSE VMap([i \in DOMAIN o.items |-> o.items[p[i]]],
                           [i \in DOMAIN o.items |-> o.vals[p[i]]])
\* container equality and text do not depend on the insertion order
OrderIndependent ==
  \A p \in Perms(Len(obj.items)) :
    /\ Equal(obj, Reorder(obj, p))
    /\ Render(obj) = Render(Reorder(obj, p))

\* replacing every representative by an Equal one gives an Equal container
Swap(v) == IF \E e \in EIdx : Equal(E[e], v) /\ E[e] # v
           THEN CHOOSE w \in {E[e] : e \in EIdx} : Equal(w, v) /\ w # v ELSE v
RepresentativeFree ==
  Equal(obj, IF obj.k = "set" THEN VSet([i \in DOMAIN obj.items |-> Swap(obj.items[i])])
             ELSE VMap([i \in DOMAIN obj.items |-> Swap(obj.items[i])], obj.vals))

\* what the mutators do, as an action property over the labelled transition
AppendEffect(e) ==
    /\ Has(obj'.items, E[e])
    /\ Has(obj.items, E[e]) => obj' = obj
    /\ ~Has(obj.items, E[e]) => Len(obj'.items) = Len(obj.items) + 1
    /\ \A f \in EIdx : Has(obj.items, E[f]) => Has(obj'.items, E[f])
RemoveEffect(e) ==
    /\ ~Has(obj'.items, E[e])
    /\ Len(obj'.items) = Len(obj.items) - 1
    /\ \A f \in EIdx : ~Equal(E[f], E[e]) => (Has(obj.items, E[f]) <=> Has(obj'.items, E[f]))
    /\ obj.k = "map" => \A f \in EIdx : ~Equal(E[f], E[e]) => MapGet(obj, E[f]) = MapGet(obj', E[f])
PutEffect(e, x) ==
    /\ MapGet(obj', E[e]) = [ok |-> TRUE, v |-> X[x]]
    /\ Len(obj'.items) = Len(obj.items) + (IF MapHas(obj, E[e]) THEN 0 ELSE 1)
    /\ \A f \in EIdx : ~Equal(E[f], E[e]) => MapGet(obj, E[f]) = MapGet(obj', E[f])
Effects ==
  CASE last'.op = "append" -> AppendEffect(last'.e)
    [] last'.op = "remove" -> RemoveEffect(last'.e)
    [] last'.op = "put" -> PutEffect(last'.e, last'.x)
    [] OTHER -> FALSE
EffectsProp == [][Effects]_vars

\* the read table for binding A: per reachable container, membership and
\* lookup of every probe
ExportReads ==
  Emit("READ", [obj |-> Cmp(obj),
                has |-> [e \in EIdx |-> Has(obj.items, E[e])],
                get |-> [e \in EIdx |-> IF obj.k = "map" THEN MapGet(obj, E[e])
                                        ELSE [ok |-> FALSE, v |-> VNull]],
                txt |-> Render(obj)])
ExportPool == obj.items = << >> /\ obj.k = "set" => Emit("POOL", [e |-> E, x |-> X])

=============================================================================
