---------------------------- MODULE FormsCallOps ----------------------------
(* C13 round 3 - how the arguments of a call reach the parameters of a
   function: reference operators shared by FormsCall.tla (the model) and
   Natives_Trace.tla (validation of recorded bindings).

   The statement quantifies over "all argument tuples (arity <= 3)" of every
   function.  A tuple is not only a prefix of the parameter list: an argument
   may be written with the name of ANY parameter (`find_last(l, x, start = n)`
   is a three-argument tuple that reaches the fourth parameter; `sorted(l,
   key = f)` skips the second).  The sweep bound its tuples positionally only,
   so a parameter behind the third one - and every code path that needs an
   earlier optional parameter to be absent - was never fed a pool value.

   A signature is (n, rest): n named parameters 1..n and possibly a rest
   parameter.  A call is a sequence of binders, one per argument:
        0        written positionally
        1..n     written with the name of that parameter
        n + 1    written with a name the function lacks
   (values.py Args.setArgs; nodes.py invoke hands it names and values).      *)
EXTENDS Naturals, Integers, Sequences, FiniteSets

CallPos(call)   == {j \in 1..Len(call) : call[j] = 0}
CallNamed(call) == {j \in 1..Len(call) : call[j] > 0}
CallNamedParams(call) == {call[j] : j \in CallNamed(call)}

\* the k-th smallest element of a finite set of naturals (k in 1..|S|)
CallNth(S, k) == CHOOSE x \in S : Cardinality({y \in S : y < x}) = k - 1

\* the parameters no name of the call mentions, in order: the positional
\* arguments fill them from the left
CallFree(n, call) == (1..n) \ CallNamedParams(call)

(* The reference semantics, stated without the two passes of the code:
   - a name the function lacks is an error, wherever it stands;
   - a positional argument after a named one is an error;
   - more positional arguments than free parameters is an error unless the
     function has a rest parameter, which takes the surplus;
   - otherwise the parameter named by an argument holds the LAST argument
     that names it, and the k-th free parameter holds the k-th positional
     argument (a positional argument never lands on a named parameter).     *)
CallFirstMisplaced(call) ==
  LET bad == {j \in CallPos(call) : \E h \in CallNamed(call) : h < j}
  IN IF bad = {} THEN 0 ELSE CallNth(bad, 1)
CallFirstSurplus(n, rest, call) ==
  LET f == Cardinality(CallFree(n, call))
  IN IF rest \/ Cardinality(CallPos(call)) <= f THEN 0 ELSE CallNth(CallPos(call), f + 1)

CallErr(n, rest, call) ==
  LET m == CallFirstMisplaced(call)
      s == CallFirstSurplus(n, rest, call)
  IN IF \E j \in CallNamed(call) : call[j] = n + 1 THEN "unknown"
     ELSE IF m # 0 /\ (s = 0 \/ m <= s) THEN "order"
     ELSE IF s # 0 THEN "toomany"
     ELSE ""

\* the argument (its index in the call) parameter p holds; 0 = none
CallArgOf(n, call, p) ==
  IF p \in CallNamedParams(call)
  THEN LET js == {j \in CallNamed(call) : call[j] = p} IN CallNth(js, Cardinality(js))
  ELSE LET k == Cardinality({q \in CallFree(n, call) : q <= p})
       IN IF k <= Cardinality(CallPos(call)) THEN CallNth(CallPos(call), k) ELSE 0
CallBound(n, call) == [p \in 1..n |-> CallArgOf(n, call, p)]
\* the positional arguments the rest parameter takes, in order
CallRest(n, call) ==
  LET f == Cardinality(CallFree(n, call))
      k == Cardinality(CallPos(call))
  IN [i \in 1..(IF k > f THEN k - f ELSE 0) |-> CallNth(CallPos(call), f + i)]

(* One call per SET of parameters that receive a value is enough for the
   sweep (the pool tuples are enumerated exhaustively, so which argument
   carries which value does not matter): the canonical call binds the longest
   prefix positionally and the others by name, in parameter order.  A
   canonical call with at least one name is a binding the positional sweep
   cannot produce.                                                           *)
CallCanon(n, call) ==
  LET j == Cardinality(CallPos(call)) IN
    /\ j <= n
    /\ \A h \in 1..Len(call) : (h <= j) <=> (call[h] = 0)
    /\ \A h \in (j + 1)..Len(call) : call[h] >= j + 2 /\ call[h] <= n
    /\ \A h \in (j + 1)..(Len(call) - 1) : call[h] < call[h + 1]
CallSkips(n, call) == CallCanon(n, call) /\ CallNamed(call) # {}

(* What the probe function of the harness returns for a call whose j-th
   argument is the int 10 * j: the list of its parameters (default -1) and
   then the rest arguments.                                                  *)
CallObserved(n, rest, call) ==
  [p \in 1..n |-> IF CallBound(n, call)[p] = 0 THEN 0 - 1 ELSE 10 * CallBound(n, call)[p]]
  \o (IF rest THEN [i \in 1..Len(CallRest(n, call)) |-> 10 * CallRest(n, call)[i]] ELSE << >>)
=============================================================================
