CONSTANTS
  MaxList = 3
  MaxPerm = 5
  Span = 12
  MaxShift = 40
  Fams = {"pair", "flat", "range", "func", "perm", "num", "bits"}
  Export = TRUE
SPECIFICATION Spec
INVARIANT TypeOK
INVARIANT SetLaws
INVARIANT UniqueLaw
INVARIANT StructLaws
INVARIANT FlattenLaw
INVARIANT RangeLaws
INVARIANT FuncLaws
INVARIANT PermLaws
INVARIANT NumLaws
INVARIANT BitLaws
CHECK_DEADLOCK FALSE
