CONSTANTS
  MaxList = 3
  MaxPerm = 5
  Span = 12
  MaxShift = 40
  Fams = {"pair", "flat", "range", "func", "perm", "num", "bits", "wide", "xperm", "pow", "powbig"}
  MaxWide = 2
  MaxWideB = 1
  MaxXPerm = 3
  PowExps = {31, 32, 53, 64, 100, 127, 128, 255, 256, 400}
  Export = TRUE
SPECIFICATION Spec
INVARIANT TypeOK
INVARIANT SetLaws
INVARIANT UniqueLaw
INVARIANT StructLaws
INVARIANT FlattenLaw
INVARIANT RangeLaws
INVARIANT FuncLaws
INVARIANT PermLaws
INVARIANT NumLaws
INVARIANT BitLaws
INVARIANT WideLaws
INVARIANT XPermLaws
INVARIANT AgreeLaws
INVARIANT PowLaws
CHECK_DEADLOCK FALSE
