---------------------------- MODULE ParserMC ----------------------------
(* Token-class alphabets for the configurations of Parser.tla. *)
EXTENDS Parser

T(ty, v) == [ty |-> ty, v |-> v]
KWS(S) == {T("keyword", x) : x \in S}
OPS(S) == {T("operator", x) : x \in S}
IPS(S) == {T("interpunction", x) : x \in S}
IDS(S) == {T("identifier", x) : x \in S}
LITS == {T("int", "1"), T("decimal", "1.5"), T("string", "s"), T("boolean", "TRUE"), T("pattern", "//a//")}

AllKW == KWS({"if","then","elif","else","and","or","not","is","in","def","fn","for","while","do",
              "end","finally","catch","break","continue","return","error","require","as","also"})
AllOP == OPS({"+","-","*","/","%","==","<>","!=","<","<=",">",">=","=","+=","-=","*=","/=","%=","!>","->","!"})
AllIP == IPS({"(",")","[","]",",",";","<<",">>","<<<",">>>","=>","<*","*>","..."})
AllID == IDS({"x","rest...","all","unqualified","import","keys","values","entries","to","class",
              "empty","zero","negative","numerical","alphanumerical","date","with","hour","time",
              "string","int","decimal","boolean","pattern","None","func","input","output","list",
              "set","map","object","node","min_len","max_len","exact_len","starts","ends",
              "contains","matches"})
Full == AllKW \cup AllOP \cup AllIP \cup AllID \cup LITS

\* expressions, calls, indexing
SigExpr == {T("int","1"), T("identifier","x"), T("string","s")} \cup OPS({"+","*","-","<","==","=","!>","->"})
           \cup KWS({"and","or","not","is","in"}) \cup IPS({"(",")","[","]",","}) \cup IDS({"to","empty"})
\* statements and blocks
SigStmt == {T("int","1"), T("identifier","x")} \cup KWS({"def","for","in","while","do","end","catch","finally",
           "if","then","elif","else","return","break","error","fn"}) \cup OPS({"="}) \cup IPS({"(",")",";","[","]",","})
           \cup IDS({"all","class","keys"})
\* literals and comprehensions
SigLit == {T("int","1"), T("identifier","x")} \cup KWS({"for","in","if","also"}) \cup OPS({"="})
          \cup IPS({"[","]","<<",">>","<<<",">>>","=>","<*","*>",",","...","(",")"}) \cup IDS({"values","rest..."})
\* require forms and predicates
SigReq == {T("identifier","x"), T("string","s"), T("int","1")} \cup KWS({"require","as","is","not","in"})
          \cup IPS({"[","]",",",";"}) \cup IDS({"unqualified","import","numerical","min_len","date","with","hour",
          "starts","with","contains","matches","list"})
\* block scaffolding: empty and degenerate blocks, functions, classes
SigEmpty == {T("int","1"), T("identifier","x"), T("identifier","class"), T("identifier","all")}
            \cup KWS({"fn","do","end","def","catch","finally","return","if","then","while"}) \cup OPS({"="}) \cup IPS({"(",")",";"})
=============================================================================
