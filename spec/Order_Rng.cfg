CONSTANTS
  Seeds = {1, 7, 11}
  Starts = {0, 4711}
  MaxDraws = 3
  Source <- AllSeeded
SPECIFICATION Spec
INVARIANT TypeOK
INVARIANT InRange
INVARIANT Determinism
INVARIANT ReportVary
CHECK_DEADLOCK FALSE
