--------------------------- MODULE Natives_Trace ---------------------------
(* C13, binding B: validation of outcomes recorded from the interpreter.

   One event per executed case:
     site    the syntactic form ("form:<name>") or the function ("Core:add",
             "base:length", "nonsecure:OS:execute", ...)
     form    the form's name in FormsOps!Forms, "" for a function
     tags    the pool tags of the arguments (first tuple with this outcome
             when n > 1)
     n       number of argument tuples of this site with this outcome
     out     what left Interpreter.interpret:
               "value"                  a Value was returned
               "error:ok"               CklRuntimeError carrying a Value
               "error:value-is-<type>"  CklRuntimeError whose value is no Value
               "syntax"                 CklSyntaxError
               "host:<ExceptionClass>"  any other exception
               "badvalue:<type>"        the result is not a Value
               "timeout"                no outcome within the time bound
     caught  "" (not probed) or what `do <case> catch all 'c13-caught' end`
             did: "caught" | "escaped:<Class>" | "not-raised" | "timeout"
     scaled  "" or the outcome of the same case with 2^70 replaced by 10^4

   An event is accepted iff it is the outcome the property allows: a value
   (AcceptValue) or the language's runtime error with an error value that
   catch intercepts (AcceptError).  AcceptScaled is the one stated relaxation:
   work proportional to the magnitude of an integer argument (range(2^70))
   terminates in principle; it is accepted only if the scaled-down case
   yields a proper outcome.  `host:*`, `timeout`, `syntax`, `badvalue:*` and
   improper errors are accepted by no action: Reject lists them (@@BAD@@) and
   moves on.  For the forms the outcome class is also compared with the
   prediction of FormsOps (@@DRIFT@@, never BAD).

   Round 2: an event with form = "graph" is a program of FormsGraph.tla; it
   carries g = [kinds, steps, obs].  The heap is re-derived here from the
   recorded steps (HeapOf) and the outcome class compared with PredG (drift
   only, and only where the model commits itself: not for "any").  The
   verdict is the same grammar of outcomes as for every other event.         *)
EXTENDS FormsOps, FormsGraphOps, TLC, Json, IOUtils

Trace == ndJsonDeserialize(IOEnv.TRACE_FILE)
VARIABLE l
vars == <<l>>
Ev == Trace[l]

Proper(o) == o \in {"value", "error:ok"}
Class(o) == IF o = "value" THEN "value" ELSE "error"

ValueOK(e)  == e.out = "value"
\* "not-raised": the second evaluation did not raise at all (functions of the
\* Random module) - no evidence either way
ErrorOK(e)  == e.out = "error:ok" /\ e.caught \in {"", "caught", "not-raised"}
ScaledOK(e) == e.out \in {"timeout", "host:MemoryError"} /\ Proper(e.scaled)
Allowed(e)  == ValueOK(e) \/ ErrorOK(e) \/ ScaledOK(e)

\* prediction drift, forms only
Drift(e) == /\ e.form # "" /\ IsForm(e.form) /\ Proper(e.out)
            /\ PredictTags(e.form, e.tags) # Class(e.out)
\* the same for the programs of FormsGraph
GraphPred(e) == PredG(HeapOf(e.g.kinds, e.g.steps, Len(e.g.steps)), e.g.obs)
GraphDrift(e) == /\ e.form = "graph" /\ Proper(e.out)
                 /\ GraphPred(e) \in {"value", "error"}
                 /\ GraphPred(e) # Class(e.out)
Note == /\ (Drift(Ev) => PrintT("@@DRIFT@@" \o ToJson([l |-> l, pred |-> PredictTags(Ev.form, Ev.tags)])))
        /\ (GraphDrift(Ev) => PrintT("@@DRIFT@@" \o ToJson([l |-> l, pred |-> GraphPred(Ev)])))
        /\ (l = Len(Trace) => PrintT("@@DONE@@" \o ToJson([n |-> l])))

Init == l = 1
Advance == l <= Len(Trace) /\ l' = l + 1 /\ Note

More == l <= Len(Trace)
AcceptValue  == More /\ ValueOK(Ev) /\ Advance
AcceptError  == More /\ ErrorOK(Ev) /\ Advance
AcceptScaled == More /\ ScaledOK(Ev) /\ Advance
Reject == /\ More /\ ~Allowed(Ev)
          /\ PrintT("@@BAD@@" \o ToJson([l |-> l, out |-> Ev.out, caught |-> Ev.caught]))
          /\ Advance

Next == AcceptValue \/ AcceptError \/ AcceptScaled \/ Reject
Spec == Init /\ [][Next]_vars
Consumed == TLCGet("stats").diameter - 1 = Len(Trace)
=============================================================================
