--------------------------- MODULE Natives_Trace ---------------------------
(* C13, binding B: validation of outcomes recorded from the interpreter.

   One event per executed case:
     site    the syntactic form ("form:<name>") or the function ("Core:add",
             "base:length", "nonsecure:OS:execute", ...)
     form    the form's name in FormsOps!Forms, "" for a function
     tags    the pool tags of the arguments (first tuple with this outcome
             when n > 1)
     n       number of argument tuples of this site with this outcome
     out     what left Interpreter.interpret:
               "value"                  a Value was returned
               "error:ok"               CklRuntimeError carrying a Value
               "error:value-is-<type>"  CklRuntimeError whose value is no Value
               "syntax"                 CklSyntaxError
               "host:<ExceptionClass>"  any other exception
               "badvalue:<type>"        the result is not a Value
               "timeout"                no outcome within the time bound
     caught  "" (not probed) or what `do <case> catch all 'c13-caught' end`
             did: "caught" | "escaped:<Class>" | "not-raised" | "timeout"
     scaled  << >> or, for a case holding a huge int (HugeTags) that did not
             end: the runs of the same case with stand-ins of increasing
             magnitude in place of the huge ints, [m, out, size] (size = how
             large the resulting value is: elements, characters, bits)
     witness [tags, runs]: another case of the same site (its argument tags
             and its stand-in runs), or [tags |-> << >>, runs |-> << >>]

   An event is accepted iff it is the outcome the property allows: a value
   (AcceptValue) or the language's runtime error with an error value that
   catch intercepts (AcceptError).  AcceptScaled is the one stated relaxation:
   a result whose SIZE is proportional to the magnitude of an integer argument
   (range(2^70), pow(2, 2^70)) cannot be produced faster than it can be
   written down; such a case terminates in principle.  Round 3: that a case
   with 10^4 in place of the number ends proves nothing about the case itself
   (rendering 10^5000 that never ends, a year-by-year count up to 2^70 were
   excused that way).  The excuse now needs evidence of proportionality: the
   stand-in runs all end properly AND the size of their results grows with
   the stand-in (Grows), or - for a case that fails after such work was done,
   choices([], 2^70) - another case of the same site with the huge ints at
   the same argument positions shows that growth (Witnessed).  `host:*`, `timeout`, `syntax`, `badvalue:*` and
   improper errors are accepted by no action: Reject lists them (@@BAD@@) and
   moves on.  For the forms the outcome class is also compared with the
   prediction of FormsOps (@@DRIFT@@, never BAD).

   Round 2: an event with form = "graph" is a program of FormsGraph.tla; it
   carries g = [kinds, steps, obs].  The heap is re-derived here from the
   recorded steps (HeapOf) and the outcome class compared with PredG (drift
   only, and only where the model commits itself: not for "any").  The
   verdict is the same grammar of outcomes as for every other event.

   Round 3: an event with form = "call" is a call of FormsCall.tla on a probe
   function (c = [n, rest, call, seen, obs]); whether it binds and what the
   parameters hold is compared with FormsCallOps (drift only).  The function
   sweep now also calls every function in the shapes that bind parameters by
   name; such an event names the shape in its site
   ("base:find_last(_,_,start=_)") and is judged like any other.             *)
EXTENDS FormsOps, FormsGraphOps, FormsCallOps, TLC, Json, IOUtils

Trace == ndJsonDeserialize(IOEnv.TRACE_FILE)
VARIABLE l
vars == <<l>>
Ev == Trace[l]

Proper(o) == o \in {"value", "error:ok"}
Class(o) == IF o = "value" THEN "value" ELSE "error"

ValueOK(e)  == e.out = "value"
\* "not-raised": the second evaluation did not raise at all (functions of the
\* Random module) - no evidence either way
ErrorOK(e)  == e.out = "error:ok" /\ e.caught \in {"", "caught", "not-raised"}
HugeTags == {"big", "x_ihuge", "x_i5000"}
Growth == 5        \* ten times the number, at least five times the result
HugeAt(tags) == {i \in 1..Len(tags) : tags[i] \in HugeTags}
AllProper(runs) == Len(runs) >= 2 /\ \A i \in 1..Len(runs) : Proper(runs[i].out)
Grows(runs) == /\ Len(runs) >= 2
               /\ \A i \in 1..Len(runs) : runs[i].out = "value" /\ runs[i].size > 0
               /\ \A i \in 1..(Len(runs) - 1) : /\ runs[i].m < runs[i + 1].m
                                                 /\ runs[i + 1].size >= Growth * runs[i].size
Witnessed(e) == Grows(e.witness.runs) /\ HugeAt(e.witness.tags) = HugeAt(e.tags)
ScaledOK(e) == /\ e.out \in {"timeout", "host:MemoryError"}
               /\ HugeAt(e.tags) # {}
               /\ AllProper(e.scaled)
               /\ (Grows(e.scaled) \/ Witnessed(e))
Allowed(e)  == ValueOK(e) \/ ErrorOK(e) \/ ScaledOK(e)

\* prediction drift, forms only
Drift(e) == /\ e.form # "" /\ IsForm(e.form) /\ Proper(e.out)
            /\ PredictTags(e.form, e.tags) # Class(e.out)
\* the same for the programs of FormsGraph
GraphPred(e) == PredG(HeapOf(e.g.kinds, e.g.steps, Len(e.g.steps)), e.g.obs)
GraphDrift(e) == /\ e.form = "graph" /\ Proper(e.out)
                 /\ GraphPred(e) \in {"value", "error"}
                 /\ GraphPred(e) # Class(e.out)
\* round 3: an event with form = "call" is a decided call of FormsCall.tla run on the probe
\* function; c = [n, rest, call, seen, obs].  The model says whether the call binds and, if so,
\* what every parameter holds.
CallBinds(e) == CallErr(e.c.n, e.c.rest, e.c.call) = ""
CallDrift(e) == /\ e.form = "call" /\ Proper(e.out)
                /\ \/ CallBinds(e) # (e.out = "value")
                   \/ (e.out = "value" /\ e.c.seen /\ e.c.obs # CallObserved(e.c.n, e.c.rest, e.c.call))
Note == /\ (CallDrift(Ev) => PrintT("@@DRIFT@@" \o ToJson([l |-> l, pred |-> CallErr(Ev.c.n, Ev.c.rest, Ev.c.call)])))
        /\ (Drift(Ev) => PrintT("@@DRIFT@@" \o ToJson([l |-> l, pred |-> PredictTags(Ev.form, Ev.tags)])))
        /\ (GraphDrift(Ev) => PrintT("@@DRIFT@@" \o ToJson([l |-> l, pred |-> GraphPred(Ev)])))
        /\ (l = Len(Trace) => PrintT("@@DONE@@" \o ToJson([n |-> l])))

Init == l = 1
Advance == l <= Len(Trace) /\ l' = l + 1 /\ Note

More == l <= Len(Trace)
AcceptValue  == More /\ ValueOK(Ev) /\ Advance
AcceptError  == More /\ ErrorOK(Ev) /\ Advance
AcceptScaled == More /\ ScaledOK(Ev) /\ Advance
Reject == /\ More /\ ~Allowed(Ev)
          /\ PrintT("@@BAD@@" \o ToJson([l |-> l, out |-> Ev.out, caught |-> Ev.caught]))
          /\ Advance

Next == AcceptValue \/ AcceptError \/ AcceptScaled \/ Reject
Spec == Init /\ [][Next]_vars
Consumed == TLCGet("stats").diameter - 1 = Len(Trace)
=============================================================================
