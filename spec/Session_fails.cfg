\* C10 round 3: defining statements that fail themselves; module loads that fail
\* with something that is not an error of the language (unreadable file, directory
\* in place of the file, host stack exhausted), also nested in a sound module
CONSTANTS
  Interps = {"i1"}
  UnwindOnFailure = TRUE
  DetachCallerEnv = TRUE
  Mode = "c10"
  ModSeq <- Mods2
  MaxOut = 0
  GenRot = TRUE
  GenBack = "all"
  GenSorted = FALSE
  MaxCtr = 1
  LoadCap = 1
  MaxReq = 0
  CmdsOf <- C10Fails
  Export = TRUE
SPECIFICATION Spec
INVARIANT TypeOK
INVARIANT StackEmptyBetweenCalls
INVARIANT FailIsIdempotent
INVARIANT FailLeavesNoResidue
INVARIANT CallerEnvDetached
INVARIANT SessionsIsolated
INVARIANT LoadOnce
INVARIANT ModuleScopeIsBaseBorn
INVARIANT ModulesFromOwnDirectory
INVARIANT SingleInstance
INVARIANT CycleIsError
INVARIANT ExportState
PROPERTY DefsPersist
PROPERTY Isolation
PROPERTY LoadOnlyInLoadStep
PROPERTY BindsExactly
PROPERTY FailedDefinerDefinesNothing
PROPERTY Terminates
CHECK_DEADLOCK FALSE
