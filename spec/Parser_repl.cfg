CONSTANTS
  Sigma <- SigReq
  MaxTok = 4
  MaxStack = 80
  MaxFuel = 400
  Export = FALSE
SPECIFICATION Spec
INVARIANT TypeOK
INVARIANT NoStuck
INVARIANT ErrAtWithinInput
INVARIANT EofOnlyAtEnd
INVARIANT AcceptConsumesAll
INVARIANT ExportRuns
PROPERTY EndOfInputIsEof
CHECK_DEADLOCK FALSE
