\* C11 round 3, deviation (must give TLC a counterexample of BindsExactly):
\* a require does not re-bind a name the importer's scope already holds
\* (RebindKeep)
CONSTANTS
  Interps = {"i1"}
  UnwindOnFailure = TRUE
  DetachCallerEnv = TRUE
  Mode = "c11"
  ModSeq <- Mods2
  MaxOut = 1
  GenRot = TRUE
  GenBack = "all"
  GenSorted = FALSE
  MaxCtr = 1
  LoadCap = 2
  MaxReq = 2
  CmdsOf <- C11Cmds3
  Export = FALSE
  Rebind <- RebindKeep
SPECIFICATION Spec
INVARIANT TypeOK
PROPERTY BindsExactly
CHECK_DEADLOCK FALSE
