---- MODULE MC_loop ----
EXTENDS MachineRun
Progs == LoopParams(0)
====
