---------------------------- MODULE Heap_Trace ----------------------------
(* C16, binding B: the function sweep recorded from the implementation.

   One trace = one interpreter session over a pool of container-bearing
   values bound to names p1..pN.  Values are logged as the identifiers of
   their rendered forms (`string(x)`; the harness interns every distinct
   rendering as an int, so equal ids <=> equal renderings).
     [op |-> "new",  pool |-> <<ids>>]            the pool was (re)built
     [op |-> "call", fn |-> name, args |-> <<pool positions>>,
                     post |-> <<ids of every pool value after the call>>,
                     is |-> <<pool positions>>, holds |-> <<pool positions>>]
                     (the containers among the arguments that the returned
                     value IS / HOLDS below its top level: identity of the
                     implementation's objects, so a later change of one
                     would show in the other)
   State: `cur`, the model's idea of what every pool value renders to.  The
   model steps through the trace: a call may change only what the property
   statement allows (HeapOps!MayChange: the FIRST argument of a documented
   mutator - a function of MutatorFns or an element / member assignment form of
   MutatorForms -, nothing otherwise), and everything else - the other arguments and
   every pool value that was not passed at all - must be what it was.  A call
   that changed more is reported (@@BAD@@) and the model re-synchronises on
   the logged content so the rest of the trace is still checked.  The returned
   value must be independent of the arguments (HeapOps!ResultIndependent:
   only a mutator returns its target, only selectors return an argument, only
   constructors hold one).  Whether the
   call returned, raised a runtime error or a host exception is not looked at
   (that is C13). *)
EXTENDS HeapOps, TLC, Json, IOUtils

Trace == ndJsonDeserialize(IOEnv.TRACE_FILE)

VARIABLES l, cur
vars == <<l, cur>>

Ev == Trace[l]
Bad(why) == PrintT("@@BAD@@" \o ToJson([l |-> l, why |-> why]))
Check(c, why) == c \/ Bad(why)

Init == l = 1 /\ cur = << >>

Step ==
  /\ l <= Len(Trace)
  /\ l' = l + 1
  /\ CASE Ev.op = "new" -> cur' = Ev.pool
       [] Ev.op = "call" ->
            /\ cur' = Ev.post
            /\ Check(OnlyChanged(cur, Ev.post, MayChange(Ev.fn, Ev.args)),
                     IF Ev.fn \in Mutators THEN "mutator-changed-more-than-its-target"
                     ELSE "non-mutator-changed-a-value")
            /\ Check(ResultIndependent(Ev.fn, Ev.args, Range(Ev.is), Range(Ev.holds)),
                     "result-not-independent-of-its-argument")
       [] OTHER -> cur' = cur /\ Bad("unknown-op")
  /\ (l = Len(Trace) => PrintT("@@DONE@@" \o ToJson([n |-> l])))

Spec == Init /\ [][Step]_vars

Accepted == TLCGet("stats").diameter - 1 = Len(Trace)
=============================================================================
