CONSTANTS
  Tier = 3
  MaxSize = 2
  Export = TRUE
SPECIFICATION Spec
VIEW View
INVARIANT TypeOK
INVARIANT NoEqualDuplicates
INVARIANT Congruence
INVARIANT OrderIndependent
INVARIANT RepresentativeFree
INVARIANT ExportReads
INVARIANT ExportPool
PROPERTY EffectsProp
CHECK_DEADLOCK FALSE
