---------------------------- MODULE SecureCases ----------------------------
(* C09 - the case families of SecureOps written out for the harness: the
   argument tuples per number of parameters (CallShapes) and the module specs
   handed to `require` (ForeignSpecs, CoreSpecs).  Constant-level: evaluated
   once, printed as JSON; the harness turns the symbols into program text. *)
EXTENDS SecureOps, TLC, Json, SequencesExt

MaxArity == 5

\* entry n + 1 holds the tuples for n parameters
ShapeTable(more) == [k \in 1..(MaxArity + 1) |-> SetToSeq(CallShapes(k - 1, more))]

ASSUME \A n \in 0..MaxArity : \A s \in CallShapes(n, TRUE) :
          Len(s) <= (IF n = 0 THEN 1 ELSE n) /\ \A i \in DOMAIN s : s[i] \in Palette(TRUE)
ASSUME \A n \in 0..MaxArity : CallShapes(n, FALSE) \subseteq CallShapes(n, TRUE)
ASSUME \A n \in 1..MaxArity : CallShapes(n - 1, FALSE) \subseteq CallShapes(n, FALSE)
\* every target stands in every parameter position next to every companion
ASSUME \A n \in 2..MaxArity : \A i \in 1..n : \A t \in TargetsCore : \A c \in CompanionsCore :
          \E s \in CallShapes(n, FALSE) : Len(s) = n /\ s[i] = t /\ \A j \in DOMAIN s : j # i => s[j] = c
ASSUME CoreSpecs \subseteq ForeignSpecs

ASSUME PrintT("@@SHAPES@@" \o ToJson([quick |-> ShapeTable(FALSE), thorough |-> ShapeTable(TRUE)]))
ASSUME PrintT("@@SPECS@@" \o ToJson([all |-> SetToSeq(ForeignSpecs), core |-> SetToSeq(CoreSpecs)]))
ASSUME PrintT("@@CLI@@" \o ToJson([cases |-> SetToSeq({[fe |-> f, opts |-> SetToSeq(o),
                                                       secure |-> CliSecure(o), legacy |-> CliLegacy(o)] :
                                                      f \in FrontEnds, o \in CliOptionSets})]))

VARIABLE done
Init == done = FALSE
Next == done' = TRUE /\ ~done
Spec == Init /\ [][Next]_done
=============================================================================
