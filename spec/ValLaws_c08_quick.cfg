CONSTANTS
  Tier = 1
  MaxStr = 4
  Export = TRUE
  Need = {"tx"}
SPECIFICATION Spec
INVARIANT TypeOK
INVARIANT OrderFreeText
INVARIANT RenderCanonical
INVARIANT RenderInjective
INVARIANT RenderShape
INVARIANT NoBracketFusion
INVARIANT EscapeRoundTrip
INVARIANT MakerShape
INVARIANT MakerLaws
INVARIANT RenderObserverFree
INVARIANT RenderConvUnstated
INVARIANT ExportU
INVARIANT ExportTx
INVARIANT ExportMk
INVARIANT ExportVia
CHECK_DEADLOCK FALSE
