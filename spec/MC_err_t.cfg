CONSTANTS
  Names <- Names_
  Programs <- Progs
  Export = TRUE
SPECIFICATION Spec
INVARIANT TypeOK
INVARIANT FinallyOnce
INVARIANT NoStmtAfterFailure
INVARIANT BlocksBalanced
INVARIANT HandlerAfterRaise
INVARIANT FreshFrames
INVARIANT ExportRuns
CHECK_DEADLOCK FALSE
