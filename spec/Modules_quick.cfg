\* C11: generated module graphs over 3 modules (<= 2 requires each, form and
\* load-time bump of an edge fixed by its position), every importer program
\* of <= 2 commands
CONSTANTS
  Interps = {"i1"}
  UnwindOnFailure = TRUE
  Mode = "c11"
  ModSeq <- Mods3
  MaxOut = 2
  GenRot = TRUE
  MaxCtr = 1
  LoadCap = 2
  MaxReq = 2
  CmdsOf <- C11Cmds
  Export = TRUE
SPECIFICATION Spec
INVARIANT TypeOK
INVARIANT StackEmptyBetweenCalls
INVARIANT FailIsIdempotent
INVARIANT LoadOnce
INVARIANT ModuleScopeIsBase
INVARIANT SingleInstance
INVARIANT CycleIsError
INVARIANT ExportState
PROPERTY DefsPersist
PROPERTY Isolation
PROPERTY LoadOnlyInLoadStep
PROPERTY BindsExactly
PROPERTY Terminates
CHECK_DEADLOCK FALSE
