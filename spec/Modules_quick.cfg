\* C11 quick A: every module graph over 3 modules (<= 2 requires each, in module
\* order of their targets; form and
\* load-time bump of an edge fixed by its position), every form of requiring
\* the first module followed by the bumps it makes possible
CONSTANTS
  Interps = {"i1"}
  UnwindOnFailure = TRUE
  DetachCallerEnv = TRUE
  Mode = "c11"
  ModSeq <- Mods3
  MaxOut = 2
  GenRot = TRUE
  GenBack = "all"
  GenSorted = TRUE
  MaxCtr = 1
  LoadCap = 2
  MaxReq = 2
  CmdsOf <- C11Entry4
  Export = TRUE
SPECIFICATION Spec
INVARIANT TypeOK
INVARIANT StackEmptyBetweenCalls
INVARIANT FailIsIdempotent
INVARIANT LoadOnce
INVARIANT ModuleScopeIsBase
INVARIANT SingleInstance
INVARIANT CycleIsError
INVARIANT ExportState
PROPERTY DefsPersist
PROPERTY Isolation
PROPERTY LoadOnlyInLoadStep
PROPERTY BindsExactly
CHECK_DEADLOCK FALSE
