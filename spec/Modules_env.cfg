\* C11 round 5: importers that run in a caller-supplied environment
\* (interpret(script, name, environment): a fresh environment / the leaf of a
\* chain the caller keeps, each holding the caller's own `secret`) next to
\* importers in the session: every module graph over 2 modules with <= 1
\* require per module, every program of <= 2 commands
CONSTANTS
  Interps = {"i1"}
  UnwindOnFailure = TRUE
  DetachCallerEnv = TRUE
  Mode = "c11"
  ModSeq <- Mods2
  MaxOut = 1
  GenRot = TRUE
  GenBack = "all"
  GenSorted = FALSE
  MaxCtr = 1
  LoadCap = 2
  MaxReq = 2
  CmdsOf <- C11Env
  Export = TRUE
SPECIFICATION Spec
INVARIANT TypeOK
INVARIANT StackEmptyBetweenCalls
INVARIANT FailIsIdempotent
INVARIANT LoadOnce
INVARIANT ModuleScopeIsBase
INVARIANT SingleInstance
INVARIANT CycleIsError
INVARIANT ExportState
PROPERTY DefsPersist
PROPERTY Isolation
PROPERTY LoadOnlyInLoadStep
PROPERTY BindsExactly
PROPERTY Terminates
CHECK_DEADLOCK FALSE
