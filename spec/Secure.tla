------------------------------- MODULE Secure -------------------------------
(* C09 - the capability gate of secure mode.

   Mirrors: functions.py get_base_environment (the base flag
   `checkerlang_secure_mode`, the bundled base script evaluated in the base
   environment), bind_native / bind_native_fun (one gate in front of every
   native function: `flag and not func.secure` -> not bound), FuncBindNative
   (binds in the *calling* environment, under the native's own name and
   optionally an alias), nodes.py NodeRequire (a module is evaluated once in a
   fresh child of the base environment; `unqualified` copies its non-private
   symbols), NodeDef (binds in the current frame, never in the base),
   NodeAssign / NodeAssignDestructuring (assignment to checkerlang_* rejected),
   interpreter.py Interpreter.__init__ (`run` registered only when not secure).

   The tables `Natives`, `ModuleBinds`, `BaseBinds`, ... are NOT written here:
   the harness extracts them from the current source tree at check time and
   passes them as JSON (IOEnv.C09_DATA):
   - "the names the binder knows" are found by TRYING: every string constant
     of the package's sources, every bind_native argument of the bundled
     modules and the name carried by every function class is handed to the
     binder in front of an open gate (directly and through the language's
     bind_native); the names that bind something are the names it knows,
     however they are registered (comparison chain, table, helper);
   - every function class of the package is a native of this table, whether
     or not a name binds it (`known`): a function value of such a class met
     anywhere in a secure interpreter is judged like the others;
   - the `secure` attribute is read from each function object, `osTouching` is
     measured by invoking the function under an audit hook inside a canary
     directory with every argument tuple of SecureOps!CallShapes;
   - the module tables are read off interpreters whose gate is held open.

   Isolation: the decision of the gate is that of the interpreter the program
   runs in.  The host may construct other interpreters of any configuration in
   the same process, before or after this one (ConstructOther); nothing of
   this interpreter's state changes and the gate goes on consulting its own
   base flag.                                                               *)
EXTENDS SecureOps, TLC, Json, IOUtils, SequencesExt

CONSTANTS MaxLen,     \* program actions per behaviour in a secure interpreter
          Export,     \* TRUE: print every transition with the expected observation
          OtherUntil  \* another interpreter may be constructed while fewer actions than this have run

Data == JsonDeserialize(IOEnv.C09_DATA)

Natives        == Data.natives            \* id -> [secureAttr, osTouching, isFunc, fname, takesAlias]
Ids            == DOMAIN Natives
SecureAttr(id) == Natives[id].secureAttr
OsTouching(id) == Natives[id].osTouching
IsFunc(id)     == Natives[id].isFunc
FName(id)      == Natives[id].fname       \* the name the function object carries
TakesAlias(id) == Natives[id].takesAlias  \* bind_native hands the alias on for this native
Known(id)      == Natives[id].known       \* some name makes the binder bind a function of this class
Modules        == DOMAIN Data.moduleBinds \* identifiers of the bundled modules
ModuleBinds(m) == Elems(Data.moduleBinds[m])   \* native bindings a module's environment holds
ModuleLoads(m) == Elems(Data.moduleLoads[m])   \* modules loaded by `require m` (m included)
BaseBinds(leg) == Elems(IF leg THEN Data.baseBinds.legacy ELSE Data.baseBinds.plain)
BootLoads(leg) == Elems(IF leg THEN Data.bootLoads.legacy ELSE Data.bootLoads.plain)
HasRun         == Data.hasRun             \* the tree has a `run` built-in to register
BinderIds      == {id \in Ids : Known(id)} \ {"run"}   \* names the binder knows (`run` is registered, not bound)
\* The alphabet narrows with depth: the first action ranges over everything the
\* binder knows, every module and every flag form; action number n+1 (n >= 1)
\* over Data.levels[n] = [ids, mods, shadow, assign] (forbidden natives,
\* bind_native and seeded secure representatives; the modules that hold
\* forbidden natives and seeded others).
Level(n)       == Data.levels[IF n < Len(Data.levels) THEN n ELSE Len(Data.levels)]
Probe          == Data.probe              \* a forbidden native tried inside shadowed scopes
ShadowForms    == Elems(Data.shadowForms) \* [form, env]: ways of *defining* the flag name
AssignForms    == Elems(Data.assignForms) \* ways of *assigning* the flag name
IdsAt(n)       == IF n = 0 THEN BinderIds ELSE Elems(Level(n).ids)
ModsAt(n)      == IF n = 0 THEN Modules ELSE Elems(Level(n).mods)
ShadowAt(n)    == IF n = 0 THEN ShadowForms ELSE {sf \in ShadowForms : sf.form \in Elems(Level(n).shadow)}
AssignAt(n)    == IF n = 0 THEN AssignForms ELSE AssignForms \cap Elems(Level(n).assign)
SecureModes    == Elems(Data.secureModes)
\* configurations "sl" (s, l in {"0", "1"}: secure, legacy) of the other interpreters the host constructs
OtherConfigs   == Elems(Data.otherConfigs)
\* module specs that name no module, tried as a first action (SecureOps!CoreSpecs unless the data narrows it)
ForeignCore    == IF "foreignCore" \in DOMAIN Data THEN Elems(Data.foreignCore) ELSE CoreSpecs
NoSpec         == [prefix |-> << >>, trav |-> << >>, target |-> "", clause |-> "", modpath |-> ""]
FlagName       == "checkerlang_secure_mode"

\* environment names (parenthesised: a module may itself be called `base`)
BaseEnv    == "(base)"
SessionEnv == "(session)"
UserModEnv == "(usermod)"
FrameEnv   == "(frame)"
Envs == {BaseEnv, SessionEnv, UserModEnv} \cup Modules

VARIABLES secure,   \* configuration: Interpreter(secure, legacy)
          legacy,
          flag,     \* checkerlang_secure_mode in the base environment
          bound,    \* env -> set of [name, id, priv]: native functions bound there
          reach,    \* native ids reachable from any environment
          reach0,   \* ... right after the interpreter was constructed
          shadow,   \* environments holding their own definition of the flag name
          loaded,   \* modules evaluated so far
          phase,    \* "boot" -> "init" -> "run"
          steps,    \* program actions so far
          expand,   \* the last action belongs to level 1 (the state is explored further)
          last,     \* kind/form of the last action (keeps the flag forms apart)
          latest,   \* the interpreter constructed most recently in this process: "self" or "sl"
          hist      \* the actions so far (witness; not part of the VIEW)

vars == <<secure, legacy, flag, bound, reach, reach0, shadow, loaded, phase, steps, expand, last, latest, hist>>
View == <<secure, legacy, flag, bound, reach, reach0, shadow, loaded, phase, steps, expand, last, latest>>

Binding(name, id, priv) == [name |-> name, id |-> id, priv |-> priv]
IdsOf(S)   == {b.id : b \in S}
GateSet(S) == {b \in S : Gate(flag, SecureAttr(b.id))}
AllIds(bd) == UNION {IdsOf(bd[e]) : e \in Envs}
\* an environment maps a name to one value: a new binding replaces the old one
Put(S, add)  == {b \in S : b.name \notin {a.name : a \in add}} \cup add
Unbind(S, n) == {b \in S : b.name # n}

Emit(tag, rec) == IF Export THEN PrintT("@@" \o tag \o "@@" \o ToJson(rec)) ELSE TRUE

Act(a, env, id, alias, m, form) ==
  [a |-> a, env |-> env, id |-> id, alias |-> alias, m |-> m, form |-> form, spec |-> NoSpec]

-----------------------------------------------------------------------------
Init ==
  /\ secure \in SecureModes
  /\ legacy \in BOOLEAN
  /\ flag = secure
  /\ bound = [e \in Envs |-> {}]
  /\ reach = {}
  /\ reach0 = {}
  /\ shadow = {}
  /\ loaded = {}
  /\ phase = "boot"
  /\ steps = 0
  /\ expand = TRUE
  /\ last = "boot"
  /\ latest = "self"
  /\ hist = << >>

(* get_base_environment: the base script and the modules it requires bind
   their natives, every single one through the gate. *)
Boot ==
  /\ phase = "boot"
  /\ phase' = "init"
  /\ loaded' = BootLoads(legacy)
  /\ bound' = [e \in Envs |->
                 IF e = BaseEnv THEN GateSet(BaseBinds(legacy))
                 ELSE IF e \in BootLoads(legacy) THEN GateSet(ModuleBinds(e))
                 ELSE {}]
  /\ reach' = AllIds(bound')
  /\ UNCHANGED <<secure, legacy, flag, reach0, shadow, steps, expand, last, latest, hist>>

(* Interpreter.__init__: `if not secure: put("run", FuncRun(self))` *)
RegisterRun ==
  /\ phase = "init"
  /\ ~flag
  /\ phase' = "run"
  /\ bound' = IF HasRun THEN [bound EXCEPT ![BaseEnv] = @ \cup {Binding("run", "run", FALSE)}]
              ELSE bound
  /\ reach' = IF HasRun THEN reach \cup {"run"} ELSE reach
  /\ reach0' = reach'
  /\ UNCHANGED <<secure, legacy, flag, shadow, loaded, steps, expand, last, latest, hist>>
  /\ Emit("BOOT", [sec |-> secure, leg |-> legacy, flag |-> flag,
                   reach |-> SetToSeq(reach'), run |-> HasRun])

SkipRun ==
  /\ phase = "init"
  /\ flag
  /\ phase' = "run"
  /\ reach0' = reach
  /\ UNCHANGED <<secure, legacy, flag, bound, reach, shadow, loaded, steps, expand, last, latest, hist>>
  /\ Emit("BOOT", [sec |-> secure, leg |-> legacy, flag |-> flag,
                   reach |-> SetToSeq(reach), run |-> FALSE])

-----------------------------------------------------------------------------
(* Program actions.  A secure interpreter is driven MaxLen actions deep, a
   non-secure one a single action (it only shows that the gate's other branch
   and `run` are what the model says).  Natives, modules and forms outside
   level 1 are used as a first action only and the state they lead to is not
   explored further (they are interchangeable with the level-1 members as far
   as this model can tell). *)
Limit == IF secure THEN MaxLen ELSE 1
Prog  == phase = "run" /\ expand /\ steps < Limit

Advance(act, focus, kind) ==
  /\ steps' = steps + 1
  /\ hist' = Append(hist, act)
  /\ expand' = focus
  /\ last' = kind

\* reach0: what is reachable right after construction (printed in full by
\* BOOT; the edges only print the difference to it)
EmitEdge(raises) ==
  Emit("EDGE", [sec |-> secure, leg |-> legacy, hist |-> hist',
                post |-> [flag |-> flag',
                          reachAdd |-> SetToSeq(reach' \ reach0),
                          reachDel |-> SetToSeq(reach0 \ reach'),
                          session |-> SetToSeq(bound'[SessionEnv]),
                          raises |-> raises]])

AliasName(id, alias) == IF alias = "flag" THEN FlagName ELSE "a_" \o id

(* bind_native(id) / bind_native(id, alias) evaluated in `env` (the session,
   or the top level of a user module).  Constants (isFunc = FALSE) are put
   without a gate and are not functions: nothing to track. *)
BindNative(env, id, alias) ==
  /\ Prog
  /\ id \in IdsAt(steps)
  /\ LET ok    == IsFunc(id) /\ Gate(flag, SecureAttr(id))
         names == IF alias = "none" \/ ~TakesAlias(id) THEN {FName(id)}
                  ELSE {FName(id), AliasName(id, alias)}
         add   == {Binding(n, id, FALSE) : n \in names}
     IN /\ bound' = IF ok THEN [bound EXCEPT ![env] = Put(@, add)] ELSE bound
        /\ reach' = AllIds(bound')
        /\ shadow' = IF ok /\ alias = "flag" /\ TakesAlias(id) THEN shadow \cup {env} ELSE shadow
  /\ UNCHANGED <<secure, legacy, flag, reach0, loaded, phase, latest>>
  /\ Advance(Act("bind", env, id, alias, "", ""), id \in IdsAt(1), "bind")
  /\ EmitEdge("no")

(* require m / require m unqualified, evaluated in the session.  `spelling`:
   the module named with a directory part ('x/m', 'x/../m', '/x/m', './m'):
   bundled modules are looked up by file name only, so every spelling names
   the same module (first action only). *)
RequireBundled(m, form, spelling) ==
  /\ Prog
  /\ m \in ModsAt(steps)
  /\ spelling # "plain" => steps = 0 /\ secure
  /\ LET newly == ModuleLoads(m) \ loaded
         exp   == {b \in GateSet(ModuleBinds(m)) : ~b.priv}
     IN /\ loaded' = loaded \cup newly
        /\ bound' = [e \in Envs |->
                       IF e \in newly THEN GateSet(ModuleBinds(e))
                       ELSE IF e = SessionEnv /\ form = "unq" THEN Put(bound[e], exp)
                       ELSE bound[e]]
        /\ reach' = AllIds(bound')
  /\ UNCHANGED <<secure, legacy, flag, reach0, shadow, phase, latest>>
  /\ Advance([Act("require", SessionEnv, "", "", m, form) EXCEPT !.alias = spelling],
             m \in ModsAt(1) /\ spelling = "plain", "require")
  /\ EmitEdge("no")

(* require '<prefix>/<traversal>/<target>' where the file name is not a module
   (SecureOps!ForeignSpecs): the require fails, nothing is loaded, bound or
   defined, and - judged on the recorded OS events - nothing outside the
   module source directories is opened or probed.  First action only. *)
RequireForeign(sp) ==
  /\ Prog
  /\ secure
  /\ steps = 0
  /\ sp \in ForeignCore
  /\ UNCHANGED <<secure, legacy, flag, bound, reach, reach0, shadow, loaded, phase, latest>>
  /\ Advance([Act("foreign", SessionEnv, "", "", "", sp.clause) EXCEPT !.spec = sp], FALSE, "foreign")
  /\ EmitEdge("yes")

(* The host constructs another interpreter in the same process: "after" this
   one was constructed (before its first or, when OtherUntil allows, a later
   program action) or "before" it (first entry of the history only; the replay
   constructs the other one first).  Not a program action of this
   interpreter: nothing it can observe changes. *)
ConstructOther(cfg, when) ==
  /\ Prog
  /\ secure
  /\ steps < OtherUntil
  /\ when = "before" => steps = 0
  /\ latest = "self"
  /\ cfg \in OtherConfigs
  /\ latest' = cfg
  /\ UNCHANGED <<secure, legacy, flag, bound, reach, reach0, shadow, loaded, phase>>
  /\ Advance(Act("other", SessionEnv, "", "", cfg, when), TRUE, "other:" \o when \o cfg)
  /\ EmitEdge("no")

(* Every way of *defining* the flag name (def, destructuring def, parameter,
   loop variable, import alias, ...) binds it in the frame where the
   definition stands - the session, a transient call frame or a user module's
   environment - never in the base.  Each form then tries to bind the probe
   native inside that scope and to leak it into the session as `leak`; the
   gate still consults the base flag. *)
DefShadow(sf) ==
  /\ Prog
  /\ sf \in ShadowAt(steps)
  /\ LET ok == Gate(flag, SecureAttr(Probe))
         pb == Binding(FName(Probe), Probe, FALSE)
         lk == Binding("leak", Probe, FALSE)
         \* the definition replaces whatever the scope bound under the flag name,
         \* and `leak` is (re)defined in the session whether or not the bind worked
         b0 == [bound EXCEPT ![SessionEnv] =
                  Unbind(IF sf.env = SessionEnv THEN Unbind(@, FlagName) ELSE @, "leak")]
     IN /\ shadow' = IF sf.env = FrameEnv THEN shadow ELSE shadow \cup {sf.env}
        /\ bound' = IF ~ok THEN b0
                    ELSE IF sf.env = SessionEnv THEN [b0 EXCEPT ![SessionEnv] = Put(@, {pb, lk})]
                    ELSE IF sf.env = UserModEnv THEN [b0 EXCEPT ![UserModEnv] = Put(@, {pb, lk}),
                                                               ![SessionEnv] = Put(@, {lk})]
                    ELSE [b0 EXCEPT ![SessionEnv] = Put(@, {lk})]
        /\ reach' = AllIds(bound')
  /\ UNCHANGED <<secure, legacy, flag, reach0, loaded, phase, latest>>
  /\ Advance(Act("shadow", sf.env, Probe, "", "", sf.form), sf \in ShadowAt(1), "shadow:" \o sf.form)
  /\ EmitEdge("any")

(* Every way of *assigning* the flag name is rejected when the program is
   parsed: nothing changes. *)
AssignFlag(form) ==
  /\ Prog
  /\ form \in AssignAt(steps)
  /\ UNCHANGED <<secure, legacy, flag, bound, reach, reach0, shadow, loaded, phase, latest>>
  /\ Advance(Act("assign", SessionEnv, "", "", "", form), form \in AssignAt(1), "assign:" \o form)
  /\ EmitEdge("yes")

Next ==
  \/ Boot
  \/ RegisterRun
  \/ SkipRun
  \/ \E env \in {SessionEnv, UserModEnv}, id \in BinderIds, alias \in {"none", "own", "flag"} :
        BindNative(env, id, alias)
  \/ \E m \in Modules, form \in {"qual", "unq"}, sp \in RequireSpellings : RequireBundled(m, form, sp)
  \/ \E sp \in ForeignCore : RequireForeign(sp)
  \/ \E cfg \in OtherConfigs, when \in {"before", "after"} : ConstructOther(cfg, when)
  \/ \E sf \in ShadowForms : DefShadow(sf)
  \/ \E form \in AssignForms : AssignFlag(form)

Spec == Init /\ [][Next]_vars

-----------------------------------------------------------------------------
(* Properties.  A violated invariant prints the witness history first, so the
   harness can replay exactly that behaviour on the interpreter. *)
Cex(name, detail) ==
  PrintT("@@CEX@@" \o ToJson([inv |-> name, sec |-> secure, leg |-> legacy,
                              hist |-> hist, detail |-> detail]))
Holds(name, cond, detail) == cond \/ (Cex(name, detail) /\ FALSE)

TypeOK ==
  /\ secure \in BOOLEAN /\ legacy \in BOOLEAN /\ flag \in BOOLEAN
  /\ reach \subseteq Ids /\ reach0 \subseteq Ids
  /\ \A e \in Envs : \A b \in bound[e] : b.id \in Ids /\ b.priv \in BOOLEAN
  /\ shadow \subseteq Envs
  /\ loaded \subseteq Modules
  /\ steps \in 0..MaxLen
  /\ latest \in {"self"} \cup OtherConfigs

\* what is reachable is exactly what some environment binds
ReachIsBound == reach = AllIds(bound)

\* the key cross-check on the extracted table: a native the binder can bind
\* and that touches the OS must be declared not secure - the attribute is all
\* that stands between it and a secure program (a deleted `self.secure = False`
\* breaks this).  `run` never passes the gate: RegisterRun's guard protects it.
OsTouchingImpliesInsecure ==
  LET bad == {id \in BinderIds : OsTouching(id) /\ SecureAttr(id)}
  IN Holds("OsTouchingImpliesInsecure", bad = {}, SetToSeq(bad))

\* in a secure interpreter nothing declared not secure is bound or reachable
NoInsecureBound ==
  LET bad == {id \in reach \cup AllIds(bound) : ~SecureAttr(id)}
  IN Holds("NoInsecureBound", flag => bad = {}, SetToSeq(bad))

\* ... and hence nothing that touches the OS (the statement itself)
NoOsTouchingReachable ==
  LET bad == {id \in reach : ForbiddenNative(SecureAttr(id), OsTouching(id))}
  IN Holds("NoOsTouchingReachable", flag => bad = {}, SetToSeq(bad))

\* `run` exists only in non-secure interpreters
RunOnlyWhenInsecure == Holds("RunOnlyWhenInsecure", flag => "run" \notin reach, << >>)

\* a program cannot switch secure mode off: the base flag is what the
\* interpreter was created with, and no definition of the name lands in the base
FlagIsConfig   == Holds("FlagIsConfig", flag = secure, << >>)
ShadowNotBase  == Holds("ShadowNotBase", BaseEnv \notin shadow, << >>)
FlagImmutable  == [][flag' = flag]_vars
\* isolation: constructing another interpreter changes nothing of this one
OthersChangeNothing ==
  [][latest' # latest => <<flag, bound, reach, shadow, loaded>>' = <<flag, bound, reach, shadow, loaded>>]_vars

=============================================================================
