------------------------------- MODULE Secure -------------------------------
(* C09 - the capability gate of secure mode.

   Mirrors: functions.py get_base_environment (the base flag
   `checkerlang_secure_mode`, the bundled base script evaluated in the base
   environment), bind_native / bind_native_fun (one gate in front of every
   native function: `flag and not func.secure` -> not bound), FuncBindNative
   (binds in the *calling* environment, under the native's own name and
   optionally an alias), nodes.py NodeRequire (a module is evaluated once in a
   fresh child of the base environment; `unqualified` copies its non-private
   symbols), NodeDef (binds in the current frame, never in the base),
   NodeAssign / NodeAssignDestructuring (assignment to checkerlang_* rejected),
   interpreter.py Interpreter.__init__ (`run` registered only when not secure).

   The tables `Natives`, `ModuleBinds`, `BaseBinds`, ... are NOT written here:
   the harness extracts them from the current source tree at check time
   (native names from the `native == "..."` comparisons of bind_native, the
   `secure` attribute read from each function object, `osTouching` measured by
   invoking the function under an audit hook inside a canary directory, the
   module tables by loading every bundled module) and passes them as JSON
   (IOEnv.C09_DATA).                                                         *)
EXTENDS SecureOps, TLC, Json, IOUtils, SequencesExt

CONSTANTS MaxLen,     \* program actions per behaviour in a secure interpreter
          Export      \* TRUE: print every transition with the expected observation

Data == JsonDeserialize(IOEnv.C09_DATA)

Natives        == Data.natives            \* id -> [secureAttr, osTouching, isFunc, fname]
Ids            == DOMAIN Natives
SecureAttr(id) == Natives[id].secureAttr
OsTouching(id) == Natives[id].osTouching
IsFunc(id)     == Natives[id].isFunc
FName(id)      == Natives[id].fname       \* the name the function object carries
Modules        == DOMAIN Data.moduleBinds \* identifiers of the bundled modules
ModuleBinds(m) == Elems(Data.moduleBinds[m])   \* native bindings a module's environment holds
ModuleLoads(m) == Elems(Data.moduleLoads[m])   \* modules loaded by `require m` (m included)
BaseBinds(leg) == Elems(IF leg THEN Data.baseBinds.legacy ELSE Data.baseBinds.plain)
BootLoads(leg) == Elems(IF leg THEN Data.bootLoads.legacy ELSE Data.bootLoads.plain)
HasRun         == Data.hasRun             \* the tree has a `run` built-in to register
BinderIds      == Ids \ {"run"}            \* names the binder knows (`run` is registered, not bound)
FocusIds       == Elems(Data.focusIds)    \* natives used after the first action
FocusModules   == Elems(Data.focusModules)
Probe          == Data.probe              \* a forbidden native tried inside shadowed scopes
ShadowForms    == Elems(Data.shadowForms) \* [form, env]: ways of *defining* the flag name
AssignForms    == Elems(Data.assignForms) \* ways of *assigning* the flag name
SecureModes    == Elems(Data.secureModes)
FlagName       == "checkerlang_secure_mode"

Envs == {"base", "session", "usermod"} \cup Modules

VARIABLES secure,   \* configuration: Interpreter(secure, legacy)
          legacy,
          flag,     \* checkerlang_secure_mode in the base environment
          bound,    \* env -> set of [name, id, priv]: native functions bound there
          reach,    \* native ids reachable from any environment
          shadow,   \* environments holding their own definition of the flag name
          loaded,   \* modules evaluated so far
          phase,    \* "boot" -> "init" -> "run"
          steps,    \* program actions so far
          expand,   \* the last action used the focus alphabet (state is explored further)
          last,     \* kind/form of the last action (keeps the flag forms apart)
          hist      \* the actions so far (witness; not part of the VIEW)

vars == <<secure, legacy, flag, bound, reach, shadow, loaded, phase, steps, expand, last, hist>>
View == <<secure, legacy, flag, bound, reach, shadow, loaded, phase, steps, expand, last>>

Binding(name, id, priv) == [name |-> name, id |-> id, priv |-> priv]
IdsOf(S)   == {b.id : b \in S}
GateSet(S) == {b \in S : Gate(flag, SecureAttr(b.id))}
AllIds(bd) == UNION {IdsOf(bd[e]) : e \in Envs}

Emit(tag, rec) == IF Export THEN PrintT("@@" \o tag \o "@@" \o ToJson(rec)) ELSE TRUE

Act(a, env, id, alias, m, form) ==
  [a |-> a, env |-> env, id |-> id, alias |-> alias, m |-> m, form |-> form]

-----------------------------------------------------------------------------
Init ==
  /\ secure \in SecureModes
  /\ legacy \in BOOLEAN
  /\ flag = secure
  /\ bound = [e \in Envs |-> {}]
  /\ reach = {}
  /\ shadow = {}
  /\ loaded = {}
  /\ phase = "boot"
  /\ steps = 0
  /\ expand = TRUE
  /\ last = "boot"
  /\ hist = << >>

(* get_base_environment: the base script and the modules it requires bind
   their natives, every single one through the gate. *)
Boot ==
  /\ phase = "boot"
  /\ phase' = "init"
  /\ loaded' = BootLoads(legacy)
  /\ bound' = [e \in Envs |->
                 IF e = "base" THEN GateSet(BaseBinds(legacy))
                 ELSE IF e \in BootLoads(legacy) THEN GateSet(ModuleBinds(e))
                 ELSE {}]
  /\ reach' = AllIds(bound')
  /\ UNCHANGED <<secure, legacy, flag, shadow, steps, expand, last, hist>>

(* Interpreter.__init__: `if not secure: put("run", FuncRun(self))` *)
RegisterRun ==
  /\ phase = "init"
  /\ ~flag
  /\ phase' = "run"
  /\ bound' = IF HasRun THEN [bound EXCEPT !["base"] = @ \cup {Binding("run", "run", FALSE)}]
              ELSE bound
  /\ reach' = IF HasRun THEN reach \cup {"run"} ELSE reach
  /\ UNCHANGED <<secure, legacy, flag, shadow, loaded, steps, expand, last, hist>>
  /\ Emit("BOOT", [sec |-> secure, leg |-> legacy, flag |-> flag,
                   reach |-> SetToSeq(reach'), run |-> HasRun])

SkipRun ==
  /\ phase = "init"
  /\ flag
  /\ phase' = "run"
  /\ UNCHANGED <<secure, legacy, flag, bound, reach, shadow, loaded, steps, expand, last, hist>>
  /\ Emit("BOOT", [sec |-> secure, leg |-> legacy, flag |-> flag,
                   reach |-> SetToSeq(reach), run |-> FALSE])

-----------------------------------------------------------------------------
(* Program actions.  A secure interpreter is driven MaxLen actions deep, a
   non-secure one a single action (it only shows that the gate's other branch
   and `run` are what the model says).  Natives and modules outside the focus
   sets are used as a first action only and the state they lead to is not
   explored further (they are interchangeable with the focus members as far
   as this model can tell). *)
Limit == IF secure THEN MaxLen ELSE 1
Prog  == phase = "run" /\ expand /\ steps < Limit

Advance(act, focus, kind) ==
  /\ steps' = steps + 1
  /\ hist' = Append(hist, act)
  /\ expand' = focus
  /\ last' = kind

EmitEdge(raises) ==
  Emit("EDGE", [sec |-> secure, leg |-> legacy, hist |-> hist',
                post |-> [flag |-> flag',
                          reach |-> SetToSeq(reach'),
                          session |-> SetToSeq(bound'["session"]),
                          raises |-> raises]])

AliasName(id, alias) == IF alias = "flag" THEN FlagName ELSE "a_" \o id

(* bind_native(id) / bind_native(id, alias) evaluated in `env` (the session,
   or the top level of a user module).  Constants (isFunc = FALSE) are put
   without a gate and are not functions: nothing to track. *)
BindNative(env, id, alias) ==
  /\ Prog
  /\ id \in FocusIds \/ steps = 0
  /\ LET ok    == IsFunc(id) /\ Gate(flag, SecureAttr(id))
         names == IF alias = "none" THEN {FName(id)} ELSE {FName(id), AliasName(id, alias)}
         add   == {Binding(n, id, FALSE) : n \in names}
     IN /\ bound' = IF ok THEN [bound EXCEPT ![env] = @ \cup add] ELSE bound
        /\ reach' = IF ok THEN reach \cup {id} ELSE reach
        /\ shadow' = IF ok /\ alias = "flag" THEN shadow \cup {env} ELSE shadow
  /\ UNCHANGED <<secure, legacy, flag, loaded, phase>>
  /\ Advance(Act("bind", env, id, alias, "", ""), id \in FocusIds, "bind")
  /\ EmitEdge("no")

(* require m / require m unqualified, evaluated in the session. *)
RequireBundled(m, form) ==
  /\ Prog
  /\ m \in FocusModules \/ steps = 0
  /\ LET newly == ModuleLoads(m) \ loaded
         exp   == {b \in GateSet(ModuleBinds(m)) : ~b.priv}
     IN /\ loaded' = loaded \cup newly
        /\ bound' = [e \in Envs |->
                       IF e \in newly THEN GateSet(ModuleBinds(e))
                       ELSE IF e = "session" /\ form = "unq" THEN bound[e] \cup exp
                       ELSE bound[e]]
        /\ reach' = AllIds(bound')
  /\ UNCHANGED <<secure, legacy, flag, shadow, phase>>
  /\ Advance(Act("require", "session", "", "", m, form), m \in FocusModules, "require")
  /\ EmitEdge("no")

(* Every way of *defining* the flag name (def, destructuring def, parameter,
   loop variable, import alias, ...) binds it in the frame where the
   definition stands - the session, a transient call frame or a user module's
   environment - never in the base.  Each form then tries to bind the probe
   native inside that scope and to leak it into the session as `leak`; the
   gate still consults the base flag. *)
DefShadow(sf) ==
  /\ Prog
  /\ LET ok == Gate(flag, SecureAttr(Probe))
         pb == Binding(FName(Probe), Probe, FALSE)
         lk == Binding("leak", Probe, FALSE)
     IN /\ shadow' = IF sf.env = "frame" THEN shadow ELSE shadow \cup {sf.env}
        /\ bound' = IF ~ok THEN bound
                    ELSE IF sf.env = "session" THEN [bound EXCEPT !["session"] = @ \cup {pb, lk}]
                    ELSE IF sf.env = "usermod" THEN [bound EXCEPT !["usermod"] = @ \cup {pb, lk},
                                                                  !["session"] = @ \cup {lk}]
                    ELSE [bound EXCEPT !["session"] = @ \cup {lk}]
        /\ reach' = IF ok THEN reach \cup {Probe} ELSE reach
  /\ UNCHANGED <<secure, legacy, flag, loaded, phase>>
  /\ Advance(Act("shadow", sf.env, Probe, "", "", sf.form), TRUE, "shadow:" \o sf.form)
  /\ EmitEdge("any")

(* Every way of *assigning* the flag name is rejected when the program is
   parsed: nothing changes. *)
AssignFlag(form) ==
  /\ Prog
  /\ UNCHANGED <<secure, legacy, flag, bound, reach, shadow, loaded, phase>>
  /\ Advance(Act("assign", "session", "", "", "", form), TRUE, "assign:" \o form)
  /\ EmitEdge("yes")

Next ==
  \/ Boot
  \/ RegisterRun
  \/ SkipRun
  \/ \E env \in {"session", "usermod"}, id \in BinderIds, alias \in {"none", "own", "flag"} :
        BindNative(env, id, alias)
  \/ \E m \in Modules, form \in {"qual", "unq"} : RequireBundled(m, form)
  \/ \E sf \in ShadowForms : DefShadow(sf)
  \/ \E form \in AssignForms : AssignFlag(form)

Spec == Init /\ [][Next]_vars

-----------------------------------------------------------------------------
(* Properties.  A violated invariant prints the witness history first, so the
   harness can replay exactly that behaviour on the interpreter. *)
Cex(name, detail) ==
  PrintT("@@CEX@@" \o ToJson([inv |-> name, sec |-> secure, leg |-> legacy,
                              hist |-> hist, detail |-> detail]))
Holds(name, cond, detail) == cond \/ (Cex(name, detail) /\ FALSE)

TypeOK ==
  /\ secure \in BOOLEAN /\ legacy \in BOOLEAN /\ flag \in BOOLEAN
  /\ reach \subseteq Ids
  /\ \A e \in Envs : \A b \in bound[e] : b.id \in Ids /\ b.priv \in BOOLEAN
  /\ shadow \subseteq Envs
  /\ loaded \subseteq Modules
  /\ steps \in 0..MaxLen

\* what is reachable is exactly what some environment binds
ReachIsBound == reach = AllIds(bound)

\* the key cross-check on the extracted table: a native that touches the OS
\* must be declared not secure (a deleted `self.secure = False` breaks this)
OsTouchingImpliesInsecure ==
  LET bad == {id \in Ids : OsTouching(id) /\ SecureAttr(id)}
  IN Holds("OsTouchingImpliesInsecure", bad = {}, SetToSeq(bad))

\* in a secure interpreter nothing declared not secure is bound or reachable
NoInsecureBound ==
  LET bad == {id \in reach \cup AllIds(bound) : ~SecureAttr(id)}
  IN Holds("NoInsecureBound", flag => bad = {}, SetToSeq(bad))

\* ... and hence nothing that touches the OS (the statement itself)
NoOsTouchingReachable ==
  LET bad == {id \in reach : ForbiddenNative(SecureAttr(id), OsTouching(id))}
  IN Holds("NoOsTouchingReachable", flag => bad = {}, SetToSeq(bad))

\* `run` exists only in non-secure interpreters
RunOnlyWhenInsecure == Holds("RunOnlyWhenInsecure", flag => "run" \notin reach, << >>)

\* a program cannot switch secure mode off: the base flag is what the
\* interpreter was created with, and no definition of the name lands in the base
FlagIsConfig   == Holds("FlagIsConfig", flag = secure, << >>)
ShadowNotBase  == Holds("ShadowNotBase", "base" \notin shadow, << >>)
FlagImmutable  == [][flag' = flag]_vars

=============================================================================
