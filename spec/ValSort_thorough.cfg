CONSTANTS
  MaxN = 5
  NKeys = 3
  NTags = 2
  Export = TRUE
SPECIFICATION Spec
INVARIANT TypeOK
INVARIANT Final
INVARIANT PrefixSorted
INVARIANT ExportFinal
CHECK_DEADLOCK FALSE
