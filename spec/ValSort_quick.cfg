CONSTANTS
  MaxN = 4
  NKeys = 2
  NTags = 2
  Export = TRUE
SPECIFICATION Spec
INVARIANT TypeOK
INVARIANT Final
INVARIANT PrefixSorted
INVARIANT ScanFinal
INVARIANT ScanBest
INVARIANT ExportFinal
INVARIANT ExportScan
CHECK_DEADLOCK FALSE
