CONSTANTS
  MaxN = 4
  NKeys = 2
  NTags = 2
  Export = TRUE
SPECIFICATION Spec
INVARIANT TypeOK
INVARIANT Final
INVARIANT PrefixSorted
INVARIANT ExportFinal
CHECK_DEADLOCK FALSE
