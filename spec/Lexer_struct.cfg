CONSTANTS
  Chunks <- STRUCT
  MaxChunks = 3
  Structured = TRUE
  Export = TRUE
  StampAtEmission = FALSE
SPECIFICATION Spec
INVARIANT TypeOK
INVARIANT LineIsStartLine
INVARIANT StartsOrdered
INVARIANT SameSignature
INVARIANT ExportRuns
CHECK_DEADLOCK FALSE
