----------------------------- MODULE SeqOps -----------------------------
(* C15 - reference definitions of the sequence operations, quoted from the
   property statement.  Pure operators, no state: shared by Seq.tla (the list
   object state machine, model-checked) and Seq_Trace.tla (validation of
   executions recorded from the implementation). *)
EXTENDS Integers, Sequences, FiniteSets

(* Reference definitions quoted from the property statement. *)

Min(S) == CHOOSE x \in S : \A y \in S : x <= y
Max(S) == CHOOSE x \in S : \A y \in S : x >= y

Norm(i, n)  == IF i < 0 THEN i + n ELSE i          \* negative counts from the end
Clamp(i, n) == IF i < 0 THEN 0 ELSE IF i > n THEN n ELSE i

NoVal == -1000                                     \* placeholder in error results
OkV(v) == [ok |-> TRUE, v |-> v]
ErrV   == [ok |-> FALSE, v |-> NoVal]

\* s[i]: element at i, negative i from the end, runtime error out of range
Index(s, i) ==
  LET n == Len(s)  j == Norm(i, n)
  IN IF 0 <= j /\ j < n THEN OkV(s[j + 1]) ELSE ErrV

\* s[a to b], substr(s,a,b), sublist(s,a,b): the contiguous run between the
\* clamped bounds, empty when they cross, never wrapping
Slice(s, a, b) ==
  LET n == Len(s)
      x == Clamp(Norm(a, n), n)
      y == Clamp(Norm(b, n), n)
  IN IF x >= y THEN << >> ELSE SubSeq(s, x + 1, y)

SliceToEnd(s, a) == LET n == Len(s) x == Clamp(Norm(a, n), n)
                    IN IF x >= n THEN << >> ELSE SubSeq(s, x + 1, n)

Occurs(s, t, p) == /\ p >= 0 /\ p + Len(t) <= Len(s)
                   /\ SubSeq(s, p + 1, p + Len(t)) = t

\* first position >= start at which t occurs, or -1
Find(s, t, start) ==
  LET P == {p \in 0..Len(s) : p >= start /\ Occurs(s, t, p)}
  IN IF P = {} THEN -1 ELSE Min(P)

\* last position <= start at which t occurs, or -1 (default start: last index)
FindLast(s, t, start) ==
  LET P == {p \in 0..Len(s) : p <= start /\ Occurs(s, t, p)}
  IN IF P = {} THEN -1 ELSE Max(P)

FindElem(s, x)            == Find(s, <<x>>, 0)
FindLastElem(s, x, start) == FindLast(s, <<x>>, start)

\* insert_at: index i in 0..n inserts before position i; negative i counts
\* from the end with -1 meaning "append"; out of range leaves the list alone
InsPos(i, n) == IF i < 0 THEN n + i + 1 ELSE i
InsertAt(s, i, v) ==
  LET n == Len(s)  j == InsPos(i, n)
  IN IF 0 <= j /\ j <= n THEN SubSeq(s, 1, j) \o <<v>> \o SubSeq(s, j + 1, n)
     ELSE s

\* delete_at: removes position i (negative from the end), returns the removed
\* element; out of range removes nothing and returns NULL
DeleteAt(s, i) ==
  LET n == Len(s)  j == Norm(i, n)
  IN IF 0 <= j /\ j < n
     THEN [l |-> SubSeq(s, 1, j) \o SubSeq(s, j + 2, n), r |-> OkV(s[j + 1])]
     ELSE [l |-> s, r |-> [ok |-> TRUE, v |-> NoVal]]      \* NULL

\* s[i] = v: replaces position i, runtime error out of range
AssignAt(s, i, v) ==
  LET n == Len(s)  j == Norm(i, n)
  IN IF 0 <= j /\ j < n
     THEN [l |-> [s EXCEPT ![j + 1] = v], r |-> TRUE]
     ELSE [l |-> s, r |-> FALSE]

=============================================================================
