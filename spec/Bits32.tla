----------------------------- MODULE Bits32 -----------------------------
(* C19 - 32-bit words and the bitwise functions on them.

   TLC integers are 32-bit signed, so the words 2^31 .. 2^32-1 do not fit:
   a word is the record [hi |-> 0..65535, lo |-> 0..65535] of its two 16-bit
   halves (value hi * 2^16 + lo).  The operations are defined on the bit
   vector of the word (bit 0 = least significant): the textbook definitions.
   Results are unsigned 32-bit words: the documentation of the natives says
   "for the 32bit value(s)" and gives bit_not(0) ==> 4294967295.

   Shift counts n >= 32 shift every bit out (mathematical reading:
   a * 2^n mod 2^32, floor(a / 2^n)); rotations are cyclic, so a rotation by
   n is the rotation by n mod 32.                                           *)
EXTENDS Integers, Sequences

BitIdx == 0..31

P2T == <<1, 2, 4, 8, 16, 32, 64, 128, 256, 512, 1024, 2048, 4096, 8192, 16384, 32768, 65536>>
P2(k) == P2T[k + 1]                                    \* 2^k, k in 0..16

IsWord(w) == w.hi \in 0..65535 /\ w.lo \in 0..65535
W(hi, lo) == [hi |-> hi, lo |-> lo]

\* bit i of the word
Bit(w, i) == IF i < 16 THEN (w.lo \div P2(i)) % 2 ELSE (w.hi \div P2(i - 16)) % 2
BitsOf(w) == [i \in BitIdx |-> Bit(w, i)]

RECURSIVE HalfOf(_, _, _)
\* value of bits from..from+15 of bit vector b
HalfOf(b, from, i) == IF i = 16 THEN 0 ELSE b[from + i] * P2(i) + HalfOf(b, from, i + 1)
WordOf(b) == [hi |-> HalfOf(b, 16, 0), lo |-> HalfOf(b, 0, 0)]

And(a, b) == WordOf([i \in BitIdx |-> IF Bit(a, i) = 1 /\ Bit(b, i) = 1 THEN 1 ELSE 0])
Or(a, b)  == WordOf([i \in BitIdx |-> IF Bit(a, i) = 1 \/ Bit(b, i) = 1 THEN 1 ELSE 0])
Xor(a, b) == WordOf([i \in BitIdx |-> IF Bit(a, i) # Bit(b, i) THEN 1 ELSE 0])
Not(a)    == WordOf([i \in BitIdx |-> 1 - Bit(a, i)])

\* n >= 0
Shl(a, n) == WordOf([i \in BitIdx |-> IF i >= n THEN Bit(a, i - n) ELSE 0])
Shr(a, n) == WordOf([i \in BitIdx |-> IF i + n <= 31 THEN Bit(a, i + n) ELSE 0])
Rotl(a, n) == WordOf([i \in BitIdx |-> Bit(a, (i + 32 - (n % 32)) % 32)])
Rotr(a, n) == WordOf([i \in BitIdx |-> Bit(a, (i + n) % 32)])

\* the boundary words of the property's quantifier
Boundary == { W(0, 0), W(0, 1), W(0, 32768), W(0, 65535),
              W(32767, 65535), W(32768, 0), W(65535, 65535) }
=============================================================================
