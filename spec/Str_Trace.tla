---------------------------- MODULE Str_Trace ----------------------------
(* C18, binding B: calls of the string library recorded from the
   implementation (one NDJSON event per call: operation, arguments as code
   point lists, what the interpreter returned) are checked against the
   reference operators of StrOps.tla.  The calls are independent, so the
   state is just the position in the log.  An event whose observation
   differs from the operator is reported (@@BAD@@) and validation goes on,
   so every mismatch is listed.

   Event fields: op; st = "val" (a value of the right kind came back),
   "err" (language-level error), "host" (host exception escaped), "kind"
   (value of the wrong kind); arguments s, t, r (text), parts (list of
   text), n (int); observation ri (int), rb (0/1), rs (text), rl (list of
   text).  Fields an operation does not use are absent.

   An event the MODEL does not define (a template with a group that is not a
   placeholder, a tie under a rounding format) is a defect of the generator,
   not of the implementation: it is reported as "MODEL:<op>". *)
EXTENDS StrOps, TLC, Json, IOUtils

Trace == ndJsonDeserialize(IOEnv.TRACE_FILE)

VARIABLES l
vars == <<l>>

Ev == Trace[l]
Bad(why) == PrintT("@@BAD@@" \o ToJson([l |-> l, why |-> why]))
Check(c, why) == c \/ Bad(why)
B(x) == IF x THEN 1 ELSE 0
Val == Ev.st = "val"

Apply1(f, x) == CASE f = "reverse" -> Reverse(x)
                  [] f = "upper"   -> Upper(x)
                  [] f = "lower"   -> Lower(x)
                  [] f = "trim"    -> Trim(x)
                  [] OTHER         -> x

Expect ==
  CASE Ev.op = "find"        -> Val /\ Ev.ri = Find(Ev.s, Ev.t)
    [] Ev.op = "contains"    -> Val /\ Ev.rb = B(Contains(Ev.s, Ev.t))
    [] Ev.op = "in"          -> Val /\ Ev.rb = B(Contains(Ev.s, Ev.t))
    \* s was built by the interpreter as a + t + b: all three must say yes
    [] Ev.op = "decompose"   -> Val /\ Ev.s = Ev.a \o Ev.t \o Ev.b
                                    /\ Ev.rb = 1 /\ Ev.rb2 = 1 /\ Ev.ri >= 0
                                    /\ Ev.ri = Find(Ev.s, Ev.t)
                                    /\ Ev.ri <= Len(Ev.a)
    [] Ev.op = "starts_with" -> Val /\ Ev.rb = B(StartsWith(Ev.s, Ev.t))
    [] Ev.op = "ends_with"   -> Val /\ Ev.rb = B(EndsWith(Ev.s, Ev.t))
    [] Ev.op = "length"      -> Val /\ Ev.ri = Len(Ev.s)
    [] Ev.op = "concat"      -> Val /\ Ev.rs = Ev.s \o Ev.t
                                    /\ Ev.ri = Len(Ev.s) + Len(Ev.t)
    [] Ev.op = "split"       -> Val /\ Ev.rl = SplitLit(Ev.s, Ev.t)
    \* join(split(s, escape_pattern(t)), t) = s
    [] Ev.op = "split_join"  -> Val /\ Ev.rs = Ev.s
    [] Ev.op = "join"        -> Val /\ Ev.rs = Join(Ev.parts, Ev.t)
    \* split(join(parts, t), escape_pattern(t)) = parts when no part contains t
    [] Ev.op = "join_split"  -> Val /\ Ev.rl = SplitLit(Join(Ev.parts, Ev.t), Ev.t)
    [] Ev.op = "replace"     -> Val /\ Ev.rs = ReplaceAll(Ev.s, Ev.t, Ev.r)
    \* strings with hundreds of occurrences: the one-pass formulations
    [] Ev.op = "replace_many" -> Val /\ Ev.rs = ReplaceScan(Ev.s, Ev.t, Ev.r)
    [] Ev.op = "split_many"   -> Val /\ Ev.rl = SplitScan(Ev.s, Ev.t)
    [] Ev.op = "join_split_many" -> Val /\ Ev.rl = SplitScan(Join(Ev.parts, Ev.t), Ev.t)
    \* empty search text: not defined by the property, but it must come back
    [] Ev.op = "replace_empty" -> Ev.st # "host"
    [] Ev.op = "apply1"      -> Val /\ Ev.rs = Apply1(Ev.f, Ev.s)
    [] Ev.op = "apply2"      -> Val /\ Ev.rs = Apply1(Ev.f, Apply1(Ev.f, Ev.s))
    [] Ev.op = "chr"         -> Val /\ Ev.rs = Chr(Ev.n)
    [] Ev.op = "ord"         -> Val /\ Len(Ev.s) = 1 /\ Ev.ri = Ord(Ev.s)
    [] Ev.op = "ord_chr"     -> Val /\ Ev.ri = Ev.n
    \* chr(ord(c1)) + chr(ord(c2)) + ... rebuilds the string
    [] Ev.op = "chr_ord"     -> Val /\ Ev.rs = Ev.s
    [] Ev.op = "ord_empty"   -> Ev.st # "host"
    \* f in {trim, upper, lower} applied once (rs) and twice (rs2), on any
    \* characters: no table is needed to say that the second application
    \* changes nothing; where the tables define f the value is compared too
    [] Ev.op = "idem"        -> Val /\ Ev.rs2 = Ev.rs
                                    /\ (Ev.f = "trim" => TrimLawOK(Ev.s, Ev.rs))
                                    /\ (AllPlain(Ev.s) => Ev.rs = Apply1(Ev.f, Ev.s))
    \* the template is text; the model scans it itself.  via = "sprintf":
    \* the values are the arguments, named 0, 1, 2, ...
    [] Ev.op = "interp"      -> Val /\ Ev.rs = SAt(Ev.tpl, Ev.env, Ev.start).txt
    \* (start: the second parameter of s; nargs: how many of the values are
    \* arguments of sprintf, the others are variables of the caller)
    \* {v#.d} denotes the rounded number; '<lit1>{v#[-|0]w.d}<lit2>' is
    \* that text padded, between the unchanged literal texts
    [] Ev.op = "round"       -> Val /\ RoundTextOK(Ev.rs, Ev.neg = 1, Ev.ip, Ev.fp, Ev.d)
                                    /\ Ev.rs2 = Ev.lit1 \o PadNum(Ev.rs, Ev.w, Ev.mode) \o Ev.lit2
    [] Ev.op = "lines"       -> Val /\ Ev.rl = Lines(Ev.s)
    [] Ev.op = "words"       -> Val /\ Ev.rl = Words(Ev.s)
    [] Ev.op = "unlines"     -> Val /\ Ev.rs = Unlines(Ev.parts)
    [] Ev.op = "unwords"     -> Val /\ Ev.rs = Unwords(Ev.parts)
    [] Ev.op = "q"           -> Val /\ Ev.rs = Q(Ev.parts)
    [] Ev.op = "esc"         -> Val /\ Ev.rs = Esc(Ev.s)
    [] OTHER                 -> FALSE

\* is the event one the model defines?
Defined ==
  CASE Ev.op = "interp" -> /\ SAt(Ev.tpl, Ev.env, Ev.start).ok
                           /\ (Ev.via = "sprintf" => ArgNamesOK2(Ev.env, Ev.nargs) /\ Ev.start = 0)
    [] Ev.op = "round"  -> /\ IsDigitSeq(Ev.ip) /\ IsDigitSeq(Ev.fp) /\ Ev.ip # << >>
                           /\ ~IsTie(Ev.fp, Ev.d)
    [] OTHER            -> TRUE

Init == l = 1

Step ==
  /\ l <= Len(Trace)
  /\ l' = l + 1
  /\ (IF Defined THEN Check(Expect, Ev.op) ELSE Bad("MODEL:" \o Ev.op))
  /\ (l = Len(Trace) => PrintT("@@DONE@@" \o ToJson([n |-> l])))

Spec == Init /\ [][Step]_vars

Accepted == TLCGet("stats").diameter - 1 = Len(Trace)
=============================================================================
