----------------------------- MODULE HeapOps -----------------------------
(* C16 - reference definitions of the heap model: cells, containers,
   reachability and the "who may change" rule quoted from the property
   statement.  Pure operators, no state: shared by Heap.tla (the alias-graph
   state machine, model-checked and replayed) and Heap_Trace.tla (validation
   of the function sweep recorded from the implementation). *)
EXTENDS Integers, Sequences, FiniteSets

(* Reference definitions quoted from the property statement. *)

\* "the documented in-place mutators (append, append_all, insert_at,
\*  delete_at, remove, put, element and member assignment)": the functions
\* among them (element / member assignment are syntax, see Heap.tla)
MutatorFns == {"append", "append_all", "insert_at", "delete_at", "remove", "put"}

\* "element and member assignment" as the sweep writes them (@1 is the target,
\* the other places are the index / key and what is stored); the compound
\* forms are element assignments too (`x[i] += v` is `x[i] = x[i] + v`, with
\* a default: `x[k, d] += v` is `x[k] = x[k, d] + v`)
MutatorForms == {"operator @1[@2] = @3", "operator @1->m = @2", "operator @1->zz = @2",
                 "operator @1[@2] += @3", "operator @1[@2, @3] += @3", "operator @1->m += @2"}
Mutators == MutatorFns \cup MutatorForms

\* "change exactly the targeted container and nothing else" / "never modify
\* the values passed to them": between two observations `pre` and `post` of
\* an indexed family of values only the positions in `allowed` may differ
OnlyChanged(pre, post, allowed) ==
  /\ DOMAIN pre = DOMAIN post
  /\ \A i \in DOMAIN pre : pre[i] # post[i] => i \in allowed

\* the positions a call `fn(args...)` may change: the FIRST argument of a
\* documented mutator, nothing otherwise
MayChange(fn, args) ==
  IF fn \in Mutators /\ Len(args) >= 1 THEN {args[1]} ELSE {}

\* "values produced by non-mutating operations are independent of their
\*  inputs": what a call returns is a new value; it neither IS one of the
\* containers passed to it nor HOLDS one of them.  Exempt are only the
\* functions whose documented result is (or holds) an argument:
\*   - the documented mutators return the container they changed (their
\*     first argument), which then holds what was put into it;
\*   - selectors return one of their arguments unchanged by definition
\*     (identity, the if_... / non_... defaults, min / max of two values,
\*     the default value of map_get / map_get_pattern / div0, a lambda
\*     returning its parameter);
\*   - constructors build a container AROUND their arguments (list / map
\*     literals, spread, rest arguments, `list + element`, substitute's new
\*     element, new(cls): the instance refers to its class);
\*   - string functions handed a container instead of a string give it back
\*     (esc, replace, basename): outside their documented domain, no new
\*     container is documented; recorded as drift, not judged.
\* Everything else (sublist, sorted, chunks, list(), set(), reverse, ...) is
\* documented to return "a list of ..." / "a copy": a result that is or holds
\* the argument container itself is a violation.  (Sharing the ELEMENTS of an
\* argument is not: copies are shallow, see Heap.tla.)
SelectorFns == {"identity", "if_null", "if_empty", "if_null_or_empty", "non_empty", "non_zero",
                "min", "max", "map_get", "map_get_pattern", "div0",
                "operator @1 !> identity()", "operator (fn(x, y) x)(@1, @2)",
                \* syntax that hands one of its operands on: the default of a read with a default,
                \* the default of a parameter, return, the last expression of a block, a branch of if
                "operator @1[@2, @3]", "operator (fn(a, b = @2) b)(@1)", "operator (fn(a) do if a == a then return a; 1 end)(@1)",
                "operator do @1; @2 end", "operator if @1 == @2 then @1 else @2",
                "operator do @1 finally @2 end",
                \* a method handing back what the constructor stored in the instance
                "operator do def class K do def _init_(self, x) do self->x = x; end; def g(self, y) self->x; end; new(K, @1)->g(@2) end"}
EchoFns     == {"esc", "replace", "basename", "strip_extension"}
HolderFns   == {"add", "substitute", "new",
                "operator @1 + @2", "operator [@1, @2]", "operator <<<@1 => @2>>>",
                "operator [...@1, @2]", "operator [...@1, ...@2]", "operator [@2, ...@1, @3]",
                "operator (fn(args...) args...)(@1, @2)",
                "operator <<@1, @2>>", "operator <*m = @1, n = @2*>", "operator [@1 for e in @2]",
                "operator <<<e => @2 for e in @1>>>", "operator [[x, @3] for x in @1 also for y in @2]",
                "operator (fn(q) do q += @2; q end)(@1)"}

\* the operand a selecting syntax form hands on, where that is fixed (0: any of them)
SelectedPlace(fn) ==
  CASE fn = "operator @1[@2, @3]" -> 3                \* the default, never the container that was read
    [] fn = "operator (fn(a, b = @2) b)(@1)" -> 2
    [] fn = "operator do @1; @2 end" -> 2
    [] fn = "operator do @1 finally @2 end" -> 1
    [] fn = "operator (fn(x, y) x)(@1, @2)" -> 1
    [] fn = "operator @1 !> identity()" -> 1
    [] OTHER -> 0

\* is / holds: the pool positions (among the arguments) whose container the
\* result is / reaches below its top level
ResultIndependent(fn, args, is, holds) ==
  /\ is # {} => \/ /\ fn \in SelectorFns \cup EchoFns
                   /\ SelectedPlace(fn) # 0 => (Len(args) >= SelectedPlace(fn) /\ is = {args[SelectedPlace(fn)]})
                \/ fn \in Mutators /\ Len(args) >= 1 /\ is = {args[1]}
  /\ holds # {} => fn \in HolderFns \cup Mutators

-----------------------------------------------------------------------------
(* Cells and containers.  Every field is uniformly typed: a cell is a record
   [t, v] (t = "i": the int v; t = "r": the container with reference v); a
   container is a record [k, keys, items]:
     list  keys = <<>>               items = the elements in order
     set   keys = <<>>               items = the (int) elements ascending
     map   keys = int keys ascending items[i] = value of keys[i]
     obj   keys = member codes in insertion order, items[i] = member value
     free  an unallocated reference                                         *)

I(n) == [t |-> "i", v |-> n]
R(r) == [t |-> "r", v |-> r]
IsRef(c) == c.t = "r"
Null == I(0)                       \* names only: NULL

Mk(k, keys, items) == [k |-> k, keys |-> keys, items |-> items]
Free == Mk("free", << >>, << >>)
MkList(items) == Mk("list", << >>, items)

Range(s) == {s[i] : i \in DOMAIN s}

RECURSIVE SortedSeq(_)             \* the elements of a set of ints, ascending
SortedSeq(S) ==
  IF S = {} THEN << >>
  ELSE LET m == CHOOSE x \in S : \A y \in S : x <= y
       IN <<m>> \o SortedSeq(S \ {m})

RECURSIVE SortInts(_)              \* a sequence of int cells sorted (stable)
SortInts(s) ==
  IF s = << >> THEN << >>
  ELSE LET j == CHOOSE i \in DOMAIN s :
                  /\ \A k \in DOMAIN s : s[i].v <= s[k].v
                  /\ \A k \in 1..(i - 1) : s[k].v # s[i].v
       IN <<s[j]>> \o SortInts([i \in 1..(Len(s) - 1) |-> IF i < j THEN s[i] ELSE s[i + 1]])

AllInts(s) == \A i \in DOMAIN s : ~IsRef(s[i])
Elems(c) == {c.items[i].v : i \in DOMAIN c.items}
MkSet(S) == LET q == SortedSeq(S) IN Mk("set", << >>, [i \in DOMAIN q |-> I(q[i])])

DropIdx(s, j) == [i \in 1..(Len(s) - 1) |-> IF i < j THEN s[i] ELSE s[i + 1]]

\* the first occurrence of every cell, order kept (unique on a list of ints)
FirstOccs(s) ==
  LET q == SortedSeq({i \in DOMAIN s : \A j \in 1..(i - 1) : s[j] # s[i]})
  IN [i \in DOMAIN q |-> s[q[i]]]

\* one level of flattening: a cell that refers to a list is replaced by that
\* list's cells (shared, not copied), every other cell stays
RECURSIVE FlatCells(_, _)
FlatCells(h, s) ==
  IF s = << >> THEN << >>
  ELSE (IF IsRef(s[1]) /\ h[s[1].v].k = "list" THEN h[s[1].v].items ELSE <<s[1]>>)
       \o FlatCells(h, Tail(s))

\* chunks(s, k): consecutive pieces of k cells, the last one possibly shorter
NumPieces(s, k) == (Len(s) + k - 1) \div k
Piece(s, k, j)  == SubSeq(s, (j - 1) * k + 1, IF j * k < Len(s) THEN j * k ELSE Len(s))
Rev(s) == [i \in 1..Len(s) |-> s[Len(s) + 1 - i]]

HasKey(c, k) == \E i \in DOMAIN c.keys : c.keys[i] = k
KeyIdx(c, k) == CHOOSE i \in DOMAIN c.keys : c.keys[i] = k
MapPut(c, k, cell) ==
  IF HasKey(c, k)
  THEN Mk("map", c.keys, [c.items EXCEPT ![KeyIdx(c, k)] = cell])
  ELSE LET ks == SortedSeq(Range(c.keys) \cup {k})
       IN Mk("map", ks, [i \in DOMAIN ks |->
                           IF ks[i] = k THEN cell ELSE c.items[KeyIdx(c, ks[i])]])
KeyRemove(c, k) ==
  LET j == KeyIdx(c, k) IN Mk(c.k, DropIdx(c.keys, j), DropIdx(c.items, j))
ObjSet(c, m, cell) ==
  IF HasKey(c, m)
  THEN Mk("obj", c.keys, [c.items EXCEPT ![KeyIdx(c, m)] = cell])
  ELSE Mk("obj", Append(c.keys, m), Append(c.items, cell))

-----------------------------------------------------------------------------
(* Reachability and garbage: a reference no name can reach is unobservable. *)

RefsIn(c) == {c.items[i].v : i \in {j \in DOMAIN c.items : IsRef(c.items[j])}}

RECURSIVE ReachN(_, _, _)
ReachN(h, S, n) ==
  IF n = 0 THEN S
  ELSE ReachN(h, S \cup UNION {RefsIn(h[r]) : r \in S}, n - 1)
Reach(h, S) == ReachN(h, S, Cardinality(DOMAIN h))

NameRoots(nm) == {nm[x].v : x \in {y \in DOMAIN nm : IsRef(nm[y])}}
Live(h, nm) == Reach(h, NameRoots(nm))
GC(h, nm) == LET live == Live(h, nm)
             IN [r \in DOMAIN h |-> IF r \in live THEN h[r] ELSE Free]
FreeRefs(h) == {r \in DOMAIN h : h[r].k = "free"}

=============================================================================
