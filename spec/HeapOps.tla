----------------------------- MODULE HeapOps -----------------------------
(* C16 - reference definitions of the heap model: cells, containers,
   reachability and the "who may change" rule quoted from the property
   statement.  Pure operators, no state: shared by Heap.tla (the alias-graph
   state machine, model-checked and replayed) and Heap_Trace.tla (validation
   of the function sweep recorded from the implementation). *)
EXTENDS Integers, Sequences, FiniteSets

(* Reference definitions quoted from the property statement. *)

\* "the documented in-place mutators (append, append_all, insert_at,
\*  delete_at, remove, put, element and member assignment)": the functions
\* among them (element / member assignment are syntax, see Heap.tla)
MutatorFns == {"append", "append_all", "insert_at", "delete_at", "remove", "put"}

\* "change exactly the targeted container and nothing else" / "never modify
\* the values passed to them": between two observations `pre` and `post` of
\* an indexed family of values only the positions in `allowed` may differ
OnlyChanged(pre, post, allowed) ==
  /\ DOMAIN pre = DOMAIN post
  /\ \A i \in DOMAIN pre : pre[i] # post[i] => i \in allowed

\* the positions a call `fn(args...)` may change: the FIRST argument of a
\* documented mutator, nothing otherwise
MayChange(fn, args) ==
  IF fn \in MutatorFns /\ Len(args) >= 1 THEN {args[1]} ELSE {}

-----------------------------------------------------------------------------
(* Cells and containers.  Every field is uniformly typed: a cell is a record
   [t, v] (t = "i": the int v; t = "r": the container with reference v); a
   container is a record [k, keys, items]:
     list  keys = <<>>               items = the elements in order
     set   keys = <<>>               items = the (int) elements ascending
     map   keys = int keys ascending items[i] = value of keys[i]
     obj   keys = member codes in insertion order, items[i] = member value
     free  an unallocated reference                                         *)

I(n) == [t |-> "i", v |-> n]
R(r) == [t |-> "r", v |-> r]
IsRef(c) == c.t = "r"
Null == I(0)                       \* names only: NULL

Mk(k, keys, items) == [k |-> k, keys |-> keys, items |-> items]
Free == Mk("free", << >>, << >>)
MkList(items) == Mk("list", << >>, items)

Range(s) == {s[i] : i \in DOMAIN s}

RECURSIVE SortedSeq(_)             \* the elements of a set of ints, ascending
SortedSeq(S) ==
  IF S = {} THEN << >>
  ELSE LET m == CHOOSE x \in S : \A y \in S : x <= y
       IN <<m>> \o SortedSeq(S \ {m})

RECURSIVE SortInts(_)              \* a sequence of int cells sorted (stable)
SortInts(s) ==
  IF s = << >> THEN << >>
  ELSE LET j == CHOOSE i \in DOMAIN s :
                  /\ \A k \in DOMAIN s : s[i].v <= s[k].v
                  /\ \A k \in 1..(i - 1) : s[k].v # s[i].v
       IN <<s[j]>> \o SortInts([i \in 1..(Len(s) - 1) |-> IF i < j THEN s[i] ELSE s[i + 1]])

AllInts(s) == \A i \in DOMAIN s : ~IsRef(s[i])
Elems(c) == {c.items[i].v : i \in DOMAIN c.items}
MkSet(S) == LET q == SortedSeq(S) IN Mk("set", << >>, [i \in DOMAIN q |-> I(q[i])])

DropIdx(s, j) == [i \in 1..(Len(s) - 1) |-> IF i < j THEN s[i] ELSE s[i + 1]]
Rev(s) == [i \in 1..Len(s) |-> s[Len(s) + 1 - i]]

HasKey(c, k) == \E i \in DOMAIN c.keys : c.keys[i] = k
KeyIdx(c, k) == CHOOSE i \in DOMAIN c.keys : c.keys[i] = k
MapPut(c, k, cell) ==
  IF HasKey(c, k)
  THEN Mk("map", c.keys, [c.items EXCEPT ![KeyIdx(c, k)] = cell])
  ELSE LET ks == SortedSeq(Range(c.keys) \cup {k})
       IN Mk("map", ks, [i \in DOMAIN ks |->
                           IF ks[i] = k THEN cell ELSE c.items[KeyIdx(c, ks[i])]])
KeyRemove(c, k) ==
  LET j == KeyIdx(c, k) IN Mk(c.k, DropIdx(c.keys, j), DropIdx(c.items, j))
ObjSet(c, m, cell) ==
  IF HasKey(c, m)
  THEN Mk("obj", c.keys, [c.items EXCEPT ![KeyIdx(c, m)] = cell])
  ELSE Mk("obj", Append(c.keys, m), Append(c.items, cell))

-----------------------------------------------------------------------------
(* Reachability and garbage: a reference no name can reach is unobservable. *)

RefsIn(c) == {c.items[i].v : i \in {j \in DOMAIN c.items : IsRef(c.items[j])}}

RECURSIVE ReachN(_, _, _)
ReachN(h, S, n) ==
  IF n = 0 THEN S
  ELSE ReachN(h, S \cup UNION {RefsIn(h[r]) : r \in S}, n - 1)
Reach(h, S) == ReachN(h, S, Cardinality(DOMAIN h))

NameRoots(nm) == {nm[x].v : x \in {y \in DOMAIN nm : IsRef(nm[y])}}
Live(h, nm) == Reach(h, NameRoots(nm))
GC(h, nm) == LET live == Live(h, nm)
             IN [r \in DOMAIN h |-> IF r \in live THEN h[r] ELSE Free]
FreeRefs(h) == {r \in DOMAIN h : h[r].k = "free"}

=============================================================================
