---- MODULE MC_err_t ----
EXTENDS MachineRun
Progs == ErrThorough(0)
====
