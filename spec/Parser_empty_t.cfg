CONSTANTS
  Sigma <- SigEmpty
  MaxTok = 6
  MaxStack = 80
  MaxFuel = 400
  Export = TRUE
SPECIFICATION Spec
INVARIANT TypeOK
INVARIANT NoStuck
INVARIANT ErrAtWithinInput
INVARIANT EofOnlyAtEnd
INVARIANT AcceptConsumesAll
INVARIANT ExportRuns
CHECK_DEADLOCK FALSE
