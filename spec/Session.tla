------------------------------- MODULE Session -------------------------------
(* C10 / C11 - interpreter sessions, the module loader and histories of
   `interpret` calls.

   State per interpreter i: the session scope sess[i] (Interpreter.environment,
   the persistent child of the base environment), the module cache mods[i]
   (Environment.modules on the base: id -> evaluated module environment), the
   module load stack mstack[i] (Environment.modulestack) and the load counters
   loads[i] (how often the top level of a module file started to run; the
   harness makes this observable with a list in the base environment).

   One command = one Interpreter.interpret call.  Commands other than require
   are modelled atomically (their result is the state at the point of failure,
   DESIGN 5.3).  `require` is a sequence of sub-steps mirroring
   NodeRequire.evaluate (nodes.py:1678-1801):
       ReqPush  ReqLookup  ReqLoadStep*  ReqRegister  ReqPop  ReqBind
   with nested requires pushing further activations, so a failure can strike
   between push and pop; ReqUnwind / ReqFail propagate an error outwards.

   Named deviation: UnwindOnFailure.  The pinned code has no unwinding (an
   exception leaves the ids pushed so far on the module stack): FALSE mirrors
   it and TLC then finds the C10 counterexample; TRUE is the behaviour the
   property demands (and the repaired code has).

   Round 2.  (a) `interpret(script, filename, environment)`: the commands
   envcall / envfail / envread run a script in a caller-supplied environment
   - a fresh one, one kept by the caller and used again (by every
   interpreter), or a child of the session.  The implementation hangs the
   root of the caller's chain under the session for the duration of the call;
   cal records where the kept environment and the base environments hang
   between calls.  Named deviation: DetachCallerEnv.  FALSE mirrors the
   pinned code (the root is never detached: the kept environment stays under
   the session of its first user, and the second walk to the root ends at a
   base environment, which is then hung under a session - its own: a cycle);
   TRUE is what the property demands.  (b) importer forms imp0 / impd
   (SessionOps.IForms).  (c) bundled modules and the spelling of their names
   (SessionOps.Canon): an activation carries the name as spelled (nm, what
   is bound) and the module's identity (id, what is cached).

   Round 3 (C10).  (a) Module directories per interpreter: FSI(i) is the
   file system interpreter i reads (AltFS: the interpreters that have a
   directory of their own, same module names, other contents); where a module
   comes from is part of what separates interpreters.  (b) Interpreters made
   while others are in use: the command `new` (LateBorn: the interpreters that
   do not exist at the start; an unborn interpreter has the empty scope).
   (c) Caller environments with a parent of their own: the caller keeps a
   chain outer <- inner <- leaf (ids outer / nested / deep; outer holds the
   host's name ov); cal.npar = the session outer hangs under, cal.nev = inner
   holds ev.  (d) Module loads that fail with something that is not an error
   of the language (SessionOps.Unreadable, statements `deep`, `spin`): outcome class
   "fail"; UnwindsFor(err) generalises the deviation UnwindOnFailure to "the
   stack is unwound for some failures only".  (e) Defining statements that
   fail themselves (defbad, assignbad, destrbad, classbad) define nothing and
   leave an earlier definition of the name as it was; defclass makes an
   object.

   Round 5.  (a) C10: the world changes between two commands (the module
   files fs are changed by the host's commands appear / vanish / edit, a
   program appends a directory to its own module path: cal.xp), deviation
   RemembersMissing, property MissingOnlyIfAbsent.  (b) C10: interpreters that
   differ below the session (Insecure, cal.rb: the base-level function is_list
   reassigned) and the bundled modules list / io, whose instance hangs under
   the base environment of ITS interpreter (lfirst, ioread); doc strings
   (docdef / infonull).  (c) C11: importers that run in a caller-supplied
   environment (command envreq: the require sub-step machine with the
   caller's environment as importer scope).

   No history variables: what a command returned is carried by the exported
   EDGE record, the repeat-check needs only the short-lived control states
   "failed"/"rerun"/"done" that collapse back into the idle state (Settle). *)
EXTENDS SessionOps, Json, IOUtils

CONSTANTS Interps,          \* interpreter instances, e.g. {"i1","i2"}
          UnwindOnFailure,  \* TRUE: repaired behaviour; FALSE: pinned code
          DetachCallerEnv,  \* TRUE: repaired behaviour; FALSE: pinned code
          Mode,             \* "c10": fixed FS10; "c11": generated FS
          ModSeq,           \* c11: the generated module ids, in order
          MaxOut,           \* c11: requires per generated module
          GenRot,           \* c11: TRUE = form/poke of an edge fixed by position
          GenBack,          \* c11: "all" = any edge; "first" = edges to later modules
                            \*      or from the last back to the first (random graphs mostly acyclic)
          GenSorted,        \* c11: TRUE = one module's requires in ModSeq order of targets
          MaxCtr,           \* bound on bumps of one module from the session
          LoadCap,          \* load counters saturate here
          MaxReq,           \* bound on commands per history (0 = unbounded)
          CmdsOf(_),        \* the command alphabet of one interpreter
          Export            \* print EDGE / STATE / FSDEF records

VARIABLES sess, mods, mstack, loads, ctl, gen, nreq,
          fs,           \* the module files: FS10, or FSOf(gen) once generated
                        \* (a function of gen, kept as a variable only so that
                        \* TLC does not recompute it in every state)
          cal           \* caller environments: [ev: the kept one holds `ev`,
                        \*   par: the session the kept one hangs under ("" = none),
                        \*   bpar: per interpreter the session its BASE hangs under]
vars == <<sess, mods, mstack, loads, ctl, gen, nreq, fs, cal>>

ModIds == Range(ModSeq)
Idx(m) == CHOOSE k \in DOMAIN ModSeq : ModSeq[k] = m
Mods2 == <<"ma", "mb">>
Mods3 == <<"ma", "mb", "mc">>
Mods4 == <<"ma", "mb", "mc", "md">>
Mods5 == <<"ma", "mb", "mc", "md", "me">>

FS == fs

-----------------------------------------------------------------------------
(* Commands, outcomes, control *)
Cmd(op, i, n, v, id, form) == [op |-> op, i |-> i, n |-> n, v |-> v, id |-> id, form |-> form]
NoCmd == Cmd("", "", "", 0, "", "")

Val(kind, v)   == [cls |-> "val",    kind |-> kind,  arg |-> "",  v |-> v]
Err(kind, arg) == [cls |-> "err",    kind |-> kind,  arg |-> arg, v |-> 0]
SynErr         == [cls |-> "syntax", kind |-> "eof", arg |-> "",  v |-> 0]
Host(kind)     == [cls |-> "host",   kind |-> kind,  arg |-> "",  v |-> 0]   \* pinned code only
Hang           == [cls |-> "hang",   kind |-> "",    arg |-> "",  v |-> 0]   \* pinned code only
NoOut          == [cls |-> "",       kind |-> "",    arg |-> "",  v |-> 0]

(* ---- Round 3 (C10) begin: parameters.  They are definitions, not CONSTANTS,
   so that the configurations of C11 need not name them; a configuration
   replaces one with `Name <- Other` (e.g. AltFS <- AltFS10).               *)
\* a failure that is not (necessarily) an error of the language: the property
\* asks that it is a failure, the same one when repeated, and leaves nothing
Fail(kind, arg) == [cls |-> "fail",  kind |-> kind,  arg |-> arg, v |-> 0]

\* interpreters with a module directory of their own, and what it holds
AltFS    == [i \in {} |-> FS10B]
AltFS10  == ("i2" :> FS10B)
FSI(i)   == IF i \in DOMAIN AltFS THEN AltFS[i] @@ BundledFS
            ELSE IF i \in cal.xp THEN fs @@ ExtraDir (* round 5: the appended directory is searched last *)
            ELSE fs

\* interpreters that are constructed by a command of the history
LateBorn == {}
Late2    == {"i2"}
Born(i)  == "secret" \in DOMAIN sess[i]

\* for which failures the module load stack is unwound (deviation); the
\* partial one: only for the error classes of the language
UnwindsFor(err)  == UnwindOnFailure
UnwindsLang(err) == err.cls \in {"err", "syntax"}

\* caller environments of the chain outer <- inner <- leaf
NestIds == {"nested", "deep", "outer"}
(* ---- Round 3 (C10) end ---------------------------------------------------- *)

(* ---- Round 5 (C10 / C11) begin: parameters (definitions, as in round 3) -------
   The world (SessionOps, block "Round 5"): the files of the module directory
   are the variable fs, which the commands appear / vanish / edit change (they
   are commands of the HOST, issued between two interpret calls; the field i
   only says in whose alphabet they stand); cal.xp = the interpreters whose
   program appended ExtraDir to the module path (FSI below: the first
   directory is searched first).  Deviation RemembersMissing (default FALSE;
   TRUE: the loader keeps the names it did not find, cal.miss, and does not
   search for them again): a configuration that sets it must violate
   MissingOnlyIfAbsent.
   Interpreters differ BELOW the session: Insecure = the interpreters that are
   not in secure mode; cal.rb = the interpreters whose program reassigned the
   base-level function is_list.  Start-up code has loaded sys (Preloaded); in
   configurations that follow the bundled module io it is named as well (Pre5).
   C11 under a caller-supplied environment: the command envreq runs
       require m [; m->m_bump() | ; m->m_top + m->m_sees()]
   through interpret(script, name, environment) in an environment of the CALLER
   that holds the caller's own `secret` (v: 0 = a fresh one, 1 = the one the
   caller keeps, 2 = the leaf of the caller's chain).  The require binds in the
   caller's environment, not in the session; the module it loads is THE module
   of the interpreter: same cache (LoadOnce), same instance (SingleInstance:
   the counter moves for every importer), scope under the interpreter's base
   (ModuleScopeIsBase: the probes see neither the session nor the caller).   *)
Insecure == {}
Insec1   == {"i1"}
Pre5     == {"sys", "io"}
RemembersMissing == FALSE
RemembersTrue    == TRUE
WorldOps == {"appear", "vanish", "edit"}
(* ---- Round 5 end ------------------------------------------------------------ *)

\* interpret with a caller environment (id = which one):
\*   envcall  def ev = 4; x           a definition in the caller's scope, then a
\*                                    read that must reach the session
\*   envfail  def ev = 4; error 'boom'
\*   envread  ev                      (kept environment only)
\* They have alphabets of their own (C10Env1: one interpreter, C10Env2: two
\* interpreters sharing the kept environment) next to a few session commands,
\* so that the histories over the core alphabet stay what they were.
C10EnvOne(i) ==
  { Cmd("envcall", i, "x", 0, "fresh", ""), Cmd("envcall", i, "x", 0, "child", ""),
    Cmd("envfail", i, "", 0, "child", "") }
C10EnvKept(i) ==
  { Cmd("envcall", i, "x", 0, "kept", ""), Cmd("envfail", i, "", 0, "kept", ""),
    Cmd("envread", i, "ev", 0, "kept", "") }

\* alphabets (selected by the cfg through CmdsOf <- ...)
C10Core(i) ==
  { Cmd("def", i, "x", 1, "", ""),      Cmd("assign", i, "x", 2, "", ""),
    Cmd("read", i, "x", 0, "", ""),     Cmd("deffn", i, "f", 0, "", ""),
    Cmd("call", i, "f", 0, "", ""),     Cmd("failexpr", i, "y", 1, "", ""),
    Cmd("syntax", i, "z", 0, "", ""),   Cmd("loop", i, "lv", 0, "", ""),
    Cmd("bump", i, "good", 0, "", "") }
  \cup { Cmd("require", i, "", 0, m, "plain") :
           m \in {"good", "good2", "missing", "broken", "synbad", "cyca"} }
C10Wide(i) ==
  C10Core(i) \cup { Cmd("require", i, "", 0, "cycb", "plain"),
                    Cmd("require", i, "", 0, "good", "as"),
                    Cmd("require", i, "", 0, "good2", "unq"),
                    Cmd("require", i, "", 0, "good", "imp") }
C10Two(i) ==
  { Cmd("def", i, "x", 1, "", ""),      Cmd("bump", i, "good", 0, "", "") }
  \cup { Cmd("require", i, "", 0, m, "plain") : m \in {"good", "broken", "missing"} }
C10Env1(i) ==
  { Cmd("def", i, "x", 1, "", ""),      Cmd("read", i, "x", 0, "", ""),
    Cmd("failexpr", i, "y", 1, "", ""), Cmd("require", i, "", 0, "good", "plain"),
    Cmd("require", i, "", 0, "missing", "plain") }
  \cup C10EnvOne(i) \cup C10EnvKept(i)
C10Env2(i) ==
  { Cmd("def", i, "x", 1, "", ""),      Cmd("read", i, "x", 0, "", ""),
    Cmd("require", i, "", 0, "good", "plain"), Cmd("require", i, "", 0, "missing", "plain") }
  \cup C10EnvKept(i) \cup { Cmd("envcall", i, "x", 0, "child", "") }
(* ---- Round 3 (C10) begin: alphabets ---------------------------------------
   C10Dirs   two interpreters with different module directories (AltFS10), the
             second made by `new` in the course of the history (Late2)
   C10Nest   caller environments that have a parent of their own, handed to
             two interpreters:  envcall nested  def ev = 4; x   (in inner)
             envfail nested  def ev = 4; error 'boom'   envread nested  ov
             envread deep  ev / ov  (in leaf: through inner / to outer)
             envread outer  x  (in outer itself)
   C10Fails  defining statements that fail themselves, and module loads that
             fail in the host                                               *)
C10Dirs(i) ==
  { Cmd("new", i, "", 0, "", ""),       Cmd("bump", i, "good", 0, "", "") }
  \cup { Cmd("require", i, "", 0, m, "plain") : m \in {"good", "good2", "solo"} }
C10Nest(i) ==
  { Cmd("def", i, "x", 1, "", ""),      Cmd("read", i, "x", 0, "", ""),
    Cmd("envcall", i, "x", 0, "nested", ""), Cmd("envfail", i, "", 0, "nested", ""),
    Cmd("envread", i, "ov", 0, "nested", ""), Cmd("envread", i, "ev", 0, "deep", ""),
    Cmd("envread", i, "ov", 0, "deep", ""),   Cmd("envread", i, "x", 0, "outer", ""),
    Cmd("envcall", i, "x", 0, "kept", ""),
    Cmd("require", i, "", 0, "good", "plain"), Cmd("require", i, "", 0, "missing", "plain") }
C10Fails(i) ==
  { Cmd("def", i, "x", 1, "", ""),      Cmd("read", i, "x", 0, "", ""),
    Cmd("defbad", i, "x", 0, "", ""),   Cmd("assignbad", i, "x", 0, "", ""),
    Cmd("destrbad", i, "x", 0, "", ""), Cmd("defclass", i, "P", 1, "", ""),
    Cmd("classbad", i, "P", 0, "", "") }
  \cup { Cmd("require", i, "", 0, m, "plain") :
           m \in {"good", "missing", "undec", "isdir", "deeprec", "wrapu", "spin", "wraps"} }
C10FailsWide(i) == C10Fails(i) \cup { Cmd("require", i, "", 0, "wrapd", "plain") }
(* ---- Round 3 (C10) end ---------------------------------------------------- *)

(* ---- Round 5 (C10) begin: alphabets -------------------------------------------
   C10World  the world changes between the calls of i1 (appear / vanish / edit,
             addpath: append(checkerlang_module_path, 'extra'); 1); i2 stands by
             with the same first directory and a module path of its own
   C10Base   i1 (Insec1: not in secure mode) and i2 differ below the session:
             require List / IO, lfirst  List->first([1, 2, 3]),
             rebase  is_list = fn(obj) FALSE,  ioread  IO->read_file(<a module file>),
             docdef  "doc of dn" def dn = NULL  (i1),  infonull  info(NULL)  (i2) *)
C10World(i) ==
  IF i = "i1"
  THEN { Cmd("appear", i, "", 0, "late", ""), Cmd("vanish", i, "", 0, "late", ""),
         Cmd("edit", i, "", 0, "flaky", ""),  Cmd("addpath", i, "", 1, "", "") }
       \cup { Cmd("require", i, "", 0, m, "plain") : m \in {"late", "flaky", "solo"} }
  ELSE { Cmd("addpath", i, "", 1, "", ""), Cmd("require", i, "", 0, "solo", "plain") }
C10Base(i) ==
  { Cmd("require", i, "", 0, "List", "plain"), Cmd("lfirst", i, "List", 0, "", ""),
    Cmd("rebase", i, "is_list", 0, "", "") }
  \cup (IF i = "i1" THEN { Cmd("docdef", i, "dn", 0, "", "") }
        ELSE { Cmd("require", i, "", 0, "IO", "plain"), Cmd("ioread", i, "IO", 0, "", ""),
               Cmd("infonull", i, "", 0, "", ""), Cmd("require", i, "", 0, "missing", "plain") })
C10BaseWide(i) == C10Base(i) \cup { Cmd("require", i, "", 0, "IO", "plain"), Cmd("ioread", i, "IO", 0, "", "") }
(* ---- Round 5 (C10) end ------------------------------------------------------ *)

C11Cmds(i) ==
  { Cmd("require", i, "", 0, m, IForms[f]) : m \in ModIds, f \in DOMAIN IForms }
  \cup { Cmd("bump", i, n, 1, "", "") : n \in UNION {{m, Alias(m), NBump(m)} : m \in ModIds} }

\* c11 with a single entry point: every form of requiring the first module
\* (all graph shapes are generated, so this reaches every rooted shape)
C11Entry(i) ==
  { Cmd("require", i, "", 0, ModSeq[1], Forms[f]) : f \in DOMAIN Forms }
  \cup { Cmd("bump", i, n, 1, "", "") : n \in UNION {{m, Alias(m), NBump(m)} : m \in ModIds} }

\* c11, bundled modules under every spelling (and a user module under a
\* spelling that is not its file name: user modules are found by exact name)
C11Spell(i) ==
  { Cmd("require", i, "", 0, sp, f) : sp \in {"sys", "Sys", "stat", "Stat", "STAT"}, f \in {"plain", "as"} }
  \cup { Cmd("require", i, "", 0, sp, "plain") : sp \in {ModSeq[1], "MA"} }
  \cup { Cmd("bump", i, ModSeq[1], 1, "", "") }

(* ---- Round 3 (C11) begin: alphabets ----------------------------------------
   C11Cmds3: the forms asx and impx (SessionOps: names that collide between
   modules, listed symbols the module does not have) and the importer's own
   definition of the colliding name, `def common = 0`.  C11Entry3: C11Entry
   and the form impx.
   C11Spell3: C11Spell plus the first user module named by a string ('ma',
   'ma.ckl', 'lib/ma', './ma.ckl': all the module ma).
   C11Two: two interpreters whose module paths name different directories
   (AltFS11: i2 reads FSOfAlt, i1 the generated graph): where a module comes
   from belongs to the interpreter, nothing of one loader shows in the other. *)
C11Cmds3(i) ==
  C11Cmds(i)
  \cup { Cmd("require", i, "", 0, m, f) : m \in ModIds, f \in {"impx", "asx"} }
  \cup { Cmd("def", i, NCommon, 0, "", "") }
C11Entry3(i) ==
  C11Entry(i) \cup { Cmd("require", i, "", 0, ModSeq[1], "impx") }
C11Spell3(i) ==
  C11Spell(i)
  \cup { Cmd("require", i, "", 0, SpellOf("str", ModSeq[1]), "plain"),
         Cmd("require", i, "", 0, SpellOf("ext", ModSeq[1]), "as"),
         Cmd("require", i, "", 0, SpellOf("dir", ModSeq[1]), "as"),
         Cmd("require", i, "", 0, SpellOf("dir", ModSeq[1]), "imp"),
         Cmd("require", i, "", 0, SpellOf("dot", ModSeq[1]), "unq") }
C11Two(i) ==
  { Cmd("require", i, "", 0, m, f) : m \in ModIds, f \in {"plain", "unq", "asx"} }
  \cup { Cmd("bump", i, n, 1, "", "") : n \in UNION {{m, NBump(m)} : m \in ModIds} }
AltFS11 == ("i2" :> FSOfAlt(ModSeq))
(* ---- Round 3 (C11) end ---------------------------------------------------- *)

(* ---- Round 4 (C11) begin: the module object as a snapshot made by every require --
   (SessionOps, block "Round 4 (C11)": the reassigned public definition m_cnt.)
   NowVars(i, d): the top-level scope of the loaded module d of interpreter i
   with m_cnt at its present value (= the number of bumps, ctr).  It is what a
   require binds from (ReqBind) and what BindsExactly compares with.
   ModObj: the module object a qualified require binds (a definition, so that
   a configuration can substitute the deviation ModAtLoad).
   Importer command mset:  n->d_cnt = 5  for a name n that holds a module
   object of d - a member assignment on the importer's own object.  (C11Mem;
   the direct member READ n->d_cnt is part of every observation: Obs.mem.)  *)
NowVars(i, d) ==
  LET mv == mods[i][d].vars
  IN IF NCnt(d) \in DOMAIN mv THEN (NCnt(d) :> [mv[NCnt(d)] EXCEPT !.v = mods[i][d].ctr]) @@ mv ELSE mv
ModObj(d, nowvars) == ModOf(d, nowvars)
\* What the scope of a loaded module holds of OTHER modules' m_cnt (a value its
\* own `require .. unqualified` copied, a module object its own qualified
\* require made): fixed when the module was loaded, it depends on the ORDER in
\* which the modules were loaded, so it belongs to the exported key of an idle
\* state (Key.mv) - two histories that agree on everything else must not be
\* merged by the harness.  (Empty wherever no module has the statement vals.)
SnapNames(i, id) == {x \in DOMAIN mods[i][id].vars :
                       mods[i][id].vars[x].k \in {"sym", "mod"} /\ mods[i][id].vars[x].v # 0}
ModSnaps(i) == [id \in {d \in DOMAIN mods[i] : SnapNames(i, d) # {}} |->
                  [x \in SnapNames(i, id) |-> mods[i][id].vars[x].v]]
C11Mem(i, ids) ==
  { Cmd("mset", i, n, MSetVal, "", "") : n \in UNION {{m, Alias(m)} : m \in ids} \cup {NShared} }
C11Cmds4(i)  == C11Cmds3(i)  \cup C11Mem(i, ModIds)
C11Entry4(i) == C11Entry3(i) \cup C11Mem(i, ModIds)
C11Spell4(i) == C11Spell3(i) \cup C11Mem(i, {ModSeq[1]})
                \cup { Cmd("bump", i, NBump(ModSeq[1]), 1, "", "") }   \* unqualified ; ma_bump() ; unqualified
C11Two4(i)   == C11Two(i)    \cup C11Mem(i, ModIds)
(* ---- Round 4 (C11) end ---------------------------------------------------- *)

(* ---- Round 5 (C11) begin: importers that run in a caller-supplied environment --
   (see the parameter block of round 5)  n = the tail of the script ("" / bump /
   probe), v = which environment of the caller, id = the module.             *)
EnvTails == {"", "bump", "probe"}
C11Env(i) ==
  { Cmd("require", i, "", 0, m, f) : m \in ModIds, f \in {"plain", "unq"} }
  \cup { Cmd("bump", i, n, 1, "", "") : n \in UNION {{m, NBump(m)} : m \in ModIds} }
  \cup { Cmd("envreq", i, t, v, m, "plain") : t \in EnvTails, v \in {0, 2}, m \in ModIds }
C11EnvWide(i) ==
  C11Env(i) \cup { Cmd("envreq", i, t, 1, m, "plain") : t \in EnvTails, m \in ModIds }
(* ---- Round 5 (C11) end ------------------------------------------------------ *)

Cmds == UNION {CmdsOf(i) : i \in Interps}

\* sp = the module name as spelled in the require statement (round 3 (C11):
\* nm = the name it stands for, BindNm: sp itself unless sp is a string)
Act(sp, form) == [id |-> Canon(sp), nm |-> BindNm(sp), form |-> form, ph |-> "push", pc |-> 0,
                  env |-> NoBind, pushed |-> FALSE]

Idle == [ph |-> "idle", cmd |-> NoCmd, start |-> << >>, act |-> << >>,
         err |-> NoOut, first |-> NoOut, second |-> NoOut, snap |-> << >>]

VStr(x) == x.k \o ":" \o x.id \o ":" \o x.n \o ":" \o ToString(x.v)

\* round 5: the part of the world (and of the base environments) that is not as
\* it was at the start, as a set of tags
FlakyVer == IF "flaky" \in DOMAIN fs THEN CHOOSE k \in 0..2 : fs["flaky"] = FlakyV(k) ELSE 0
WorldKey == (IF "late" \in DOMAIN fs THEN {"late"} ELSE {})
            \cup (IF FlakyVer # 0 THEN {"flaky" \o ToString(FlakyVer)} ELSE {})
            \cup {"path:" \o i : i \in cal.xp} \cup {"is_list:" \o i : i \in cal.rb}
            \cup UNION {{"miss:" \o i \o ":" \o m : m \in cal.miss[i]} : i \in Interps}

\* the idle-state key exported with edges (everything that determines the
\* future: scopes, loaded modules with their counters, stack, load counters)
Key == [s |-> [i \in Interps |-> [n \in DOMAIN sess[i] |-> VStr(sess[i][n])]],
        m |-> [i \in Interps |-> [id \in DOMAIN mods[i] |-> mods[i][id].ctr]],
        k |-> mstack, l |-> loads, g |-> gen, n |-> nreq, e |-> cal.ev,
        ne |-> cal.nev (* round 3 *),
        mv |-> [i \in Interps |-> ModSnaps(i)] (* round 4 (C11) *),
        w |-> WorldKey (* round 5: empty at the start *)]

\* what a failed call may not change when it is repeated (load counters are
\* the harness's instrumentation, not interpreter state)
Snap == <<sess, mods, mstack, cal>>

Emit(e, tag, rec) == IF e /\ Export THEN PrintT("@@" \o tag \o "@@" \o ToJson(rec)) ELSE TRUE

Running == ctl.ph \in {"run", "rerun"}
Bounded == MaxReq > 0
CanStart(c) == \/ ctl.ph = "idle" /\ (Bounded => nreq < MaxReq)
               \/ ctl.ph = "failed" /\ ctl.cmd = c
\* (the immediate repeat of a failed command counts too, so that an exported
\* edge depends only on the idle state and the command; it may exceed MaxReq)
Count == nreq' = IF Bounded THEN nreq + 1 ELSE nreq

\* a command ends: (the primed state variables must be fixed before this)
Finish(e, c, out, startKey, re) ==
  /\ ctl' = IF re THEN [Idle EXCEPT !.ph = "done", !.cmd = c, !.first = ctl.first,
                                    !.second = out, !.snap = ctl.snap]
            ELSE IF out.cls # "val"
                 THEN [Idle EXCEPT !.ph = "failed", !.cmd = c, !.first = out,
                                   !.snap = Snap']
                 ELSE Idle
  /\ Emit(e, "EDGE", [p |-> startKey, c |-> c, o |-> out, q |-> Key'])

-----------------------------------------------------------------------------
(* Environment chains.  Code running in the session of i resolves a name in
   sess[i], then in the base environment of i; where that base hangs under
   another session (cal.bpar, pinned code only) the lookup goes on there.  A
   chain is the sequence of interpreters whose session scopes a lookup passes
   through.                                                                  *)
NoInterp == ""
NI == Cardinality(Interps)
CalInit == [ev |-> FALSE, par |-> NoInterp, bpar |-> [i \in Interps |-> NoInterp],
            nev |-> FALSE, npar |-> NoInterp (* round 3: the chain outer <- inner <- leaf *),
            xp |-> {}, rb |-> {}, miss |-> [i \in Interps |-> {}] (* round 5 *)]

RECURSIVE BaseChainF(_, _, _), RootOfF(_, _, _), VisOf(_)
\* the sessions above the base of i; fuel bounds a walk that never ends
BaseChainF(bp, i, fuel) ==
  IF bp[i] = NoInterp \/ fuel = 0 THEN << >>
  ELSE <<bp[i]>> \o BaseChainF(bp, bp[i], fuel - 1)
\* the interpreter whose base is the root of the chain through base i
\* ("?" = there is none: the chain is cyclic)
RootOfF(bp, i, fuel) ==
  IF bp[i] = NoInterp THEN i ELSE IF fuel = 0 THEN "?" ELSE RootOfF(bp, bp[i], fuel - 1)
\* the scope a lookup through the chain ch sees (nearer scopes shadow)
VisOf(ch) == IF ch = << >> THEN NoBind ELSE sess[Head(ch)] @@ VisOf(Tail(ch))

SessChain(i) == <<i>> \o BaseChainF(cal.bpar, i, NI)
Cyclic(i)    == Len(BaseChainF(cal.bpar, i, NI)) = NI

(* interpret(script, filename, environment): walk from the caller's
   environment to the root of its chain, hang the root under the session,
   evaluate, detach.  EnvRoot = the interpreter whose BASE is that root,
   NoInterp when the caller's environment is its own root.  The repaired code
   does not hang a root that is the base of the interpreter itself.          *)
EnvOps == {"envcall", "envfail", "envread"}
EnvRoot(c) ==
  CASE c.id = "fresh" -> NoInterp
    [] c.id = "kept"  -> IF cal.par = NoInterp THEN NoInterp ELSE RootOfF(cal.bpar, cal.par, NI)
    [] c.id \in NestIds (* round 3: the root of that chain is outer *) ->
                         IF cal.npar = NoInterp THEN NoInterp ELSE RootOfF(cal.bpar, cal.npar, NI)
    [] OTHER (* child of the session of c.i *) -> RootOfF(cal.bpar, c.i, NI)

\* where things hang while the script runs
Attached(c) ==
  LET r == EnvRoot(c) IN
  IF r = "?" THEN cal
  ELSE IF r = NoInterp THEN (IF c.id = "kept" THEN [cal EXCEPT !.par = c.i]
                             ELSE IF c.id \in NestIds THEN [cal EXCEPT !.npar = c.i] ELSE cal)
  ELSE IF DetachCallerEnv /\ r = c.i THEN cal
  ELSE [cal EXCEPT !.bpar[r] = c.i]

\* the sessions the script's lookups pass through, and whether they can end
EnvChain(c) ==
  LET a == Attached(c)
      first == IF c.id = "kept" THEN a.par ELSE IF c.id \in NestIds THEN a.npar ELSE c.i
  IN [ch |-> <<first>> \o BaseChainF(a.bpar, first, NI),
      cyc |-> Len(BaseChainF(a.bpar, first, NI)) = NI]

EnvDefines(c) == c.op \in {"envcall", "envfail"} /\ c.id = "kept"
NestDefines(c) == c.op \in {"envcall", "envfail"} /\ c.id = "nested"      \* round 3
\* round 3: the names the scopes of the caller's own chain hold (they shadow
\* the session's): ev once a script has defined it there, the host's ov in outer
OwnVis(c) ==
  CASE c.id = "kept"  -> IF cal.ev THEN ("ev" :> IntV(4)) ELSE NoBind
    [] c.id = "outer" -> ("ov" :> IntV(5))
    [] c.id \in {"nested", "deep"} ->
         (IF cal.nev \/ NestDefines(c) THEN ("ev" :> IntV(4)) ELSE NoBind) @@ ("ov" :> IntV(5))
    [] OTHER -> NoBind
CalNext(c) ==
  IF EnvRoot(c) = "?" THEN cal                    \* the walk to the root never returns
  ELSE LET a == IF DetachCallerEnv THEN cal ELSE Attached(c)   \* repaired: detached again
       IN [a EXCEPT !.ev = @ \/ EnvDefines(c), !.nev = @ \/ NestDefines(c)]

EnvOutcome(c) ==
  LET ec  == EnvChain(c)
      vis == VisOf(ec.ch)
      undef(n) == IF ec.cyc THEN Host("RecursionError") ELSE Err("undef", n)
  IN IF EnvRoot(c) = "?" THEN Hang
     ELSE CASE c.op = "envfail" -> Err("boom", "")
            [] OTHER (* envcall, envread: the caller's own scopes first (round 3: OwnVis) *) ->
                 IF c.n \in DOMAIN OwnVis(c) THEN Val(OwnVis(c)[c.n].k, OwnVis(c)[c.n].v)
                 ELSE IF c.n \in DOMAIN vis THEN Val(vis[c.n].k, vis[c.n].v) ELSE undef(c.n)

-----------------------------------------------------------------------------
(* Atomic commands: def, assign, read, deffn, call, failexpr, syntax, loop,
   bump, and the three with a caller environment.  S = the session scope of
   the addressed interpreter, V = what a lookup from it sees.               *)
S(c) == sess[c.i]
V(c) == IF DetachCallerEnv THEN sess[c.i] ELSE VisOf(SessChain(c.i))
Sees(c, n) == n \in DOMAIN V(c)
Undef(c, n) == IF ~DetachCallerEnv /\ Cyclic(c.i) THEN Host("RecursionError") ELSE Err("undef", n)
Has(c, n) == n \in DOMAIN S(c)
BumpTarget(c) == S(c)[c.n].id
BumpOk(c) == /\ Has(c, c.n)
             /\ \/ S(c)[c.n].k = "mod"
                \/ S(c)[c.n].k = "sym" /\ S(c)[c.n].n = NBump(S(c)[c.n].id)

FailDefOps == {"defbad", "assignbad", "destrbad", "classbad"}     \* round 3
(* ---- Round 4 (C11) begin: when the command mset is taken -----------------------
   c.n holds a module object of a generated module d, and that object is the
   importer's alone: no loaded module holds a module object of d in its own
   scope (`require mb unqualified` binds the very object mb's own `require d`
   made, so an assignment through the importer's name would show in mb's
   scope as well - sharing of ONE object that the statement does not speak
   about and this model, which copies values, does not follow).              *)
MSetOk(c) ==
  /\ Has(c, c.n)
  /\ S(c)[c.n].k = "mod"
  /\ LET d == S(c)[c.n].id IN
       /\ d \in DOMAIN mods[c.i]
       /\ NCnt(d) \in DOMAIN mods[c.i][d].vars
       /\ \A m \in DOMAIN mods[c.i] : \A x \in DOMAIN mods[c.i][m].vars :
             ~(mods[c.i][m].vars[x].k = "mod" /\ mods[c.i][m].vars[x].id = d)
(* ---- Round 4 (C11) end ---------------------------------------------------- *)
AtomicOps == {"def", "assign", "read", "deffn", "call", "failexpr", "syntax", "loop", "bump"} \cup EnvOps
             \cup FailDefOps \cup {"defclass", "new"} \cup {"mset" (* round 4 (C11) *)}
             \cup WorldOps \cup {"addpath", "lfirst", "rebase", "ioread", "docdef", "infonull"}   \* round 5

(* ---- Round 5 (C10) begin: when a command of the world is taken, what it does --
   A file is removed / edited only while no interpreter has loaded it (what the
   statement says about a module that HAS been loaded is "once": the cached
   instance stays whatever happens to the file; not followed here).          *)
Loaded(m) == \E i \in Interps : m \in DOMAIN mods[i]
WorldOk(c) ==
  CASE c.op = "appear"  -> "late" \notin DOMAIN fs
    [] c.op = "vanish"  -> "late" \in DOMAIN fs /\ ~Loaded("late")
    [] c.op = "edit"    -> "flaky" \in DOMAIN fs /\ ~Loaded("flaky")
    [] c.op = "addpath" -> c.i \notin cal.xp
    [] OTHER            -> TRUE
NewFS(c) ==
  CASE c.op = "appear" -> FSLate @@ fs
    [] c.op = "vanish" -> [m \in DOMAIN fs \ {"late"} |-> fs[m]]
    [] c.op = "edit"   -> [fs EXCEPT !["flaky"] = FlakyV((FlakyVer + 1) % 3)]
    [] OTHER           -> fs
NewCal(c) ==
  CASE c.op \in EnvOps  -> CalNext(c)
    [] c.op = "addpath" -> [cal EXCEPT !.xp = @ \cup {c.i}]
    [] c.op = "rebase"  -> [cal EXCEPT !.rb = @ \cup {c.i}]
    [] OTHER            -> cal
(* ---- Round 5 (C10) end ------------------------------------------------------ *)

NewScope(c) ==
  CASE c.op = "def"      -> (c.n :> IntV(c.v)) @@ S(c)
    [] c.op = "assign"   -> IF Has(c, c.n) THEN (c.n :> IntV(c.v)) @@ S(c) ELSE S(c)
    [] c.op = "deffn"    -> (c.n :> FnV(c.n)) @@ S(c)
    [] c.op = "failexpr" -> (c.n :> IntV(c.v)) @@ S(c)          \* def y = 1; error 'boom'; def z = 1
    [] c.op = "loop"     -> (c.n :> IntV(1)) @@ ("i" :> IntV(2)) @@ S(c)
                            \* for i in [1,2,3] do if i == 2 then error 'boom'; def lv = i; end
    \* round 3: def class P do def P_m = 1; def P_get(self) self->P_m end  (the
    \* pinned NodeClass evaluates the member definitions in the enclosing scope,
    \* so they are bound there too; like the loop variable the harness does not
    \* judge these two names); a new interpreter; the failing definers fall
    \* under OTHER: they change nothing
    [] c.op = "defclass" -> (c.n :> ObjV(c.v)) @@ ((c.n \o "_m") :> IntV(c.v))
                            @@ ((c.n \o "_get") :> FnV(c.n \o "_get")) @@ S(c)
    [] c.op = "new"      -> ("secret" :> IntV(1))
    [] c.op = "mset"     -> (c.n :> [S(c)[c.n] EXCEPT !.v = c.v]) @@ S(c)   \* round 4 (C11): n->d_cnt = 5
    [] c.op = "docdef"   -> (c.n :> NullV) @@ S(c)                         \* round 5: "doc of dn" def dn = NULL
    [] OTHER             -> S(c)

Outcome(c) ==
  CASE c.op = "def"      -> Val("int", c.v)
    [] c.op = "assign"   -> IF Has(c, c.n) THEN Val("int", c.v) ELSE Err("unassigned", c.n)
    [] c.op = "read"     -> IF Sees(c, c.n) THEN Val(V(c)[c.n].k, V(c)[c.n].v) ELSE Undef(c, c.n)
    [] c.op = "deffn"    -> Val("fn", 0)
    [] c.op = "call"     -> IF ~Sees(c, c.n) THEN Undef(c, c.n)             \* f() with def f() x
                            ELSE IF ~Sees(c, "x") THEN Undef(c, "x")
                            ELSE Val(V(c)["x"].k, V(c)["x"].v)
    [] c.op = "failexpr" -> Err("boom", "")
    [] c.op = "syntax"   -> SynErr                          \* def z = 1; def w = (
    [] c.op = "loop"     -> Err("boom", "")
    [] c.op \in EnvOps   -> EnvOutcome(c)
    \* round 3:  def x = 2 * nosuch  /  x = 2 * nosuch  /  def [x, w] = [5, nosuch]
    \*           def class P do def P_m = 2 * nosuch; def P_get(self) 0 end
    \* (an assignment looks its variable up before it evaluates the right-hand side)
    [] c.op = "assignbad" /\ ~Has(c, c.n) -> Err("unassigned", c.n)
    [] c.op \in FailDefOps -> Err("undef", "nosuch")
    [] c.op = "defclass" -> Val("obj", c.v)
    [] c.op = "new"      -> Val("int", 1)           \* (the set-up call def secret = 1)
    [] c.op = "mset"     -> Val("mod", 0)           \* round 4 (C11): a member assignment yields the object
    \* round 5: the host changes the module directory (no interpret call: 0 by convention);
    \* append(checkerlang_module_path, 'extra'); 1
    [] c.op \in WorldOps -> Val("int", 0)
    [] c.op = "addpath"  -> Val("int", 1)
    \* round 5: List->first([1, 2, 3]) asks is_list of the base environment of ITS interpreter;
    \* IO->read_file(..) exists where the interpreter is not in secure mode; the doc
    \* string of another interpreter's definition is nowhere to be seen
    [] c.op \in {"lfirst", "ioread"} /\ ~Has(c, c.n) -> Err("undef", c.n)
    [] c.op = "lfirst"   -> IF c.i \in cal.rb THEN Err("notlist", "list") ELSE Val("int", 1)
    [] c.op = "ioread"   -> IF c.i \in Insecure THEN Val("str", 1) ELSE Err("nomember", "read_file")
    [] c.op = "rebase"   -> Val("fn", 0)
    [] c.op = "docdef"   -> Val("null", 0)
    [] c.op = "infonull" -> Val("str", 0)
    [] OTHER (* bump *)  -> IF ~Has(c, c.n) THEN Err("undef", c.n)
                            ELSE Val("int", mods[c.i][BumpTarget(c)].ctr + 1)

Atomic(c, e) ==
  /\ c.op \in AtomicOps
  /\ CanStart(c)
  /\ Born(c.i) = (c.op # "new")                   \* round 3
  /\ c.op = "bump" => /\ (Has(c, c.n) \/ c.v = 0)
                      /\ Has(c, c.n) => (BumpOk(c) /\ mods[c.i][BumpTarget(c)].ctr < MaxCtr)
  /\ c.op = "mset" => MSetOk(c)                   \* round 4 (C11)
  /\ WorldOk(c)                                   \* round 5
  /\ sess' = [sess EXCEPT ![c.i] = NewScope(c)]
  /\ mods' = IF c.op = "bump" /\ Has(c, c.n)
             THEN [mods EXCEPT ![c.i][BumpTarget(c)].ctr = @ + 1] ELSE mods
  /\ cal' = NewCal(c)                             \* round 5 (was: CalNext for the EnvOps, else unchanged)
  /\ fs' = NewFS(c)                               \* round 5
  /\ UNCHANGED <<mstack, loads, gen>>
  /\ Count
  /\ Finish(e, c, Outcome(c), Key, ctl.ph = "failed")

-----------------------------------------------------------------------------
(* require: the sub-step machine *)
I == ctl.cmd.i
Depth == Len(ctl.act)
Top == ctl.act[Depth]
SetTop(a) == [ctl EXCEPT !.act[Depth] = a]
Stepping(ph) == Running /\ ctl.err.cls = "" /\ Depth > 0 /\ Top.ph = ph
CallerScope == ("secret" :> IntV(1))         \* round 5 (C11): what an environment of the caller holds
ImporterScope == IF Depth = 1 THEN (IF ctl.cmd.op = "envreq" THEN CallerScope ELSE sess[I])
                 ELSE ctl.act[Depth - 1].env

ReqStart(c) ==
  /\ c.op \in {"require", "envreq" (* round 5 (C11) *)}
  /\ CanStart(c)
  /\ Born(c.i)                                    \* round 3
  /\ (c.op = "envreq" /\ c.n = "bump" /\ c.id \in DOMAIN mods[c.i]) => mods[c.i][c.id].ctr < MaxCtr   \* round 5
  /\ ctl' = [Idle EXCEPT !.ph = IF ctl.ph = "failed" THEN "rerun" ELSE "run",
                         !.cmd = c, !.start = Key, !.act = <<Act(c.id, c.form)>>,
                         !.first = ctl.first, !.snap = ctl.snap]
  /\ Count
  /\ UNCHANGED <<sess, mods, mstack, loads, gen, fs, cal>>

\* Environment.pushModuleStack: error if the id is already on the stack
ReqPush ==
  /\ Stepping("push")
  /\ IF Top.id \in Range(mstack[I])
     THEN /\ ctl' = [ctl EXCEPT !.err = Err("circular", Top.id)]
          /\ UNCHANGED mstack
     ELSE /\ mstack' = [mstack EXCEPT ![I] = Append(@, Top.id)]
          /\ ctl' = SetTop([Top EXCEPT !.ph = "lookup", !.pushed = TRUE])
  /\ UNCHANGED <<sess, mods, loads, gen, nreq, fs, cal>>

\* cache hit / find the file / parse it
\* (round 5: Absent - no file of that name on the module path NOW; the
\* deviation RemembersMissing also takes the word of an earlier search)
Absent(i, m) == m \notin DOMAIN FSI(i) \/ (RemembersMissing /\ m \in cal.miss[i])
ReqLookup ==
  /\ Stepping("lookup")
  /\ cal' = IF RemembersMissing /\ Top.id \notin DOMAIN mods[I] /\ Absent(I, Top.id)
            THEN [cal EXCEPT !.miss[I] = @ \cup {Top.id}] ELSE cal
  /\ ctl' = IF Top.id \in DOMAIN mods[I] THEN SetTop([Top EXCEPT !.ph = "pop"])
            ELSE IF Absent(I, Top.id) THEN [ctl EXCEPT !.err = Err("notfound", Top.id)]
            ELSE IF Top.id \in DOMAIN Unreadable        \* round 3: the host cannot read it
                 THEN [ctl EXCEPT !.err = Fail("unreadable", Top.id)]
            ELSE IF FSI(I)[Top.id].syn THEN [ctl EXCEPT !.err = SynErr]
            ELSE SetTop([Top EXCEPT !.ph = "load", !.pc = 0, !.env = NoBind])
  /\ UNCHANGED <<sess, mods, mstack, loads, gen, nreq, fs>>

Target(env, st) == env[BindName(st.form, st.id)].id

\* one top-level statement of the module file (pc = 0: the prelude)
ReqLoadStep ==
  /\ Stepping("load")
  /\ LET a == Top
         body == FSI(I)[a.id].body
     IN IF a.pc = 0
        THEN /\ loads' = [loads EXCEPT ![I] =
                   (a.id :> Min(LoadCap, (IF a.id \in DOMAIN @ THEN @[a.id] ELSE 0) + 1)) @@ @]
             /\ ctl' = SetTop([a EXCEPT !.pc = 1,
                                         !.env = IF a.id \in Bundled THEN NoBind   \* contents not modelled
                                                 ELSE StdEnv(a.id, ImporterScope)])
             /\ UNCHANGED mods
        ELSE IF a.pc > Len(body)
        THEN /\ ctl' = SetTop([a EXCEPT !.ph = "register"])
             /\ UNCHANGED <<loads, mods>>
        ELSE LET st == body[a.pc] IN
             CASE st.op \in {"def", "rdr", "def8"} ->
                    /\ ctl' = SetTop([a EXCEPT !.pc = @ + 1,
                                               !.env = (st.n :> SymV(a.id, st.n)) @@ @])
                    /\ UNCHANGED <<loads, mods>>
               [] st.op = "req" ->
                    /\ ctl' = [ctl EXCEPT !.act = Append([@ EXCEPT ![Depth].pc = a.pc + 1],
                                                         Act(st.id, st.form))]
                    /\ UNCHANGED <<loads, mods>>
               [] st.op = "poke" ->
                    /\ mods' = [mods EXCEPT ![I][Target(a.env, st)].ctr = @ + 1]
                    /\ ctl' = SetTop([a EXCEPT !.pc = @ + 1])
                    /\ UNCHANGED loads
               [] st.op = "vals" ->        \* round 3 (C11): one definition per kind of value, and `common`
                    /\ ctl' = SetTop([a EXCEPT !.pc = @ + 1, !.env = ValsEnv(a.id) @@ @])
                    /\ UNCHANGED <<loads, mods>>
               [] st.op = "deep" ->        \* round 3: the host's stack is exhausted
                    /\ ctl' = [ctl EXCEPT !.err = Fail("toodeep", "")]
                    /\ UNCHANGED <<loads, mods>>
               [] st.op = "spin" ->        \* round 3: does not end; the user interrupts it
                    /\ ctl' = [ctl EXCEPT !.err = Fail("interrupted", "")]
                    /\ UNCHANGED <<loads, mods>>
               [] OTHER (* fail *) ->
                    /\ ctl' = [ctl EXCEPT !.err = Err("boom", "")]
                    /\ UNCHANGED <<loads, mods>>
  /\ UNCHANGED <<sess, mstack, gen, nreq, fs, cal>>

\* modules[moduleidentifier] = moduleEnv
ReqRegister ==
  /\ Stepping("register")
  /\ mods' = [mods EXCEPT ![I] = (Top.id :> [vars |-> Top.env, ctr |-> 0]) @@ @]
  /\ ctl' = SetTop([Top EXCEPT !.ph = "pop"])
  /\ UNCHANGED <<sess, mstack, loads, gen, nreq, fs, cal>>

\* environment.popModuleStack()
ReqPop ==
  /\ Stepping("pop")
  /\ mstack' = [mstack EXCEPT ![I] = SubSeq(@, 1, Len(@) - 1)]
  /\ ctl' = SetTop([Top EXCEPT !.ph = "bind", !.pushed = FALSE])
  /\ UNCHANGED <<sess, mods, loads, gen, nreq, fs, cal>>

\* the three binding forms and the underscore filter (nodes.py:1778-1800):
\* iterate the module's local symbols, skip private ones, put into the importer
Underscore(n) == IsPrivate(FSI(I), n)
\* (d = the module's identity, nm = its name as spelled in the statement; an
\* import list binds every pair it lists, the empty list binds nothing)
Bindings(form, d, nm, mv) ==
  CASE form = "unq" -> [n \in {s \in DOMAIN mv : ~Underscore(s)} |-> mv[n]]
    [] form \in ImpForms ->
         \* round 3 (C11): a listed symbol is looked up in ImportScope(mv), the module's own scope
         LET sc  == ImportScope(mv)
             hit == {p \in ImpListOf(form, d) : p[1] \in DOMAIN sc /\ ~Underscore(p[1])}
         IN [b \in {p[2] : p \in hit} |-> sc[(CHOOSE p \in hit : p[2] = b)[1]]]
    \* round 4 (C11): ModObj(d, mv), the object made now from mv = NowVars (was: ModV(d))
    [] form = "as"  -> (Alias(nm) :> ModObj(d, mv))
    [] form = "asx" -> (NShared :> ModObj(d, mv))    \* round 3 (C11)
    [] OTHER        -> (nm :> ModObj(d, mv))

ReqBind(e) ==
  /\ Stepping("bind")
  /\ LET b == Bindings(Top.form, Top.id, Top.nm, NowVars(I, Top.id) (* round 4 (C11): was mods[I][Top.id].vars *)) IN
     IF Depth = 1 /\ ctl.cmd.op = "envreq"
     THEN \* round 5 (C11): the importer is a script in an environment of the caller - the names are
          \* bound THERE (the session gains nothing); the tail of the script uses the module object
          /\ mods' = IF ctl.cmd.n = "bump" THEN [mods EXCEPT ![I][Top.id].ctr = @ + 1] ELSE mods
          /\ UNCHANGED <<sess, mstack, loads, gen, nreq, fs, cal>>
          /\ Finish(e, ctl.cmd, CASE ctl.cmd.n = "bump"  -> Val("int", mods[I][Top.id].ctr + 1)
                                  [] ctl.cmd.n = "probe" -> Val("int", 2 * Probe(CallerScope))
                                  [] OTHER               -> Val("null", 0),
                    ctl.start, ctl.ph = "rerun")
     ELSE IF Depth = 1
     THEN /\ sess' = [sess EXCEPT ![I] = Rebind(b, @) (* round 3 (C11): b @@ @, the new bindings win *)]
          /\ UNCHANGED <<mods, mstack, loads, gen, nreq, fs, cal>>
          /\ Finish(e, ctl.cmd, Val("null", 0), ctl.start, ctl.ph = "rerun")
     ELSE /\ ctl' = [ctl EXCEPT !.act = [k \in 1..(Depth - 1) |->
                         IF k = Depth - 1 THEN [ctl.act[k] EXCEPT !.env = Rebind(b, @)]
                         ELSE ctl.act[k]]]
          /\ UNCHANGED <<sess, mods, mstack, loads, gen, nreq, fs, cal>>

\* an error leaves the activation; the pinned code leaves the id on the stack
ReqUnwind ==
  /\ Running /\ ctl.err.cls # "" /\ Depth > 0
  /\ mstack' = IF UnwindsFor(ctl.err) /\ Top.pushed
               THEN [mstack EXCEPT ![I] = SubSeq(@, 1, Len(@) - 1)] ELSE mstack
  /\ ctl' = [ctl EXCEPT !.act = SubSeq(@, 1, Depth - 1)]
  /\ UNCHANGED <<sess, mods, loads, gen, nreq, fs, cal>>

ReqFail(e) ==
  /\ Running /\ ctl.err.cls # "" /\ Depth = 0
  /\ UNCHANGED <<sess, mods, mstack, loads, gen, nreq, fs, cal>>
  /\ Finish(e, ctl.cmd, ctl.err, ctl.start, ctl.ph = "rerun")

Internal(e) == ReqPush \/ ReqLookup \/ ReqLoadStep \/ ReqRegister \/ ReqPop
               \/ ReqBind(e) \/ ReqUnwind \/ ReqFail(e)

\* after a failed command: either it is repeated at once or the session goes on
Settle ==
  /\ ctl.ph \in {"failed", "done"}
  /\ ctl' = Idle
  /\ UNCHANGED <<sess, mods, mstack, loads, gen, nreq, fs, cal>>

-----------------------------------------------------------------------------
(* c11: generating the module graph, edge by edge in canonical order (edges
   grouped by requiring module in ModSeq order; the order of one module's
   requires is free).  In BFS mode every graph is generated once, in
   simulation mode graphs are drawn at random.                              *)
GenEdge(m, d, form, poke) ==
  /\ Mode = "c11"
  /\ ctl.ph = "gen"
  /\ IF Len(gen) = 0 THEN TRUE ELSE Idx(gen[Len(gen)].m) <= Idx(m)
  /\ Cardinality({k \in DOMAIN gen : gen[k].m = m}) < MaxOut
  /\ \A k \in DOMAIN gen : ~(gen[k].m = m /\ gen[k].d = d)
  /\ GenBack = "first" => (Idx(d) > Idx(m) \/ (Idx(d) = 1 /\ Idx(m) = Len(ModSeq)))
  /\ (GenSorted /\ Len(gen) > 0) => (gen[Len(gen)].m = m => Idx(gen[Len(gen)].d) < Idx(d))
  /\ poke => form # "imp"                 \* the import list has no bump
  /\ GenRot => /\ form = Forms[((Idx(m) + Idx(d) + Len(gen)) % 4) + 1]
               /\ poke = (Len(gen) % 2 = 1 /\ form # "imp")
  /\ gen' = Append(gen, [m |-> m, d |-> d, form |-> form, poke |-> poke])
  /\ UNCHANGED <<sess, mods, mstack, loads, ctl, nreq, fs, cal>>

FsRec(f) == [g |-> gen, fs |-> [m \in DOMAIN f \ Bundled |-> [syn |-> f[m].syn, body |-> f[m].body]]]

GenDone(e) ==
  /\ Mode = "c11"
  /\ ctl.ph = "gen"
  /\ ctl' = Idle
  /\ fs' = FSOf(gen, ModIds) @@ BundledFS
  /\ UNCHANGED <<sess, mods, mstack, loads, gen, nreq, cal>>
  /\ Emit(e, "FSDEF", FsRec(fs'))

ASSUME Mode = "c10" => Emit(TRUE, "FSDEF", [g |-> << >>,
          fs |-> [m \in DOMAIN C10Files5 |-> [syn |-> C10Files5[m].syn, body |-> C10Files5[m].body]]])
\* round 3: which files cannot be read (and how), and the directories of the
\* interpreters that have one of their own
ASSUME Mode = "c10" => Emit(TRUE, "FSRAW", [raw |-> Unreadable,
          alt |-> [i \in DOMAIN AltFS |-> [m \in DOMAIN AltFS[i] |->
                     [syn |-> AltFS[i][m].syn, body |-> AltFS[i][m].body]]],
          \* round 5: the files the world commands put in place, the appended directory,
          \* the interpreters that are not in secure mode
          world |-> [late |-> [syn |-> FSLate["late"].syn, body |-> FSLate["late"].body],
                     flaky |-> [k \in 1..3 |-> [syn |-> FlakyV(k - 1).syn, body |-> FlakyV(k - 1).body]],
                     extra |-> [m \in DOMAIN ExtraDir |-> [syn |-> ExtraDir[m].syn, body |-> ExtraDir[m].body]]],
          insec |-> [i \in Insecure |-> TRUE]])
\* round 3 (C11): the same for the generated file systems (every FSDEF of the
\* run goes with these directories of single interpreters)
ASSUME Mode = "c11" => Emit(TRUE, "FSALT", [alt |-> [i \in DOMAIN AltFS |-> [m \in DOMAIN AltFS[i] |->
                     [syn |-> AltFS[i][m].syn, body |-> AltFS[i][m].body]]]])

-----------------------------------------------------------------------------
Init ==
  /\ sess   = [i \in Interps |-> IF i \in LateBorn THEN NoBind (* round 3 *) ELSE ("secret" :> IntV(1))]
  /\ mods   = [i \in Interps |-> [x \in Preloaded |-> [vars |-> NoBind, ctr |-> 0]]]   \* (round 5: a cfg may name Pre5)
  /\ mstack = [i \in Interps |-> << >>]
  /\ loads  = [i \in Interps |-> [x \in Preloaded |-> 1]]
  /\ ctl    = IF Mode = "c10" THEN Idle ELSE [Idle EXCEPT !.ph = "gen"]
  /\ gen    = << >>
  /\ nreq   = 0
  /\ fs     = (IF Mode = "c10" THEN C10Files5 (* round 5 *) ELSE FSOf(<< >>, ModIds)) @@ BundledFS
  /\ cal    = CalInit

NextE(e) ==
  \/ \E c \in Cmds : Atomic(c, e) \/ ReqStart(c)
  \/ Internal(e)
  \/ Settle
  \/ GenDone(e)
  \/ \E m \in ModIds, d \in ModIds, f \in DOMAIN Forms, p \in BOOLEAN : GenEdge(m, d, Forms[f], p)
Next == NextE(TRUE)

Spec == Init /\ [][Next]_vars /\ WF_vars(Internal(FALSE))

-----------------------------------------------------------------------------
(* Observations: what the harness must see in the importer scope of every
   interpreter in an idle state.  k = int: the name holds the integer r;
   call: it holds a function whose call returns r; fn: a function that is
   not called by the observer; mod: a module object with members mem.       *)
Ctr(i, m) == mods[i][m].ctr
RenderSym(i, x) ==
  LET kd == SymKind(FSI(i), x.id, x.n) IN
  CASE kd = "get"  -> [k |-> "call", r |-> Ctr(i, x.id)]
    [] kd = "sees" -> [k |-> "call", r |-> 0]
    [] kd = "bump" -> [k |-> "fn",   r |-> 0]
    [] kd = "st"   -> [k |-> "list", r |-> Ctr(i, x.id)]
    [] kd = "def"  -> [k |-> "int",  r |-> 7]
    [] kd = "def8" -> [k |-> "int",  r |-> 8]          \* round 3
    [] kd = "vals" ->                                  \* round 3 (C11): a definition of the statement `vals`
         LET body == FSI(i)[x.id].body
             st == body[CHOOSE j \in DOMAIN body : body[j].op = "vals"]
             vk == ValKindOf(x.id, x.n)
         IN IF vk = "cnt" THEN [k |-> "int", r |-> x.v]     \* round 4 (C11): the value it had when it was bound
            ELSE [k |-> IF vk \in {"common", "zero"} THEN "int" ELSE vk, r |-> ValR(vk, x.id, st.id)]
    [] OTHER (* rdr *) ->
         LET st == FSI(i)[x.id].body[SymStmt(FSI(i), x.id, x.n)]
         IN [k |-> "call", r |-> Ctr(i, Target(mods[i][x.id].vars, st))]
Render(i, x) ==
  CASE x.k = "int" -> [k |-> "int", r |-> x.v]
    [] x.k = "fn"  -> [k |-> "fn",  r |-> 0]
    [] x.k = "sym" -> RenderSym(i, x)
    [] x.k = "obj" -> [k |-> "obj", r |-> x.v]         \* round 3
    [] x.k = "null" -> [k |-> "null", r |-> 0]         \* round 5
    [] OTHER       -> [k |-> "mod", r |-> 0]
NoMem == [x \in {} |-> [k |-> "", r |-> 0]]
Obs(i) ==
  [n \in DOMAIN sess[i] |->
     [v |-> Render(i, sess[i][n]),
      mem |-> IF sess[i][n].k = "mod"
              THEN LET mv == mods[i][sess[i][n].id].vars
                   IN [x \in Exposed(FSI(i), mv) |->
                         \* round 4 (C11): the member d_cnt is the object's own (what the require
                         \* that made it found, or what mset assigned), not the module's present value
                         IF x = NCnt(sess[i][n].id) THEN [k |-> "int", r |-> sess[i][n].v]
                         ELSE Render(i, mv[x])]
              ELSE NoMem,
      \* round 4 (C11): the module's present d_cnt (an object that FOLLOWS the module would show it)
      live |-> IF sess[i][n].k = "mod" THEN Ctr(i, sess[i][n].id) ELSE 0,
      \* which module instance a module object shows (names with the same `of`
      \* must show the very same members) and whether mem lists them all
      of   |-> IF sess[i][n].k = "mod" THEN sess[i][n].id ELSE "",
      open |-> sess[i][n].k = "mod" /\ sess[i][n].id \in Bundled]]

ExportState ==
  ctl.ph \in {"idle", "failed", "done"} =>
     Emit(TRUE, "STATE", [key |-> Key, obs |-> [i \in Interps |-> Obs(i)]])

-----------------------------------------------------------------------------
(* Properties *)
AtRest == ctl.ph \in {"idle", "failed", "done", "gen"}

\* C10: nothing of a call survives on the module stack
StackEmptyBetweenCalls == AtRest => \A i \in Interps : mstack[i] = << >>

\* C10: a caller's environment hangs under the session only while its script
\* runs, whether the script fails or not; so every interpreter resolves names
\* through its own session only, and the walk up its chain ends
CallerEnvDetached == AtRest => (cal.par = NoInterp /\ \A i \in Interps : cal.bpar[i] = NoInterp)
                               /\ (AtRest => cal.npar = NoInterp)        \* round 3
SessionsIsolated  == \A i \in Interps : SessChain(i) = <<i>>

\* C10: a failed command, repeated at once, fails the same way ...
FailIsIdempotent == ctl.ph = "done" => ctl.first = ctl.second
\* ... and changes nothing.  (Holds where what a call does before it fails is
\* itself idempotent - true of the C10 alphabet; a generated C11 module that
\* bumps another module's counter and then fails legitimately bumps it again
\* on every attempt: the state after a failed call is the state at the point
\* of failure, DESIGN 5.3.)
FailLeavesNoResidue == ctl.ph = "done" => ctl.snap = Snap

\* C10: names never disappear; a binding changes only by a command that defines
\* or assigns that very name (or binds it through require)
Rebinder(j, n) ==
  \/ \E c \in CmdsOf(j) : /\ c.op \in {"def", "assign", "deffn", "failexpr", "loop", "defclass", "mset" (* round 4 (C11) *),
                                      "docdef" (* round 5 *)}
                          /\ (c.n = n \/ (c.op = "loop" /\ n = "i")
                                      \/ (c.op = "defclass" /\ n \in {c.n \o "_m", c.n \o "_get"}))
                          /\ Atomic(c, FALSE)
  \/ /\ Stepping("bind") /\ I = j /\ Depth = 1
     /\ n \in Denotes(FSI(j), Top.form, Top.nm, mods[j][Top.id].vars)
DefsPersist ==
  [][\A j \in Interps : \A n \in DOMAIN sess[j] :
        /\ n \in DOMAIN sess'[j]
        /\ sess'[j][n] # sess[j][n] => Rebinder(j, n)]_vars

\* C10: a step touches only the interpreter the command was issued to
Touched(j) == \/ sess'[j] # sess[j]     \/ mods'[j] # mods[j]
              \/ mstack'[j] # mstack[j] \/ loads'[j] # loads[j]
Actor(j) == \/ Running /\ I = j
            \/ \E c \in CmdsOf(j) : Atomic(c, FALSE)
Isolation == [][\A j \in Interps : Touched(j) => Actor(j)]_vars

\* C11: the top level of a loaded module ran exactly once; the counter moves
\* only when a module file starts to run
LoadOnce == \A i \in Interps : \A m \in DOMAIN mods[i] :
              m \in DOMAIN loads[i] /\ loads[i][m] = 1
LoadOnlyInLoadStep == [][loads' # loads => (Stepping("load") /\ Top.pc = 0)]_vars

\* C11: a bind step adds exactly the names the form denotes, with the values
\* of the module's symbols, never a private name
BindsExactlyAct ==
  \* (round 5 (C11): the outermost bind step of envreq binds in the caller's environment,
  \* which is not part of the state: what it gets shows in the value of the script)
  (Stepping("bind") /\ ~(Depth = 1 /\ ctl.cmd.op = "envreq")) =>
    LET d == Top.id
        f == Top.form
        mv == NowVars(I, d)      \* round 4 (C11): the definitions as they are now (was mods[I][d].vars)
        before == ImporterScope
        after == IF Depth = 1 THEN sess'[I] ELSE ctl'.act[Depth - 1].env
        den == Denotes(FSI(I), f, Top.nm, mv)
        changed == {n \in DOMAIN after : n \notin DOMAIN before \/ after[n] # before[n]}
    IN /\ DOMAIN after = DOMAIN before \cup den
       /\ changed \subseteq den
       /\ \A n \in den : ~IsPrivate(FSI(I), n) /\ after[n] = BoundValue(FSI(I), f, d, mv, n)
       /\ \A n \in Exposed(FSI(I), mv) : ~IsPrivate(FSI(I), n)
BindsExactly == [][BindsExactlyAct]_vars

\* C11: module code saw nothing of the importer
ModuleScopeIsBase ==
  \A i \in Interps : /\ "secret" \in DOMAIN sess[i]
                     /\ \A m \in DOMAIN mods[i] \ Bundled : mods[i][m].vars[NTop(m)] = IntV(0)

\* round 3: the same for configurations in which interpreters are made later
ModuleScopeIsBaseBorn ==
  \A i \in Interps : /\ Born(i) \/ (sess[i] = NoBind /\ mstack[i] = << >>)
                     /\ \A m \in DOMAIN mods[i] \ Bundled : mods[i][m].vars[NTop(m)] = IntV(0)
\* round 3 (C10): a defining statement that fails defines nothing and leaves
\* the earlier definition of the name as it was
FailedDefinerDefinesNothing ==
  [][\A c \in Cmds : (c.op \in FailDefOps /\ Atomic(c, FALSE)) => sess' = sess]_vars
\* round 3 (C10): a module comes from the directory of the interpreter that
\* requires it: what the cache of i holds was defined by a file of FSI(i)
ModulesFromOwnDirectory ==
  \A i \in Interps : \A m \in DOMAIN mods[i] \ Bundled :
     /\ m \in DOMAIN FSI(i)
     /\ \A n \in DOMAIN mods[i][m].vars :
          (mods[i][m].vars[n].k = "sym" /\ mods[i][m].vars[n].id = m /\ n \notin DOMAIN StdEnv(m, NoBind))
             => \E k \in DOMAIN FSI(i)[m].body : FSI(i)[m].body[k].n = n

\* round 3 (C11): the same for generated modules (whose statement `vals`
\* defines the names ValNames): with two module directories, what the cache
\* of interpreter i holds was defined by the file of ITS directory
OwnDirectory11 ==
  \A i \in Interps : \A m \in DOMAIN mods[i] \ Bundled :
     /\ m \in DOMAIN FSI(i)
     /\ \A n \in DOMAIN mods[i][m].vars :
          (/\ mods[i][m].vars[n].k = "sym" /\ mods[i][m].vars[n].id = m
           /\ n \notin DOMAIN StdEnv(m, NoBind) /\ n \notin ValNames(m))
             => \E k \in DOMAIN FSI(i)[m].body : FSI(i)[m].body[k].n = n

\* round 5 (C10): a module is reported missing only when no file of that name is
\* on the module path of the interpreter NOW - whatever an earlier call found
MissingOnlyIfAbsent ==
  [][(Stepping("lookup") /\ ctl'.err = Err("notfound", Top.id)) => Top.id \notin DOMAIN FSI(I)]_vars
\* round 5 (C10): a command of the world touches no interpreter, a program that
\* changes its base environment or module path changes its own
WorldTouchesNoInterpreter ==
  [][\A c \in Cmds : (c.op \in WorldOps /\ Atomic(c, FALSE)) => (sess' = sess /\ mods' = mods /\ cal' = cal)]_vars
BaseIsOwn ==
  [][\A j \in Interps : ((j \in cal'.rb) # (j \in cal.rb) \/ (j \in cal'.xp) # (j \in cal.xp)) => Actor(j)]_vars

\* C11: every module value refers to the one cached instance
Refs(sc) == {sc[n].id : n \in {x \in DOMAIN sc : sc[x].k \in {"mod", "sym"}}}
SingleInstance ==
  \A i \in Interps : /\ Refs(sess[i]) \subseteq DOMAIN mods[i]
                     /\ \A m \in DOMAIN mods[i] : Refs(mods[i][m].vars) \subseteq DOMAIN mods[i]

\* C11: a cycle is an error, not a loop: no id twice on the stack, nesting
\* bounded by the number of files, every command terminates
NoDup(s) == \A a, b \in DOMAIN s : a # b => s[a] # s[b]
CycleIsError == /\ \A i \in Interps : NoDup(mstack[i])
                /\ Depth <= Cardinality(DOMAIN FS) + 1
Terminates == Running ~> ~Running

TypeOK == /\ ctl.ph \in {"idle", "run", "rerun", "failed", "done", "gen"}
          /\ \A i \in Interps : \A m \in DOMAIN mods[i] : mods[i][m].ctr \in Nat
=============================================================================
