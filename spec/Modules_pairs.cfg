\* C11 quick B: every module graph over 2 modules, every importer program of
\* <= 2 commands over all forms; termination of every command
CONSTANTS
  Interps = {"i1"}
  UnwindOnFailure = TRUE
  DetachCallerEnv = TRUE
  Mode = "c11"
  ModSeq <- Mods2
  MaxOut = 2
  GenRot = TRUE
  GenBack = "all"
  GenSorted = FALSE
  MaxCtr = 1
  LoadCap = 2
  MaxReq = 2
  CmdsOf <- C11Cmds4
  Export = TRUE
SPECIFICATION Spec
INVARIANT TypeOK
INVARIANT StackEmptyBetweenCalls
INVARIANT FailIsIdempotent
INVARIANT LoadOnce
INVARIANT ModuleScopeIsBase
INVARIANT SingleInstance
INVARIANT CycleIsError
INVARIANT ExportState
PROPERTY DefsPersist
PROPERTY Isolation
PROPERTY LoadOnlyInLoadStep
PROPERTY BindsExactly
PROPERTY Terminates
CHECK_DEADLOCK FALSE
