------------------------------ MODULE OrderOps ------------------------------
(* C12 - "Nothing observable depends on the internal iteration order of sets
   and maps: iteration, conversion, spreading, destructuring, rendering and
   the library functions all enumerate them in sorted order."

   Pure operators shared by Order.tla (the model-checked state machine) and
   Order_Trace.tla (validation of observations recorded from the interpreter).

   A set or map value is its mathematical content `elems` (small ints standing
   for the strings and scalars of a program; for a map they are the keys, the
   value stored under key k is ValOf(k)) plus `ord`, the internal iteration
   order of the host container: some permutation of elems that depends on the
   string-hash seed of the process and on the order of construction.

   Every place of the interpreter that enumerates a set or a map is a *site*.
   A site enumerates either with a sorted view or with EnumRaw (the host order
   `ord`); the table `tab` (site -> "sorted" | "raw") says which.  The sorted
   view is a host sort of `ord` with the order relation of the values; the
   entry tab["relation"] says whether that relation is the total order the
   property needs ("total": the view is EnumSorted, a function of the content)
   or the order of the renderings alone ("render": members that render alike
   tie and stay in host order, so `ord` leaks through a sorting site).  The
   entry tab["strings"] says the same about strings: "exact" (different
   strings are never tied) or "folded" (strings are compared after some
   folding - case, surrounding blanks, numeric value, accents, a prefix - so
   near-duplicates tie).  The table is not written down from belief: the
   harness derives it from observed executions.

   Round 3: sites of natives that are handed the container itself and of the
   stack-trace lines that show (abbreviated) arguments; stages for what a
   native makes of the order of visit (the first offending member named in
   an error, a reduction that does not commute, an abbreviation); the seeded
   random generator (Rng...).

   Round 4: a site may SWITCH with the size of the collection: an
   implementation that enumerates small containers with the sorted view and
   containers above some threshold by walking the host container (a fast
   path, an abbreviation that avoids rendering a long argument in full).
   Table value "rawbig": raw iff the collection has more than BigAbove
   members.  BigAbove is the model's scale of that threshold (the real one is
   unknown: the harness sends collections of 120 and 1 100 members through
   the sites; their elements are BigBase+1 .. , plain elements).

   Round 5: (a) a collection that is itself a MEMBER of a set or a KEY of a
   map.  The outer container identifies its members by hash and equality; a
   set / map must be identified by its content.  Sites "member.set" /
   "member.map": how a set (map) is identified where it is a member or a key:
   "sorted" = by its content (the sorted enumeration is the key), "raw" = by
   the walk of its host container - then two EQUAL collections whose internal
   orders differ (another construction order, colliding strings under
   another hash seed) are two members.  Stage Twin: the collection and a twin
   of the same content with an internal order of its own are put into one
   outer set; the observation is the number of members of that set (1).
   (b) places that enumerate NAMES rather than values: the symbols of a
   module when `require` builds the module object or binds an import list /
   `unqualified`, ls(), the members of an object.  The names of a module are
   a collection, too: the element is the position of the definition in the
   module source, `ord` the order of a host set of names, should the
   implementation keep them in one.  For these sites "sorted" reads "in the
   order of definition" (what a host dict gives): a function of the program.
   Stage LastOne: the binding that stays when several symbols are imported
   under ONE alias is the one enumerated last. *)
EXTENDS Integers, Sequences, FiniteSets, SequencesExt, TLC

ValOf(k) == 100 + ((k * 4) % 11)        \* distinct for k in 1..10 (and in 56..63), not monotone in k

(* Elements are small ints.  1..AlikeBase are elements with a rendering of
   their own (strings, scalars): the int is the rank of the rendering.
   AlikeBase+1 .. AlikeTop are elements that are pairwise different but all
   *render alike*: anonymous functions (every one prints <#lambda>), objects
   that differ only in hidden members or share a _str_, streams, and sets /
   maps of such values.  Their int is what tells them apart without any
   hashing: the creation number of a function or stream, the hidden member of
   an object.  They render later than every plain element (a string's text
   begins with a quote, theirs with `<`).

   Two order relations live on the elements:
   Lt      the order of the language: a strict TOTAL order, consistent with
           equality (different elements are never "neither less").
   LtKey   the order of the renderings alone: alike elements TIE.  A stable
           host sort with this relation keeps tied elements in the order in
           which it met them, i.e. in the internal order of the container.   *)
AlikeBase == 55
AlikeTop  == 99
IsAlike(e) == e > AlikeBase /\ e <= AlikeTop
Key(e)     == IF IsAlike(e) THEN AlikeBase + 1 ELSE e

(* NearBase+1 .. NearTop are strings that are NEAR-DUPLICATES of each other:
   'Fig' / 'fig', 'fig' / 'fig ', '10' / '010', an accented and a plain
   letter, two long texts with the same first 50 characters, '3' and 3.  They
   are different values (different members of a set, different keys of a
   map) and the order of the language separates them; an order that first
   FOLDS its operands (lower case, trimmed, as a number, abbreviated ...) ties
   them.  In the model consecutive pairs (23,24), (25,26) ... fold alike. *)
NearBase == 22
NearTop  == AlikeBase - 1
IsNear(e)  == e > NearBase /\ e <= NearTop
FoldKey(e) == IF IsNear(e) THEN NearBase + 1 + 2 * ((e - NearBase - 1) \div 2) ELSE e

(* BigBase+1 .. are the members of the LARGE collections of the harness (120 / 1 100 strings or sparse ints):
   plain elements (neither alike nor near), the int is BigBase + the rank.  A collection of more than BigAbove
   members is "big" (a cfg may replace the definition). *)
BigBase  == 1000
BigAbove == 2
IsBig(c) == Cardinality(c.elems) > BigAbove

Lt(a, b)     == a < b
LtKey(a, b)  == Key(a) < Key(b)
LtFold(a, b) == FoldKey(a) < FoldKey(b)

(* values flowing through a program: a collection or a sequence (uniform record) *)
Coll(S, o) == [t |-> "coll", elems |-> S,  ord |-> o,    seq |-> << >>]
SeqV(q)    == [t |-> "seq",  elems |-> {}, ord |-> << >>, seq |-> q]

Perms(S) == SetToSeqs(S)                \* every internal order a container of S can have

(* ---- the enumerations -------------------------------------------------- *)
EnumSorted(c) == SetToSortSeq(c.elems, Lt)
EnumRaw(c)    == c.ord

(* a stable sort by the rendering alone (what `sorted(host set)` is when the
   order relation of the values is the order of their texts): every element is
   put behind the elements met before it whose key is not greater *)
InsertStable(kf, q, e) ==            \* kf: element -> sort key (a function)
  LET later == {i \in 1..Len(q) : kf[q[i]] > kf[e]} IN
  IF later = {} THEN Append(q, e)
  ELSE LET i == CHOOSE m \in later : \A k \in later : m <= k
       IN  SubSeq(q, 1, i - 1) \o <<e>> \o SubSeq(q, i, Len(q))
RECURSIVE StableBy(_, _)
StableBy(kf, q) == IF q = << >> THEN << >>
                   ELSE InsertStable(kf, StableBy(kf, SubSeq(q, 1, Len(q) - 1)), q[Len(q)])
StableByKey(q)  == StableBy([e \in ToSet(q) |-> Key(e)], q)        \* ties: members that render alike
StableByFold(q) == StableBy([e \in ToSet(q) |-> FoldKey(e)], q)    \* ties: near-duplicate strings

(* the enumeration sites of src/ckl (file: what the code does there) *)
Sites == {
  "for.set",            \* nodes.py NodeFor, set branch
  "for.map",            \* nodes.py NodeFor, map branch (keys / values / entries by key)
  "compr.set",          \* nodes.py getCollectionValue, set
  "compr.map.keys",     \* nodes.py getCollectionValue, map keys
  "compr.map.values",   \* nodes.py getCollectionValue, map values (by ascending key, like for.map)
  "compr.map.entries",  \* nodes.py getCollectionValue, map entries
  "aslist.set",         \* values.py ValueSet.asList   (list(s), [] + s, ...)
  "aslist.map",         \* values.py ValueMap.asList   (the values themselves are sorted)
  "asset.map",          \* values.py ValueMap.asSet    (set(m)); feeds a new set
  "asobject.map",       \* values.py ValueMap.asObject (object(m)); objects keep insertion order
  "spread.call.set",    \* nodes.py invoke, f(...s)
  "spread.call.map",    \* nodes.py invoke, f(...m)
  "spread.list.set",    \* nodes.py NodeList, [...s]
  "spread.list.map",    \* nodes.py NodeList, [...m]
  "destr.def.set",      \* nodes.py NodeDefDestructuring
  "destr.assign.set",   \* nodes.py NodeAssignDestructuring
  "destr.for.list",     \* nodes.py NodeFor, several loop variables, list of sets
  "destr.for.set",      \* nodes.py NodeFor, several loop variables, set of sets
  "destr.for.map",      \* nodes.py NodeFor, several loop variables, map of sets
  "render.set",         \* values.py ValueSet.__repr__
  "render.map",         \* values.py ValueMap.__repr__
  "native.set",         \* functions.py / modules/*.ckl: a library function handed a set walks its members
                        \*   (sorted, min, enumerate, any, all, String->join ...: Args.getAsList -> ValueSet.asList;
                        \*   a function that reads .value walks the host set)
  "native.map",         \* the same for a map (sorted(m), enumerate(m), count(m, v) ...)
  "trace.set",          \* values.py Args.toStringAbbrev: the arguments in a stack-trace line, a set among them
  "trace.map",          \* the same, a map among them
  "member.set",         \* values.py ValueSet.__hash__ / __eq__: a set as member of a set / key of a map (also inside a
                        \*   list, map or object that is the member); `in`, `-`, remove, unique, set(), append ... go through it
  "member.map",         \* values.py ValueMap.__hash__ / __eq__: the same for a map
  "names.module",       \* nodes.py NodeRequire: the symbols of a module become the members of the module object
  "names.import",       \* nodes.py NodeRequire: import [a as f, b as f] / unqualified bind the symbols one after the other
  "names.ls",           \* functions.py FuncLs / Environment.getSymbols
  "names.object" }      \* values.py ValueObject: members (keys o, string(o), ls(o)) in the order of insertion

(* The table: site -> "sorted" | "raw" | "rawbig" (raw iff the collection is big), plus one entry "relation" that says
   with which relation the sorting sites (and sorted()) sort:
   "total"  = Lt, "render" = LtKey with a stable sort,
   and one entry "strings": "exact" | "folded" (near-duplicate strings tie). *)
TabKeys   == Sites \cup {"relation", "strings"}
Tab(site, rel, str) == [s \in TabKeys |-> CASE s = "relation" -> rel [] s = "strings" -> str [] OTHER -> site]
AllSorted == Tab("sorted", "total", "exact")     \* what the property states
AllRaw    == Tab("raw", "total", "exact")
ByRender  == Tab("sorted", "render", "exact")    \* every site sorts, by the text
ByFold    == Tab("sorted", "total", "folded")    \* every site sorts, strings after folding
AllRawBig == Tab("rawbig", "total", "exact")     \* every site sorts small collections and walks big ones raw

(* does the site walk the host container of c? *)
RawAt(site, c, tab) == tab[site] = "raw" \/ (tab[site] = "rawbig" /\ IsBig(c))

(* the key under which a sorting site sees an element *)
KeyIn(tab, e) == IF tab["relation"] = "render" /\ IsAlike(e) THEN AlikeBase + 1
                 ELSE IF tab["strings"] = "folded" THEN FoldKey(e) ELSE e

SortBy(tab, q) == IF tab["relation"] = "total" /\ tab["strings"] = "exact" THEN SortSeq(q, Lt)
                  ELSE StableBy([e \in ToSet(q) |-> KeyIn(tab, e)], q)

KeysAt(site, c, tab) == IF RawAt(site, c, tab) THEN EnumRaw(c) ELSE SortBy(tab, c.ord)

ValsOf(q)  == [i \in 1..Len(q) |-> ValOf(q[i])]
Entries(q) == [i \in 1..(2 * Len(q)) |->
                 IF i % 2 = 1 THEN q[(i + 1) \div 2] ELSE ValOf(q[i \div 2])]

(* what the site hands on: the elements / keys, the values by key, the
   flattened entries, or (one site, ValueMap.asList) the values sorted among
   themselves *)
Enum(site, proj, c, tab) ==
  LET q == KeysAt(site, c, tab) IN
  CASE proj = "elems"      -> q
    [] proj = "keys"       -> q
    [] proj = "vals"       -> ValsOf(q)
    [] proj = "entries"    -> Entries(q)
    [] proj = "sortedvals" -> IF RawAt(site, c, tab) THEN ValsOf(q) ELSE SortBy(tab, ValsOf(q))

(* ---- the seeded generator ------------------------------------------------
   functions.py: a module-level `seed`; set_seed(n) stores n; every draw does
   seed := (seed * 9301 + 49297) % 233280 and uses seed / 233280:
   random() is that quotient (here the numerator), random(a) = random(0, a),
   random(a, b) = floor(quotient * (b - a)) + a.  TLC ints are 32 bit:
   the product is split, and (b - a) must stay below 9000. *)
RngMod == 233280
RngNext(s) == ((((s % RngMod) * 9000) % RngMod) + (s % RngMod) * 301 + 49297) % RngMod
RngInt(nx, a, b) == ((nx * (b - a)) \div RngMod) + a
(* draws: a sequence of <<a, b>> (an int in [a, b)) or <<0, 0>> (the decimal
   form); the values drawn one after the other once the seed is s *)
RECURSIVE RngDraws(_, _)
RngDraws(s, draws) ==
  IF draws = << >> THEN << >>
  ELSE LET nx == RngNext(s)
           d  == Head(draws)
       IN  <<IF d[1] = 0 /\ d[2] = 0 THEN nx ELSE RngInt(nx, d[1], d[2])>> \o RngDraws(nx, Tail(draws))

(* ---- programs = pipelines of stages ------------------------------------ *)
E(site, proj) == [k |-> "enum",  site |-> site, proj |-> proj, n |-> 0]
B             == [k |-> "build", site |-> "",   proj |-> "",   n |-> 0]   \* collect into a new set/map
Take(n)       == [k |-> "take",  site |-> "",   proj |-> "",   n |-> n]   \* first n (destructuring, [0], error on first)
Sort          == [k |-> "sort",  site |-> "",   proj |-> "",   n |-> 0]   \* sorted(...)
Sum           == [k |-> "sum",   site |-> "",   proj |-> "",   n |-> 0]   \* sum(...)
Length        == [k |-> "len",   site |-> "",   proj |-> "",   n |-> 0]   \* length(...)
FirstAbove(n) == [k |-> "firstabove", site |-> "", proj |-> "", n |-> n]  \* the first member a native cannot digest
                                                                          \*   ("Cannot sum string": members > n)
Fold          == [k |-> "fold",  site |-> "",   proj |-> "",   n |-> 0]   \* a reduction that does not commute
                                                                          \*   (reduce with fn(a, b) b - a, a + '/' + b,
                                                                          \*   a sum of decimals of different magnitude)
Choice(n)     == [k |-> "choice", site |-> "",  proj |-> "",   n |-> n]   \* set_seed(n); Random->choice: the member at
                                                                          \*   a drawn index
Abbrev(n)     == [k |-> "abbrev", site |-> "",  proj |-> "",   n |-> n]   \* the first n and the last one (a long
                                                                          \*   argument in a stack-trace line)

Twin(site)    == [k |-> "twin",  site |-> site, proj |-> "",  n |-> 0]   \* the collection and an equal one with an internal
                                                                          \*   order of its own as members of one set (keys of
                                                                          \*   one map): the number of members
LastOne       == [k |-> "last",  site |-> "",   proj |-> "",   n |-> 0]   \* the last one (the binding that stays)

P(id, stages) == [id |-> id, stages |-> stages]

Programs == <<
  P("for.set",             <<E("for.set", "elems")>>),
  P("for.map.keys",        <<E("for.map", "keys")>>),
  P("for.map.values",      <<E("for.map", "vals")>>),
  P("for.map.entries",     <<E("for.map", "entries")>>),
  P("compr.set",           <<E("compr.set", "elems")>>),
  P("compr.map.keys",      <<E("compr.map.keys", "keys")>>),
  P("compr.map.values",    <<E("compr.map.values", "vals")>>),
  P("compr.map.entries",   <<E("compr.map.entries", "entries")>>),
  P("aslist.set",          <<E("aslist.set", "elems")>>),
  P("aslist.map",          <<E("aslist.map", "sortedvals")>>),
  P("asobject.map",        <<E("asobject.map", "entries")>>),
  P("render.set",          <<E("render.set", "elems")>>),
  P("render.map",          <<E("render.map", "entries")>>),
  P("spread.call.set",     <<E("spread.call.set", "elems")>>),
  P("spread.list.set",     <<E("spread.list.set", "elems")>>),
  P("spread.call.map",     <<E("spread.call.map", "vals")>>),
  P("spread.call.map.first", <<E("spread.call.map", "keys"), Take(1)>>),
  P("spread.list.map",     <<E("spread.list.map", "keys")>>),
  P("destr.def.set",       <<E("destr.def.set", "elems"), Take(3)>>),
  P("destr.def.set.all",   <<E("destr.def.set", "elems")>>),
  P("destr.assign.set",    <<E("destr.assign.set", "elems"), Take(3)>>),
  P("destr.for.list",      <<E("destr.for.list", "elems"), Take(3)>>),
  P("destr.for.set",       <<E("destr.for.set", "elems"), Take(3)>>),
  P("destr.for.map",       <<E("destr.for.map", "elems"), Take(3)>>),
  \* composite programs: where does a raw order reach the observable, where is it masked?
  P("asset.map+render",             <<E("asset.map", "keys"), B, E("render.set", "elems")>>),
  P("asset.map+aslist",             <<E("asset.map", "keys"), B, E("aslist.set", "elems")>>),
  P("aslist.set+build+render",      <<E("aslist.set", "elems"), B, E("render.set", "elems")>>),
  P("asobject.map+build+render",    <<E("asobject.map", "keys"), B, E("render.map", "entries")>>),
  P("compr.map.entries+build+render", <<E("compr.map.entries", "keys"), B, E("render.map", "entries")>>),
  P("compr.map.entries+build+for",  <<E("compr.map.entries", "keys"), B, E("for.set", "entries")>>),
  P("spread.list.set+build+render", <<E("spread.list.set", "elems"), B, E("render.set", "elems")>>),
  P("spread.list.set+build+spread", <<E("spread.list.set", "elems"), B, E("spread.list.set", "elems")>>),
  P("spread.list.set+len",          <<E("spread.list.set", "elems"), Length>>),
  P("spread.list.set+sort",         <<E("spread.list.set", "elems"), Sort>>),
  P("spread.list.set+first",        <<E("spread.list.set", "elems"), Take(1)>>),
  P("aslist.set+sort",              <<E("aslist.set", "elems"), Sort>>),
  P("compr.map.values+sum",         <<E("compr.map.values", "vals"), Sum>>),
  P("aslist.map+sum",               <<E("aslist.map", "sortedvals"), Sum>>),
  \* round 3: natives handed the container itself, error messages, reductions, stack-trace lines
  P("native.set",                   <<E("native.set", "elems")>>),
  P("native.map",                   <<E("native.map", "keys")>>),
  P("native.set+sum",               <<E("native.set", "elems"), Sum>>),
  P("native.set+firstbad",          <<E("native.set", "elems"), FirstAbove(1)>>),
  P("native.set+fold",              <<E("native.set", "elems"), Fold>>),
  P("native.map+fold",              <<E("native.map", "vals"), Fold>>),
  P("aslist.set+firstbad",          <<E("aslist.set", "elems"), FirstAbove(1)>>),
  P("aslist.set+fold",              <<E("aslist.set", "elems"), Fold>>),
  P("aslist.set+choice",            <<E("aslist.set", "elems"), Choice(11)>>),
  P("trace.set",                    <<E("trace.set", "elems"), Abbrev(2)>>),
  P("trace.map",                    <<E("trace.map", "entries"), Abbrev(2)>>),
  P("trace.set.all",                <<E("trace.set", "elems")>>),
  \* round 4: the members that are complete in the 50-character excerpt of a LARGE argument
  P("trace.set.head",               <<E("trace.set", "elems"), Take(3)>>),
  P("trace.map.head",               <<E("trace.map", "entries"), Take(3)>>),
  \* round 5: equal collections built in two orders as members of a set / keys of a map
  P("member.set.twins",             <<Twin("member.set")>>),
  P("member.map.twins",             <<Twin("member.map")>>),
  \* round 5: enumerations of names
  P("names.module",                 <<E("names.module", "elems")>>),
  P("names.import.last",            <<E("names.import", "elems"), LastOne>>),
  P("names.import+ls",              <<E("names.import", "elems"), B, E("names.ls", "elems")>>),
  P("names.ls",                     <<E("names.ls", "elems")>>),
  P("names.object",                 <<E("names.object", "elems")>>)
>>

ProgIdx(id) == CHOOSE i \in 1..Len(Programs) : Programs[i].id = id
SitesOfProg(i) == {Programs[i].stages[j].site : j \in {j \in 1..Len(Programs[i].stages) : Programs[i].stages[j].k \in {"enum", "twin"}}}

MinI(a, b) == IF a < b THEN a ELSE b
RECURSIVE SumSeq(_)
SumSeq(q) == IF q = << >> THEN 0 ELSE Head(q) + SumSeq(Tail(q))

(* the first member above n, as a one-element sequence (none: empty) *)
FirstAboveSeq(q, n) ==
  LET I == {i \in 1..Len(q) : q[i] > n} IN
  IF I = {} THEN << >> ELSE <<q[CHOOSE i \in I : \A j \in I : i <= j]>>
(* a left fold with an operation that is neither commutative nor associative: fn(a, b) b - a *)
RECURSIVE NcFoldSeq(_)
NcFoldSeq(q) == IF q = << >> THEN 0
              ELSE IF Len(q) = 1 THEN q[1]
              ELSE q[Len(q)] - NcFoldSeq(SubSeq(q, 1, Len(q) - 1))
(* the first n elements and the last one *)
AbbrevSeq(q, n) == IF Len(q) <= n + 1 THEN q ELSE SubSeq(q, 1, n) \o <<q[Len(q)]>>

(* one stage; newOrd = the internal order of a collection built here *)
Apply(st, cur, tab, newOrd) ==
  CASE st.k = "enum"  -> SeqV(Enum(st.site, st.proj, cur, tab))
    [] st.k = "build" -> Coll(ToSet(cur.seq), newOrd)
    [] st.k = "take"  -> SeqV(SubSeq(cur.seq, 1, MinI(st.n, Len(cur.seq))))
    [] st.k = "sort"  -> SeqV(SortBy(tab, cur.seq))
    [] st.k = "sum"   -> SeqV(<<SumSeq(cur.seq)>>)
    [] st.k = "len"   -> SeqV(<<Len(cur.seq)>>)
    [] st.k = "firstabove" -> SeqV(FirstAboveSeq(cur.seq, st.n))
    [] st.k = "fold"  -> SeqV(<<NcFoldSeq(cur.seq)>>)
    [] st.k = "abbrev" -> SeqV(AbbrevSeq(cur.seq, st.n))
    [] st.k = "twin"  -> SeqV(<<IF RawAt(st.site, cur, tab) /\ newOrd # cur.ord THEN 2 ELSE 1>>)
    [] st.k = "last"  -> SeqV(IF cur.seq = << >> THEN << >> ELSE <<cur.seq[Len(cur.seq)]>>)
    [] st.k = "choice" -> SeqV(IF cur.seq = << >> THEN << >>
                               ELSE <<cur.seq[RngInt(RngNext(st.n), 0, Len(cur.seq)) + 1]>>)

(* the reference: what the program shows when every enumeration is the
   sorted one (then no internal order matters, so any `ord` will do) *)
RECURSIVE RefRun(_, _, _)
RefRun(stages, i, cur) ==
  IF i > Len(stages) THEN cur
  ELSE RefRun(stages, i + 1,
              Apply(stages[i], cur, AllSorted,
                    IF stages[i].k = "build" THEN SetToSortSeq(ToSet(cur.seq), Lt) ELSE << >>))

RefEval(stages, S) == RefRun(stages, 1, Coll(S, SetToSortSeq(S, Lt))).seq
=============================================================================
