------------------------------ MODULE OrderOps ------------------------------
(* C12 - "Nothing observable depends on the internal iteration order of sets
   and maps: iteration, conversion, spreading, destructuring, rendering and
   the library functions all enumerate them in sorted order."

   Pure operators shared by Order.tla (the model-checked state machine) and
   Order_Trace.tla (validation of observations recorded from the interpreter).

   A set or map value is its mathematical content `elems` (small ints standing
   for the strings and scalars of a program; for a map they are the keys, the
   value stored under key k is ValOf(k)) plus `ord`, the internal iteration
   order of the host container: some permutation of elems that depends on the
   string-hash seed of the process and on the order of construction.

   Every place of the interpreter that enumerates a set or a map is a *site*.
   A site enumerates either with a sorted view or with EnumRaw (the host order
   `ord`); the table `tab` (site -> "sorted" | "raw") says which.  The sorted
   view is a host sort of `ord` with the order relation of the values; the
   entry tab["relation"] says whether that relation is the total order the
   property needs ("total": the view is EnumSorted, a function of the content)
   or the order of the renderings alone ("render": members that render alike
   tie and stay in host order, so `ord` leaks through a sorting site).  The
   table is not written down from belief: the harness derives it from
   observed executions. *)
EXTENDS Integers, Sequences, FiniteSets, SequencesExt, TLC

ValOf(k) == 100 + ((k * 4) % 11)        \* distinct for k in 1..10 (and in 56..63), not monotone in k

(* Elements are small ints.  1..AlikeBase are elements with a rendering of
   their own (strings, scalars): the int is the rank of the rendering.
   AlikeBase+1 .. AlikeTop are elements that are pairwise different but all
   *render alike*: anonymous functions (every one prints <#lambda>), objects
   that differ only in hidden members or share a _str_, streams, and sets /
   maps of such values.  Their int is what tells them apart without any
   hashing: the creation number of a function or stream, the hidden member of
   an object.  They render later than every plain element (a string's text
   begins with a quote, theirs with `<`).

   Two order relations live on the elements:
   Lt      the order of the language: a strict TOTAL order, consistent with
           equality (different elements are never "neither less").
   LtKey   the order of the renderings alone: alike elements TIE.  A stable
           host sort with this relation keeps tied elements in the order in
           which it met them, i.e. in the internal order of the container.   *)
AlikeBase == 55
AlikeTop  == 99
IsAlike(e) == e > AlikeBase /\ e <= AlikeTop
Key(e)     == IF IsAlike(e) THEN AlikeBase + 1 ELSE e

Lt(a, b)    == a < b
LtKey(a, b) == Key(a) < Key(b)

(* values flowing through a program: a collection or a sequence (uniform record) *)
Coll(S, o) == [t |-> "coll", elems |-> S,  ord |-> o,    seq |-> << >>]
SeqV(q)    == [t |-> "seq",  elems |-> {}, ord |-> << >>, seq |-> q]

Perms(S) == SetToSeqs(S)                \* every internal order a container of S can have

(* ---- the enumerations -------------------------------------------------- *)
EnumSorted(c) == SetToSortSeq(c.elems, Lt)
EnumRaw(c)    == c.ord

(* a stable sort by the rendering alone (what `sorted(host set)` is when the
   order relation of the values is the order of their texts): every element is
   put behind the elements met before it whose key is not greater *)
InsertStable(q, e) ==
  LET later == {i \in 1..Len(q) : Key(q[i]) > Key(e)} IN
  IF later = {} THEN Append(q, e)
  ELSE LET i == CHOOSE m \in later : \A k \in later : m <= k
       IN  SubSeq(q, 1, i - 1) \o <<e>> \o SubSeq(q, i, Len(q))
RECURSIVE StableByKey(_)
StableByKey(q) == IF q = << >> THEN << >>
                  ELSE InsertStable(StableByKey(SubSeq(q, 1, Len(q) - 1)), q[Len(q)])

(* the enumeration sites of src/ckl (file: what the code does there) *)
Sites == {
  "for.set",            \* nodes.py NodeFor, set branch
  "for.map",            \* nodes.py NodeFor, map branch (keys / values / entries by key)
  "compr.set",          \* nodes.py getCollectionValue, set
  "compr.map.keys",     \* nodes.py getCollectionValue, map keys
  "compr.map.values",   \* nodes.py getCollectionValue, map values (by ascending key, like for.map)
  "compr.map.entries",  \* nodes.py getCollectionValue, map entries
  "aslist.set",         \* values.py ValueSet.asList   (list(s), [] + s, ...)
  "aslist.map",         \* values.py ValueMap.asList   (the values themselves are sorted)
  "asset.map",          \* values.py ValueMap.asSet    (set(m)); feeds a new set
  "asobject.map",       \* values.py ValueMap.asObject (object(m)); objects keep insertion order
  "spread.call.set",    \* nodes.py invoke, f(...s)
  "spread.call.map",    \* nodes.py invoke, f(...m)
  "spread.list.set",    \* nodes.py NodeList, [...s]
  "spread.list.map",    \* nodes.py NodeList, [...m]
  "destr.def.set",      \* nodes.py NodeDefDestructuring
  "destr.assign.set",   \* nodes.py NodeAssignDestructuring
  "destr.for.list",     \* nodes.py NodeFor, several loop variables, list of sets
  "destr.for.set",      \* nodes.py NodeFor, several loop variables, set of sets
  "destr.for.map",      \* nodes.py NodeFor, several loop variables, map of sets
  "render.set",         \* values.py ValueSet.__repr__
  "render.map" }        \* values.py ValueMap.__repr__

(* The table: site -> "sorted" | "raw", plus one entry "relation" that says
   with which relation the sorting sites (and sorted()) sort:
   "total"  = Lt, "render" = LtKey with a stable sort. *)
TabKeys   == Sites \cup {"relation"}
AllSorted == [s \in TabKeys |-> IF s = "relation" THEN "total" ELSE "sorted"]   \* what the property states
AllRaw    == [s \in TabKeys |-> IF s = "relation" THEN "total" ELSE "raw"]
ByRender  == [s \in TabKeys |-> IF s = "relation" THEN "render" ELSE "sorted"]  \* every site sorts, by the text

SortBy(tab, q) == IF tab["relation"] = "total" THEN SortSeq(q, Lt) ELSE StableByKey(q)

KeysAt(site, c, tab) == IF tab[site] = "sorted" THEN SortBy(tab, c.ord) ELSE EnumRaw(c)

ValsOf(q)  == [i \in 1..Len(q) |-> ValOf(q[i])]
Entries(q) == [i \in 1..(2 * Len(q)) |->
                 IF i % 2 = 1 THEN q[(i + 1) \div 2] ELSE ValOf(q[i \div 2])]

(* what the site hands on: the elements / keys, the values by key, the
   flattened entries, or (one site, ValueMap.asList) the values sorted among
   themselves *)
Enum(site, proj, c, tab) ==
  LET q == KeysAt(site, c, tab) IN
  CASE proj = "elems"      -> q
    [] proj = "keys"       -> q
    [] proj = "vals"       -> ValsOf(q)
    [] proj = "entries"    -> Entries(q)
    [] proj = "sortedvals" -> IF tab[site] = "sorted" THEN SortBy(tab, ValsOf(q)) ELSE ValsOf(q)

(* ---- programs = pipelines of stages ------------------------------------ *)
E(site, proj) == [k |-> "enum",  site |-> site, proj |-> proj, n |-> 0]
B             == [k |-> "build", site |-> "",   proj |-> "",   n |-> 0]   \* collect into a new set/map
Take(n)       == [k |-> "take",  site |-> "",   proj |-> "",   n |-> n]   \* first n (destructuring, [0], error on first)
Sort          == [k |-> "sort",  site |-> "",   proj |-> "",   n |-> 0]   \* sorted(...)
Sum           == [k |-> "sum",   site |-> "",   proj |-> "",   n |-> 0]   \* sum(...)
Length        == [k |-> "len",   site |-> "",   proj |-> "",   n |-> 0]   \* length(...)

P(id, stages) == [id |-> id, stages |-> stages]

Programs == <<
  P("for.set",             <<E("for.set", "elems")>>),
  P("for.map.keys",        <<E("for.map", "keys")>>),
  P("for.map.values",      <<E("for.map", "vals")>>),
  P("for.map.entries",     <<E("for.map", "entries")>>),
  P("compr.set",           <<E("compr.set", "elems")>>),
  P("compr.map.keys",      <<E("compr.map.keys", "keys")>>),
  P("compr.map.values",    <<E("compr.map.values", "vals")>>),
  P("compr.map.entries",   <<E("compr.map.entries", "entries")>>),
  P("aslist.set",          <<E("aslist.set", "elems")>>),
  P("aslist.map",          <<E("aslist.map", "sortedvals")>>),
  P("asobject.map",        <<E("asobject.map", "entries")>>),
  P("render.set",          <<E("render.set", "elems")>>),
  P("render.map",          <<E("render.map", "entries")>>),
  P("spread.call.set",     <<E("spread.call.set", "elems")>>),
  P("spread.list.set",     <<E("spread.list.set", "elems")>>),
  P("spread.call.map",     <<E("spread.call.map", "vals")>>),
  P("spread.call.map.first", <<E("spread.call.map", "keys"), Take(1)>>),
  P("spread.list.map",     <<E("spread.list.map", "keys")>>),
  P("destr.def.set",       <<E("destr.def.set", "elems"), Take(3)>>),
  P("destr.def.set.all",   <<E("destr.def.set", "elems")>>),
  P("destr.assign.set",    <<E("destr.assign.set", "elems"), Take(3)>>),
  P("destr.for.list",      <<E("destr.for.list", "elems"), Take(3)>>),
  P("destr.for.set",       <<E("destr.for.set", "elems"), Take(3)>>),
  P("destr.for.map",       <<E("destr.for.map", "elems"), Take(3)>>),
  \* composite programs: where does a raw order reach the observable, where is it masked?
  P("asset.map+render",             <<E("asset.map", "keys"), B, E("render.set", "elems")>>),
  P("asset.map+aslist",             <<E("asset.map", "keys"), B, E("aslist.set", "elems")>>),
  P("aslist.set+build+render",      <<E("aslist.set", "elems"), B, E("render.set", "elems")>>),
  P("asobject.map+build+render",    <<E("asobject.map", "keys"), B, E("render.map", "entries")>>),
  P("compr.map.entries+build+render", <<E("compr.map.entries", "keys"), B, E("render.map", "entries")>>),
  P("compr.map.entries+build+for",  <<E("compr.map.entries", "keys"), B, E("for.set", "entries")>>),
  P("spread.list.set+build+render", <<E("spread.list.set", "elems"), B, E("render.set", "elems")>>),
  P("spread.list.set+build+spread", <<E("spread.list.set", "elems"), B, E("spread.list.set", "elems")>>),
  P("spread.list.set+len",          <<E("spread.list.set", "elems"), Length>>),
  P("spread.list.set+sort",         <<E("spread.list.set", "elems"), Sort>>),
  P("spread.list.set+first",        <<E("spread.list.set", "elems"), Take(1)>>),
  P("aslist.set+sort",              <<E("aslist.set", "elems"), Sort>>),
  P("compr.map.values+sum",         <<E("compr.map.values", "vals"), Sum>>),
  P("aslist.map+sum",               <<E("aslist.map", "sortedvals"), Sum>>)
>>

ProgIdx(id) == CHOOSE i \in 1..Len(Programs) : Programs[i].id = id
SitesOfProg(i) == {Programs[i].stages[j].site : j \in {j \in 1..Len(Programs[i].stages) : Programs[i].stages[j].k = "enum"}}

MinI(a, b) == IF a < b THEN a ELSE b
RECURSIVE SumSeq(_)
SumSeq(q) == IF q = << >> THEN 0 ELSE Head(q) + SumSeq(Tail(q))

(* one stage; newOrd = the internal order of a collection built here *)
Apply(st, cur, tab, newOrd) ==
  CASE st.k = "enum"  -> SeqV(Enum(st.site, st.proj, cur, tab))
    [] st.k = "build" -> Coll(ToSet(cur.seq), newOrd)
    [] st.k = "take"  -> SeqV(SubSeq(cur.seq, 1, MinI(st.n, Len(cur.seq))))
    [] st.k = "sort"  -> SeqV(SortBy(tab, cur.seq))
    [] st.k = "sum"   -> SeqV(<<SumSeq(cur.seq)>>)
    [] st.k = "len"   -> SeqV(<<Len(cur.seq)>>)

(* the reference: what the program shows when every enumeration is the
   sorted one (then no internal order matters, so any `ord` will do) *)
RECURSIVE RefRun(_, _, _)
RefRun(stages, i, cur) ==
  IF i > Len(stages) THEN cur
  ELSE RefRun(stages, i + 1,
              Apply(stages[i], cur, AllSorted,
                    IF stages[i].k = "build" THEN SetToSortSeq(ToSet(cur.seq), Lt) ELSE << >>))

RefEval(stages, S) == RefRun(stages, 1, Coll(S, SetToSortSeq(S, Lt))).seq
=============================================================================
