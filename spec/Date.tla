------------------------------- MODULE Date -------------------------------
(* C17 - the calendar machine.

   State: a calendar date (y, m, d) and its day number n.  The machine walks
   the calendar the way the implementation's converters do (src/ckl/date.py:
   to_oa_date sums year lengths from 1900, then month lengths, then the day;
   to_date peels years, then months, then days off again):

     Gran = 1   TickDay / TickMonth / TickYear advance ONE calendar day, n+1
     Gran = 2   SkipMonth advances to the 1st of the next month, n + MonthLen
     Gran = 3   SkipYear  advances to 1 January of the next year, n + YearLen

   A walk starts on 1 January of the first year of a range in `Ranges`; its
   day number there is the year-length sum from 1900 (YearStart), anchored at
   1900-01-01 = 2 (OLE epoch 1899-12-30 = 0).  The closed forms of DateOps use
   no table and no iteration; the invariants say both agree on every state:

     ClosedForm   n = DayNumber(y, m, d)
     RoundTrip    FromDayNumber(n) = <<y, m, d>>
     OneDay       (action property) each Tick is NextDay and n' = n + 1
     LeapSanity / MonthSanity   Gregorian rule and month lengths
     WholeMonth   (Gran = 2) every day of the month, not only the first
     ArithLaw     (d + k) - k = d, (d + k) - d = k over the stride set and
                  to both ends of the representable range

   Exported for the harness (binding A): one MONTH record per month
   [y, m, n (day number of the 1st), len]; one YEAR record per year in
   Gran = 3.  Inside a month the day number is n + d - 1 (ClosedForm on the
   day walk, WholeMonth on the month walk).                                 *)
EXTENDS DateOps, TLC, Json, IOUtils

CONSTANTS Ranges,     \* set of <<firstYear, lastYear>>, pairwise disjoint
          Gran,       \* 1 day walk, 2 month walk, 3 year walk
          Export,     \* TRUE: print MONTH / YEAR records
          WithArith   \* TRUE: check ArithLaw on every state

VARIABLES y, m, d, n
vars == <<y, m, d, n>>

MinYear == 1900
MaxYear == 9999

\* day number of 1 January, by summing year lengths from 1900 (the loop of
\* to_oa_date); 1900-01-01 is day 2
YearStart[yy \in MinYear..MaxYear + 1] ==
  IF yy = MinYear THEN 2 ELSE YearStart[yy - 1] + YearLen(yy - 1)

LastYear(yy) == \E r \in Ranges : r[2] = yy

Emit(tag, rec) == IF Export THEN PrintT("@@" \o tag \o "@@" \o ToJson(rec)) ELSE TRUE

Init == \E r \in Ranges :
          /\ y = r[1] /\ m = 1 /\ d = 1
          /\ n = YearStart[r[1]]

TickDay ==
  /\ Gran = 1
  /\ d < MonthLen(y, m)
  /\ d' = d + 1 /\ n' = n + 1
  /\ UNCHANGED <<y, m>>

TickMonth ==
  /\ Gran = 1
  /\ d = MonthLen(y, m) /\ m < 12
  /\ m' = m + 1 /\ d' = 1 /\ n' = n + 1
  /\ UNCHANGED y

TickYear ==
  /\ Gran = 1
  /\ d = MonthLen(y, m) /\ m = 12 /\ ~LastYear(y)
  /\ y' = y + 1 /\ m' = 1 /\ d' = 1 /\ n' = n + 1

SkipMonth ==
  /\ Gran = 2
  /\ d = 1
  /\ ~(m = 12 /\ LastYear(y))
  /\ n' = n + MonthLen(y, m)
  /\ (IF m < 12 THEN (m' = m + 1 /\ y' = y) ELSE (m' = 1 /\ y' = y + 1))
  /\ d' = 1

SkipYear ==
  /\ Gran = 3
  /\ m = 1 /\ d = 1 /\ ~LastYear(y)
  /\ n' = n + YearLen(y)
  /\ y' = y + 1
  /\ UNCHANGED <<m, d>>

\* year ranges of the shipped configurations (cfg files cannot write tuples)
QuickRanges == {<<1900, 1901>>, <<1902, 1903>>, <<1904, 1905>>, <<1968, 1969>>,
                <<1970, 1971>>, <<1972, 1973>>, <<1999, 2000>>, <<2001, 2002>>,
                <<2099, 2100>>, <<2101, 2102>>, <<2399, 2400>>, <<2401, 2402>>,
                <<9996, 9997>>, <<9998, 9999>>}
FullRange   == {<<MinYear, MaxYear>>}
\* the whole range cut into decades so that 16 workers share the day walk
Decades     == {<<MinYear + 10 * i, MinYear + 10 * i + 9>> : i \in 0..809}

Next == TickDay \/ TickMonth \/ TickYear \/ SkipMonth \/ SkipYear

Spec == Init /\ [][Next]_vars

-----------------------------------------------------------------------------
TypeOK == /\ y \in MinYear..MaxYear
          /\ m \in 1..12
          /\ d \in 1..31
          /\ n \in FirstDay..LastDay

Valid == ValidDate(y, m, d)

ClosedForm == n = DayNumber(y, m, d)

RoundTrip == FromDayNumber(n) = <<y, m, d>>

\* "the day number grows by exactly one per calendar day"
OneDay == [][Gran = 1 => (n' = n + 1 /\ <<y', m', d'>> = NextDay(y, m, d))]_vars

\* Gregorian rule spelled out as in the property, the 366-day year is exactly
\* the year that has a 29 February, and the anchors pinned by the tests
LeapSanity ==
  /\ IsLeap(y) <=> (y % 400 = 0 \/ (y % 4 = 0 /\ y % 100 # 0))
  /\ (m = 1 /\ d = 1) =>
       /\ DayNumber(y + 1, 1, 1) - n = YearLen(y)
       /\ (YearLen(y) = 366) <=> (FromDayNumber(n + 59) = <<y, 2, 29>>)
       /\ (YearLen(y) = 365) <=> (FromDayNumber(n + 59) = <<y, 3, 1>>)
       /\ FromDayNumber(n + YearLen(y) - 1) = <<y, 12, 31>>
  /\ (y = 1900 /\ m = 1 /\ d = 1) => n = 2
  /\ (y = 1970 /\ m = 1 /\ d = 1) => n = 25569
  /\ (y = 2000 /\ m = 6 /\ d = 1) => n = 36678
  /\ (y = 9999 /\ m = 12 /\ d = 31) => n = LastDay

MonthSanity ==
  /\ MonthLen(y, m) \in 28..31
  /\ (MonthLen(y, m) < 30) <=> (m = 2)
  /\ d = 1 =>
       LET nx == IF m < 12 THEN <<y, m + 1, 1>> ELSE <<y + 1, 1, 1>> IN
       DayNumber(nx[1], nx[2], nx[3]) - n = MonthLen(y, m)

WholeMonth ==
  (Gran = 2) =>
     \A dd \in 1..MonthLen(y, m) :
        /\ DayNumber(y, m, dd) = n + dd - 1
        /\ FromDayNumber(n + dd - 1) = <<y, m, dd>>

\* the month walk (every month of 1900..9999) checks the long strides only: the
\* short ones are walked step by step by DateArith and checked on the day walks
LongStrides == {k \in Strides : k >= 365 \/ k <= 0 - 365}
ArithStrides == IF Gran = 2 THEN LongStrides ELSE Strides

ArithLaw ==
  WithArith =>
    \A k \in ArithStrides \cup {FirstDay - n, LastDay - n} :
       InRange(n + k) =>
         LET e == AddDays(<<y, m, d>>, k) IN
         /\ ValidDate(e[1], e[2], e[3])
         /\ DayNumber(e[1], e[2], e[3]) = n + k
         /\ AddDays(e, 0 - k) = <<y, m, d>>        \* (d + k) - k = d
         /\ DiffDays(e, <<y, m, d>>) = k           \* (d + k) - d = k

ExportMonths ==
  /\ (Gran < 3 /\ d = 1) =>
        Emit("MONTH", [y |-> y, m |-> m, n |-> n, len |-> MonthLen(y, m)])
  /\ (Gran = 3) =>
        Emit("YEAR", [y |-> y, n |-> n, len |-> YearLen(y)])
=============================================================================
