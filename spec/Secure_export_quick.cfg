CONSTANTS
  MaxLen = 2
  Export = TRUE
  OtherUntil = 1
SPECIFICATION Spec
VIEW View
CHECK_DEADLOCK FALSE
