CONSTANTS
  MaxLen = 2
  Export = TRUE
SPECIFICATION Spec
VIEW View
CHECK_DEADLOCK FALSE
