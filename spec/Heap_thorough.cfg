CONSTANTS
  MaxRefs = 4
  MaxLen = 4
  MaxDepth = 3
  Export = TRUE
  Variants = FALSE
SPECIFICATION Spec
INVARIANT TypeOK
INVARIANT AliasesAgree
PROPERTY PureLeavesHeap
PROPERTY MutatorTouchesOnlyTarget
PROPERTY FreshResultsIndependent
CHECK_DEADLOCK FALSE
