----------------------------- MODULE ExprMC -----------------------------
EXTENDS Expr
a_ == <<97>>  b_ == <<98>>
TripQuick == {
  <<IntV(7), IntV(2), IntV(3)>>,
  <<Bool(TRUE), Bool(FALSE), Bool(TRUE)>>,
  <<Null, IntV(2), Dec(1, 2)>>,
  <<Null, IntV(0), Dec(0, 1)>>,          \* NULL meets the zero divisors: NULL / 0 is NULL, not an error
  <<IntV(-7), Dec(3, 2), IntV(0)>>,
  <<Str(a_), Str(b_), Str(a_)>>,
  <<List(<<1, 2>>), IntV(2), List(<<2, 3>>)>> }
PoolQuick == { Null, IntV(0), IntV(2), IntV(-7), IntV(10), Dec(1, 2), Dec(5, 2), Dec(2, 1), Dec(0, 1), Dec(-7, 1),
               Bool(TRUE), Bool(FALSE), Str(a_), Str(<<97, 98>>), Str(<< >>), List(<<1, 2>>), List(<<2>>), List(<< >>) }
PoolMini == { Null, IntV(2), Dec(5, 2), Bool(TRUE), Str(a_), List(<<1, 2>>) }
TripMini == { <<IntV(7), IntV(2), IntV(3)>>, <<Bool(TRUE), Bool(FALSE), Bool(TRUE)>>,
              <<Str(a_), IntV(2), List(<<2, 3>>)>> }
TripThorough == TripQuick \cup {
  <<IntV(1), IntV(0), IntV(-4)>>,
  <<Dec(5, 2), IntV(2), Dec(-1, 2)>>,
  <<Bool(FALSE), IntV(1), Bool(FALSE)>>,
  <<IntV(2), Str(a_), List(<<2>>)>>,
  <<IntV(12), IntV(-5), IntV(5)>>,
  <<Null, Null, Bool(TRUE)>> }
=============================================================================
