CONSTANTS
  MaxLen = 2
  MaxInner = 2
  MaxKeys = 1
  Export = TRUE
SPECIFICATION Spec
VIEW View
INVARIANT TypeOK
INVARIANT NoEqualDuplicates
INVARIANT HistoryFree
INVARIANT Distinct
INVARIANT ExportPool
PROPERTY EffectsProp
PROPERTY LocalProp
CHECK_DEADLOCK FALSE
