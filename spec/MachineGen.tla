---------------------------- MODULE MachineGen ----------------------------
(* AST constructors and the finite program families ("the programs
   quantifier") for Machine.tla:
     ErrPrograms(d)   C05: nests of do/catch/finally with failures at every
                      statement position, inside functions and loops
     LoopPrograms(u)     C04: loops over every iterable kind with exits at every
                      position, if ladders, comprehensions and their loops
     ScopePrograms(u)    C03: definitions / assignments / closures / shadowing and
                      calls with positional, named, default, rest, spread,
                      pipeline and method forms
   The harness renders these records to source text (harness/machine_render.py)
   and runs them on the real interpreter.                                     *)
EXTENDS Machine

Names_ == {"x", "y", "z", "f", "g", "h", "n", "c", "a", "b", "k", "v", "r", "t", "p", "zq", "rest..."}

NamesR == Names_ \cup {"LOG"}       \* (MachineRand: same pool)

Code(name) == CASE name = "x" -> <<120>> [] name = "y" -> <<121>> [] name = "z" -> <<122>>
                [] name = "a" -> <<97>> [] name = "b" -> <<98>> [] name = "c" -> <<99>>
                [] name = "k" -> <<107>> [] name = "n" -> <<110>> [] name = "p" -> <<112>>
                [] name = "q" -> <<113>> [] name = "v" -> <<118>> [] name = "r" -> <<114>>
                [] name = "t" -> <<116>> [] name = "f" -> <<102>> [] name = "g" -> <<103>>
                [] name = "h" -> <<104>> [] name = "m" -> <<109>> [] name = "get" -> <<103, 101, 116>>
                [] name = "inc" -> <<105, 110, 99>> [] name = "_proto_" -> <<95, 112, 114, 111, 116, 111, 95>>
                [] name = "rest..." -> <<114, 101, 115, 116, 46, 46, 46>>
                [] OTHER -> << >>

None == N("none", "", Null, << >>)
Lit(v) == N("lit", "", v, << >>)
I(n) == Lit(IntV(n))
S(name) == Lit(StrV(Code(name)))           \* the string literal 'name'
Var(x) == N("var", x, Null, << >>)
Def(x, e) == N("def", x, Null, <<e>>)
Asg(x, e) == N("assign", x, Null, <<e>>)
Blk(stmts, catches, fins) == N("block", "", Null, <<stmts, catches, fins>>)
Do(stmts) == Blk(stmts, << >>, << >>)
All == N("all", "", Null, << >>)
If1(c, t) == N("if", "", Null, <<<<c>>, <<t>>, << >>>>)
If2(c, t, el) == N("if", "", Null, <<<<c>>, <<t>>, <<el>>>>)
IfN(cs, ts, el) == N("if", "", Null, <<cs, ts, el>>)
For(ids, what, e, body) == N("for", "", Null, <<ids, what, e, body>>)
While(c, body) == N("while", "", Null, <<c, body>>)
Brk == N("break", "", Null, << >>)
Cont == N("continue", "", Null, << >>)
Ret(e) == N("return", "", Null, <<e>>)
ErrN(e) == N("error", "", Null, <<e>>)
Log(e) == N("log", "", Null, <<e>>)
Bin(op, a, b) == N("bin", op, Null, <<a, b>>)
NotN(a) == N("not", "", Null, <<a>>)
AndN(xs) == N("and", "", Null, xs)
OrN(xs) == N("or", "", Null, xs)
Item(e) == N("item", "", Null, <<e>>)
Spread(e) == N("spread", "", Null, <<e>>)
ListN(es) == N("list", "", Null, [i \in 1..Len(es) |-> Item(es[i])])
ListX(items) == N("list", "", Null, items)       \* items may contain Spread
SetN(es) == N("set", "", Null, [i \in 1..Len(es) |-> Item(es[i])])
MapN(pairs) == N("map", "", Null, pairs)
ObjN(pairs) == N("obj", "", Null, [i \in 1..Len(pairs) |-> <<Code(pairs[i][1]), pairs[i][2]>>])
Param(x) == [name |-> x, code |-> Code(x), def |-> None, rest |-> FALSE]
ParamD(x, d) == [name |-> x, code |-> Code(x), def |-> d, rest |-> FALSE]
ParamR(x) == [name |-> x, code |-> Code(x), def |-> None, rest |-> TRUE]
Fn(params, body) == N("fn", "", Null, <<params, body>>)
Arg(e) == N("arg", "", StrV(<< >>), <<e>>)
NArg(x, e) == N("arg", x, StrV(Code(x)), <<e>>)
Call(f, args) == N("call", "", Null, <<f, args>>)
Pipe(x, f, args) == N("pipe", "", Null, <<f, <<Arg(x)>> \o args>>)     \* x !> f(args)
Method(o, m, args) == N("method", m, StrV(Code(m)), <<o, args>>)
MemberN(o, m) == N("member", m, StrV(Code(m)), <<o>>)
Compr(kind, val, id, what, le, cond) == N("compr", kind, Null, <<val, id, what, le, cond>>)
Index(c, i) == N("index", "", Null, <<c, i>>)
DAsg(ids, e) == N("dassign", "", Null, <<ids, e>>)     \* [x, y] = e
DDef(ids, e) == N("ddef", "", Null, <<ids, e>>)        \* def [x, y] = e
NullL == Lit(Null)
Compr2(form, kind, val, id1, w1, l1, id2, w2, l2, cond) == N("compr2", form, Null, <<kind, val, id1, w1, l1, id2, w2, l2, cond>>)
Prog(stmts) == Do(stmts)                        \* rendered as a bare top-level block

-----------------------------------------------------------------------------
(* Program families.  A program is denoted by a small parameter tuple
   <<family, i1, i2, ...>> (indices into the sequences below); Build(p) is its
   syntax tree.  TLC's states hold the parameters, not the trees. *)
Idx(s) == 1..Len(s)

(* ---- C05: errors, handlers, finally ---- *)
Failing == << ErrN(S("a")), ErrN(I(1)), Var("zq"), Bin("/", I(1), I(0)), ErrN(ListN(<<I(1)>>)), ErrN(NullL) >>
Plain   == << Log(I(1)), Log(I(2)) >>
First1  == Plain \o Failing \o << Ret(I(7)) >>          \* first statement of a block
Second1 == Plain \o Failing                             \* second statement
Catches == << << >>,
              << <<All, Log(I(9))>> >>,
              << <<S("a"), Log(I(8))>> >>,
              << <<I(1), Log(I(8))>> >>,
              << <<Lit(ERRORV), Log(I(8))>> >>,
              << <<S("b"), Log(I(7))>>, <<S("a"), Log(I(8))>> >>,
              << <<S("a"), ErrN(S("b"))>> >>,
              << <<All, Ret(I(5))>> >>,
              << <<ListN(<<I(1)>>), I(4)>> >>,
              << <<Var("zq"), Log(I(8))>> >>,
              << <<I(1), ErrN(S("b"))>> >>,
              << <<NullL, Log(I(7))>>, <<S("a"), Log(I(8))>> >>,       \* a clause value NULL matches the error value NULL only
              << <<NullL, Log(I(7))>> >> >>
Fins == << << >>, <<Log(I(6))>>, <<ErrN(S("f"))>>, <<Ret(I(3))>> >>
SmallCatch == {1, 2, 3, 11, 12}      \* indices into Catches
SmallFin == {1, 2}
InnerFirst == << Log(I(1)) >> \o Failing
InnerSecond == << Log(I(2)), ErrN(S("a")) >>
OuterOther == << Log(I(3)), ErrN(I(1)), Log(I(0)) >>
LoopFirst == << Log(I(1)), Brk, Cont >>

\* contexts: 1 top level, 2 inside a called function, 3 inside a loop body
InCtx(ctx, b) ==
  CASE ctx = 1 -> Prog(<<b, Log(I(5))>>)
    [] ctx = 2 -> Prog(<<Def("f", Fn(<< >>, b)), Log(Call(Var("f"), << >>)), Log(I(5))>>)
    [] ctx = 3 -> Prog(<<For(<<"x">>, "values", ListN(<<I(1), I(2)>>), Do(<<Log(Var("x")), b>>)), Log(I(5))>>)
    \* 4: inside a loop over the lines of an input; 5: inside code handed to eval as text - an error of the
    \* body travels through the loop / through eval unchanged
    [] ctx = 4 -> Prog(<<For(<<"x">>, "values", N("input", "", Null, <<ListN(<<S("a"), S("b")>>)>>), Do(<<Log(Var("x")), b>>)), Log(I(5))>>)
    [] ctx = 5 -> Prog(<<N("evalstr", "", Null, <<b>>), Log(I(5))>>)
    \* 6 / 7: inside a function that a NATIVE calls back once per element (process_lines over lines; find with a key
    \* function): the error crosses the native on its way out
    [] ctx = 6 -> Prog(<<Def("h", Fn(<<Param("x")>>, Do(<<Log(Var("x")), b>>))),
                         Blk(<<N("each", "lines", Null, <<N("input", "", Null, <<ListN(<<S("a"), S("b")>>)>>), Var("h")>>)>>, << >>, << >>), Log(I(5))>>)
    \* 8: inside a loop over the member names of an object
    [] ctx = 8 -> Prog(<<For(<<"x">>, "keys", ObjN(<< <<"a", I(1)>>, <<"b", I(2)>> >>), Do(<<Log(Var("x")), b>>)), Log(I(5))>>)
    [] ctx = 7 -> Prog(<<Def("h", Fn(<<Param("x")>>, Do(<<Log(Var("x")), b>>))),
                         Blk(<<N("each", "find", Null, <<ListN(<<S("a"), S("b")>>), Var("h")>>)>>, << >>, << >>), Log(I(5))>>)

\* <<"e1", ctx, i1, i2, ic, if>>: one block, two statements
E1Params(ctxs, CS, FS) == { <<"e1", ctx, i1, i2, ic, jf>> : ctx \in ctxs, i1 \in Idx(First1), i2 \in Idx(Second1),
                                                            ic \in CS, jf \in FS }
E1Build(p) == InCtx(p[2], Blk(<<First1[p[3]], Second1[p[4]]>>, Catches[p[5]], Fins[p[6]]))
\* <<"e2", ctx, pos, j1, j2, jc, jf, o, oc, of>>: an inner block as first (pos 1)
\* or second (pos 2) statement of an outer block
E2Params(ctxs) == { <<"e2", ctx, pos, j1, j2, jc, jf, o, oc, of>> :
                      ctx \in ctxs, pos \in {1, 2}, j1 \in Idx(InnerFirst), j2 \in Idx(InnerSecond),
                      jc \in SmallCatch, jf \in SmallFin, o \in Idx(OuterOther),
                      oc \in SmallCatch \cup {6}, of \in SmallFin }
E2Build(p) ==
  LET inner == Blk(<<InnerFirst[p[4]], InnerSecond[p[5]]>>, Catches[p[6]], Fins[p[7]])
      other == OuterOther[p[8]] IN
  InCtx(p[2], Blk(IF p[3] = 1 THEN <<inner, other>> ELSE <<other, inner>>, Catches[p[9]], Fins[p[10]]))
\* <<"e3", i1, i2, ic, if>>: break / continue through catch and finally inside a loop
E3Params == { <<"e3", i1, i2, ic, jf>> : i1 \in Idx(LoopFirst), i2 \in Idx(InnerSecond), ic \in SmallCatch, jf \in SmallFin }
E3Build(p) == InCtx(3, Blk(<<LoopFirst[p[2]], InnerSecond[p[3]]>>, Catches[p[4]], Fins[p[5]]))

\* <<"e4", ctx, j1, j2, jc, jf, oc, of>>: the inner block is the ONLY statement of the outer one
E4Params(ctxs) == { <<"e4", ctx, j1, j2, jc, jf, oc, of>> :
                      ctx \in ctxs, j1 \in Idx(InnerFirst), j2 \in Idx(InnerSecond),
                      jc \in SmallCatch, jf \in {1, 2, 3}, oc \in SmallCatch \cup {5}, of \in {1, 2} }
E4Build(p) == InCtx(p[2], Blk(<<Blk(<<InnerFirst[p[3]], InnerSecond[p[4]]>>, Catches[p[5]], Fins[p[6]])>>,
                              Catches[p[7]], Fins[p[8]]))

\* <<"e6", k>>: an error passes through a call one of whose arguments is an object with a failing _str_ member
\* (the stack-trace line of the call renders the arguments): the error and its handler stay the same
StrCode == <<95, 115, 116, 114, 95>>
E6Obj(body) == N("obj", "", Null, << <<StrCode, Fn(<<Param("a")>>, body)>> >>)
E6Progs == << Prog(<<Def("t", E6Obj(ErrN(S("b")))), Def("f", Fn(<<Param("x")>>, ErrN(S("a")))),
                     Blk(<<Log(Call(Var("f"), <<Arg(Var("t"))>>))>>, << <<S("a"), Log(I(8))>>, <<All, Log(I(9))>> >>, <<Log(I(6))>>)>>),
              Prog(<<Def("t", E6Obj(Bin("/", I(1), I(0)))), Def("f", Fn(<<Param("x")>>, ErrN(S("a")))),
                     Blk(<<Log(Call(Var("f"), <<Arg(Var("t"))>>))>>, << <<Lit(ERRORV), Log(I(7))>>, <<S("a"), Log(I(8))>> >>, << >>)>>),
              Prog(<<Def("t", E6Obj(ErrN(I(1)))), Def("g", Fn(<<Param("x")>>, ErrN(I(2)))),
                     Def("f", Fn(<<Param("x")>>, Call(Var("g"), <<Arg(Var("x"))>>))),
                     Blk(<<Log(Call(Var("f"), <<Arg(Var("t"))>>))>>, << <<I(1), Log(I(7))>>, <<I(2), Log(I(8))>> >>, << >>)>>) >>
E6Params == { <<"e6", k>> : k \in Idx(E6Progs) }

\* <<"e7", k>>: the error VALUE is an object with a _str_ member (one that fails, one that writes to the log):
\* `error v` raises v itself - nothing renders it on the way to the handler, so no program code runs between
\* the failing statement and the clause that is selected, and the clause is selected by v, not by what
\* rendering v would raise
E7Progs == << Prog(<<Def("t", E6Obj(ErrN(S("b")))),
                     Blk(<<Log(I(1)), ErrN(Var("t")), Log(I(2))>>, << <<S("b"), Log(I(7))>>, <<Var("t"), Log(I(8))>> >>, <<Log(I(6))>>)>>),
              Prog(<<Def("t", E6Obj(Log(S("s")))),
                     Blk(<<ErrN(Var("t")), Log(I(2))>>, << <<Var("t"), Log(I(8))>> >>, << >>)>>),
              Prog(<<Def("t", E6Obj(Log(S("s")))),
                     Def("f", Fn(<< >>, Blk(<<Log(I(1)), ErrN(Var("t"))>>, << <<S("o"), Log(I(0))>> >>, <<Log(I(6))>>))),
                     Blk(<<Call(Var("f"), << >>)>>, << <<S("s"), Log(I(7))>>, <<All, Log(I(9))>> >>, << >>)>>),
              Prog(<<Def("t", E6Obj(Bin("/", I(1), I(0)))),
                     Blk(<<Blk(<<ErrN(Var("t"))>>, << <<Lit(ERRORV), Log(I(7))>> >>, <<Log(I(5))>>)>>,
                         << <<Lit(ERRORV), Log(I(8))>>, <<Var("t"), Log(I(9))>> >>, <<Log(I(6))>>)>>),
              Prog(<<Def("t", E6Obj(Log(S("s")))), Log(I(1)), ErrN(Var("t")), Log(I(2))>>) >>
E7Params == { <<"e7", k>> : k \in Idx(E7Progs) }

\* <<"e5", form, e, a1, a2>>: the SAME block runs twice with a clause value that is a variable (a parameter
\* in form 1, the loop variable in form 2, a reassigned variable in form 3): the clause value is evaluated
\* afresh for every error that reaches the block
E5Vals == << I(1), I(2), S("a") >>
E5Params == { <<"e5", form, e, a1, a2>> : form \in {1, 2, 3}, e \in Idx(E5Vals), a1 \in Idx(E5Vals), a2 \in Idx(E5Vals) }
E5Build(p) ==
  LET blk(v) == Blk(<<Log(I(1)), ErrN(E5Vals[p[3]]), Log(I(2))>>, << <<Var(v), Log(I(8))>>, <<I(2), Log(I(7))>> >>, <<Log(I(6))>>)
      guard(st) == Blk(<<st>>, << <<All, Log(I(9))>> >>, << >>) IN
  CASE p[2] = 1 -> Prog(<<Def("f", Fn(<<Param("a")>>, blk("a"))),
                          guard(Log(Call(Var("f"), <<Arg(E5Vals[p[4]])>>))),
                          guard(Log(Call(Var("f"), <<Arg(E5Vals[p[5]])>>))), Log(I(5))>>)
    [] p[2] = 2 -> Prog(<<For(<<"x">>, "values", ListN(<<E5Vals[p[4]], E5Vals[p[5]]>>), guard(blk("x"))), Log(I(5))>>)
    [] p[2] = 3 -> Prog(<<Def("k", E5Vals[p[4]]), Def("n", I(0)),
                          While(Bin("<", Var("n"), I(2)),
                                Do(<<guard(blk("k")), Asg("k", E5Vals[p[5]]), Asg("n", Bin("+", Var("n"), I(1)))>>)),
                          Log(I(5))>>)

\* (operators with a dummy argument: TLC evaluates every zero-arity definition when it starts, and these sets are big;
\*  only the MC_* module of the configuration that needs one evaluates it)
ErrQuick(u) == E5Params \cup E6Params \cup E7Params \cup E1Params({4, 5, 6, 7, 8}, SmallCatch \cup {4}, SmallFin) \cup E4Params({1}) \cup E1Params({1}, Idx(Catches), Idx(Fins)) \cup E1Params({2}, SmallCatch, SmallFin)
            \cup E3Params \cup { p \in E2Params({1}) : p[8] \in {1, 2} /\ p[10] = 1 }
ErrThorough(u) == E5Params \cup E6Params \cup E7Params \cup E1Params({4, 5, 6, 7, 8}, Idx(Catches), Idx(Fins)) \cup E2Params({4, 5, 6}) \cup E4Params({1, 2, 3}) \cup E1Params({1, 2, 3}, Idx(Catches), Idx(Fins)) \cup E3Params \cup E2Params({1, 2, 3})

(* ---- C04: loops, exits, ladders, comprehensions ---- *)
L123 == ListN(<<I(1), I(2), I(3)>>)
M3 == MapN(<< <<I(2), I(20)>>, <<I(1), I(30)>>, <<I(3), I(10)>> >>)
Iterables == << <<"values", L123>>,
                <<"values", SetN(<<I(3), I(1), I(2)>>)>>,
                <<"keys", M3>>,
                <<"values", M3>>,
                <<"entries", MapN(<< <<I(2), I(20)>>, <<I(1), I(30)>> >>)>>,
                <<"values", ListN(<< >>)>>,
                <<"values", Lit(StrV(<<97, 98, 99>>))>> >>
ExitAt == << Brk, Cont, Ret(Var("x")), Log(I(0)), ErrN(S("a")) >>
Conds == << Bin("==", Var("x"), I(2)), Bin(">", Var("x"), I(1)), Lit(Bool(TRUE)), Lit(Bool(FALSE)) >>
InF(stmts) == Prog(<<Def("f", Fn(<< >>, Do(stmts))), Log(Call(Var("f"), << >>)), Log(I(5))>>)

\* <<"l1", place, it, c, ex>>: one loop, an exit guarded by a condition before
\* (place 1) / after (place 2) the logging statement, inside a function;
\* place 3: the same at top level
\* (entries are [key, value] lists: `x > 1` would compare a list with an int,
\* an order the language leaves open - those combinations are left out)
L1Params == { p \in { <<"l1", pl, it, c, ex>> : pl \in {1, 2}, it \in Idx(Iterables), c \in Idx(Conds), ex \in Idx(ExitAt) }
              : ~(p[3] = 5 /\ p[4] = 2) }
            \cup { <<"l1", 3, 1, c, ex>> : c \in Idx(Conds), ex \in Idx(ExitAt) }
L1Build(p) ==
  LET it == Iterables[p[3]]  c == Conds[p[4]]  ex == ExitAt[p[5]] IN
  CASE p[2] = 1 -> InF(<<For(<<"x">>, it[1], it[2], Do(<<If1(c, ex), Log(Var("x")), Var("x")>>))>>)
    [] p[2] = 2 -> InF(<<For(<<"x">>, it[1], it[2], Do(<<Log(Var("x")), If1(c, ex)>>))>>)
    [] p[2] = 3 -> Prog(<<For(<<"x">>, it[1], it[2], Do(<<If1(c, ex), Log(Var("x"))>>)), Log(I(5))>>)
\* <<"l0", ex>>: stray exits at top level
L0Params == { <<"l0", ex>> : ex \in 1..3 }
L0Build(p) == Prog(<<Log(I(1)), <<Brk, Cont, Ret(I(3))>>[p[2]], Log(I(2))>>)
\* <<"l2", it, ex, ex2>>: nested loops in a function: which loop does the exit end
Inner2 == << <<"values", L123>>, <<"keys", MapN(<< <<I(2), I(0)>>, <<I(1), I(0)>> >>)>> >>
Ex2a == << Brk, Cont, Ret(Var("y")), Log(I(0)) >>
Ex2b == << Brk, Cont, Ret(I(8)), Log(I(0)) >>
L2Params == { <<"l2", it, ex, ex2>> : it \in Idx(Inner2), ex \in Idx(Ex2a), ex2 \in Idx(Ex2b) }
L2Build(p) ==
  LET it == Inner2[p[2]] IN
  Prog(<<Def("f", Fn(<< >>,
            Do(<<For(<<"x">>, "values", L123,
                     Do(<<For(<<"y">>, it[1], it[2],
                              Do(<<If1(Bin("==", Var("y"), I(2)), Ex2a[p[3]]), Log(ListN(<<Var("x"), Var("y")>>))>>)),
                          If1(Bin("==", Var("x"), I(2)), Ex2b[p[4]]),
                          Log(Var("x"))>>)),
                 I(99)>>))),
         Log(Call(Var("f"), << >>))>>)
\* <<"l3", k>>: destructuring loops
L3Progs == << Prog(<<For(<<"a", "b">>, "values", ListN(<<ListN(<<I(1), I(2)>>), ListN(<<I(3), I(4)>>)>>),
                        Log(Bin("+", Var("a"), Var("b"))))>>),
              Prog(<<For(<<"a", "b">>, "values", SetN(<<ListN(<<I(5), I(6)>>), ListN(<<I(1), I(2)>>)>>),
                        Log(Bin("+", Var("a"), Var("b"))))>>),
              Prog(<<For(<<"a", "b">>, "entries", MapN(<< <<I(2), I(20)>>, <<I(1), I(30)>> >>),
                        Log(ListN(<<Var("a"), Var("b")>>)))>>),
              Prog(<<For(<<"a", "b">>, "values", ListN(<<ListN(<<I(1)>>), ListN(<< >>), ListN(<<I(1), I(2), I(3)>>)>>),
                        Log(ListN(<<Var("a"), Var("b")>>)))>>),
              Prog(<<Blk(<<For(<<"a", "b">>, "values", ListN(<<ListN(<<I(1), I(2)>>), I(7)>>), Log(Var("a")))>>,
                         << <<All, Log(I(9))>> >>, << >>)>>),
              Prog(<<Log(If2(I(1), I(2), I(3)))>>),
              Prog(<<Log(Compr("list", Bin("+", Var("x"), Var("x")), "x", "", Lit(StrV(<<97, 98>>)), None))>>),
              Prog(<<For(<<"x">>, "values", I(5), Log(Var("x"))), Log(I(1))>>) >>
L3Params == { <<"l3", k>> : k \in Idx(L3Progs) }
\* <<"w1", lim, ex>>: while re-tests its (logging) condition before every iteration
WEx == << Brk, Cont, Log(I(7)), ErrN(I(1)), Ret(I(4)) >>
W1Params == { <<"w1", lim, ex>> : lim \in {0, 1, 3}, ex \in Idx(WEx) }
W1Build(p) == InF(<<Def("n", I(0)),
                   While(Bin("<", Log(Var("n")), I(p[2])),
                         Do(<<Asg("n", Bin("+", Var("n"), I(1))), If1(Bin("==", Var("n"), I(2)), WEx[p[3]]), Var("n")>>))>>)
\* <<"if", b1, b2, b3, el>>: ladders evaluate exactly the first TRUE branch
LogC(k, b) == Do(<<Log(I(k)), Lit(Bool(b = 1))>>)
IfParams == { <<"if", b1, b2, b3, el>> : b1 \in {0, 1}, b2 \in {0, 1}, b3 \in {0, 1}, el \in {0, 1} }
IfBuild(p) == Prog(<<Log(IfN(<<LogC(1, p[2]), LogC(2, p[3]), LogC(3, p[4])>>,
                             <<Log(I(11)), Log(I(12)), Log(I(13))>>,
                             IF p[5] = 1 THEN <<Log(I(14))>> ELSE << >>))>>)
\* <<"cp", form, kind, it, c, v>>: a comprehension (form 1) and its explicit loop (form 2)
CKinds == << "list", "set" >>
CConds == << None, Bin(">", Var("x"), I(1)), Bin("!=", Var("x"), I(2)) >>
\* values: plain; failing exactly on the element the third condition rejects (6 / (x - 2)); with a visible effect
ComprVals == << Bin("*", Var("x"), I(2)), Bin("/", I(6), Bin("-", Var("x"), I(2))), Log(Var("x")) >>
CpParams == { p \in { <<"cp", form, kind, it, c, v>> : form \in {1, 2}, kind \in Idx(CKinds), it \in 1..6, c \in Idx(CConds),
                                                      v \in Idx(ComprVals) }
              : ~(p[4] = 5 /\ (p[5] # 1 \/ p[6] # 1)) }
CpBuild(p) ==
  LET kind == CKinds[p[3]]  it == Iterables[p[4]]  c == CConds[p[5]]
      val == IF it[1] = "entries" THEN Var("x") ELSE ComprVals[p[6]] IN
  IF p[2] = 1 THEN Prog(<<Log(Compr(kind, val, "x", it[1], it[2], c))>>)
  ELSE Prog(<<Def("r", ListN(<< >>)),
              For(<<"x">>, it[1], it[2],
                  IF c.n = "none" THEN Asg("r", Bin("+", Var("r"), ListN(<<val>>)))
                  ELSE If1(c, Asg("r", Bin("+", Var("r"), ListN(<<val>>))))),
              Log(IF kind = "set" THEN Compr("set", Var("x"), "x", "values", Var("r"), None) ELSE Var("r"))>>)
\* <<"mc", c, v>>: map comprehension
\* (keys: the element itself, or a key that repeats - x % 2 over [1, 2, 3, 4]: the later element's value wins, as in
\*  the explicit loop that puts key after key)
McKeys == << Var("x"), Bin("%", Var("x"), I(2)) >>
McParams == { <<"mc", c, v, k>> : c \in Idx(CConds), v \in Idx(ComprVals), k \in Idx(McKeys) }
McBuild(p) == Prog(<<Log(Compr("map", N("kv", "", Null, <<McKeys[p[4]], ComprVals[p[3]]>>), "x", "values",
                               IF p[4] = 1 THEN SetN(<<I(2), I(1), I(3)>>) ELSE ListN(<<I(1), I(2), I(3), I(4)>>), CConds[p[2]]))>>)

\* <<"c2", form, kind, l1, l2, c, v>>: product and `also for` comprehensions
C2Forms == << "product", "parallel" >>
\* sources as <<what, collection>>: lists, a set, the empty list, a string, and maps by keys / values / entries / default
M2a == MapN(<< <<I(2), I(20)>>, <<I(1), I(30)>> >>)
M2b == MapN(<< <<I(7), I(5)>>, <<I(6), I(9)>> >>)
C2Lists == << <<"", ListN(<<I(1), I(2)>>)>>, <<"", ListN(<<I(10), I(20), I(30)>>)>>, <<"", SetN(<<I(3), I(1)>>)>>,
              <<"", ListN(<< >>)>>, <<"", Lit(StrV(<<97, 98>>))>>,
              <<"keys", M2a>>, <<"values", M2a>>, <<"values", M2b>>, <<"entries", M2b>>, <<"", M2a>> >>
C2Conds == << None, Bin("!=", Var("x"), Var("y")) >>
\* values of the two-source forms: the pair; a value failing exactly where the condition rejects (x = y)
C2Vals == << ListN(<<Var("x"), Var("y")>>), Bin("/", I(6), Bin("-", Var("x"), Var("y"))) >>
C2Params == { <<"c2", f, k, l1, l2, c, 1>> : f \in Idx(C2Forms), k \in Idx(CKinds), l1 \in Idx(C2Lists), l2 \in Idx(C2Lists), c \in Idx(C2Conds) }
            \cup { <<"c2", f, k, l1, l2, c, 2>> : f \in Idx(C2Forms), k \in Idx(CKinds), l1 \in 1..3, l2 \in 1..3, c \in Idx(C2Conds) }
C2Build(p) == Prog(<<Log(Compr2(C2Forms[p[2]], CKinds[p[3]], C2Vals[p[7]],
                                "x", C2Lists[p[4]][1], C2Lists[p[4]][2], "y", C2Lists[p[5]][1], C2Lists[p[5]][2], C2Conds[p[6]]))>>)
\* <<"l4", where, ex, fin>>: exits through do/finally inside nested loops and
\* from a loop in a function called inside a loop
L4Ex == << Brk, Cont, Ret(I(8)), ErrN(S("a")), Log(I(0)) >>
L4Params == { <<"l4", w, ex, f>> : w \in {1, 2, 3}, ex \in Idx(L4Ex), f \in {1, 2} }
L4Build(p) ==
  LET ex == L4Ex[p[3]]
      guarded == Blk(<<If1(Bin("==", Var("y"), I(2)), ex), Log(Var("y"))>>, << >>, IF p[4] = 1 THEN << >> ELSE <<Log(I(7))>>)
      inner == For(<<"y">>, "values", L123, guarded)
  IN CASE p[2] = 1 -> InF(<<For(<<"x">>, "values", ListN(<<I(1), I(2)>>), Do(<<inner, Log(Var("x"))>>)), I(99)>>)
       [] p[2] = 2 -> Prog(<<Def("g", Fn(<< >>, Do(<<inner, I(50)>>))),
                             For(<<"x">>, "values", ListN(<<I(1), I(2)>>),
                                 Do(<<Blk(<<Log(Call(Var("g"), << >>))>>, << <<All, Log(I(9))>> >>, << >>), Log(Var("x"))>>))>>)
       [] p[2] = 3 -> InF(<<For(<<"x">>, "values", ListN(<<I(1), I(2), I(3)>>),
                                Do(<<If1(Bin("==", Var("x"), I(2)), Blk(<<ex>>, << >>, <<Log(I(7))>>)), Log(Var("x")), Cont>>)),
                            Log(I(6))>>)
\* <<"l5", k>>: iteration order of sets and maps of strings, default `what`, index lookups in loops
SA == S("a")  SB == S("b")  SC == S("c")
MN == MapN(<< <<I(10), I(1)>>, <<I(2), I(2)>>, <<I(-1), I(3)>>, <<I(1), I(4)>>, <<I(-2), I(5)>> >>)
L5Progs == << Prog(<<For(<<"x">>, "values", SetN(<<SB, SC, SA>>), Log(Var("x")))>>),
              Prog(<<Def("t", MapN(<< <<SB, I(2)>>, <<SC, I(1)>>, <<SA, I(3)>> >>)),
                     For(<<"k">>, "keys", Var("t"), Log(ListN(<<Var("k"), Index(Var("t"), Var("k"))>>))),
                     For(<<"v">>, "values", Var("t"), Log(Var("v"))),
                     Log(Compr("list", Var("x"), "x", "keys", Var("t"), None)),
                     Log(Compr("list", Var("x"), "x", "values", Var("t"), None)),
                     Log(Compr("list", Var("x"), "x", "", Var("t"), None))>>),
              Prog(<<Def("t", ListN(<<I(5), I(6), I(7)>>)),
                     Def("n", I(0)),
                     While(Bin("<", Var("n"), I(3)), Do(<<Log(Index(Var("t"), Var("n"))), Asg("n", Bin("+", Var("n"), I(1)))>>)),
                     Log(Index(Var("t"), I(-1))),
                     Blk(<<Log(Index(Var("t"), I(3)))>>, << <<All, Log(I(9))>> >>, << >>)>>),
              Prog(<<Def("t", ListN(<< >>)),
                     For(<<"x">>, "values", L123, Asg("t", Bin("+", Var("t"), ListN(<<Fn(<< >>, Var("x"))>>)))),
                     Blk(<<Log(Call(Index(Var("t"), I(0)), << >>))>>, << <<All, Log(I(9))>> >>, << >>)>>),
              Prog(<<For(<<"x">>, "values", L123,
                         IfN(<<Bin("==", Var("x"), I(1)), Bin("==", Var("x"), I(2))>>, <<Log(I(11)), Log(I(12))>>, <<Log(I(13))>>))>>),
              \* keys whose numeric order differs from the order of their texts: 1 2 10, -2 -1
              Prog(<<Def("t", MN),
                     For(<<"k">>, "keys", Var("t"), Log(Var("k"))),
                     For(<<"v">>, "values", Var("t"), Log(Var("v"))),
                     For(<<"x">>, "entries", Var("t"), Log(Var("x"))),
                     For(<<"k", "v">>, "entries", Var("t"), Log(ListN(<<Var("v"), Var("k")>>))),
                     For(<<"k">>, "keys", Var("t"), Do(<<If1(Bin(">", Var("k"), I(1)), Brk), Log(Var("k"))>>)),
                     Log(Compr("list", Var("x"), "x", "keys", Var("t"), None)),
                     Log(Compr("list", Var("x"), "x", "values", Var("t"), None)),
                     Log(Compr("map", N("kv", "", Null, <<Var("x"), Bin("*", Var("x"), I(2))>>), "x", "keys", Var("t"), None))>>),
              \* a loop in the tail position of a function whose body ENDS in `return` (the parser rewrites a
              \* return that ends a function body into its expression: that must not reach into loop bodies)
              Prog(<<Def("f", Fn(<<Param("t")>>, Do(<<For(<<"x">>, "values", Var("t"), Do(<<Log(Var("x")), Ret(Var("x"))>>))>>))),
                     Log(Call(Var("f"), <<Arg(L123)>>)), Log(Call(Var("f"), <<Arg(ListN(<< >>))>>)),
                     Def("g", Fn(<<Param("n")>>, Do(<<While(Bin(">", Var("n"), I(0)),
                                                         Do(<<Asg("n", Bin("-", Var("n"), I(1))), Log(Var("n")), Ret(Var("n"))>>))>>))),
                     Log(Call(Var("g"), <<Arg(I(3))>>)),
                     Def("h", Fn(<<Param("t")>>, Do(<<For(<<"x">>, "values", Var("t"),
                                                        IfN(<<Bin("==", Var("x"), I(2))>>, <<Ret(I(20))>>, <<Ret(I(10))>>))>>))),
                     Log(Call(Var("h"), <<Arg(ListN(<<I(2), I(1)>>))>>))>>),
              \* three loops deep: continue and break act on the innermost loop only
              Prog(<<For(<<"x">>, "values", ListN(<<I(1), I(2)>>),
                         For(<<"y">>, "values", ListN(<<I(1), I(2), I(3)>>),
                             For(<<"z">>, "values", ListN(<<I(1), I(2), I(3)>>),
                                 Do(<<If1(Bin("==", Var("z"), I(2)), Cont), If1(Bin("==", Var("y"), I(2)), Brk),
                                      If1(Bin("==", Bin("+", Var("x"), Var("y")), I(5)), Brk),
                                      Log(ListN(<<Var("x"), Var("y"), Var("z")>>))>>)))),
                     Def("f", Fn(<< >>, Do(<<For(<<"x">>, "values", ListN(<<I(1), I(2)>>),
                                               For(<<"y">>, "values", ListN(<<I(1), I(2)>>),
                                                   While(Lit(Bool(TRUE)), Do(<<Log(Var("y")), If1(Bin("==", Var("y"), I(2)), Ret(Var("x"))), Brk>>)))),
                                           I(99)>>))),
                     Log(Call(Var("f"), << >>))>>),
              Prog(<<For(<<"x">>, "values", SetN(<<I(10), I(9), I(100), I(-5), I(-10), I(2)>>), Log(Var("x"))),
                     Log(Compr("list", Var("x"), "x", "values", SetN(<<I(10), I(9), I(100), I(-5), I(-10), I(2)>>), None)),
                     Log(SetN(<<I(10), I(9), I(100), I(-5), I(-10), I(2)>>))>>),
              \* a comprehension re-entered by recursion from its source, its value and its condition, beside the
              \* explicit loop: every evaluation has loop variables (and sees parameters) of its own
              Prog(<<Def("f", Fn(<<Param("n")>>, If2(Bin("==", Var("n"), I(0)), ListN(<<I(0), I(1)>>),
                                  Compr("list", Bin("+", Var("x"), Var("n")), "x", "values",
                                        Call(Var("f"), <<Arg(Bin("-", Var("n"), I(1)))>>), None)))),
                     Log(Call(Var("f"), <<Arg(I(3))>>)), Log(Call(Var("f"), <<Arg(I(1))>>))>>),
              Prog(<<Def("g", Fn(<<Param("n")>>, If2(Bin("==", Var("n"), I(0)), ListN(<<I(5)>>),
                                  Compr("list", ListN(<<Var("x"), Var("n"), Index(Call(Var("g"), <<Arg(Bin("-", Var("n"), I(1)))>>), I(0))>>), "x", "values",
                                        ListN(<<Var("n"), Bin("*", Var("n"), I(10))>>), None)))),
                     Log(Call(Var("g"), <<Arg(I(2))>>))>>),
              Prog(<<Def("h", Fn(<<Param("n")>>, If2(Bin("==", Var("n"), I(0)), ListN(<< >>),
                                  Compr("list", ListN(<<Var("x"), Var("n")>>), "x", "values", ListN(<<Var("n"), I(7)>>),
                                        Bin("==", Call(Var("h"), <<Arg(Bin("-", Var("n"), I(1)))>>), Call(Var("h"), <<Arg(Bin("-", Var("n"), I(1)))>>)))))),
                     Log(Call(Var("h"), <<Arg(I(2))>>))>>),
              Prog(<<Def("f", Fn(<<Param("n")>>, Do(<<If1(Bin("==", Var("n"), I(0)), Ret(ListN(<<I(0), I(1)>>))),
                                                   Def("r", ListN(<< >>)),
                                                   For(<<"x">>, "values", Call(Var("f"), <<Arg(Bin("-", Var("n"), I(1)))>>), Log(Bin("+", Var("x"), Var("n")))),
                                                   ListN(<<Var("n")>>)>>))),
                     Log(Call(Var("f"), <<Arg(I(2))>>))>>) >>
L5Params == { <<"l5", k>> : k \in Idx(L5Progs) }

LoopParams(u) == C2Params \cup L4Params \cup L5Params \cup L1Params \cup L0Params \cup L2Params \cup L3Params \cup W1Params \cup IfParams \cup CpParams \cup McParams

(* ---- C03: scoping and argument binding ---- *)
\* <<"s1", s1, s2>>: who sees which x
S1a == << I(0), Def("x", I(2)), Asg("x", I(3)) >>
S1b == << I(0), Def("x", I(4)), Asg("x", Bin("+", Var("x"), I(10))) >>
S1Params == { <<"s1", a, b>> : a \in Idx(S1a), b \in Idx(S1b) }
S1Build(p) == Prog(<<Def("x", I(1)),
                    Def("f", Fn(<< >>, Do(<<S1a[p[2]], Log(Var("x")), S1b[p[3]], Var("x")>>))),
                    Def("g", Fn(<< >>, Do(<<Def("x", I(5)), Log(Call(Var("f"), << >>)), Var("x")>>))),
                    Log(Call(Var("g"), << >>)),
                    Log(Var("x"))>>)
\* <<"s2", upd>>: counters;  <<"s3", redef>>: curried functions
S2u == << Asg("n", Bin("+", Var("n"), I(1))), Def("n", Bin("+", Var("n"), I(1))), I(0) >>
S2Params == { <<"s2", u>> : u \in Idx(S2u) }
S2Build(p) == Prog(<<Def("c", Fn(<<Param("n")>>, Fn(<< >>, Do(<<S2u[p[2]], Var("n")>>)))),
                    Def("a", Call(Var("c"), <<Arg(I(10))>>)),
                    Def("b", Call(Var("c"), <<Arg(I(20))>>)),
                    Log(Call(Var("a"), << >>)), Log(Call(Var("a"), << >>)), Log(Call(Var("b"), << >>)),
                    Log(Call(Var("a"), << >>))>>)
S3r == << I(0), Def("k", I(200)), Asg("k", I(300)), Def("x", I(9)) >>
S3Params == { <<"s3", r>> : r \in Idx(S3r) }
S3Build(p) == Prog(<<Def("k", I(100)),
                    Def("f", Fn(<<Param("x")>>, Fn(<<Param("y")>>, Fn(<<Param("z")>>,
                                   ListN(<<Var("x"), Var("y"), Var("z"), Var("k")>>))))),
                    Def("g", Call(Call(Var("f"), <<Arg(I(1))>>), <<Arg(I(2))>>)),
                    S3r[p[2]],
                    Log(Call(Var("g"), <<Arg(I(3))>>))>>)
\* <<"s4", a1>>: assignment never creates; undefined names are errors
S4a == << Asg("t", I(1)), Def("t", I(1)), Log(Var("t")) >>
S4Params == { <<"s4", a>> : a \in Idx(S4a) }
S4Build(p) == Prog(<<Def("f", Fn(<< >>, Do(<<S4a[p[2]], Log(I(1))>>))),
                    Blk(<<Log(Call(Var("f"), << >>))>>, << <<All, Log(I(9))>> >>, << >>),
                    Blk(<<Log(Var("t"))>>, << <<All, Log(I(8))>> >>, << >>)>>)
\* <<"s5">>: recursion gets fresh frames
S5Params == { <<"s5">> }
S5Build(p) == Prog(<<Def("f", Fn(<<Param("n")>>,
                         Do(<<Def("v", Var("n")),
                              If1(Bin(">", Var("n"), I(0)), Call(Var("f"), <<Arg(Bin("-", Var("n"), I(1)))>>)),
                              Log(ListN(<<Var("n"), Var("v")>>)),
                              Var("v")>>))),
                    Log(Call(Var("f"), <<Arg(I(2))>>))>>)
\* <<"a1", sig, al>>: argument binding
Sig == << <<Param("a"), Param("b")>>,
          <<Param("a"), ParamD("b", I(7))>>,
          <<Param("a"), ParamD("b", Bin("+", Var("a"), Var("k")))>>,
          <<Param("a"), ParamD("b", I(7)), ParamR("rest...")>>,
          <<ParamD("a", I(5)), ParamR("rest...")>>,
          <<Param("a"), Param("b"), ParamD("c", I(0))>>,
          <<Param("a"), Param("b"), Param("c"), ParamR("rest...")>> >>
ArgLists == << << >>, <<Arg(I(1))>>, <<Arg(I(1)), Arg(I(2))>>, <<Arg(I(1)), Arg(I(2)), Arg(I(3))>>,
               <<NArg("b", I(2)), NArg("a", I(1))>>, <<Arg(I(1)), NArg("b", I(2))>>,
               <<NArg("b", I(2)), Arg(I(1))>>, <<NArg("a", I(1)), Arg(I(2))>>, <<NArg("c", I(3))>>,
               <<Spread(ListN(<<I(1), I(2)>>))>>, <<Spread(ListN(<<I(1), I(2), I(3), I(4)>>))>>,
               <<Arg(I(0)), Spread(ListN(<<I(1), I(2)>>))>>,
               <<Spread(MapN(<< <<S("b"), I(2)>>, <<S("a"), I(1)>> >>))>>,
               <<Spread(MapN(<< <<S("b"), I(2)>> >>)), NArg("a", I(1))>>,
               <<Spread(Var("t"))>>,              \* t is the set <<2, 1>>
               <<Arg(I(7)), NArg("a", I(1)), NArg("b", I(2))>>,
               <<Arg(I(7)), Arg(I(8)), NArg("a", I(1)), NArg("b", I(2))>>,
               <<Arg(I(7)), NArg("b", I(2)), NArg("c", I(3))>>,
               <<Arg(I(7)), Arg(I(8)), Arg(I(9)), NArg("b", I(2))>>,
               <<Arg(I(7)), Spread(MapN(<< <<S("a"), I(1)>>, <<S("b"), I(2)>> >>))>>,
               <<Spread(ListN(<<I(7), I(8)>>)), NArg("a", I(1)), NArg("c", I(3))>>,
               \* a NULL that is passed is an argument like any other: it is bound, the default is not used
               <<Arg(NullL)>>, <<Arg(I(1)), Arg(NullL)>>, <<NArg("b", NullL), Arg(I(1))>>,
               <<Spread(ListN(<<I(1), NullL>>))>>, <<Arg(I(1)), Spread(MapN(<< <<S("b"), NullL>> >>))>> >>
BodyOf(sig) == ListN([i \in 1..Len(sig) |-> Var(sig[i].name)])
A1Params == { <<"a1", sg, al>> : sg \in Idx(Sig), al \in Idx(ArgLists) }
A1Build(p) == Prog(<<Def("k", I(100)), Def("t", SetN(<<I(2), I(1)>>)),
                    Def("f", Fn(Sig[p[2]], Do(<<Def("k", I(50)), BodyOf(Sig[p[2]])>>))),
                    Blk(<<Log(Call(Var("f"), ArgLists[p[3]]))>>, << <<All, Log(S("c"))>> >>, << >>)>>)
\* <<"a2", al>>: pipeline;  <<"a3", o, m, al>>: methods and prototype chains
A2l == << << >>, <<Arg(I(2))>>, <<NArg("b", I(3))>>, <<Arg(NullL)>> >>
A2Params == { <<"a2", al>> : al \in Idx(A2l) }
A2Build(p) == Prog(<<Def("f", Fn(<<Param("a"), ParamD("b", I(7))>>, ListN(<<Var("a"), Var("b")>>))),
                    Log(Pipe(I(1), Var("f"), A2l[p[2]]))>>)
Obj1 == ObjN(<< <<"n", I(1)>>, <<"get", Fn(<<Param("p"), ParamD("k", I(0))>>, Bin("+", MemberN(Var("p"), "n"), Var("k")))>> >>)
\* receivers: the object itself, one and two prototype links away, three links away (r), and an EXPRESSION with an
\* effect (the receiver is evaluated once: the object it yields is looked up in and passed on)
A3o == << Var("a"), Var("b"), Var("c"), Var("r"), Call(Var("h"), << >>) >>
A3m == << "get", "inc" >>
A3l == << << >>, <<Arg(I(10))>>, <<NArg("k", I(20))>>, <<Arg(NullL)>> >>
A3Params == { <<"a3", o, m, al>> : o \in Idx(A3o), m \in Idx(A3m), al \in Idx(A3l) }
A3Build(p) == Prog(<<Def("a", Obj1),
                    Def("b", ObjN(<< <<"_proto_", Var("a")>>, <<"n", I(5)>> >>)),
                    Def("c", ObjN(<< <<"_proto_", Var("b")>> >>)),
                    Def("r", ObjN(<< <<"_proto_", Var("c")>>, <<"n", I(9)>> >>)),
                    Def("h", Fn(<< >>, Do(<<Log(I(77)), Var("b")>>))),
                    Blk(<<Log(Method(A3o[p[2]], A3m[p[3]], A3l[p[4]]))>>, << <<All, Log(S("c"))>> >>, << >>),
                    Log(MemberN(IF p[2] = 5 THEN Var("b") ELSE A3o[p[2]], "n")),
                    Log(MemberN(Var("r"), "n")),
                    \* member reads through two and three prototype links (`get` lives on a only)
                    Log(MemberN(Var("c"), "get")), Log(MemberN(Var("r"), "get")), Log(MemberN(Var("c"), "n"))>>)

\* <<"a4", o, al>>: a pipeline into a MEMBER of an object (own, or found through the prototype chain):
\* x !> o->m(a) is m(x, a) like every pipeline - the member is looked up, the object is not passed
A4o == << Var("a"), Var("b") >>
A4Params == { <<"a4", o, al>> : o \in Idx(A4o), al \in Idx(A2l) }
A4Build(p) == Prog(<<Def("a", ObjN(<< <<"n", I(1)>>,
                                     <<"get", Fn(<<Param("p"), ParamD("k", I(7)), ParamD("b", I(8))>>, ListN(<<Var("p"), Var("k"), Var("b")>>))>> >>)),
                    Def("b", ObjN(<< <<"_proto_", Var("a")>>, <<"n", I(5)>> >>)),
                    Blk(<<Log(Pipe(I(4), MemberN(A4o[p[2]], "get"), A2l[p[3]]))>>, << <<All, Log(S("c"))>> >>, << >>)>>)

\* <<"s6", k>>: defaults per call, four scope levels, closures over variables,
\* composition, mutual recursion, handler selection across frames
S6Progs == <<
  \* defaults are evaluated at every call, in the callee scope
  Prog(<<Def("k", I(1)), Def("f", Fn(<<ParamD("a", Var("k"))>>, Var("a"))),
         Log(Call(Var("f"), << >>)), Asg("k", I(2)), Log(Call(Var("f"), << >>)),
         Def("g", Fn(<<Param("a"), ParamD("b", Bin("*", Var("a"), I(2)))>>, ListN(<<Var("a"), Var("b")>>))),
         Log(Call(Var("g"), <<Arg(I(1))>>)), Log(Call(Var("g"), <<Arg(I(5))>>)), Log(Call(Var("g"), <<Arg(I(5)), Arg(I(6))>>))>>),
  \* four levels of shadowing; assignment reaches the nearest binding
  Prog(<<Def("x", I(1)),
         Def("f", Fn(<< >>, Do(<<Def("x", I(2)),
             Def("g", Fn(<< >>, Do(<<Def("h", Fn(<< >>, Do(<<Asg("x", Bin("+", Var("x"), I(10))), Def("x", I(4)), Log(Var("x")), Var("x")>>))),
                                    Log(Call(Var("h"), << >>)), Log(Var("x")), Var("x")>>))),
             Log(Call(Var("g"), << >>)), Log(Var("x")), Var("x")>>))),
         Log(Call(Var("f"), << >>)), Log(Var("x"))>>),
  \* a closure sees the variable, not the value it had
  Prog(<<Def("x", I(1)), Def("f", Fn(<< >>, Var("x"))), Asg("x", I(2)), Log(Call(Var("f"), << >>)),
         Def("x", I(3)), Log(Call(Var("f"), << >>))>>),
  \* composition
  Prog(<<Def("c", Fn(<<Param("f"), Param("g")>>, Fn(<<Param("x")>>, Call(Var("f"), <<Arg(Call(Var("g"), <<Arg(Var("x"))>>))>>)))),
         Def("a", Fn(<<Param("x")>>, Bin("+", Var("x"), I(1)))), Def("b", Fn(<<Param("x")>>, Bin("*", Var("x"), I(2)))),
         Log(Call(Call(Var("c"), <<Arg(Var("a")), Arg(Var("b"))>>), <<Arg(I(5))>>)),
         Log(Call(Call(Var("c"), <<Arg(Var("b")), Arg(Var("a"))>>), <<Arg(I(5))>>))>>),
  \* mutual recursion through names defined later; recursion depth 4
  Prog(<<Def("f", Fn(<<Param("n")>>, If2(Bin("==", Var("n"), I(0)), Lit(Bool(TRUE)), Call(Var("g"), <<Arg(Bin("-", Var("n"), I(1)))>>)))),
         Def("g", Fn(<<Param("n")>>, If2(Bin("==", Var("n"), I(0)), Lit(Bool(FALSE)), Call(Var("f"), <<Arg(Bin("-", Var("n"), I(1)))>>)))),
         Log(Call(Var("f"), <<Arg(I(4))>>)), Log(Call(Var("f"), <<Arg(I(3))>>)),
         Def("h", Fn(<<Param("n"), ParamD("a", I(1))>>, If2(Bin("<=", Var("n"), I(1)), Var("a"),
                       Call(Var("h"), <<Arg(Bin("-", Var("n"), I(1))), Arg(Bin("*", Var("a"), Var("n")))>>)))),
         Log(Call(Var("h"), <<Arg(I(4))>>))>>),
  \* parameters shadow globals; a parameter assignment stays in the call frame
  Prog(<<Def("n", I(7)), Def("f", Fn(<<Param("n")>>, Do(<<Asg("n", Bin("+", Var("n"), I(1))), Var("n")>>))),
         Log(Call(Var("f"), <<Arg(I(1))>>)), Log(Var("n")), Log(Call(Var("f"), <<Arg(Var("n"))>>)), Log(Var("n"))>>),
  \* named arguments in any order with defaults referring to earlier parameters
  Prog(<<Def("f", Fn(<<Param("a"), ParamD("b", Bin("+", Var("a"), I(1))), ParamD("c", Bin("+", Var("b"), I(1)))>>,
                     ListN(<<Var("a"), Var("b"), Var("c")>>))),
         Log(Call(Var("f"), <<Arg(I(1))>>)), Log(Call(Var("f"), <<NArg("c", I(9)), NArg("a", I(1))>>)),
         Log(Call(Var("f"), <<Arg(I(1)), NArg("c", I(9))>>)), Log(Call(Var("f"), <<NArg("b", I(5)), NArg("a", I(2))>>)),
         Log(Pipe(I(3), Var("f"), <<NArg("c", I(0))>>))>>),
  \* the loop variable lives in the frame that runs the loop and is gone afterwards
  Prog(<<Def("x", I(100)),
         Def("f", Fn(<< >>, Do(<<For(<<"x">>, "values", ListN(<<I(1), I(2)>>), Log(Var("x"))), Var("x")>>))),
         Log(Call(Var("f"), << >>)), Log(Var("x"))>>),
  \* the SAME use of a name evaluated again: every evaluation finds the nearest binding that exists at that moment
  \* (a def executed in some calls only; a def executed after a closure over the frame was called; closures of one
  \* maker whose frames do or do not bind the name)
  Prog(<<Def("v", S("g")),
         Def("f", Fn(<<Param("c")>>, Do(<<If1(Var("c"), Do(<<Def("v", S("a"))>>)), Var("v")>>))),
         Log(Call(Var("f"), <<Arg(Lit(Bool(FALSE)))>>)), Log(Call(Var("f"), <<Arg(Lit(Bool(TRUE)))>>)),
         Log(Call(Var("f"), <<Arg(Lit(Bool(FALSE)))>>)), Log(Var("v"))>>),
  Prog(<<Def("v", S("g")),
         Def("f", Fn(<< >>, Do(<<Def("r", Fn(<< >>, Var("v"))), Log(Call(Var("r"), << >>)), Def("v", S("a")), Log(Call(Var("r"), << >>)), Var("v")>>))),
         Log(Call(Var("f"), << >>)), Log(Var("v")), Log(Call(Var("f"), << >>))>>),
  Prog(<<Def("v", S("g")),
         Def("f", Fn(<<Param("c")>>, Do(<<If1(Var("c"), Do(<<Def("v", S("a"))>>)), Fn(<< >>, Var("v"))>>))),
         Def("a", Call(Var("f"), <<Arg(Lit(Bool(FALSE)))>>)), Def("b", Call(Var("f"), <<Arg(Lit(Bool(TRUE)))>>)),
         Log(Call(Var("a"), << >>)), Log(Call(Var("b"), << >>)), Log(Call(Var("a"), << >>)),
         Asg("v", S("b")), Log(Call(Var("a"), << >>)), Log(Call(Var("b"), << >>))>>),
  Prog(<<Def("n", I(1)), Def("g", Fn(<< >>, Var("n"))), Def("h", Fn(<<Param("n")>>, Bin("+", Call(Var("g"), << >>), Var("n")))),
         Log(Call(Var("h"), <<Arg(I(10))>>)), Log(Call(Var("g"), << >>)), Log(Call(Var("h"), <<Arg(I(20))>>))>>),
  Prog(<<Def("v", I(1)),
         Def("f", Fn(<<Param("c")>>, For(<<"x">>, "values", ListN(<<I(1), I(2), I(3)>>),
                                         Do(<<If1(Bin("==", Var("x"), Var("c")), Do(<<Def("v", Bin("*", I(10), Var("x")))>>)), Log(Var("v"))>>)))),
         Call(Var("f"), <<Arg(I(2))>>), Call(Var("f"), <<Arg(I(0))>>), Call(Var("f"), <<Arg(I(3))>>), Log(Var("v"))>>) >>
S6Params == { <<"s6", k>> : k \in Idx(S6Progs) }

\* <<"s7", k>>: destructuring assignment updates the nearest bindings (never creates), destructuring def
\* binds in the current frame; missing items are NULL; sets are taken in ascending order
S7Progs == <<
  Prog(<<Def("a", I(1)), Def("b", I(2)),
         Def("f", Fn(<< >>, Do(<<DAsg(<<"a", "b">>, ListN(<<I(10), I(20)>>)), Bin("+", Var("a"), Var("b"))>>))),
         Log(Call(Var("f"), << >>)), Log(Var("a")), Log(Var("b"))>>),
  Prog(<<Def("g", Fn(<< >>, Do(<<Def("n", I(0)), Fn(<< >>, Do(<<DAsg(<<"n">>, ListN(<<Bin("+", Var("n"), I(1))>>)), Var("n")>>))>>))),
         Def("c", Call(Var("g"), << >>)), Def("k", Call(Var("g"), << >>)),
         Log(Call(Var("c"), << >>)), Log(Call(Var("c"), << >>)), Log(Call(Var("k"), << >>))>>),
  Prog(<<DDef(<<"x", "y">>, ListN(<<I(1)>>)), Log(Var("x")), Log(Var("y")),
         Blk(<<DAsg(<<"x", "zq">>, ListN(<<I(5), I(6)>>))>>, << <<All, Log(I(9))>> >>, << >>), Log(Var("x"))>>),
  Prog(<<Def("x", I(1)), Def("y", I(2)),
         Def("f", Fn(<< >>, Do(<<DDef(<<"x", "y">>, SetN(<<I(4), I(3)>>)), Log(Var("y")), Var("x")>>))),
         Log(Call(Var("f"), << >>)), Log(Var("x")), Log(Var("y"))>>),
  Prog(<<Def("x", I(1)), Blk(<<DAsg(<<"x">>, I(5))>>, << <<All, Log(I(9))>> >>, << >>),
         Blk(<<DDef(<<"y">>, S("a"))>>, << <<All, Log(I(8))>> >>, << >>), Log(Var("x")),
         Def("f", Fn(<<Param("a")>>, Do(<<DAsg(<<"a", "x">>, ListN(<<Var("x"), Var("a")>>)), ListN(<<Var("a"), Var("x")>>)>>))),
         Log(Call(Var("f"), <<Arg(I(7))>>)), Log(Var("x"))>>),
  Prog(<<Def("x", I(1)), Def("f", Fn(<< >>, Do(<<Asg("x", Bin("+", Var("x"), I(10))), Asg("x", Bin("*", Var("x"), I(2))),
                                               Asg("x", Bin("-", Var("x"), Bin("-", Var("x"), I(3)))), Var("x")>>))),
         Log(Call(Var("f"), << >>)), Log(Var("x"))>>) >>
S7Params == { <<"s7", k>> : k \in Idx(S7Progs) }

ScopeParams(u) == S7Params \cup S6Params \cup S1Params \cup S2Params \cup S3Params \cup S4Params \cup S5Params \cup A1Params \cup A2Params \cup A3Params \cup A4Params

Build(p) ==
  CASE p[1] = "e6" -> E6Progs[p[2]] [] p[1] = "e7" -> E7Progs[p[2]] [] p[1] = "e5" -> E5Build(p) [] p[1] = "e4" -> E4Build(p) [] p[1] = "e1" -> E1Build(p) [] p[1] = "e2" -> E2Build(p) [] p[1] = "e3" -> E3Build(p)
    [] p[1] = "l1" -> L1Build(p) [] p[1] = "l0" -> L0Build(p) [] p[1] = "l2" -> L2Build(p)
    [] p[1] = "l3" -> L3Progs[p[2]] [] p[1] = "w1" -> W1Build(p) [] p[1] = "if" -> IfBuild(p)
    [] p[1] = "c2" -> C2Build(p) [] p[1] = "l4" -> L4Build(p) [] p[1] = "l5" -> L5Progs[p[2]]
    [] p[1] = "s6" -> S6Progs[p[2]] [] p[1] = "s7" -> S7Progs[p[2]]
    [] p[1] = "cp" -> CpBuild(p) [] p[1] = "mc" -> McBuild(p)
    [] p[1] = "s1" -> S1Build(p) [] p[1] = "s2" -> S2Build(p) [] p[1] = "s3" -> S3Build(p)
    [] p[1] = "s4" -> S4Build(p) [] p[1] = "s5" -> S5Build(p)
    [] p[1] = "a1" -> A1Build(p) [] p[1] = "a2" -> A2Build(p) [] p[1] = "a3" -> A3Build(p) [] p[1] = "a4" -> A4Build(p)
=============================================================================
