---------------------------- MODULE Order_Trace ----------------------------
(* C12, binding B: observations recorded from the interpreter.  One line per
   distinct observation of a template: the model program the template
   instantiates, the content of the set/map it was run on (ranks of the
   elements), what the run showed (the same ranks, in the order they appeared
   in the output) and how many runs (hash seeds x construction orders) showed
   exactly that.  A line is accepted iff the observation is the one the model
   computes with every enumeration sorted; other lines are listed (@@BAD@@)
   and validation goes on.

   Lines with prog = "@rng" are sequences of seeded random numbers: the seed
   handed to set_seed, the draws (<<a, b>>: an int in [a, b); <<0, 0>>: the
   decimal form, recorded as its numerator over 233280) and the numbers the
   interpreter printed; accepted iff they are the numbers of the generator
   of OrderOps (RngDraws). *)
EXTENDS OrderOps, Json, IOUtils

Trace == ndJsonDeserialize(IOEnv.TRACE_FILE)

VARIABLES l, runs
vars == <<l, runs>>

Ev == Trace[l]
Bad(want) == PrintT("@@BAD@@" \o ToJson([l |-> l, want |-> want]))
Known(id) == \E i \in 1..Len(Programs) : Programs[i].id = id

Init == l = 1 /\ runs = 0

Step ==
  /\ l <= Len(Trace)
  /\ l' = l + 1
  /\ runs' = runs + Ev.n
  /\ IF Ev.prog = "@rng"
     THEN (LET want == RngDraws(Ev.seed, Ev.draws)
           IN  Ev.obs = want \/ Bad(want))
     ELSE IF Known(Ev.prog)
     THEN (LET want == RefEval(Programs[ProgIdx(Ev.prog)].stages, ToSet(Ev.elems))
           IN  Ev.obs = want \/ Bad(want))
     ELSE Bad(<<-2>>)
  /\ (l = Len(Trace) => PrintT("@@DONE@@" \o ToJson([n |-> l, runs |-> runs'])))

Spec == Init /\ [][Step]_vars

Accepted == TLCGet("stats").diameter - 1 = Len(Trace)
=============================================================================
