CONSTANTS
  Chunks <- K5
  MaxChunks = 5
  Structured = FALSE
  Export = TRUE
  StampAtEmission = FALSE
SPECIFICATION Spec
INVARIANT TypeOK
INVARIANT LineIsStartLine
INVARIANT StartsOrdered
INVARIANT ExportRuns
CHECK_DEADLOCK FALSE
