CONSTANTS
  Chunks <- STRUCT
  MaxChunks = 4
  Structured = TRUE
  Export = TRUE
  StampAtEmission = FALSE
SPECIFICATION Spec
INVARIANT TypeOK
INVARIANT LineIsStartLine
INVARIANT StartsOrdered
INVARIANT SameSignature
INVARIANT ExportRuns
INVARIANT ExportChunks
CHECK_DEADLOCK FALSE
