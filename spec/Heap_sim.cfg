CONSTANTS
  MaxRefs = 4
  MaxLen = 4
  MaxDepth = 99
  Export = TRUE
  Variants = TRUE
SPECIFICATION Spec
INVARIANT TypeOK
INVARIANT AliasesAgree
PROPERTY PureLeavesHeap
PROPERTY MutatorTouchesOnlyTarget
PROPERTY FreshResultsIndependent
CHECK_DEADLOCK FALSE
