CONSTANTS
  A3 = {1, 3, 4, 5, 6, 10, 11, 15, 19, 20, 21}
SPECIFICATION Spec
INVARIANT TypeOK
INVARIANT NotStuck
INVARIANT Export
CHECK_DEADLOCK FALSE
