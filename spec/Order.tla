------------------------------- MODULE Order -------------------------------
(* C12 - the model of enumeration sites.

   A collection is built element by element (Add: the host container appends
   in its own way; Reorder: a rehash, another hash seed or another
   construction order gives any other internal order - seed, process and
   construction order are ordinary nondeterminism here).  Then a program (a
   pipeline of stages from OrderOps!Programs) runs over it: EnumStep is an
   enumeration site of the interpreter and uses the sorted or the raw order as
   the table Site says, BuildStep collects a sequence into a new set/map whose
   internal order is again arbitrary, PureStep is take/sort/sum/len.

   OrderIndependence: whatever `ord` was chosen anywhere, the terminal
   observation equals the one computed with every enumeration sorted.
   With Site = AllSorted (what the property states) TLC proves it for all
   permutations of <= N elements; with a raw site whose order reaches the
   observable TLC finds the permutation (ReportVary lists them all). *)
EXTENDS OrderOps, Json, IOUtils

CONSTANTS N,        \* elements 1..N
          Site      \* site -> "sorted" | "raw"

SiteSpec     == AllSorted
SiteObserved == LET t == JsonDeserialize(IOEnv.SITE_FILE) IN [s \in Sites |-> t[s]]

VARIABLES prog,     \* index into Programs
          pc,       \* 0 = the collection is under construction, k = stage k is next
          cur,      \* the value flowing through the program
          base      \* the collection the program started from
vars == <<prog, pc, cur, base>>

Stages == Programs[prog].stages
Done   == pc = Len(Stages) + 1

Init == /\ prog \in 1..Len(Programs)
        /\ pc = 0
        /\ cur = Coll({}, << >>)
        /\ base = Coll({}, << >>)

Add(e) == /\ pc = 0 /\ e \notin cur.elems
          /\ cur' = Coll(cur.elems \cup {e}, Append(cur.ord, e))
          /\ UNCHANGED <<prog, pc, base>>

Reorder == /\ pc = 0
           /\ \E p \in Perms(cur.elems) : p # cur.ord /\ cur' = Coll(cur.elems, p)
           /\ UNCHANGED <<prog, pc, base>>

Start == /\ pc = 0 /\ cur.elems # {}
         /\ pc' = 1 /\ base' = cur
         /\ UNCHANGED <<prog, cur>>

EnumStep == /\ pc \in 1..Len(Stages) /\ Stages[pc].k = "enum"
            /\ cur' = Apply(Stages[pc], cur, Site, << >>)
            /\ pc' = pc + 1
            /\ UNCHANGED <<prog, base>>

BuildStep == /\ pc \in 1..Len(Stages) /\ Stages[pc].k = "build"
             /\ \E p \in Perms(ToSet(cur.seq)) : cur' = Apply(Stages[pc], cur, Site, p)
             /\ pc' = pc + 1
             /\ UNCHANGED <<prog, base>>

PureStep == /\ pc \in 1..Len(Stages) /\ Stages[pc].k \notin {"enum", "build"}
            /\ cur' = Apply(Stages[pc], cur, Site, << >>)
            /\ pc' = pc + 1
            /\ UNCHANGED <<prog, base>>

Next == \/ \E e \in 1..N : Add(e)
        \/ Reorder \/ Start \/ EnumStep \/ BuildStep \/ PureStep

Spec == Init /\ [][Next]_vars

-----------------------------------------------------------------------------
IsPerm(q, S) == Len(q) = Cardinality(S) /\ ToSet(q) = S

TypeOK == /\ prog \in 1..Len(Programs)
          /\ pc \in 0..(Len(Stages) + 1)
          /\ cur.t \in {"coll", "seq"}
          /\ cur.t = "coll" => IsPerm(cur.ord, cur.elems) /\ cur.elems \subseteq 1..N
          /\ IsPerm(base.ord, base.elems)
          /\ \A i \in 1..Len(Programs) : SitesOfProg(i) \subseteq Sites

(* the sorted enumeration is an enumeration: a permutation of the content *)
SortedIsEnumeration ==
  cur.t = "coll" => /\ IsPerm(EnumSorted(cur), cur.elems)
                    /\ \A i, j \in 1..Len(EnumSorted(cur)) : i < j => EnumSorted(cur)[i] < EnumSorted(cur)[j]

(* the property *)
OrderIndependence == Done => cur.seq = RefEval(Stages, base.elems)

(* every (program, internal order) whose observation differs from the sorted one *)
ReportVary ==
  (Done /\ cur.seq # RefEval(Stages, base.elems)) =>
     PrintT("@@VARY@@" \o ToJson([prog |-> Programs[prog].id, ord |-> base.ord,
                                  obs |-> cur.seq, sorted |-> RefEval(Stages, base.elems)]))

(* the program only moves forward, the content of the base never changes *)
Forward == [][pc' >= pc /\ (pc > 0 => base' = base)]_vars

(* the program table, for the harness (evaluated once) *)
ASSUME PrintT("@@PROGS@@" \o ToJson(
         [i \in 1..Len(Programs) |->
            [id |-> Programs[i].id,
             sites |-> SetToSeq(SitesOfProg(i)),
             stages |-> [j \in 1..Len(Programs[i].stages) |-> Programs[i].stages[j].k],
             ref4 |-> RefEval(Programs[i].stages, 1..4)]]))
=============================================================================
