------------------------------- MODULE Order -------------------------------
(* C12 - the model of enumeration sites.

   A collection is built element by element (Add: the host container appends
   in its own way; Reorder: a rehash, another hash seed or another
   construction order gives any other internal order - seed, process and
   construction order are ordinary nondeterminism here).  Then a program (a
   pipeline of stages from OrderOps!Programs) runs over it: EnumStep is an
   enumeration site of the interpreter and uses the sorted or the raw order as
   the table Site says, BuildStep collects a sequence into a new set/map whose
   internal order is again arbitrary, PureStep is take/sort/sum/len.

   OrderIndependence: whatever `ord` was chosen anywhere, the terminal
   observation equals the one computed with every enumeration sorted.
   With Site = AllSorted (what the property states) TLC proves it for all
   permutations of <= N elements; with a raw site whose order reaches the
   observable TLC finds the permutation (ReportVary lists them all).

   The elements are Plain plain ones (1..Plain: each with a rendering of its
   own) and Alike ones that render alike (AlikeBase+1 ..: anonymous functions,
   objects differing in hidden members ...).  With Site = ByRender (every site
   sorts, but by the renderings alone) a collection holding two alike elements
   shows its internal order at every sorting site: TLC lists the programs.

   Round 4: the table value "rawbig" (OrderOps!RawAt): a site that walks the
   host container only when the collection has more than BigAbove members.
   With Site = AllRawBig (Order_bigraw.cfg) collections of <= BigAbove members
   show nothing (SmallBlind) and the larger ones show their internal order in
   the same programs as with AllRaw.

   Round 5: TwinStep (OrderOps!Twin): the collection meets an equal one built
   elsewhere inside one outer set; OneMember: they are one member there.
   Sites names.*: the symbols of a module, an import list, ls(), an object. *)
EXTENDS OrderOps, Json, IOUtils

CONSTANTS N,        \* a collection holds at most N elements
          Plain,    \* elements 1..Plain
          Near,     \* NearBase+1 .. NearBase+Near (near-duplicate strings: consecutive pairs fold alike)
          Alike,    \* and AlikeBase+1 .. AlikeBase+Alike
          Site      \* site -> "sorted" | "raw", "relation" -> "total" | "render", "strings" -> "exact" | "folded"

Elems == (1..Plain) \cup ((NearBase + 1)..(NearBase + Near)) \cup ((AlikeBase + 1)..(AlikeBase + Alike))

SiteSpec     == AllSorted
SiteByRender == ByRender
SiteByFold   == ByFold
SiteAllRaw   == AllRaw
SiteRawBig   == AllRawBig
SiteObserved == LET t == JsonDeserialize(IOEnv.SITE_FILE) IN [s \in TabKeys |-> t[s]]

VARIABLES prog,     \* index into Programs (0 while the collection is under construction)
          pc,       \* 0 = the collection is under construction, k = stage k is next
          cur,      \* the value flowing through the program
          base      \* the collection the program started from
vars == <<prog, pc, cur, base>>

Stages == IF prog = 0 THEN << >> ELSE Programs[prog].stages
Done   == prog # 0 /\ pc = Len(Stages) + 1

Init == /\ prog = 0
        /\ pc = 0
        /\ cur = Coll({}, << >>)
        /\ base = Coll({}, << >>)

Add(e) == /\ pc = 0 /\ e \notin cur.elems /\ Cardinality(cur.elems) < N
          /\ cur' = Coll(cur.elems \cup {e}, Append(cur.ord, e))
          /\ UNCHANGED <<prog, pc, base>>

Reorder == /\ pc = 0
           /\ \E p \in Perms(cur.elems) : p # cur.ord /\ cur' = Coll(cur.elems, p)
           /\ UNCHANGED <<prog, pc, base>>

Start == /\ pc = 0 /\ cur.elems # {}          \* the program is chosen when the collection is complete
         /\ prog' \in 1..Len(Programs)
         /\ pc' = 1 /\ base' = cur
         /\ UNCHANGED cur

EnumStep == /\ pc \in 1..Len(Stages) /\ Stages[pc].k = "enum"
            /\ cur' = Apply(Stages[pc], cur, Site, << >>)
            /\ pc' = pc + 1
            /\ UNCHANGED <<prog, base>>

BuildStep == /\ pc \in 1..Len(Stages) /\ Stages[pc].k = "build"
             /\ \E p \in Perms(ToSet(cur.seq)) : cur' = Apply(Stages[pc], cur, Site, p)
             /\ pc' = pc + 1
             /\ UNCHANGED <<prog, base>>

(* round 5: an equal collection is built somewhere else - its internal order is arbitrary, too - and both are put
   into one outer set (used as keys of one map) *)
TwinStep == /\ pc \in 1..Len(Stages) /\ Stages[pc].k = "twin" /\ cur.t = "coll"
            /\ \E p \in Perms(cur.elems) : cur' = Apply(Stages[pc], cur, Site, p)
            /\ pc' = pc + 1
            /\ UNCHANGED <<prog, base>>

PureStep == /\ pc \in 1..Len(Stages) /\ Stages[pc].k \notin {"enum", "build", "twin"}
            /\ cur' = Apply(Stages[pc], cur, Site, << >>)
            /\ pc' = pc + 1
            /\ UNCHANGED <<prog, base>>

Next == \/ \E e \in Elems : Add(e)
        \/ Reorder \/ Start \/ EnumStep \/ BuildStep \/ TwinStep \/ PureStep

Spec == Init /\ [][Next]_vars

-----------------------------------------------------------------------------
IsPerm(q, S) == Len(q) = Cardinality(S) /\ ToSet(q) = S

TypeOK == /\ prog \in 0..Len(Programs) /\ (prog = 0 <=> pc = 0)
          /\ pc \in 0..(Len(Stages) + 1)
          /\ cur.t \in {"coll", "seq"}
          /\ cur.t = "coll" => /\ IsPerm(cur.ord, cur.elems) /\ Cardinality(cur.elems) <= N
                                /\ (pc = 0 => cur.elems \subseteq Elems)
          /\ IsPerm(base.ord, base.elems) /\ base.elems \subseteq Elems

(* constant-level facts, checked once (ASSUME) rather than in every state *)
TablesOK == /\ \A i \in 1..Len(Programs) : SitesOfProg(i) \subseteq Sites
            /\ \A e \in Elems : /\ IsAlike(e) <=> e > AlikeBase
                                /\ IsNear(e) <=> (e > Plain /\ e <= AlikeBase)

(* the two relations: Lt is a strict total order on the elements, LtKey is the
   same order with exactly the alike elements tied *)
RelationsOK ==
  \A x \in Elems, y \in Elems :
     /\ (x # y => (Lt(x, y) \/ Lt(y, x))) /\ ~(Lt(x, y) /\ Lt(y, x))
     /\ LtKey(x, y) => Lt(x, y)
     /\ (x # y /\ ~LtKey(x, y) /\ ~LtKey(y, x)) <=> (x # y /\ IsAlike(x) /\ IsAlike(y))
     /\ LtFold(x, y) => Lt(x, y)
     /\ (x # y /\ ~LtFold(x, y) /\ ~LtFold(y, x)) => (IsNear(x) /\ IsNear(y))

(* a stable sort by the renderings is a permutation, is sorted by key, and is
   the total sort when no two members tie *)
StableSortOK ==
  cur.t = "coll" =>
    LET q == StableByKey(cur.ord) IN
    /\ IsPerm(q, cur.elems)
    /\ \A i, j \in 1..Len(q) : i < j => ~LtKey(q[j], q[i])
    /\ \A i, j \in 1..Len(q) : (i < j /\ Key(q[i]) = Key(q[j])) =>
          \E a, b \in 1..Len(cur.ord) : a < b /\ cur.ord[a] = q[i] /\ cur.ord[b] = q[j]
    /\ Cardinality({e \in cur.elems : IsAlike(e)}) <= 1 => q = EnumSorted(cur)
    /\ LET f == StableByFold(cur.ord) IN
       /\ IsPerm(f, cur.elems)
       /\ \A i, j \in 1..Len(f) : i < j => ~LtFold(f[j], f[i])
       /\ (\A x, y \in cur.elems : x # y => FoldKey(x) # FoldKey(y)) => f = EnumSorted(cur)

(* the sorted enumeration is an enumeration: a permutation of the content *)
SortedIsEnumeration ==
  cur.t = "coll" => /\ IsPerm(EnumSorted(cur), cur.elems)
                    /\ \A i, j \in 1..Len(EnumSorted(cur)) : i < j => EnumSorted(cur)[i] < EnumSorted(cur)[j]

(* the property *)
OrderIndependence == Done => cur.seq = RefEval(Stages, base.elems)

(* round 5: equal collections are ONE member of a set / ONE key of a map, whatever their internal orders (a
   consequence of OrderIndependence, stated on its own: the reference value of a Twin stage is 1) *)
OneMember == (Done /\ Stages[Len(Stages)].k = "twin") => cur.seq = <<1>>

(* round 4: a site that switches to the raw walk only above a size threshold shows nothing on collections up to
   that size - with Site = AllRawBig (Order_bigraw.cfg) this holds and ReportVary lists what the big ones show;
   it is why the harness needs collections larger than any plausible threshold, not only the pools of <= 9 *)
SmallBlind == (Done /\ Cardinality(base.elems) <= BigAbove) => cur.seq = RefEval(Stages, base.elems)
BigOnly    == (Done /\ cur.seq # RefEval(Stages, base.elems)) => IsBig(base)

(* every (program, internal order) whose observation differs from the sorted one *)
ReportVary ==
  (Done /\ cur.seq # RefEval(Stages, base.elems)) =>
     PrintT("@@VARY@@" \o ToJson([prog |-> Programs[prog].id, ord |-> base.ord,
                                  obs |-> cur.seq, sorted |-> RefEval(Stages, base.elems)]))

(* the program only moves forward, the content of the base never changes *)
Forward == [][pc' >= pc /\ (pc > 0 => (base' = base /\ prog' = prog))]_vars

ASSUME TablesOK
ASSUME RelationsOK

(* the table is well formed (evaluated once) *)
ASSUME LET t == Site IN /\ DOMAIN t = TabKeys
                        /\ t["relation"] \in {"total", "render"}
                        /\ t["strings"] \in {"exact", "folded"}
                        /\ \A s \in Sites : t[s] \in {"sorted", "raw", "rawbig"}

(* the program table, for the harness (evaluated once) *)
ASSUME PrintT("@@PROGS@@" \o ToJson(
         [i \in 1..Len(Programs) |->
            [id |-> Programs[i].id,
             sites |-> SetToSeq(SitesOfProg(i)),
             stages |-> [j \in 1..Len(Programs[i].stages) |-> Programs[i].stages[j].k],
             ref4 |-> RefEval(Programs[i].stages, {1, 2, AlikeBase + 1, AlikeBase + 2})]]))
=============================================================================
