\* C10 round 5: two interpreters that differ BELOW the session - i1 is not in
\* secure mode, a program reassigns a base-level function - and bundled modules
\* (List, IO) whose behaviour depends on the base environment they hang under;
\* the doc string of a definition of i1 asked for in i2
CONSTANTS
  Interps = {"i1", "i2"}
  UnwindOnFailure = TRUE
  DetachCallerEnv = TRUE
  Mode = "c10"
  ModSeq <- Mods2
  MaxOut = 0
  GenRot = TRUE
  GenBack = "all"
  GenSorted = FALSE
  MaxCtr = 1
  LoadCap = 1
  MaxReq = 0
  CmdsOf <- C10Base
  Insecure <- Insec1
  Preloaded <- Pre5
  Export = TRUE
SPECIFICATION Spec
INVARIANT TypeOK
INVARIANT StackEmptyBetweenCalls
INVARIANT FailIsIdempotent
INVARIANT FailLeavesNoResidue
INVARIANT CallerEnvDetached
INVARIANT SessionsIsolated
INVARIANT LoadOnce
INVARIANT ModuleScopeIsBase
INVARIANT ModulesFromOwnDirectory
INVARIANT SingleInstance
INVARIANT CycleIsError
INVARIANT ExportState
PROPERTY DefsPersist
PROPERTY Isolation
PROPERTY LoadOnlyInLoadStep
PROPERTY BindsExactly
PROPERTY FailedDefinerDefinesNothing
PROPERTY MissingOnlyIfAbsent
PROPERTY WorldTouchesNoInterpreter
PROPERTY BaseIsOwn
PROPERTY Terminates
CHECK_DEADLOCK FALSE
