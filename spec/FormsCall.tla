------------------------------ MODULE FormsCall ------------------------------
(* C13 round 3 - the model of argument binding.

   The machine picks a signature (PickSig), writes a call of at most MaxArgs
   arguments (AddArg, Close) and then binds it the way values.py
   Args.setArgs does, in two passes over the arguments:
     pass 1 (NameStep)  every named argument is stored under its name; a name
                        the function lacks ends the call with an error;
     pass 2 (WalkStep)  the arguments are walked again: a positional one goes
                        to the first parameter that holds nothing yet (never
                        to one a name has filled), to the rest list when there
                        is no such parameter, or is the error "too many"; a
                        positional one after a named one is an error; a named
                        one is stored again.
   Invariants: the two-pass mechanism computes exactly the reference
   semantics of FormsCallOps (Agrees); every call is decided (Total); in a
   call that binds, no argument is lost or used twice unless a later argument
   names the same parameter (Placed).

   Every decided call is exported.  The harness (a) executes each of them on a
   probe function and Natives_Trace compares what the parameters held with
   CallObserved (binding of this model to Args.setArgs), and (b) takes the
   calls marked `skips` - the canonical call for every set of parameters the
   positional sweep cannot reach - as the shapes in which every function of
   the live environments is called with pool tuples.                         *)
EXTENDS FormsCallOps, TLC, Json

CONSTANTS MaxParams, MaxArgs

VARIABLES pc,      \* "sig" | "call" | "pass1" | "pass2" | "done"
          n, rest, \* the signature
          call,    \* the binders written so far
          i,       \* cursor of the pass
          held,    \* parameter -> index of the argument it holds, 0 = nothing
          extra,   \* the arguments the rest parameter took
          inKw,    \* pass 2 has met a named argument
          err      \* "" | "unknown" | "order" | "toomany"
vars == <<pc, n, rest, call, i, held, extra, inKw, err>>

Init == /\ pc = "sig" /\ n = 0 /\ rest = FALSE /\ call = << >> /\ i = 0
        /\ held = << >> /\ extra = << >> /\ inKw = FALSE /\ err = ""

PickSig(k, r) == /\ pc = "sig"
                 /\ n' = k /\ rest' = r /\ held' = [p \in 1..k |-> 0]
                 /\ pc' = "call"
                 /\ UNCHANGED <<call, i, extra, inKw, err>>

AddArg(b) == /\ pc = "call" /\ Len(call) < MaxArgs /\ b \in 0..(n + 1)
             /\ call' = Append(call, b)
             /\ UNCHANGED <<pc, n, rest, i, held, extra, inKw, err>>

Close == /\ pc = "call"
         /\ pc' = "pass1" /\ i' = 1
         /\ UNCHANGED <<n, rest, call, held, extra, inKw, err>>

Fail(e) == err' = e /\ pc' = "done" /\ UNCHANGED <<n, rest, call, i, held, extra, inKw>>

NameStep == /\ pc = "pass1"
            /\ IF i > Len(call)
               THEN (pc' = "pass2" /\ i' = 1 /\ UNCHANGED <<n, rest, call, held, extra, inKw, err>>)
               ELSE IF call[i] = 0
               THEN (i' = i + 1 /\ UNCHANGED <<pc, n, rest, call, held, extra, inKw, err>>)
               ELSE IF call[i] = n + 1
               THEN Fail("unknown")
               ELSE (held' = [held EXCEPT ![call[i]] = i] /\ i' = i + 1
                     /\ UNCHANGED <<pc, n, rest, call, extra, inKw, err>>)

NextFree == {p \in 1..n : held[p] = 0}

WalkStep == /\ pc = "pass2"
            /\ IF i > Len(call)
               THEN (pc' = "done" /\ UNCHANGED <<n, rest, call, i, held, extra, inKw, err>>)
               ELSE IF call[i] = 0
               THEN (IF inKw THEN Fail("order")
                     ELSE IF NextFree = {}
                     THEN (IF rest
                           THEN (extra' = Append(extra, i) /\ i' = i + 1
                                 /\ UNCHANGED <<pc, n, rest, call, held, inKw, err>>)
                           ELSE Fail("toomany"))
                     ELSE (held' = [held EXCEPT ![CallNth(NextFree, 1)] = i] /\ i' = i + 1
                           /\ UNCHANGED <<pc, n, rest, call, extra, inKw, err>>))
               ELSE (inKw' = TRUE /\ held' = [held EXCEPT ![call[i]] = i] /\ i' = i + 1
                     /\ UNCHANGED <<pc, n, rest, call, extra, err>>)

Next == \/ \E k \in 0..MaxParams, r \in BOOLEAN : PickSig(k, r)
        \/ \E b \in 0..(MaxParams + 1) : AddArg(b)
        \/ Close \/ NameStep \/ WalkStep

Spec == Init /\ [][Next]_vars

-----------------------------------------------------------------------------
TypeOK == /\ pc \in {"sig", "call", "pass1", "pass2", "done"}
          /\ n \in 0..MaxParams /\ rest \in BOOLEAN
          /\ Len(call) <= MaxArgs
          /\ err \in {"", "unknown", "order", "toomany"}

Done == pc = "done"

\* the mechanism and the reference semantics agree
Agrees == Done => /\ err = CallErr(n, rest, call)
                  /\ (err = "" => held = CallBound(n, call) /\ extra = CallRest(n, call))

\* every call is decided: it binds or it is one of the three errors (no fourth way out)
Total == Done => (err = "") \/ (err \in {"unknown", "order", "toomany"})

\* a call that binds places every argument: on a parameter, in the rest list, or it is
\* overridden by a later argument with the same name - and no argument is in two places
Placed == (Done /\ err = "") =>
  /\ \A j \in 1..Len(call) :
       \/ \E p \in 1..n : held[p] = j
       \/ \E x \in 1..Len(extra) : extra[x] = j
       \/ (call[j] > 0 /\ \E h \in (j + 1)..Len(call) : call[h] = call[j])
  /\ \A p, q \in 1..n : (held[p] # 0 /\ held[p] = held[q]) => p = q
  /\ \A p \in 1..n, x \in 1..Len(extra) : held[p] # extra[x]
  /\ \A p \in CallNamedParams(call) : call[held[p]] = p      \* a name wins over a position

\* a canonical call binds (it is never one of the errors) and binds exactly the set it stands for
CanonBinds == (Done /\ CallCanon(n, call)) =>
  /\ err = ""
  /\ {p \in 1..n : held[p] # 0} = (1..Cardinality(CallPos(call))) \cup CallNamedParams(call)

Export == Done =>
  PrintT("@@SHAPE@@" \o ToJson([n |-> n, rest |-> rest, call |-> call, err |-> err,
                                obs |-> IF err = "" THEN CallObserved(n, rest, call) ELSE << >>,
                                canon |-> CallCanon(n, call), skips |-> CallSkips(n, call)]))
=============================================================================
