CONSTANTS
  Depth = 3
  Wide = FALSE
  Thin = 3
  Export = TRUE
SPECIFICATION Spec
INVARIANT TypeOK
INVARIANT CurIsDate
INVARIANT ExportHist
PROPERTY ZoneBlind
PROPERTY BystandersKeep
PROPERTY ArithMoves
CHECK_DEADLOCK FALSE
