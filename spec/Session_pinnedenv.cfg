\* C10 with the deviation switch mirroring the pinned interpret(): the root of
\* a caller's environment chain is hung under the session and never detached.
\* TLC must find the counterexample (two interpreters, the caller keeps one
\* environment and uses it again).
CONSTANTS
  Interps = {"i1", "i2"}
  UnwindOnFailure = TRUE
  DetachCallerEnv = FALSE
  Mode = "c10"
  ModSeq <- Mods2
  MaxOut = 0
  GenRot = TRUE
  GenBack = "all"
  GenSorted = FALSE
  MaxCtr = 1
  LoadCap = 1
  MaxReq = 0
  CmdsOf <- C10Env2
  Export = FALSE
SPECIFICATION Spec
INVARIANT SessionsIsolated
CHECK_DEADLOCK FALSE
