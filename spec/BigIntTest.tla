--------------------------- MODULE BigIntTest ---------------------------
(* Model-checks BigInt.tla against TLC's native integer arithmetic.
   Every pair (a, b) of the small domain -Span..Span and of a grid of one-
   to three-limb values is an initial state; the invariants compare each limb
   operator with the native operator.  Identities on multi-limb values
   (2^80, 10^20, 2^63 +- 1 ...) that native arithmetic cannot reach are
   checked as well (BigLaws). *)
EXTENDS BigInt, TLC

CONSTANTS Span

VARIABLES a, b, ph      \* ph = 0: only a chosen (so that the pairs are
vars == <<a, b, ph>>    \* expanded by all workers), ph = 1: pair complete

Grid0 == {0, 1, 2, 7, 9999, 10000, 10001, 65535, 99999999, 100000000,
          123456789, 999999999, 1000000000}
Grid == Grid0 \cup {-x : x \in Grid0}
Small == (-Span)..Span

Init == a \in Small \cup Grid /\ b = 0 /\ ph = 0
Pick == ph = 0 /\ ph' = 1 /\ a' = a /\ b' \in Small \cup Grid
Next == Pick
Spec == Init /\ [][Next]_vars

NAbs(n) == IF n < 0 THEN -n ELSE n
NSgn(n) == IF n < 0 THEN -1 ELSE IF n > 0 THEN 1 ELSE 0
NTruncDiv(x, y) == NSgn(x) * NSgn(y) * (NAbs(x) \div NAbs(y))
NTruncMod(x, y) == x - y * NTruncDiv(x, y)
NFloorMod(x, y) == LET r == NTruncMod(x, y) IN IF r # 0 /\ NSgn(r) # NSgn(y) THEN r + y ELSE r
NFloorDiv(x, y) == NTruncDiv(x - NFloorMod(x, y), y)
RECURSIVE NGcd(_, _)
NGcd(x, y) == IF y = 0 THEN NAbs(x) ELSE NGcd(y, NAbs(x) % NAbs(y))
RECURSIVE NPow(_, _)
NPow(x, k) == IF k = 0 THEN 1 ELSE x * NPow(x, k - 1)

A == FromInt(a)
B == FromInt(b)

Repr_ == /\ IsBigInt(A) /\ IsBigInt(B)
         /\ ToInt(A) = a /\ ToInt(B) = b
         /\ (A = B) <=> (a = b)

Order_ == /\ Cmp(A, B) = (IF a < b THEN -1 ELSE IF a > b THEN 1 ELSE 0)
          /\ Less(A, B) <=> a < b
          /\ Leq(A, B) <=> a <= b
          /\ Sign(A) = NSgn(a)
          /\ Neg(A) = FromInt(-a)
          /\ Abs(A) = FromInt(NAbs(a))

AddSub_ == /\ Add(A, B) = FromInt(a + b)
           /\ Sub(A, B) = FromInt(a - b)
           /\ IsBigInt(Add(A, B)) /\ IsBigInt(Sub(A, B))

Fits(x, y) == NAbs(x) <= 46000 /\ NAbs(y) <= 46000
Product_ == /\ Fits(a, b) => Mul(A, B) = FromInt(a * b) /\ IsBigInt(Mul(A, B))
            /\ (NAbs(b) <= 9999 /\ NAbs(a) <= 200000) => MulSmall(A, b) = FromInt(a * b)
            \* products beyond 32 bits: checked through division
            /\ b # 0 => TruncDiv(Mul(A, B), B) = A /\ TruncMod(Mul(A, B), B) = Zero

Division_ ==
  b # 0 =>
    /\ TruncDiv(A, B) = FromInt(NTruncDiv(a, b))
    /\ TruncMod(A, B) = FromInt(NTruncMod(a, b))
    /\ FloorMod(A, B) = FromInt(NFloorMod(a, b))
    /\ FloorDiv(A, B) = FromInt(NFloorDiv(a, b))
    /\ Add(Mul(FloorDiv(A, B), B), FloorMod(A, B)) = A
    /\ b > 0 => FloorDiv(A, B) = FromInt(a \div b) /\ FloorMod(A, B) = FromInt(a % b)
    /\ IsTruncDiv(A, B, FromInt(NTruncDiv(a, b)))
    /\ ~IsTruncDiv(A, B, FromInt(NTruncDiv(a, b) + 1))
    /\ ~IsTruncDiv(A, B, FromInt(NTruncDiv(a, b) - 1))
    /\ IsMod(A, B, FromInt(NTruncMod(a, b)))
    /\ IsMod(A, B, FromInt(NFloorMod(a, b)))
    /\ ~IsMod(A, B, FromInt(NTruncMod(a, b) + 1)) \/ NAbs(b) = 1
    /\ Divides(B, A) <=> (NTruncMod(a, b) = 0)
    /\ (0 < b /\ b <= 9999) =>
          /\ DivModSmall(A, b).q = FromInt(NTruncDiv(a, b))
          /\ DivModSmall(A, b).r = NTruncMod(a, b)

\* the characterisation: on the small domain exactly one q satisfies IsTruncDiv
TruncDivChar_ ==
  (b # 0 /\ a \in Small /\ b \in Small) =>
     \A q \in (-Span - 1)..(Span + 1) : IsTruncDiv(A, B, FromInt(q)) <=> (q = NTruncDiv(a, b))

GcdLcm_ ==
  /\ Gcd(A, B) = FromInt(NGcd(a, b))
  /\ IsGcd(A, B, FromInt(NGcd(a, b)))
  /\ NGcd(a, b) # 1 => ~IsGcd(A, B, One)
  /\ Mul(Lcm(A, B), Gcd(A, B)) = Abs(Mul(A, B))
  /\ (a # 0 /\ b # 0 /\ Fits(a, b)) => Lcm(A, B) = FromInt(NAbs(a * b) \div NGcd(a, b))

Power_ == (a \in Small /\ b \in 0..4) => Pow(A, b) = FromInt(NPow(a, b))

-----------------------------------------------------------------------------
(* Multi-limb identities, independent of native arithmetic. *)
P80  == Pow(FromInt(2), 80)
T20  == Pow(FromInt(10), 20)
P63  == Pow(FromInt(2), 63)
Bigs == {P80, Add(P80, FromInt(3)), T20, Sub(P63, One), Add(P63, One),
         Neg(P80), Neg(T20), Mul(P80, P63), FromInt(999999999), FromInt(-10000)}

BigLaws ==
  /\ P80 = [sg |-> 1, mag |-> <<6176, 7470, 6291, 9614, 2581, 2089, 1>>]
  /\ T20 = [sg |-> 1, mag |-> <<0, 0, 0, 0, 0, 1>>]
  /\ TruncDiv(T20, FromInt(3)) = [sg |-> 1, mag |-> <<3333, 3333, 3333, 3333, 3333>>]
  /\ ~IsTruncDiv(T20, FromInt(3), [sg |-> 1, mag |-> <<1968, 3333, 3333, 3333, 3333>>])
  /\ Pow(FromInt(3), 40) = [sg |-> 1, mag |-> <<8801, 5692, 4590, 7665, 1215>>]
  /\ \A x \in Bigs, y \in Bigs :
       /\ IsBigInt(Add(x, y)) /\ IsBigInt(Mul(x, y))
       /\ Sub(Add(x, y), y) = x
       /\ Add(x, y) = Add(y, x) /\ Mul(x, y) = Mul(y, x)
       /\ TruncDiv(Mul(x, y), y) = x
       /\ TruncMod(Mul(x, y), y) = Zero
       /\ IsTruncDiv(Add(Mul(x, y), FromInt(x.sg * y.sg * 7)), y, x)
       /\ Add(Mul(TruncDiv(x, y), y), TruncMod(x, y)) = x
       /\ Add(Mul(FloorDiv(x, y), y), FloorMod(x, y)) = x
       /\ FloorMod(x, y).sg \in {0, y.sg}
       /\ IsMod(x, y, TruncMod(x, y)) /\ IsMod(x, y, FloorMod(x, y))
       /\ Mul(Lcm(x, y), Gcd(x, y)) = Abs(Mul(x, y))
       /\ IsGcd(x, y, Gcd(x, y))
       /\ \A z \in {FromInt(6), P63} : Gcd(Mul(x, z), Mul(y, z)) = Mul(Gcd(x, y), z)
       /\ (Cmp(x, y) < 0) <=> (Sub(x, y).sg < 0)

BigLawsOnce == (a = 0 /\ b = 0 /\ ph = 0) => BigLaws

On(P) == ph = 1 => P
Repr == On(Repr_)
Order == On(Order_)
AddSub == On(AddSub_)
Product == On(Product_)
Division == On(Division_)
TruncDivChar == On(TruncDivChar_)
GcdLcm == On(GcdLcm_)
Power == On(Power_)
=============================================================================
