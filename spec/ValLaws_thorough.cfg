CONSTANTS
  Tier = 2
  MaxStr = 4
  Export = TRUE
SPECIFICATION Spec
INVARIANT TypeOK
INVARIANT EqReflexive
INVARIANT EqSymmetric
INVARIANT EqTransitive
INVARIANT CrossKindNeverEqual
INVARIANT IntDecNumeric
INVARIANT OrderFree
INVARIANT ListStructural
INVARIANT SetExtensional
INVARIANT Interchangeable
INVARIANT LtIrreflexive
INVARIANT LtAsymmetric
INVARIANT Trichotomy
INVARIANT LtTransitive
INVARIANT LtRespectsEq
INVARIANT NamedOrders
INVARIANT EnumAscending
INVARIANT RenderCanonical
INVARIANT RenderInjective
INVARIANT RenderShape
INVARIANT NoBracketFusion
INVARIANT EscapeRoundTrip
INVARIANT ExportRows
CHECK_DEADLOCK FALSE
