----------------------------- MODULE ExprOps -----------------------------
(* C02 - the expression core of the language: how a token sequence becomes a
   tree (two definitions: the mirror of parser.py's precedence-climbing
   functions, and the reference that splits at the loosest operator according
   to the precedence table of the property statement), and what a tree
   evaluates to (mirror of the add/sub/mul/div/mod/equals/less... natives and
   of NodeAnd/NodeOr/NodeNot/NodeIn restricted to the value kinds below).

   Values are uniformly shaped records  [k, n, d, s]:
     k = "null" | "bool" (n = 0/1) | "int" (n) | "dec" (n/d, d > 0, reduced)
       | "str" (s = code points) | "list" (s = ints) | "err" (runtime error)
       | "skip" (an operand combination this model does not cover)
   Tokens:  [t |-> "val", v |-> value]  |  [t |-> "op", o |-> name]
            | [t |-> "lp"] | [t |-> "rp"]      (uniform: [t, o, v])
   Trees:   [op, args, v]   op = "lit" (v) or an operator name (args).       *)
EXTENDS Integers, Sequences, FiniteSets

V(k, n, d, s) == [k |-> k, n |-> n, d |-> d, s |-> s]
Null     == V("null", 0, 1, << >>)
Bool(b)  == V("bool", IF b THEN 1 ELSE 0, 1, << >>)
IntV(n)   == V("int", n, 1, << >>)
Str(s)   == V("str", 0, 1, s)
List(s)  == V("list", 0, 1, s)
ErrV     == V("err", 0, 1, << >>)
Skip     == V("skip", 0, 1, << >>)

Abs(x) == IF x < 0 THEN -x ELSE x
RECURSIVE GCD(_, _)
GCD(a, b) == IF b = 0 THEN a ELSE GCD(b, a % b)
Dec(n, d) == LET g == GCD(Abs(n), d)  gg == IF g = 0 THEN 1 ELSE g
             IN V("dec", n \div gg, d \div gg, << >>)

IsNum(a) == a.k \in {"int", "dec"}
Atomic(a) == a.k \in {"null", "bool", "int", "dec", "str"}

\* truncation toward zero (TLC's \div floors)
TruncDiv(a, b) == LET q == Abs(a) \div Abs(b) IN IF (a < 0) # (b < 0) THEN -q ELSE q
\* Python's %: result has the sign of the divisor
PyMod(a, b) == a - b * (IF (a % Abs(b) # 0) /\ ((a < 0) # (b < 0))
                        THEN -(Abs(a) \div Abs(b)) - 1
                        ELSE (IF (a < 0) # (b < 0) THEN -(Abs(a) \div Abs(b)) ELSE Abs(a) \div Abs(b)))

RECURSIVE DecDigits(_)
DecDigits(v) == IF v < 10 THEN <<48 + v>> ELSE DecDigits(v \div 10) \o <<48 + (v % 10)>>
IntText(n) == IF n < 0 THEN <<45>> \o DecDigits(-n) ELSE DecDigits(n)
\* asString() of an atomic value, where this model covers it
AsText(a) == CASE a.k = "str" -> a.s
               [] a.k = "int" -> IntText(a.n)
               [] a.k = "bool" -> IF a.n = 1 THEN <<84,82,85,69>> ELSE <<70,65,76,83,69>>
               [] OTHER -> << >>
TextOK(a) == a.k \in {"str", "int", "bool"}

RECURSIVE Repeat(_, _)
Repeat(s, n) == IF n <= 0 THEN << >> ELSE s \o Repeat(s, n - 1)
RECURSIVE Without(_, _)
Without(s, S) == IF s = << >> THEN << >>
                 ELSE IF Head(s) \in S THEN Without(Tail(s), S) ELSE <<Head(s)>> \o Without(Tail(s), S)
Elems(s) == {s[i] : i \in DOMAIN s}

\* ---- the natives (functions.py FuncAdd, FuncSub, FuncMul, FuncDiv, FuncMod)
Add(a, b) ==
  IF a.k = "null" \/ b.k = "null" THEN Null
  ELSE IF a.k = "int" /\ b.k = "int" THEN IntV(a.n + b.n)
  ELSE IF IsNum(a) /\ IsNum(b) THEN Dec(a.n * b.d + b.n * a.d, a.d * b.d)
  ELSE IF a.k = "list" THEN (IF b.k = "list" THEN List(a.s \o b.s)
                             ELSE IF b.k = "int" THEN List(Append(a.s, b.n)) ELSE Skip)
  ELSE IF b.k = "list" THEN (IF a.k = "int" THEN List(<<a.n>> \o b.s) ELSE Skip)
  ELSE IF (a.k = "str" /\ Atomic(b)) \/ (Atomic(a) /\ b.k = "str")
       THEN (IF TextOK(a) /\ TextOK(b) THEN Str(AsText(a) \o AsText(b)) ELSE Skip)
  ELSE ErrV

Sub(a, b) ==
  IF a.k = "list" THEN (IF b.k = "list" THEN List(Without(a.s, Elems(b.s)))
                        ELSE IF b.k = "int" THEN List(Without(a.s, {b.n}))
                        ELSE Skip)     \* (list - NULL is a list operation the statement does not define: not compared)
  ELSE IF a.k = "null" \/ b.k = "null" THEN Null
  ELSE IF a.k = "int" /\ b.k = "int" THEN IntV(a.n - b.n)
  ELSE IF IsNum(a) /\ IsNum(b) THEN Dec(a.n * b.d - b.n * a.d, a.d * b.d)
  ELSE ErrV

Mul(a, b) ==
  IF a.k = "null" \/ b.k = "null" THEN Null
  ELSE IF a.k = "str" /\ b.k = "int" THEN Str(Repeat(a.s, b.n))
  ELSE IF a.k = "list" /\ b.k = "int" THEN List(Repeat(a.s, b.n))
  ELSE IF a.k = "int" /\ b.k = "int" THEN IntV(a.n * b.n)
  ELSE IF IsNum(a) /\ IsNum(b) THEN Dec(a.n * b.n, a.d * b.d)
  ELSE ErrV

Div(a, b) ==
  IF a.k = "null" \/ b.k = "null" THEN Null
  ELSE IF a.k = "int" /\ b.k = "int" THEN (IF b.n = 0 THEN ErrV ELSE IntV(TruncDiv(a.n, b.n)))
  ELSE IF IsNum(a) /\ IsNum(b)
       THEN (IF b.n = 0 THEN ErrV
             ELSE IF b.n > 0 THEN Dec(a.n * b.d, a.d * b.n) ELSE Dec(-(a.n * b.d), a.d * (-b.n)))
  ELSE ErrV

Mod(a, b) ==
  IF a.k = "null" \/ b.k = "null" THEN Null
  ELSE IF a.k = "int" /\ b.k = "int" THEN (IF b.n = 0 THEN ErrV ELSE IntV(PyMod(a.n, b.n)))
  ELSE IF IsNum(a) /\ IsNum(b) THEN (IF b.n = 0 THEN ErrV ELSE Skip)
  ELSE ErrV

\* ---- equality and order (values.py __eq__ / __lt__ as the property states them)
Equal(a, b) ==
  IF IsNum(a) /\ IsNum(b) THEN a.n * b.d = b.n * a.d
  ELSE a.k = b.k /\ a.n = b.n /\ a.s = b.s

RECURSIVE SeqLess(_, _)
SeqLess(x, y) == IF y = << >> THEN FALSE
                 ELSE IF x = << >> THEN TRUE
                 ELSE IF Head(x) # Head(y) THEN Head(x) < Head(y)
                 ELSE SeqLess(Tail(x), Tail(y))

\* "lt" | "eq" | "gt" | "skip" (kinds whose mutual order the property leaves open)
Cmp(a, b) ==
  IF IsNum(a) /\ IsNum(b)
  THEN (IF a.n * b.d < b.n * a.d THEN "lt" ELSE IF a.n * b.d = b.n * a.d THEN "eq" ELSE "gt")
  ELSE IF a.k = b.k /\ a.k \in {"str", "list"}
  THEN (IF a.s = b.s THEN "eq" ELSE IF SeqLess(a.s, b.s) THEN "lt" ELSE "gt")
  ELSE IF a.k = "bool" /\ b.k = "bool"
  THEN (IF a.n = b.n THEN "eq" ELSE IF a.n < b.n THEN "lt" ELSE "gt")
  ELSE IF a.k = "null" /\ b.k = "null" THEN "eq"
  ELSE "skip"

Rel(o, a, b) ==
  IF o \in {"==", "is"} THEN Bool(Equal(a, b))
  ELSE IF o \in {"!=", "<>", "is not"} THEN Bool(~Equal(a, b))
  ELSE LET c == Cmp(a, b) IN
       IF c = "skip" THEN Skip
       ELSE CASE o = "<"  -> Bool(c = "lt")
              [] o = "<=" -> Bool(c # "gt")
              [] o = ">"  -> Bool(c = "gt")
              [] o = ">=" -> Bool(c # "lt")

Occurs(s, t) == \E p \in 0..(Len(s) - Len(t)) : SubSeq(s, p + 1, p + Len(t)) = t
\* NodeIn: list -> any Equal element; string -> substring (FALSE when the
\* needle is not a string); anything else -> FALSE
In(a, c) ==
  IF c.k = "list" THEN Bool(IsNum(a) /\ \E x \in Elems(c.s) : a.n = x * a.d)       \* membership is by equality: 2.0 in [2]
  ELSE IF c.k = "str" THEN Bool(a.k = "str" /\ Occurs(c.s, a.s))
  ELSE Bool(FALSE)

\* ---- trees
Node(op, args) == [op |-> op, args |-> args, v |-> Null]
Lit(v) == [op |-> "lit", args |-> << >>, v |-> v]

BinFn(o) == CASE o = "+" -> "add" [] o = "-" -> "sub" [] o = "*" -> "mul"
              [] o = "/" -> "div" [] o = "%" -> "mod"
              [] o = "<" -> "less" [] o = "<=" -> "less_equals" [] o = ">" -> "greater"
              [] o = ">=" -> "greater_equals" [] o \in {"==", "is"} -> "equals"
              [] o \in {"!=", "<>", "is not"} -> "not_equals"
RelOfFn(f) == CASE f = "less" -> "<" [] f = "less_equals" -> "<=" [] f = "greater" -> ">"
                [] f = "greater_equals" -> ">=" [] f = "equals" -> "==" [] f = "not_equals" -> "!="

RELOPS == {"==", "!=", "<>", "<", "<=", ">", ">=", "is", "is not"}
ADDOPS == {"+", "-"}
MULOPS == {"*", "/", "%"}

\* evaluation: errors propagate left to right, and/or short-circuit and accept
\* booleans only, the rest through the natives
RECURSIVE Eval(_)
RECURSIVE EvalAnd(_, _)
RECURSIVE EvalOr(_, _)
EvalAnd(args, i) ==
  IF i > Len(args) THEN Bool(TRUE)
  ELSE LET x == Eval(args[i]) IN
       IF x.k \in {"err", "skip"} THEN x
       ELSE IF x.k # "bool" THEN ErrV
       ELSE IF x.n = 0 THEN Bool(FALSE) ELSE EvalAnd(args, i + 1)
EvalOr(args, i) ==
  IF i > Len(args) THEN Bool(FALSE)
  ELSE LET x == Eval(args[i]) IN
       IF x.k \in {"err", "skip"} THEN x
       ELSE IF x.k # "bool" THEN ErrV
       ELSE IF x.n = 1 THEN Bool(TRUE) ELSE EvalOr(args, i + 1)
Eval(t) ==
  CASE t.op = "lit" -> t.v
    [] t.op = "and" -> EvalAnd(t.args, 1)
    [] t.op = "or"  -> EvalOr(t.args, 1)
    [] t.op = "not" -> LET x == Eval(t.args[1]) IN
                       IF x.k \in {"err", "skip"} THEN x
                       ELSE IF x.k # "bool" THEN ErrV ELSE Bool(x.n = 0)
    [] OTHER ->
         LET a == Eval(t.args[1]) IN
         IF a.k \in {"err", "skip"} THEN a
         ELSE LET b == Eval(t.args[2]) IN
              IF b.k \in {"err", "skip"} THEN b
              ELSE CASE t.op = "add" -> Add(a, b) [] t.op = "sub" -> Sub(a, b)
                     [] t.op = "mul" -> Mul(a, b) [] t.op = "div" -> Div(a, b)
                     [] t.op = "mod" -> Mod(a, b) [] t.op = "in" -> In(a, b)
                     [] OTHER -> Rel(RelOfFn(t.op), a, b)

-----------------------------------------------------------------------------
(* Mirror of parser.py: parse_or_expr .. parse_primary_expr as functions from
   a token sequence to <<tree, rest>>.  ok = FALSE marks a syntax error. *)
R(t, rest, ok) == [t |-> t, rest |-> rest, ok |-> ok]
IsOp(ts, S) == ts # << >> /\ ts[1].t = "op" /\ ts[1].o \in S
Bad == R(Lit(Null), << >>, FALSE)

RECURSIVE POr(_)
RECURSIVE PAnd(_)
RECURSIVE PNot(_)
RECURSIVE PRel(_)
RECURSIVE PAdd(_)
RECURSIVE PMul(_)
RECURSIVE PUnary(_)
RECURSIVE PPred(_)
RECURSIVE PPrimary(_)
RECURSIVE OrLoop(_, _)
RECURSIVE AndLoop(_, _)
RECURSIVE RelLoop(_, _, _)
RECURSIVE AddLoop(_, _)
RECURSIVE MulLoop(_, _)

POr(ts) == LET r == PAnd(ts) IN
           IF ~r.ok THEN r
           ELSE IF IsOp(r.rest, {"or"}) THEN OrLoop(<<r.t>>, r.rest) ELSE r
OrLoop(acc, ts) == IF IsOp(ts, {"or"})
                   THEN LET r == PAnd(Tail(ts)) IN
                        IF ~r.ok THEN r ELSE OrLoop(Append(acc, r.t), r.rest)
                   ELSE R(Node("or", acc), ts, TRUE)
PAnd(ts) == LET r == PNot(ts) IN
            IF ~r.ok THEN r
            ELSE IF IsOp(r.rest, {"and"}) THEN AndLoop(<<r.t>>, r.rest) ELSE r
AndLoop(acc, ts) == IF IsOp(ts, {"and"})
                    THEN LET r == PNot(Tail(ts)) IN
                         IF ~r.ok THEN r ELSE AndLoop(Append(acc, r.t), r.rest)
                    ELSE R(Node("and", acc), ts, TRUE)
PNot(ts) == IF IsOp(ts, {"not"})
            THEN LET r == PRel(Tail(ts)) IN IF ~r.ok THEN r ELSE R(Node("not", <<r.t>>), r.rest, TRUE)
            ELSE PRel(ts)
\* comparison chain: NodeAnd over adjacent pairs, simplified when single
PRel(ts) == LET r == PAdd(ts) IN
            IF ~r.ok \/ ~IsOp(r.rest, RELOPS) THEN r ELSE RelLoop(<< >>, r.t, r.rest)
RelLoop(acc, lhs, ts) ==
  IF IsOp(ts, RELOPS)
  THEN LET r == PAdd(Tail(ts)) IN
       IF ~r.ok THEN r
       ELSE RelLoop(Append(acc, Node(BinFn(ts[1].o), <<lhs, r.t>>)), r.t, r.rest)
  ELSE R(IF Len(acc) = 1 THEN acc[1] ELSE Node("and", acc), ts, TRUE)
PAdd(ts) == LET r == PMul(ts) IN IF ~r.ok THEN r ELSE AddLoop(r.t, r.rest)
AddLoop(lhs, ts) == IF IsOp(ts, ADDOPS)
                    THEN LET r == PMul(Tail(ts)) IN
                         IF ~r.ok THEN r ELSE AddLoop(Node(BinFn(ts[1].o), <<lhs, r.t>>), r.rest)
                    ELSE R(lhs, ts, TRUE)
PMul(ts) == LET r == PUnary(ts) IN IF ~r.ok THEN r ELSE MulLoop(r.t, r.rest)
MulLoop(lhs, ts) == IF IsOp(ts, MULOPS)
                    THEN LET r == PUnary(Tail(ts)) IN
                         IF ~r.ok THEN r ELSE MulLoop(Node(BinFn(ts[1].o), <<lhs, r.t>>), r.rest)
                    ELSE R(lhs, ts, TRUE)
\* unary minus folds into int/decimal literals, otherwise sub(0, x).  (The lexer
\* never delivers a negative numeral: a val token with a negative number stands
\* for the parenthesised literal `(-7)` and is not folded again.)
PUnary(ts) ==
  IF IsOp(ts, {"+"}) THEN PPred(Tail(ts))
  ELSE IF IsOp(ts, {"-"})
  THEN LET rest == Tail(ts) IN
       IF rest # << >> /\ rest[1].t = "val" /\ rest[1].v.k \in {"int", "dec"} /\ rest[1].v.n >= 0
       THEN LET lit == [rest[1] EXCEPT !.v.n = -rest[1].v.n] IN PPred(<<lit>> \o Tail(rest))
       ELSE LET r == PPred(rest) IN
            IF ~r.ok THEN r ELSE R(Node("sub", <<Lit(IntV(0)), r.t>>), r.rest, TRUE)
  ELSE PPred(ts)
PPred(ts) == LET r == PPrimary(ts) IN
             IF ~r.ok THEN r
             ELSE IF IsOp(r.rest, {"in"})
             THEN LET q == PPrimary(Tail(r.rest)) IN
                  IF ~q.ok THEN q ELSE R(Node("in", <<r.t, q.t>>), q.rest, TRUE)
             ELSE r
PPrimary(ts) ==
  IF ts = << >> THEN Bad
  ELSE IF ts[1].t = "val" THEN R(Lit(ts[1].v), Tail(ts), TRUE)
  ELSE IF ts[1].t = "lp"
  THEN LET r == POr(Tail(ts)) IN
       IF ~r.ok \/ r.rest = << >> \/ r.rest[1].t # "rp" THEN Bad ELSE R(r.t, Tail(r.rest), TRUE)
  ELSE Bad

Parse(ts) == LET r == POr(ts) IN IF r.ok /\ r.rest = << >> THEN r ELSE Bad

-----------------------------------------------------------------------------
(* Reference: the tree the precedence table dictates.
   or < and < not < comparison < additive < multiplicative < unary (< in),
   binary operators left-associative, or/and n-ary, a comparison chain the
   conjunction of its adjacent pairs.  Defined by splitting the token
   sequence at depth-0 occurrences of the loosest level present. *)
RECURSIVE DepthAt(_, _)
DepthAt(ts, i) == IF i = 0 THEN 0
                  ELSE DepthAt(ts, i - 1) + (IF ts[i].t = "lp" THEN 1 ELSE IF ts[i].t = "rp" THEN -1 ELSE 0)
\* a "-"/"+" is binary iff it follows an operand or a closing parenthesis
Binary(ts, i) == i > 1 /\ ts[i - 1].t \in {"val", "rp"}
Top(ts, S) == {i \in 1..Len(ts) : /\ ts[i].t = "op" /\ ts[i].o \in S /\ DepthAt(ts, i - 1) = 0
                                  /\ (ts[i].o \in {"+", "-"} => Binary(ts, i))}
MaxS(S) == CHOOSE x \in S : \A y \in S : y <= x
MinS(S) == CHOOSE x \in S : \A y \in S : x <= y

RECURSIVE Ref(_)
RECURSIVE RefSplit(_, _)   \* pieces of ts between the positions of P (ascending)
RefSplit(ts, P) == IF P = {} THEN <<ts>>
                   ELSE LET p == MinS(P) IN
                        <<SubSeq(ts, 1, p - 1)>> \o
                        RefSplit(SubSeq(ts, p + 1, Len(ts)), {q - p : q \in P \ {p}})
Ref(ts) ==
  LET ors == Top(ts, {"or"})  ands == Top(ts, {"and"})  rels == Top(ts, RELOPS)
      adds == Top(ts, ADDOPS) muls == Top(ts, MULOPS)   ins == Top(ts, {"in"})
  IN
  IF ors # {} THEN LET ps == RefSplit(ts, ors) IN Node("or", [i \in 1..Len(ps) |-> Ref(ps[i])])
  ELSE IF ands # {} THEN LET ps == RefSplit(ts, ands) IN Node("and", [i \in 1..Len(ps) |-> Ref(ps[i])])
  ELSE IF ts[1].t = "op" /\ ts[1].o = "not" THEN Node("not", <<Ref(Tail(ts))>>)
  ELSE IF rels # {}
  THEN LET ps == RefSplit(ts, rels)
           os == [i \in 1..Cardinality(rels) |->
                    ts[CHOOSE p \in rels : Cardinality({q \in rels : q < p}) = i - 1].o]
           pairs == [i \in 1..Len(os) |-> Node(BinFn(os[i]), <<Ref(ps[i]), Ref(ps[i + 1])>>)]
       IN IF Len(pairs) = 1 THEN pairs[1] ELSE Node("and", pairs)
  ELSE IF adds # {}
  THEN LET p == MaxS(adds) IN
       Node(BinFn(ts[p].o), <<Ref(SubSeq(ts, 1, p - 1)), Ref(SubSeq(ts, p + 1, Len(ts)))>>)
  ELSE IF muls # {}
  THEN LET p == MaxS(muls) IN
       Node(BinFn(ts[p].o), <<Ref(SubSeq(ts, 1, p - 1)), Ref(SubSeq(ts, p + 1, Len(ts)))>>)
  ELSE IF ts[1].t = "op" /\ ts[1].o = "+" THEN Ref(Tail(ts))
  ELSE IF ts[1].t = "op" /\ ts[1].o = "-"
  THEN (IF Len(ts) = 2 /\ ts[2].t = "val" /\ ts[2].v.k \in {"int", "dec"} /\ ts[2].v.n >= 0
        THEN Lit([ts[2].v EXCEPT !.n = -ts[2].v.n])
        ELSE IF ins # {} /\ ts[2].t = "val" /\ ts[2].v.k \in {"int", "dec"} /\ ts[2].v.n >= 0
        THEN Ref(<<[ts[2] EXCEPT !.v.n = -ts[2].v.n]>> \o SubSeq(ts, 3, Len(ts)))
        ELSE Node("sub", <<Lit(IntV(0)), Ref(Tail(ts))>>))
  ELSE IF ins # {}
  THEN LET p == MinS(ins) IN
       Node("in", <<Ref(SubSeq(ts, 1, p - 1)), Ref(SubSeq(ts, p + 1, Len(ts)))>>)
  ELSE IF ts[1].t = "lp" THEN Ref(SubSeq(ts, 2, Len(ts) - 1))
  ELSE Lit(ts[1].v)
=============================================================================
