CONSTANTS
  MaxParams = 5
  MaxArgs = 3
SPECIFICATION Spec
INVARIANT TypeOK
INVARIANT Agrees
INVARIANT Total
INVARIANT Placed
INVARIANT CanonBinds
INVARIANT Export
CHECK_DEADLOCK FALSE
