CONSTANTS
  Depth = 1
  Wide = TRUE
  Thin = 1
  Export = TRUE
SPECIFICATION Spec
INVARIANT TypeOK
INVARIANT CurIsDate
INVARIANT ExportHist
PROPERTY ZoneBlind
PROPERTY BystandersKeep
PROPERTY ArithMoves
CHECK_DEADLOCK FALSE
