---------------------------- MODULE Val_Trace ----------------------------
(* C06 / C07 / C08, binding B: observations recorded from the implementation
   on generated values are validated against the Val operators.  One NDJSON
   line per event; values are encoded as Val records (ints beyond the small
   range as limb sequences, decimals as exact rationals, text as code
   points).  Most events are self-contained; the container events (cnew, cadd,
   crem, cput, chas, cget, ceq) step a model container `cur` the way
   Seq_Trace steps a list; the history events (hnew, hedit, hrel) step the
   content `held` of one object that a program edits in place and compares
   with freshly written values after every edit.  An event whose observation differs from the model
   is reported (@@BAD@@ with its line and the clause) and the run goes on, so
   every mismatch is listed.                                                *)
EXTENDS Val, TLC, Json, IOUtils

Trace == ndJsonDeserialize(IOEnv.TRACE_FILE)

VARIABLES l, cur, held
vars == <<l, cur, held>>

Ev == Trace[l]
Bad(why) == PrintT("@@BAD@@" \o ToJson([l |-> l, why |-> why]))
Check(c, why) == IF c THEN TRUE ELSE Bad(why)
B2N(b) == IF b THEN 1 ELSE 0

Init == l = 1 /\ cur = VSet(<< >>) /\ held = VList(<< >>)

-----------------------------------------------------------------------------
(* rel: two values and every relation the implementation reported on them *)
\* px: what each further observer of the pair answered to "are these two the
\* same value?" - the interpreted operators and natives (==, !=, equals,
\* not_equals), membership in a list / a set / the keys of a map in both
\* directions, find, container == of lists, sets, maps (as key and as value),
\* the size of << x, y >> and of << x, 'zz77' >> - << y >>, ... (the harness
\* normalises every answer to a boolean; the list may be empty).  Whatever
\* `==` answered, all of them must answer the same: that IS interchangeability.
Agree(px, eq) == \A k \in DOMAIN px : px[k] = eq
RelOK ==
  LET x == Ev.a  y == Ev.b  e == Equal(x, y) IN
  /\ Check(WF(x) /\ WF(y), "wf")
  \* a pair that differs only below the second of a date: not named by C06
  /\ Check(Ev.eq = e \/ ResolutionOnly(x, y), "eq")           \* C06
  /\ Check(Ev.ne = ~Ev.eq, "ne")
  /\ Check((e \/ Ev.eq) => Ev.hq, "hash")                     \* equal => same hash
  /\ Check(Agree(Ev.px, Ev.eq), "interchangeable")
  /\ Check(~SameKind(x, y) => ~Ev.eq, "cross-kind")
  /\ Ev.ord /\ Stated(x, y) =>                 \* C07: one kind, order named by the statement
       /\ Check(B2N(Ev.lt) + B2N(Ev.eq) + B2N(Ev.gt) = 1, "trichotomy")
       /\ Check(Ev.le = (Ev.lt \/ Ev.eq), "le")
       /\ Check(Ev.ge = (Ev.gt \/ Ev.eq), "ge")
       /\ Check(Ev.lt = Less(x, y), "lt")
       /\ Check(Ev.gt = Less(y, x), "gt")
       /\ Check(Ev.cmp = Compare(x, y), "compare")
       \* min / max returned the first (1) or the second (2) argument
       /\ Check(Ev.mn \in {1, 2} /\ (IF Ev.mn = 1 THEN ~Less(y, x) ELSE ~Less(x, y)), "min")
       /\ Check(Ev.mx \in {1, 2} /\ (IF Ev.mx = 1 THEN ~Less(x, y) ELSE ~Less(y, x)), "max")

(* tri: what the implementation reported on the three pairs of a same-kind
   triple; the laws on the observations themselves *)
TriOK ==
  /\ Check(WF(Ev.a) /\ WF(Ev.b) /\ WF(Ev.c), "wf")
  /\ Check(Ev.eab /\ Ev.ebc => Ev.eac, "eq-transitive")
  /\ Check(/\ Ev.eab = Equal(Ev.a, Ev.b) \/ ResolutionOnly(Ev.a, Ev.b)
           /\ Ev.ebc = Equal(Ev.b, Ev.c) \/ ResolutionOnly(Ev.b, Ev.c)
           /\ Ev.eac = Equal(Ev.a, Ev.c) \/ ResolutionOnly(Ev.a, Ev.c), "eq")
  /\ Ev.ord /\ Stated(Ev.a, Ev.b) /\ Stated(Ev.b, Ev.c) /\ Stated(Ev.a, Ev.c) =>
       /\ Check(Ev.ab /\ Ev.bc => Ev.ac, "lt-transitive")
       /\ Check(Ev.eab => (Ev.ac = Ev.bc), "lt-respects-eq")
       /\ Check(~(Ev.ab /\ Ev.ba), "asymmetric")
       /\ Check(Ev.ab = Less(Ev.a, Ev.b) /\ Ev.bc = Less(Ev.b, Ev.c)
                /\ Ev.ac = Less(Ev.a, Ev.c) /\ Ev.ba = Less(Ev.b, Ev.a), "lt")

(* hnew / hedit / hrel: one object with a history.  hedit carries the edit the
   program performed (path, op) and the content the object had afterwards as
   the harness read it off the object (cur); held follows the implementation
   (re-synchronised) after the model's own effect was compared with it. *)
HeldStep ==
  CASE Ev.op = "hnew" ->
         /\ held' = Ev.v
         /\ Check(WF(Ev.v), "wf")
    [] Ev.op = "hedit" ->
         LET op == EOp(Ev.name, Ev.i, Ev.e, Ev.x)
             can == PathOK(held, Ev.path) /\ EditOK(SubAt(held, Ev.path), op) IN
         /\ held' = Ev.cur
         /\ Check(WF(Ev.cur) /\ WF(Ev.e) /\ WF(Ev.x), "wf")
         /\ Check(can = Ev.okk, "edit-enabled")
         /\ can /\ Ev.okk => Check(Equal(EditAt(held, Ev.path, op), Ev.cur), "edit-result")
         /\ ~Ev.okk => Check(Equal(held, Ev.cur), "edit-result")
    [] Ev.op = "hrel" ->                   \* the edited object against a freshly written value b
         LET e == Equal(held, Ev.b) IN
         /\ held' = held
         /\ Check(WF(Ev.b), "wf")
         /\ Check(Ev.eq = e \/ ResolutionOnly(held, Ev.b), "eq")
         /\ Check(Ev.ne = ~Ev.eq, "ne")
         /\ Check(Ev.qe = Ev.eq, "symmetric")
         /\ Check((e \/ Ev.eq) => Ev.hq, "hash")
         /\ Check(Agree(Ev.px, Ev.eq), "interchangeable")

(* sort: input, output and the permutation p with out[k] = inp[p[k]] that the
   harness read off the element identities; m: "id" | "key" | "idrev" | "keyrev",
   and "id3" (cmp = fn(a, b) 3 * compare(a, b)) / "idsub" (cmp = fn(a, b) a - b
   on ints): a cmp may answer any negative / positive number *)
KeyOf(m, x)  == IF m \in {"key", "keyrev"} THEN x.items[1] ELSE x
Cmp(m, x, y) == IF m \in {"idrev", "keyrev"} THEN Compare(y, x) ELSE Compare(x, y)
SortOK ==
  LET n == Len(Ev.inp) IN
  /\ Check(Len(Ev.out) = n /\ Len(Ev.p) = n, "sort-length")
  /\ Check(/\ \A k \in 1..n : Ev.p[k] \in 1..n
           /\ \A k \in 1..n, h \in 1..n : k # h => Ev.p[k] # Ev.p[h]
           /\ \A k \in 1..n : Ev.out[k] = Ev.inp[Ev.p[k]], "sort-permutation")
  \* the order of the keys must be one the statement names
  /\ (\A k \in 1..n, h \in 1..n : Stated(KeyOf(Ev.m, Ev.inp[k]), KeyOf(Ev.m, Ev.inp[h]))) =>
       /\ Check(\A k \in 1..(n - 1) :
                  Cmp(Ev.m, KeyOf(Ev.m, Ev.out[k]), KeyOf(Ev.m, Ev.out[k + 1])) <= 0, "sort-ordered")
       /\ Check(\A k \in 1..(n - 1) :
                  Cmp(Ev.m, KeyOf(Ev.m, Ev.out[k]), KeyOf(Ev.m, Ev.out[k + 1])) = 0
                    => Ev.p[k] < Ev.p[k + 1], "sort-stable")

(* enum: what one enumeration site of the language delivered for a set / a map.
   what: "keys" (elements of a set, keys of a map), "values", "entries" ([k, v]
   pairs); full: the site yields everything (a destructuring yields only the
   first Len(order)).  Wherever a program enumerates - comprehension, for loop,
   list(), spread into a list literal or into a call, destructuring def /
   assignment / loop, sorted() handed a set - the order is the ascending one. *)
EnumOK ==
  LET v == Ev.v  o == Ev.order
      exp == CASE Ev.what = "keys" -> EnumKeys(v)
               [] Ev.what = "values" -> EnumVals(v)
               [] OTHER -> EnumEntries(v) IN
  /\ Check(WF(v) /\ v.k \in {"set", "map"} /\ (Ev.what # "keys" => v.k = "map"), "wf")
  /\ Check(IF Ev.full THEN Len(o) = Len(exp) ELSE Len(o) <= Len(exp), "enum-length")
  /\ Ev.what = "keys" =>
       Check(/\ \A k \in DOMAIN o : Has(v.items, o[k])
             /\ \A k \in DOMAIN o, h \in DOMAIN o : k # h => ~Equal(o[k], o[h]), "enum-permutation")
  /\ OrderStated(v) /\ Len(o) <= Len(exp) =>
       /\ Ev.what = "keys" => Check(\A k \in 1..(Len(o) - 1) : Less(o[k], o[k + 1]), "enum-ascending")
       /\ Check(\A k \in DOMAIN o : Equal(o[k], exp[k]), "enum-order")

(* minmax: min / max over a list (m: "min" | "max"; key: the call had
   key = fn(x) x[0]); which: the position of the returned object in the input
   (0: not an element of it), read off the element identities *)
MinMaxOK ==
  LET n == Len(Ev.inp)
      keys == [k \in 1..n |-> IF Ev.key THEN Ev.inp[k].items[1] ELSE Ev.inp[k]] IN
  /\ Check(\A k \in 1..n : WF(Ev.inp[k]), "wf")
  /\ Check(Ev.which \in 1..n, "minmax-element")
  /\ (Ev.which \in 1..n /\ \A k \in 1..n, h \in 1..n : Stated(keys[k], keys[h])) =>
       IF Ev.m = "min" THEN Check(IsLeastAt(keys, Ev.which), "min")
       ELSE Check(IsGreatestAt(keys, Ev.which), "max")

(* render: the tokens the real scanner delivered for the text of v, whether
   every construction order gave that text, and what evaluating it gave *)
Count(s, x) == Cardinality({i \in DOMAIN s : s[i] = x})
SameBag(s, u) == /\ Len(s) = Len(u)
                 /\ \A i \in DOMAIN s : Count(s, s[i]) = Count(u, s[i])
RenderOK ==
  LET v == Ev.v IN
  /\ Check(WF(v), "wf")
  /\ Check(Ev.cons, "text-depends-on-construction-order")
  /\ OrderStated(v) => Check(Ev.toks = Tokens(v), "tokens")
  \* enumeration order not named by the statement: the same tokens in some order
  /\ ~OrderStated(v) => Check(SameBag(Ev.toks, Tokens(v)), "tokens-multiset")
  /\ Ev.data =>
       /\ Check(Ev.rtok, "text-does-not-evaluate")
       /\ Ev.rtok => /\ Check(WF(Ev.rt), "wf-rt")
                     /\ Check(Equal(v, Ev.rt), "round-trip-equal")
                     /\ Check(v.k = Ev.rt.k, "round-trip-type")
                     /\ Check(Ev.same, "round-trip-text")

-----------------------------------------------------------------------------
ContStep ==
  CASE Ev.op = "cnew" ->
         cur' = IF Ev.kind = "set" THEN VSet(<< >>) ELSE VMap(<< >>, << >>)
    [] Ev.op = "cadd" ->
         /\ cur' = SetAdd(cur, Ev.v)
         /\ Check(WF(Ev.v), "wf")
         /\ Check(Ev.n = Len(cur'.items), "set-size")
    [] Ev.op = "crem" ->                   \* only recorded for present elements
         /\ cur' = (IF cur.k = "set" THEN SetRemove(cur, Ev.v) ELSE MapRemove(cur, Ev.v))
         /\ Check(Has(cur.items, Ev.v), "remove-of-present")
         /\ Check(Ev.okk /\ Ev.n = Len(cur'.items), "remove")
    [] Ev.op = "cput" ->
         /\ cur' = MapPut(cur, Ev.k, Ev.x)
         /\ Check(WF(Ev.k) /\ WF(Ev.x), "wf")
         /\ Check(Ev.n = Len(cur'.items), "map-size")
    [] Ev.op = "chas" ->
         /\ cur' = cur
         /\ Check(Ev.r = Has(cur.items, Ev.v), "member")
    [] Ev.op = "cget" ->
         LET g == MapGet(cur, Ev.k) IN
         /\ cur' = cur
         /\ Check(Ev.okk = g.ok /\ (g.ok => Ev.r = g.v), "lookup")
    [] Ev.op = "ceq" ->                    \* cur against a container built elsewhere
         /\ cur' = cur
         /\ Check(Ev.r = Equal(cur, Ev.other), "container-eq")
    [] Ev.op = "cdiff" ->                  \* cur - <<v>> has n elements
         /\ cur' = cur
         /\ Check(Ev.n = Len(SetDiff(cur, VSet(<<Ev.v>>)).items), "set-difference")

Step ==
  /\ l <= Len(Trace)
  /\ l' = l + 1
  /\ CASE Ev.op = "rel"    -> cur' = cur /\ held' = held /\ RelOK
       [] Ev.op = "tri"    -> cur' = cur /\ held' = held /\ TriOK
       [] Ev.op = "sort"   -> cur' = cur /\ held' = held /\ SortOK
       [] Ev.op = "enum"   -> cur' = cur /\ held' = held /\ EnumOK
       [] Ev.op = "minmax" -> cur' = cur /\ held' = held /\ MinMaxOK
       [] Ev.op = "render" -> cur' = cur /\ held' = held /\ RenderOK
       [] Ev.op \in {"cnew", "cadd", "crem", "cput", "chas", "cget", "ceq", "cdiff"} -> held' = held /\ ContStep
       [] Ev.op \in {"hnew", "hedit", "hrel"} -> cur' = cur /\ HeldStep
       [] OTHER -> cur' = cur /\ held' = held /\ Bad("unknown-op")
  /\ (l = Len(Trace) => PrintT("@@DONE@@" \o ToJson([n |-> l])))

Spec == Init /\ [][Step]_vars

Accepted == TLCGet("stats").diameter - 1 = Len(Trace)
=============================================================================
