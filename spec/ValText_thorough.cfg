CONSTANTS
  Tier = 2
  MaxPat = 5
  MaxOuter = 3
  MaxInner = 2
  Export = TRUE
SPECIFICATION Spec
INVARIANT TypeOK
INVARIANT PatRoundTrip
INVARIANT PatEarlyEnd
INVARIANT HistOrderFree
INVARIANT ExportPat
INVARIANT ExportInit
PROPERTY TextFollowsValue
CHECK_DEADLOCK FALSE
