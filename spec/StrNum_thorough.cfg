CONSTANTS
  IPn = {0, 1, 9, 10, 99, 123, 999}
  FD = {0, 1, 2, 3, 4, 5, 6, 7, 8, 9}
  MaxF = 3
  MaxD = 3
  HexN = 5000
  Export = TRUE
SPECIFICATION Spec
INVARIANT TypeOK
INVARIANT CarryInv
INVARIANT RoundMachine
INVARIANT RoundNearest
INVARIANT ReadBack
INVARIANT HexMachine
INVARIANT HexInv
INVARIANT ExportCase
CHECK_DEADLOCK FALSE
