------------------------------ MODULE DateProc ------------------------------
(* C17 - the life of one process that works with dates.

   The property quantifies over date values and says nothing about where or
   after what a conversion is made: the day number of a date, the date of a day
   number and the result of day arithmetic are functions of their operands
   alone.  An implementation has more state than that: the time zone of the
   process (TZ when it starts, or changed while it runs), tables and caches at
   module level that are built on first use or written by other date functions
   of the language (parse_date, is_valid_date, format_date, the functions of
   modules/date.ckl), and whatever a call that failed half-way left behind.

   This machine is the process: it starts (zone, nothing evaluated yet), and
   then evaluates up to Depth operations from the whole date vocabulary of the
   language.  The state is the history `hist` itself plus the only thing the
   reference semantics needs, the value of the one date variable `cur`
   (day number cn, second of day cs, defined or not).  Three groups of actions:

     constructors   new (date('...')), date_int, date_dec, parse (parse_date)
     conversions    int, dec, roundtrip, roundtrip_int, add, sub, diff, back,
                    minus, api_num / api_date (ckl.date.to_oa_date / to_date
                    called directly, the first thing an embedding program does)
     bystanders     valid (is_valid_date, also of texts that are no date),
                    fmt, part, str, cmp (readers of cur), err (conversions
                    that must fail), free (now, timestamp, sorting ...),
                    tz (the zone of the process changes)

   `cur` moves only by the reference arithmetic of DateOps; the action
   properties say that bystanders and the environment move nothing
   (BystandersKeep, ZoneBlind) and the invariants that every reachable `cur`
   is a date of the range, read the same by the closed forms in both directions.

   TLC enumerates every history up to Depth (Wide: one operation with the wide
   parameter sets - every boundary day of six years; otherwise the narrow sets,
   so that all ordered pairs / triples of operations fit).  Each history is
   exported (HIST) in the event format of Date_Trace.tla; the harness runs each
   one in a newly started process under the exported zone, records what the
   implementation returned, lets Date_Trace judge the events and then runs the
   conversion battery (binding A) in the same process.  The environment model
   (zones, the instants at which local clock time is skipped or repeated) is
   exported once as ENV.                                                      *)
EXTENDS DateOps, TLC, Json, IOUtils, SequencesExt

CONSTANTS Depth,      \* number of operations after the start of the process
          Wide,       \* TRUE: wide parameter sets (use with Depth = 1)
          Thin,       \* histories of three operations: every Thin-th one is exported
          Export

VARIABLES zone, live, cn, cs, hist, cnt
vars == <<zone, live, cn, cs, hist, cnt>>

Emit(tag, rec) == IF Export THEN PrintT("@@" \o tag \o "@@" \o ToJson(rec)) ELSE TRUE

\* ---- parameter sets ------------------------------------------------------
DaysOf(yy) == {<<yy, 1, 1>>, <<yy, 2, 28>>, <<yy, 3, 1>>, <<yy, 12, 31>>}
              \cup (IF IsLeap(yy) THEN {<<yy, 2, 29>>} ELSE {})
WideYears == {1900, 2000, 2023, 2024, 2100, 9999}
Pos  == IF Wide THEN UNION {DaysOf(yy) : yy \in WideYears}
        ELSE {<<2023, 12, 31>>, <<2024, 2, 29>>}
Secs == {45015}                                       \* 12:30:15
Ks   == IF Wide THEN {1, 365} ELSE {1, 366}
\* texts that are no date: 29 February of a common year, 30 February,
\* 31 April, month 13, day 0, 32 December
NoDates(yy) == {TextOf(yy, 2, 30), TextOf(yy, 4, 31), TextOf(yy, 13, 1), TextOf(yy, 1, 0), TextOf(yy, 12, 32)}
               \cup (IF IsLeap(yy) THEN {} ELSE {TextOf(yy, 2, 29)})
Texts == {TextOf(p[1], p[2], p[3]) : p \in Pos}
         \cup (IF Wide THEN UNION {NoDates(yy) : yy \in WideYears} ELSE {TextOf(2023, 2, 29)})
Fmts    == IF Wide THEN 1..4 ELSE {2, 4}              \* format_date / iso_date(time) forms
Parts   == IF Wide THEN 1..6 ELSE {1, 3}              \* date_year .. date_second
ErrKinds  == IF Wide THEN 1..6 ELSE {2, 3, 4}
FreeKinds == IF Wide THEN 1..8 ELSE {1, 3, 6}
TzSet   == IF Wide THEN 1..NZones ELSE {2, 3}
\* cur is compared with the instant j days later by operator a
\* (1 <, 2 <=, 3 ==, 4 !=, 5 >=, 6 >)
CmpSet  == IF Wide THEN {<<0 - 1, 6>>, <<0, 3>>, <<0, 2>>, <<1, 1>>, <<1, 4>>, <<0 - 1, 5>>}
           ELSE {<<0, 3>>, <<1, 1>>}
Num(p) == DayNumber(p[1], p[2], p[3])

\* one operation in the event format of Date_Trace (observed fields blank)
Op(o, ymd, s, k, a, t) ==
  [op |-> o, ok |-> TRUE, y |-> ymd[1], m |-> ymd[2], d |-> ymd[3], s |-> s,
   k |-> k, a |-> a, t |-> t, r |-> 0, us |-> 0, b |-> FALSE]
None == <<0, 0, 0>>
\* parse_date format used for a text: spread over the four forms
ParseFmt(p, s) == 1 + ((p[1] + p[2] + p[3] + s) % 4)

\* ---- the machine ----------------------------------------------------------
Init == /\ zone = 1 /\ live = FALSE /\ cn = FirstDay /\ cs = 0 /\ cnt = 0 /\ hist = <<>>

More == cnt < Depth
Log(o) == hist' = Append(hist, o) /\ cnt' = cnt + 1

\* Wide: operations that do not read cur are tried in the new process only
Bare == ~Wide \/ hist = <<>>
\* constructors: cur becomes the date (n, s)
Become(n, s, o) == /\ More /\ Bare /\ Log(o)
                   /\ live' = TRUE /\ cn' = n /\ cs' = s /\ UNCHANGED zone
\* everything else leaves cur alone
Keep(o) == /\ More /\ Log(o) /\ UNCHANGED <<zone, live, cn, cs>>
Move(n, o) == /\ More /\ Log(o) /\ cn' = n /\ UNCHANGED <<zone, live, cs>>

New     == \E p \in Pos, s \in Secs \cup {0} : Become(Num(p), s, Op("new", p, s, 0, 0, 0))
DateInt == \E p \in Pos : Become(Num(p), 0, Op("date_int", None, 0, Num(p), 0, 0))
DateDec == \E p \in Pos, s \in Secs : Become(Num(p), s, Op("date_dec", None, 0, Num(p), s, 0))
Parse   == \E p \in Pos, s \in Secs :
             LET f == ParseFmt(p, s) IN
             Become(Num(p), IF f = 1 THEN 0 ELSE s, Op("parse", None, 0, TextOf(p[1], p[2], p[3]), f, s))

\* parse_date of a time alone: the date is 1970-01-01 whatever the zone
ParseTime == \E s \in Secs : Become(DayNumber(1970, 1, 1), s, Op("parse", None, 0, TextOf(1970, 1, 1), 5, s))

ApiDate == Bare /\ \E p \in Pos, s \in Secs \cup {0} : Keep(Op("api_date", None, 0, Num(p), s, 0))
ApiNum  == Bare /\ \E p \in Pos, s \in Secs \cup {0} : Keep(Op("api_num", p, s, 0, 0, 0))

Reader  == /\ live
           /\ \/ \E o \in {"int", "dec", "roundtrip", "roundtrip_int", "str"} : Keep(Op(o, None, 0, 0, 0, 0))
              \/ \E f \in Fmts : Keep(Op("fmt", None, 0, 0, f, 0))
              \/ \E i \in Parts : Keep(Op("part", None, 0, 0, i, 0))
              \/ \E c \in CmpSet : InRange(cn + c[1]) /\
                    Keep(Op("cmp", FromDayNumber(cn + c[1]), cs, 0, c[2], 0))
              \/ \E p \in (IF Wide THEN {<<2024, 2, 29>>, <<1900, 1, 1>>} ELSE {<<2023, 3, 1>>}) :
                    Keep(Op("minus", p, cs, 0, 0, 0))
              \/ \E k \in Ks : InRange(cn + k) /\
                    \E o \in {"diff", "back"} : Keep(Op(o, None, 0, k, 0, 0))

Add == live /\ \E k \in Ks : InRange(cn + k) /\ Move(cn + k, Op("add", None, 0, k, 0, 0))
Sub == live /\ \E k \in Ks : InRange(cn - k) /\ Move(cn - k, Op("sub", None, 0, k, 0, 0))

Valid == Bare /\ \E t \in Texts : Keep(Op("valid", None, 0, t, 0, 0))
Err   == Bare /\ \E e \in ErrKinds : Keep(Op("err", None, 0, 0, e, 0))
Free  == Bare /\ \E e \in FreeKinds : Keep(Op("free", None, 0, 0, e, 0))
Tz    == \E z \in TzSet : /\ More /\ Bare /\ Log(Op("tz", None, 0, z, 0, 0))
                          /\ zone' = z /\ UNCHANGED <<live, cn, cs>>

\* Wide: the operation is applied to cur standing on every position; the
\* constructor that puts it there is not counted
Place == /\ Wide /\ cnt = 0 /\ hist = <<>>
         /\ \E p \in Pos, s \in Secs :
              /\ hist' = <<Op("new", p, s, 0, 0, 0)>>
              /\ live' = TRUE /\ cn' = Num(p) /\ cs' = s
              /\ UNCHANGED <<zone, cnt>>

Next == Place \/ New \/ DateInt \/ DateDec \/ Parse \/ ParseTime \/ ApiDate \/ ApiNum \/ Reader
        \/ Add \/ Sub \/ Valid \/ Err \/ Free \/ Tz

Spec == Init /\ [][Next]_vars

-----------------------------------------------------------------------------
Bystanders == {"valid", "fmt", "part", "str", "cmp", "err", "free", "tz", "api_date", "api_num",
               "int", "dec", "roundtrip", "roundtrip_int", "diff", "back", "minus"}

TypeOK == /\ zone \in 1..NZones
          /\ live \in BOOLEAN
          /\ cnt \in 0..Depth
          /\ Len(hist) \in cnt..(cnt + 1)

\* every value cur can take is a date of the range, and both closed forms
\* read it the same way
CurIsDate ==
  live => /\ InRange(cn) /\ cs \in 0..(SecondsPerDay - 1)
          /\ LET dt == FromDayNumber(cn) IN
               /\ ValidDate(dt[1], dt[2], dt[3])
               /\ DayNumber(dt[1], dt[2], dt[3]) = cn
               /\ ValidText(TextOf(dt[1], dt[2], dt[3]))

\* is_valid_date of the texts used: a text is a date exactly when the closed
\* forms take it to a day number and back to the same fields
TextsJudged ==
  \A t \in Texts :
     ValidText(t) <=>
       /\ TextMonth(t) \in 1..12 /\ TextDay(t) \in 1..31
       /\ FromDayNumber(DayNumber(TextYear(t), TextMonth(t), TextDay(t)))
            = <<TextYear(t), TextMonth(t), TextDay(t)>>

\* the zone of the process never moves a date ...
ZoneBlind == [][zone' # zone => UNCHANGED <<live, cn, cs>>]_vars
\* ... nor does anything that is not a constructor or day arithmetic
BystandersKeep ==
  [][(Len(hist') > Len(hist) /\ hist'[Len(hist')].op \in Bystanders) => UNCHANGED <<live, cn, cs>>]_vars
\* add and sub undo each other on the calendar (not only on day numbers)
ArithMoves ==
  [][(Len(hist') > Len(hist) /\ hist'[Len(hist')].op \in {"add", "sub"}) =>
       LET o  == hist'[Len(hist')]
           kk == IF o.op = "add" THEN o.k ELSE 0 - o.k
       IN /\ AddDays(FromDayNumber(cn), kk) = FromDayNumber(cn')
          /\ AddDays(FromDayNumber(cn'), 0 - kk) = FromDayNumber(cn)
          /\ DiffDays(FromDayNumber(cn'), FromDayNumber(cn)) = kk
          /\ cs' = cs]_vars

\* the zone the process is started in: spread over the zones by the history
Mix == FoldLeft(LAMBDA acc, o : acc + o.k + o.a + o.d + o.s + o.t, Len(hist), hist)
StartZone == 1 + (Mix % NZones)

ExportHist ==
  (cnt >= 1 /\ (cnt < 3 \/ (Mix \div NZones) % Thin = 0)) =>
     Emit("HIST", [z |-> StartZone, n |-> cnt, ops |-> hist])

\* ---- the environment, exported once ---------------------------------------
HazardYears == {1900, 1969, 1970, 1971, 1999, 2000, 2021, 2024, 2037, 2038, 2100, 2400, 9999}
               \cup {1903 + 797 * i : i \in 0..10}
EnvRecord ==
  [zones   |-> [z \in 1..NZones |-> Zones[z].tz],
   hazards |-> SetToSeq(UNION {{<<z>> \o h : h \in UNION {HazardsOf(z, yy) : yy \in HazardYears}} : z \in 1..NZones})]
\* a skipped or repeated hour lies inside one calendar day of the range
HazardsSane ==
  \A z \in 1..NZones : \A yy \in HazardYears : \A h \in HazardsOf(z, yy) :
     /\ ValidDate(h[1], h[2], h[3]) /\ h[4] \in 0..(SecondsPerDay - 1)
     /\ Weekday(DayNumber(h[1], h[2], h[3])) = 0
ASSUME HazardsSane
ASSUME TextsJudged
ASSUME Export => PrintT("@@ENV@@" \o ToJson(EnvRecord))
=============================================================================
