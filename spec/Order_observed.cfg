CONSTANTS
  N = 3
  Plain = 1
  Near = 2
  Alike = 2
  Site <- SiteObserved
SPECIFICATION Spec
INVARIANT TypeOK
INVARIANT ReportVary
CHECK_DEADLOCK FALSE
