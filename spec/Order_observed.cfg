CONSTANTS
  N = 3
  Site <- SiteObserved
SPECIFICATION Spec
INVARIANT TypeOK
INVARIANT ReportVary
CHECK_DEADLOCK FALSE
