------------------------------ MODULE Machine ------------------------------
(* The evaluator core of checkerlang-py (src/ckl/nodes.py `evaluate` methods,
   functions.py Environment / FuncLambda.execute, values.py Args.setArgs) as a
   definitional interpreter in TLA+ (C03 scoping and argument binding, C04
   control flow, C05 errors / handlers / finally).

   nodes.py is a recursive big-step tree walker; so is this mirror: Ev(node,
   frame, state) returns [o |-> outcome, st |-> state'].  One Ev clause per node
   class, the same case analysis and the same order of sub-evaluations.

   State threaded through the evaluation
     envs   sequence of frames [parent, vars]; vars maps every name of Names
            to a value or Undef (Environment.map / .parent; frame 1 is the
            session scope, parent 0 = none)
     fns    closure table: [params, body, env] (FuncLambda objects)
     log    the in-program observation list (the programs call `log(x)`)
     hist   ghost event history used only by the properties (block enter /
            statement / raise / catch test / handler / finally / leave ...)
     fuel   bound on loop iterations and calls (termination of the model)
     nb     number of block instances entered so far (ids for hist)

   Outcomes [t, v]: t = "val" (value v) | "brk" | "cont" | "ret" (value v)
   | "err" (error value v - CklRuntimeError.value) | "fuel" (bound hit: the
   program is not used).  Control signals are values in the implementation
   (ValueControlBreak/Continue/Return) propagated by blocks and consumed by
   loops and functions; errors are Python exceptions - here both are outcomes.

   Values [k, n, s]: "null" | "bool" n | "int" n | "str" s (code points)
   | "list" s | "set" s (sorted, distinct) | "map" s (entries <<key, value>>
   sorted by key) | "fn" n (index into fns) | "obj" s (<<name, value>> pairs
   in insertion order) | "undef".

   AST nodes are records [n, s, v, a]: n node class, s a name/operator, v a
   literal value, a the sequence of children (children may be sequences of
   nodes where the node class has lists, e.g. statement lists).              *)
EXTENDS Integers, Sequences, FiniteSets, TLC

CONSTANT Names          \* every variable name occurring in the programs

V(k, n, s) == [k |-> k, n |-> n, s |-> s]
Null    == V("null", 0, << >>)
Undef   == V("undef", 0, << >>)
Bool(b) == V("bool", IF b THEN 1 ELSE 0, << >>)
IntV(n) == V("int", n, << >>)
StrV(s) == V("str", 0, s)
ListV(s) == V("list", 0, s)
SetV(s)  == V("set", 0, s)
MapV(s)  == V("map", 0, s)
FnV(i)  == V("fn", i, << >>)
ObjV(s) == V("obj", 0, s)
TrueV  == Bool(TRUE)
ERRORV == StrV(<<69, 82, 82, 79, 82>>)       \* 'ERROR'

O(t, v) == [t |-> t, v |-> v]
Val(v)  == O("val", v)
Err(v)  == O("err", v)
RErr    == Err(ERRORV)                       \* a runtime 'ERROR'
R(o, st) == [o |-> o, st |-> st]

N(n, s, v, a) == [n |-> n, s |-> s, v |-> v, a |-> a]

-----------------------------------------------------------------------------
(* value operations used by the generated programs *)
RECURSIVE SeqLessInt(_, _)
SeqLessInt(x, y) == IF y = << >> THEN FALSE
                    ELSE IF x = << >> THEN TRUE
                    ELSE IF Head(x) # Head(y) THEN Head(x) < Head(y)
                    ELSE SeqLessInt(Tail(x), Tail(y))

\* structural equality, never comparing payloads of different shape
RECURSIVE Equal(_, _)
Equal(a, b) ==
  /\ a.k = b.k
  /\ CASE a.k \in {"list", "set"} ->
             Len(a.s) = Len(b.s) /\ \A i \in 1..Len(a.s) : Equal(a.s[i], b.s[i])
        [] a.k \in {"map", "obj"} ->
             Len(a.s) = Len(b.s) /\ \A i \in 1..Len(a.s) :
                (IF a.k = "map" THEN Equal(a.s[i][1], b.s[i][1]) ELSE a.s[i][1] = b.s[i][1])
                /\ Equal(a.s[i][2], b.s[i][2])
        [] a.k = "str" -> a.s = b.s
        [] OTHER -> a.n = b.n

RECURSIVE SeqLess(_, _)
RECURSIVE Less(_, _)
Less(a, b) == IF a.k = "int" /\ b.k = "int" THEN a.n < b.n
              ELSE IF a.k = "str" /\ b.k = "str" THEN SeqLessInt(a.s, b.s)
              ELSE IF a.k = "bool" /\ b.k = "bool" THEN a.n < b.n
              ELSE IF a.k = "list" /\ b.k = "list" THEN SeqLess(a.s, b.s)
              ELSE FALSE
SeqLess(x, y) == IF y = << >> THEN FALSE
                 ELSE IF x = << >> THEN TRUE
                 ELSE IF Equal(Head(x), Head(y)) THEN SeqLess(Tail(x), Tail(y))
                 ELSE Less(Head(x), Head(y))

RECURSIVE InsertSorted(_, _)
InsertSorted(s, x) == IF s = << >> THEN <<x>>
                      ELSE IF Equal(Head(s), x) THEN s
                      ELSE IF Less(x, Head(s)) THEN <<x>> \o s
                      ELSE <<Head(s)>> \o InsertSorted(Tail(s), x)
RECURSIVE SortVals(_)
SortVals(s) == IF s = << >> THEN << >> ELSE InsertSorted(SortVals(Tail(s)), Head(s))
RECURSIVE MapPut(_, _, _)
MapPut(m, k, v) == IF m = << >> THEN << <<k, v>> >>
                   ELSE IF Equal(Head(m)[1], k) THEN << <<k, v>> >> \o Tail(m)
                   ELSE IF Less(k, Head(m)[1]) THEN << <<k, v>> >> \o m
                   ELSE <<Head(m)>> \o MapPut(Tail(m), k, v)

\* Model bound: ints stay within +-10^6 (TLC integers are 32-bit); a program that
\* leaves the range gets the outcome "fuel" and is not used.
Big(n) == n > 1000000 \/ n < -1000000
Bounded(n) == IF Big(n) THEN O("fuel", Null) ELSE Val(IntV(n))
BinOp(op, a, b) ==
  CASE op = "+" -> IF a.k = "int" /\ b.k = "int" THEN Bounded(a.n + b.n)
                   ELSE IF a.k = "list" /\ b.k = "list" THEN Val(ListV(a.s \o b.s))
                   ELSE IF a.k = "list" /\ b.k \notin {"set", "null"} THEN Val(ListV(Append(a.s, b)))
                   ELSE IF a.k = "str" /\ b.k = "str" THEN Val(StrV(a.s \o b.s))
                   ELSE IF a.k = "null" \/ b.k = "null" THEN Val(Null)
                   ELSE RErr
    [] op = "-" -> IF a.k = "int" /\ b.k = "int" THEN Bounded(a.n - b.n)
                   ELSE IF a.k = "list" THEN RErr       \* not used by the generators
                   ELSE IF a.k = "null" \/ b.k = "null" THEN Val(Null) ELSE RErr
    [] op = "*" -> IF a.k = "int" /\ b.k = "int"
                   THEN (IF a.n > 30000 \/ a.n < -30000 \/ b.n > 30000 \/ b.n < -30000
                         THEN O("fuel", Null) ELSE Bounded(a.n * b.n))
                   ELSE IF a.k = "null" \/ b.k = "null" THEN Val(Null) ELSE RErr
    [] op = "/" -> IF a.k = "int" /\ b.k = "int"
                   THEN (IF b.n = 0 THEN RErr
                         ELSE LET q == (IF a.n < 0 THEN -a.n ELSE a.n) \div (IF b.n < 0 THEN -b.n ELSE b.n)
                              IN Val(IntV(IF (a.n < 0) # (b.n < 0) THEN -q ELSE q)))
                   ELSE IF a.k = "null" \/ b.k = "null" THEN Val(Null) ELSE RErr
    [] op = "%" -> IF a.k = "int" /\ b.k = "int"
                   THEN (IF b.n = 0 THEN RErr
                         ELSE IF a.n >= 0 /\ b.n > 0 THEN Val(IntV(a.n % b.n))
                         ELSE O("fuel", Null))            \* signs: ExprOps / C02's subject, not modelled here
                   ELSE IF a.k = "null" \/ b.k = "null" THEN Val(Null) ELSE RErr
    [] op = "==" -> Val(Bool(Equal(a, b)))
    [] op = "!=" -> Val(Bool(~Equal(a, b)))
    \* order between values of different kinds is not part of what this model defines (C07 speaks of the order
    \* within a kind): such a comparison ends the model run like exhausted fuel, the program is not compared
    [] op \in {"<", ">", "<=", ">="} /\ a.k # b.k -> O("fuel", Null)
    [] op = "<"  -> Val(Bool(Less(a, b)))
    [] op = ">"  -> Val(Bool(Less(b, a)))
    [] op = "<=" -> Val(Bool(Less(a, b) \/ Equal(a, b)))
    [] op = ">=" -> Val(Bool(Less(b, a) \/ Equal(a, b)))

-----------------------------------------------------------------------------
(* the environment chain: functions.py Environment.get / isDefined / put / set *)
RECURSIVE Lookup(_, _, _)
Lookup(envs, e, x) == IF e = 0 THEN 0
                      ELSE IF envs[e].vars[x] # Undef THEN e
                      ELSE Lookup(envs, envs[e].parent, x)

NewFrame(st, parent) ==
  [st EXCEPT !.envs = Append(@, [parent |-> parent, vars |-> [x \in Names |-> Undef]])]
Put(st, e, x, v) == [st EXCEPT !.envs[e].vars[x] = v]
Remove(st, e, x) == [st EXCEPT !.envs[e].vars[x] = Undef]
H(st, ev) == [st EXCEPT !.hist = Append(@, ev)]      \* ghost event

St0 == [envs |-> << [parent |-> 0, vars |-> [x \in Names |-> Undef]] >>,
        fns |-> << >>, log |-> << >>, hist |-> << >>, fuel |-> 150, nb |-> 0]

\* getCollectionValue / the per-kind branches of NodeFor: what a loop visits
Items(c, what) ==
  CASE c.k = "list" -> c.s
    [] c.k = "set"  -> c.s                                   \* kept sorted
    [] c.k = "map"  ->
         IF what = "keys" THEN [i \in 1..Len(c.s) |-> c.s[i][1]]
         ELSE IF what = "values" THEN [i \in 1..Len(c.s) |-> c.s[i][2]]   \* by ascending key
         ELSE [i \in 1..Len(c.s) |-> ListV(<<c.s[i][1], c.s[i][2]>>)]
    [] c.k = "str"  -> [i \in 1..Len(c.s) |-> StrV(<<c.s[i]>>)]
    [] c.k = "obj"  ->                                       \* members in the order they were given
         IF what = "keys" THEN [i \in 1..Len(c.s) |-> StrV(c.s[i][1])]
         ELSE IF what = "values" THEN [i \in 1..Len(c.s) |-> c.s[i][2]]
         ELSE [i \in 1..Len(c.s) |-> ListV(<<StrV(c.s[i][1]), c.s[i][2]>>)]
    [] OTHER -> << >>
Iterable(c) == c.k \in {"list", "set", "map", "str", "obj"}

-----------------------------------------------------------------------------
RECURSIVE Ev(_, _, _)
RECURSIVE EvSeq(_, _, _, _, _)       \* statements of a block, from index i
RECURSIVE EvCatch(_, _, _, _, _, _)  \* catch clauses from index j
RECURSIVE EvFin(_, _, _, _, _)       \* finally statements
RECURSIVE EvIf(_, _, _, _)
RECURSIVE EvLoop(_, _, _, _, _, _)   \* for-loop iterations
RECURSIVE EvWhile(_, _, _, _)
RECURSIVE EvArgs(_, _, _, _, _, _)   \* call arguments left to right
RECURSIVE EvItems(_, _, _, _, _)     \* list / set literal items
RECURSIVE EvMapItems(_, _, _, _, _)
RECURSIVE EvAnd(_, _, _, _)
RECURSIVE EvOr(_, _, _, _)
RECURSIVE Destructure(_, _, _, _, _, _, _)
RECURSIVE EachCall(_, _, _, _)
RECURSIVE EvCompr(_, _, _, _, _, _)
RECURSIVE EvCompr2(_, _, _, _, _, _)
RECURSIVE Apply(_, _, _, _)          \* FuncLambda.execute after Args.setArgs
RECURSIVE BindParams(_, _, _, _, _)

IsVal(r) == r.o.t = "val"

\* NodeAssignDestructuring / NodeDefDestructuring: missing items are NULL; an assignment needs every name
\* bound somewhere up the chain (names before the undefined one have been assigned by then) and updates the
\* nearest binding, a definition binds in the current frame
Destructure(isDef, ids, vals, i, e, st, last) ==
  IF i > Len(ids) THEN R(Val(last), st)
  ELSE LET v == IF i <= Len(vals) THEN vals[i] ELSE Null
           f == IF isDef THEN e ELSE Lookup(st.envs, e, ids[i])
       IN IF f = 0 THEN R(RErr, st)
          ELSE Destructure(isDef, ids, vals, i + 1, e,
                           H(Put(st, f, ids[i], v), <<IF isDef THEN "put" ELSE "set", ids[i], f>>), v)

\* NodeBlock.evaluate: a = <<stmts, catches, finallys>>; catches are
\* <<errNode or N("all"..), handler>>
EvBlock(node, e, st0) ==
  LET b   == st0.nb + 1
      st1 == H([st0 EXCEPT !.nb = b], <<"enter", b>>)
      body == EvSeq(node.a[1], 1, e, st1, b)
      afterBody ==
        IF body.o.t = "err"
        THEN (IF Len(node.a[2]) > 0
              THEN EvCatch(node.a[2], 1, e, H(body.st, <<"raise", b>>), body.o, b)
              ELSE R(body.o, H(body.st, <<"raise", b>>)))
        ELSE body
      fin == EvFin(node.a[3], 1, e, H(afterBody.st, <<"finally", b>>), b)
  IN IF afterBody.o.t = "fuel" THEN afterBody
     ELSE IF fin.o.t \in {"err", "fuel"} THEN R(fin.o, H(fin.st, <<"leave", b>>))
     ELSE R(afterBody.o, H(fin.st, <<"leave", b>>))

EvSeq(stmts, i, e, st, b) ==
  IF i > Len(stmts) THEN R(Val(TrueV), st)                     \* empty block: TRUE
  ELSE LET r == Ev(stmts[i], e, H(st, <<"stmt", b, i>>)) IN
       IF r.o.t # "val" \/ i = Len(stmts) THEN r                \* signal or error stops the block
       ELSE EvSeq(stmts, i + 1, e, r.st, b)

\* first clause whose value equals the error value (or `all`)
EvCatch(cs, j, e, st, errO, b) ==
  IF j > Len(cs) THEN R(errO, st)                               \* unmatched: propagates unchanged
  ELSE IF cs[j][1].n = "all"
       THEN Ev(cs[j][2], e, H(st, <<"handler", b, j>>))
       ELSE LET t == Ev(cs[j][1], e, st) IN
            IF ~IsVal(t) THEN t                                  \* error while evaluating the clause value
            ELSE IF Equal(t.o.v, errO.v)
                 THEN Ev(cs[j][2], e, H(t.st, <<"handler", b, j>>))
                 ELSE EvCatch(cs, j + 1, e, t.st, errO, b)

\* the results of finally statements are discarded; only an error escapes
EvFin(fs, i, e, st, b) ==
  IF i > Len(fs) THEN R(Val(Null), st)
  ELSE LET r == Ev(fs[i], e, st) IN
       IF r.o.t \in {"err", "fuel"} THEN r ELSE EvFin(fs, i + 1, e, r.st, b)

\* a = <<conds, thens, <<else>> or << >> >>
EvIf(node, i, e, st) ==
  IF i > Len(node.a[1])
  THEN (IF Len(node.a[3]) = 0 THEN R(Val(TrueV), st) ELSE Ev(node.a[3][1], e, st))
  ELSE LET c == Ev(node.a[1][i], e, st) IN
       IF ~IsVal(c) THEN c
       ELSE IF c.o.v.k # "bool" THEN R(RErr, c.st)
       ELSE IF c.o.v.n = 1 THEN Ev(node.a[2][i], e, c.st)
       ELSE EvIf(node, i + 1, e, c.st)

\* NodeFor: the loop variable(s) are bound in the *current* frame
\* (bindLoopVariables: a destructuring loop needs list or set elements; names
\* without a counterpart are bound to NULL)
Nth(s, i) == IF i <= Len(s) THEN s[i] ELSE Null
BindLoopVars(st, e, ids, v) ==
  IF Len(ids) = 1 THEN Put(st, e, ids[1], v)
  ELSE Put(Put(st, e, ids[1], Nth(v.s, 1)), e, ids[2], Nth(v.s, 2))
UnbindLoopVars(st, e, ids) ==
  IF Len(ids) = 1 THEN Remove(st, e, ids[1]) ELSE Remove(Remove(st, e, ids[1]), e, ids[2])

\* node.a = <<ids (sequence of names), what, iterable expr, body>>
EvLoop(node, items, i, e, st, last) ==
  LET ids == node.a[1]
      isStr == node.v.k = "str"          \* marker set by EvFor: string loops unbind per iteration
      done(o, s) == IF Len(items) > 0 /\ ~isStr THEN R(o, UnbindLoopVars(s, e, ids)) ELSE R(o, s)
  IN
  IF i > Len(items) THEN done(last, st)
  ELSE IF st.fuel = 0 THEN R(O("fuel", Null), st)
  ELSE IF Len(ids) = 2 /\ items[i].k \notin {"list", "set"}
  THEN R(RErr, st)                                  \* cannot destructure the element
  ELSE
  LET s1 == BindLoopVars([st EXCEPT !.fuel = @ - 1], e, ids, items[i])
      r  == Ev(node.a[4], e, s1) IN
  IF r.o.t = "brk" THEN done(Val(TrueV), r.st)
  ELSE IF r.o.t = "ret" THEN done(r.o, r.st)
  ELSE IF r.o.t \in {"err", "fuel"} THEN r           \* the loop variable stays bound
  ELSE LET s2 == IF isStr THEN UnbindLoopVars(r.st, e, ids) ELSE r.st
           v  == IF r.o.t = "cont" THEN Val(TrueV) ELSE r.o IN
       EvLoop(node, items, i + 1, e, s2, v)

EvFor(node, e, st) ==
  LET c == Ev(node.a[3], e, st) IN
  IF ~IsVal(c) THEN c
  ELSE IF ~Iterable(c.o.v) THEN R(RErr, c.st)
  ELSE EvLoop([node EXCEPT !.v = c.o.v], Items(c.o.v, node.a[2]), 1, e, c.st, Val(TrueV))

\* node.a = <<cond, body>>
EvWhile(node, e, st, last) ==
  LET c == Ev(node.a[1], e, st) IN
  IF ~IsVal(c) THEN c
  ELSE IF c.o.v.k # "bool" THEN R(RErr, c.st)
  ELSE IF c.o.v.n = 0 THEN R(last, c.st)
  ELSE IF c.st.fuel = 0 THEN R(O("fuel", Null), c.st)
  ELSE LET r == Ev(node.a[2], e, [c.st EXCEPT !.fuel = @ - 1]) IN
       IF r.o.t = "brk" THEN R(Val(TrueV), r.st)
       ELSE IF r.o.t \in {"ret", "err", "fuel"} THEN r
       ELSE EvWhile(node, e, r.st, IF r.o.t = "cont" THEN Val(TrueV) ELSE r.o)

EvAnd(xs, i, e, st) ==
  IF i > Len(xs) THEN R(Val(Bool(TRUE)), st)
  ELSE LET r == Ev(xs[i], e, st) IN
       IF ~IsVal(r) THEN r
       ELSE IF r.o.v.k # "bool" THEN R(RErr, r.st)
       ELSE IF r.o.v.n = 0 THEN R(Val(Bool(FALSE)), r.st) ELSE EvAnd(xs, i + 1, e, r.st)
EvOr(xs, i, e, st) ==
  IF i > Len(xs) THEN R(Val(Bool(FALSE)), st)
  ELSE LET r == Ev(xs[i], e, st) IN
       IF ~IsVal(r) THEN r
       ELSE IF r.o.v.k # "bool" THEN R(RErr, r.st)
       ELSE IF r.o.v.n = 1 THEN R(Val(Bool(TRUE)), r.st) ELSE EvOr(xs, i + 1, e, r.st)

EvItems(xs, i, e, st, acc) ==
  IF i > Len(xs) THEN R(Val(ListV(acc)), st)
  ELSE LET r == Ev(xs[i].a[1], e, st) IN
       IF ~IsVal(r) THEN r
       ELSE IF xs[i].n = "spread"
            THEN (IF r.o.v.k \in {"list", "set"} THEN EvItems(xs, i + 1, e, r.st, acc \o r.o.v.s)
                  ELSE R(RErr, r.st))
            ELSE EvItems(xs, i + 1, e, r.st, Append(acc, r.o.v))

EvMapItems(xs, i, e, st, acc) ==
  IF i > Len(xs) THEN R(Val(MapV(acc)), st)
  ELSE LET k == Ev(xs[i][1], e, st) IN
       IF ~IsVal(k) THEN k
       ELSE LET v == Ev(xs[i][2], e, k.st) IN
            IF ~IsVal(v) THEN v ELSE EvMapItems(xs, i + 1, e, v.st, MapPut(acc, k.o.v, v.o.v))

\* invoke(): arguments left to right in the caller's frame; spread of a list
\* gives positionals, of a map named arguments (by sorted key).
\* args entries: N("arg", name or "", _, <<expr>>) | N("spread", ...)
\* result value: list of <<name, value>> pairs (name "" = positional)
EvArgs(args, i, e, st, names, vals) ==
  IF i > Len(args) THEN R(Val(ListV(<<ListV(names), ListV(vals)>>)), st)
  ELSE LET r == Ev(args[i].a[1], e, st) IN
       IF ~IsVal(r) THEN r
       ELSE IF args[i].n = "spread"
            THEN (IF r.o.v.k \in {"list", "set"}
                  THEN EvArgs(args, i + 1, e, r.st,
                              names \o [j \in 1..Len(r.o.v.s) |-> StrV(<< >>)], vals \o r.o.v.s)
                  ELSE IF r.o.v.k = "map"
                  THEN EvArgs(args, i + 1, e, r.st,
                              names \o [j \in 1..Len(r.o.v.s) |->
                                          IF r.o.v.s[j][1].k = "str" THEN r.o.v.s[j][1] ELSE StrV(<< >>)],
                              vals \o [j \in 1..Len(r.o.v.s) |-> r.o.v.s[j][2]])
                  ELSE R(RErr, r.st))
            ELSE EvArgs(args, i + 1, e, r.st, Append(names, StrV(args[i].v.s)), Append(vals, r.o.v))

\* Args.setArgs: named arguments first, then positionals to the remaining
\* parameters in order, surplus to the rest parameter.
\* params: sequence of [name (string), code (code points), def (node or N("none")), rest (BOOLEAN)]
\* returns [ok, bound: sequence of <<param index, value>>, rest: sequence]
ParamIdx(params, code) ==
  LET S == {p \in 1..Len(params) : ~params[p].rest /\ params[p].code = code}
  IN IF S = {} THEN 0 ELSE CHOOSE p \in S : TRUE
HasRest(params) == \E p \in 1..Len(params) : params[p].rest

RECURSIVE SetNamed(_, _, _, _, _)
SetNamed(params, names, vals, i, bound) ==     \* bound: function param index -> value or Undef
  IF i > Len(names) THEN [ok |-> TRUE, bound |-> bound]
  ELSE IF names[i].s = << >> THEN SetNamed(params, names, vals, i + 1, bound)
  ELSE LET p == ParamIdx(params, names[i].s) IN
       IF p = 0 THEN [ok |-> FALSE, bound |-> bound]           \* Argument x is unknown
       ELSE SetNamed(params, names, vals, i + 1, [bound EXCEPT ![p] = vals[i]])

NextFree(params, bound) ==
  LET S == {p \in 1..Len(params) : ~params[p].rest /\ bound[p] = Undef}
  IN IF S = {} THEN 0 ELSE CHOOSE p \in S : \A q \in S : p <= q

RECURSIVE SetPositional(_, _, _, _, _, _, _)
SetPositional(params, names, vals, i, bound, rest, inKw) ==
  IF i > Len(names) THEN [ok |-> TRUE, bound |-> bound, rest |-> rest]
  ELSE IF names[i].s # << >> THEN SetPositional(params, names, vals, i + 1, bound, rest, TRUE)
  ELSE IF inKw THEN [ok |-> FALSE, bound |-> bound, rest |-> rest]   \* positional after named
  ELSE LET p == NextFree(params, bound) IN
       IF p = 0
       THEN (IF HasRest(params) THEN SetPositional(params, names, vals, i + 1, bound, Append(rest, vals[i]), inKw)
             ELSE [ok |-> FALSE, bound |-> bound, rest |-> rest])    \* Too many arguments
       ELSE SetPositional(params, names, vals, i + 1, [bound EXCEPT ![p] = vals[i]], rest, inKw)

\* FuncLambda.execute: fresh child of the *lexical* frame; parameters in order:
\* given value, else default evaluated in the callee frame, else error
BindParams(params, p, bnd, ce, st) ==
  IF p > Len(params) THEN R(Val(Null), st)
  ELSE IF params[p].rest THEN BindParams(params, p + 1, bnd, ce, Put(st, ce, params[p].name, ListV(bnd.rest)))
  ELSE IF bnd.bound[p] # Undef THEN BindParams(params, p + 1, bnd, ce, Put(st, ce, params[p].name, bnd.bound[p]))
  ELSE IF params[p].def.n # "none"
  THEN LET d == Ev(params[p].def, ce, st) IN
       IF ~IsVal(d) THEN d ELSE BindParams(params, p + 1, bnd, ce, Put(d.st, ce, params[p].name, d.o.v))
  ELSE R(RErr, st)                                              \* Missing argument

Apply(fv, names, vals, st) ==
  LET f == st.fns[fv.n]
      named == SetNamed(f.params, names, vals, 1, [p \in 1..Len(f.params) |-> Undef])
  IN IF ~named.ok THEN R(RErr, st)
  ELSE LET bnd == SetPositional(f.params, names, vals, 1, named.bound, << >>, FALSE) IN
  IF ~bnd.ok THEN R(RErr, st)
  ELSE IF st.fuel = 0 THEN R(O("fuel", Null), st)
  ELSE
  LET s1 == NewFrame([st EXCEPT !.fuel = @ - 1], f.env)
      ce == Len(s1.envs)
      b  == BindParams(f.params, 1, bnd, ce, H(s1, <<"call", fv.n, ce>>)) IN
  IF ~IsVal(b) THEN b
  ELSE LET r == Ev(f.body, ce, b.st) IN
       IF r.o.t = "ret" THEN R(Val(r.o.v), r.st)
       ELSE IF r.o.t \in {"brk", "cont"} THEN R(RErr, r.st)       \* stray break / continue
       ELSE r

EachCall(fv, items, i, st) ==
  IF i > Len(items) THEN R(Val(Null), st)                  \* (what the native returns is not used by the families)
  ELSE LET r == Apply(fv, <<StrV(<< >>)>>, <<items[i]>>, st) IN
       IF ~IsVal(r) THEN r ELSE EachCall(fv, items, i + 1, r.st)

\* comprehensions: a = <<value expr (a "kv" node <<key, value>> for maps), id, what, list expr, cond or "none">>
EvCompr(node, items, i, le, st, acc) ==
  \* the condition decides first, the value is evaluated only for accepted elements: that is what the
  \* equivalent explicit loop `for x in c do if cond then add(value)` does (C04)
  IF i > Len(items)
  THEN R(Val(CASE node.s = "list" -> ListV(acc) [] node.s = "set" -> SetV(SortVals(acc)) [] node.s = "map" -> MapV(acc)), st)
  ELSE IF st.fuel = 0 THEN R(O("fuel", Null), st)
  ELSE
  LET s1 == Put([st EXCEPT !.fuel = @ - 1], le, node.a[2], items[i])
      c  == IF node.a[5].n = "none" THEN R(Val(Bool(TRUE)), s1) ELSE Ev(node.a[5], le, s1)
  IN IF ~IsVal(c) THEN c
  ELSE IF c.o.v.k # "bool" THEN R(RErr, c.st)
  ELSE IF c.o.v.n = 0 THEN EvCompr(node, items, i + 1, le, c.st, acc)
  ELSE LET kv == IF node.s = "map" THEN Ev(node.a[1].a[1], le, c.st) ELSE R(Val(Null), c.st) IN
  IF ~IsVal(kv) THEN kv
  ELSE LET v == Ev(IF node.s = "map" THEN node.a[1].a[2] ELSE node.a[1], le, kv.st) IN
  IF ~IsVal(v) THEN v
  ELSE EvCompr(node, items, i + 1, le, v.st,
               IF node.s = "map" THEN MapPut(acc, kv.o.v, v.o.v) ELSE Append(acc, v.o.v))

EvCompr2(node, pairs, i, le, st, acc) ==
  IF i > Len(pairs)
  THEN R(Val(IF node.a[1] = "set" THEN SetV(SortVals(acc)) ELSE ListV(acc)), st)
  ELSE IF st.fuel = 0 THEN R(O("fuel", Null), st)
  ELSE
  LET s1 == Put(Put([st EXCEPT !.fuel = @ - 1], le, node.a[3], pairs[i][1]), le, node.a[6], pairs[i][2])
      c  == IF node.a[9].n = "none" THEN R(Val(Bool(TRUE)), s1) ELSE Ev(node.a[9], le, s1) IN
  IF ~IsVal(c) THEN c
  ELSE IF c.o.v.k # "bool" THEN R(RErr, c.st)
  ELSE IF c.o.v.n = 0 THEN EvCompr2(node, pairs, i + 1, le, c.st, acc)
  ELSE LET v == Ev(node.a[2], le, c.st) IN
  IF ~IsVal(v) THEN v
  ELSE EvCompr2(node, pairs, i + 1, le, v.st, Append(acc, v.o.v))

\* object member lookup following _proto_ (NodeDeref / NodeDerefInvoke)
RECURSIVE FindMember(_, _, _)
Member(o, code) == LET S == {i \in 1..Len(o.s) : o.s[i][1] = code}
                   IN IF S = {} THEN Undef ELSE o.s[CHOOSE i \in S : TRUE][2]
FindMember(o, code, depth) ==
  IF Member(o, code) # Undef THEN Member(o, code)
  ELSE LET p == Member(o, <<95, 112, 114, 111, 116, 111, 95>>) IN        \* _proto_
       IF p = Undef \/ p.k # "obj" \/ depth = 0 THEN Undef ELSE FindMember(p, code, depth - 1)

Ev(node, e, st) ==
  CASE node.n = "lit" -> R(Val(node.v), st)
    [] node.n = "var" ->
         LET f == Lookup(st.envs, e, node.s) IN
         IF f = 0 THEN R(RErr, st)
         ELSE R(Val(st.envs[f].vars[node.s]), H(st, <<"get", node.s, f>>))
    [] node.n = "def" ->                                  \* environment.put: current frame
         LET r == Ev(node.a[1], e, st) IN
         IF ~IsVal(r) THEN r ELSE R(r.o, H(Put(r.st, e, node.s, r.o.v), <<"put", node.s, e>>))
    [] node.n = "assign" ->                               \* environment.set: nearest defining frame
         IF Lookup(st.envs, e, node.s) = 0 THEN R(RErr, st)
         ELSE LET r == Ev(node.a[1], e, st) IN
              IF ~IsVal(r) THEN r
              ELSE LET f == Lookup(r.st.envs, e, node.s) IN
                   IF f = 0 THEN R(RErr, r.st)
                   ELSE R(r.o, H(Put(r.st, f, node.s, r.o.v), <<"set", node.s, f>>))
    [] node.n \in {"dassign", "ddef"} ->                  \* [x, y] = e  /  def [x, y] = e   (a = <<names, e>>)
         LET r == Ev(node.a[2], e, st) IN                 \* the right side first, then name by name
         IF ~IsVal(r) THEN r
         ELSE IF r.o.v.k \notin {"list", "set"} THEN R(RErr, r.st)
         ELSE Destructure(node.n = "ddef", node.a[1], r.o.v.s, 1, e, r.st, Null)
    [] node.n = "block" -> EvBlock(node, e, st)
    [] node.n = "if" -> EvIf(node, 1, e, st)
    [] node.n = "for" -> EvFor(node, e, st)
    [] node.n = "while" -> EvWhile(node, e, st, Val(TrueV))
    [] node.n = "break" -> R(O("brk", Null), st)
    [] node.n = "continue" -> R(O("cont", Null), st)
    [] node.n = "return" ->
         IF Len(node.a) = 0 THEN R(O("ret", Null), st)
         ELSE LET r == Ev(node.a[1], e, st) IN IF ~IsVal(r) THEN r ELSE R(O("ret", r.o.v), r.st)
    [] node.n = "error" ->
         LET r == Ev(node.a[1], e, st) IN IF ~IsVal(r) THEN r ELSE R(Err(r.o.v), r.st)
    [] node.n = "each" ->                                 \* a native that calls a user function once per element, in
         LET c == Ev(node.a[1], e, st) IN                 \* order (process_lines(lines, f), find(list, x, key = f)): an
         IF ~IsVal(c) THEN c                              \* error of the function travels through the native unchanged
         ELSE LET f == Ev(node.a[2], e, c.st) IN
              IF ~IsVal(f) THEN f
              ELSE IF f.o.v.k # "fn" \/ c.o.v.k # "list" THEN R(RErr, f.st)
              ELSE EachCall(f.o.v, c.o.v.s, 1, f.st)
    [] node.n = "input" -> Ev(node.a[1], e, st)           \* str_input(text): its lines, iterated like a list of strings
    [] node.n = "evalstr" -> Ev(node.a[1], e, st)         \* eval('<source>'): the code runs in the caller's frame
    [] node.n = "log" ->                                  \* log(x): append to the observation list
         LET r == Ev(node.a[1], e, st) IN
         IF ~IsVal(r) THEN r ELSE R(r.o, [r.st EXCEPT !.log = Append(@, r.o.v)])
    [] node.n = "bin" ->
         LET a == Ev(node.a[1], e, st) IN
         IF ~IsVal(a) THEN a
         ELSE LET b == Ev(node.a[2], e, a.st) IN
              IF ~IsVal(b) THEN b ELSE R(BinOp(node.s, a.o.v, b.o.v), b.st)
    [] node.n = "not" ->
         LET r == Ev(node.a[1], e, st) IN
         IF ~IsVal(r) THEN r ELSE IF r.o.v.k # "bool" THEN R(RErr, r.st) ELSE R(Val(Bool(r.o.v.n = 0)), r.st)
    [] node.n = "and" -> EvAnd(node.a, 1, e, st)
    [] node.n = "or"  -> EvOr(node.a, 1, e, st)
    [] node.n = "list" -> EvItems(node.a, 1, e, st, << >>)
    [] node.n = "set" ->
         LET r == EvItems(node.a, 1, e, st, << >>) IN
         IF ~IsVal(r) THEN r ELSE R(Val(SetV(SortVals(r.o.v.s))), r.st)
    [] node.n = "map" -> EvMapItems(node.a, 1, e, st, << >>)
    [] node.n = "obj" ->                                  \* a = sequence of <<code, node>>
         LET RECURSIVE go(_, _, _)
             go(i, s, acc) == IF i > Len(node.a) THEN R(Val(ObjV(acc)), s)
                              ELSE LET r == Ev(node.a[i][2], e, s) IN
                                   IF ~IsVal(r) THEN r ELSE go(i + 1, r.st, Append(acc, <<node.a[i][1], r.o.v>>))
         IN go(1, st, << >>)
    [] node.n = "fn" ->                                   \* NodeLambda: capture the current frame
         R(Val(FnV(Len(st.fns) + 1)),
           [st EXCEPT !.fns = Append(@, [params |-> node.a[1], body |-> node.a[2], env |-> e])])
    [] node.n \in {"call", "pipe"} ->                     \* a = <<callee expr, args>>; x !> f(a) is f(x, a)
         LET f == Ev(node.a[1], e, st) IN
         IF ~IsVal(f) THEN f
         ELSE IF f.o.v.k # "fn" THEN R(RErr, f.st)
         ELSE LET ar == EvArgs(node.a[2], 1, e, f.st, << >>, << >>) IN
              IF ~IsVal(ar) THEN ar
              ELSE Apply(f.o.v, ar.o.v.s[1].s, ar.o.v.s[2].s, ar.st)
    [] node.n = "method" ->                               \* obj->m(args): receiver first
         LET o == Ev(node.a[1], e, st) IN
         IF ~IsVal(o) THEN o
         ELSE IF o.o.v.k # "obj" THEN R(RErr, o.st)
         ELSE LET m == FindMember(o.o.v, node.v.s, 4) IN
              IF m = Undef \/ m.k # "fn" THEN R(RErr, o.st)
              ELSE LET ar == EvArgs(node.a[2], 1, e, o.st, <<StrV(<< >>)>>, <<o.o.v>>) IN
                   IF ~IsVal(ar) THEN ar
                   ELSE Apply(m, ar.o.v.s[1].s, ar.o.v.s[2].s, ar.st)
    [] node.n = "member" ->                               \* obj->name
         LET o == Ev(node.a[1], e, st) IN
         IF ~IsVal(o) THEN o
         ELSE IF o.o.v.k # "obj" THEN R(RErr, o.st)
         ELSE LET m == FindMember(o.o.v, node.v.s, 4) IN R(Val(IF m = Undef THEN Null ELSE m), o.st)
    [] node.n = "index" ->                                \* x[i]: NodeDeref on lists, strings, maps
         LET i == Ev(node.a[2], e, st) IN                 \* (the index is evaluated first)
         IF ~IsVal(i) THEN i
         ELSE LET c == Ev(node.a[1], e, i.st) IN
              IF ~IsVal(c) THEN c
              ELSE IF c.o.v.k = "null" THEN R(Val(Null), c.st)
              ELSE IF c.o.v.k \in {"list", "str"}
              THEN (IF i.o.v.k # "int" THEN R(RErr, c.st)
                    ELSE LET n == Len(c.o.v.s)
                             j == IF i.o.v.n < 0 THEN i.o.v.n + n ELSE i.o.v.n IN
                         IF j < 0 \/ j >= n THEN R(RErr, c.st)
                         ELSE R(Val(IF c.o.v.k = "list" THEN c.o.v.s[j + 1] ELSE StrV(<<c.o.v.s[j + 1]>>)), c.st))
              ELSE IF c.o.v.k = "map"
              THEN LET S == {p \in 1..Len(c.o.v.s) : Equal(c.o.v.s[p][1], i.o.v)} IN
                   IF S = {} THEN R(RErr, c.st) ELSE R(Val(c.o.v.s[CHOOSE p \in S : TRUE][2]), c.st)
              ELSE R(RErr, c.st)
    [] node.n = "compr2" ->     \* two-source comprehension: s = "product" | "parallel";
                                \* a = <<kind, value expr, id1, what1, list1, id2, what2, list2, cond or none>>
         LET s1 == NewFrame(st, e)
             le == Len(s1.envs)
             c1 == Ev(node.a[5], e, s1) IN
         IF ~IsVal(c1) THEN c1
         ELSE LET c2 == Ev(node.a[8], e, c1.st) IN
              IF ~IsVal(c2) THEN c2
              ELSE IF ~Iterable(c1.o.v) \/ ~Iterable(c2.o.v) THEN R(RErr, c2.st)
              ELSE LET W(w) == IF w = "" THEN "entries" ELSE w
                       i1 == Items(c1.o.v, W(node.a[4]))  i2 == Items(c2.o.v, W(node.a[7]))
                       n1 == Len(i1)  n2 == Len(i2)
                       pairs == IF node.s = "product"
                                THEN [k \in 1..(n1 * n2) |-> <<i1[((k - 1) \div n2) + 1], i2[((k - 1) % n2) + 1]>>]
                                ELSE [k \in 1..(IF n1 > n2 THEN n1 ELSE n2) |->
                                        <<IF k <= n1 THEN i1[k] ELSE Null, IF k <= n2 THEN i2[k] ELSE Null>>]
                   IN EvCompr2(node, pairs, 1, le, c2.st, << >>)
    [] node.n = "compr" ->                                \* list/set/map comprehension
         LET s1 == NewFrame(st, e)
             le == Len(s1.envs)
             c  == Ev(node.a[4], e, s1) IN
         IF ~IsVal(c) THEN c
         ELSE IF ~Iterable(c.o.v) THEN R(RErr, c.st)
         ELSE EvCompr(node, Items(c.o.v, IF c.o.v.k = "map" /\ node.a[3] = "" THEN "entries" ELSE node.a[3]),
                      1, le, c.st, << >>)

-----------------------------------------------------------------------------
(* interpret(): evaluate the program in the session frame; a return leaves
   with its value, stray break / continue are errors *)
Run(prog) ==
  LET r == Ev(prog, 1, St0) IN
  IF r.o.t = "ret" THEN R(Val(r.o.v), r.st)
  ELSE IF r.o.t \in {"brk", "cont"} THEN R(RErr, r.st)
  ELSE r
=============================================================================
