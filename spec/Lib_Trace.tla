---------------------------- MODULE Lib_Trace ----------------------------
(* C19, binding B: calls of the library functions recorded from the
   implementation (one NDJSON line per call: op, arguments, what the
   interpreter returned) are stepped through the reference operators of
   LibOps / BigInt / Bits32.  An event is accepted iff the recorded result is
   the reference result; all arithmetic is done here, by TLC, in limbs.  A
   rejected event is reported (@@BAD@@ with the line number) and validation
   continues, so every mismatch of a run is listed.  @@DRIFT@@ reports
   differences the property does not decide (shift counts >= 32 whose result
   is still a 32-bit word).

   Encodings (written by harness/c19.py):
     scalars      {"k":"int"|"dec"|"str","v":n}  as in LibOps ("dec": halves),
                  {"k":"bint","big":limbs}, {"k":"bdec","num":limbs,"e":k} (the
                  exact value num / 2^k of the double), {"k":"text","cp":[..]}
                  for every other int, decimal and string (each value has ONE
                  encoding: the compact one when it exists, bdec in lowest terms),
                  {"k":"list","items":[...]}, {"k":"other","v":0} for a value
                  outside the universe (never equal to a reference result)
     integers     limb records {"sg":..,"mag":[..]} (BigInt)
     numeric results  {"k":"int","big":limbs} | {"k":"dec","num":limbs,"e":k}
                  (= num / 2^k, the exact value of the double)
     ok           FALSE when the call raised an error instead of returning  *)
EXTENDS LibOps, BigInt, Bits32, Json, IOUtils

Trace == ndJsonDeserialize(IOEnv.TRACE_FILE)

VARIABLES l
vars == <<l>>

Ev == Trace[l]
Bad(why)   == PrintT("@@BAD@@" \o ToJson([l |-> l, why |-> why]))
Drift(why) == PrintT("@@DRIFT@@" \o ToJson([l |-> l, why |-> why]))
Note(why)  == PrintT("@@NOTE@@" \o ToJson([l |-> l, why |-> why]))
Check(c, why) == c \/ Bad(why)

-----------------------------------------------------------------------------
(* numeric observations against exact rationals *)
Two == FromInt(2)
ObsNum(o) == IF o.k = "int" THEN o.big ELSE o.num           \* numerator
ObsDen(o) == IF o.k = "int" THEN One ELSE Pow(Two, o.e)     \* denominator
\* o = n/d exactly
NumEq(o, r) == Mul(ObsNum(o), FromInt(r.d)) = Mul(FromInt(r.n), ObsDen(o))
\* |o - n/d| <= 1e-9 * |n/d|
E9 == Pow(FromInt(10), 9)
NumClose(o, r) ==
  LET diff == Abs(Sub(Mul(ObsNum(o), FromInt(r.d)), Mul(FromInt(r.n), ObsDen(o))))
  IN Leq(Mul(diff, E9), Mul(Abs(FromInt(r.n)), ObsDen(o)))
IsDyadic(d) == d \in {1, 2, 4, 8, 16, 32, 64, 128, 256, 512, 1024}
\* exact where the exact result is a double, else tolerance (DESIGN 2.4)
NumAgrees(o, r) == IF IsDyadic(r.d) THEN NumEq(o, r) ELSE NumClose(o, r)

(* ... and, for lists with wide elements, against dyadic rationals in limbs.
   Exact (to the last bit) where the double arithmetic of the textbook
   left-to-right evaluation is exact (LibOps!ExactSum ...), else within 1e-9
   of the magnitudes involved. *)
ObsQ(o) == QQ(ObsNum(o), IF o.k = "int" THEN 0 ELSE o.e)
\* |x| * 10^9 <= bound
Within(x, bound) == QCmp(QScale(QAbs(x), E9), bound) <= 0
SumOK(o, a) ==
  /\ (o.k = "int") = AllIntX(a)
  /\ IF ExactSum(a) THEN QCmp(ObsQ(o), SumQ(a)) = 0
     ELSE Within(QSub(ObsQ(o), SumQ(a)), AbsSumQ(a))
ProdOK(o, a) ==
  /\ (o.k = "int") = AllIntX(a)
  /\ IF ExactProd(a) THEN QCmp(ObsQ(o), ProdQ(a)) = 0
     ELSE Within(QSub(ObsQ(o), ProdQ(a)), QAbs(ProdQ(a)))
MeanOK(o, a) ==
  IF ExactMean(a) THEN QCmp(ObsQ(o), MeanQ(a)) = 0
  ELSE Within(QSub(QScale(ObsQ(o), FromInt(Len(a))), SumQ(a)), AbsSumQ(a))
MedianOK(o, a) ==
  IF Len(a) % 2 = 1 THEN QCmp(ObsQ(o), QV(MedLowEl(a))) = 0                 \* the middle element itself
  ELSE IF ExactMedian(a) THEN QCmp(QScale(ObsQ(o), BTwo), MedianSumQ(a)) = 0
  ELSE Within(QSub(QScale(ObsQ(o), BTwo), MedianSumQ(a)),
              QAdd(QAbs(QV(MedLowEl(a))), QAbs(QV(MedHighEl(a)))))

BigSum(s)  == LET f[i \in 0..Len(s)] == IF i = 0 THEN Zero ELSE Add(f[i - 1], s[i]) IN f[Len(s)]
BigProd(s) == LET f[i \in 0..Len(s)] == IF i = 0 THEN One ELSE Mul(f[i - 1], s[i]) IN f[Len(s)]

(* 32-bit words travel as limb integers *)
B65536 == FromInt(65536)
T32    == Pow(Two, 32)
InWord(x) == x.sg >= 0 /\ Less(x, T32)
WordOfBig(x) == [hi |-> ToInt(TruncDiv(x, B65536)), lo |-> ToInt(TruncMod(x, B65536))]
Val(w) == Add(Mul(FromInt(w.hi), B65536), FromInt(w.lo))

BitRef(op, a, b, n) ==
  CASE op = "bit_and" -> And(a, b)
    [] op = "bit_or"  -> Or(a, b)
    [] op = "bit_xor" -> Xor(a, b)
    [] op = "bit_not" -> Not(a)
    [] op = "bit_shift_left"   -> Shl(a, n)
    [] op = "bit_shift_right"  -> Shr(a, n)
    [] op = "bit_rotate_left"  -> Rotl(a, n)
    [] op = "bit_rotate_right" -> Rotr(a, n)

BitOps == {"bit_and", "bit_or", "bit_xor", "bit_not", "bit_shift_left",
           "bit_shift_right", "bit_rotate_left", "bit_rotate_right"}
ShiftOps == {"bit_shift_left", "bit_shift_right"}

SetRef(op, a, b) ==
  CASE op = "union" -> MUnion(a, b)
    [] op = "intersection" -> MIntersection(a, b)
    [] op = "diff" -> MDiff(a, b)
    [] op = "symmetric_diff" -> MSymDiff(a, b)
SetOps == {"union", "intersection", "diff", "symmetric_diff"}

ListRef(op, a) ==
  CASE op = "unique"  -> Unique(a)
    [] op = "reverse" -> Reverse(a)
    [] op = "flatten" -> Flatten(a)
    [] op = "pairs"   -> Pairs(a)
    [] op = "grouped" -> Grouped(a)
    [] op = "enumerate" -> Enumerate(a)
ListOps == {"unique", "reverse", "flatten", "pairs", "grouped", "enumerate"}

KeyRef(op, a) ==
  CASE op = "min" -> MinKey(a)
    [] op = "max" -> MaxKey(a)
    [] op = "median_low"  -> MedianLowKey(a)
    [] op = "median_high" -> MedianHighKey(a)
KeyOps == {"min", "max", "median_low", "median_high"}
ElRef(op, a) ==
  CASE op = "min" -> MinEl(a)
    [] op = "max" -> MaxEl(a)
    [] op = "median_low"  -> MedLowEl(a)
    [] op = "median_high" -> MedHighEl(a)
Compact(s) == \A i \in 1..Len(s) : s[i].k \in {"int", "dec", "str"}
Scalars == {"int", "dec", "str", "bint", "bdec", "text"}
\* what TLC multiplies out: powers of a one-limb base up to this many estimated limb steps (2^5000, 3^5000,
\* 7^2047, 20^2000), powers of longer bases up to this many bits
PowExactSteps == 250000
PowExactBits == 600

IntRef(op, a, b, k) ==
  CASE op = "pow"  -> Pow(a, k)
    [] op = "gcd"  -> Gcd(a, b)
    [] op = "lcm"  -> Lcm(a, b)
    [] op = "abs"  -> Abs(a)
    [] op = "sign" -> FromInt(Sign(a))
IntOps == {"pow", "gcd", "lcm", "abs", "sign"}

-----------------------------------------------------------------------------
Init == l = 1

Accept ==
  LET op == Ev.op IN
  CASE op \in SetOps ->
         Check(Ev.ok /\ Ev.isset /\ NoDup(Ev.r) /\ Members(Ev.r) = SetRef(op, Ev.a, Ev.b), op)
    [] op \in ListOps -> Check(Ev.ok /\ Ev.r = ListRef(op, Ev.a), op)
    [] op = "zip"     -> Check(Ev.ok /\ Ev.r = Zip(Ev.a, Ev.b), op)
    [] op = "chunks"  -> Check(Ev.ok /\ Ev.r = Chunks(Ev.a, Ev.n), op)
    [] op = "range"   -> Check(Ev.ok /\ Ev.r = Range(Ev.a, Ev.b, Ev.step), op)
    [] op = "interval" -> Check(Ev.ok /\ Ev.r = Interval(Ev.a, Ev.b), op)
    [] op = "filter"   -> Check(Ev.ok /\ Ev.r = Filter(Ev.s, Ev.f, Ev.c), op)
    [] op = "map_list" -> Check(Ev.ok /\ Ev.r = MapList(Ev.s, Ev.f, Ev.c), op)
    [] op = "reduce"   -> Check(Ev.ok /\ Ev.r = Reduce(Ev.s, Ev.f), op)
    [] op = "sum"  -> IF Compact(Ev.a)
                      THEN Check(Ev.ok /\ (Ev.r.k = "int") = Sum(Ev.a).int /\ NumEq(Ev.r, Sum(Ev.a).r), op)
                      ELSE Check(Ev.ok /\ SumOK(Ev.r, Ev.a), op)
    [] op = "prod" -> IF Compact(Ev.a)
                      THEN Check(Ev.ok /\ (Ev.r.k = "int") = Prod(Ev.a).int /\ NumEq(Ev.r, Prod(Ev.a).r), op)
                      ELSE Check(Ev.ok /\ ProdOK(Ev.r, Ev.a), op)
    [] op = "mean"   -> IF Compact(Ev.a) THEN Check(Ev.ok /\ NumAgrees(Ev.r, Mean(Ev.a)), op)
                        ELSE Check(Ev.ok /\ MeanOK(Ev.r, Ev.a), op)
    [] op = "median" -> IF Compact(Ev.a) THEN Check(Ev.ok /\ NumAgrees(Ev.r, Median(Ev.a)), op)
                        ELSE Check(Ev.ok /\ MedianOK(Ev.r, Ev.a), op)
    [] op \in KeyOps -> IF Compact(Ev.a)
                        THEN Check(Ev.ok /\ Ev.r.k \in {"int", "dec", "str"}
                                   /\ IsNum(Ev.r) = IsNum(Ev.a[1])
                                   /\ Key(Ev.r) = KeyRef(op, Ev.a), op)
                        ELSE Check(Ev.ok /\ Ev.r.k \in Scalars /\ Equal(Ev.r, ElRef(op, Ev.a)), op)
    [] op = "isum"  -> Check(Ev.ok /\ Ev.r = BigSum(Ev.a), op)
    [] op = "iprod" -> Check(Ev.ok /\ Ev.r = BigProd(Ev.a), op)
    [] op \in IntOps -> Check(Ev.ok /\ Ev.r = IntRef(op, Ev.a, Ev.b, Ev.k), op)
    \* pow with any int exponent >= 0 (limbs): multiplied out when that is affordable (and for the
    \* bases 0, 1, -1 whatever the exponent), else validated through the necessary conditions
    \* LibOps!PowPlausible (the harness compares such a result with the host's power as well)
    [] op = "powx" ->
         IF Ev.kb.sg = 0 \/ Ev.a.sg = 0 \/ Abs(Ev.a) = One THEN Check(Ev.ok /\ Ev.r = PowX(Ev.a, Ev.kb), op)
         ELSE IF Len(Ev.kb.mag) > 2 THEN Bad("exponent-too-large-for-the-trace-spec")
         ELSE LET k == ToInt(Ev.kb) IN
              IF Len(Ev.a.mag) = 1 /\ k <= 20000 /\ PowCost(Ev.a.mag[1], k) <= PowExactSteps
              THEN Check(Ev.ok /\ Ev.r = [sg |-> SignOfPow(Ev.a, k), mag |-> PowSmallMag(Ev.a.mag[1], k)], op)
              ELSE IF BitsMag(Ev.a.mag) * k <= PowExactBits THEN Check(Ev.ok /\ Ev.r = Pow(Ev.a, k), op)
              ELSE Check(Ev.ok /\ PowPlausible(Ev.r, Ev.a, k), op) /\ Note("pow-necessary-conditions")
    [] op \in BitOps ->
         LET want == Val(BitRef(op, WordOfBig(Ev.a), WordOfBig(Ev.b), Ev.n)) IN
         \* (shift counts >= 32 included: every bit is shifted out, the
         \* mathematical result - Bits32 - is the word 0)
         Check(Ev.ok /\ Ev.r = want, op)
    [] OTHER -> Bad("unknown-op")

Step ==
  /\ l <= Len(Trace)
  /\ l' = l + 1
  /\ Accept
  /\ (l = Len(Trace) => PrintT("@@DONE@@" \o ToJson([n |-> l])))

Spec == Init /\ [][Step]_vars

Accepted == TLCGet("stats").diameter - 1 = Len(Trace)
=============================================================================
