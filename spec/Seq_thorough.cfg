CONSTANTS
  K = 3
  MaxLen = 6
  Span = 9
  Export = TRUE
SPECIFICATION Spec
CONSTRAINT Bound
INVARIANT TypeOK
INVARIANT IndexLaw
INVARIANT SliceLaw
INVARIANT SplitLaw
INVARIANT FindLaw
INVARIANT FindSubLaw
INVARIANT ExportReads
PROPERTY OneChangeProp
CHECK_DEADLOCK FALSE
