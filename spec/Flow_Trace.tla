---------------------------- MODULE Flow_Trace ----------------------------
(* C04, binding B: conditionals, loops and function bodies as the real
   evaluator runs them.  harness/flowtrace.py wraps, after parsing, every
   NodeIf / NodeFor / NodeWhile and every function body of every program -
   library code of the bundled modules included - in logging proxies (the
   conditions, branches, loop sources and loop bodies are proxies too); the
   unmodified evaluate methods drive them.  This module is the automaton each
   instance has to follow, written from the property:

     if      conditions are evaluated in order up to the first TRUE one, exactly
             that branch runs (the else part only after every condition was
             FALSE), the construct yields what the branch yielded;
     for     the source is evaluated once; list elements and characters are
             visited in order, set elements and map keys in ascending order,
             each exactly once; a body ending in `continue` or normally is
             followed by the next element, `break` ends THIS loop (which then
             yields a plain value), `return` ends it and is passed on, an error
             ends it;
     while   the condition is evaluated before every iteration, the body runs
             only after TRUE, the loop ends after FALSE;
     call    a body ending in `return v` or in a plain value v makes the call
             yield v; a stray break / continue makes it fail.

   Instances nest (a stack): an event of an instance that is not the innermost
   open one is rejected, which is what "innermost enclosing loop / function"
   means operationally.  Events (NDJSON; each program starts with `new`):
     [e |-> "enter", b, c, n]        c = "if" | "for" | "while" | "call"; n = number of conditions (if)
     [e |-> "cond", b, j, o, v]      if: condition j evaluated, o = "val" | "err" | ..., v = "T" | "F" | "other"
     [e |-> "branch", b, j] [e |-> "branchend", b, j, o]     j = n + 1: the else part
     [e |-> "coll", b, o, kind, what, nids, els]   for: the source, els in STORAGE order
                                     el = [k, n, s, t, items]  (k "int" | "str" | "other"; t rendering; items renderings of a list/set element's items)
                                     map: els = <<[key |-> el, val |-> el], ...>>
     [e |-> "iter", b, i, vars, live, len]     body i starts; vars = renderings of the loop variables, each [t, items];
                                     live / len: for a list source, the rendering of element i of the list as it is NOW
                                     and its current length (lists are iterated live)
     [e |-> "bodyend", b, i, o]
     [e |-> "wcond", b, o, v]  (while)
     [e |-> "fbody", b] [e |-> "fbodyend", b, o, v]          function body; v rendering of the value (carried by return)
     [e |-> "leave", b, o, v, len]
   o = "val" | "break" | "continue" | "return" | "err" | "host".
   A rejected event is reported (@@BAD@@ with the rule); the automaton follows
   the implementation so that later events are still checked.                *)
EXTENDS Integers, Sequences, FiniteSets, TLC, Json, IOUtils

Trace == ndJsonDeserialize(IOEnv.TRACE_FILE)

VARIABLES l, stk
vars == <<l, stk>>

Ev == Trace[l]
Top == stk[Len(stk)]
Bad(rule) == PrintT("@@BAD@@" \o ToJson([l |-> l, rule |-> rule]))
Check(c, rule) == IF c THEN TRUE ELSE Bad(rule)
Unchecked(why) == PrintT("@@UNCHECKED@@" \o ToJson([l |-> l, why |-> why]))
Pop == SubSeq(stk, 1, Len(stk) - 1)
SetTop(fr) == [stk EXCEPT ![Len(stk)] = fr]

NoEl == [k |-> "other", n |-> 0, s |-> << >>, t |-> "", items |-> << >>]

\* ---- the language's ascending order, for the kinds the statement's generated programs use
RECURSIVE SeqLess(_, _)
SeqLess(a, b) == IF a = << >> THEN b # << >>
                 ELSE IF b = << >> THEN FALSE
                 ELSE IF a[1] # b[1] THEN a[1] < b[1]
                 ELSE SeqLess(Tail(a), Tail(b))
Less(x, y) == IF x.k = "int" THEN x.n < y.n ELSE SeqLess(x.s, y.s)
Sortable(els) == \/ \A i \in 1..Len(els) : els[i].k = "int"
                 \/ \A i \in 1..Len(els) : els[i].k = "str"
KeyOf(kind, x) == IF kind = "map" THEN x.key ELSE x
\* expected visiting order: "" when the statement fixes none that the model can compute
Ordered(kind, els) ==
  IF kind \in {"list", "string"} THEN els
  ELSE IF kind \in {"set", "map"} /\ Sortable([i \in 1..Len(els) |-> KeyOf(kind, els[i])])
       THEN SortSeq(els, LAMBDA x, y : Less(KeyOf(kind, x), KeyOf(kind, y)))
  ELSE els
HasOrder(kind, els) ==
  \/ kind \in {"list", "string"}
  \/ kind \in {"set", "map"} /\ Sortable([i \in 1..Len(els) |-> KeyOf(kind, els[i])])

NullText == "null:NULL"
ItemOr(items, j) == IF j <= Len(items) THEN items[j] ELSE NullText
\* do the loop variables show element x (of a source of this kind, iterated as `what`)?
Shows(kind, what, nids, x, vs) ==
  LET bound == IF kind # "map" THEN [single |-> TRUE, a |-> x, b |-> x]
               ELSE IF what = "keys" THEN [single |-> TRUE, a |-> x.key, b |-> x.key]
               ELSE IF what = "values" THEN [single |-> TRUE, a |-> x.val, b |-> x.val]
               ELSE [single |-> FALSE, a |-> x.key, b |-> x.val]       \* entries: the pair [key, value]
  IN IF bound.single
     THEN IF nids = 1 THEN vs[1].t = bound.a.t
          ELSE \A j \in 1..nids : vs[j].t = ItemOr(bound.a.items, j)
     ELSE IF nids = 1 THEN vs[1].items = <<bound.a.t, bound.b.t>>
          ELSE \A j \in 1..nids : vs[j].t = ItemOr(<<bound.a.t, bound.b.t>>, j)

Frame(e) == [b |-> e.b, c |-> e.c, n |-> e.n,
             phase |-> "start",     \* if: start/testing -> chosen -> running -> done | failed
                                    \* for: start -> ready -> body -> ready ... | failed
                                    \* while: start -> tested(T/F) -> body ...
                                    \* call: start -> body -> done
             j |-> 0,               \* if: conditions tested / branch chosen; loops: iterations started
             last |-> "",           \* outcome of the last body / branch / condition
             v |-> "",              \* rendering carried by the function body's outcome
             kind |-> "", what |-> "", nids |-> 0, els |-> << >>, ordered |-> FALSE]

Step ==
  /\ l <= Len(Trace)
  /\ l' = l + 1
  /\ LET e == Ev IN
     CASE e.e = "new" ->
            /\ Check(stk = << >>, "program-ended-with-open-constructs")
            /\ stk' = << >>
       [] e.e = "enter" -> stk' = Append(stk, Frame(e))
       [] stk = << >> -> Bad("event-outside-any-construct") /\ stk' = stk
       [] e.b # Top.b -> Bad("not-the-innermost-open-construct") /\ stk' = stk
       \* ------------------------------------------------------------------ if
       [] e.e = "cond" ->
            /\ Check(Top.c = "if" /\ Top.phase \in {"start", "testing"} /\ e.j = Top.j + 1 /\ e.j <= Top.n,
                     "condition-evaluated-out-of-order-or-after-a-true-one")
            /\ stk' = SetTop([Top EXCEPT !.j = e.j, !.last = e.o,
                                         !.phase = IF e.o # "val" THEN "failed"
                                                   ELSE IF e.v = "T" THEN "chosen"
                                                   ELSE IF e.v = "F" THEN "testing" ELSE "mustfail"])
       [] e.e = "branch" ->
            /\ Check(Top.c = "if", "branch-outside-if")
            /\ Check(IF e.j <= Top.n THEN Top.phase = "chosen" /\ Top.j = e.j
                     ELSE Top.phase \in {"start", "testing"} /\ Top.j = Top.n,
                     "branch-is-not-the-first-whose-condition-is-true")
            /\ stk' = SetTop([Top EXCEPT !.phase = "running"])
       [] e.e = "branchend" ->
            /\ Check(Top.c = "if" /\ Top.phase = "running", "branch-end-unexpected")
            /\ stk' = SetTop([Top EXCEPT !.phase = "done", !.last = e.o])
       \* ----------------------------------------------------------------- for
       [] e.e = "coll" ->
            /\ Check(Top.c = "for" /\ Top.phase = "start", "loop-source-evaluated-again")
            /\ (IF e.o = "val" /\ ~HasOrder(e.kind, e.els) /\ Len(e.els) > 1
                THEN Unchecked("visiting order of this source is not fixed by the model") ELSE TRUE)
            /\ stk' = SetTop([Top EXCEPT !.phase = IF e.o = "val" THEN "ready" ELSE "failed", !.last = e.o,
                                         !.kind = e.kind, !.what = e.what, !.nids = e.nids,
                                         !.els = IF e.o = "val" THEN Ordered(e.kind, e.els) ELSE << >>,
                                         !.ordered = e.o = "val" /\ HasOrder(e.kind, e.els)])
       [] e.e = "iter" /\ Top.c = "for" ->
            /\ Check(Top.phase = "ready" /\ Top.last \in {"val", "continue"}, "iteration-after-the-loop-was-ended")
            /\ Check(e.i = Top.j + 1, "iteration-count-out-of-step")
            /\ (IF Top.kind = "list"
                THEN Check(e.i <= e.len /\ (Top.nids > 1 \/ e.vars[1].t = e.live), "list-element-not-visited-in-order")
                ELSE IF Top.kind \in {"input", "object"} THEN TRUE
                ELSE /\ Check(e.i <= Len(Top.els), "more-iterations-than-elements")
                     /\ (IF e.i <= Len(Top.els) /\ Top.ordered
                         THEN Check(Shows(Top.kind, Top.what, Top.nids, Top.els[e.i], e.vars), "element-not-visited-in-ascending-order")
                         ELSE TRUE))
            /\ stk' = SetTop([Top EXCEPT !.phase = "body", !.j = e.i])
       [] e.e = "bodyend" /\ Top.c = "for" ->
            /\ Check(Top.phase = "body" /\ e.i = Top.j, "body-end-unexpected")
            /\ stk' = SetTop([Top EXCEPT !.phase = "ready", !.last = e.o])
       \* --------------------------------------------------------------- while
       [] e.e = "wcond" ->
            /\ Check(Top.c = "while" /\ (Top.phase = "start" \/ (Top.phase = "ready" /\ Top.last \in {"val", "continue"})),
                     "condition-tested-at-the-wrong-time")
            /\ stk' = SetTop([Top EXCEPT !.phase = IF e.o # "val" THEN "failed"
                                                   ELSE IF e.v = "T" THEN "true" ELSE IF e.v = "F" THEN "false" ELSE "mustfail",
                                         !.last = e.o])
       [] e.e = "iter" /\ Top.c = "while" ->
            /\ Check(Top.phase = "true", "body-without-a-fresh-true-condition")
            /\ stk' = SetTop([Top EXCEPT !.phase = "body", !.j = e.i])
       [] e.e = "bodyend" /\ Top.c = "while" ->
            /\ Check(Top.phase = "body", "body-end-unexpected")
            /\ stk' = SetTop([Top EXCEPT !.phase = "ready", !.last = e.o])
       \* ---------------------------------------------------------------- call
       [] e.e = "fbody" ->
            /\ Check(Top.c = "call" /\ Top.phase = "start", "function-body-run-twice")
            /\ stk' = SetTop([Top EXCEPT !.phase = "body"])
       [] e.e = "fbodyend" ->
            /\ Check(Top.c = "call" /\ Top.phase = "body", "function-body-end-unexpected")
            /\ stk' = SetTop([Top EXCEPT !.phase = "done", !.last = e.o, !.v = e.v])
       \* --------------------------------------------------------------- leave
       [] e.e = "leave" /\ e.o = "host" -> stk' = Pop     \* a host exception (watchdog, recursion limit) can strike anywhere: C13's subject
       [] e.e = "leave" ->
            /\ (CASE Top.c = "if" ->
                       /\ Check(Top.phase \in {"done", "failed", "mustfail"}, "if-left-without-running-a-branch")
                       /\ Check(Top.phase = "done" => e.o = Top.last, "if-does-not-yield-what-its-branch-yielded")
                       /\ Check(Top.phase \in {"failed", "mustfail"} => e.o \in {"err", "host"}, "if-with-a-failing-condition-did-not-fail")
                  [] Top.c = "for" ->
                       /\ Check(Top.phase \notin {"body", "start"}, "loop-left-inside-its-body-or-before-its-source")
                       /\ Check(Top.phase = "failed" => e.o = "err", "loop-over-a-failing-source-did-not-fail")
                       /\ Check(Top.last = "break" => e.o = "val", "break-not-consumed-by-the-innermost-loop")
                       /\ Check(Top.last = "return" => e.o = "return", "return-not-passed-on-by-the-loop")
                       /\ Check(Top.last \in {"err", "host"} => e.o \in {"err", "host"}, "error-swallowed-by-the-loop")
                       /\ Check(e.o \in {"val", "return", "err", "host"}, "loop-yields-a-loop-signal")
                       /\ Check((e.o = "val" /\ Top.last \in {"val", "continue"} /\ Top.phase = "ready")
                                  => (IF Top.kind = "list" THEN Top.j >= e.len
                                      ELSE IF Top.kind \in {"input", "object"} THEN TRUE
                                      ELSE Top.j = Len(Top.els)),
                                "loop-ended-before-every-element-was-visited")
                       /\ Check(e.o = "return" => Top.last = "return", "loop-returned-without-a-return")
                  [] Top.c = "while" ->
                       /\ Check(Top.phase # "body", "loop-left-inside-its-body")
                       /\ Check(Top.phase = "false" => e.o = "val", "loop-after-false-condition-must-yield-a-value")
                       /\ Check(Top.phase \in {"true", "start"} => e.o \in {"err", "host"}, "loop-left-without-testing-false")
                       /\ Check(Top.phase = "ready" /\ Top.last = "break" => e.o = "val", "break-not-consumed-by-the-innermost-loop")
                       /\ Check(Top.phase = "ready" /\ Top.last = "return" => e.o = "return", "return-not-passed-on-by-the-loop")
                       /\ Check(Top.phase = "ready" /\ Top.last \in {"val", "continue"} => e.o \in {"err", "host"},
                                "loop-ended-without-re-testing-its-condition")
                       /\ Check(Top.phase = "ready" /\ Top.last \in {"err", "host"} => e.o \in {"err", "host"}, "error-swallowed-by-the-loop")
                       /\ Check(Top.phase \in {"failed", "mustfail"} => e.o \in {"err", "host"}, "loop-with-a-failing-condition-did-not-fail")
                       /\ Check(e.o \in {"val", "return", "err", "host"}, "loop-yields-a-loop-signal")
                  [] Top.c = "call" ->
                       /\ Check(Top.phase # "body", "call-left-inside-its-body")
                       /\ Check(Top.phase = "start" => e.o \in {"err", "host"}, "call-yielded-without-running-the-body")
                       /\ Check((Top.phase = "done" /\ Top.last \in {"val", "return"}) => (e.o = "val" /\ e.v = Top.v),
                                "call-does-not-yield-the-returned-value")
                       /\ Check((Top.phase = "done" /\ Top.last \in {"break", "continue"}) => e.o = "err",
                                "stray-break-or-continue-left-a-function")
                       /\ Check((Top.phase = "done" /\ Top.last \in {"err", "host"}) => e.o \in {"err", "host"}, "error-swallowed-by-the-call")
                  [] OTHER -> Bad("unknown-construct"))
            /\ stk' = Pop
       [] OTHER -> Bad("unknown-event") /\ stk' = stk
  /\ (l = Len(Trace) => PrintT("@@DONE@@" \o ToJson([n |-> l, open |-> Len(stk')])))

Init == l = 1 /\ stk = << >>
Spec == Init /\ [][Step]_vars
Accepted == TLCGet("stats").diameter - 1 = Len(Trace)
=============================================================================
