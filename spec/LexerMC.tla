---------------------------- MODULE LexerMC ----------------------------
(* Chunk tables for the configurations of Lexer.tla (generated once by the
   fragment in tools/; plain data).  K1-K4: single characters (raw noise)
   around operators, numbers, strings/escapes, words.  TOK/SEP: complete token
   spellings with their intended (type, value) and the separators of the
   layout alphabet. *)
EXTENDS Lexer

K1 == {[text |-> <<32>>, tok |-> 0, ty |-> "", val |-> << >>], [text |-> <<10>>, tok |-> 0, ty |-> "", val |-> << >>], [text |-> <<43>>, tok |-> 0, ty |-> "", val |-> << >>], [text |-> <<45>>, tok |-> 0, ty |-> "", val |-> << >>], [text |-> <<42>>, tok |-> 0, ty |-> "", val |-> << >>], [text |-> <<47>>, tok |-> 0, ty |-> "", val |-> << >>], [text |-> <<37>>, tok |-> 0, ty |-> "", val |-> << >>], [text |-> <<60>>, tok |-> 0, ty |-> "", val |-> << >>], [text |-> <<62>>, tok |-> 0, ty |-> "", val |-> << >>], [text |-> <<61>>, tok |-> 0, ty |-> "", val |-> << >>], [text |-> <<33>>, tok |-> 0, ty |-> "", val |-> << >>], [text |-> <<40>>, tok |-> 0, ty |-> "", val |-> << >>], [text |-> <<59>>, tok |-> 0, ty |-> "", val |-> << >>], [text |-> <<97>>, tok |-> 0, ty |-> "", val |-> << >>], [text |-> <<46>>, tok |-> 0, ty |-> "", val |-> << >>]}

K2 == {[text |-> <<32>>, tok |-> 0, ty |-> "", val |-> << >>], [text |-> <<10>>, tok |-> 0, ty |-> "", val |-> << >>], [text |-> <<48>>, tok |-> 0, ty |-> "", val |-> << >>], [text |-> <<49>>, tok |-> 0, ty |-> "", val |-> << >>], [text |-> <<57>>, tok |-> 0, ty |-> "", val |-> << >>], [text |-> <<120>>, tok |-> 0, ty |-> "", val |-> << >>], [text |-> <<98>>, tok |-> 0, ty |-> "", val |-> << >>], [text |-> <<95>>, tok |-> 0, ty |-> "", val |-> << >>], [text |-> <<46>>, tok |-> 0, ty |-> "", val |-> << >>], [text |-> <<102>>, tok |-> 0, ty |-> "", val |-> << >>], [text |-> <<43>>, tok |-> 0, ty |-> "", val |-> << >>], [text |-> <<40>>, tok |-> 0, ty |-> "", val |-> << >>]}

K3 == {[text |-> <<32>>, tok |-> 0, ty |-> "", val |-> << >>], [text |-> <<10>>, tok |-> 0, ty |-> "", val |-> << >>], [text |-> <<34>>, tok |-> 0, ty |-> "", val |-> << >>], [text |-> <<39>>, tok |-> 0, ty |-> "", val |-> << >>], [text |-> <<92>>, tok |-> 0, ty |-> "", val |-> << >>], [text |-> <<110>>, tok |-> 0, ty |-> "", val |-> << >>], [text |-> <<120>>, tok |-> 0, ty |-> "", val |-> << >>], [text |-> <<52>>, tok |-> 0, ty |-> "", val |-> << >>], [text |-> <<49>>, tok |-> 0, ty |-> "", val |-> << >>], [text |-> <<97>>, tok |-> 0, ty |-> "", val |-> << >>], [text |-> <<35>>, tok |-> 0, ty |-> "", val |-> << >>], [text |-> <<47>>, tok |-> 0, ty |-> "", val |-> << >>]}

K4 == {[text |-> <<32>>, tok |-> 0, ty |-> "", val |-> << >>], [text |-> <<10>>, tok |-> 0, ty |-> "", val |-> << >>], [text |-> <<13>>, tok |-> 0, ty |-> "", val |-> << >>], [text |-> <<9>>, tok |-> 0, ty |-> "", val |-> << >>], [text |-> <<35>>, tok |-> 0, ty |-> "", val |-> << >>], [text |-> <<97>>, tok |-> 0, ty |-> "", val |-> << >>], [text |-> <<46>>, tok |-> 0, ty |-> "", val |-> << >>], [text |-> <<105>>, tok |-> 0, ty |-> "", val |-> << >>], [text |-> <<102>>, tok |-> 0, ty |-> "", val |-> << >>], [text |-> <<84>>, tok |-> 0, ty |-> "", val |-> << >>], [text |-> <<82>>, tok |-> 0, ty |-> "", val |-> << >>], [text |-> <<85>>, tok |-> 0, ty |-> "", val |-> << >>], [text |-> <<69>>, tok |-> 0, ty |-> "", val |-> << >>]}

\* characters on which the host's character predicates and its numeric conversions disagree: superscript two,
\* an Arabic-Indic digit, a circled digit (str.isdigit / int / float), a no-break space (str.isspace), a letter
\* outside ASCII
K5 == {[text |-> <<32>>, tok |-> 0, ty |-> "", val |-> << >>], [text |-> <<10>>, tok |-> 0, ty |-> "", val |-> << >>], [text |-> <<49>>, tok |-> 0, ty |-> "", val |-> << >>], [text |-> <<46>>, tok |-> 0, ty |-> "", val |-> << >>], [text |-> <<178>>, tok |-> 0, ty |-> "", val |-> << >>], [text |-> <<1635>>, tok |-> 0, ty |-> "", val |-> << >>], [text |-> <<160>>, tok |-> 0, ty |-> "", val |-> << >>], [text |-> <<233>>, tok |-> 0, ty |-> "", val |-> << >>], [text |-> <<9314>>, tok |-> 0, ty |-> "", val |-> << >>], [text |-> <<95>>, tok |-> 0, ty |-> "", val |-> << >>], [text |-> <<120>>, tok |-> 0, ty |-> "", val |-> << >>], [text |-> <<34>>, tok |-> 0, ty |-> "", val |-> << >>]}

SEP == {[text |-> <<32>>, tok |-> 0, ty |-> "", val |-> << >>],
        [text |-> <<9>>, tok |-> 0, ty |-> "", val |-> << >>],
        [text |-> <<10>>, tok |-> 0, ty |-> "", val |-> << >>],
        [text |-> <<13,10>>, tok |-> 0, ty |-> "", val |-> << >>],
        [text |-> <<35,32,99,10>>, tok |-> 0, ty |-> "", val |-> << >>],
        [text |-> <<32,32>>, tok |-> 0, ty |-> "", val |-> << >>]}

TOK == {[text |-> <<43>>, tok |-> 1, ty |-> "operator", val |-> <<43>>],
        [text |-> <<45>>, tok |-> 1, ty |-> "operator", val |-> <<45>>],
        [text |-> <<42>>, tok |-> 1, ty |-> "operator", val |-> <<42>>],
        [text |-> <<47>>, tok |-> 1, ty |-> "operator", val |-> <<47>>],
        [text |-> <<37>>, tok |-> 1, ty |-> "operator", val |-> <<37>>],
        [text |-> <<61,61>>, tok |-> 1, ty |-> "operator", val |-> <<61,61>>],
        [text |-> <<33,61>>, tok |-> 1, ty |-> "operator", val |-> <<33,61>>],
        [text |-> <<60,62>>, tok |-> 1, ty |-> "operator", val |-> <<33,61>>],
        [text |-> <<60>>, tok |-> 1, ty |-> "operator", val |-> <<60>>],
        [text |-> <<60,61>>, tok |-> 1, ty |-> "operator", val |-> <<60,61>>],
        [text |-> <<62>>, tok |-> 1, ty |-> "operator", val |-> <<62>>],
        [text |-> <<62,61>>, tok |-> 1, ty |-> "operator", val |-> <<62,61>>],
        [text |-> <<61>>, tok |-> 1, ty |-> "operator", val |-> <<61>>],
        [text |-> <<43,61>>, tok |-> 1, ty |-> "operator", val |-> <<43,61>>],
        [text |-> <<45,61>>, tok |-> 1, ty |-> "operator", val |-> <<45,61>>],
        [text |-> <<42,61>>, tok |-> 1, ty |-> "operator", val |-> <<42,61>>],
        [text |-> <<47,61>>, tok |-> 1, ty |-> "operator", val |-> <<47,61>>],
        [text |-> <<37,61>>, tok |-> 1, ty |-> "operator", val |-> <<37,61>>],
        [text |-> <<33,62>>, tok |-> 1, ty |-> "operator", val |-> <<33,62>>],
        [text |-> <<45,62>>, tok |-> 1, ty |-> "operator", val |-> <<45,62>>],
        [text |-> <<40>>, tok |-> 1, ty |-> "interpunction", val |-> <<40>>],
        [text |-> <<41>>, tok |-> 1, ty |-> "interpunction", val |-> <<41>>],
        [text |-> <<91>>, tok |-> 1, ty |-> "interpunction", val |-> <<91>>],
        [text |-> <<93>>, tok |-> 1, ty |-> "interpunction", val |-> <<93>>],
        [text |-> <<44>>, tok |-> 1, ty |-> "interpunction", val |-> <<44>>],
        [text |-> <<59>>, tok |-> 1, ty |-> "interpunction", val |-> <<59>>],
        [text |-> <<60,60>>, tok |-> 1, ty |-> "interpunction", val |-> <<60,60>>],
        [text |-> <<62,62>>, tok |-> 1, ty |-> "interpunction", val |-> <<62,62>>],
        [text |-> <<60,60,60>>, tok |-> 1, ty |-> "interpunction", val |-> <<60,60,60>>],
        [text |-> <<62,62,62>>, tok |-> 1, ty |-> "interpunction", val |-> <<62,62,62>>],
        [text |-> <<61,62>>, tok |-> 1, ty |-> "interpunction", val |-> <<61,62>>],
        [text |-> <<60,42>>, tok |-> 1, ty |-> "interpunction", val |-> <<60,42>>],
        [text |-> <<42,62>>, tok |-> 1, ty |-> "interpunction", val |-> <<42,62>>],
        [text |-> <<46,46,46>>, tok |-> 1, ty |-> "interpunction", val |-> <<46,46,46>>],
        [text |-> <<50,53,53>>, tok |-> 1, ty |-> "int", val |-> <<50,53,53>>],
        [text |-> <<48,120,102,102>>, tok |-> 1, ty |-> "int", val |-> <<50,53,53>>],
        [text |-> <<48,120,70,70>>, tok |-> 1, ty |-> "int", val |-> <<50,53,53>>],
        [text |-> <<48,98,49,49,49,49,95,49,49,49,49>>, tok |-> 1, ty |-> "int", val |-> <<50,53,53>>],
        [text |-> <<50,95,53,53>>, tok |-> 1, ty |-> "int", val |-> <<50,53,53>>],
        [text |-> <<48>>, tok |-> 1, ty |-> "int", val |-> <<48>>],
        [text |-> <<48,48,55>>, tok |-> 1, ty |-> "int", val |-> <<48,48,55>>],
        [text |-> <<49,46,53>>, tok |-> 1, ty |-> "decimal", val |-> <<49,46,53>>],
        [text |-> <<49,95,48,46,50,95,53>>, tok |-> 1, ty |-> "decimal", val |-> <<49,48,46,50,53>>],
        [text |-> <<48,46,53>>, tok |-> 1, ty |-> "decimal", val |-> <<48,46,53>>],
        [text |-> <<39,97,34,98,39>>, tok |-> 1, ty |-> "string", val |-> <<97,34,98>>],
        [text |-> <<34,97,92,34,98,34>>, tok |-> 1, ty |-> "string", val |-> <<97,34,98>>],
        [text |-> <<39,120,92,110,121,39>>, tok |-> 1, ty |-> "string", val |-> <<120,10,121>>],
        [text |-> <<34,120,92,120,48,97,121,34>>, tok |-> 1, ty |-> "string", val |-> <<120,10,121>>],
        [text |-> <<39,120,92,120,48,97,121,39>>, tok |-> 1, ty |-> "string", val |-> <<120,10,121>>],
        [text |-> <<39,92,120,52,49,98,39>>, tok |-> 1, ty |-> "string", val |-> <<65,98>>],
        [text |-> <<34,92,120,52,49,98,34>>, tok |-> 1, ty |-> "string", val |-> <<65,98>>],
        [text |-> <<39,108,49,10,108,50,39>>, tok |-> 1, ty |-> "string", val |-> <<108,49,10,108,50>>],
        [text |-> <<39,39>>, tok |-> 1, ty |-> "string", val |-> <<>>],
        [text |-> <<47,47,97,43,47,47>>, tok |-> 1, ty |-> "pattern", val |-> <<47,47,97,43,47,47>>],
        [text |-> <<47,47,120,10,121,47,47>>, tok |-> 1, ty |-> "pattern", val |-> <<47,47,120,10,121,47,47>>],
        [text |-> <<84,82,85,69>>, tok |-> 1, ty |-> "boolean", val |-> <<84,82,85,69>>],
        [text |-> <<70,65,76,83,69>>, tok |-> 1, ty |-> "boolean", val |-> <<70,65,76,83,69>>],
        [text |-> <<105,102>>, tok |-> 1, ty |-> "keyword", val |-> <<105,102>>],
        [text |-> <<101,110,100>>, tok |-> 1, ty |-> "keyword", val |-> <<101,110,100>>],
        [text |-> <<105,110>>, tok |-> 1, ty |-> "keyword", val |-> <<105,110>>],
        [text |-> <<97,98,99>>, tok |-> 1, ty |-> "identifier", val |-> <<97,98,99>>],
        [text |-> <<120,49>>, tok |-> 1, ty |-> "identifier", val |-> <<120,49>>],
        [text |-> <<114,101,115,116,46,46,46>>, tok |-> 1, ty |-> "identifier", val |-> <<114,101,115,116,46,46,46>>],
        [text |-> <<97,46,98>>, tok |-> 1, ty |-> "identifier", val |-> <<97,46,98>>]}

STRUCT == SEP \cup TOK

=============================================================================
