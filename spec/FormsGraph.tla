----------------------------- MODULE FormsGraph -----------------------------
(* C13, round 2 - the model of programs that build data which is finite but
   not a tree (see FormsGraphOps) and then hand it to a form or function.

   The machine picks the kinds of NCells collections (PickKind), performs up
   to MaxSteps mutating steps, each of them a statement of the language
   (Build), and ends with one observer (Observe): render, hash, member lookup,
   method call, iteration, iteration that changes the collection, ==, <, in,
   and the two steps that hash their argument.  Every terminal state is one
   program; its text, its steps and the outcome class the model allows are
   exported, the harness executes exactly these programs (binding A) and the
   recorded outcomes go through Natives_Trace (binding B).

   Invariants:
     Total          no observer is "stuck" on any heap the family reaches:
                    every traversal of the model ends,
     WalkIsCycle    structural recursion bounded by the stack fails exactly
                    on the heaps with a reachable cycle: the error is a
                    property of the data, not of the bound,
     LookupEnds     the `_proto_` walk with the set of searched objects ends,
     OldLookupLoops the walk without it (the code before round 2) does not
                    end exactly on the chains that lead back into themselves.*)
EXTENDS FormsGraphOps, Json

CONSTANTS NCells, MaxSteps

VARIABLES pc,       \* "kinds" | "build" | "done"
          kinds,    \* the kinds of the cells chosen so far
          steps,    \* the steps performed
          h,        \* the heap they built
          obs       \* the observer, once chosen
vars == <<pc, kinds, steps, h, obs>>

NoObs == Obs("none", 0, 0)
Init == /\ pc = "kinds" /\ kinds = << >> /\ steps = << >>
        /\ h = EmptyHeap(<< >>) /\ obs = NoObs

\* cells are interchangeable: kinds in non-decreasing order
PickKind(k) == /\ pc = "kinds" /\ Len(kinds) < NCells
               /\ (kinds # << >> => KindIx(kinds[Len(kinds)]) <= KindIx(k))
               /\ kinds' = Append(kinds, k)
               /\ h' = EmptyHeap(kinds')
               /\ pc' = IF Len(kinds') = NCells THEN "build" ELSE "kinds"
               /\ UNCHANGED <<steps, obs>>

\* a step that hashes its argument is a step of the program only when the
\* hash exists; otherwise it is the program's last statement (Observe)
Build(op, x, y) ==
  LET s == Step(op, x, y) IN
    /\ pc = "build" /\ Len(steps) < MaxSteps
    /\ WellFormed(h, s)
    /\ (op \in {"add", "putkey"} => Walk(h, "hash", y, Fuel(h)) = "value")
    /\ steps' = Append(steps, s)
    /\ h' = Apply(h, s)
    /\ UNCHANGED <<pc, kinds, obs>>

Observe(n, x, y) ==
  LET o == Obs(n, x, y) IN
    /\ pc = "build" /\ ObsOK(h, o)
    /\ obs' = o /\ pc' = "done"
    /\ UNCHANGED <<kinds, steps, h>>

Cells == 1..NCells
Next == \/ \E i \in 1..4 : PickKind(CellKinds[i])
        \/ \E op \in StepOps, x \in Cells, y \in Cells : Build(op, x, y)
        \/ \E n \in UnaryObs \cup PairObs, x \in Cells, y \in Cells : Observe(n, x, y)
Spec == Init /\ [][Next]_vars

-----------------------------------------------------------------------------
TypeOK == /\ pc \in {"kinds", "build", "done"}
          /\ Len(kinds) <= NCells /\ Len(steps) <= MaxSteps
          /\ h.kind = kinds
          /\ \A e \in h.E : e.x \in Cells /\ e.y \in Cells /\ e.lab \in HashLabels

\* the heap is the fold of the steps (what the trace spec recomputes)
HeapIsFold == pc # "kinds" => h = HeapOf(kinds, steps, Len(steps))

Total == pc = "done" => PredG(h, obs) \in {"value", "error", "any"}

WalkIsCycle == pc # "kinds" =>
  \A x \in Cells : \A m \in {"render", "hash"} :
     (Walk(h, m, x, Fuel(h)) = "error") <=> CycleReachable(h, m, x)

LookupEnds == pc # "kinds" =>
  \A x \in Cells : h.kind[x] = "object" => Lookup(h, x, {x}, Fuel(h)) # "stuck"

OldLookupLoops == pc # "kinds" =>
  \A x \in Cells : h.kind[x] = "object" =>
     ((LookupOld(h, x, Fuel(h)) = "stuck") <=> ChainLoops(h, x))

Export == pc = "done" =>
  PrintT("@@GCASE@@" \o ToJson(
    [text |-> ProgramText(kinds, steps, obs), pred |-> PredG(h, obs),
     kinds |-> kinds, steps |-> steps, obs |-> obs,
     cyc |-> HasCycle(h, obs), ploop |-> HasProtoLoop(h, obs), stale |-> HasStale(h, obs)]))
=============================================================================
