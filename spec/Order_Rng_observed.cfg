CONSTANTS
  Seeds = {1, 7, 11}
  Starts = {0, 4711}
  MaxDraws = 3
  Source <- SourceObserved
SPECIFICATION Spec
INVARIANT TypeOK
INVARIANT InRange
INVARIANT ReportVary
CHECK_DEADLOCK FALSE
