CONSTANTS
  Span = 30
SPECIFICATION Spec
INVARIANT Repr
INVARIANT Order
INVARIANT AddSub
INVARIANT Product
INVARIANT Division
INVARIANT TruncDivChar
INVARIANT GcdLcm
INVARIANT Power
INVARIANT BigLawsOnce
CHECK_DEADLOCK FALSE
