CONSTANTS
  Years <- ThoroughYears
  K = 800
  Export = TRUE
SPECIFICATION Spec
INVARIANT TypeOK
INVARIANT AddLaw
INVARIANT BackLaw
INVARIANT DiffLaw
INVARIANT StepLaw
INVARIANT ExportArith
CHECK_DEADLOCK FALSE
