------------------------------- MODULE Expr -------------------------------
(* C02 - driver: every generated expression (all ordered pairs of binary
   operators in `a op1 b op2 c` with and without parentheses, unary/binary
   combinations, comparison chains) over operand triples; one step parses it
   with the mirror of parser.py and with the reference precedence table, and
   evaluates it.  Properties are invariants of the evaluated state; every
   evaluated state is exported for replay on the implementation.            *)
EXTENDS ExprOps, TLC, Json

CONSTANTS Triples,     \* set of <<a, b, c>> operand values
          Pool,        \* operand values of the two-operand family (every ordered pair)
          Export

VARIABLES e,           \* token sequence
          phase        \* "new" | "done"

vars == <<e, phase>>

Tv(v) == [t |-> "val", o |-> "", v |-> v]
To(o) == [t |-> "op", o |-> o, v |-> Null]
LP == [t |-> "lp", o |-> "", v |-> Null]
RP == [t |-> "rp", o |-> "", v |-> Null]

BIN == {"or", "and", "==", "!=", "<>", "<", "<=", ">", ">=", "is", "is not", "+", "-", "*", "/", "%"}

Pairs == UNION {
  { <<Tv(x[1]), To(o1), Tv(x[2]), To(o2), Tv(x[3])>>,
    <<LP, Tv(x[1]), To(o1), Tv(x[2]), RP, To(o2), Tv(x[3])>>,
    <<Tv(x[1]), To(o1), LP, Tv(x[2]), To(o2), Tv(x[3]), RP>>,
    <<LP, Tv(x[1]), RP, To(o1), LP, Tv(x[2]), RP, To(o2), LP, LP, Tv(x[3]), RP, RP>> }
  : o1 \in BIN, o2 \in BIN, x \in Triples }

Unaries == UNION {
  { <<To("not"), Tv(x[1]), To(o), Tv(x[2])>>,
    <<To("-"), Tv(x[1]), To(o), Tv(x[2])>>,
    <<Tv(x[1]), To(o), To("-"), Tv(x[2])>>,
    <<To("-"), LP, Tv(x[1]), To(o), Tv(x[2]), RP>>,
    <<To("not"), LP, Tv(x[1]), To(o), Tv(x[2]), RP>>,
    <<To("+"), Tv(x[1]), To(o), To("+"), Tv(x[2])>>,
    <<Tv(x[1]), To("in"), Tv(x[2]), To(o), Tv(x[3])>>,
    <<Tv(x[1]), To(o), Tv(x[2]), To("in"), Tv(x[3])>>,
    <<To("-"), Tv(x[1]), To("in"), Tv(x[3])>> }
  : o \in BIN, x \in Triples }
  \cup UNION { { <<Tv(x[1]), To(o), To("not"), Tv(x[2])>>,
                 <<To("not"), Tv(x[1]), To(o), To("not"), Tv(x[2])>>,
                 <<To("not"), To("-"), Tv(x[1]), To(o), Tv(x[2])>> }
               : o \in {"and", "or"}, x \in Triples }

Chains == { <<Tv(x[1]), To(r1), Tv(x[2]), To(r2), Tv(x[3]), To(r3), Tv(x[1])>>
            : r1 \in {"<", "<=", "=="}, r2 \in {"<", ">=", "!="}, r3 \in {">", "is"}, x \in Triples }

\* every binary operator and both membership forms over every ORDERED pair of the pool: NULL on either side, TRUE
\* memberships, whole decimal quotients, int against decimal, string against int, ... (the triples fix the order of
\* their operands; this family does not)
Binaries == { <<Tv(a), To(o), Tv(b)>> : o \in BIN \cup {"in"}, a \in Pool, b \in Pool }
\* n-ary and/or: the third clause is reached exactly when the first two do not decide
Bools3 == { <<Tv(a), To(o), Tv(b), To(o), Tv(c)>> : o \in {"and", "or"},
            a \in {Bool(TRUE), Bool(FALSE)}, b \in {Bool(TRUE), Bool(FALSE)}, c \in {Bool(TRUE), Bool(FALSE), IntV(1)} }

AllExprs == Pairs \cup Unaries \cup Chains \cup Binaries \cup Bools3

Init == e \in AllExprs /\ phase = "new"
Evaluate == phase = "new" /\ phase' = "done" /\ UNCHANGED e
Next == Evaluate
Spec == Init /\ [][Next]_vars

-----------------------------------------------------------------------------
P == Parse(e)
T == P.t
Val == Eval(T)

\* the tree parser.py builds is the tree the precedence table dictates
MirrorIsRef == phase = "done" => P.ok /\ T = Ref(e)

\* a comparison chain is the conjunction of its adjacent pairs
IsChain == /\ Len(e) >= 5 /\ \A i \in 1..Len(e) : (i % 2 = 1) = (e[i].t = "val")
           /\ \A i \in 1..Len(e) : e[i].t = "op" => e[i].o \in RELOPS
ChainIsConjunction ==
  (phase = "done" /\ IsChain) =>
     LET n == (Len(e) - 1) \div 2
         pair(i) == <<LP, e[2 * i - 1], e[2 * i], e[2 * i + 1], RP>>
         RECURSIVE conj(_)
         conj(i) == IF i = n THEN pair(i) ELSE pair(i) \o <<To("and")>> \o conj(i + 1)
     IN Val = Eval(Parse(conj(1)).t)

\* and/or short-circuit: the right operand is not even evaluated
ShortCircuit ==
  (phase = "done" /\ Len(e) = 3 /\ e[2].t = "op") =>
     /\ (e[2].o = "and" /\ e[1].v = Bool(FALSE)) => Val = Bool(FALSE)
     /\ (e[2].o = "or" /\ e[1].v = Bool(TRUE)) => Val = Bool(TRUE)

\* two-operand arithmetic facts, over the operands of the exported triples
Arith == {"+", "-", "*", "/", "%"}
ArithLaws ==
  \A x \in Triples : \A o \in Arith :
    LET a == x[1]  b == x[2]
        r == Eval(Parse(<<Tv(a), To(o), Tv(b)>>).t) IN
    /\ (IsNum(a) /\ b.k = "null") => r = Null            \* NULL propagates
    /\ (a.k = "null" /\ IsNum(b)) => r = Null
    /\ (IsNum(a) /\ IsNum(b) /\ r.k \in {"int", "dec"}) =>
          (r.k = "int" <=> (a.k = "int" /\ b.k = "int"))  \* int iff both int

\* truncating division and the modulus law on a grid of small ints
DivModLaws ==
  \A a \in -13..13 : \A b \in (-5..5) \ {0} :
    LET q == Div(IntV(a), IntV(b)).n  r == Mod(IntV(a), IntV(b)).n IN
    /\ Abs(a - q * b) < Abs(b) /\ (a - q * b = 0 \/ (a - q * b < 0) = (a < 0))
    /\ Abs(q) * Abs(b) <= Abs(a)
    /\ Abs(r) < Abs(b) /\ (a - r) % Abs(b) = 0

Rec == [toks |-> e, tree |-> T, val |-> Val, ok |-> P.ok]
ExportRuns == (Export /\ phase = "done") => PrintT("@@EXPR@@" \o ToJson(Rec))
=============================================================================
