----------------------------- MODULE Date_Trace -----------------------------
(* C17, binding B: executions recorded from the interpreter are stepped
   through the date model.  One date value `cur` per trace (a `new` event
   starts a trace); the recorded program applies conversions and day
   arithmetic to it and logs what the implementation returned.  The model
   state is the day number cn and the second of the day cs of `cur`.  An event
   whose observation differs from the model is reported (@@BAD@@) and the
   model re-synchronises on the observed date, so every mismatch is listed.

   Every event has the same integer/boolean fields (unused ones are 0):
     op, ok   operation; FALSE when the implementation raised anything
     y m d s  a date and second of day (input of `new`/`minus`, else observed)
     k        offset in days / a day number argument
     a        second of day given as input (date_dec)
     r        observed integer result
     us       observed residual in microseconds (decimal day numbers)
     b        observed boolean                                             *)
EXTENDS DateOps, TLC, Json, IOUtils

Trace == ndJsonDeserialize(IOEnv.TRACE_FILE)

VARIABLES l, cn, cs
vars == <<l, cn, cs>>

Ev == Trace[l]
Bad(why) == PrintT("@@BAD@@" \o ToJson([l |-> l, why |-> why]))
Check(c, why) == IF c THEN TRUE ELSE Bad(why)   \* not `c \/ Bad`: TLC explores both disjuncts of an action

\* decimal day numbers may be off by 1e-9 days = 86.4 microseconds
TolMicros == 86

ObsValid == ValidDate(Ev.y, Ev.m, Ev.d) /\ Ev.y \in 1..9999 /\ Ev.s \in 0..(SecondsPerDay - 1)
ObsNum   == DayNumber(Ev.y, Ev.m, Ev.d)
ObsIs(n, s) == Ev.ok /\ ObsValid /\ <<Ev.y, Ev.m, Ev.d>> = FromDayNumber(n) /\ Ev.s = s

\* the model follows the observed date when there is one (re-synchronise)
Follow(n, s) == IF Ev.ok /\ ObsValid THEN (cn' = ObsNum /\ cs' = Ev.s)
                ELSE (cn' = n /\ cs' = s)
Same == cn' = cn /\ cs' = cs

Init == l = 1 /\ cn = FirstDay /\ cs = 0

Step ==
  /\ l <= Len(Trace)
  /\ l' = l + 1
  /\ CASE Ev.op = "new" ->                         \* cur = date('yyyymmddHHMMSS')
            /\ Check(Ev.ok /\ ObsValid, "new")
            /\ cn' = ObsNum /\ cs' = Ev.s
       [] Ev.op = "add" ->                         \* cur = cur + k
            /\ Check(ObsIs(cn + Ev.k, cs), "add")
            /\ Follow(cn + Ev.k, cs)
       [] Ev.op = "sub" ->                         \* cur = cur - k
            /\ Check(ObsIs(cn - Ev.k, cs), "sub")
            /\ Follow(cn - Ev.k, cs)
       [] Ev.op = "int" ->                         \* int(cur)
            /\ Check(Ev.ok /\ Ev.r = cn, "int")
            /\ Same
       [] Ev.op = "dec" ->                         \* decimal(cur)
            /\ Check(Ev.ok /\ Ev.r = cn /\ Ev.s = cs
                     /\ Ev.us <= TolMicros /\ Ev.us >= 0 - TolMicros, "dec")
            /\ Same
       [] Ev.op = "date_int" ->                    \* cur = date(k)
            /\ Check(ObsIs(Ev.k, 0), "date_int")
            /\ Follow(Ev.k, 0)
       [] Ev.op = "date_dec" ->                    \* cur = date(k + a/86400)
            /\ Check(ObsIs(Ev.k, Ev.a), "date_dec")
            /\ Follow(Ev.k, Ev.a)
       [] Ev.op = "roundtrip" ->                   \* date(decimal(cur))
            /\ Check(ObsIs(cn, cs), "roundtrip")
            /\ Same
       [] Ev.op = "roundtrip_int" ->               \* date(int(cur))
            /\ Check(ObsIs(cn, 0), "roundtrip_int")
            /\ Same
       [] Ev.op = "diff" ->                        \* (cur + k) - cur
            /\ Check(Ev.ok /\ Ev.r = Ev.k, "diff")
            /\ Same
       [] Ev.op = "minus" ->                       \* date(y,m,d at cs) - cur
            /\ Check(Ev.ok /\ ObsValid /\ Ev.r = ObsNum - cn, "minus")
            /\ Same
       [] Ev.op = "back" ->                        \* (cur + k) - k == cur
            /\ Check(Ev.ok /\ Ev.b, "back")
            /\ Same
       [] OTHER -> Same /\ Bad("unknown-op")
  /\ (l = Len(Trace) => PrintT("@@DONE@@" \o ToJson([n |-> l])))

Spec == Init /\ [][Step]_vars

Accepted == TLCGet("stats").diameter - 1 = Len(Trace)
=============================================================================
