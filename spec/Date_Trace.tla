----------------------------- MODULE Date_Trace -----------------------------
(* C17, binding B: executions recorded from the interpreter are stepped
   through the date model.  One date value `cur` per trace (a `new` event
   starts a trace); the recorded program applies conversions and day
   arithmetic to it and logs what the implementation returned.  The model
   state is the day number cn and the second of the day cs of `cur`.  An event
   whose observation differs from the model is reported (@@BAD@@) and the
   model re-synchronises on the observed date, so every mismatch is listed.

   Every event has the same integer/boolean fields (unused ones are 0):
     op, ok   operation; FALSE when the implementation raised anything
     y m d s  a date and second of day (input of `new`/`minus`/`cmp`/`api_num`,
              else observed)
     k        offset in days / a day number argument / a text yyyyMMdd read as
              a number (parse, valid) / a zone (start, tz)
     a        second of day given as input (date_dec, api_date); a format,
              part, operator or kind code (parse, fmt, part, cmp, err, free)
     t        second of day given as input (parse) or observed (api_num)
     r        observed integer result
     us       observed residual in microseconds (decimal day numbers)
     b        observed boolean

   A trace is the life of one process (DateProc.tla): it begins with `start`
   (the zone the process is started in; cur is not defined yet).  Besides the
   conversions and the day arithmetic the recorded program calls the other date
   functions of the language (parse_date, is_valid_date, format_date, the
   date_* readers, comparisons, conversions that must fail, now / timestamp /
   sorting) and changes the zone of the process (`tz`).  The model gives none
   of them any influence on what follows: `zone` is a variable nothing reads,
   and the bystanders leave cn and cs alone.  Clauses whose name starts with
   "noise-" judge what a bystander itself returned; the property does not
   speak about those, the harness counts their rejections as drift.        *)
EXTENDS DateOps, TLC, Json, IOUtils

Trace == ndJsonDeserialize(IOEnv.TRACE_FILE)

VARIABLES l, cn, cs, zone
vars == <<l, cn, cs, zone>>

Ev == Trace[l]
Bad(why) == PrintT("@@BAD@@" \o ToJson([l |-> l, why |-> why]))
Check(c, why) == IF c THEN TRUE ELSE Bad(why)   \* not `c \/ Bad`: TLC explores both disjuncts of an action

\* decimal day numbers may be off by 1e-9 days = 86.4 microseconds
TolMicros == 86

ObsValid == ValidDate(Ev.y, Ev.m, Ev.d) /\ Ev.y \in 1..9999 /\ Ev.s \in 0..(SecondsPerDay - 1)
ObsNum   == DayNumber(Ev.y, Ev.m, Ev.d)
ObsIs(n, s) == Ev.ok /\ ObsValid /\ <<Ev.y, Ev.m, Ev.d>> = FromDayNumber(n) /\ Ev.s = s

\* the model follows the observed date when there is one (re-synchronise)
Follow(n, s) == IF Ev.ok /\ ObsValid THEN (cn' = ObsNum /\ cs' = Ev.s)
                ELSE (cn' = n /\ cs' = s)
Same == cn' = cn /\ cs' = cs

\* observed date of a constructor / reader: the date (n, s), to the second
IsZone(k) == k \in 1..NZones
\* parse_date: the text Ev.k (yyyyMMdd) with time of day Ev.t; format 1 has no time
ParseSec == IF Ev.a = 1 THEN 0 ELSE Ev.t
ParseNum == DayNumber(TextYear(Ev.k), TextMonth(Ev.k), TextDay(Ev.k))
\* cmp: cur (cn, cs) against the instant (ObsNum, Ev.s) by operator Ev.a
CmpWant == LET lt == Before(cn, cs, ObsNum, Ev.s)
               gt == Before(ObsNum, Ev.s, cn, cs)
           IN CASE Ev.a = 1 -> lt
                [] Ev.a = 2 -> ~gt
                [] Ev.a = 3 -> ~lt /\ ~gt
                [] Ev.a = 4 -> lt \/ gt
                [] Ev.a = 5 -> ~lt
                [] OTHER    -> gt

Init == l = 1 /\ cn = FirstDay /\ cs = 0 /\ zone = 1

Step ==
  /\ l <= Len(Trace)
  /\ l' = l + 1
  /\ zone' = IF Ev.op \in {"start", "tz"} /\ IsZone(Ev.k) THEN Ev.k ELSE zone
  /\ CASE Ev.op = "start" ->                       \* a process starts in zone k; nothing evaluated yet
            /\ Check(Ev.ok /\ IsZone(Ev.k), "start")
            /\ cn' = FirstDay /\ cs' = 0
       [] Ev.op = "tz" ->                          \* the zone of the process changes: no date moves
            /\ Check(Ev.ok /\ IsZone(Ev.k), "tz")
            /\ Same
       [] Ev.op = "new" ->                         \* cur = date('yyyymmddHHMMSS')
            /\ Check(Ev.ok /\ ObsValid, "new")
            /\ cn' = ObsNum /\ cs' = Ev.s
       [] Ev.op = "add" ->                         \* cur = cur + k
            /\ Check(ObsIs(cn + Ev.k, cs), "add")
            /\ Follow(cn + Ev.k, cs)
       [] Ev.op = "sub" ->                         \* cur = cur - k
            /\ Check(ObsIs(cn - Ev.k, cs), "sub")
            /\ Follow(cn - Ev.k, cs)
       [] Ev.op = "int" ->                         \* int(cur)
            /\ Check(Ev.ok /\ Ev.r = cn, "int")
            /\ Same
       [] Ev.op = "dec" ->                         \* decimal(cur)
            /\ Check(Ev.ok /\ Ev.r = cn /\ Ev.s = cs
                     /\ Ev.us <= TolMicros /\ Ev.us >= 0 - TolMicros, "dec")
            /\ Same
       [] Ev.op = "date_int" ->                    \* cur = date(k)
            /\ Check(ObsIs(Ev.k, 0), "date_int")
            /\ Follow(Ev.k, 0)
       [] Ev.op = "date_dec" ->                    \* cur = date(k + a/86400)
            /\ Check(ObsIs(Ev.k, Ev.a), "date_dec")
            /\ Follow(Ev.k, Ev.a)
       [] Ev.op = "roundtrip" ->                   \* date(decimal(cur))
            /\ Check(ObsIs(cn, cs), "roundtrip")
            /\ Same
       [] Ev.op = "roundtrip_int" ->               \* date(int(cur))
            /\ Check(ObsIs(cn, 0), "roundtrip_int")
            /\ Same
       [] Ev.op = "diff" ->                        \* (cur + k) - cur
            /\ Check(Ev.ok /\ Ev.r = Ev.k, "diff")
            /\ Same
       [] Ev.op = "minus" ->                       \* date(y,m,d at cs) - cur
            /\ Check(Ev.ok /\ ObsValid /\ Ev.r = ObsNum - cn, "minus")
            /\ Same
       [] Ev.op = "back" ->                        \* (cur + k) - k == cur
            /\ Check(Ev.ok /\ Ev.b, "back")
            /\ Same
       [] Ev.op = "api_date" ->                    \* ckl.date.to_date(k + a/86400), cur untouched
            /\ Check(ObsIs(Ev.k, Ev.a), "api_date")
            /\ Same
       [] Ev.op = "api_num" ->                     \* ckl.date.to_oa_date(datetime(y, m, d, s)), cur untouched
            /\ Check(Ev.ok /\ ValidDate(Ev.y, Ev.m, Ev.d) /\ Ev.r = ObsNum /\ Ev.t = Ev.s
                     /\ Ev.us <= TolMicros /\ Ev.us >= 0 - TolMicros, "api_num")
            /\ Same
       \* ---- the other date functions: what they return is judged as "noise-",
       \* ---- what follows them is judged as before
       [] Ev.op = "parse" ->                       \* cur = parse_date(text k at second t, format a)
            /\ Check(ValidText(Ev.k) /\ ObsIs(ParseNum, ParseSec), "noise-parse")
            /\ Follow(ParseNum, ParseSec)
       [] Ev.op = "valid" ->                       \* is_valid_date(text k)
            /\ Check(Ev.ok /\ (Ev.b <=> ValidText(Ev.k)), "noise-valid")
            /\ Same
       [] Ev.op = "fmt" ->                         \* format_date(cur, ..) read back; form 4 shows no time
            /\ Check(Ev.ok /\ ObsValid /\ <<Ev.y, Ev.m, Ev.d>> = FromDayNumber(cn)
                     /\ (Ev.a = 4 \/ Ev.s = cs), "noise-fmt")
            /\ Same
       [] Ev.op = "str" ->                         \* string(cur) read back
            /\ Check(ObsIs(cn, cs), "noise-str")
            /\ Same
       [] Ev.op = "part" ->                        \* date_year(cur) .. date_second(cur)
            /\ Check(Ev.ok /\ Ev.a \in 1..6 /\ Ev.r = Fields(cn, cs)[Ev.a], "noise-part")
            /\ Same
       [] Ev.op = "cmp" ->                         \* cur < date(y,m,d at s) etc.
            /\ Check(Ev.ok /\ ObsValid /\ (Ev.b <=> CmpWant), "noise-cmp")
            /\ Same
       [] Ev.op = "err" ->                         \* a conversion that must fail with an error of the language
            /\ Check(Ev.ok /\ Ev.r = 1, "noise-err")
            /\ Same
       [] Ev.op = "free" ->                        \* now, timestamp, sorting ...: nothing is predicted
            /\ Same
       [] OTHER -> Same /\ Bad("unknown-op")
  /\ (l = Len(Trace) => PrintT("@@DONE@@" \o ToJson([n |-> l])))

Spec == Init /\ [][Step]_vars

Accepted == TLCGet("stats").diameter - 1 = Len(Trace)
=============================================================================
