\* C11 thorough: every module graph over 3 modules, every importer program of
\* <= 2 commands over all forms
CONSTANTS
  Interps = {"i1"}
  UnwindOnFailure = TRUE
  DetachCallerEnv = TRUE
  Mode = "c11"
  ModSeq <- Mods3
  MaxOut = 2
  GenRot = TRUE
  GenBack = "all"
  GenSorted = FALSE
  MaxCtr = 1
  LoadCap = 2
  MaxReq = 2
  CmdsOf <- C11Cmds
  Export = TRUE
SPECIFICATION Spec
INVARIANT TypeOK
INVARIANT StackEmptyBetweenCalls
INVARIANT FailIsIdempotent
INVARIANT LoadOnce
INVARIANT ModuleScopeIsBase
INVARIANT SingleInstance
INVARIANT CycleIsError
INVARIANT ExportState
PROPERTY DefsPersist
PROPERTY Isolation
PROPERTY LoadOnlyInLoadStep
PROPERTY BindsExactly
CHECK_DEADLOCK FALSE
