\* C11 round 5, thorough tier: Modules_env with the environment the caller KEEPS as
\* third kind of caller environment (what a script bound there stays bound for
\* the next one), programs of <= 3 commands
CONSTANTS
  Interps = {"i1"}
  UnwindOnFailure = TRUE
  DetachCallerEnv = TRUE
  Mode = "c11"
  ModSeq <- Mods2
  MaxOut = 1
  GenRot = TRUE
  GenBack = "all"
  GenSorted = FALSE
  MaxCtr = 1
  LoadCap = 2
  MaxReq = 3
  CmdsOf <- C11EnvWide
  Export = TRUE
SPECIFICATION Spec
INVARIANT TypeOK
INVARIANT StackEmptyBetweenCalls
INVARIANT FailIsIdempotent
INVARIANT LoadOnce
INVARIANT ModuleScopeIsBase
INVARIANT SingleInstance
INVARIANT CycleIsError
INVARIANT ExportState
PROPERTY DefsPersist
PROPERTY Isolation
PROPERTY LoadOnlyInLoadStep
PROPERTY BindsExactly
PROPERTY Terminates
CHECK_DEADLOCK FALSE
