----------------------------- MODULE LibOps -----------------------------
(* C19 - reference definitions of the collection and numeric library
   functions, quoted from the property statement ("the set-theoretic
   operations", "keeps the first of each group of equal elements in order",
   "textbook definitions").  Pure operators, no state: shared by Lib.tla (the
   model whose invariants are the laws) and Lib_Trace.tla (validation of calls
   recorded from the implementation).

   Scalars are tagged records [k |-> "int" | "dec" | "str", v |-> n]:
     "int"  v is the integer,
     "dec"  v is TWICE the decimal (half units: 1.0 is v = 2, 2.5 is v = 5),
     "str"  v is the code of a one-letter string ('a' = 1, 'b' = 2 ...; the
            order of the codes is the order of the strings).
   1 and 1.0 are Equal (the language's ==), so they are one element of a set.
   A nested list is [k |-> "list", items |-> <<...>>].
   Collections are sequences; a set value is a sequence without Equal
   duplicates whose order is irrelevant: sets are compared through Members,
   the mathematical set of equality classes.
   Exact numeric results are rationals [n |-> numerator, d |-> denominator],
   d > 0, not necessarily reduced.                                          *)
EXTENDS Integers, Sequences, FiniteSets, TLC

I(n) == [k |-> "int", v |-> n]
D(h) == [k |-> "dec", v |-> h]          \* h halves
S(c) == [k |-> "str", v |-> c]
L(s) == [k |-> "list", items |-> s]

IsNum(x)  == x.k \in {"int", "dec"}
IsList(x) == x.k = "list"
Num2(x)   == IF x.k = "int" THEN 2 * x.v ELSE x.v       \* twice the value

\* the language's == on scalars: numeric across int/dec, otherwise same kind
Equal(a, b) == IF IsNum(a) /\ IsNum(b) THEN Num2(a) = Num2(b)
               ELSE a.k = b.k /\ a.k = "str" /\ a.v = b.v

\* canonical representative of the Equal-class of x
Class(x) == IF IsNum(x) THEN [k |-> "num", v |-> Num2(x)] ELSE x

Range1(s)  == {s[i] : i \in 1..Len(s)}
Members(s) == {Class(s[i]) : i \in 1..Len(s)}
In(x, s)   == \E i \in 1..Len(s) : Equal(x, s[i])
NoDup(s)   == \A i, j \in 1..Len(s) : i # j => ~Equal(s[i], s[j])

\* the elements of s at the positions satisfying Keep, in order
Pick(s, Keep(_)) ==
  LET idx == SelectSeq([i \in 1..Len(s) |-> i], Keep)
  IN [j \in 1..Len(idx) |-> s[idx[j]]]

-----------------------------------------------------------------------------
(* unique: the first of each group of Equal elements, order kept *)
IsFirst(s, i) == \A j \in 1..(i - 1) : ~Equal(s[j], s[i])
Unique(s) == Pick(s, LAMBDA i : IsFirst(s, i))

(* Set algebra.  The mathematical operations, on equality classes ... *)
MUnion(a, b)        == Members(a) \cup Members(b)
MIntersection(a, b) == Members(a) \cap Members(b)
MDiff(a, b)         == Members(a) \ Members(b)
MSymDiff(a, b)      == (Members(a) \ Members(b)) \cup (Members(b) \ Members(a))

(* ... and as a container would hold them (representatives, insertion
   order); Lib.tla proves the two readings agree on Members. *)
Union(a, b)        == Unique(a \o b)
Intersection(a, b) == Unique(SelectSeq(a, LAMBDA x : In(x, b)))
Diff(a, b)         == Unique(SelectSeq(a, LAMBDA x : ~In(x, b)))
SymDiff(a, b)      == Union(Diff(a, b), Diff(b, a))

-----------------------------------------------------------------------------
(* Structural list functions *)
MinI(a, b) == IF a <= b THEN a ELSE b

Reverse(s) == [i \in 1..Len(s) |-> s[Len(s) + 1 - i]]

\* one level only: nested lists are replaced by their items, nothing deeper
Flatten(s) ==
  LET f[i \in 0..Len(s)] ==
        IF i = 0 THEN << >>
        ELSE f[i - 1] \o (IF IsList(s[i]) THEN s[i].items ELSE <<s[i]>>)
  IN f[Len(s)]

Zip(a, b) == [i \in 1..MinI(Len(a), Len(b)) |-> <<a[i], b[i]>>]

\* pairs [index, element], indices from 0
Enumerate(s) == [i \in 1..Len(s) |-> [idx |-> i - 1, x |-> s[i]]]

\* range(a, b, step): a, a+step, ... strictly before b   (step # 0)
RangeLen(a, b, step) ==
  IF step > 0 THEN (IF b > a THEN (b - a + step - 1) \div step ELSE 0)
  ELSE (IF b < a THEN (a - b + (-step) - 1) \div (-step) ELSE 0)
Range(a, b, step) == [i \in 1..RangeLen(a, b, step) |-> a + (i - 1) * step]
\* interval(a, b): the integers a..b inclusive, ascending
Interval(a, b) == [i \in 1..(IF b >= a THEN b - a + 1 ELSE 0) |-> a + i - 1]

\* chunks(s, n), n >= 1: consecutive pieces of n elements, the last one
\* possibly shorter but never empty; hence no piece for an empty list (the
\* textbook definition: Haskell chunksOf, Kotlin chunked, Ruby each_slice,
\* Scala grouped all give the empty result for the empty input)
Chunks(s, n) ==
  [j \in 1..((Len(s) + n - 1) \div n) |-> SubSeq(s, (j - 1) * n + 1, MinI(j * n, Len(s)))]

\* pairs: adjacent elements
Pairs(s) == [i \in 1..(IF Len(s) > 0 THEN Len(s) - 1 ELSE 0) |-> <<s[i], s[i + 1]>>]

\* grouped: maximal runs of adjacent Equal elements
GroupStarts(s) == SelectSeq([i \in 1..Len(s) |-> i],
                            LAMBDA i : i = 1 \/ ~Equal(s[i - 1], s[i]))
Grouped(s) ==
  LET st == GroupStarts(s)
      en(j) == IF j = Len(st) THEN Len(s) ELSE st[j + 1] - 1
  IN [j \in 1..Len(st) |-> SubSeq(s, st[j], en(j))]

(* filter / map_list / reduce on int lists with a fixed catalogue of argument
   functions (the harness passes the same functions as lambdas):
     predicates  "even": x % 2 == 0      "gt": x > c        "ne": x != c
     maps        "sq":   x * x           "addc": x + c      "neg": -x
     binary      "add": a + b   "sub": a - b   "mix": 2 * a + b             *)
PredOf(p, c, x) == CASE p = "even" -> x % 2 = 0
                     [] p = "gt"   -> x > c
                     [] p = "ne"   -> x # c
MapOf(f, c, x) == CASE f = "sq"   -> x * x
                    [] f = "addc" -> x + c
                    [] f = "neg"  -> -x
BinOf(f, x, y) == CASE f = "add" -> x + y
                    [] f = "sub" -> x - y
                    [] f = "mix" -> 2 * x + y
Filter(s, p, c)  == SelectSeq(s, LAMBDA x : PredOf(p, c, x))
MapList(s, f, c) == [i \in 1..Len(s) |-> MapOf(f, c, s[i])]
\* left fold without initial value, s non-empty
Reduce(s, f) ==
  LET g[i \in 1..Len(s)] == IF i = 1 THEN s[1] ELSE BinOf(f, g[i - 1], s[i])
  IN g[Len(s)]

-----------------------------------------------------------------------------
(* Numeric functions of a list of numeric scalars: exact rationals. *)
Rat(n, d) == [n |-> n, d |-> d]
RatEq(p, q) == p.n * q.d = q.n * p.d

Sum2(s) == LET f[i \in 0..Len(s)] == IF i = 0 THEN 0 ELSE f[i - 1] + Num2(s[i])
           IN f[Len(s)]
Prod2(s) == LET f[i \in 0..Len(s)] == IF i = 0 THEN 1 ELSE f[i - 1] * Num2(s[i])
            IN f[Len(s)]
Pow2(k) == LET f[i \in 0..k] == IF i = 0 THEN 1 ELSE 2 * f[i - 1] IN f[k]
AllInt(s) == \A i \in 1..Len(s) : s[i].k = "int"

\* sum / prod: an int exactly when every element is an int
Sum(s)  == [int |-> AllInt(s), r |-> Rat(Sum2(s), 2)]
Prod(s) == [int |-> AllInt(s), r |-> Rat(Prod2(s), Pow2(Len(s)))]
Mean(s) == Rat(Sum2(s), 2 * Len(s))                        \* s non-empty

(* order statistics: lists of numbers, or lists of strings *)
Key(x) == IF IsNum(x) THEN Num2(x) ELSE x.v
Homogeneous(s) == (\A i \in 1..Len(s) : IsNum(s[i])) \/ (\A i \in 1..Len(s) : s[i].k = "str")
Sorted(s) == SortSeq(s, LAMBDA a, b : Key(a) < Key(b))

\* as Key values (twice the number / the string code); s non-empty
MinKey(s) == CHOOSE m \in {Key(s[i]) : i \in 1..Len(s)} : \A i \in 1..Len(s) : m <= Key(s[i])
MaxKey(s) == CHOOSE m \in {Key(s[i]) : i \in 1..Len(s)} : \A i \in 1..Len(s) : m >= Key(s[i])
MedianLowKey(s)  == Key(Sorted(s)[(Len(s) + 1) \div 2])
MedianHighKey(s) == Key(Sorted(s)[Len(s) \div 2 + 1])
\* "mean of the middle two": the value as a rational (numeric lists only)
Median(s) == Rat(MedianLowKey(s) + MedianHighKey(s), 4)
KeyRat(key) == Rat(key, 2)                                   \* numeric key -> value

IsPermOf(p, s) ==
  /\ Len(p) = Len(s)
  /\ \E f \in Permutations(1..Len(s)) : \A i \in 1..Len(s) : p[i] = s[f[i]]
PermsOf(s) == {[i \in 1..Len(s) |-> s[f[i]]] : f \in Permutations(1..Len(s))}

=============================================================================
