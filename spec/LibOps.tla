----------------------------- MODULE LibOps -----------------------------
(* C19 - reference definitions of the collection and numeric library
   functions, quoted from the property statement ("the set-theoretic
   operations", "keeps the first of each group of equal elements in order",
   "textbook definitions").  Pure operators, no state: shared by Lib.tla (the
   model whose invariants are the laws) and Lib_Trace.tla (validation of calls
   recorded from the implementation).

   Scalars are tagged records.  The compact kinds [k |-> "int" | "dec" | "str", v |-> n]:
     "int"  v is the integer (|v| < 2^30),
     "dec"  v is TWICE the decimal (half units: 1.0 is v = 2, 2.5 is v = 5),
     "str"  v is the code of a one-letter string ('a' = 1 ... 'd' = 4; the
            order of the codes is the order of the strings).
   The wide kinds (round 3: every number and every string of the language):
     "bint"  [big |-> limbs]          an integer of any size (BigInt limbs),
     "bdec"  [num |-> limbs, e |-> k] the decimal num / 2^k EXACTLY (every
             finite double is such a dyadic rational: 2^53 + 2 as a decimal,
             2^-41, the double nearest to 0.1),
     "text"  [cp |-> <<code points>>] a string of any length, ordered
             lexicographically by code point ('' < 'A' < 'Ab' < 'a' < 'aB').
   QV(x) is the exact value of a number; Equal and Lt on numbers are the
   comparisons of these exact values, whatever the kinds: 2^53 + 1 (an int) is
   NOT Equal to the decimal 2^53 although the nearest double of the int is that
   decimal.  On compact numbers both are computed on the half units (Lib.tla,
   WideLaws, proves the two computations agree).
   1 and 1.0 are Equal (the language's ==), so they are one element of a set.
   A nested list is [k |-> "list", items |-> <<...>>].
   Collections are sequences; a set value is a sequence without Equal
   duplicates whose order is irrelevant: sets are compared through Members,
   the mathematical set of equality classes.
   Exact numeric results are rationals [n |-> numerator, d |-> denominator],
   d > 0, not necessarily reduced.                                          *)
EXTENDS Integers, Sequences, FiniteSets, TLC, BigInt

I(n) == [k |-> "int", v |-> n]
D(h) == [k |-> "dec", v |-> h]          \* h halves
S(c) == [k |-> "str", v |-> c]
L(s) == [k |-> "list", items |-> s]
BI(x)     == [k |-> "bint", big |-> x]             \* x a BigInt
BD(x, e)  == [k |-> "bdec", num |-> x, e |-> e]    \* x / 2^e
T(cp)     == [k |-> "text", cp |-> cp]

IsWide(x) == x.k \in {"bint", "bdec"}
IsNum(x)  == x.k \in {"int", "dec", "bint", "bdec"}
IsStr(x)  == x.k \in {"str", "text"}
IsList(x) == x.k = "list"
Num2(x)   == IF x.k = "int" THEN 2 * x.v ELSE x.v       \* twice the value (compact numbers)

-----------------------------------------------------------------------------
(* Exact values: dyadic rationals [num |-> BigInt, e |-> k] = num / 2^k. *)
BTwo == FromInt(2)
P2B(k) == Pow(BTwo, k)                                  \* 2^k as a BigInt
QQ(x, e) == [num |-> x, e |-> e]
QV(x) == CASE x.k = "int"  -> QQ(FromInt(x.v), 0)
           [] x.k = "dec"  -> QQ(FromInt(x.v), 1)
           [] x.k = "bint" -> QQ(x.big, 0)
           [] x.k = "bdec" -> QQ(x.num, x.e)
\* numerators over the common denominator 2^max(e)
QUp(p, m) == IF m = p.e THEN p.num ELSE Mul(p.num, P2B(m - p.e))
MaxI(a, b) == IF a >= b THEN a ELSE b
QCmp(p, q) == LET m == MaxI(p.e, q.e) IN Cmp(QUp(p, m), QUp(q, m))       \* -1 / 0 / 1
QAdd(p, q) == LET m == MaxI(p.e, q.e) IN QQ(Add(QUp(p, m), QUp(q, m)), m)
QNeg(p)    == QQ(Neg(p.num), p.e)
QSub(p, q) == QAdd(p, QNeg(q))
QMul(p, q) == QQ(Mul(p.num, q.num), p.e + q.e)
QAbs(p)    == QQ(Abs(p.num), p.e)
QScale(p, c) == QQ(Mul(p.num, c), p.e)                   \* p * c, c a BigInt
QZero == QQ(Zero, 0)
QOne  == QQ(One, 0)
IsEvenB(x) == x.sg = 0 \/ x.mag[1] % 2 = 0              \* the base 10^4 is even
HalfB(x)   == DivModSmall(x, 2).q
\* lowest terms: e = 0 or num odd
RECURSIVE QNorm(_)
QNorm(p) == IF p.e > 0 /\ IsEvenB(p.num) THEN QNorm(QQ(HalfB(p.num), p.e - 1)) ELSE p
\* a double holds 53 significant bits: num / 2^e is a double iff the odd part
\* of num is below 2^53 (the exponent range of doubles is not reached here)
RECURSIVE OddPart(_)
OddPart(x) == IF x.sg # 0 /\ IsEvenB(x) THEN OddPart(HalfB(x)) ELSE x
P53 == P2B(53)
Rep53(p) == Less(Abs(OddPart(p.num)), P53)

\* strings: the code points ('a' = 97 is the compact code 1)
Cps(x) == IF x.k = "str" THEN <<96 + x.v>> ELSE x.cp
RECURSIVE LexLessAt(_, _, _)
LexLessAt(s, t, i) == IF i > Len(s) THEN i <= Len(t)             \* a proper prefix comes first
                      ELSE IF i > Len(t) THEN FALSE
                      ELSE IF s[i] # t[i] THEN s[i] < t[i]
                      ELSE LexLessAt(s, t, i + 1)
LexLess(s, t) == LexLessAt(s, t, 1)

\* the language's == on scalars: numeric across int/dec (the exact values),
\* strings by their characters, nothing else
Equal(a, b) == IF IsNum(a) /\ IsNum(b)
               THEN (IF IsWide(a) \/ IsWide(b) THEN QCmp(QV(a), QV(b)) = 0 ELSE Num2(a) = Num2(b))
               ELSE IsStr(a) /\ IsStr(b) /\ Cps(a) = Cps(b)

\* the language's < on two numbers or on two strings
Lt(a, b) == IF IsNum(a) /\ IsNum(b)
            THEN (IF IsWide(a) \/ IsWide(b) THEN QCmp(QV(a), QV(b)) < 0 ELSE Num2(a) < Num2(b))
            ELSE IsStr(a) /\ IsStr(b) /\ LexLess(Cps(a), Cps(b))

\* canonical representative of the Equal-class of x: compact numbers by their
\* half units, other numbers in lowest terms (and compact again when the value
\* is one of the compact ones), strings by their code points
FitsCompact(q) == q.e <= 1 /\ Len(q.num.mag) <= 2
Class(x) == IF IsNum(x)
            THEN (IF ~IsWide(x) THEN [k |-> "num", v |-> Num2(x)]
                  ELSE LET q == QNorm(QV(x)) IN
                       IF FitsCompact(q)
                       THEN [k |-> "num", v |-> (IF q.e = 0 THEN 2 ELSE 1) * ToInt(q.num)]
                       ELSE [k |-> "q", num |-> q.num, e |-> q.e])
            ELSE IF IsStr(x) THEN [k |-> "text", cp |-> Cps(x)]
            ELSE x

Range1(s)  == {s[i] : i \in 1..Len(s)}
Members(s) == {Class(s[i]) : i \in 1..Len(s)}
In(x, s)   == \E i \in 1..Len(s) : Equal(x, s[i])
NoDup(s)   == \A i, j \in 1..Len(s) : i # j => ~Equal(s[i], s[j])

\* the elements of s at the positions satisfying Keep, in order
Pick(s, Keep(_)) ==
  LET idx == SelectSeq([i \in 1..Len(s) |-> i], Keep)
  IN [j \in 1..Len(idx) |-> s[idx[j]]]

-----------------------------------------------------------------------------
(* unique: the first of each group of Equal elements, order kept *)
IsFirst(s, i) == \A j \in 1..(i - 1) : ~Equal(s[j], s[i])
Unique(s) == Pick(s, LAMBDA i : IsFirst(s, i))

(* Set algebra.  The mathematical operations, on equality classes ... *)
MUnion(a, b)        == Members(a) \cup Members(b)
MIntersection(a, b) == Members(a) \cap Members(b)
MDiff(a, b)         == Members(a) \ Members(b)
MSymDiff(a, b)      == (Members(a) \ Members(b)) \cup (Members(b) \ Members(a))

(* ... and as a container would hold them (representatives, insertion
   order); Lib.tla proves the two readings agree on Members. *)
Union(a, b)        == Unique(a \o b)
Intersection(a, b) == Unique(SelectSeq(a, LAMBDA x : In(x, b)))
Diff(a, b)         == Unique(SelectSeq(a, LAMBDA x : ~In(x, b)))
SymDiff(a, b)      == Union(Diff(a, b), Diff(b, a))

-----------------------------------------------------------------------------
(* Structural list functions *)
MinI(a, b) == IF a <= b THEN a ELSE b

Reverse(s) == [i \in 1..Len(s) |-> s[Len(s) + 1 - i]]

\* one level only: nested lists are replaced by their items, nothing deeper
Flatten(s) ==
  LET f[i \in 0..Len(s)] ==
        IF i = 0 THEN << >>
        ELSE f[i - 1] \o (IF IsList(s[i]) THEN s[i].items ELSE <<s[i]>>)
  IN f[Len(s)]

Zip(a, b) == [i \in 1..MinI(Len(a), Len(b)) |-> <<a[i], b[i]>>]

\* pairs [index, element], indices from 0
Enumerate(s) == [i \in 1..Len(s) |-> [idx |-> i - 1, x |-> s[i]]]

\* range(a, b, step): a, a+step, ... strictly before b   (step # 0)
RangeLen(a, b, step) ==
  IF step > 0 THEN (IF b > a THEN (b - a + step - 1) \div step ELSE 0)
  ELSE (IF b < a THEN (a - b + (-step) - 1) \div (-step) ELSE 0)
Range(a, b, step) == [i \in 1..RangeLen(a, b, step) |-> a + (i - 1) * step]
\* interval(a, b): the integers a..b inclusive, ascending
Interval(a, b) == [i \in 1..(IF b >= a THEN b - a + 1 ELSE 0) |-> a + i - 1]

\* chunks(s, n), n >= 1: consecutive pieces of n elements, the last one
\* possibly shorter but never empty; hence no piece for an empty list (the
\* textbook definition: Haskell chunksOf, Kotlin chunked, Ruby each_slice,
\* Scala grouped all give the empty result for the empty input)
Chunks(s, n) ==
  [j \in 1..((Len(s) + n - 1) \div n) |-> SubSeq(s, (j - 1) * n + 1, MinI(j * n, Len(s)))]

\* pairs: adjacent elements
Pairs(s) == [i \in 1..(IF Len(s) > 0 THEN Len(s) - 1 ELSE 0) |-> <<s[i], s[i + 1]>>]

\* grouped: maximal runs of adjacent Equal elements
GroupStarts(s) == SelectSeq([i \in 1..Len(s) |-> i],
                            LAMBDA i : i = 1 \/ ~Equal(s[i - 1], s[i]))
Grouped(s) ==
  LET st == GroupStarts(s)
      en(j) == IF j = Len(st) THEN Len(s) ELSE st[j + 1] - 1
  IN [j \in 1..Len(st) |-> SubSeq(s, st[j], en(j))]

(* filter / map_list / reduce on int lists with a fixed catalogue of argument
   functions (the harness passes the same functions as lambdas):
     predicates  "even": x % 2 == 0      "gt": x > c        "ne": x != c
     maps        "sq":   x * x           "addc": x + c      "neg": -x
     binary      "add": a + b   "sub": a - b   "mix": 2 * a + b             *)
PredOf(p, c, x) == CASE p = "even" -> x % 2 = 0
                     [] p = "gt"   -> x > c
                     [] p = "ne"   -> x # c
MapOf(f, c, x) == CASE f = "sq"   -> x * x
                    [] f = "addc" -> x + c
                    [] f = "neg"  -> -x
BinOf(f, x, y) == CASE f = "add" -> x + y
                    [] f = "sub" -> x - y
                    [] f = "mix" -> 2 * x + y
Filter(s, p, c)  == SelectSeq(s, LAMBDA x : PredOf(p, c, x))
MapList(s, f, c) == [i \in 1..Len(s) |-> MapOf(f, c, s[i])]
\* left fold without initial value, s non-empty
Reduce(s, f) ==
  LET g[i \in 1..Len(s)] == IF i = 1 THEN s[1] ELSE BinOf(f, g[i - 1], s[i])
  IN g[Len(s)]

-----------------------------------------------------------------------------
(* Numeric functions of a list of numeric scalars: exact rationals. *)
Rat(n, d) == [n |-> n, d |-> d]
RatEq(p, q) == p.n * q.d = q.n * p.d

Sum2(s) == LET f[i \in 0..Len(s)] == IF i = 0 THEN 0 ELSE f[i - 1] + Num2(s[i])
           IN f[Len(s)]
Prod2(s) == LET f[i \in 0..Len(s)] == IF i = 0 THEN 1 ELSE f[i - 1] * Num2(s[i])
            IN f[Len(s)]
Pow2(k) == LET f[i \in 0..k] == IF i = 0 THEN 1 ELSE 2 * f[i - 1] IN f[k]
AllInt(s) == \A i \in 1..Len(s) : s[i].k = "int"

\* sum / prod: an int exactly when every element is an int
Sum(s)  == [int |-> AllInt(s), r |-> Rat(Sum2(s), 2)]
Prod(s) == [int |-> AllInt(s), r |-> Rat(Prod2(s), Pow2(Len(s)))]
Mean(s) == Rat(Sum2(s), 2 * Len(s))                        \* s non-empty

(* order statistics: lists of numbers, or lists of strings *)
Key(x) == IF IsNum(x) THEN Num2(x) ELSE x.v
Homogeneous(s) == (\A i \in 1..Len(s) : IsNum(s[i])) \/ (\A i \in 1..Len(s) : s[i].k = "str")
Sorted(s) == SortSeq(s, LAMBDA a, b : Key(a) < Key(b))

\* as Key values (twice the number / the string code); s non-empty
MinKey(s) == CHOOSE m \in {Key(s[i]) : i \in 1..Len(s)} : \A i \in 1..Len(s) : m <= Key(s[i])
MaxKey(s) == CHOOSE m \in {Key(s[i]) : i \in 1..Len(s)} : \A i \in 1..Len(s) : m >= Key(s[i])
MedianLowKey(s)  == Key(Sorted(s)[(Len(s) + 1) \div 2])
MedianHighKey(s) == Key(Sorted(s)[Len(s) \div 2 + 1])
\* "mean of the middle two": the value as a rational (numeric lists only)
Median(s) == Rat(MedianLowKey(s) + MedianHighKey(s), 4)
KeyRat(key) == Rat(key, 2)                                   \* numeric key -> value

-----------------------------------------------------------------------------
(* The same functions on every number and every string (wide kinds included):
   exact dyadic rationals in limbs; the order statistics as ELEMENTS (compared
   up to Equal: which of 1 and 1.0 is returned is not stated). *)
AllIntX(s) == \A i \in 1..Len(s) : s[i].k \in {"int", "bint"}
AnyWide(s) == \E i \in 1..Len(s) : IsWide(s[i])
AllNum(s)  == \A i \in 1..Len(s) : IsNum(s[i])
AllStr(s)  == \A i \in 1..Len(s) : IsStr(s[i])

\* left-to-right sums / products: f[j] is the value after the first j elements
SumQ(s)    == LET f[j \in 0..Len(s)] == IF j = 0 THEN QZero ELSE QAdd(f[j - 1], QV(s[j])) IN f[Len(s)]
AbsSumQ(s) == LET f[j \in 0..Len(s)] == IF j = 0 THEN QZero ELSE QAdd(f[j - 1], QAbs(QV(s[j]))) IN f[Len(s)]
ProdQ(s)   == LET f[j \in 0..Len(s)] == IF j = 0 THEN QOne ELSE QMul(f[j - 1], QV(s[j])) IN f[Len(s)]

(* When is the double arithmetic of a left-to-right sum EXACT?  Every
   operation of IEEE arithmetic returns the exact result when that result is
   a double.  So: all elements ints (host integers, always exact), or every
   element and every prefix sum is a double.  Then sum(s) must equal SumQ(s)
   to the last bit - whatever the magnitude (sum([2^-41]) is 2^-41, not 0.0).
   Otherwise the result is compared with a tolerance (IEEE accuracy is not the
   subject of the property).                                                *)
ExactSum(s) ==
  \/ AllIntX(s)
  \/ /\ \A i \in 1..Len(s) : Rep53(QV(s[i]))
     /\ LET f[j \in 0..Len(s)] == IF j = 0 THEN QZero ELSE QAdd(f[j - 1], QV(s[j]))
        IN \A i \in 1..Len(s) : Rep53(f[i])
ExactProd(s) ==
  \/ AllIntX(s)
  \/ /\ \A i \in 1..Len(s) : Rep53(QV(s[i]))
     /\ LET f[j \in 0..Len(s)] == IF j = 0 THEN QOne ELSE QMul(f[j - 1], QV(s[j]))
        IN \A i \in 1..Len(s) : Rep53(f[i])

\* mean = sum / length: exact when the sum is, is a double, and the quotient is a double
\* (the odd part of the length divides the numerator)
RECURSIVE OddPartN(_)
OddPartN(n) == IF n % 2 = 0 THEN OddPartN(n \div 2) ELSE n
RECURSIVE TwoExpN(_)
TwoExpN(n) == IF n % 2 = 0 THEN 1 + TwoExpN(n \div 2) ELSE 0
MeanDyadic(s) == DivModSmall(QNorm(SumQ(s)).num, OddPartN(Len(s))).r = 0
\* the mean as a dyadic rational (only when MeanDyadic)
MeanQ(s) == LET q == QNorm(SumQ(s))
            IN QQ(DivModSmall(q.num, OddPartN(Len(s))).q, q.e + TwoExpN(Len(s)))
ExactMean(s) == ExactSum(s) /\ Rep53(SumQ(s)) /\ MeanDyadic(s) /\ Rep53(MeanQ(s))

\* order statistics: lists of numbers or lists of strings, s non-empty
SortedX(s)   == SortSeq(s, Lt)
MinEl(s)     == SortedX(s)[1]
MaxEl(s)     == SortedX(s)[Len(s)]
MedLowEl(s)  == SortedX(s)[(Len(s) + 1) \div 2]
MedHighEl(s) == SortedX(s)[Len(s) \div 2 + 1]
\* median of numbers: the middle element, or half the sum of the middle two
MedianSumQ(s) == QAdd(QV(MedLowEl(s)), QV(MedHighEl(s)))              \* TWICE the median
ExactMedian(s) == Len(s) % 2 = 1 \/
                  (Rep53(QV(MedLowEl(s))) /\ Rep53(QV(MedHighEl(s))) /\ Rep53(MedianSumQ(s)))

-----------------------------------------------------------------------------
(* pow on ints, on its whole domain: the exponent is a BigInt as well
   (pow(1, 2^70), pow(-1, 2^70 + 1), pow(0, 2^70) have small results). *)
PowX(a, kb) ==
  IF kb.sg = 0 THEN One
  ELSE IF a.sg = 0 THEN Zero
  ELSE IF a = One THEN One
  ELSE IF a = Neg(One) THEN (IF IsEvenB(kb) THEN One ELSE Neg(One))
  ELSE Pow(a, ToInt(kb))                   \* |a| >= 2: the exponent is a TLC integer

(* Powers of a one-limb base (2 <= b <= 9999) by repeated multiplication with
   the largest b^j <= 9999: linear in the length of the result per step, so
   2^5000 (377 limbs) or 3^5000 are multiplied out in a fraction of a second
   (BigInt!Pow squares by schoolbook multiplication with recursive operators,
   which TLC evaluates in time quadratic in the recursion depth).  Lib.tla,
   PowLaws, proves PowSmallMag = Pow. *)
MulSmallF(m, d) ==                       \* m * d, d in 1..9999: one chain carrying (limbs so far, carry)
  LET n == Len(m)
      f[i \in 0..n] == IF i = 0 THEN [s |-> << >>, c |-> 0]
                       ELSE LET p == f[i - 1]  t == m[i] * d + p.c
                            IN [s |-> Append(p.s, t % Base), c |-> t \div Base]
      z == f[n]
  IN IF z.c = 0 THEN z.s ELSE Append(z.s, z.c)
RECURSIVE NatPow(_, _)
NatPow(b, j) == IF j = 0 THEN 1 ELSE b * NatPow(b, j - 1)
RECURSIVE MaxJAt(_, _)
MaxJAt(b, j) == IF NatPow(b, j + 1) > 9999 THEN j ELSE MaxJAt(b, j + 1)
MaxJ(b) == MaxJAt(b, 1)                                           \* the largest j with b^j <= 9999
PowSmallMag(b, k) ==                                              \* the magnitude of b^k, 2 <= b <= 9999
  LET j == MaxJ(b)  d == NatPow(b, j)  q == k \div j
      \* (p ranges over a singleton: a bound variable holds a value, see ModMag)
      g[i \in 0..q] == IF i = 0 THEN <<NatPow(b, k % j)>>
                       ELSE CHOOSE v \in {MulSmallF(p, d) : p \in {g[i - 1]}} : TRUE
  IN g[q]
\* an estimate (from above) of the limb steps PowSmallMag(b, k) takes: multiplications * mean length
RECURSIVE BitsN(_)
BitsN(b) == IF b = 0 THEN 0 ELSE 1 + BitsN(b \div 2)
PowCost(b, k) == ((k \div MaxJ(b)) + 1) * (((BitsN(b) * k) \div 27) + 1)

(* Powers too long to be multiplied out by TLC within the time of a check
   (2^65536 has 4 932 limbs) are validated through NECESSARY conditions that
   are linear in the length of the result:
     - the residues modulo a dozen pairwise coprime moduli (CRT: the result
       is determined modulo their product, about 10^47),
     - the sign, and the bracket of its length,
     - powers of ten exactly (zero limbs below one limb 1, 10, 100 or 1000). *)
PowModuli == <<9973, 9967, 9949, 9941, 9931, 9929, 9923, 9907, 9901, 9887, 9883, 9871>>   \* primes
\* m mod d for a magnitude, d in 1..9999 (r * Base + limb < 10^8: inside TLC's 32 bits).  Horner from the most
\* significant limb, as recursive FUNCTIONS over blocks of 1000 limbs: the evaluation of a recursive operator
\* with an accumulator is quadratic in its depth in TLC, that of a recursive function is linear, and the
\* blocks bound the depth of the Java stack (2^65536 has 4 932 limbs, (2^64)^4100 has 19 748)
ModBlock(m, d, r0, hi, lo) ==          \* fold the limbs hi, hi-1 .. lo into r0
  LET f[i \in 0..(hi - lo + 1)] == IF i = 0 THEN r0 ELSE (f[i - 1] * Base + m[hi + 1 - i]) % d
  IN f[hi - lo + 1]
ModMag(m, d) ==
  LET n == Len(m)  nb == (n + 999) \div 1000
      \* (r0 ranges over the singleton {g[j - 1]}: a bound variable holds a VALUE, an operator argument would
      \* be evaluated lazily at the bottom of the next block and the depths would add up)
      g[j \in 0..nb] == IF j = 0 THEN 0
                        ELSE LET hi == n - (j - 1) * 1000
                             IN CHOOSE v \in {ModBlock(m, d, r0, hi, MaxI(hi - 999, 1)) : r0 \in {g[j - 1]}} : TRUE
  IN g[nb]
\* the residue of a BigInt in 0..d-1 (floored)
ModSmall(x, d) == LET r == ModMag(x.mag, d)
                  IN IF x.sg >= 0 \/ r = 0 THEN r ELSE d - r
\* b^k mod d in native arithmetic, b in 0..d-1, d <= 9999, k a TLC integer >= 0
RECURSIVE PowModN(_, _, _)
PowModN(b, k, d) == IF k = 0 THEN 1 % d
                    ELSE LET h == PowModN(b, k \div 2, d)  sq == (h * h) % d
                         IN IF k % 2 = 1 THEN (sq * b) % d ELSE sq
ResiduesAgree(r, a, k) ==
  \A i \in 1..Len(PowModuli) :
     ModSmall(r, PowModuli[i]) = PowModN(ModSmall(a, PowModuli[i]), k, PowModuli[i])
\* number of bits of a magnitude
RECURSIVE BitsMag(_)
BitsMag(m) == IF m = << >> THEN 0 ELSE 1 + BitsMag(DivSmallMag(m, 2).q)
\* 2^((bits-1) k) <= |a|^k < 2^(bits k) and 10^(4 (L-1)) <= |r| < 10^(4 L), 3.321928 < log2(10) < 3.321929
SizeBracket(r, a, k) ==
  LET bits == FromInt(BitsMag(a.mag))  len == FromInt(Len(r.mag))  kk == FromInt(k)
      m6 == FromInt(1000000)  f4 == FromInt(4)
  IN /\ Less(Mul(Mul(f4, Sub(len, One)), FromInt(3321928)), Mul(Mul(bits, kk), m6))
     /\ Less(Mul(Mul(Sub(bits, One), kk), m6), Mul(Mul(f4, len), FromInt(3321929)))
SignOfPow(a, k) == IF a.sg >= 0 \/ k % 2 = 0 THEN a.sg * a.sg ELSE -1
\* 10^j as limbs, written down (not multiplied out)
P10T == <<1, 10, 100, 1000>>
Pow10(j) == [sg |-> 1, mag |-> [i \in 1..(j \div 4) |-> 0] \o <<P10T[(j % 4) + 1]>>]
IsTen(a) == a.mag = <<10>>
PowOfTen(a, k) == IF a.sg > 0 \/ k % 2 = 0 THEN Pow10(k) ELSE Neg(Pow10(k))
\* r is acceptable as a^k, |a| >= 2, k >= 1
PowPlausible(r, a, k) ==
  /\ r.sg = SignOfPow(a, k)
  /\ IF IsTen(a) THEN r = PowOfTen(a, k)
     ELSE ResiduesAgree(r, a, k) /\ SizeBracket(r, a, k)

IsPermOf(p, s) ==
  /\ Len(p) = Len(s)
  /\ \E f \in Permutations(1..Len(s)) : \A i \in 1..Len(s) : p[i] = s[f[i]]
PermsOf(s) == {[i \in 1..Len(s) |-> s[f[i]]] : f \in Permutations(1..Len(s))}

=============================================================================
