------------------------------- MODULE Str -------------------------------
(* C18 - the algebra of strings.

   Init picks a pair (s, t) of strings over the alphabet Sym (|s| <= MaxS,
   |t| <= MaxT) and a replacement text r.  The machine then runs the three
   string functions that are written in the language itself as the loops
   they are (src/ckl/modules/string.ckl):

     replace(s, a, b, start)   find the next occurrence at or after `pos`,
                               splice b in, continue behind the inserted text
     join(lst, sep)            accumulate sep + element, drop the first sep
     reverse(str)              prepend each character to the result

   and the properties say that each loop computes the mathematical operator
   of StrOps.tla (ReplaceAll, Join, Reverse), that splitting and joining are
   inverse, and that the remaining operators (natives in
   src/ckl/functions.py: find, contains, `in`, starts_with, ends_with, trim,
   upper, lower, length, chr, ord, +, s) satisfy the laws of the property
   statement on every pair.  When the machine is done the expected result of
   every operator on (s, t, r) is exported as one JSON record; the harness
   replays each on the interpreter (binding A). *)
EXTENDS StrOps, TLC, Json, IOUtils

CONSTANTS Sym,        \* alphabet: a set of code points
          MaxS, MaxT, \* bounds on Len(s), Len(t)
          Export      \* TRUE: print one case record per (s, t, r)

Strs(n) == UNION {[1..k -> Sym] : k \in 0..n}
C0 == Min(Sym)

VARIABLES s, t, r,    \* the inputs (fixed by Init)
          pc,         \* "replace", "join", "reverse", "done"
          cur, pos,   \* replace: working string and search start
          acc, k,     \* join / reverse: accumulator and loop index
          rep, joined,\* results of the finished loops
          cnt         \* <<ReplaceFound, JoinStep, ReverseStep>> steps taken (exported:
                      \* which actions ran how often is counted from the case records)

vars == <<s, t, r, pc, cur, pos, acc, k, rep, joined, cnt>>

\* replacement texts: nothing, a text containing the search text, one char
Repls(tt) == {<< >>, tt \o tt, <<C0>>}

Parts == IF t = << >> THEN <<s>> ELSE SplitLit(s, t)

Init == /\ s \in Strs(MaxS) /\ t \in Strs(MaxT) /\ r \in Repls(t)
        /\ pc = "replace" /\ cur = s /\ pos = 0
        /\ acc = << >> /\ k = 1 /\ rep = << >> /\ joined = << >>
        /\ cnt = <<0, 0, 0>>

-----------------------------------------------------------------------------
(* replace(s, a, b, start = 0):
     if a == '' then return s;                     (guard: nothing to find)
     def pos = find(s, a, start = start);
     if pos == -1 then return s;
     return replace(substr(s, 0, pos) + b + substr(s, pos + length(a)),
                    a, b, start = pos + length(b))                         *)

ReplaceFound ==
  /\ pc = "replace" /\ t # << >>
  /\ LET p == FindFrom(cur, t, pos) IN
       /\ p # -1
       /\ cur' = Take(cur, p) \o r \o Drop(cur, p + Len(t))
       /\ pos' = p + Len(r)
  /\ cnt' = [cnt EXCEPT ![1] = @ + 1]
  /\ UNCHANGED <<s, t, r, pc, acc, k, rep, joined>>

ReplaceDone ==
  /\ pc = "replace"
  /\ (t = << >> \/ FindFrom(cur, t, pos) = -1)
  /\ rep' = cur /\ pc' = "join" /\ acc' = << >> /\ k' = 1
  /\ UNCHANGED <<s, t, r, cur, pos, joined, cnt>>

(* join(lst, sep):  result = ""; for element in lst do result = result + sep
   + element end; return substr(result, length(sep))                        *)

JoinStep ==
  /\ pc = "join" /\ k <= Len(Parts)
  /\ acc' = acc \o t \o Parts[k] /\ k' = k + 1
  /\ cnt' = [cnt EXCEPT ![2] = @ + 1]
  /\ UNCHANGED <<s, t, r, pc, cur, pos, rep, joined>>

JoinDone ==
  /\ pc = "join" /\ k > Len(Parts)
  /\ joined' = Drop(acc, Len(t)) /\ pc' = "reverse" /\ acc' = << >> /\ k' = 1
  /\ UNCHANGED <<s, t, r, cur, pos, rep, cnt>>

(* reverse(str): result = ""; for ch in str do result = ch + result end     *)

ReverseStep ==
  /\ pc = "reverse" /\ k <= Len(s)
  /\ acc' = <<s[k]>> \o acc /\ k' = k + 1
  /\ cnt' = [cnt EXCEPT ![3] = @ + 1]
  /\ UNCHANGED <<s, t, r, pc, cur, pos, rep, joined>>

ReverseDone ==
  /\ pc = "reverse" /\ k > Len(s)
  /\ pc' = "done"
  /\ UNCHANGED <<s, t, r, cur, pos, acc, k, rep, joined, cnt>>

Next == ReplaceFound \/ ReplaceDone \/ JoinStep \/ JoinDone
        \/ ReverseStep \/ ReverseDone

Spec == Init /\ [][Next]_vars

-----------------------------------------------------------------------------
(* Properties. *)

TypeOK == /\ pc \in {"replace", "join", "reverse", "done"}
          /\ pos >= 0 /\ pos <= Len(cur)
          /\ k >= 1

\* loop invariant of replace: what is left of `pos` is final, the rest is
\* still to be replaced
ReplaceInv ==
  (pc = "replace" /\ t # << >>) =>
     Take(cur, pos) \o ReplaceAll(Drop(cur, pos), t, r) = ReplaceAll(s, t, r)

\* the replace loop makes progress: the unprocessed suffix gets shorter
ReplaceProgress ==
  [][ReplaceFound => Len(cur') - pos' < Len(cur) - pos]_vars

ReplaceResult ==
  pc # "replace" => rep = (IF t = << >> THEN s ELSE ReplaceAll(s, t, r))

JoinInv ==
  pc = "join" => Drop(acc, Len(t)) = Join(SubSeq(Parts, 1, k - 1), t)
                 \/ (k = 1 /\ acc = << >>)

\* splitting on a literal separator and joining with it are inverse
SplitJoin ==
  pc \in {"reverse", "done"} =>
     /\ joined = Join(Parts, t)
     /\ joined = s

ReverseResult == pc = "done" => acc = Reverse(s)

\* the laws of the property statement, on every pair (checked once per pair)
Laws ==
  pc = "done" =>
    /\ Reverse(Reverse(s)) = s
    /\ Len(Reverse(s)) = Len(s)
    /\ Upper(Upper(s)) = Upper(s) /\ Lower(Lower(s)) = Lower(s)
    /\ Trim(Trim(s)) = Trim(s)
    /\ Contains(s, Trim(s))
    \* the two formulations of replace and split (StrOps.tla) agree
    /\ (t # << >> => /\ ReplaceScan(s, t, r) = ReplaceAll(s, t, r)
                     /\ SplitScan(s, t) = SplitLit(s, t))
    /\ (Trim(s) # << >> => Head(Trim(s)) \notin WS /\ Trim(s)[Len(Trim(s))] \notin WS)
    \* the consistency square
    /\ Contains(s, t) <=> (Find(s, t) >= 0)
    /\ Contains(s, t) <=> Decomposes(s, t)
    /\ (Find(s, t) >= 0 => Occurs(s, t, Find(s, t)))
    /\ StartsWith(s, t) <=> (Find(s, t) = 0)
    /\ StartsWith(s, t) <=> (Len(t) <= Len(s) /\ Take(s, Len(t)) = t)
    /\ EndsWith(s, t) <=> StartsWith(Reverse(s), Reverse(t))
    /\ EndsWith(s, t) <=> (Len(t) <= Len(s) /\ Drop(s, Len(s) - Len(t)) = t)
    /\ StartsWith(s \o t, s) /\ EndsWith(s \o t, t) /\ Contains(s \o t, t)
    /\ Len(s \o t) = Len(s) + Len(t)
    /\ Find(t \o s, t) = 0
    /\ \A i \in 1..Len(s) : Ord(Chr(s[i])) = s[i] /\ Chr(Ord(<<s[i]>>)) = <<s[i]>>
    \* split / replace
    /\ t # << >> =>
         /\ Join(SplitParts(s, t), t) = s
         /\ Len(SplitParts(s, t)) = CountOcc(s, t) + 1
         /\ \A i \in 1..Len(SplitParts(s, t)) : ~Contains(SplitParts(s, t)[i], t)
         /\ ReplaceAll(s, t, t) = s
         /\ ReplaceAll(s, t, r) = Join(SplitParts(s, t), r)
         /\ Len(ReplaceAll(s, t, r)) = Len(s) + CountOcc(s, t) * (Len(r) - Len(t))
         /\ (~Contains(s, t) => ReplaceAll(s, t, r) = s)
         /\ ~Contains(ReplaceAll(s, t, << >>), t) \/ Len(t) > 1
    \* interpolation: text outside the placeholder unchanged, padding to width
    /\ \A w \in 0..(MaxS + 2) :
         /\ Len(Pad(s, w, "r")) = (IF w > Len(s) THEN w ELSE Len(s))
         /\ EndsWith(Pad(s, w, "r"), s) /\ StartsWith(Pad(s, w, "l"), s)
         /\ Trim(Pad(Trim(s), w, "l")) = Trim(s)

-----------------------------------------------------------------------------
(* Binding A: one record per finished machine with the expected result of
   every operator.  Booleans as 0/1. *)

B(x) == IF x THEN 1 ELSE 0
Emit(tag, rec) == IF Export THEN PrintT("@@" \o tag \o "@@" \o ToJson(rec)) ELSE TRUE

Seg(kk, txt, var, w, mode) ==
  [k |-> kk, txt |-> txt, var |-> var, w |-> w, mode |-> mode, hex |-> FALSE]
\* the values: s and t.  s(..) finds them as the variables v and u,
\* sprintf(..) as its eleventh and its second argument: {10} and {1}
NamedEnv(n1, n2) == <<[name |-> n1, k |-> "s", txt |-> s, n |-> 0, ds |-> << >>],
                      [name |-> n2, k |-> "s", txt |-> t, n |-> 0, ds |-> << >>]>>
EnvS == NamedEnv(<<118>>, <<117>>)
EnvF == NamedEnv(<<49, 48>>, <<49>>)
ModeOf(i) == IF i = 0 THEN "r" ELSE IF i = 1 THEN "l" ELSE "z"
\* t {v#w} for every width and mode, then t {u}, then reverse(t) and an
\* opening brace that is never closed, followed by a digit: ordinary text
RECURSIVE IpSegs(_)
IpSegs(i) ==
  IF i >= 3 * (MaxS + 3)
  THEN <<Seg(0, t, 1, 0, "r"), Seg(1, << >>, 2, 0, "r"), Seg(0, Reverse(t) \o <<123, 49>>, 1, 0, "r")>>
  ELSE <<Seg(0, t, 1, 0, "r"), Seg(1, << >>, 1, i \div 3, ModeOf(i % 3))>> \o IpSegs(i + 1)

NoBrace(q) == \A i \in 1..Len(q) : q[i] \notin {123, 125}

\* the two formulations of interpolation (segments / scanning the text) agree
\* and the names play no part (checked for the short s: the widths 0..MaxS+2
\* lie on both sides of their lengths)
TemplateLaw ==
  (pc = "done" /\ r = << >> /\ Len(s) <= 2 /\ NoBrace(t)) =>
     LET segs == IpSegs(0)
         want == Interp(segs, EnvS)
         a    == S(TplText(segs, <<EnvS[1].name, EnvS[2].name>>), EnvS)
         b    == S(TplText(segs, <<EnvF[1].name, EnvF[2].name>>), EnvF)
     IN /\ a.ok /\ a.txt = want
        /\ b.ok /\ b.txt = want /\ ~ArgNamesOK(EnvF)

CaseRec ==
  [ s  |-> s, t |-> t, r |-> r,
    fi |-> Find(s, t),
    co |-> B(Contains(s, t)),
    sw |-> B(StartsWith(s, t)),
    ew |-> B(EndsWith(s, t)),
    sp |-> IF t = << >> THEN << >> ELSE SplitLit(s, t),
    rp |-> rep,
    jo |-> joined,
    rv |-> acc,
    tr |-> Trim(s), up |-> Upper(s), lo |-> Lower(s),
    ln |-> Len(s),
    cnt |-> cnt,
    cc |-> s \o t,
    \* s('<t>{v#w}<t>{v#-w}<t>{v#0w}...<t>{u}<reverse t>{1'): one template
    \* with a placeholder for every width 0..MaxS+2 and mode, each preceded by
    \* the literal text t (once per pair: only in the record with the empty
    \* replacement)
    ip |-> IF r # << >> THEN << >> ELSE Interp(IpSegs(0), EnvS) ]

ExportCase == pc = "done" => Emit("CASE", CaseRec)

=============================================================================
