CONSTANTS
  MaxLen = 3
  Export = TRUE
  OtherUntil = 2
SPECIFICATION Spec
VIEW View
INVARIANT TypeOK
INVARIANT ReachIsBound
INVARIANT OsTouchingImpliesInsecure
INVARIANT NoInsecureBound
INVARIANT NoOsTouchingReachable
INVARIANT RunOnlyWhenInsecure
INVARIANT FlagIsConfig
INVARIANT ShadowNotBase
PROPERTY FlagImmutable
PROPERTY OthersChangeNothing
CHECK_DEADLOCK FALSE
