CONSTANTS
  MaxLen = 3
  Export = TRUE
SPECIFICATION Spec
VIEW View
INVARIANT TypeOK
INVARIANT ReachIsBound
INVARIANT OsTouchingImpliesInsecure
INVARIANT NoInsecureBound
INVARIANT NoOsTouchingReachable
INVARIANT RunOnlyWhenInsecure
INVARIANT FlagIsConfig
INVARIANT ShadowNotBase
PROPERTY FlagImmutable
CHECK_DEADLOCK FALSE
