----------------------------- MODULE Order_Rng -----------------------------
(* C12 - "Running the same program with the same inputs and random seed
   always produces the same value, output text and error, in every process."

   The random numbers of the language: functions.py keeps ONE module-level
   `seed`.  A process starts with whatever the host left there (Init: any
   start value - that is why unseeded numbers are not compared), set_seed(n)
   stores n, every draw advances it (OrderOps!RngNext) and derives its value
   from it.  The three forms of random - random(a), random(a, b), random() -
   are the kinds "int1", "int2", "dec"; Random->choice / choices / sample use
   "int1".  The table Source says where a kind takes its number from:
   "seeded" (the module-level seed) or "host" (the generator of the host,
   which set_seed does not reach: any value, per process).

   Determinism: the numbers drawn since the last set_seed(s) are a function
   of s and of the kinds drawn - OrderOps!RngDraws - whatever happened before
   set_seed (start value, earlier draws).  With Source = AllSeeded TLC proves
   it; with a kind on "host" ReportVary lists the sequences that differ.  The
   harness derives Source from what it observed, like the table of sites. *)
EXTENDS OrderOps, Json, IOUtils

CONSTANTS Seeds,       \* arguments of set_seed
          Starts,      \* values of the module-level seed at process start (stand-ins for "anything")
          MaxDraws,    \* draws recorded after a set_seed
          Source       \* kind -> "seeded" | "host"

Kinds == {"int1", "int2", "dec"}
Bounds(k) == CASE k = "int1" -> <<0, 1000>> [] k = "int2" -> <<5, 50>> [] OTHER -> <<0, 0>>
HostVals(k) == CASE k = "int1" -> {3, 998} [] k = "int2" -> {5, 49} [] OTHER -> {1, 233279}   \* what a host generator may give

AllSeeded   == [k \in Kinds |-> "seeded"]
DecFromHost == [k \in Kinds |-> IF k = "dec" THEN "host" ELSE "seeded"]
SourceObserved == LET t == JsonDeserialize(IOEnv.SOURCE_FILE) IN [k \in Kinds |-> t[k]]

VARIABLES seed,     \* the module-level seed
          since,    \* the argument of the last set_seed; -1: none yet in this process
          log,      \* <<kind, value>> of the draws since then
          pre       \* number of draws before the first set_seed (at most MaxDraws: keeps the model finite)
vars == <<seed, since, log, pre>>

Init == seed \in Starts /\ since = -1 /\ log = << >> /\ pre = 0

SetSeed(s) == seed' = s /\ since' = s /\ log' = << >> /\ UNCHANGED pre

Value(k, nx) == LET b == Bounds(k) IN IF k = "dec" THEN nx ELSE RngInt(nx, b[1], b[2])

Draw(k) ==
  /\ Len(log) < MaxDraws /\ (since = -1 => pre < MaxDraws)
  /\ pre' = IF since = -1 THEN pre + 1 ELSE pre
  /\ IF Source[k] = "seeded"
     THEN (/\ seed' = RngNext(seed)
           /\ log' = IF since = -1 THEN log ELSE Append(log, <<k, Value(k, RngNext(seed))>>))
     ELSE (/\ seed' = seed
           /\ \E v \in HostVals(k) : log' = IF since = -1 THEN log ELSE Append(log, <<k, v>>))
  /\ UNCHANGED since

Next == (\E s \in Seeds : SetSeed(s)) \/ (\E k \in Kinds : Draw(k))
Spec == Init /\ [][Next]_vars

TypeOK == /\ seed \in 0..(RngMod - 1) \cup Seeds \cup Starts
          /\ since \in Seeds \cup {-1}
          /\ Len(log) <= MaxDraws /\ pre \in 0..MaxDraws
          /\ \A i \in 1..Len(log) : log[i][1] \in Kinds

Expected == RngDraws(since, [i \in 1..Len(log) |-> Bounds(log[i][1])])
Drawn    == [i \in 1..Len(log) |-> log[i][2]]

(* the property *)
Determinism == since # -1 => Drawn = Expected

(* ints stay in their range, the decimal in [0, 1) *)
InRange == \A i \in 1..Len(log) :
             LET b == Bounds(log[i][1]) IN
             IF log[i][1] = "dec" THEN log[i][2] \in 0..(RngMod - 1) ELSE (log[i][2] >= b[1] /\ log[i][2] < b[2])

ReportVary ==
  (since # -1 /\ Drawn # Expected) =>
     PrintT("@@RNGVARY@@" \o ToJson([seed |-> since, kinds |-> [i \in 1..Len(log) |-> log[i][1]],
                                     drawn |-> Drawn, expected |-> Expected]))

ASSUME DOMAIN Source = Kinds /\ \A k \in Kinds : Source[k] \in {"seeded", "host"}
=============================================================================
