\* C11 round 4, deviation (must give TLC a counterexample of BindsExactly):
\* the module object is made once, when the module has been loaded, and handed
\* out by every later qualified require (ModAtLoad) - it does not expose the
\* module's public definitions as they are when the require binds
CONSTANTS
  Interps = {"i1"}
  UnwindOnFailure = TRUE
  DetachCallerEnv = TRUE
  Mode = "c11"
  ModSeq <- Mods2
  MaxOut = 0
  GenRot = TRUE
  GenBack = "all"
  GenSorted = FALSE
  MaxCtr = 1
  LoadCap = 2
  MaxReq = 3
  CmdsOf <- C11Cmds4
  Export = FALSE
  ModObj <- ModAtLoad
SPECIFICATION Spec
INVARIANT TypeOK
PROPERTY BindsExactly
CHECK_DEADLOCK FALSE
