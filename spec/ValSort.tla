----------------------------- MODULE ValSort -----------------------------
(* C07 - `sorted`: the insertion sort of functions.py FuncSorted (3589-3637)
   as a state machine over the Val order, and the property it must have: the
   result is an ordered permutation of the input that keeps equal elements in
   their original order.

       result = lst[:]
       for i in range(len(result)):                       OuterBegin / OuterEnd
           v = key(result[i])
           for j in range(i - 1, -1, -1):
               v2 = key(result[j])
               if cmp(v, v2) < 0: swap result[j], result[j+1]   InnerSwap
               else: break                                      InnerBreak

   Four ways of calling it are modelled (chosen in Init):
     "num"    sorted(l)                      elements 1, 1.0, 2, 0.5: 1 and 1.0
                                             are Equal keys but distinguishable
     "plain"  sorted(l)                      elements [key, tag] (list order)
     "key"    sorted(l, key=fn(x) x[0])      elements [key, tag]
     "keyrev" sorted(l, cmp=fn(a, b) compare(b, a), key=fn(x) x[0])
     "numkey" sorted(l, key=fn(x) [type(x), x])   elements 1, 1.0, 2, 0.5
     "num3"   sorted(l, cmp=fn(a, b) 3 * compare(a, b))      a cmp may answer any
     "numsub" sorted(l, cmp=fn(a, b) int(2*a) - int(2*b))    negative / positive int

   and the scan of `min` / `max` over a list (modules/core.ckl):

       min_item = a[0]; min_val = key(min_item)               (Init)
       for item in a:
           val = key(item)
           if val < min_val: min_val = val; min_item = item   ScanTake / ScanSkip
       return min_item                                        ScanEnd

     "min" "max"        min(l) / max(l)                  elements 1, 1.0, 2, 0.5
     "minkey" "maxkey"  min(l, key=fn(x) x[0]) / max     elements [key, tag]
   with the property: the result is an element no other element is below (above). *)
EXTENDS Val, TLC, Json, IOUtils

CONSTANTS MaxN,       \* longest input list
          NKeys,      \* keys 1..NKeys
          NTags,      \* tags: that many distinct strings
          Export

TagStr(t) == VStr(<<96 + t>>)                      \* 'a', 'b', ...
Tagged == {VList(<<VInt(k), TagStr(t)>>) : k \in 1..NKeys, t \in 1..NTags}
Nums   == {VInt(1), VDec(1, 1), VInt(2), VDec(1, 2)}
SortModes == {"num", "numkey", "num3", "numsub", "plain", "key", "keyrev"}
ScanModes == {"min", "max", "minkey", "maxkey"}
Modes  == SortModes \cup ScanModes
NumModes == {"num", "numkey", "num3", "numsub", "min", "max"}
Pool(m) == IF m \in NumModes THEN Nums ELSE Tagged
\* type(x) as a string value: 'int' / 'decimal'
TypeStr(x) == IF x.k = "int" THEN VStr(<<105, 110, 116>>) ELSE VStr(<<100, 101, 99, 105, 109, 97, 108>>)

Seqs(S, n) == UNION {[1..m -> S] : m \in 0..n}

\* "numkey": sorted(l, key = fn(x) [type(x), x]) - a key that tells the Equal
\* elements 1 and 1.0 apart (each element must get its own key)
KeyOf(m, x)  == IF m \in {"key", "keyrev", "minkey", "maxkey"} THEN x.items[1]
                ELSE IF m = "numkey" THEN VList(<<TypeStr(x), x>>) ELSE x
\* cmp(a, b) as called by the loop; the default is `compare`.  The loop asks only
\* whether the answer is negative: 3 * compare(a, b) and a - b (whose sign is
\* that of compare(a, b); the elements are multiples of 1/2 and a cmp must
\* return an int: int(2 * a) - int(2 * b)) must sort like compare
Cmp(m, x, y) == IF m = "keyrev" THEN Compare(y, x)
                ELSE IF m = "num3" THEN 3 * Compare(x, y) ELSE Compare(x, y)
\* the test of the scan: is x a better candidate than the one held
Better(m, x, y) == IF m \in {"min", "minkey"} THEN Less(x, y) ELSE Less(y, x)

VARIABLES mode, inp, res, i, j, v, pc
vars == <<mode, inp, res, i, j, v, pc>>

Init == \/ /\ mode \in SortModes
           /\ inp \in Seqs(Pool(mode), MaxN)
           /\ res = inp /\ i = 1 /\ j = 0 /\ v = VNull /\ pc = "outer"
        \/ /\ mode \in ScanModes                          \* j: the candidate's position, v: its key
           /\ inp \in Seqs(Pool(mode), MaxN) /\ inp # << >>
           /\ res = inp /\ i = 1 /\ j = 1 /\ v = KeyOf(mode, inp[1]) /\ pc = "scan"

\* every action reports that it was taken (counted by the harness: TLC's own
\* -coverage instruments every operator of Val.tla and costs more than the run)
Act(name) == IF Export THEN PrintT("@@ACT@@" \o ToJson(name)) ELSE TRUE

OuterBegin == /\ pc = "outer" /\ i <= Len(res)
              /\ v' = KeyOf(mode, res[i]) /\ j' = i - 1 /\ pc' = "inner"
              /\ UNCHANGED <<mode, inp, res, i>>
              /\ Act("OuterBegin")
OuterEnd   == /\ pc = "outer" /\ i > Len(res)
              /\ pc' = "done"
              /\ UNCHANGED <<mode, inp, res, i, j, v>>
              /\ Act("OuterEnd")
InnerSwap  == /\ pc = "inner" /\ j >= 1
              /\ Cmp(mode, v, KeyOf(mode, res[j])) < 0
              /\ res' = [res EXCEPT ![j] = res[j + 1], ![j + 1] = res[j]]
              /\ j' = j - 1
              /\ UNCHANGED <<mode, inp, i, v, pc>>
              /\ Act("InnerSwap")
InnerBreak == /\ pc = "inner"
              /\ (IF j < 1 THEN TRUE ELSE Cmp(mode, v, KeyOf(mode, res[j])) >= 0)
              /\ i' = i + 1 /\ pc' = "outer"
              /\ UNCHANGED <<mode, inp, res, j, v>>
              /\ Act("InnerBreak")

ScanTake == /\ pc = "scan" /\ i <= Len(res)
            /\ Better(mode, KeyOf(mode, res[i]), v)
            /\ j' = i /\ v' = KeyOf(mode, res[i]) /\ i' = i + 1
            /\ UNCHANGED <<mode, inp, res, pc>>
            /\ Act("ScanTake")
ScanSkip == /\ pc = "scan" /\ i <= Len(res)
            /\ ~Better(mode, KeyOf(mode, res[i]), v)
            /\ i' = i + 1
            /\ UNCHANGED <<mode, inp, res, j, v, pc>>
            /\ Act("ScanSkip")
ScanEnd  == /\ pc = "scan" /\ i > Len(res)
            /\ pc' = "done"
            /\ UNCHANGED <<mode, inp, res, i, j, v>>
            /\ Act("ScanEnd")

Next == OuterBegin \/ OuterEnd \/ InnerSwap \/ InnerBreak \/ ScanTake \/ ScanSkip \/ ScanEnd
Spec == Init /\ [][Next]_vars

-----------------------------------------------------------------------------
Perms(n) == {p \in [1..n -> 1..n] : \A x \in 1..n, y \in 1..n : x # y => p[x] # p[y]}

\* out is an ordered permutation of in_ that keeps equal (keyed) elements in
\* their original order
IsStableSort(m, in_, out) ==
  /\ Len(out) = Len(in_)
  /\ \E p \in Perms(Len(in_)) :
       /\ \A k \in 1..Len(in_) : out[k] = in_[p[k]]
       /\ \A k \in 1..Len(in_), l \in 1..Len(in_) :
            k < l => LET c == Cmp(m, KeyOf(m, out[k]), KeyOf(m, out[l])) IN
                     c < 0 \/ (c = 0 /\ p[k] < p[l])

TypeOK == /\ mode \in Modes /\ pc \in {"outer", "inner", "scan", "done"}
          /\ i \in 1..(MaxN + 1) /\ j \in 0..MaxN

Final == pc = "done" /\ mode \in SortModes => IsStableSort(mode, inp, res)

\* min / max: the element returned is one no other element is below (above) -
\* the property - and, as the scan replaces its candidate only by a strictly
\* better one, the first such element
Keys(m, s) == [k \in DOMAIN s |-> KeyOf(m, s[k])]
ScanFinal ==
  pc = "done" /\ mode \in ScanModes =>
    /\ res = inp
    /\ IF mode \in {"min", "minkey"}
       THEN IsLeastAt(Keys(mode, inp), j) /\ j = FirstLeast(Keys(mode, inp))
       ELSE IsGreatestAt(Keys(mode, inp), j) /\ j = FirstGreatest(Keys(mode, inp))
\* loop invariant of the scan: the candidate is the first best of what was seen
ScanBest ==
  pc = "scan" =>
    LET seen == SubSeq(inp, 1, IF i > 1 THEN i - 1 ELSE 1) IN
    /\ v = KeyOf(mode, inp[j])
    /\ j = IF mode \in {"min", "minkey"} THEN FirstLeast(Keys(mode, seen))
                                         ELSE FirstGreatest(Keys(mode, seen))

\* loop invariant: between outer iterations the first i-1 positions hold the
\* stably sorted first i-1 inputs and the rest is untouched
PrefixSorted ==
  pc = "outer" /\ mode \in SortModes =>
    /\ IsStableSort(mode, SubSeq(inp, 1, i - 1), SubSeq(res, 1, i - 1))
    /\ SubSeq(res, i, Len(res)) = SubSeq(inp, i, Len(inp))

\* sorted does not need cmp to be called on anything but keys of the input
Emit(tag, rec) == IF Export THEN PrintT("@@" \o tag \o "@@" \o ToJson(rec)) ELSE TRUE
Cmpct(m, s) == [k \in 1..Len(s) |->
                 IF m \in NumModes THEN <<s[k].n[1], s[k].n[2], IF s[k].k = "int" THEN 0 ELSE 1>>
                 ELSE <<s[k].items[1].n[1], s[k].items[2].s[1] - 96>>]
ExportFinal == pc = "done" /\ mode \in SortModes =>
                 Emit("SORT", [m |-> mode, inp |-> Cmpct(mode, inp), out |-> Cmpct(mode, res)])
ExportScan  == pc = "done" /\ mode \in ScanModes =>
                 Emit("MINMAX", [m |-> mode, inp |-> Cmpct(mode, inp), which |-> j,
                                 ok |-> [k \in DOMAIN inp |->
                                           IF mode \in {"min", "minkey"} THEN IsLeastAt(Keys(mode, inp), k)
                                           ELSE IsGreatestAt(Keys(mode, inp), k)]])

=============================================================================
