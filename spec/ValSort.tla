----------------------------- MODULE ValSort -----------------------------
(* C07 - `sorted`: the insertion sort of functions.py FuncSorted (3589-3637)
   as a state machine over the Val order, and the property it must have: the
   result is an ordered permutation of the input that keeps equal elements in
   their original order.

       result = lst[:]
       for i in range(len(result)):                       OuterBegin / OuterEnd
           v = key(result[i])
           for j in range(i - 1, -1, -1):
               v2 = key(result[j])
               if cmp(v, v2) < 0: swap result[j], result[j+1]   InnerSwap
               else: break                                      InnerBreak

   Four ways of calling it are modelled (chosen in Init):
     "num"    sorted(l)                      elements 1, 1.0, 2, 0.5: 1 and 1.0
                                             are Equal keys but distinguishable
     "plain"  sorted(l)                      elements [key, tag] (list order)
     "key"    sorted(l, key=fn(x) x[0])      elements [key, tag]
     "keyrev" sorted(l, cmp=fn(a, b) compare(b, a), key=fn(x) x[0])
     "numkey" sorted(l, key=fn(x) [type(x), x])   elements 1, 1.0, 2, 0.5       *)
EXTENDS Val, TLC, Json, IOUtils

CONSTANTS MaxN,       \* longest input list
          NKeys,      \* keys 1..NKeys
          NTags,      \* tags: that many distinct strings
          Export

TagStr(t) == VStr(<<96 + t>>)                      \* 'a', 'b', ...
Tagged == {VList(<<VInt(k), TagStr(t)>>) : k \in 1..NKeys, t \in 1..NTags}
Nums   == {VInt(1), VDec(1, 1), VInt(2), VDec(1, 2)}
Modes  == {"num", "numkey", "plain", "key", "keyrev"}
Pool(m) == IF m \in {"num", "numkey"} THEN Nums ELSE Tagged
\* type(x) as a string value: 'int' / 'decimal'
TypeStr(x) == IF x.k = "int" THEN VStr(<<105, 110, 116>>) ELSE VStr(<<100, 101, 99, 105, 109, 97, 108>>)

Seqs(S, n) == UNION {[1..m -> S] : m \in 0..n}

\* "numkey": sorted(l, key = fn(x) [type(x), x]) - a key that tells the Equal
\* elements 1 and 1.0 apart (each element must get its own key)
KeyOf(m, x)  == IF m \in {"key", "keyrev"} THEN x.items[1]
                ELSE IF m = "numkey" THEN VList(<<TypeStr(x), x>>) ELSE x
\* cmp(a, b) as called by the loop; the default is `compare`
Cmp(m, x, y) == IF m = "keyrev" THEN Compare(y, x) ELSE Compare(x, y)

VARIABLES mode, inp, res, i, j, v, pc
vars == <<mode, inp, res, i, j, v, pc>>

Init == /\ mode \in Modes
        /\ inp \in Seqs(Pool(mode), MaxN)
        /\ res = inp /\ i = 1 /\ j = 0 /\ v = VNull /\ pc = "outer"

\* every action reports that it was taken (counted by the harness: TLC's own
\* -coverage instruments every operator of Val.tla and costs more than the run)
Act(name) == IF Export THEN PrintT("@@ACT@@" \o ToJson(name)) ELSE TRUE

OuterBegin == /\ pc = "outer" /\ i <= Len(res)
              /\ v' = KeyOf(mode, res[i]) /\ j' = i - 1 /\ pc' = "inner"
              /\ UNCHANGED <<mode, inp, res, i>>
              /\ Act("OuterBegin")
OuterEnd   == /\ pc = "outer" /\ i > Len(res)
              /\ pc' = "done"
              /\ UNCHANGED <<mode, inp, res, i, j, v>>
              /\ Act("OuterEnd")
InnerSwap  == /\ pc = "inner" /\ j >= 1
              /\ Cmp(mode, v, KeyOf(mode, res[j])) < 0
              /\ res' = [res EXCEPT ![j] = res[j + 1], ![j + 1] = res[j]]
              /\ j' = j - 1
              /\ UNCHANGED <<mode, inp, i, v, pc>>
              /\ Act("InnerSwap")
InnerBreak == /\ pc = "inner"
              /\ (IF j < 1 THEN TRUE ELSE Cmp(mode, v, KeyOf(mode, res[j])) >= 0)
              /\ i' = i + 1 /\ pc' = "outer"
              /\ UNCHANGED <<mode, inp, res, j, v>>
              /\ Act("InnerBreak")

Next == OuterBegin \/ OuterEnd \/ InnerSwap \/ InnerBreak
Spec == Init /\ [][Next]_vars

-----------------------------------------------------------------------------
Perms(n) == {p \in [1..n -> 1..n] : \A x \in 1..n, y \in 1..n : x # y => p[x] # p[y]}

\* out is an ordered permutation of in_ that keeps equal (keyed) elements in
\* their original order
IsStableSort(m, in_, out) ==
  /\ Len(out) = Len(in_)
  /\ \E p \in Perms(Len(in_)) :
       /\ \A k \in 1..Len(in_) : out[k] = in_[p[k]]
       /\ \A k \in 1..Len(in_), l \in 1..Len(in_) :
            k < l => LET c == Cmp(m, KeyOf(m, out[k]), KeyOf(m, out[l])) IN
                     c < 0 \/ (c = 0 /\ p[k] < p[l])

TypeOK == /\ mode \in Modes /\ pc \in {"outer", "inner", "done"}
          /\ i \in 1..(MaxN + 1) /\ j \in 0..MaxN

Final == pc = "done" => IsStableSort(mode, inp, res)

\* loop invariant: between outer iterations the first i-1 positions hold the
\* stably sorted first i-1 inputs and the rest is untouched
PrefixSorted ==
  pc = "outer" =>
    /\ IsStableSort(mode, SubSeq(inp, 1, i - 1), SubSeq(res, 1, i - 1))
    /\ SubSeq(res, i, Len(res)) = SubSeq(inp, i, Len(inp))

\* sorted does not need cmp to be called on anything but keys of the input
Emit(tag, rec) == IF Export THEN PrintT("@@" \o tag \o "@@" \o ToJson(rec)) ELSE TRUE
Cmpct(m, s) == [k \in 1..Len(s) |->
                 IF m \in {"num", "numkey"} THEN <<s[k].n[1], s[k].n[2], IF s[k].k = "int" THEN 0 ELSE 1>>
                 ELSE <<s[k].items[1].n[1], s[k].items[2].s[1] - 96>>]
ExportFinal == pc = "done" => Emit("SORT", [m |-> mode, inp |-> Cmpct(mode, inp), out |-> Cmpct(mode, res)])

=============================================================================
