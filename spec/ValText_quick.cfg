CONSTANTS
  Tier = 1
  MaxPat = 4
  MaxOuter = 2
  MaxInner = 2
  Export = TRUE
SPECIFICATION Spec
INVARIANT TypeOK
INVARIANT PatRoundTrip
INVARIANT PatEarlyEnd
INVARIANT HistOrderFree
INVARIANT ExportPat
INVARIANT ExportInit
PROPERTY TextFollowsValue
CHECK_DEADLOCK FALSE
