----------------------------- MODULE BigInt -----------------------------
(* Arbitrary-precision integers for TLC (shared by C02 and C19).

   TLC's own integers are 32-bit and JsonDeserialize mangles values >= 2^31,
   so integers of the implementation travel as limb records

        [sg |-> s, mag |-> m]      s \in {-1, 0, 1},  m \in Seq(0..9999)

   meaning  s * SUM_{i=1..Len(m)} m[i] * 10000^(i-1)   (little endian, base
   10^4).  Normal form: no most-significant zero limb (m[Len(m)] # 0), and
   zero is exactly [sg |-> 0, mag |-> << >>].  Every operator below expects
   normalised arguments and returns normalised results, so `=` on two
   BigInts is numeric equality.  JSON form: {"sg":1,"mag":[1234,5]} = 51234.

   The module is pure: no CONSTANTS, no VARIABLES.  Interface:

     Zero, One                  the constants 0 and 1
     IsBigInt(a)                a is a well-formed normalised limb record
     FromInt(n)                 a TLC integer (|n| < 2^31) as a BigInt
     ToInt(a)                   back to a TLC integer (only when |a| < 2^31)
     Cmp(a, b)                  -1 / 0 / 1 (TLC integers) as a <, =, > b
     Less(a, b), Leq(a, b)      a < b, a <= b
     Neg(a), Abs(a)             BigInt results
     Sign(a)                    the TLC integer -1 / 0 / 1
     Add(a, b), Sub(a, b), Mul(a, b)
     MulSmall(a, d)             d a TLC integer with |d| <= 9999
     DivModSmall(a, d)          d in 1..9999: [q |-> BigInt, r |-> TLC int],
                                q truncated toward zero, r has the sign of a
     TruncDiv(a, b), TruncMod(a, b)   b # 0: quotient truncated toward zero
                                and its remainder (sign of a), by long division
     FloorDiv(a, b), FloorMod(a, b)   b # 0: floored quotient and its
                                remainder (sign of b) - what Python's // and %
                                compute
     Divides(d, a)              d | a   (d # 0;  every d divides 0)
     IsTruncDiv(a, b, q)        b # 0 and q = a / b truncated toward zero,
                                stated without division: a = q*b + r with
                                |r| < |b| and sign(r) \in {0, sign(a)}
     IsMod(a, b, r)             b # 0, |r| < |b| and b | a - r   (the law the
                                property C02 states for `%`; it admits both
                                the truncated and the floored remainder)
     Pow(a, k)                  a^k, k a TLC integer >= 0  (Pow(0,0) = 1)
     Gcd(a, b)                  the non-negative greatest common divisor
                                (Gcd(0,0) = 0), by Euclid on magnitudes
     IsGcd(a, b, g)             g >= 0, g | a, g | b and g = Gcd(a, b)
     Lcm(a, b)                  the non-negative least common multiple
                                (0 when a or b is 0)

   BigIntTest.tla model-checks these against TLC's native + - * \div % on
   -60..60 and on a grid of two- and three-limb values.                    *)
EXTENDS Integers, Sequences

Base == 10000

Zero == [sg |-> 0, mag |-> << >>]

-----------------------------------------------------------------------------
(* Magnitudes: sequences of limbs, little endian, no most-significant zero. *)

RECURSIVE TrimM(_)
TrimM(m) == IF m = << >> THEN << >>
            ELSE IF m[Len(m)] = 0 THEN TrimM(SubSeq(m, 1, Len(m) - 1))
            ELSE m

RECURSIVE NatToMag(_)
NatToMag(n) == IF n = 0 THEN << >> ELSE <<n % Base>> \o NatToMag(n \div Base)

RECURSIVE MagToNatAt(_, _)
MagToNatAt(m, i) == IF i > Len(m) THEN 0 ELSE m[i] + Base * MagToNatAt(m, i + 1)
MagToNat(m) == MagToNatAt(m, 1)

RECURSIVE CmpMagAt(_, _, _)
CmpMagAt(x, y, i) == IF i = 0 THEN 0
                     ELSE IF x[i] < y[i] THEN -1
                     ELSE IF x[i] > y[i] THEN 1
                     ELSE CmpMagAt(x, y, i - 1)
CmpMag(x, y) == IF Len(x) < Len(y) THEN -1
                ELSE IF Len(x) > Len(y) THEN 1
                ELSE CmpMagAt(x, y, Len(x))

Limb(x, i) == IF i <= Len(x) THEN x[i] ELSE 0

RECURSIVE AddMagAt(_, _, _, _)
AddMagAt(x, y, i, c) ==
  IF i > Len(x) /\ i > Len(y) THEN (IF c = 0 THEN << >> ELSE <<c>>)
  ELSE LET t == Limb(x, i) + Limb(y, i) + c
       IN <<t % Base>> \o AddMagAt(x, y, i + 1, t \div Base)
AddMag(x, y) == AddMagAt(x, y, 1, 0)

\* x - y for x >= y
RECURSIVE SubMagAt(_, _, _, _)
SubMagAt(x, y, i, b) ==
  IF i > Len(x) THEN << >>
  ELSE LET t == x[i] - Limb(y, i) - b
       IN IF t < 0 THEN <<t + Base>> \o SubMagAt(x, y, i + 1, 1)
          ELSE <<t>> \o SubMagAt(x, y, i + 1, 0)
SubMag(x, y) == TrimM(SubMagAt(x, y, 1, 0))

\* x * d for d in 0..Base-1  (x[i]*d + c < 10^8: inside TLC's 32 bits)
RECURSIVE MulSmallMagAt(_, _, _, _)
MulSmallMagAt(x, d, i, c) ==
  IF i > Len(x) THEN (IF c = 0 THEN << >> ELSE <<c>>)
  ELSE LET t == x[i] * d + c
       IN <<t % Base>> \o MulSmallMagAt(x, d, i + 1, t \div Base)
MulSmallMag(x, d) == IF d = 0 \/ x = << >> THEN << >> ELSE MulSmallMagAt(x, d, 1, 0)

ShiftMag(x, k) == IF x = << >> THEN << >> ELSE [i \in 1..k |-> 0] \o x

\* x * y = x*y[1] + Base * (x * y[2..])
RECURSIVE MulMagAt(_, _, _)
MulMagAt(x, y, i) ==
  IF i > Len(y) THEN << >>
  ELSE AddMag(MulSmallMag(x, y[i]), ShiftMag(MulMagAt(x, y, i + 1), 1))
MulMag(x, y) == IF x = << >> \/ y = << >> THEN << >>
                ELSE IF Len(y) <= Len(x) THEN MulMagAt(x, y, 1) ELSE MulMagAt(y, x, 1)

\* x div d, x mod d for d in 1..Base-1, most significant limb first
RECURSIVE DivSmallMagAt(_, _, _, _)
DivSmallMagAt(x, d, i, r) ==
  IF i = 0 THEN [q |-> << >>, r |-> r]
  ELSE LET t    == r * Base + x[i]
           rest == DivSmallMagAt(x, d, i - 1, t % d)
       IN [q |-> rest.q \o <<t \div d>>, r |-> rest.r]
DivSmallMag(x, d) == LET z == DivSmallMagAt(x, d, Len(x), 0)
                     IN [q |-> TrimM(z.q), r |-> z.r]

\* Long division.  QDigit: the largest d in lo..hi with d*y <= r (bisection).
RECURSIVE QDigit(_, _, _, _)
QDigit(r, y, lo, hi) ==
  IF lo = hi THEN lo
  ELSE LET mid == (lo + hi + 1) \div 2
       IN IF CmpMag(MulSmallMag(y, mid), r) <= 0 THEN QDigit(r, y, mid, hi)
          ELSE QDigit(r, y, lo, mid - 1)

RECURSIVE DivModMagAt(_, _, _, _)
DivModMagAt(x, y, i, r) ==
  IF i = 0 THEN [q |-> << >>, r |-> r]
  ELSE LET r1   == TrimM(<<x[i]>> \o r)                 \* r*Base + x[i]
           d    == IF CmpMag(r1, y) < 0 THEN 0 ELSE QDigit(r1, y, 1, Base - 1)
           r2   == IF d = 0 THEN r1 ELSE SubMag(r1, MulSmallMag(y, d))
           rest == DivModMagAt(x, y, i - 1, r2)
       IN [q |-> rest.q \o <<d>>, r |-> rest.r]
\* y # << >>
DivModMag(x, y) ==
  IF CmpMag(x, y) < 0 THEN [q |-> << >>, r |-> x]
  ELSE IF Len(y) = 1
       THEN LET z == DivSmallMag(x, y[1]) IN [q |-> z.q, r |-> NatToMag(z.r)]
       ELSE LET z == DivModMagAt(x, y, Len(x), << >>) IN [q |-> TrimM(z.q), r |-> z.r]

RECURSIVE GcdMag(_, _)
GcdMag(x, y) == IF y = << >> THEN x ELSE GcdMag(y, DivModMag(x, y).r)

-----------------------------------------------------------------------------
(* Signed integers. *)

Mk(s, m) == IF m = << >> THEN Zero ELSE [sg |-> s, mag |-> m]

IsBigInt(a) ==
  /\ DOMAIN a = {"sg", "mag"}
  /\ a.sg \in {-1, 0, 1}
  /\ a.mag \in Seq(0..(Base - 1))
  /\ (a.sg = 0) <=> (a.mag = << >>)
  /\ a.mag # << >> => a.mag[Len(a.mag)] # 0

FromInt(n) == IF n = 0 THEN Zero
              ELSE IF n > 0 THEN [sg |-> 1, mag |-> NatToMag(n)]
              ELSE [sg |-> -1, mag |-> NatToMag(-n)]
One == FromInt(1)

ToInt(a) == a.sg * MagToNat(a.mag)

Sign(a) == a.sg
Neg(a)  == [sg |-> -a.sg, mag |-> a.mag]
Abs(a)  == [sg |-> a.sg * a.sg, mag |-> a.mag]

Cmp(a, b) == IF a.sg < b.sg THEN -1
             ELSE IF a.sg > b.sg THEN 1
             ELSE IF a.sg = 0 THEN 0
             ELSE a.sg * CmpMag(a.mag, b.mag)
Less(a, b) == Cmp(a, b) < 0
Leq(a, b)  == Cmp(a, b) <= 0

Add(a, b) ==
  IF a.sg = 0 THEN b
  ELSE IF b.sg = 0 THEN a
  ELSE IF a.sg = b.sg THEN [sg |-> a.sg, mag |-> AddMag(a.mag, b.mag)]
  ELSE LET c == CmpMag(a.mag, b.mag)
       IN IF c = 0 THEN Zero
          ELSE IF c > 0 THEN [sg |-> a.sg, mag |-> SubMag(a.mag, b.mag)]
          ELSE [sg |-> b.sg, mag |-> SubMag(b.mag, a.mag)]
Sub(a, b) == Add(a, Neg(b))

Mul(a, b) == Mk(a.sg * b.sg, MulMag(a.mag, b.mag))

MulSmall(a, d) == IF d >= 0 THEN Mk(a.sg, MulSmallMag(a.mag, d))
                  ELSE Mk(-a.sg, MulSmallMag(a.mag, -d))

DivModSmall(a, d) == LET z == DivSmallMag(a.mag, d)
                     IN [q |-> Mk(a.sg, z.q), r |-> a.sg * z.r]

TruncDiv(a, b) == Mk(a.sg * b.sg, DivModMag(a.mag, b.mag).q)
TruncMod(a, b) == Mk(a.sg, DivModMag(a.mag, b.mag).r)

FloorMod(a, b) == LET r == TruncMod(a, b)
                  IN IF r.sg # 0 /\ r.sg # b.sg THEN Add(r, b) ELSE r
FloorDiv(a, b) == LET q == TruncDiv(a, b)  r == TruncMod(a, b)
                  IN IF r.sg # 0 /\ r.sg # b.sg THEN Sub(q, One) ELSE q

Divides(d, a) == a.sg = 0 \/ DivModMag(a.mag, d.mag).r = << >>

IsTruncDiv(a, b, q) ==
  /\ b.sg # 0
  /\ LET r == Sub(a, Mul(q, b))
     IN /\ CmpMag(r.mag, b.mag) < 0
        /\ r.sg \in {0, a.sg}

IsMod(a, b, r) ==
  /\ b.sg # 0
  /\ CmpMag(r.mag, b.mag) < 0
  /\ Divides(b, Sub(a, r))

\* square and multiply, k >= 0
RECURSIVE Pow(_, _)
Pow(a, k) == IF k = 0 THEN One
             ELSE LET h == Pow(a, k \div 2)  s == Mul(h, h)
                  IN IF k % 2 = 1 THEN Mul(s, a) ELSE s

Gcd(a, b) == Mk(1, IF CmpMag(a.mag, b.mag) >= 0 THEN GcdMag(a.mag, b.mag)
                   ELSE GcdMag(b.mag, a.mag))

IsGcd(a, b, g) ==
  /\ g.sg >= 0
  /\ (g.sg = 0) <=> (a.sg = 0 /\ b.sg = 0)
  /\ g.sg # 0 => Divides(g, a) /\ Divides(g, b)
  /\ g = Gcd(a, b)

Lcm(a, b) == IF a.sg = 0 \/ b.sg = 0 THEN Zero
             ELSE Mk(1, DivModMag(MulMag(a.mag, b.mag), Gcd(a, b).mag).q)

=============================================================================
