---------------------------- MODULE MachineRand ----------------------------
(* Machine.tla as the oracle for programs generated outside TLC: the harness
   (harness/proggen.py, seeded) writes syntax trees as NDJSON, this module
   evaluates every one with Machine!Run, checks the same history invariants as
   MachineRun, and prints outcome and log for the comparison with the real
   interpreter.  States: one per program index (explored in parallel). *)
EXTENDS MachineGen, Json, IOUtils

Progs == ndJsonDeserialize(IOEnv.PROG_FILE)

VARIABLES i, res, phase
vars == <<i, res, phase>>

Init == i \in 1..Len(Progs) /\ phase = "new" /\ res = R(Val(Null), St0)
Exec == phase = "new" /\ phase' = "done" /\ res' = Run(Progs[i]) /\ UNCHANGED i
Spec == Init /\ [][Exec]_vars

Done == phase = "done" /\ res.o.t # "fuel"
Hist == res.st.hist

FinallyOnce ==
  Done => \A b \in 1..res.st.nb :
     /\ Cardinality({j \in 1..Len(Hist) : Hist[j] = <<"finally", b>>}) = 1
     /\ Cardinality({j \in 1..Len(Hist) : Hist[j] = <<"leave", b>>}) = 1
NoStmtAfterFailure ==
  Done => \A j \in 1..Len(Hist) : Hist[j][1] = "raise" =>
            \A m \in (j + 1)..Len(Hist) : ~(Hist[m][1] = "stmt" /\ Hist[m][2] = Hist[j][2])
FreshFrames ==
  Done => \A j, m \in 1..Len(Hist) : (j # m /\ Hist[j][1] = "call" /\ Hist[m][1] = "call") => Hist[j][3] # Hist[m][3]
TypeOK == res.o.t \in {"val", "err", "fuel"}

Rec == [id |-> <<"r", i>>, out |-> res.o, log |-> res.st.log]
ExportRuns == phase = "done" => PrintT("@@RUN@@" \o ToJson(Rec))
=============================================================================
