----------------------------- MODULE StrOps -----------------------------
(* C18 - reference definitions of the string operations, quoted from the
   property statement.  A string is a sequence of code points (TLC strings
   are atomic, so text is Seq(Nat) throughout).  Positions are 0-based as in
   the language.  Pure operators, no state: shared by Str.tla (the driver
   state machine, model-checked) and Str_Trace.tla (validation of calls
   recorded from the implementation). *)
EXTENDS Integers, Sequences, FiniteSets

Min(S) == CHOOSE x \in S : \A y \in S : x <= y

Take(s, k) == SubSeq(s, 1, k)
Drop(s, k) == SubSeq(s, k + 1, Len(s))

-----------------------------------------------------------------------------
(* Searching.  contains(s, t) iff find(s, t) >= 0 iff s = a + t + b. *)

Occurs(s, t, p) == /\ p >= 0 /\ p + Len(t) <= Len(s)
                   /\ SubSeq(s, p + 1, p + Len(t)) = t

FindFrom(s, t, start) ==
  LET P == {p \in 0..Len(s) : p >= start /\ Occurs(s, t, p)}
  IN IF P = {} THEN -1 ELSE Min(P)

Find(s, t) == FindFrom(s, t, 0)

Contains(s, t) == \E p \in 0..Len(s) : Occurs(s, t, p)

\* s = a \o t \o b for some a, b (a is a prefix, b a suffix of s)
Decomposes(s, t) ==
  \E i \in 0..Len(s), j \in 0..Len(s) :
     /\ i <= j
     /\ s = Take(s, i) \o t \o Drop(s, j)

StartsWith(s, t) == Len(t) <= Len(s) /\ SubSeq(s, 1, Len(t)) = t
EndsWith(s, t)   == Len(t) <= Len(s) /\ SubSeq(s, Len(s) - Len(t) + 1, Len(s)) = t

-----------------------------------------------------------------------------
(* Splitting on a literal separator (non-empty), joining, replacing. *)

\* the mathematical split: leftmost non-overlapping occurrences, always at
\* least one part
RECURSIVE SplitParts(_, _)
SplitParts(s, sep) ==
  LET p == Find(s, sep)
  IN IF p = -1 THEN <<s>>
     ELSE <<Take(s, p)>> \o SplitParts(Drop(s, p + Len(sep)), sep)

\* split() documents the empty string as having no parts (split2('', ..) ==> [])
SplitLit(s, sep) == IF s = << >> THEN << >> ELSE SplitParts(s, sep)

RECURSIVE Join(_, _)
Join(parts, sep) ==
  IF parts = << >> THEN << >>
  ELSE IF Len(parts) = 1 THEN parts[1]
  ELSE parts[1] \o sep \o Join(Tail(parts), sep)

\* replace: every non-overlapping occurrence of t (non-empty), left to right;
\* inserted text is not searched again
RECURSIVE ReplaceAll(_, _, _)
ReplaceAll(s, t, r) ==
  LET p == Find(s, t)
  IN IF p = -1 THEN s
     ELSE Take(s, p) \o r \o ReplaceAll(Drop(s, p + Len(t)), t, r)

\* The same two functions as one pass over the positions (a step per character:
\* usable on strings with hundreds of occurrences; Str.tla: Laws checks that the
\* two formulations agree on every pair).  t is not empty.
RECURSIVE ReplaceScanFrom(_, _, _, _)
ReplaceScanFrom(s, t, r, i) ==          \* i: 0-based position
  IF i >= Len(s) THEN << >>
  ELSE IF Occurs(s, t, i) THEN r \o ReplaceScanFrom(s, t, r, i + Len(t))
  ELSE <<s[i + 1]>> \o ReplaceScanFrom(s, t, r, i + 1)
ReplaceScan(s, t, r) == ReplaceScanFrom(s, t, r, 0)

RECURSIVE SplitScanFrom(_, _, _, _)
SplitScanFrom(s, t, i, b) ==            \* b: where the current part begins
  IF i + Len(t) > Len(s) THEN <<SubSeq(s, b + 1, Len(s))>>
  ELSE IF Occurs(s, t, i)
       THEN <<SubSeq(s, b + 1, i)>> \o SplitScanFrom(s, t, i + Len(t), i + Len(t))
       ELSE SplitScanFrom(s, t, i + 1, b)
SplitScan(s, t) == IF s = << >> THEN << >> ELSE SplitScanFrom(s, t, 0, 0)

RECURSIVE CountOcc(_, _)
CountOcc(s, t) ==                  \* number of non-overlapping occurrences
  LET p == Find(s, t)
  IN IF p = -1 THEN 0 ELSE 1 + CountOcc(Drop(s, p + Len(t)), t)

-----------------------------------------------------------------------------
(* Character-wise functions. *)

RECURSIVE Reverse(_)
Reverse(s) == IF s = << >> THEN << >> ELSE Reverse(Tail(s)) \o <<Head(s)>>

\* whitespace removed by trim(): space, TAB, LF, VT, FF, CR
WS == {9, 10, 11, 12, 13, 32}

RECURSIVE TrimL(_)
TrimL(s) == IF s # << >> /\ Head(s) \in WS THEN TrimL(Tail(s)) ELSE s
TrimR(s) == Reverse(TrimL(Reverse(s)))
Trim(s)  == TrimR(TrimL(s))

\* case table: ASCII letters and e-acute; every other code point of the
\* checked alphabet has no case
UpperC(c) == IF c >= 97 /\ c <= 122 THEN c - 32 ELSE IF c = 233 THEN 201 ELSE c
LowerC(c) == IF c >= 65 /\ c <= 90 THEN c + 32 ELSE IF c = 201 THEN 233 ELSE c

RECURSIVE Upper(_)
Upper(s) == IF s = << >> THEN << >> ELSE <<UpperC(Head(s))>> \o Upper(Tail(s))
RECURSIVE Lower(_)
Lower(s) == IF s = << >> THEN << >> ELSE <<LowerC(Head(s))>> \o Lower(Tail(s))

Chr(n) == <<n>>
Ord(s) == s[1]                     \* defined for one-character strings

-----------------------------------------------------------------------------
(* Text of numbers. *)

DigitCh(d) == IF d < 10 THEN 48 + d ELSE 87 + d          \* 0-9 a-f

RECURSIVE Digits(_, _)
Digits(n, base) == IF n < base THEN <<DigitCh(n)>>
                   ELSE Digits(n \div base, base) \o <<DigitCh(n % base)>>

RenderInt(n) == IF n < 0 THEN <<45>> \o Digits(-n, 10) ELSE Digits(n, 10)
\* base 16 of a negative integer: the sign and the digits of the magnitude
RenderHex(n) == IF n < 0 THEN <<45>> \o Digits(-n, 16) ELSE Digits(n, 16)

RECURSIVE Pow10(_)
Pow10(k) == IF k <= 0 THEN 1 ELSE 10 * Pow10(k - 1)

RECURSIVE Rep(_, _)
Rep(c, k) == IF k <= 0 THEN << >> ELSE <<c>> \o Rep(c, k - 1)

Front(q) == SubSeq(q, 1, Len(q) - 1)
Last(q)  == q[Len(q)]

(* Integers of any size (TLC integers have 32 bits): the magnitude is the
   sequence of its decimal digit VALUES (0..9, most significant first). *)

IsDigitSeq(ds) == \A i \in 1..Len(ds) : ds[i] \in 0..9

RECURSIVE StripZ(_)                 \* no leading zeroes, but at least one digit
StripZ(ds) == IF Len(ds) > 1 /\ Head(ds) = 0 THEN StripZ(Tail(ds)) ELSE ds

DigitText(ds) == [i \in 1..Len(ds) |-> 48 + ds[i]]

\* schoolbook division of a digit sequence by a small number:
\* [q |-> quotient (same length, leading zeroes), r |-> remainder]
RECURSIVE DivSmall(_, _, _)
DivSmall(ds, by, carry) ==
  IF ds = << >> THEN [q |-> << >>, r |-> carry]
  ELSE LET cur  == carry * 10 + Head(ds)
           rest == DivSmall(Tail(ds), by, cur % by)
       IN [q |-> <<cur \div by>> \o rest.q, r |-> rest.r]

RECURSIVE ToBase(_, _)              \* ds without leading zeroes, not zero
ToBase(ds, base) ==
  IF ds = <<0>> THEN << >>
  ELSE LET dm == DivSmall(ds, base, 0)
       IN ToBase(StripZ(dm.q), base) \o <<DigitCh(dm.r)>>

HexOfDigits(ds) == IF StripZ(ds) = <<0>> THEN <<48>> ELSE ToBase(StripZ(ds), 16)

RECURSIVE DigitSeqOf(_)             \* the digit sequence of a small n >= 0
DigitSeqOf(n) == IF n < 10 THEN <<n>> ELSE DigitSeqOf(n \div 10) \o <<n % 10>>

RECURSIVE Incr(_)                   \* the digit sequence plus one
Incr(ds) == IF ds = << >> THEN <<1>>
            ELSE IF Last(ds) = 9 THEN Incr(Front(ds)) \o <<0>>
            ELSE Front(ds) \o <<Last(ds) + 1>>

\* the inverse: digit text in base `base` back to a decimal digit sequence
\* (schoolbook multiplication from the right)
RECURSIVE MulSmallAdd(_, _, _)
MulSmallAdd(ds, by, c) ==
  IF ds = << >> THEN (IF c = 0 THEN << >> ELSE DigitSeqOf(c))
  ELSE LET v == Last(ds) * by + c
       IN MulSmallAdd(Front(ds), by, v \div 10) \o <<v % 10>>

DigitOfCh(ch) == IF ch <= 57 THEN ch - 48 ELSE ch - 87

RECURSIVE FromBaseAcc(_, _, _)
FromBaseAcc(txt, base, acc) ==
  IF txt = << >> THEN acc
  ELSE FromBaseAcc(Tail(txt), base, MulSmallAdd(acc, base, DigitOfCh(Head(txt))))
FromBase(txt, base) ==
  LET r == FromBaseAcc(txt, base, << >>) IN IF r = << >> THEN <<0>> ELSE r

-----------------------------------------------------------------------------
(* Interpolation: s('..{expr#format}..') and sprintf('..{0#format}..', args).

   Values: [k |-> "s", txt |-> text], [k |-> "i", n |-> integer] (small) or
   [k |-> "b", n |-> 1 or -1 (the sign), ds |-> digit values] (any size);
   in a named environment every value also has the field `name` (text) and
   all of name, k, txt, n, ds.

   format  #[-|0]width[x] :
     mode "r": padded on the left with spaces to `w` (the default)
     mode "l": '-', padded on the right with spaces
     mode "z": '0', padded on the left with zeroes
     hex:      'x', the integer in base 16
   Everything outside the placeholders is unchanged. *)

Pad(txt, w, mode) ==
  LET k == IF w > Len(txt) THEN w - Len(txt) ELSE 0
  IN CASE mode = "l" -> txt \o Rep(32, k)
       [] mode = "z" -> Rep(48, k) \o txt
       [] OTHER      -> Rep(32, k) \o txt

\* a number under '0': the zeroes stand between the sign and the digits (the
\* padded text is a numeral of the same number); text is padded as it is
PadNum(txt, w, mode) ==
  IF mode = "z" /\ txt # << >> /\ txt[1] = 45
  THEN <<45>> \o Pad(Tail(txt), w - 1, "z")
  ELSE Pad(txt, w, mode)

RenderVal(v, hex) ==
  CASE v.k = "i" -> (IF hex THEN RenderHex(v.n) ELSE RenderInt(v.n))
    [] v.k = "b" -> (IF v.n < 0 /\ StripZ(v.ds) # <<0>> THEN <<45>> ELSE << >>)
                    \o (IF hex THEN HexOfDigits(v.ds) ELSE DigitText(StripZ(v.ds)))
    [] OTHER     -> v.txt

(* First formulation: the template is given as its segments, literal text
   (k = 0) or a placeholder (k = 1) for value number `var`. *)
RECURSIVE Interp(_, _)
Interp(segs, env) ==
  IF segs = << >> THEN << >>
  ELSE LET g == Head(segs)
           piece == IF g.k = 0 THEN g.txt
                    ELSE Pad(RenderVal(env[g.var], g.hex), g.w, g.mode)
       IN piece \o Interp(Tail(segs), env)

(* Second formulation: the template is TEXT and is scanned as the function s
   scans it: the next '{', the next '}' behind it, what is between them is
   name[#format]; an opening brace that is never closed, a closing brace on
   its own, digits, '#' ... are ordinary text.  The inserted text is not
   scanned again.  [ok |-> FALSE] when a group is not a placeholder this
   model defines (unknown name, format it does not know, 'x' on text, '0' on
   a negative number, a rounding format: see RoundTextOK). *)

IsDigit(c) == c >= 48 /\ c <= 57
AllDigits(q) == \A i \in 1..Len(q) : IsDigit(q[i])

RECURSIVE DigitsVal(_)              \* value of a digit string (<= 9 digits)
DigitsVal(ds) == IF ds = << >> THEN 0
                 ELSE DigitsVal(Front(ds)) * 10 + (Last(ds) - 48)

\* 1-based position of the first c at or behind position i, 0 if there is none
IndexFrom(q, c, i) ==
  LET P == {j \in i..Len(q) : q[j] = c} IN IF P = {} THEN 0 ELSE Min(P)

NoFmt == [ok |-> TRUE, mode |-> "r", w |-> 0, hex |-> FALSE, d |-> -1]

ParseFmt(spec) ==                   \* the text behind '#'
  LET left == spec # << >> /\ spec[1] = 45
      a    == IF left THEN Tail(spec) ELSE spec
      zero == a # << >> /\ a[1] = 48
      b    == IF zero THEN Tail(a) ELSE a
      hex  == b # << >> /\ Last(b) = 120
      c    == IF hex THEN Front(b) ELSE b
      dot  == IndexFrom(c, 46, 1)
      wt   == IF dot = 0 THEN c ELSE Take(c, dot - 1)
      dt   == IF dot = 0 THEN << >> ELSE Drop(c, dot)
      good == /\ ~(left /\ zero)               \* '-0': not defined
              /\ AllDigits(wt) /\ Len(wt) <= 4
              /\ (dot # 0 => Len(dt) \in 1..2 /\ AllDigits(dt) /\ ~hex)
  IN IF ~good THEN [ok |-> FALSE, mode |-> "r", w |-> 0, hex |-> FALSE, d |-> -1]
     ELSE [ok |-> TRUE, mode |-> IF left THEN "l" ELSE IF zero THEN "z" ELSE "r",
           w |-> DigitsVal(wt), hex |-> hex,
           d |-> IF dot = 0 THEN -1 ELSE DigitsVal(dt)]

NoPiece == [ok |-> FALSE, txt |-> << >>]

(* A placeholder that is no name of the environment is an expression.  The
   model defines the expressions  n  and  n op m  (n, m decimal numerals of
   at most four digits without a leading zero, op plus, minus or times), so that
   '{7}' beyond the arguments of sprintf and '{1+1}' (which starts like the
   name of an argument) have a value: the number, not an argument. *)
IsNumeral(q) == /\ Len(q) \in 1..4 /\ AllDigits(q) /\ (Len(q) > 1 => q[1] # 48)
ExprOps == {43, 45, 42}
ExprVal(name) ==
  LET P == {j \in 1..Len(name) : name[j] \in ExprOps}
  IN IF P = {} THEN (IF IsNumeral(name) THEN [ok |-> TRUE, n |-> DigitsVal(name)]
                                        ELSE [ok |-> FALSE, n |-> 0])
     ELSE LET j == Min(P)
              a == Take(name, j - 1)
              b == Drop(name, j)
          IN IF ~(IsNumeral(a) /\ IsNumeral(b)) THEN [ok |-> FALSE, n |-> 0]
             ELSE [ok |-> TRUE,
                   n  |-> CASE name[j] = 43 -> DigitsVal(a) + DigitsVal(b)
                            [] name[j] = 45 -> DigitsVal(a) - DigitsVal(b)
                            [] OTHER        -> DigitsVal(a) * DigitsVal(b)]

Placeholder(content, env) ==        \* what is between '{' and '}'
  LET h    == IndexFrom(content, 35, 1)
      name == IF h = 0 THEN content ELSE Take(content, h - 1)
      f    == IF h = 0 THEN NoFmt ELSE ParseFmt(Drop(content, h))
      idx  == {i \in 1..Len(env) : env[i].name = name}
      ex   == ExprVal(name)
  IN IF (idx = {} /\ ~ex.ok) \/ ~f.ok \/ f.d # -1 THEN NoPiece
     ELSE LET v   == IF idx # {} THEN env[Min(idx)]
                     ELSE [k |-> "i", txt |-> << >>, n |-> ex.n, ds |-> << >>, name |-> name]
              txt == RenderVal(v, f.hex)
          IN IF f.hex /\ v.k = "s"
             THEN NoPiece
             ELSE [ok |-> TRUE, txt |-> IF v.k = "s" THEN Pad(txt, f.w, f.mode)
                                                     ELSE PadNum(txt, f.w, f.mode)]

RECURSIVE SFrom(_, _, _)
SFrom(tpl, env, i) ==               \* the text from position i on, interpolated
  LET o == IndexFrom(tpl, 123, i)
      c == IF o = 0 THEN 0 ELSE IndexFrom(tpl, 125, o + 1)
  IN IF c = 0 THEN [ok |-> TRUE, txt |-> SubSeq(tpl, i, Len(tpl))]
     ELSE LET ph   == Placeholder(SubSeq(tpl, o + 1, c - 1), env)
              rest == SFrom(tpl, env, c + 1)
          IN IF ~ph.ok \/ ~rest.ok THEN NoPiece
             ELSE [ok |-> TRUE, txt |-> SubSeq(tpl, i, o - 1) \o ph.txt \o rest.txt]

S(tpl, env) == SFrom(tpl, env, 1)

\* s(str, start): the text before position `start` stays as it is.  A negative
\* start counts from the end; a position before the beginning is the
\* beginning, one behind the end is the end (0-based, 0..Len).
StartPos(n, start) == IF start >= 0 THEN (IF start > n THEN n ELSE start)
                      ELSE (IF n + start < 0 THEN 0 ELSE n + start)
SAt(tpl, env, start) ==
  LET p == StartPos(Len(tpl), start)
      x == SFrom(tpl, env, p + 1)
  IN [ok |-> x.ok, txt |-> Take(tpl, p) \o x.txt]

\* sprintf(fmt, a0, a1, ...): the name of argument number i is the decimal
\* text of i ({1} is the second argument and {10} the eleventh)
ArgNamesOK(env) == \A i \in 1..Len(env) : env[i].name = RenderInt(i - 1)
\* ... the first n values are the arguments; the others are variables of the
\* caller, which a placeholder calls by their names (no numeral is a name)
ArgNamesOK2(env, n) ==
  \A i \in 1..Len(env) : IF i <= n THEN env[i].name = RenderInt(i - 1)
                                   ELSE env[i].name # << >> /\ ~IsDigit(env[i].name[1])

\* the text of a template given as segments (names[var] = name of a value)
FmtText(w, mode, hex) ==
  LET f == (IF mode = "l" THEN <<45>> ELSE IF mode = "z" THEN <<48>> ELSE << >>)
           \o (IF w > 0 THEN RenderInt(w) ELSE << >>)
           \o (IF hex THEN <<120>> ELSE << >>)
  IN IF f = << >> THEN << >> ELSE <<35>> \o f

RECURSIVE TplText(_, _)
TplText(segs, names) ==
  IF segs = << >> THEN << >>
  ELSE LET g == Head(segs)
       IN (IF g.k = 0 THEN g.txt
           ELSE <<123>> \o names[g.var] \o FmtText(g.w, g.mode, g.hex) \o <<125>>)
          \o TplText(Tail(segs), names)

-----------------------------------------------------------------------------
(* Rounding format  #.d : the inserted text denotes the number rounded to d
   digits behind the point.  The number is a decimal numeral
   [neg, ip, fp] = (-)ip.fp with digit VALUES (any length); inputs are never
   ties.  The text is compared as a number: '1.5', '1.50', '15e-1' all stand
   for 3/2, '-0.0' for 0. *)

Vals(q) == [i \in 1..Len(q) |-> q[i] - 48]

NoNum == [ok |-> FALSE, neg |-> FALSE, ip |-> << >>, fp |-> << >>]

\* (-)ip.fp * 10^e
ShiftNum(neg, ip, fp, e) ==
  IF e >= 0
  THEN LET f == fp \o Rep(0, e - Len(fp))
       IN [ok |-> TRUE, neg |-> neg, ip |-> ip \o Take(f, e), fp |-> Drop(f, e)]
  ELSE LET p == Rep(0, (-e) - Len(ip)) \o ip
           n == Len(p) + e
       IN [ok |-> TRUE, neg |-> neg, ip |-> Take(p, n), fp |-> Drop(p, n) \o fp]

\* [-] digits [ . digits ] [ e [+|-] digits ]
ParseNum(txt) ==
  LET neg  == txt # << >> /\ txt[1] = 45
      body == IF neg THEN Tail(txt) ELSE txt
      ep   == IndexFrom(body, 101, 1)
      mant == IF ep = 0 THEN body ELSE Take(body, ep - 1)
      ex   == IF ep = 0 THEN << >> ELSE Drop(body, ep)
      eneg == ex # << >> /\ ex[1] = 45
      eds  == IF ex # << >> /\ ex[1] \in {43, 45} THEN Tail(ex) ELSE ex
      dot  == IndexFrom(mant, 46, 1)
      ipt  == IF dot = 0 THEN mant ELSE Take(mant, dot - 1)
      fpt  == IF dot = 0 THEN << >> ELSE Drop(mant, dot)
      good == /\ AllDigits(ipt) /\ AllDigits(fpt) /\ Len(ipt) + Len(fpt) >= 1
              /\ (ep # 0 => Len(eds) \in 1..3 /\ AllDigits(eds))
  IN IF ~good THEN NoNum
     ELSE ShiftNum(neg, Vals(ipt), Vals(fpt),
                   IF ep = 0 THEN 0 ELSE IF eneg THEN -DigitsVal(eds) ELSE DigitsVal(eds))

RECURSIVE StripLeft0(_)
StripLeft0(ds) == IF ds # << >> /\ Head(ds) = 0 THEN StripLeft0(Tail(ds)) ELSE ds
RECURSIVE StripRight0(_)
StripRight0(ds) == IF ds # << >> /\ Last(ds) = 0 THEN StripRight0(Front(ds)) ELSE ds

\* the canonical numeral of the same number
NormNum(num) ==
  LET i == StripLeft0(num.ip)
      f == StripRight0(num.fp)
  IN [neg |-> num.neg /\ (i # << >> \/ f # << >>), ip |-> i, fp |-> f]

IsTie(fp, d) == /\ Len(fp) > d /\ fp[d + 1] = 5
                /\ \A i \in (d + 2)..Len(fp) : fp[i] = 0

\* rounded to the nearest numeral with d digits behind the point (not a tie)
RoundNum(neg, ip, fp, d) ==
  IF Len(fp) <= d THEN [neg |-> neg, ip |-> ip, fp |-> fp]
  ELSE LET keep == ip \o Take(fp, d)
           cut  == Drop(fp, d)
           up   == cut[1] > 5 \/ (cut[1] = 5 /\ \E i \in 2..Len(cut) : cut[i] # 0)
           all  == IF up THEN Incr(keep) ELSE keep
       IN [neg |-> neg, ip |-> Take(all, Len(all) - d), fp |-> Drop(all, Len(all) - d)]

RoundTextOK(txt, neg, ip, fp, d) ==
  LET p == ParseNum(txt)
  IN /\ p.ok
     /\ NormNum(p) = NormNum(RoundNum(neg, ip, fp, d))

\* the same with 32-bit arithmetic, for small numbers (StrNum.tla checks that
\* the two definitions agree): m / 10^sc rounded to d digits, as an integer
\* number of 10^-d units
RoundUnits(m, sc, d) ==
  IF sc <= d THEN m * Pow10(d - sc)
  ELSE (m + Pow10(sc - d) \div 2) \div Pow10(sc - d)

RECURSIVE SeqVal(_)                 \* value of a short sequence of digit values
SeqVal(ds) == IF ds = << >> THEN 0 ELSE SeqVal(Front(ds)) * 10 + Last(ds)

-----------------------------------------------------------------------------
(* Laws that need no table of characters: they hold whatever the
   implementation regards as white space or as a letter. *)

\* a character that is certainly not white space: printable ASCII, e-acute
Solid(c) == (c >= 33 /\ c <= 126) \/ c = 233 \/ c = 201
\* a character whose treatment by trim / upper / lower the tables above define
Plain(c) == Solid(c) \/ c \in WS
AllPlain(s) == \A i \in 1..Len(s) : Plain(s[i])

\* rs is what is left of s when something was taken from its two ends only,
\* nothing that is certainly not white space was taken, and no (ASCII) white
\* space is left at the ends
TrimLawOK(s, rs) ==
  /\ \E i \in 0..Len(s) :
        /\ i + Len(rs) <= Len(s)
        /\ SubSeq(s, i + 1, i + Len(rs)) = rs
        /\ \A j \in 1..i : ~Solid(s[j])
        /\ \A j \in (i + Len(rs) + 1)..Len(s) : ~Solid(s[j])
  /\ (rs # << >> => rs[1] \notin WS /\ Last(rs) \notin WS)

-----------------------------------------------------------------------------
(* lines / words / unlines / unwords / q / esc (modules core.ckl, string.ckl):
   applications of split, join and replace. *)

\* lines: separator LF or CR LF
RECURSIVE LinesParts(_)
LinesParts(s) ==
  LET p == Find(s, <<10>>)
  IN IF p = -1 THEN <<s>>
     ELSE LET head == Take(s, p)
              line == IF head # << >> /\ head[Len(head)] = 13
                      THEN Take(head, Len(head) - 1) ELSE head
          IN <<line>> \o LinesParts(Drop(s, p + 1))
Lines(s) == IF s = << >> THEN << >> ELSE LinesParts(s)

\* words: separator = maximal run of space, TAB, CR, LF
WordSep == {32, 9, 13, 10}
RECURSIVE SkipSep(_)
SkipSep(s) == IF s # << >> /\ Head(s) \in WordSep THEN SkipSep(Tail(s)) ELSE s
RECURSIVE WordsParts(_)
WordsParts(s) ==
  LET P == {i \in 1..Len(s) : s[i] \in WordSep}
  IN IF P = {} THEN <<s>>
     ELSE LET p == Min(P)
          IN <<Take(s, p - 1)>> \o WordsParts(SkipSep(Drop(s, p - 1)))
Words(s) == IF s = << >> THEN << >> ELSE WordsParts(s)

Unlines(parts) == Join(parts, <<10>>)
Unwords(parts) == Join(parts, <<32>>)
Q(parts)       == Join(parts, <<124>>)

\* esc: & < > become &amp; &lt; &gt;
Esc(s) ==
  LET a == ReplaceAll(s, <<38>>, <<38, 97, 109, 112, 59>>)
      b == ReplaceAll(a, <<60>>, <<38, 108, 116, 59>>)
  IN ReplaceAll(b, <<62>>, <<38, 103, 116, 59>>)

=============================================================================
