----------------------------- MODULE StrOps -----------------------------
(* C18 - reference definitions of the string operations, quoted from the
   property statement.  A string is a sequence of code points (TLC strings
   are atomic, so text is Seq(Nat) throughout).  Positions are 0-based as in
   the language.  Pure operators, no state: shared by Str.tla (the driver
   state machine, model-checked) and Str_Trace.tla (validation of calls
   recorded from the implementation). *)
EXTENDS Integers, Sequences, FiniteSets

Min(S) == CHOOSE x \in S : \A y \in S : x <= y

Take(s, k) == SubSeq(s, 1, k)
Drop(s, k) == SubSeq(s, k + 1, Len(s))

-----------------------------------------------------------------------------
(* Searching.  contains(s, t) iff find(s, t) >= 0 iff s = a + t + b. *)

Occurs(s, t, p) == /\ p >= 0 /\ p + Len(t) <= Len(s)
                   /\ SubSeq(s, p + 1, p + Len(t)) = t

FindFrom(s, t, start) ==
  LET P == {p \in 0..Len(s) : p >= start /\ Occurs(s, t, p)}
  IN IF P = {} THEN -1 ELSE Min(P)

Find(s, t) == FindFrom(s, t, 0)

Contains(s, t) == \E p \in 0..Len(s) : Occurs(s, t, p)

\* s = a \o t \o b for some a, b (a is a prefix, b a suffix of s)
Decomposes(s, t) ==
  \E i \in 0..Len(s), j \in 0..Len(s) :
     /\ i <= j
     /\ s = Take(s, i) \o t \o Drop(s, j)

StartsWith(s, t) == Len(t) <= Len(s) /\ SubSeq(s, 1, Len(t)) = t
EndsWith(s, t)   == Len(t) <= Len(s) /\ SubSeq(s, Len(s) - Len(t) + 1, Len(s)) = t

-----------------------------------------------------------------------------
(* Splitting on a literal separator (non-empty), joining, replacing. *)

\* the mathematical split: leftmost non-overlapping occurrences, always at
\* least one part
RECURSIVE SplitParts(_, _)
SplitParts(s, sep) ==
  LET p == Find(s, sep)
  IN IF p = -1 THEN <<s>>
     ELSE <<Take(s, p)>> \o SplitParts(Drop(s, p + Len(sep)), sep)

\* split() documents the empty string as having no parts (split2('', ..) ==> [])
SplitLit(s, sep) == IF s = << >> THEN << >> ELSE SplitParts(s, sep)

RECURSIVE Join(_, _)
Join(parts, sep) ==
  IF parts = << >> THEN << >>
  ELSE IF Len(parts) = 1 THEN parts[1]
  ELSE parts[1] \o sep \o Join(Tail(parts), sep)

\* replace: every non-overlapping occurrence of t (non-empty), left to right;
\* inserted text is not searched again
RECURSIVE ReplaceAll(_, _, _)
ReplaceAll(s, t, r) ==
  LET p == Find(s, t)
  IN IF p = -1 THEN s
     ELSE Take(s, p) \o r \o ReplaceAll(Drop(s, p + Len(t)), t, r)

RECURSIVE CountOcc(_, _)
CountOcc(s, t) ==                  \* number of non-overlapping occurrences
  LET p == Find(s, t)
  IN IF p = -1 THEN 0 ELSE 1 + CountOcc(Drop(s, p + Len(t)), t)

-----------------------------------------------------------------------------
(* Character-wise functions. *)

RECURSIVE Reverse(_)
Reverse(s) == IF s = << >> THEN << >> ELSE Reverse(Tail(s)) \o <<Head(s)>>

\* whitespace removed by trim(): space, TAB, LF, VT, FF, CR
WS == {9, 10, 11, 12, 13, 32}

RECURSIVE TrimL(_)
TrimL(s) == IF s # << >> /\ Head(s) \in WS THEN TrimL(Tail(s)) ELSE s
TrimR(s) == Reverse(TrimL(Reverse(s)))
Trim(s)  == TrimR(TrimL(s))

\* case table: ASCII letters and e-acute; every other code point of the
\* checked alphabet has no case
UpperC(c) == IF c >= 97 /\ c <= 122 THEN c - 32 ELSE IF c = 233 THEN 201 ELSE c
LowerC(c) == IF c >= 65 /\ c <= 90 THEN c + 32 ELSE IF c = 201 THEN 233 ELSE c

RECURSIVE Upper(_)
Upper(s) == IF s = << >> THEN << >> ELSE <<UpperC(Head(s))>> \o Upper(Tail(s))
RECURSIVE Lower(_)
Lower(s) == IF s = << >> THEN << >> ELSE <<LowerC(Head(s))>> \o Lower(Tail(s))

Chr(n) == <<n>>
Ord(s) == s[1]                     \* defined for one-character strings

-----------------------------------------------------------------------------
(* Text of numbers. *)

DigitCh(d) == IF d < 10 THEN 48 + d ELSE 87 + d          \* 0-9 a-f

RECURSIVE Digits(_, _)
Digits(n, base) == IF n < base THEN <<DigitCh(n)>>
                   ELSE Digits(n \div base, base) \o <<DigitCh(n % base)>>

RenderInt(n) == IF n < 0 THEN <<45>> \o Digits(-n, 10) ELSE Digits(n, 10)

RECURSIVE Pow10(_)
Pow10(k) == IF k <= 0 THEN 1 ELSE 10 * Pow10(k - 1)

-----------------------------------------------------------------------------
(* Interpolation: s('..{expr#format}..') and sprintf('..{0#format}..', args).
   A template is a sequence of segments: literal text (k = 0) or a
   placeholder (k = 1) naming value number `var` of the environment with
   format  #[-|0]width[x] :
     mode "r": padded on the left with spaces to `w` (the default)
     mode "l": '-', padded on the right with spaces
     mode "z": '0', padded on the left with zeroes
     hex:      'x', the integer in base 16
   Values are [k |-> "s", txt |-> text, n |-> 0] or [k |-> "i", txt |-> <<>>,
   n |-> integer].  Everything outside the placeholders is unchanged. *)

RECURSIVE Rep(_, _)
Rep(c, k) == IF k <= 0 THEN << >> ELSE <<c>> \o Rep(c, k - 1)

Pad(txt, w, mode) ==
  LET k == IF w > Len(txt) THEN w - Len(txt) ELSE 0
  IN CASE mode = "l" -> txt \o Rep(32, k)
       [] mode = "z" -> Rep(48, k) \o txt
       [] OTHER      -> Rep(32, k) \o txt

RenderVal(v, hex) ==
  IF v.k = "i" THEN (IF hex THEN Digits(v.n, 16) ELSE RenderInt(v.n))
  ELSE v.txt

RECURSIVE Interp(_, _)
Interp(segs, env) ==
  IF segs = << >> THEN << >>
  ELSE LET g == Head(segs)
           piece == IF g.k = 0 THEN g.txt
                    ELSE Pad(RenderVal(env[g.var], g.hex), g.w, g.mode)
       IN piece \o Interp(Tail(segs), env)

-----------------------------------------------------------------------------
(* Rounding format  #.d : the inserted text denotes the decimal m / 10^sc
   rounded to d digits after the point (inputs are never ties).  The text is
   compared as a number, so '1.5' and '1.50' both stand for 3/2. *)

IsDigit(c) == c >= 48 /\ c <= 57

RECURSIVE DigitsVal(_)              \* value of a digit string (<= 9 digits)
DigitsVal(ds) == IF ds = << >> THEN 0
                 ELSE DigitsVal(SubSeq(ds, 1, Len(ds) - 1)) * 10 + (ds[Len(ds)] - 48)

\* [ok, mant, sc]: txt = digits [ '.' digits ], value mant / 10^sc
ParseDec(txt) ==
  LET dots == {i \in 1..Len(txt) : txt[i] = 46}
      good == /\ Len(txt) >= 1 /\ Len(txt) <= 9
              /\ Cardinality(dots) <= 1
              /\ \A i \in 1..Len(txt) : IsDigit(txt[i]) \/ txt[i] = 46
              /\ \E i \in 1..Len(txt) : IsDigit(txt[i])
  IN IF ~good THEN [ok |-> FALSE, mant |-> 0, sc |-> 0]
     ELSE IF dots = {} THEN [ok |-> TRUE, mant |-> DigitsVal(txt), sc |-> 0]
     ELSE LET d == CHOOSE i \in dots : TRUE
          IN [ok |-> TRUE,
              mant |-> DigitsVal(Take(txt, d - 1) \o Drop(txt, d)),
              sc |-> Len(txt) - d]

\* m / 10^sc rounded to d digits, as an integer number of 10^-d units
RoundUnits(m, sc, d) ==
  IF sc <= d THEN m * Pow10(d - sc)
  ELSE (m + Pow10(sc - d) \div 2) \div Pow10(sc - d)

RoundTextOK(txt, m, sc, d) ==
  LET p == ParseDec(txt)
  IN /\ p.ok
     /\ p.mant * Pow10(d) = RoundUnits(m, sc, d) * Pow10(p.sc)

-----------------------------------------------------------------------------
(* lines / words / unlines / unwords / q / esc (modules core.ckl, string.ckl):
   applications of split, join and replace. *)

\* lines: separator LF or CR LF
RECURSIVE LinesParts(_)
LinesParts(s) ==
  LET p == Find(s, <<10>>)
  IN IF p = -1 THEN <<s>>
     ELSE LET head == Take(s, p)
              line == IF head # << >> /\ head[Len(head)] = 13
                      THEN Take(head, Len(head) - 1) ELSE head
          IN <<line>> \o LinesParts(Drop(s, p + 1))
Lines(s) == IF s = << >> THEN << >> ELSE LinesParts(s)

\* words: separator = maximal run of space, TAB, CR, LF
WordSep == {32, 9, 13, 10}
RECURSIVE SkipSep(_)
SkipSep(s) == IF s # << >> /\ Head(s) \in WordSep THEN SkipSep(Tail(s)) ELSE s
RECURSIVE WordsParts(_)
WordsParts(s) ==
  LET P == {i \in 1..Len(s) : s[i] \in WordSep}
  IN IF P = {} THEN <<s>>
     ELSE LET p == Min(P)
          IN <<Take(s, p - 1)>> \o WordsParts(SkipSep(Drop(s, p - 1)))
Words(s) == IF s = << >> THEN << >> ELSE WordsParts(s)

Unlines(parts) == Join(parts, <<10>>)
Unwords(parts) == Join(parts, <<32>>)
Q(parts)       == Join(parts, <<124>>)

\* esc: & < > become &amp; &lt; &gt;
Esc(s) ==
  LET a == ReplaceAll(s, <<38>>, <<38, 97, 109, 112, 59>>)
      b == ReplaceAll(a, <<60>>, <<38, 108, 116, 59>>)
  IN ReplaceAll(b, <<62>>, <<38, 103, 116, 59>>)

=============================================================================
