CONSTANTS
  Chunks <- K4
  MaxChunks = 4
  Structured = FALSE
  Export = FALSE
  StampAtEmission = TRUE
SPECIFICATION Spec
INVARIANT TypeOK
INVARIANT LineIsStartLine
INVARIANT StartsOrdered
INVARIANT ExportRuns
CHECK_DEADLOCK FALSE
