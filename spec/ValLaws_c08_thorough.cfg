CONSTANTS
  Tier = 2
  MaxStr = 5
  Export = TRUE
  Need = {"tx"}
SPECIFICATION Spec
INVARIANT TypeOK
INVARIANT OrderFreeText
INVARIANT RenderCanonical
INVARIANT RenderInjective
INVARIANT RenderShape
INVARIANT NoBracketFusion
INVARIANT EscapeRoundTrip
INVARIANT ExportU
INVARIANT ExportTx
CHECK_DEADLOCK FALSE
