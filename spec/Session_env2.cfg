\* C10, two interleaved interpreters that are handed the same kept caller
\* environment (and a child of their session), repaired behaviour
CONSTANTS
  Interps = {"i1", "i2"}
  UnwindOnFailure = TRUE
  DetachCallerEnv = TRUE
  Mode = "c10"
  ModSeq <- Mods2
  MaxOut = 0
  GenRot = TRUE
  GenBack = "all"
  GenSorted = FALSE
  MaxCtr = 1
  LoadCap = 1
  MaxReq = 0
  CmdsOf <- C10Env2
  Export = TRUE
SPECIFICATION Spec
INVARIANT TypeOK
INVARIANT StackEmptyBetweenCalls
INVARIANT FailIsIdempotent
INVARIANT FailLeavesNoResidue
INVARIANT CallerEnvDetached
INVARIANT SessionsIsolated
INVARIANT LoadOnce
INVARIANT ModuleScopeIsBase
INVARIANT SingleInstance
INVARIANT CycleIsError
INVARIANT ExportState
PROPERTY DefsPersist
PROPERTY Isolation
PROPERTY LoadOnlyInLoadStep
PROPERTY BindsExactly
PROPERTY Terminates
CHECK_DEADLOCK FALSE
