----------------------------- MODULE SecureOps -----------------------------
(* C09 - reference definitions of the secure-mode property, quoted from the
   property statement.  Pure operators, no state and no data: shared by
   Secure.tla (the capability gate state machine, model-checked over the
   native table extracted from the code) and Secure_Trace.tla (validation of
   observations recorded from secure interpreters).

   "In a secure-mode interpreter no program can read, write, delete, move or
    list files or directories, create directories, spawn processes or run
    script files: those built-ins are undefined, cannot be bound through
    native binding under any name or alias, and are not reachable through any
    module, object or function value.  A program cannot switch secure mode
    off, and the only file access it can cause is the interpreter reading
    module sources for `require`."                                          *)
EXTENDS Integers, Sequences, FiniteSets

Elems(s) == {s[i] : i \in DOMAIN s}

(* The single gate, mirror of functions.py bind_native_fun: when the base
   flag is on, a function whose secure attribute is false is not bound. *)
Gate(flag, secureAttr) == flag => secureAttr

(* A native the statement forbids in a secure interpreter: it touches files,
   directories or processes when invoked (measured), or the code itself
   declares it not secure. *)
ForbiddenNative(secureAttr, osTouching) == osTouching \/ ~secureAttr

(* Kinds of operating-system events the recorder distinguishes.  The first
   group is what the statement forbids outright; `env` and `cwd` (reading an
   environment variable, asking for the working directory) are not file,
   directory or process access and are not judged. *)
FileKinds    == {"read", "write", "list", "mkdir", "delete", "move", "stat", "chdir"}
ProcessKinds == {"spawn"}
JudgedKinds  == FileKinds \cup ProcessKinds
UnjudgedKinds == {"env", "cwd", "net"}

(* Where the path of an event lies (classified by the recorder):
   bundled  - <package>/modules/           (sources of the bundled modules)
   usermods - ~/.ckl/modules/              (user module directory)
   modpath  - an entry of checkerlang_module_path
   hostlib  - the host Python installation (lazy imports of the host runtime,
              not caused by any argument of the program)
   canary   - the canary directory every path-like argument points into
   cmd      - a command name handed to a process-spawning call
   other    - anything else *)
ModuleSourceDirs == {"bundled", "usermods", "modpath"}

(* The only OS events a secure interpreter may cause: reading a module source
   (or probing for its existence) while a `require` is being evaluated or the
   base environment is being loaded.  `req` says whether the event happened
   inside such a load. *)
PermittedOs(kind, cls, req) ==
  \/ kind \in UnjudgedKinds
  \/ cls = "hostlib" /\ kind \in {"read", "stat"}
  \/ req /\ cls \in ModuleSourceDirs /\ kind \in {"read", "stat"}

=============================================================================
