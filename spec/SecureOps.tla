----------------------------- MODULE SecureOps -----------------------------
(* C09 - reference definitions of the secure-mode property, quoted from the
   property statement.  Pure operators, no state and no data: shared by
   Secure.tla (the capability gate state machine, model-checked over the
   native table extracted from the code) and Secure_Trace.tla (validation of
   observations recorded from secure interpreters).

   "In a secure-mode interpreter no program can read, write, delete, move or
    list files or directories, create directories, spawn processes or run
    script files: those built-ins are undefined, cannot be bound through
    native binding under any name or alias, and are not reachable through any
    module, object or function value.  A program cannot switch secure mode
    off, and the only file access it can cause is the interpreter reading
    module sources for `require`."                                          *)
EXTENDS Integers, Sequences, FiniteSets

Elems(s) == {s[i] : i \in DOMAIN s}

(* The single gate, mirror of functions.py bind_native_fun: when the base
   flag is on, a function whose secure attribute is false is not bound. *)
Gate(flag, secureAttr) == flag => secureAttr

(* A native the statement forbids in a secure interpreter: it touches files,
   directories or processes when invoked (measured), or the code itself
   declares it not secure. *)
ForbiddenNative(secureAttr, osTouching) == osTouching \/ ~secureAttr

(* Kinds of operating-system events the recorder distinguishes.  The first
   group is what the statement forbids outright; `env` and `cwd` (reading an
   environment variable, asking for the working directory) are not file,
   directory or process access and are not judged. *)
FileKinds    == {"read", "write", "list", "mkdir", "delete", "move", "stat", "chdir"}
ProcessKinds == {"spawn"}
JudgedKinds  == FileKinds \cup ProcessKinds
UnjudgedKinds == {"env", "cwd", "net"}

(* Where the path of an event lies (classified by the recorder):
   bundled  - <package>/modules/           (sources of the bundled modules)
   usermods - ~/.ckl/modules/              (user module directory)
   modpath  - an entry of checkerlang_module_path
   hostlib  - the host Python installation (lazy imports of the host runtime,
              not caused by any argument of the program)
   canary   - the canary directory every path-like argument points into
   cmd      - a command name handed to a process-spawning call
   other    - anything else *)
ModuleSourceDirs == {"bundled", "usermods", "modpath"}

(* The only OS events a secure interpreter may cause: reading a module source
   (or probing for its existence) while a `require` is being evaluated or the
   base environment is being loaded.  `req` says whether the event happened
   inside such a load. *)
PermittedOs(kind, cls, req) ==
  \/ kind \in UnjudgedKinds
  \/ cls = "hostlib" /\ kind \in {"read", "stat"}
  \/ req /\ cls \in ModuleSourceDirs /\ kind \in {"read", "stat"}


-----------------------------------------------------------------------------
(* "every symbol of every bundled module invoked with path-like and
   command-like arguments": the arguments.

   The symbols of the palette (the harness gives each one a program text; the
   paths point into the canary directory):
     F an existing file        D an existing directory   N a path that does not exist yet
     S an existing script      R a relative path         M a new path inside a new directory
     C a command name          L a list holding a path
   A built-in may reach the operating system only when the path stands next to
   a *companion* of the right kind (a callback that is handed the lines, a
   stream, a number of bytes, a map of options, ...); the type tests of a
   native run before it looks at the path.  So every path-like / command-like
   argument is tried in every parameter position next to every companion:
     K a callback (any number of parameters)   I an input stream    O an output stream
     1 an integer     P a map from a path to a path     B an object with path members
     T / X booleans   U an encoding name       Z NULL    E the empty string
     J a callback that returns its first argument *)
PathArgs      == {"F", "D", "N", "S", "R", "M"}
CommandArgs   == {"C"}
TargetsCore   == {"F", "D", "N", "S", "C"}
TargetsMore   == PathArgs \cup CommandArgs
CompanionsCore == {"K", "I", "O", "1", "P", "L", "T", "U", "Z"}
CompanionsMore == CompanionsCore \cup {"B", "X", "E", "J"}
Targets(more)    == IF more THEN TargetsMore ELSE TargetsCore
Companions(more) == IF more THEN CompanionsMore ELSE CompanionsCore
Palette(more)    == PathArgs \cup CommandArgs \cup CompanionsMore

(* the tuples of the first round of this check (they carry what is known about
   the parameter order of the OS-touching built-ins: source and destination,
   command, argument list and working directory, file name and encoding) *)
BaseShapes ==
  { << >>, <<"F">>, <<"D">>, <<"N">>, <<"S">>, <<"R">>, <<"C">>, <<"M">>,
    <<"F", "N">>, <<"F", "D">>, <<"N", "F">>, <<"D", "T">>, <<"C", "L">>, <<"F", "U">>,
    <<"N", "U">>, <<"M", "T">>, <<"S", "N">>, <<"F", "L">>,
    <<"C", "L", "D">>, <<"N", "U", "T">>, <<"D", "T", "T">>,
    <<"D", "T", "T", "T">>, <<"C", "L", "D", "X", "N">> }

(* one target in position i, the same companion in every other position *)
Around(k, i, t, c) == [j \in 1..k |-> IF j = i THEN t ELSE c]

(* Argument tuples for a function of n parameters: everything of the first
   round that fits; every palette symbol alone; every target next to every
   companion and every other path in both orders; for three and more
   parameters every target in every position, the other positions filled with
   one companion.  (A call with one argument too many is added by the
   harness.) *)
CallShapes(n, more) ==
  LET T == Targets(more)
      C == Companions(more) \cup PathArgs \cup CommandArgs
  IN { s \in BaseShapes : Len(s) <= IF n = 0 THEN 1 ELSE n }
     \cup (IF n >= 1 THEN { <<a>> : a \in Palette(more) } ELSE {})
     \cup (IF n >= 2 THEN { <<t, c>> : t \in T, c \in C } \cup { <<c, t>> : t \in T, c \in C } ELSE {})
     \cup UNION { { Around(k, i, t, c) : i \in 1..k, t \in T, c \in Companions(more) } : k \in 3..n }

(* Every shape names at least one path-like or command-like argument, except
   the empty call and the lone companions. *)
ShapeHasTarget(s) == \E i \in DOMAIN s : s[i] \in PathArgs \cup CommandArgs \cup {"L"}

-----------------------------------------------------------------------------
(* "the only file access it can cause is the interpreter reading module
   sources for `require`": the module specs.

   A module spec is text; the part in front of the last `/` is a directory
   part.  Bundled modules are looked up by file name only, so a spelling with
   a directory part names the same bundled module (RequireSpellings), and a
   spec whose file name is not a module must not make the interpreter open or
   probe anything outside the module source directories, whatever stands in
   front of it (ForeignSpecs: prefix \o traversal \o target, each a list of
   path components the harness joins with `/`):
     UP   enough `..` components to reach the root from any module directory
     CAN  the components of the canary directory
     ROOT an empty first component (the spec starts with `/`)           *)
RequireSpellings == {"plain", "dir", "dotdot", "abs", "cwd"}
  \* M | x/M | x/../M | /x/M | ./M

SpecPrefixes ==
  { << >>, <<"x">>, <<".">>, <<"x", ".">>, <<"x", "y", "..">>, <<"..">>, <<"x", "..">>,
    <<"sys">>, <<"~">>, <<"x", "">> }
SpecTraversals ==
  { <<"UP", "CAN">>,            \* relative, up to the root and down into the canary
    <<"ROOT", "CAN">>,          \* absolute
    <<"..">>,                   \* the parent of the working directory (the canary)
    << >> }                     \* the working directory itself
SpecTargets == {"script", "script.ckl", "SCRIPT", "a.txt", "sub", "rel.txt"}
RequireClauses == {"plain", "unqualified", "as", "import", "variable"}
ModulePathSettings == {"none", "mods"}     \* checkerlang_module_path unset / one harness-made directory

ForeignSpecs ==
  { [prefix |-> p, trav |-> t, target |-> g, clause |-> c, modpath |-> mp] :
      p \in SpecPrefixes, t \in SpecTraversals, g \in SpecTargets,
      c \in RequireClauses, mp \in ModulePathSettings }
\* an absolute traversal after a non-empty prefix is not absolute any more: kept, it is still a spec
\* the spellings of the first round of this check (always tried)
CoreSpecs ==
  { s \in ForeignSpecs :
       \/ s.prefix = << >> /\ s.modpath = "none"
            /\ (s.clause = "plain" \/ (s.trav = <<"UP", "CAN">> /\ s.target = "script"))
       \/ s.trav = <<"UP", "CAN">> /\ s.target = "script" /\ s.clause = "plain" }

-----------------------------------------------------------------------------
(* How a user obtains a secure-mode interpreter: the constructor
   Interpreter(secure, legacy), or the command line front ends
   (`python -m ckl.run`, `python -m ckl.repl`) with the options --secure and
   --legacy.  The configuration a front end must construct: *)
CliOptionSets == SUBSET {"secure", "legacy"}
CliSecure(opts) == "secure" \in opts
CliLegacy(opts) == "legacy" \in opts
FrontEnds == {"run", "repl"}

=============================================================================
