\* C11 quick C: bundled modules under every spelling of their name (sys is
\* loaded by the interpreter's start-up code, stat is not), every importer
\* program of <= 3 commands; one user module for contrast (exact name only)
CONSTANTS
  Interps = {"i1"}
  UnwindOnFailure = TRUE
  DetachCallerEnv = TRUE
  Mode = "c11"
  ModSeq <- Mods2
  MaxOut = 0
  GenRot = TRUE
  GenBack = "all"
  GenSorted = FALSE
  MaxCtr = 1
  LoadCap = 2
  MaxReq = 3
  CmdsOf <- C11Spell4
  Export = TRUE
SPECIFICATION Spec
INVARIANT TypeOK
INVARIANT StackEmptyBetweenCalls
INVARIANT FailIsIdempotent
INVARIANT LoadOnce
INVARIANT ModuleScopeIsBase
INVARIANT SingleInstance
INVARIANT CycleIsError
INVARIANT ExportState
PROPERTY DefsPersist
PROPERTY Isolation
PROPERTY LoadOnlyInLoadStep
PROPERTY BindsExactly
PROPERTY Terminates
CHECK_DEADLOCK FALSE
