CONSTANTS
  IPn = {0, 1, 9, 99}
  FD = {0, 4, 5, 9}
  MaxF = 3
  MaxD = 2
  HexN = 300
  Export = TRUE
SPECIFICATION Spec
INVARIANT TypeOK
INVARIANT CarryInv
INVARIANT RoundMachine
INVARIANT RoundNearest
INVARIANT ReadBack
INVARIANT HexMachine
INVARIANT HexInv
INVARIANT ExportCase
CHECK_DEADLOCK FALSE
