CONSTANTS
  MaxLen = 3
  Export = TRUE
SPECIFICATION Spec
VIEW View
CHECK_DEADLOCK FALSE
