CONSTANTS
  MaxLen = 3
  Export = TRUE
  OtherUntil = 2
SPECIFICATION Spec
VIEW View
CHECK_DEADLOCK FALSE
