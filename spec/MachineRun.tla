---------------------------- MODULE MachineRun ----------------------------
(* Driver for Machine.tla: pick a program of the configured family, run it,
   check the properties on the outcome and the ghost history, export
   (program, outcome, log) for replay on the implementation. *)
EXTENDS MachineGen, Json

CONSTANTS Programs, Export

VARIABLES prog, res, phase
vars == <<prog, res, phase>>

\* prog holds the parameter tuple of the program (MachineGen!Build makes the tree)
Init == prog \in Programs /\ phase = "new" /\ res = R(Val(Null), St0)
Exec == phase = "new" /\ phase' = "done" /\ res' = Run(Build(prog)) /\ UNCHANGED prog
Next == Exec
Spec == Init /\ [][Next]_vars

Done == phase = "done" /\ res.o.t # "fuel"
Hist == res.st.hist
Count(P(_)) == Cardinality({i \in 1..Len(Hist) : P(Hist[i])})

\* C05: the finally part of every block that was entered ran exactly once,
\* whatever way the block was left
FinallyOnce ==
  Done => \A b \in 1..res.st.nb :
     /\ Cardinality({i \in 1..Len(Hist) : Hist[i] = <<"finally", b>>}) = 1
     /\ Cardinality({i \in 1..Len(Hist) : Hist[i] = <<"leave", b>>}) = 1

\* C05: no statement of a block runs after the failing one
NoStmtAfterFailure ==
  Done => \A i \in 1..Len(Hist) : Hist[i][1] = "raise" =>
            \A j \in (i + 1)..Len(Hist) : ~(Hist[j][1] = "stmt" /\ Hist[j][2] = Hist[i][2])

\* blocks are left in the reverse order they were entered (structured exits)
RECURSIVE Balanced(_, _)
Balanced(i, stack) ==
  IF i > Len(Hist) THEN stack = << >>
  ELSE IF Hist[i][1] = "enter" THEN Balanced(i + 1, Append(stack, Hist[i][2]))
  ELSE IF Hist[i][1] = "leave"
       THEN stack # << >> /\ stack[Len(stack)] = Hist[i][2] /\ Balanced(i + 1, SubSeq(stack, 1, Len(stack) - 1))
  ELSE Balanced(i + 1, stack)
BlocksBalanced == Done => Balanced(1, << >>)

\* a handler runs only in a block whose body raised, at most one per block
HandlerAfterRaise ==
  Done => \A i \in 1..Len(Hist) : Hist[i][1] = "handler" =>
            /\ \E j \in 1..(i - 1) : Hist[j] = <<"raise", Hist[i][2]>>
            /\ \A j \in 1..Len(Hist) : (j # i /\ Hist[j][1] = "handler") => Hist[j][2] # Hist[i][2]

\* C03: every call runs in a fresh frame; def binds in the frame executing it
FreshFrames ==
  Done => \A i, j \in 1..Len(Hist) : (i # j /\ Hist[i][1] = "call" /\ Hist[j][1] = "call") => Hist[i][3] # Hist[j][3]

\* C04: a comprehension yields what its explicit loop yields
\* (evaluated on the state whose program IS a comprehension of the cp family: its explicit loop is run beside it)
ComprEqualsLoop ==
  (phase = "done" /\ prog[1] = "cp" /\ prog[2] = 1) =>
     LET b == Run(Build(<<"cp", 2, prog[3], prog[4], prog[5], prog[6]>>))
     IN res.st.log = b.st.log /\ res.o.t = b.o.t

TypeOK == res.o.t \in {"val", "err", "fuel"}      \* signals never leave Run

Rec == [id |-> prog, prog |-> Build(prog), out |-> res.o, log |-> res.st.log]
ExportRuns == (Export /\ phase = "done") => PrintT("@@RUN@@" \o ToJson(Rec))
=============================================================================
