CONSTANTS
  N = 4
  Plain = 0
  Near = 2
  Alike = 3
  Site <- SiteSpec
SPECIFICATION Spec
INVARIANT TypeOK
INVARIANT StableSortOK
INVARIANT SortedIsEnumeration
INVARIANT OrderIndependence
INVARIANT OneMember
INVARIANT ReportVary
PROPERTY Forward
CHECK_DEADLOCK FALSE
