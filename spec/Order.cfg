CONSTANTS
  N = 4
  Site <- SiteSpec
SPECIFICATION Spec
INVARIANT TypeOK
INVARIANT SortedIsEnumeration
INVARIANT OrderIndependence
INVARIANT ReportVary
PROPERTY Forward
CHECK_DEADLOCK FALSE
