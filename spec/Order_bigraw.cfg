CONSTANTS
  N = 3
  Plain = 1
  Near = 2
  Alike = 2
  Site <- SiteRawBig
SPECIFICATION Spec
INVARIANT TypeOK
INVARIANT SmallBlind
INVARIANT BigOnly
INVARIANT ReportVary
CHECK_DEADLOCK FALSE
