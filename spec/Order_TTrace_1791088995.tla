---- MODULE Order_TTrace_1791088995 ----
EXTENDS Order, Sequences, TLCExt, Toolbox, Naturals, TLC

_expression ==
    LET Order_TEExpression == INSTANCE Order_TEExpression
    IN Order_TEExpression!expression
----

_trace ==
    LET Order_TETrace == INSTANCE Order_TETrace
    IN Order_TETrace!trace
----

_inv ==
    ~(
        TLCGet("level") = Len(_TETrace)
        /\
        cur = ([t |-> "coll", elems |-> {2, 57}, ord |-> <<57, 2>>, seq |-> <<>>])
        /\
        pc = (1)
        /\
        prog = (8)
        /\
        base = ([t |-> "coll", elems |-> {2, 57}, ord |-> <<57, 2>>, seq |-> <<>>])
    )
----

_init ==
    /\ prog = _TETrace[1].prog
    /\ pc = _TETrace[1].pc
    /\ base = _TETrace[1].base
    /\ cur = _TETrace[1].cur
----

_next ==
    /\ \E i,j \in DOMAIN _TETrace:
        /\ \/ /\ j = i + 1
              /\ i = TLCGet("level")
        /\ prog  = _TETrace[i].prog
        /\ prog' = _TETrace[j].prog
        /\ pc  = _TETrace[i].pc
        /\ pc' = _TETrace[j].pc
        /\ base  = _TETrace[i].base
        /\ base' = _TETrace[j].base
        /\ cur  = _TETrace[i].cur
        /\ cur' = _TETrace[j].cur

\* Uncomment the ASSUME below to write the states of the error trace
\* to the given file in Json format. Note that you can pass any tuple
\* to `JsonSerialize`. For example, a sub-sequence of _TETrace.
    \* ASSUME
    \*     LET J == INSTANCE Json
    \*         IN J!JsonSerialize("Order_TTrace_1791088995.json", _TETrace)

=============================================================================

 Note that you can extract this module `Order_TEExpression`
  to a dedicated file to reuse `expression` (the module in the 
  dedicated `Order_TEExpression.tla` file takes precedence 
  over the module `Order_TEExpression` below).

---- MODULE Order_TEExpression ----
EXTENDS Order, Sequences, TLCExt, Toolbox, Naturals, TLC

expression == 
    [
        \* To hide variables of the `Order` spec from the error trace,
        \* remove the variables below.  The trace will be written in the order
        \* of the fields of this record.
        prog |-> prog
        ,pc |-> pc
        ,base |-> base
        ,cur |-> cur
        
        \* Put additional constant-, state-, and action-level expressions here:
        \* ,_stateNumber |-> _TEPosition
        \* ,_progUnchanged |-> prog = prog'
        
        \* Format the `prog` variable as Json value.
        \* ,_progJson |->
        \*     LET J == INSTANCE Json
        \*     IN J!ToJson(prog)
        
        \* Lastly, you may build expressions over arbitrary sets of states by
        \* leveraging the _TETrace operator.  For example, this is how to
        \* count the number of times a spec variable changed up to the current
        \* state in the trace.
        \* ,_progModCount |->
        \*     LET F[s \in DOMAIN _TETrace] ==
        \*         IF s = 1 THEN 0
        \*         ELSE IF _TETrace[s].prog # _TETrace[s-1].prog
        \*             THEN 1 + F[s-1] ELSE F[s-1]
        \*     IN F[_TEPosition - 1]
    ]

=============================================================================



Parsing and semantic processing can take forever if the trace below is long.
 In this case, it is advised to uncomment the module below to deserialize the
 trace from a generated binary file.

\*
\*---- MODULE Order_TETrace ----
\*EXTENDS Order, IOUtils, TLC
\*
\*trace == IODeserialize("Order_TTrace_1791088995.bin", TRUE)
\*
\*=============================================================================
\*

---- MODULE Order_TETrace ----
EXTENDS Order, TLC

trace == 
    <<
    ([cur |-> [t |-> "coll", elems |-> {}, ord |-> <<>>, seq |-> <<>>],pc |-> 0,prog |-> 8,base |-> [t |-> "coll", elems |-> {}, ord |-> <<>>, seq |-> <<>>]]),
    ([cur |-> [t |-> "coll", elems |-> {57}, ord |-> <<57>>, seq |-> <<>>],pc |-> 0,prog |-> 8,base |-> [t |-> "coll", elems |-> {}, ord |-> <<>>, seq |-> <<>>]]),
    ([cur |-> [t |-> "coll", elems |-> {2, 57}, ord |-> <<57, 2>>, seq |-> <<>>],pc |-> 0,prog |-> 8,base |-> [t |-> "coll", elems |-> {}, ord |-> <<>>, seq |-> <<>>]]),
    ([cur |-> [t |-> "coll", elems |-> {2, 57}, ord |-> <<57, 2>>, seq |-> <<>>],pc |-> 1,prog |-> 8,base |-> [t |-> "coll", elems |-> {2, 57}, ord |-> <<57, 2>>, seq |-> <<>>]])
    >>
----


=============================================================================

---- CONFIG Order_TTrace_1791088995 ----
CONSTANTS
    N = 3
    Plain = 2
    Alike = 2
    Site <- SiteObserved

INVARIANT
    _inv

CHECK_DEADLOCK
    \* CHECK_DEADLOCK off because of PROPERTY or INVARIANT above.
    FALSE

INIT
    _init

NEXT
    _next

CONSTANT
    _TETrace <- _trace

ALIAS
    _expression
=============================================================================
\* Generated on Sun Oct 04 04:43:17 UTC 2026