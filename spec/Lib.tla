------------------------------- MODULE Lib -------------------------------
(* C19 - collection and numeric library functions satisfy their defining laws.

   A driver machine: Init chooses a family of functions, Pick1/Pick2 choose
   the arguments (every small list / pair of lists / multiset / integer pair /
   boundary word and shift count), Apply evaluates the reference operators
   of LibOps / BigInt / Bits32 on them and exports (arguments, expected
   results) for the replay on the interpreter (binding A).  The INVARIANTS are
   the laws of the property statement, checked by TLC on every argument tuple:

     SetLaws     union / intersection / diff / symmetric_diff computed the way
                 a container computes them are the set-theoretic operations on
                 Members (equality classes; 1 and 1.0 are one element)
     UniqueLaw   unique keeps exactly the first of each Equal group, in order
     StructLaws  reverse, zip, enumerate, chunks, pairs, grouped
     FlattenLaw  one level, order kept
     RangeLaws   range / interval are the arithmetic progressions
     FuncLaws    filter, map_list, reduce (left fold)
     PermLaws    mean, median, median_low, median_high, min, max are invariant
                 under every permutation of their input
     NumLaws     pow, gcd, lcm, abs, sign on limb integers are the
                 mathematical functions (checked against native arithmetic
                 and against the divisibility characterisations)
     BitLaws     the bit-vector definitions of Bits32 are the arithmetic
                 ones (a*2^n mod 2^32, floor(a/2^n), 2^32-1-a, a+b = and+or)
   Round 3 - every number and every string, not only the compact ones:
     NumberAxioms (ASSUME) Equal / Lt on exact values are an equivalence and a
                 strict total order on numbers, lexicographic on strings; on
                 compact numbers they are the half-unit comparisons; 2^53 + 1
                 is not Equal to the decimal 2^53
     WideLaws    the set algebra, unique and grouped over ints above 2^53
                 beside the neighbouring decimals ("1 versus 1.0" where the
                 conversion to a double is lossy)
     XPermLaws   min, max, median_low, median_high, median, mean, sum, prod
                 over such numbers, over decimals of tiny magnitude (2^-41)
                 and over strings of several characters in both cases:
                 invariant under every permutation
     AgreeLaws   on compact lists the element-valued / limb-valued
                 definitions are the Key / half-unit ones
     PowLaws     pow with exponents up to the hundreds and with BigInt
                 exponents for the bases 0, 1, -1; the conditions used to
                 validate powers too long to multiply out (residues, sign,
                 length bracket, powers of ten) hold for the true power and
                 reject its neighbours

   Mirrors: modules/set.ckl, list.ckl, core.ckl, stat.ckl, math.ckl,
   functions.py FuncSum/FuncRange/FuncZip/FuncPow/FuncBit*.                 *)
EXTENDS LibOps, BigInt, Bits32, Json, IOUtils

CONSTANTS MaxList,     \* bound on the lists of the pair family
          MaxPerm,     \* bound on the lists whose permutations are explored
          Span,        \* integer arguments -Span..Span
          MaxShift,    \* shift counts 0..MaxShift
          Fams,        \* families explored: subset of {"pair","flat","range","func","perm","num","bits",
                       \*                                "wide","xperm","pow","powbig"}
          MaxWide,     \* bound on the lists of the wide pair family ...
          MaxWideB,    \* ... and on the shorter list of each pair
          MaxXPerm,    \* bound on the multisets of wide numbers / tiny decimals / texts
          PowExps,     \* exponents of the pow family
          Export       \* TRUE: print (arguments, expected) for every tuple

SX == INSTANCE SequencesExt

VARIABLES st,    \* "fam" -> "one" -> "args" -> "done"
          fam,   \* family of functions under test
          la, lb,     \* list arguments
          a, b, n     \* integer arguments (words for the "bits" family)
vars == <<st, fam, la, lb, a, b, n>>


\* element universes
U   == {I(1), D(2), I(2), S(1)}                  \* 1, 1.0, 2, 'a'
NU  == <<I(1), D(2), I(2), D(5), I(3)>>          \* 1, 1.0, 2, 2.5, 3 (ordered)
SU  == <<S(1), S(2), S(3)>>                      \* 'a', 'b', 'c'
FU  == {I(1), L(<< >>), L(<<I(2)>>), L(<<I(1), L(<<I(3)>>)>>)}
IU  == {-1, 0, 2, 3}

\* the wide universes
B53  == P2B(53)
B64  == P2B(64)
W53    == BI(B53)                          \* 2^53, an int
W53d   == BD(B53, 0)                       \* 2^53, a decimal: Equal to W53
W53p1  == BI(Add(B53, One))                \* 2^53 + 1: no decimal is Equal to it (its nearest double is 2^53)
W53p2d == BD(Add(B53, BTwo), 0)            \* 2^53 + 2, a decimal
W53p3  == BI(Add(B53, FromInt(3)))
W64d   == BD(B64, 0)
W64p1  == BI(Add(B64, One))                \* 2^64 + 1: its nearest double is 2^64
WU  == {W53, W53d, W53p1, W53p2d, W64p1, W64d}
WNU == <<W53, W53d, W53p1, W53p2d, W53p3>>                         \* ascending (W53 = W53d)
\* decimals of tiny magnitude beside 0, 1, 1.5:  -2^-41 < 0 < 2^-41 < 3 * 2^-41 < 1 < 1.5
FNU == <<BD(Neg(One), 41), I(0), BD(One, 41), BD(FromInt(3), 41), I(1), D(3)>>
\* strings: '' < 'A' < 'Ab' < 'a' < 'aB' < 'ab'  (code point order; they tie when case is ignored)
TU  == <<T(<< >>), T(<<65>>), T(<<65, 98>>), S(1), T(<<97, 66>>), T(<<97, 98>>)>>
PowBases == {-10, -7, -3, -2, 2, 3, 7, 10, 12}
BigExps == <<P2B(70), Add(P2B(70), One), Pow(FromInt(10), 20)>>

ListsOver(E, m) == UNION {[1..k -> E] : k \in 0..m}
\* canonical (non-decreasing) index sequences: one per multiset
Sorted1(m, w) == {s \in ListsOver(1..w, m) : \A i \in 1..(Len(s) - 1) : s[i] <= s[i + 1]}
Multisets(u, m) == {[i \in 1..Len(s) |-> u[s[i]]] : s \in Sorted1(m, Len(u)) \ {<< >>}}

Lo == -Span
Ints == Lo..Span
Steps == {-3, -2, -1, 1, 2, 3}
Zw == W(0, 0)

Emit(tag, rec) == IF Export THEN PrintT("@@" \o tag \o "@@" \o ToJson(rec)) ELSE TRUE

-----------------------------------------------------------------------------
Init == /\ st = "fam" /\ fam \in Fams
        /\ la = << >> /\ lb = << >> /\ a = 0 /\ b = 0 /\ n = 0

Pick1 ==
  /\ st = "fam" /\ st' = "one" /\ UNCHANGED <<fam, lb, b, n>>
  /\ CASE fam = "pair"  -> la' \in ListsOver(U, MaxList) /\ a' = 0
       [] fam = "flat"  -> la' \in ListsOver(FU, 3) /\ a' = 0
       [] fam = "range" -> la' = << >> /\ a' \in Ints
       [] fam = "func"  -> la' \in ListsOver(IU, 3) /\ a' \in {0, 2}
       [] fam = "perm"  -> la' \in Multisets(NU, MaxPerm) \cup Multisets(SU, MaxPerm) /\ a' = 0
       [] fam = "num"   -> la' = << >> /\ a' \in Ints
       [] fam = "bits"  -> la' = << >> /\ a' \in Boundary
       [] fam = "wide"  -> la' \in ListsOver(WU, MaxWide) /\ a' = 0
       [] fam = "xperm" -> la' \in Multisets(WNU, MaxXPerm) \cup Multisets(FNU, MaxXPerm)
                                    \cup Multisets(TU, MaxXPerm) /\ a' = 0
       [] fam = "pow"   -> la' = << >> /\ a' \in PowBases
       [] fam = "powbig" -> la' = << >> /\ a' \in {-1, 0, 1}

Pick2 ==
  /\ st = "one" /\ st' = "args" /\ UNCHANGED <<fam, la, a>>
  /\ CASE fam = "pair"  -> lb' \in ListsOver(U, MaxList) /\ b' = 0 /\ n' = 0
       [] fam = "flat"  -> lb' = << >> /\ b' = 0 /\ n' = 0
       [] fam = "range" -> lb' = << >> /\ b' \in Ints /\ n' \in Steps
       [] fam = "func"  -> lb' \in ListsOver(IU, 1) /\ b' = 0 /\ n' = 0
       [] fam = "perm"  -> lb' = << >> /\ b' = 0 /\ n' = 0
       [] fam = "num"   -> /\ lb' = << >>                 \* (a, b) pairs, and (a, exponent)
                           /\ \/ b' \in Ints /\ n' = 0
                              \/ b' = a /\ n' \in 1..5
       [] fam = "bits"  -> /\ lb' = << >>                 \* (a, b) pairs, and (a, count)
                           /\ \/ b' \in Boundary /\ n' = 0
                              \/ b' = a /\ n' \in 1..MaxShift
       \* (one of the two lists is short: la <= MaxWide with lb <= MaxWideB, and la <= MaxWideB with lb <= MaxWide)
       [] fam = "wide"  -> /\ lb' \in ListsOver(WU, IF Len(la) <= MaxWideB THEN MaxWide ELSE MaxWideB)
                           /\ b' = 0 /\ n' = 0
       [] fam = "xperm" -> lb' = << >> /\ b' = 0 /\ n' = 0
       [] fam = "pow"   -> lb' = << >> /\ b' = 0 /\ n' \in PowExps
       [] fam = "powbig" -> lb' = << >> /\ b' = 0 /\ n' \in 1..Len(BigExps)

-----------------------------------------------------------------------------
(* What Apply exports: the expected results of every function of the family *)


PairRec ==
  [la |-> la, lb |-> lb,
   union |-> Union(la, lb), intersection |-> Intersection(la, lb),
   diff |-> Diff(la, lb), symmetric_diff |-> SymDiff(la, lb),
   unique |-> Unique(la), reverse |-> Reverse(la), zip |-> Zip(la, lb),
   enumerate |-> Enumerate(la), pairs |-> Pairs(la), grouped |-> Grouped(la),
   chunks |-> [k \in 1..3 |-> Chunks(la, k)]]

FlatRec == [s |-> la, flatten |-> Flatten(la)]

RangeRec == [a |-> a, b |-> b, step |-> n, range |-> Range(a, b, n),
             range2 |-> Range(a, b, 1), interval |-> Interval(a, b)]

Preds == <<"even", "gt", "ne">>
Maps  == <<"sq", "addc", "neg">>
Bins  == <<"add", "sub", "mix">>
FuncRec ==
  LET s == la \o lb IN
  [s |-> s, c |-> a,
   filter |-> [k \in 1..3 |-> Filter(s, Preds[k], a)],
   map_list |-> [k \in 1..3 |-> MapList(s, Maps[k], a)],
   reduce |-> IF s = << >> THEN << >> ELSE [k \in 1..3 |-> Reduce(s, Bins[k])]]

PermRec ==
  [s |-> la, perms |-> SX!SetToSeq(PermsOf(la)), numeric |-> IsNum(la[1]),
   mean |-> IF IsNum(la[1]) THEN Mean(la) ELSE Rat(0, 1),
   median |-> IF IsNum(la[1]) THEN Median(la) ELSE Rat(0, 1),
   median_low |-> MedianLowKey(la), median_high |-> MedianHighKey(la),
   min |-> MinKey(la), max |-> MaxKey(la),
   sum |-> IF IsNum(la[1]) THEN Sum(la) ELSE [int |-> FALSE, r |-> Rat(0, 1)],
   prod |-> IF IsNum(la[1]) THEN Prod(la) ELSE [int |-> FALSE, r |-> Rat(0, 1)]]

NumRec ==
  [a |-> a, b |-> b, k |-> n,
   pow |-> Pow(FromInt(a), n), gcd |-> Gcd(FromInt(a), FromInt(b)),
   lcm |-> Lcm(FromInt(a), FromInt(b)), abs |-> Abs(FromInt(a)), sign |-> Sign(FromInt(a))]

BitsRec ==
  [a |-> a, b |-> b, n |-> n,
   bit_and |-> And(a, b), bit_or |-> Or(a, b), bit_xor |-> Xor(a, b), bit_not |-> Not(a),
   bit_shift_left |-> Shl(a, n), bit_shift_right |-> Shr(a, n),
   bit_rotate_left |-> Rotl(a, n), bit_rotate_right |-> Rotr(a, n)]

WideRec ==
  [la |-> la, lb |-> lb,
   union |-> Union(la, lb), intersection |-> Intersection(la, lb),
   diff |-> Diff(la, lb), symmetric_diff |-> SymDiff(la, lb),
   unique |-> Unique(la), grouped |-> Grouped(la)]

QRec(q) == LET r == QNorm(q) IN [num |-> r.num, e |-> r.e]
AllPerms(P(_)) == \A p \in PermsOf(la) : P(p)
XPermRec ==
  LET num == IsNum(la[1]) IN
  [s |-> la, perms |-> SX!SetToSeq(PermsOf(la)), numeric |-> num,
   min |-> MinEl(la), max |-> MaxEl(la), median_low |-> MedLowEl(la), median_high |-> MedHighEl(la),
   \* exact: the double arithmetic is exact on EVERY permutation (the order of the additions matters)
   sum  |-> IF num THEN [int |-> AllIntX(la), exact |-> AllPerms(ExactSum), q |-> QRec(SumQ(la)),
                         abs |-> QRec(AbsSumQ(la))]
            ELSE [int |-> FALSE, exact |-> FALSE, q |-> QRec(QZero), abs |-> QRec(QZero)],
   prod |-> IF num THEN [int |-> AllIntX(la), exact |-> AllPerms(ExactProd), q |-> QRec(ProdQ(la))]
            ELSE [int |-> FALSE, exact |-> FALSE, q |-> QRec(QZero)],
   mean |-> [exact |-> num /\ AllPerms(ExactMean)],
   median |-> IF num THEN [exact |-> ExactMedian(la), twice |-> QRec(MedianSumQ(la))]
              ELSE [exact |-> FALSE, twice |-> QRec(QZero)]]

PowRec    == [a |-> FromInt(a), k |-> FromInt(n), pow |-> Pow(FromInt(a), n)]
PowBigRec == [a |-> FromInt(a), k |-> BigExps[n], pow |-> PowX(FromInt(a), BigExps[n])]

Apply ==
  /\ st = "args" /\ st' = "done" /\ UNCHANGED <<fam, la, lb, a, b, n>>
  /\ CASE fam = "pair"  -> Emit("PAIR", PairRec)
       [] fam = "flat"  -> Emit("FLAT", FlatRec)
       [] fam = "range" -> Emit("RANGE", RangeRec)
       [] fam = "func"  -> Emit("FUNC", FuncRec)
       [] fam = "perm"  -> Emit("PERM", PermRec)
       [] fam = "num"   -> Emit("NUM", NumRec)
       [] fam = "bits"  -> Emit("BITS", BitsRec)
       [] fam = "wide"  -> Emit("WIDE", WideRec)
       [] fam = "xperm" -> Emit("XPERM", XPermRec)
       [] fam = "pow"   -> Emit("POW", PowRec)
       [] fam = "powbig" -> Emit("POW", PowBigRec)

Next == Pick1 \/ Pick2 \/ Apply
Spec == Init /\ [][Next]_vars

-----------------------------------------------------------------------------
(* The laws *)
On(f, P) == (st = "done" /\ fam = f) => P

NoDupM(s) == NoDup(s) /\ Cardinality(Members(s)) = Len(s)

SetLaws == On("pair",
  /\ Members(Union(la, lb)) = MUnion(la, lb)               /\ NoDupM(Union(la, lb))
  /\ Members(Intersection(la, lb)) = MIntersection(la, lb) /\ NoDupM(Intersection(la, lb))
  /\ Members(Diff(la, lb)) = MDiff(la, lb)                 /\ NoDupM(Diff(la, lb))
  /\ Members(SymDiff(la, lb)) = MSymDiff(la, lb)           /\ NoDupM(SymDiff(la, lb))
  \* membership is the characteristic function
  /\ \A x \in U :
       /\ In(x, Union(la, lb)) <=> (In(x, la) \/ In(x, lb))
       /\ In(x, Intersection(la, lb)) <=> (In(x, la) /\ In(x, lb))
       /\ In(x, Diff(la, lb)) <=> (In(x, la) /\ ~In(x, lb))
       /\ In(x, SymDiff(la, lb)) <=> (In(x, la) # In(x, lb)))

\* the mechanism of list.ckl: scan with a set of seen values
UniqueLoop(s) ==
  LET f[i \in 0..Len(s)] ==
        IF i = 0 THEN << >>
        ELSE IF In(s[i], f[i - 1]) THEN f[i - 1] ELSE Append(f[i - 1], s[i])
  IN f[Len(s)]

UniqueLaw == On("pair",
  LET u == Unique(la)
      pos(k) == CHOOSE i \in 1..Len(la) : la[i] = u[k] /\ IsFirst(la, i)
  IN /\ NoDupM(u) /\ Members(u) = Members(la)
     /\ \A k \in 1..Len(u) : \E i \in 1..Len(la) : la[i] = u[k] /\ IsFirst(la, i)
     /\ \A k \in 1..(Len(u) - 1) : pos(k) < pos(k + 1)
     /\ u = UniqueLoop(la)
     /\ Unique(u) = u)

Concat(ss) == LET f[i \in 0..Len(ss)] == IF i = 0 THEN << >> ELSE f[i - 1] \o ss[i]
              IN f[Len(ss)]

StructLaws == On("pair",
  /\ Reverse(Reverse(la)) = la /\ Len(Reverse(la)) = Len(la)
  /\ Reverse(la \o lb) = Reverse(lb) \o Reverse(la)
  /\ \A i \in 1..Len(la) : Reverse(la)[i] = la[Len(la) - i + 1]
  /\ Len(Zip(la, lb)) = MinI(Len(la), Len(lb))
  /\ \A i \in 1..Len(Zip(la, lb)) : Zip(la, lb)[i] = <<la[i], lb[i]>>
  /\ Len(Enumerate(la)) = Len(la)
  /\ \A i \in 1..Len(la) : Enumerate(la)[i].idx = i - 1 /\ Enumerate(la)[i].x = la[i]
  /\ la # << >> => Pairs(la) = Zip(la, Tail(la))
  /\ la = << >> => Pairs(la) = << >>
  /\ \A k \in 1..3 :
       LET c == Chunks(la, k) IN
         /\ Concat(c) = la
         /\ \A j \in 1..(Len(c) - 1) : Len(c[j]) = k
         /\ c # << >> => Len(c[Len(c)]) \in 1..k
         \* no piece is empty, so the empty list has no piece at all (not one empty piece)
         /\ \A j \in 1..Len(c) : c[j] # << >>
         /\ (c = << >>) <=> (la = << >>)
         /\ Len(c) * k >= Len(la)
         /\ la # << >> => (Len(c) - 1) * k < Len(la)
  /\ LET g == Grouped(la) IN
       /\ Concat(g) = la
       /\ \A j \in 1..Len(g) : g[j] # << >> /\ \A x, y \in Range1(g[j]) : Equal(x, y)
       /\ \A j \in 1..(Len(g) - 1) : ~Equal(g[j][Len(g[j])], g[j + 1][1]))

FlattenLaw == On("flat",
  LET f == Flatten(la)
      w(i) == IF IsList(la[i]) THEN Len(la[i].items) ELSE 1
      off[i \in 0..Len(la)] == IF i = 0 THEN 0 ELSE off[i - 1] + w(i)
  IN /\ Len(f) = off[Len(la)]
     /\ \A i \in 1..Len(la) :
          IF IsList(la[i]) THEN \A j \in 1..w(i) : f[off[i - 1] + j] = la[i].items[j]
          ELSE f[off[i - 1] + 1] = la[i]
     /\ (\A i \in 1..Len(la) : ~IsList(la[i])) => f = la)

RangeLaws == On("range",
  LET r == Range(a, b, n)  m == Len(r) IN
  /\ \A i \in 1..m : r[i] = a + (i - 1) * n
  /\ n > 0 => (\A i \in 1..m : r[i] < b) /\ a + m * n >= b
  /\ n < 0 => (\A i \in 1..m : r[i] > b) /\ a + m * n <= b
  /\ Interval(a, b) = Range(a, b + 1, 1)
  /\ Range1(Interval(a, b)) = a..b
  /\ \A i \in 1..(Len(Interval(a, b)) - 1) : Interval(a, b)[i] < Interval(a, b)[i + 1])

FuncLaws == On("func",
  /\ \A k \in 1..3 :
       /\ Filter(la \o lb, Preds[k], a) = Filter(la, Preds[k], a) \o Filter(lb, Preds[k], a)
       /\ \A x \in Range1(Filter(la, Preds[k], a)) : PredOf(Preds[k], a, x)
       /\ Len(Filter(la, Preds[k], a)) = Cardinality({i \in 1..Len(la) : PredOf(Preds[k], a, la[i])})
       /\ Len(MapList(la, Maps[k], a)) = Len(la)
       /\ \A i \in 1..Len(la) : MapList(la, Maps[k], a)[i] = MapOf(Maps[k], a, la[i])
       /\ (la # << >> /\ lb # << >>) =>
             Reduce(la \o lb, Bins[k]) = BinOf(Bins[k], Reduce(la, Bins[k]), lb[1])
       /\ lb # << >> => Reduce(lb, Bins[k]) = lb[1]
  /\ la # << >> => 2 * Reduce(la, "add") = Sum2([i \in 1..Len(la) |-> I(la[i])]))

PermLaws == On("perm",
  LET num == IsNum(la[1]) IN
  /\ \A p \in PermsOf(la) :
       /\ IsPermOf(p, la)
       /\ MinKey(p) = MinKey(la) /\ MaxKey(p) = MaxKey(la)
       /\ MedianLowKey(p) = MedianLowKey(la) /\ MedianHighKey(p) = MedianHighKey(la)
       /\ num => RatEq(Mean(p), Mean(la)) /\ RatEq(Median(p), Median(la))
       /\ num => Sum(p) = Sum(la) /\ Prod(p) = Prod(la)
  /\ MinKey(la) <= MedianLowKey(la) /\ MedianLowKey(la) <= MedianHighKey(la)
  /\ MedianHighKey(la) <= MaxKey(la)
  /\ Len(la) % 2 = 1 => MedianLowKey(la) = MedianHighKey(la)
  \* as many elements on each side of the medians
  /\ 2 * Cardinality({i \in 1..Len(la) : Key(la[i]) < MedianLowKey(la)}) < Len(la)
  /\ 2 * Cardinality({i \in 1..Len(la) : Key(la[i]) > MedianHighKey(la)}) < Len(la)
  /\ 2 * Cardinality({i \in 1..Len(la) : Key(la[i]) <= MedianLowKey(la)}) >= Len(la)
  /\ 2 * Cardinality({i \in 1..Len(la) : Key(la[i]) >= MedianHighKey(la)}) >= Len(la))

NAbs(x) == IF x < 0 THEN -x ELSE x
RECURSIVE NPow(_, _)
NPow(x, k) == IF k = 0 THEN 1 ELSE x * NPow(x, k - 1)
NDiv(d, x) == x % d = 0                       \* d > 0

NumLaws == On("num",
  LET A == FromInt(a)  B == FromInt(b)
      g == ToInt(Gcd(A, B))  l == ToInt(Lcm(A, B)) IN
  /\ Pow(A, n) = FromInt(NPow(a, n))
  /\ Pow(A, n + 1) = Mul(Pow(A, n), A)
  /\ Abs(A) = FromInt(NAbs(a))
  /\ Sign(A) = (IF a < 0 THEN -1 ELSE IF a > 0 THEN 1 ELSE 0)
  /\ Mul(FromInt(Sign(A)), Abs(A)) = A
  \* gcd: the greatest common divisor (0 for 0, 0)
  /\ g >= 0 /\ ((g = 0) <=> (a = 0 /\ b = 0))
  /\ g > 0 => NDiv(g, NAbs(a)) /\ NDiv(g, NAbs(b))
  /\ \A d \in 1..Span : (NDiv(d, NAbs(a)) /\ NDiv(d, NAbs(b))) => (g = 0 \/ d <= g)
  /\ IsGcd(A, B, Gcd(A, B))
  \* lcm: the least common multiple (0 when an argument is 0)
  /\ l >= 0 /\ ((l = 0) <=> (a = 0 \/ b = 0))
  /\ l > 0 => /\ NDiv(NAbs(a), l) /\ NDiv(NAbs(b), l)
              /\ \A m \in 1..(l - 1) : ~(NDiv(NAbs(a), m) /\ NDiv(NAbs(b), m)))

Val(w) == Add(Mul(FromInt(w.hi), FromInt(65536)), FromInt(w.lo))
T32 == Pow(FromInt(2), 32)

BitLaws == On("bits",
  /\ IsWord(And(a, b)) /\ IsWord(Shl(a, n)) /\ IsWord(Rotl(a, n))
  /\ WordOf(BitsOf(a)) = a
  /\ Val(Shl(a, n)) = FloorMod(Mul(Val(a), Pow(FromInt(2), n)), T32)
  /\ Val(Shr(a, n)) = FloorDiv(Val(a), Pow(FromInt(2), n))
  /\ Val(Not(a)) = Sub(Sub(T32, One), Val(a))
  /\ Add(Val(And(a, b)), Val(Or(a, b))) = Add(Val(a), Val(b))
  /\ Val(Xor(a, b)) = Sub(Val(Or(a, b)), Val(And(a, b)))
  /\ Not(And(a, b)) = Or(Not(a), Not(b))
  /\ Xor(a, b) = Or(And(a, Not(b)), And(Not(a), b))
  /\ Rotl(a, n) = Or(Shl(a, n % 32), Shr(a, 32 - (n % 32)))
  /\ Rotr(a, n) = Or(Shr(a, n % 32), Shl(a, 32 - (n % 32)))
  /\ Rotr(Rotl(a, n), n) = a
  /\ Rotl(a, n) = Rotr(a, (32 - (n % 32)) % 32)
  /\ n >= 32 => Shl(a, n) = Zw /\ Shr(a, n) = Zw)

-----------------------------------------------------------------------------
(* Round 3: every number, every string *)

CompactNums == {I(-1), I(0), I(1), D(2), I(2), D(5), I(3), D(-1), D(1)}
WideNums == WU \cup {W53p3, BD(One, 41), BD(Neg(One), 41), BD(FromInt(3), 41), BI(Neg(B53)), BD(Neg(B53), 0)}
Texts == {TU[i] : i \in 1..Len(TU)} \cup {S(2), T(<<97, 97>>), T(<<49, 48>>), T(<<57>>), T(<<228>>)}

\* exactly one of x < y, x == y, y < x
Trichotomy(x, y) ==
  Cardinality({c \in {"lt", "eq", "gt"} :
                 (c = "lt" /\ Lt(x, y)) \/ (c = "eq" /\ Equal(x, y)) \/ (c = "gt" /\ Lt(y, x))}) = 1

NumberAxioms ==
  \* a strict total order and an equivalence on all numbers, compact or wide
  /\ \A x, y \in CompactNums \cup WideNums :
       /\ Trichotomy(x, y)
       /\ (Equal(x, y) <=> (Class(x) = Class(y)))
       /\ (Equal(x, y) <=> (QCmp(QV(x), QV(y)) = 0))
       /\ (Lt(x, y) <=> (QCmp(QV(x), QV(y)) < 0))
       /\ (Equal(x, y) <=> (QSub(QV(x), QV(y)).num = Zero))
       /\ \A z \in WideNums : (Lt(x, y) /\ Lt(y, z)) => Lt(x, z)
  \* on compact numbers: the comparison of the half units
  /\ \A x, y \in CompactNums : (Equal(x, y) <=> (Num2(x) = Num2(y))) /\ (Lt(x, y) <=> (Num2(x) < Num2(y)))
  \* the anchors: conversion to a double would identify these
  /\ Equal(W53, W53d) /\ ~Equal(W53p1, W53d) /\ ~Equal(W53p1, W53p2d) /\ ~Equal(W64p1, W64d)
  /\ Lt(W53d, W53p1) /\ Lt(W53p1, W53p2d) /\ Lt(W64d, W64p1)
  /\ Rep53(QV(W53d)) /\ ~Rep53(QV(W53p1)) /\ Rep53(QV(W53p2d)) /\ ~Rep53(QV(W64p1)) /\ Rep53(QV(BD(One, 41)))
  /\ Rep53(QQ(Sub(P2B(53), One), 60)) /\ Rep53(QQ(P2B(80), 0)) /\ ~Rep53(QQ(Add(P2B(53), One), 60))
  \* lowest terms
  /\ QNorm(QQ(FromInt(12), 5)) = QQ(FromInt(3), 3) /\ QNorm(QQ(FromInt(8), 2)) = QQ(FromInt(2), 0)
  /\ Class(BD(FromInt(6), 2)) = Class(D(3)) /\ Class(BI(FromInt(7))) = Class(I(7)) /\ Class(T(<<98>>)) = Class(S(2))
  \* strings: lexicographic by code point, a strict total order
  /\ \A x, y \in Texts :
       /\ Trichotomy(x, y)
       /\ (Equal(x, y) <=> (Cps(x) = Cps(y)))
       /\ \A z \in Texts : (Lt(x, y) /\ Lt(y, z)) => Lt(x, z)
  /\ \A i \in 1..(Len(TU) - 1) : Lt(TU[i], TU[i + 1])
  /\ \A i \in 1..(Len(FNU) - 1) : Lt(FNU[i], FNU[i + 1])
  /\ \A i \in 1..(Len(WNU) - 1) : Lt(WNU[i], WNU[i + 1]) \/ Equal(WNU[i], WNU[i + 1])
  /\ Lt(T(<<66>>), S(1)) /\ Lt(T(<<49, 48>>), T(<<57>>)) /\ Lt(S(4), T(<<228>>))      \* 'B' < 'a', '10' < '9', 'd' < 'ae'
  \* a number and a string are neither Equal nor ordered
  /\ \A x \in CompactNums \cup WideNums, y \in Texts : ~Equal(x, y) /\ ~Lt(x, y) /\ ~Lt(y, x)

ASSUME NumberAxioms

WideLaws == On("wide",
  /\ Members(Union(la, lb)) = MUnion(la, lb)               /\ NoDupM(Union(la, lb))
  /\ Members(Intersection(la, lb)) = MIntersection(la, lb) /\ NoDupM(Intersection(la, lb))
  /\ Members(Diff(la, lb)) = MDiff(la, lb)                 /\ NoDupM(Diff(la, lb))
  /\ Members(SymDiff(la, lb)) = MSymDiff(la, lb)           /\ NoDupM(SymDiff(la, lb))
  /\ \A x \in WU :
       /\ In(x, Union(la, lb)) <=> (In(x, la) \/ In(x, lb))
       /\ In(x, Intersection(la, lb)) <=> (In(x, la) /\ In(x, lb))
       /\ In(x, Diff(la, lb)) <=> (In(x, la) /\ ~In(x, lb))
       /\ In(x, SymDiff(la, lb)) <=> (In(x, la) # In(x, lb))
  /\ LET u == Unique(la) IN NoDupM(u) /\ Members(u) = Members(la) /\ u = UniqueLoop(la) /\ Unique(u) = u
  /\ LET g == Grouped(la) IN
       /\ Concat(g) = la
       /\ \A j \in 1..Len(g) : g[j] # << >> /\ \A x, y \in Range1(g[j]) : Equal(x, y)
       /\ \A j \in 1..(Len(g) - 1) : ~Equal(g[j][Len(g[j])], g[j + 1][1]))

LeqX(x, y) == ~Lt(y, x)
XPermLaws == On("xperm",
  LET num == IsNum(la[1])  srt == SortedX(la)  len == Len(la) IN
  /\ IsPermOf(srt, la) /\ \A i \in 1..(len - 1) : LeqX(srt[i], srt[i + 1])
  /\ \A p \in PermsOf(la) :
       /\ Equal(MinEl(p), MinEl(la)) /\ Equal(MaxEl(p), MaxEl(la))
       /\ Equal(MedLowEl(p), MedLowEl(la)) /\ Equal(MedHighEl(p), MedHighEl(la))
       /\ num => /\ QCmp(SumQ(p), SumQ(la)) = 0 /\ QCmp(ProdQ(p), ProdQ(la)) = 0
                 /\ QCmp(MedianSumQ(p), MedianSumQ(la)) = 0
  /\ \A i \in 1..len : LeqX(MinEl(la), la[i]) /\ LeqX(la[i], MaxEl(la))
  /\ LeqX(MinEl(la), MedLowEl(la)) /\ LeqX(MedLowEl(la), MedHighEl(la)) /\ LeqX(MedHighEl(la), MaxEl(la))
  /\ len % 2 = 1 => MedLowEl(la) = MedHighEl(la)
  /\ 2 * Cardinality({i \in 1..len : Lt(la[i], MedLowEl(la))}) < len
  /\ 2 * Cardinality({i \in 1..len : Lt(MedHighEl(la), la[i])}) < len
  /\ 2 * Cardinality({i \in 1..len : LeqX(la[i], MedLowEl(la))}) >= len
  /\ 2 * Cardinality({i \in 1..len : LeqX(MedHighEl(la), la[i])}) >= len
  \* the textbook laws that hold to the last bit: sum([x]) = x, sum([x, x]) = 2 x, prod([x]) = x
  /\ (num /\ len = 1) => /\ QCmp(SumQ(la), QV(la[1])) = 0 /\ QCmp(ProdQ(la), QV(la[1])) = 0
                          /\ ExactSum(la) = (AllIntX(la) \/ Rep53(QV(la[1])))
  /\ (num /\ len = 2 /\ la[1] = la[2]) => QCmp(SumQ(la), QScale(QV(la[1]), BTwo)) = 0
  /\ (num /\ ExactMean(la)) => QCmp(QScale(MeanQ(la), FromInt(len)), SumQ(la)) = 0)

\* compact lists: the element-valued / limb-valued definitions are the Key / half-unit ones
AgreeLaws == On("perm",
  /\ Key(MinEl(la)) = MinKey(la) /\ Key(MaxEl(la)) = MaxKey(la)
  /\ Key(MedLowEl(la)) = MedianLowKey(la) /\ Key(MedHighEl(la)) = MedianHighKey(la)
  /\ IsNum(la[1]) =>
       /\ QCmp(SumQ(la), QQ(FromInt(Sum2(la)), 1)) = 0
       /\ QCmp(ProdQ(la), QQ(FromInt(Prod2(la)), Len(la))) = 0
       /\ AllIntX(la) = AllInt(la)
       /\ ExactSum(la) /\ ExactProd(la)           \* multiples of 0.5 of small magnitude: always exact
       /\ QCmp(MedianSumQ(la), QQ(FromInt(Median(la).n), 1)) = 0)

PowLaws ==
  /\ On("pow",
       LET A == FromInt(a)  r == Pow(A, n)  h == n \div 2 IN
       /\ r = Mul(Pow(A, h), Pow(A, n - h))
       /\ r = Mul(Pow(A, n - 1), A)
       /\ PowX(A, FromInt(n)) = r
       /\ PowSmallMag(NAbs(a), n) = r.mag /\ MulSmallF(r.mag, NAbs(a)) = Mul(r, Abs(A)).mag
       /\ PowCost(NAbs(a), n) >= (n \div MaxJ(NAbs(a))) * (Len(r.mag) \div 2)
       \* the conditions used for the powers TLC cannot multiply out: true of the power ...
       /\ PowPlausible(r, A, n) /\ ResiduesAgree(r, A, n) /\ SizeBracket(r, A, n) /\ r.sg = SignOfPow(A, n)
       /\ IsTen(A) => r = PowOfTen(A, n)
       \* ... and false of its neighbours, its negation, its float-like truncation
       /\ ~PowPlausible(Add(r, One), A, n) /\ ~PowPlausible(Sub(r, One), A, n) /\ ~PowPlausible(Neg(r), A, n)
       /\ ~PowPlausible(Mul(r, A), A, n)
       /\ LET tr == [sg |-> r.sg, mag |-> [i \in 1..Len(r.mag) |-> IF i <= Len(r.mag) - 5 THEN 0 ELSE r.mag[i]]]
          IN tr # r => ~PowPlausible(tr, A, n)             \* the leading 17-20 digits only (a float)
       /\ \A i \in 1..Len(PowModuli) : ModSmall(r, PowModuli[i]) = ToInt(FloorMod(r, FromInt(PowModuli[i]))))
  /\ On("powbig",
       LET A == FromInt(a)  kb == BigExps[n] IN
       /\ PowX(A, Add(kb, One)) = Mul(PowX(A, kb), A)
       /\ PowX(A, Add(kb, kb)) = Mul(PowX(A, kb), PowX(A, kb))
       /\ PowX(A, kb) \in {Zero, One, Neg(One)}
       /\ PowX(A, Zero) = One)

TypeOK == /\ st \in {"fam", "one", "args", "done"}
          /\ fam \in Fams
=============================================================================
