CONSTANTS
  Ranges <- Decades
  Gran = 2
  Export = TRUE
  WithArith = TRUE
SPECIFICATION Spec
INVARIANT TypeOK
INVARIANT Valid
INVARIANT ClosedForm
INVARIANT RoundTrip
INVARIANT LeapSanity
INVARIANT MonthSanity
INVARIANT WholeMonth
INVARIANT ArithLaw
INVARIANT ExportMonths
PROPERTY OneDay
CHECK_DEADLOCK FALSE
