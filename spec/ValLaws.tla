----------------------------- MODULE ValLaws -----------------------------
(* C06 / C07 / C08 - the laws of equality, order and text form, checked by TLC
   over a finite universe U of abstract values (Val.tla), and the tables that
   binding A replays on the implementation.

   The driver has two modes.
   "pair": Init picks a value a = U[ia]; Step walks b = U[ib] through the
           universe.  Every state is a pair (a, b); the invariants are the
           laws on the pair and, quantifying a third value, on triples.
   "str":  one string is grown code point by code point over an alphabet
           around the quote and the escapes; the invariant is that quoting it
           and scanning the quoted text back (lexer.py states 4/41) returns
           the string and stops exactly at the closing quote.

   Mirrors: values.py __eq__/__hash__/__lt__/__repr__ of every value class,
   lexer.py states 4, 41, 7, 8.                                              *)
EXTENDS Val, TLC, Json, IOUtils, SequencesExt

CONSTANTS Tier,        \* 1 / 2: quick / thorough universe of C06, C08; 3 / 4: of C07
          MaxStr,      \* bound on the grown string
          Export,      \* TRUE: print the universe and the pair table
          Need         \* which tables this run uses: subset of {"eq", "lt", "tx"}

-----------------------------------------------------------------------------
(* The universe. *)

Seqs0(S) == {<< >>}
Seqs1(S) == {<<x>> : x \in S}
Seqs2(S) == {<<x, y>> : x \in S, y \in S}
Seqs3(S) == {<<x, y, z>> : x \in S, y \in S, z \in S}
Seqs4(S) == {<<x, y, z, w>> : x \in S, y \in S, z \in S, w \in S}
SeqsUpTo(S, n) == Seqs0(S) \cup (IF n >= 1 THEN Seqs1(S) ELSE {})
                  \cup (IF n >= 2 THEN Seqs2(S) ELSE {})
                  \cup (IF n >= 3 THEN Seqs3(S) ELSE {})
                  \cup (IF n >= 4 THEN Seqs4(S) ELSE {})
NDSeqs(S, n) == {q \in SeqsUpTo(S, n) : NoDup(q)}
Ran(t) == {t[i] : i \in DOMAIN t}

L253   == <<992, 5474, 1992, 9007>>             \* 2^53   = 9007199254740992
L253p1 == <<993, 5474, 1992, 9007>>             \* 2^53+1
L264   == <<1616, 955, 737, 6744, 1844>>        \* 2^64   = 18446744073709551616
L1e8   == <<6789, 2345, 1>>                     \* 123456789

D1 == <<2024, 1, 1, 0, 0, 0, 0>>             \* 20240101000000
D2 == <<2024, 1, 1, 0, 0, 1, 0>>             \* 20240101000001
D3 == <<1999, 12, 31, 23, 59, 59, 0>>        \* 19991231235959

Scalars ==
  { VNull, VBool(0), VBool(1),
    VInt(0), VInt(1), VInt(-1), VInt(2), VInt(10),
    VDec(0, 1), VNegZero, VDec(1, 1), VDec(1, 2), VDec(-1, 1), VDec(5, 2), VDec(-3, 4),
    VBigInt(1, L253), VBigInt(1, L253p1), VBigInt(1, L264), VBigInt(-1, L253),
    VBigDec(1, L253), VBigInt(1, L1e8), VBigDec(1, L1e8),
    VStr(<< >>), VStr(<<97>>), VStr(<<97, 32>>), VStr(<<97, 33>>), VStr(<<97, 39>>),
    VStr(<<65>>), VStr(<<97, 97>>), VStr(<<39>>), VStr(<<49>>), VStr(<<92>>),
    VStr(<<10>>), VStr(<<92, 110>>), VStr(<<9, 97>>),
    VDate(D1), VDate(D2), VDate(D3),
    VPat(<<97>>), VPat(<<97, 33>>), VPat(<<65>>),
    VRef(1), VRef(2), VRef(3) }

\* element pool of the depth-1 containers
P1 == IF Tier = 1
      THEN {VInt(1), VDec(1, 1), VInt(2), VStr(<<97>>), VStr(<<97, 32>>), VBool(1)}
      ELSE {VInt(1), VDec(1, 1), VInt(2), VDec(1, 2), VStr(<<97>>), VStr(<<97, 32>>),
            VBool(1), VNull}
\* elements of the depth-1 sets (thorough: all insertion orders of up to 4)
PS == IF Tier = 1 THEN P1 ELSE {VInt(1), VDec(1, 1), VInt(2), VStr(<<97>>), VStr(<<97, 39>>), VBool(1)}
\* map keys / values
KP == IF Tier = 1 THEN {VInt(1), VDec(1, 1), VStr(<<97>>), VBool(1), VBool(0)}
      ELSE {VInt(1), VDec(1, 1), VStr(<<97>>), VStr(<<97, 33>>), VBool(1), VBool(0)}
VP == <<VInt(1), VStr(<<97>>), VDec(1, 1)>>
LL1 == 2
SL1 == IF Tier = 1 THEN 2 ELSE 3
ML1 == 2
\* thorough: all insertion orders of four elements / three keys
PS4 == {VInt(1), VInt(2), VStr(<<97>>), VBool(1)}
PM3 == {VInt(1), VStr(<<97>>), VBool(1)}

Lists1 == {VList(q) : q \in SeqsUpTo(P1, LL1)}
Sets1  == {VSet(q) : q \in NDSeqs(PS, SL1)}
          \cup (IF Tier = 1 THEN {} ELSE {VSet(q) : q \in {r \in Seqs4(PS4) : NoDup(r)}})
Maps1  == {VMap(q, [i \in 1..Len(q) |-> VP[((i + sh) % 3) + 1]]) :
             q \in NDSeqs(KP, ML1), sh \in (IF Tier = 1 THEN {0} ELSE {0, 1})}
          \cup (IF Tier = 1 THEN {}
                ELSE {VMap(q, [i \in 1..3 |-> IF q[i] = VInt(1) THEN VStr(<<97>>) ELSE VInt(1)]) :
                        q \in {r \in Seqs3(PM3) : NoDup(r)}})

\* element pool of the depth-2 containers
P2 == IF Tier = 1
      THEN {VList(<<VInt(1)>>), VList(<<VDec(1, 1)>>), VSet(<< >>),
            VSet(<<VInt(1), VInt(2)>>), VSet(<<VInt(2), VInt(1)>>),
            VMap(<<VStr(<<97>>)>>, <<VInt(1)>>)}
      ELSE {VInt(1), VList(<< >>), VList(<<VInt(1)>>), VList(<<VDec(1, 1)>>), VSet(<< >>),
            VSet(<<VInt(1)>>), VSet(<<VDec(1, 1)>>),
            VSet(<<VInt(1), VInt(2)>>), VSet(<<VInt(2), VInt(1)>>),
            VMap(<<VStr(<<97>>)>>, <<VInt(1)>>),
            VMap(<<VBool(1), VBool(0)>>, <<VInt(1), VInt(2)>>),
            VMap(<<VBool(0), VBool(1)>>, <<VInt(2), VInt(1)>>)}
P2v == {VInt(1), VSet(<<VInt(2), VInt(1)>>), VList(<<VDec(1, 1)>>)}
LL2 == 2
Lists2 == {VList(q) : q \in SeqsUpTo(P2, LL2)}
Sets2  == {VSet(q) : q \in NDSeqs(P2, 2)}
Maps2  == IF Tier = 1
          THEN {VMap(<<x>>, <<x>>) : x \in P2}
               \cup {VMap(<<x, VInt(2)>>, <<VInt(1), x>>) : x \in P2}
               \cup {VMap(<<VInt(2), x>>, <<x, VInt(1)>>) : x \in P2}
          ELSE {VMap(<<x>>, <<y>>) : x \in P2, y \in P2v}
               \cup {VMap(<<x, VInt(2)>>, <<VInt(1), y>>) : x \in P2 \ {VInt(1)}, y \in P2v}
               \cup {VMap(<<VInt(2), x>>, <<y, VInt(1)>>) : x \in P2 \ {VInt(1)}, y \in P2v}
\* depth 3: one more level around a few depth-2 values
P3 == {VList(<<VSet(<<VInt(1), VInt(2)>>)>>), VList(<<VSet(<<VInt(2), VInt(1)>>)>>),
       VSet(<<VSet(<< >>)>>), VSet(<<VList(<<VInt(1)>>)>>), VSet(<<VList(<<VDec(1, 1)>>)>>)}
Deep3 == {VList(q) : q \in Seqs1(P3)} \cup {VSet(q) : q \in NDSeqs(P3, 2)}
         \cup {VMap(<<x>>, <<x>>) : x \in P3}

\* Tiers 1, 2: the universe of C06 / C08 (mostly containers in all insertion orders)
UEq == Scalars \cup Lists1 \cup Sets1 \cup Maps1 \cup Lists2 \cup Sets2 \cup Maps2 \cup Deep3

\* Tiers 3, 4: the universe of C07: values of the kinds whose order the
\* statement names - strings over code points below and above the quote,
\* ints and decimals mixed, booleans, dates, lists (and lists of lists) of
\* them - and sets / maps of them in all insertion orders for the enumeration
OAlpha == IF Tier = 3 THEN {32, 39, 40, 97, 233} ELSE {32, 33, 35, 39, 40, 65, 97, 233}
OStrs  == {VStr(q) : q \in SeqsUpTo(OAlpha, 2)}
OElem  == {VInt(1), VDec(1, 1), VInt(2), VDec(1, 2), VStr(<<97>>), VStr(<<97, 32>>), VBool(0), VBool(1)}
         \cup (IF Tier = 3 THEN {} ELSE {VDate(D1), VDate(D3), VInt(-1), VStr(<<97, 39>>)})
OLists == {VList(q) : q \in SeqsUpTo(OElem, 2)}
          \cup (IF Tier = 3 THEN {}
                ELSE {VList(q) : q \in Seqs3({VInt(1), VDec(1, 1), VDec(1, 2), VStr(<<97>>)})})
OInner == {VList(<< >>), VList(<<VInt(1)>>), VList(<<VDec(1, 1)>>), VList(<<VInt(2)>>),
           VList(<<VInt(1), VInt(2)>>), VList(<<VStr(<<97>>)>>)}
ONest  == {VList(q) : q \in SeqsUpTo(IF Tier = 3 THEN OInner \ {VList(<<VInt(2)>>), VList(<<VStr(<<97>>)>>)}
                                       ELSE OInner, 2)}
OSetS  == {VStr(<<97>>), VStr(<<97, 32>>), VStr(<<97, 39>>), VStr(<<65>>)}
OSetN  == {VInt(1), VDec(1, 2), VInt(2), VDec(-1, 1)} \cup (IF Tier = 3 THEN {} ELSE {VDec(1, 1)})
OSetB  == {VBool(0), VBool(1)}
OSetL  == {VList(<<VInt(1)>>), VList(<<VInt(1), VInt(0)>>), VList(<< >>)}
OSets  == {VSet(q) : q \in NDSeqs(OSetS, 3) \cup NDSeqs(OSetN, IF Tier = 3 THEN 2 ELSE 3)
                          \cup NDSeqs(OSetB, 2) \cup NDSeqs(OSetL, IF Tier = 3 THEN 2 ELSE 3)}
OMaps  == {VMap(q, [i \in 1..Len(q) |-> VInt(i)]) :
             q \in NDSeqs(OSetS, IF Tier = 3 THEN 2 ELSE 3) \cup NDSeqs(OSetB, 2) \cup NDSeqs(OSetN, 2)}
UOrd == Scalars \cup OStrs \cup OLists \cup ONest \cup OSets \cup OMaps

(* Values whose TEXT the model does not state - neighbouring doubles (the host
   writes the shortest numeral that reads back, Val.tla FineNumeral the exact
   expansion), dates below the year 1000 and inside one second (the host's
   stamp drops the padding / the sub-second part) - belong to the universes
   of C06 and C07, not to the runs that export texts (C08: "tx" \in Need). *)
Rich == "tx" \notin Need
F03   == VFine(1, <<4595, 5284, 3195, 5404>>, 54)     \* 0.3                 = 5404319552844595 / 2^54
F015  == VFine(1, <<4595, 5284, 3195, 5404>>, 55)     \* 0.15: the numerator of 0.3, another exponent
F0102 == VFine(1, <<1149, 8821, 798, 1351>>, 52)      \* 0.1 + 0.2 = 0.30000000000000004
F1up  == VFine(1, <<497, 2737, 5996, 4503>>, 52)      \* 1 + 2^-52 = 1.0000000000000002
F1dn  == VFine(1, <<991, 5474, 1992, 9007>>, 53)      \* 1 - 2^-53 = 0.9999999999999999
F25up == VFine(-1, <<3121, 3421, 4995, 5629>>, 51)    \* -(2.5 + 2^-51)
DS1 == <<2024, 1, 1, 0, 0, 0, 444000>>       \* inside the second of D1
DS2 == <<2024, 1, 1, 0, 0, 0, 444001>>
DY1 == <<999, 12, 31, 0, 0, 0, 0>>           \* the host writes 13 digits
DY2 == <<1, 1, 1, 0, 0, 0, 0>>
DY3 == <<1000, 1, 1, 0, 0, 0, 0>>
\* strings: e + combining acute against the precomposed letter, the replacement
\* character, a code point beyond the BMP, CR, digit strings (text order is not
\* numeric order)
RichStrs == {VStr(<<101>>), VStr(<<101, 769>>), VStr(<<769>>), VStr(<<233>>), VStr(<<65533>>),
             VStr(<<128512>>), VStr(<<13>>), VStr(<<50>>), VStr(<<49, 48>>), VStr(<<97, 13>>)}
RichDates == {VDate(DS1), VDate(DS2), VDate(DY1), VDate(DY2), VDate(DY3)}
RichScalars == {F03, F015, F0102, F1up, F1dn, F25up} \cup RichDates \cup RichStrs
\* sets and maps of dates and of close decimals in all insertion orders (C07: enumeration)
OSetD == IF Tier = 3 THEN {VDate(D1), VDate(DS1), VDate(DY1)} ELSE {VDate(D1), VDate(DS1), VDate(DY1), VDate(D3)}
OSetF == IF Tier = 3 THEN {F03, F0102, VDec(1, 2)} ELSE {F03, F0102, VDec(1, 2), F1dn}
RichOrd == {VList(<<x>>) : x \in RichDates \cup {F03, F0102}}
           \cup {VSet(q) : q \in NDSeqs(OSetD, 3) \cup NDSeqs(OSetF, 2)}
           \cup {VMap(q, [i \in 1..Len(q) |-> VInt(i)]) : q \in NDSeqs(OSetD, 2) \cup NDSeqs(OSetF, IF Tier = 3 THEN 1 ELSE 2)}
RichEq  == {VList(<<x>>) : x \in {F03, F0102, VDate(DS1), VDate(DS2)}}
           \cup {VSet(<<F03, F0102>>), VSet(<<F0102, F03>>), VSet(<<VDate(DS1), VDate(D1)>>)}

U == IF Tier \in {1, 2} THEN UEq \cup (IF Rich THEN RichScalars \cup RichEq ELSE {})
     ELSE UOrd \cup (IF Rich THEN RichScalars \cup RichOrd ELSE {})

USeq == SetToSeq(U)
N    == Len(USeq)

\* the relation tables, computed once (each value is normalised once:
\* Less(x, y) = LessN(Norm(x), Norm(y)), Render(x) = RenderN(Norm(x)))
NT  == [i \in 1..N |-> Norm(USeq[i])]
EqT == IF "eq" \in Need
       THEN [i \in 1..N |-> [j \in 1..N |-> Equal(USeq[i], USeq[j])]] ELSE << >>
\* pairs that are unequal only through the sub-second parts of dates (Val.tla
\* ResolutionOnly): C06 judges them on consistency alone
CoT == IF "eq" \in Need THEN [i \in 1..N |-> Coarse(USeq[i])] ELSE << >>
RoT == IF "eq" \in Need
       THEN [i \in 1..N |-> [j \in 1..N |->
               /\ ~EqT[i][j] /\ (CoT[i] # USeq[i] \/ CoT[j] # USeq[j]) /\ Equal(CoT[i], CoT[j])]]
       ELSE << >>
LtT == IF "lt" \in Need
       THEN [i \in 1..N |-> [j \in 1..N |-> LessN(NT[i], NT[j])]] ELSE << >>
StT == IF "lt" \in Need
       THEN [i \in 1..N |-> [j \in 1..N |-> Stated(USeq[i], USeq[j])]] ELSE << >>
TxT == IF "tx" \in Need THEN [i \in 1..N |-> RenderN(NT[i])] ELSE << >>

Alphabet == IF Tier = 1 THEN {39, 92, 10, 9, 110, 120, 97, 52}
            ELSE {39, 92, 10, 13, 9, 110, 114, 116, 120, 97, 52, 233}

-----------------------------------------------------------------------------
VARIABLES mode, ia, ib, str
vars == <<mode, ia, ib, str>>

a == USeq[ia]
b == USeq[ib]

Init == \/ mode = "pair" /\ ia \in 1..N /\ ib = 1 /\ str = << >>
        \/ mode = "str" /\ ia = 1 /\ ib = 1 /\ str = << >>

Step == /\ mode = "pair" /\ ib < N
        /\ ib' = ib + 1
        /\ UNCHANGED <<mode, ia, str>>

Grow(c) == /\ mode = "str" /\ Len(str) < MaxStr
           /\ str' = Append(str, c)
           /\ UNCHANGED <<mode, ia, ib>>

Next == Step \/ \E c \in Alphabet : Grow(c)
Spec == Init /\ [][Next]_vars

-----------------------------------------------------------------------------
(* C06 *)
TypeOK == /\ mode \in {"pair", "str"} /\ ia \in 1..N /\ ib \in 1..N
          /\ WF(a) /\ WF(b)

EqReflexive  == EqT[ia][ia]
EqSymmetric  == EqT[ia][ib] = EqT[ib][ia]
EqTransitive == \A c \in 1..N : EqT[ia][ib] /\ EqT[ib][c] => EqT[ia][c]

\* values of different kinds are never equal (ints and decimals are one kind)
CrossKindNeverEqual == EqT[ia][ib] => (a.k = b.k \/ (IsNum(a) /\ IsNum(b)))

\* ints and decimals are equal exactly when numerically equal (stated
\* independently of NumCmp: cross multiplication / identical limbs)
IntDecNumeric ==
  IsNum(a) /\ IsNum(b) =>
    (EqT[ia][ib] <=>
       \* a fine decimal is in lowest terms and outside the small range (WF):
       \* it equals only itself
       IF IsFine(a) \/ IsFine(b) THEN a.n = b.n /\ a.s = b.s
       ELSE IF IsBig(a) \/ IsBig(b) THEN IsBig(a) /\ IsBig(b) /\ a.n = b.n /\ a.s = b.s
       ELSE a.n[1] * Abs(b.n[2]) = b.n[1] * Abs(a.n[2]))

\* y holds the entries of x in another insertion order (entries of one
\* container are pairwise different, so matching them one by one is a bijection)
IsReorderOf(x, y) ==
  /\ x.k = y.k /\ x.k \in {"set", "map"} /\ Len(x.items) = Len(y.items)
  /\ \A i \in DOMAIN y.items : \E j \in DOMAIN x.items :
        /\ y.items[i] = x.items[j]
        /\ x.k = "map" => y.vals[i] = x.vals[j]

\* sets and maps are equal regardless of insertion order (C06), and render
\* the same (C08)
OrderFree     == IsReorderOf(a, b) => EqT[ia][ib]
OrderFreeText == IsReorderOf(a, b) => TxT[ia] = TxT[ib]

\* structural equality of lists; extensional equality of sets
ListStructural ==
  a.k = "list" /\ b.k = "list" =>
    (EqT[ia][ib] <=> /\ Len(a.items) = Len(b.items)
                     /\ \A i \in DOMAIN a.items : Equal(a.items[i], b.items[i]))
SetExtensional ==
  a.k = "set" /\ b.k = "set" =>
    (EqT[ia][ib] <=> \A x \in Ran(a.items) \cup Ran(b.items) :
                        Has(a.items, x) <=> Has(b.items, x))

\* equal values are interchangeable as elements and keys
Interchangeable ==
  EqT[ia][ib] =>
    \A c \in 1..N : LET x == USeq[c] IN
      /\ x.k \in {"set", "map", "list"} => (Has(x.items, a) <=> Has(x.items, b))
      /\ x.k = "set" => Equal(SetAdd(x, a), SetAdd(x, b)) /\ Equal(SetRemove(x, a), SetRemove(x, b))
      /\ x.k = "map" => /\ MapGet(x, a) = MapGet(x, b)
                        /\ Equal(MapRemove(x, a), MapRemove(x, b))
                        /\ Equal(MapPut(x, a, VNull), MapPut(x, b, VNull))
      /\ x.k = "list" => ListFind(x, a) = ListFind(x, b)

-----------------------------------------------------------------------------
(* C07 *)
LtIrreflexive == ~LtT[ia][ia]
LtAsymmetric  == ~(LtT[ia][ib] /\ LtT[ib][ia])
Trichotomy    == LET x == IF LtT[ia][ib] THEN 1 ELSE 0
                     y == IF EqT[ia][ib] THEN 1 ELSE 0
                     z == IF LtT[ib][ia] THEN 1 ELSE 0
                 IN x + y + z = 1
LtTransitive  == \A c \in 1..N : LtT[ia][ib] /\ LtT[ib][c] => LtT[ia][c]
LtRespectsEq  == \A c \in 1..N : EqT[ia][ib] => /\ LtT[ia][c] = LtT[ib][c]
                                                /\ LtT[c][ia] = LtT[c][ib]

IsProperPrefix(x, y) == Len(x) < Len(y) /\ SubSeq(y, 1, Len(x)) = x
\* the clauses of the statement, restated independently of Less
NamedOrders ==
  /\ a.k = "bool" /\ b.k = "bool" => (LtT[ia][ib] <=> a.n[1] = 0 /\ b.n[1] = 1)
  /\ a.k = "str" /\ b.k = "str" /\ IsProperPrefix(a.s, b.s) => LtT[ia][ib]
  /\ a.k = "str" /\ b.k = "str" /\ Len(a.s) >= 1 /\ Len(b.s) >= 1 /\ a.s[1] < b.s[1] => LtT[ia][ib]
  /\ a.k = "list" /\ b.k = "list" /\ IsProperPrefix(a.items, b.items) => LtT[ia][ib]
  /\ a.k = "list" /\ b.k = "list" /\ Len(a.items) >= 1 /\ Len(b.items) >= 1
       /\ Less(a.items[1], b.items[1]) => LtT[ia][ib]
  /\ IsNum(a) /\ IsNum(b) /\ ~IsBig(a) /\ ~IsBig(b) /\ ~IsFine(a) /\ ~IsFine(b) =>
       (LtT[ia][ib] <=> a.n[1] * Abs(b.n[2]) < b.n[1] * Abs(a.n[2]))
  \* neighbouring doubles, stated on the universe's own values: 0.3 < 0.1 + 0.2,
  \* 1 - 2^-53 < 1 < 1 + 2^-52, and a fine decimal against its integral neighbours
  /\ a = F03 /\ b = F0102 => LtT[ia][ib]
  /\ a = F1dn /\ b \in {VInt(1), VDec(1, 1), F1up} => LtT[ia][ib]
  /\ a \in {VInt(1), VDec(1, 1)} /\ b = F1up => LtT[ia][ib]
  /\ a = F25up /\ b \in {VDec(-1, 1), VInt(-1), VInt(0)} => LtT[ia][ib]
  /\ a = VDec(1, 2) /\ b = F1dn => LtT[ia][ib]
  /\ a = F015 /\ b \in {F03, VDec(1, 2)} => LtT[ia][ib]
  \* chronological: by day number, then second of the day, then microsecond
  /\ a.k = "date" /\ b.k = "date" => (LtT[ia][ib] <=> SeqLess(Instant(a.s), Instant(b.s)))
  /\ StT[ia][ib] = StT[ib][ia]

\* sets and map keys are enumerated in ascending order
EnumAscending ==
  ib = 1 /\ a.k \in {"set", "map"} =>
    LET srt == NT[ia].items IN
      /\ Len(srt) = Len(a.items)
      /\ \A i \in DOMAIN srt : Has(a.items, srt[i])
      /\ \A i \in 1..(Len(srt) - 1) : LessN(srt[i], srt[i + 1])

-----------------------------------------------------------------------------
(* C08 *)
\* Same: equal, with the same kinds everywhere (1 and 1.0 differ, 0.0 and -0.0 differ)
RECURSIVE Same(_, _)
Same(x, y) ==
  /\ x.k = y.k
  /\ CASE IsNum(x) -> x.n = y.n /\ x.s = y.s
       [] x.k \in {"null", "bool", "str", "date", "pat", "ref"} -> x.n = y.n /\ x.s = y.s
       [] x.k = "list" -> /\ Len(x.items) = Len(y.items)
                          /\ \A i \in DOMAIN x.items : Same(x.items[i], y.items[i])
       [] x.k = "set" -> /\ Len(x.items) = Len(y.items)
                         /\ \A i \in DOMAIN x.items : \E j \in DOMAIN y.items : Same(x.items[i], y.items[j])
       [] x.k = "map" -> /\ Len(x.items) = Len(y.items)
                         /\ \A i \in DOMAIN x.items : \E j \in DOMAIN y.items :
                               Same(x.items[i], y.items[j]) /\ Same(x.vals[i], y.vals[j])

\* the text depends only on the value and determines it: two values have the
\* same text exactly when they are the same up to insertion order
\* (a date's text is an int numeral: dates are not data values)
RenderCanonical == Same(a, b) => TxT[ia] = TxT[ib]
RenderInjective == TxT[ia] = TxT[ib] /\ a.k # "date" /\ b.k # "date" => Same(a, b)

RenderShape ==
  LET t == TxT[ia]
      u == IF t # << >> /\ t[1] = 45 THEN Tail(t) ELSE t
  IN /\ a.k = "int" => IsIntNumeral(u)
     /\ a.k = "dec" => IsDecNumeral(u)
     /\ a.k = "str" => LET r == ScanStr(t) IN r.used = Len(t) /\ r.payload = a.s
     /\ IsNum(a) => (IsNeg(a) <=> t[1] = 45)
     /\ TokensN(NT[ia]) # << >>

\* no two adjacent brackets of nested sets / maps fuse when read back:
\* "<<" is never directly followed by "<", ">" never directly by ">>" of the parent
NoBracketFusion ==
  LET t == TxT[ia] IN
  a.k \in {"set", "map"} =>
    LET o == IF a.k = "set" THEN 2 ELSE 3 IN
      /\ Len(t) > 2 * o => t[o + 1] # 60 /\ t[Len(t) - o] # 62

\* strings: quote, then scan back
EscapeRoundTrip ==
  mode = "str" =>
    /\ \A tail \in {<< >>, <<39>>, <<97, 39>>, <<92>>} :
         LET r == ScanStr(Quote(str) \o tail) IN
           r.payload = str /\ r.used = Len(Quote(str))
    /\ \A i \in DOMAIN Escape(str) : Escape(str)[i] \notin {9, 10, 13}

-----------------------------------------------------------------------------
(* C08: numbers manufactured by natives.  "an int renders as an integer
   numeral, a decimal as a numeral with a fractional part": what a value says
   it is (type()) and the shape of its text must agree whichever native made
   the value, and the text must evaluate back to it.  Make(op, x) is what the
   documentation of the native states for the argument x: the kind of the
   result and - on the small numbers of the universe - the result itself
   (val = FALSE: only the kind is stated, e.g. for an int beyond 2^53 turned
   into a decimal).  The harness calls every native on every value for which
   ok holds and judges what comes back by its own type().                   *)
MakerOps == <<"length", "int", "decimal", "floor", "ceiling", "round", "abs", "sign", "find", "sum">>
\* natives without an argument whose result the model does not determine: the kind only
NullaryMakers == <<[op |-> "timestamp", k |-> "int"]>>

Made(v)     == [ok |-> TRUE,  k |-> v.k, val |-> TRUE,  v |-> v]
MadeKind(k) == [ok |-> TRUE,  k |-> k,   val |-> FALSE, v |-> VNull]
NoMake      == [ok |-> FALSE, k |-> "",  val |-> FALSE, v |-> VNull]

IsSmallNum(x) == IsNum(x) /\ ~IsBig(x)
Pn(x) == x.n[1]
Qn(x) == IF x.n[2] = -1 THEN 1 ELSE x.n[2]            \* negative zero counts as 0/1
FloorQ(p, q) == p \div q                               \* q > 0: \div rounds down
CeilQ(p, q)  == -((-p) \div q)
TruncQ(p, q) == IF p >= 0 THEN p \div q ELSE -((-p) \div q)
RoundQ(p, q) == LET f == p \div q                      \* a half goes to the even neighbour
                    r == p - f * q
                IN IF 2 * r < q THEN f ELSE IF 2 * r > q THEN f + 1
                   ELSE IF f % 2 = 0 THEN f ELSE f + 1
SignI(p) == IF p < 0 THEN -1 ELSE IF p > 0 THEN 1 ELSE 0

AllSmallNum(items) == \A i \in DOMAIN items : IsSmallNum(items[i])
AllInt(items)      == \A i \in DOMAIN items : items[i].k = "int"
RECURSIVE SumOver(_, _)
SumOver(items, den) == IF items = << >> THEN 0
                       ELSE Pn(Head(items)) * (den \div Qn(Head(items))) + SumOver(Tail(items), den)

\* a number rounded to an integral decimal by f (floor / ceiling / round)
Integral(f(_, _), x) ==
  IF IsSmallNum(x) THEN Made(VDec(f(Pn(x), Qn(x)), 1))
  ELSE IF IsNum(x) /\ x.k = "dec" THEN Made(x)        \* a big decimal is integral
  ELSE IF IsNum(x) THEN MadeKind("dec")                \* the nearest decimal of a big int: not modelled
  ELSE NoMake

Make(op, x) ==
  CASE op = "length" ->
         IF x.k = "str" THEN Made(VInt(Len(x.s)))
         ELSE IF x.k \in {"list", "set", "map"} THEN Made(VInt(Len(x.items))) ELSE NoMake
    [] op = "int" ->
         IF IsSmallNum(x) THEN Made(VInt(TruncQ(Pn(x), Qn(x))))
         ELSE IF IsNum(x) THEN Made(VBigInt(x.n[1], x.s)) ELSE NoMake
    [] op = "decimal" ->
         IF IsNum(x) /\ x.k = "dec" THEN Made(x)
         ELSE IF IsSmallNum(x) THEN Made(VDec(Pn(x), 1))
         ELSE IF IsNum(x) THEN MadeKind("dec") ELSE NoMake
    [] op = "floor"   -> Integral(FloorQ, x)
    [] op = "ceiling" -> Integral(CeilQ, x)
    [] op = "round"   -> Integral(RoundQ, x)
    [] op = "abs" ->
         IF IsSmallNum(x) THEN Made(IF x.k = "int" THEN VInt(Abs(Pn(x))) ELSE VDec(Abs(Pn(x)), Qn(x)))
         ELSE IF IsNum(x) THEN Made(IF x.k = "int" THEN VBigInt(1, x.s) ELSE VBigDec(1, x.s)) ELSE NoMake
    [] op = "sign" ->
         IF IsNum(x) THEN Made(VInt(SignI(Pn(x)))) ELSE NoMake
    [] op = "find" ->                  \* find(x, last element of x): the first position holding an Equal one
         IF x.k = "list" /\ x.items # << >> THEN Made(VInt(ListFind(x, x.items[Len(x.items)]))) ELSE NoMake
    [] op = "sum" ->
         IF x.k = "list" /\ AllSmallNum(x.items)
         THEN Made(IF AllInt(x.items) THEN VInt(SumOver(x.items, 1)) ELSE VDec(SumOver(x.items, 1024), 1024))
         ELSE NoMake

Unsigned(t) == IF t # << >> /\ t[1] = 45 THEN Tail(t) ELSE t

\* whatever a native makes is a well-formed number of the stated kind whose
\* text has the shape of that kind
MakerShape ==
  mode = "pair" /\ ib = 1 =>
    \A j \in DOMAIN MakerOps : LET r == Make(MakerOps[j], a) IN
      /\ r.ok => r.k \in {"int", "dec"}
      /\ r.ok /\ r.val =>
           /\ WF(r.v) /\ r.v.k = r.k
           /\ r.k = "int" => IsIntNumeral(Unsigned(Render(r.v)))
           /\ r.k = "dec" => IsDecNumeral(Unsigned(Render(r.v)))

\* the makers among themselves, on the small numbers
MakerLaws ==
  mode = "pair" /\ ib = 1 /\ IsSmallNum(a) =>
    LET fl == Make("floor", a).v   ce == Make("ceiling", a).v
        ro == Make("round", a).v   tr == Make("int", a).v IN
    /\ NumCmp(fl, a) <= 0 /\ NumCmp(a, ce) <= 0
    /\ Pn(ce) - Pn(fl) \in {0, 1}
    /\ (Pn(ce) = Pn(fl)) <=> Equal(fl, a)                   \* integral already
    /\ Equal(ro, fl) \/ Equal(ro, ce)
    /\ Equal(tr, fl) \/ Equal(tr, ce)
    /\ Abs(Pn(tr)) <= Abs(Pn(fl)) /\ Abs(Pn(tr)) <= Abs(Pn(ce))        \* toward zero
    /\ Equal(Make("int", Make("decimal", a).v).v, tr)
    /\ a.k = "int" => Equal(Make("decimal", a).v, a) /\ Make("decimal", a).v.k = "dec"
    /\ Equal(Make("abs", a).v, a) \/ Pn(a) < 0
    /\ NumCmp(Make("abs", a).v, VInt(0)) >= 0

-----------------------------------------------------------------------------
(* C08: the entry points through which a program obtains the text of a value.
   The statement observes "str(value) / string(v)": the renderer (__repr__)
   is one of several paths; string(v), the concatenation with a string,
   interpolation by s(), join() and print() go through the conversion
   (asString) of the value's class.  For booleans, ints, decimals, dates,
   lists, sets and maps every path must give THE text form (RenderVia(ob, v)
   = Render(v): "the text form of a value depends only on the value", and the
   numeral shapes hold whichever path produced the text).  For a string, NULL
   and a pattern the conversion is documented to be the payload / the empty
   string / the payload: stated = FALSE, compared as drift only.
   RenderVia(ob, v) = [ok: the observer is defined on v, stated, txt].        *)
RenderObservers == <<"string", "concat", "concat-left", "interp", "join", "print", "println", "elem">>

RenderConv(v) == CASE v.k = "str"  -> v.s
                   [] v.k = "null" -> << >>
                   [] v.k = "pat"  -> v.s
                   [] OTHER        -> Render(v)
RenderAtomic(v)  == v.k \in {"bool", "int", "dec", "str", "date", "pat"}     \* '' + NULL is NULL
RenderStated(v)  == v.k \in {"bool", "int", "dec", "date", "list", "set", "map"}
RECURSIVE RenderHasRef(_)
RenderHasRef(v) == \/ v.k = "ref"
                   \/ \E i \in DOMAIN v.items : RenderHasRef(v.items[i])
                   \/ \E i \in DOMAIN v.vals : RenderHasRef(v.vals[i])

RenderVia(ob, v) ==
  LET no == [ok |-> FALSE, stated |-> FALSE, txt |-> << >>]
      cv == [ok |-> TRUE, stated |-> RenderStated(v), txt |-> RenderConv(v)]
  IN IF RenderHasRef(v) THEN no                       \* streams have no text form the statement names
     ELSE CASE ob \in {"string", "interp", "join", "print"} -> cv
            [] ob \in {"concat", "concat-left"} -> IF RenderAtomic(v) THEN cv ELSE no
            [] ob = "println" -> [cv EXCEPT !.txt = @ \o <<10>>]
            [] ob = "elem" -> [ok |-> TRUE, stated |-> TRUE, txt |-> Render(v)]   \* string([v]) without the brackets

\* whichever path: one text, of the shape the statement names for the kind
RenderObserverFree ==
  mode = "pair" /\ ib = 1 =>
    \A j \in DOMAIN RenderObservers :
      LET r == RenderVia(RenderObservers[j], a)
          t == IF RenderObservers[j] = "println" /\ r.ok THEN SubSeq(r.txt, 1, Len(r.txt) - 1) ELSE r.txt
      IN r.ok /\ r.stated =>
           /\ t = TxT[ia]
           /\ a.k = "int" => IsIntNumeral(Unsigned(t))
           /\ a.k = "dec" => IsDecNumeral(Unsigned(t))
\* the conversion is the text form exactly for the stated kinds: that of a
\* string, NULL or a pattern is never its text form (quotes / NULL / slashes)
RenderConvUnstated ==
  mode = "pair" /\ ib = 1 /\ a.k \in {"str", "null", "pat"} => RenderConv(a) # TxT[ia]

-----------------------------------------------------------------------------
(* Export for binding A: the universe with its text, tokens and whether its
   enumeration order is stated; one row of the pair table per value. *)
Emit(tag, rec) == IF Export THEN PrintT("@@" \o tag \o "@@" \o ToJson(rec)) ELSE TRUE

ExportU ==
  mode = "pair" /\ ib = 1 =>
    Emit("UVAL", [i |-> ia, n |-> N, v |-> a, os |-> OrderStated(a)])
ExportEq ==
  mode = "pair" /\ ib = 1 => Emit("EQ", [i |-> ia, eq |-> EqT[ia], ro |-> RoT[ia]])
ExportLt ==
  mode = "pair" /\ ib = 1 =>
    Emit("LT", [i |-> ia, lt |-> LtT[ia], st |-> StT[ia],
                srt |-> IF a.k \in {"set", "map"} THEN NT[ia].items ELSE << >>])
ExportTx ==
  mode = "pair" /\ ib = 1 => Emit("TX", [i |-> ia, txt |-> TxT[ia], toks |-> TokensN(NT[ia])])
ExportMk ==
  mode = "pair" /\ ib = 1 =>
    Emit("MK", [i |-> ia, nullary |-> NullaryMakers,
                mk |-> [j \in DOMAIN MakerOps |->
                          LET r == Make(MakerOps[j], a) IN
                          [op |-> MakerOps[j], ok |-> r.ok, k |-> r.k, val |-> r.val, v |-> r.v,
                           txt |-> IF r.val THEN Render(r.v) ELSE << >>]]])
ExportVia ==
  mode = "pair" /\ ib = 1 =>
    Emit("VIA", [i |-> ia,
                 via |-> [j \in DOMAIN RenderObservers |->
                            LET r == RenderVia(RenderObservers[j], a) IN
                            [ob |-> RenderObservers[j], ok |-> r.ok, stated |-> r.stated, txt |-> r.txt]]])

=============================================================================
