----------------------------- MODULE DateArith -----------------------------
(* C17 - "adding or subtracting n days moves a date by n calendar days".

   A second, small machine: from a base date it walks the calendar one
   NextDay / PrevDay at a time, counting the steps in k.  So `cur` is, by
   construction, the date k calendar days from `base`.  The invariants say
   that the day-number arithmetic of DateOps (what `date + k`, `date - k`
   and `date - date` are specified to compute) lands on exactly that date:

     AddLaw    AddDays(base, k) = cur
     BackLaw   AddDays(cur, -k) = base             (d + k) - k = d
     DiffLaw   DiffDays(cur, base) = k             (d + k) - d = k

   Bases: for every year of `Years` the first and last three days, and the
   days around the end of February; walks go K days forward and backward
   (K > 366 so every walk crosses a year end and a February).  Mirrors
   functions.py FuncAdd / FuncSub date branches: to_date(to_oa_date(a) +- b)
   and to_oa_date(a) - to_oa_date(b).                                       *)
EXTENDS DateOps, TLC, Json, IOUtils

CONSTANTS Years,    \* set of years whose boundary days are bases
          K,        \* walk length in days, each direction
          Export

VARIABLES base, cur, k
vars == <<base, cur, k>>

Emit(tag, rec) == IF Export THEN PrintT("@@" \o tag \o "@@" \o ToJson(rec)) ELSE TRUE

QuickYears == {1900, 1901, 1904, 1969, 1970, 1971, 1999, 2000, 2001, 2020, 2021,
               2100, 2400, 9999}

ThoroughYears == (1900..1912) \cup (1966..1974) \cup (1996..2004) \cup (2019..2030)
                 \cup (2096..2104) \cup (2396..2404) \cup (9990..9999)
                 \cup {1900 + 291 * i : i \in 0..27}

BasesOf(yy) == {<<yy, 1, 1>>, <<yy, 1, 2>>, <<yy, 2, 28>>, <<yy, 3, 1>>,
                <<yy, 12, 30>>, <<yy, 12, 31>>}

Num(dt) == DayNumber(dt[1], dt[2], dt[3])

Init == /\ base \in UNION {BasesOf(yy) : yy \in Years}
        /\ cur = base
        /\ k = 0

Fwd == /\ k >= 0 /\ k < K
       /\ InRange(Num(cur) + 1)
       /\ cur' = NextDay(cur[1], cur[2], cur[3])
       /\ k' = k + 1
       /\ UNCHANGED base

Bwd == /\ k <= 0 /\ k > 0 - K
       /\ InRange(Num(cur) - 1)
       /\ cur' = PrevDay(cur[1], cur[2], cur[3])
       /\ k' = k - 1
       /\ UNCHANGED base

Next == Fwd \/ Bwd

Spec == Init /\ [][Next]_vars

TypeOK == /\ ValidDate(base[1], base[2], base[3])
          /\ ValidDate(cur[1], cur[2], cur[3])
          /\ k \in (0 - K)..K

AddLaw  == AddDays(base, k) = cur
BackLaw == AddDays(cur, 0 - k) = base
DiffLaw == DiffDays(cur, base) = k /\ DiffDays(base, cur) = 0 - k
\* PrevDay undoes NextDay (the backward walk is a calendar walk too)
StepLaw == /\ InRange(Num(cur) + 1) =>
               LET nx == NextDay(cur[1], cur[2], cur[3]) IN PrevDay(nx[1], nx[2], nx[3]) = cur
           /\ InRange(Num(cur) - 1) =>
               LET pv == PrevDay(cur[1], cur[2], cur[3]) IN NextDay(pv[1], pv[2], pv[3]) = cur

\* cases for the harness: every (base, k) pair with the date it must reach
ExportArith ==
  (k # 0 /\ (k % 14 = 0 \/ k \in {1, -1} \/ k = K \/ k = 0 - K \/ cur[3] = 1 \/ (cur[2] = 12 /\ cur[3] = 31))) =>
     Emit("ARITH", [b |-> base, k |-> k, e |-> cur, nb |-> Num(base), ne |-> Num(cur)])
=============================================================================
