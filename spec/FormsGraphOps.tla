---------------------------- MODULE FormsGraphOps ----------------------------
(* C13, round 2 - values as graphs.

   FormsOps treats a pool value as a finite tree (a kind and a length).  The
   collections of the language are mutable and shared, so a short program can
   build data that is finite but is not a tree:
     - a list, set, map or object that holds itself, directly or through a
       second collection (append(l, l); m['k'] = m; o->self = o),
     - an object whose `_proto_` chain leads back into itself,
     - a set member / map key that was changed after it was put in (its hash
       no longer names the bucket it sits in).
   The statement of C13 quantifies over "whatever values a program feeds" to
   a form or function, and demands termination with a value or the language's
   runtime error "on finite data": all three shapes are finite data.

   This module holds the reference operators: the heap of cells such a
   program builds (Apply), the traversals the interpreter performs on it
   (Walk = structural recursion bounded by the host's stack, Lookup = the walk
   along `_proto_`), and per observer the allowed outcome class.  FormsGraph
   enumerates every program of the family; Natives_Trace re-derives the heap
   of each executed program from its recorded steps.                         *)
EXTENDS Naturals, Sequences, FiniteSets, TLC

CellKinds == <<"list", "set", "map", "object">>
KindIx(k) == CHOOSE i \in 1..4 : CellKinds[i] = k

(* A cell is a collection bound to a variable (a, b, c).  An edge x -lab-> y
   says cell x holds cell y: as list item, set member, map value (under the
   key 'k'), map key, object member `f`, or as the object's `_proto_`.
   stale = pairs <<holder, held>> where held sits in holder as set member or
   map key and has been changed since.                                       *)
Edge(x, lab, y) == [x |-> x, lab |-> lab, y |-> y]
EmptyHeap(kinds) == [kind |-> kinds, E |-> {}, stale |-> {}]
NCellsOf(h) == Len(h.kind)
Fuel(h) == NCellsOf(h) + 1        \* deeper than any path of distinct cells

RenderLabels == {"item", "member", "value", "key", "field"}      \* `_proto_` is not rendered
HashLabels == RenderLabels \cup {"proto"}                        \* but it is hashed and compared
Labels(m) == IF m = "render" THEN RenderLabels ELSE HashLabels
Kids(h, m, x) == {e.y : e \in {d \in h.E : d.x = x /\ d.lab \in Labels(m)}}
Held(h, x, lab) == {e.y : e \in {d \in h.E : d.x = x /\ d.lab = lab}}

RECURSIVE ReachN(_, _, _, _)
ReachN(h, m, S, n) == IF n = 0 THEN S
                      ELSE ReachN(h, m, S \cup UNION {Kids(h, m, x) : x \in S}, n - 1)
Below(h, m, x) == ReachN(h, m, Kids(h, m, x), NCellsOf(h))     \* reachable in one or more steps
OnCycle(h, m, y) == y \in Below(h, m, y)
CycleReachable(h, m, x) == \E y \in {x} \cup Below(h, m, x) : OnCycle(h, m, y)

-----------------------------------------------------------------------------
(* The steps of a program: [op, x, y].  Every step changes cell x.           *)
StepOps == {"append", "add", "putval", "putkey", "field", "proto", "grow"}
Step(op, x, y) == [op |-> op, x |-> x, y |-> y]

OpKind(op) == CASE op = "append" -> {"list"}
                [] op = "add" -> {"set"}
                [] op \in {"putval", "putkey"} -> {"map"}
                [] op \in {"field", "proto"} -> {"object"}
                [] op = "grow" -> {"list", "set", "map", "object"}
OpLabel(op) == CASE op = "append" -> "item" [] op = "add" -> "member"
                 [] op = "putval" -> "value" [] op = "putkey" -> "key"
                 [] op = "field" -> "field" [] op = "proto" -> "proto"
                 [] OTHER -> "none"
Replaces(op) == op \in {"putval", "field", "proto"}      \* one slot: the old edge goes

WellFormed(h, s) == /\ s.x \in 1..NCellsOf(h) /\ s.y \in 1..NCellsOf(h)
                    /\ h.kind[s.x] \in OpKind(s.op)
                    /\ (s.op = "grow" => s.y = s.x)

\* holders whose hashed entry is (or holds) the changed cell x
Outdated(h, x) == {<<e.x, e.y>> : e \in {d \in h.E : /\ d.lab \in {"member", "key"}
                                                      /\ (d.y = x \/ x \in Below(h, "hash", d.y))}}

Apply(h, s) ==
  LET lab == OpLabel(s.op)
      kept == IF Replaces(s.op) THEN {d \in h.E : ~(d.x = s.x /\ d.lab = lab)} ELSE h.E
      E2 == IF s.op = "grow" THEN h.E ELSE kept \cup {Edge(s.x, lab, s.y)}
  IN [kind |-> h.kind, E |-> E2, stale |-> h.stale \cup Outdated(h, s.x)]

RECURSIVE HeapOf(_, _, _)
HeapOf(kinds, steps, n) == IF n = 0 THEN EmptyHeap(kinds)
                           ELSE Apply(HeapOf(kinds, steps, n - 1), steps[n])

-----------------------------------------------------------------------------
(* The traversals.
   Walk: rendering, hashing and comparing a collection recurse into what it
   holds; nothing remembers the cells already entered, the only bound is the
   host's stack.  Using it up is reported (after the round-2 repair) as the
   runtime error 'Recursion too deep': outcome class "error".               *)
RECURSIVE Walk(_, _, _, _)
Walk(h, m, x, fuel) ==
  IF fuel = 0 THEN "error"
  ELSE IF \E y \in Kids(h, m, x) : Walk(h, m, y, fuel - 1) = "error" THEN "error" ELSE "value"

(* Lookup: the walk along `_proto_` for a member no object of the chain has
   (NodeDeref, NodeDerefInvoke, ValueObject.resolveItem).  `seen` is the set
   of objects already searched; "stuck" = the loop has not ended within the
   bound.  LookupOld is the loop without `seen` (the code before round 2).   *)
RECURSIVE Lookup(_, _, _, _)
Lookup(h, x, seen, fuel) ==
  IF fuel = 0 THEN "stuck"
  ELSE IF Held(h, x, "proto") = {} THEN "notfound"
  ELSE LET p == CHOOSE y \in Held(h, x, "proto") : TRUE IN
       IF h.kind[p] # "object" \/ p \in seen THEN "notfound"
       ELSE Lookup(h, p, seen \cup {p}, fuel - 1)
RECURSIVE LookupOld(_, _, _)
LookupOld(h, x, fuel) ==
  IF fuel = 0 THEN "stuck"
  ELSE IF Held(h, x, "proto") = {} THEN "notfound"
  ELSE LET p == CHOOSE y \in Held(h, x, "proto") : TRUE IN
       IF h.kind[p] # "object" THEN "notfound" ELSE LookupOld(h, p, fuel - 1)
\* the `_proto_` chain of x as far as it consists of objects
RECURSIVE Chain(_, _, _)
Chain(h, x, n) == IF n = 0 \/ Held(h, x, "proto") = {} THEN {x}
                  ELSE LET p == CHOOSE y \in Held(h, x, "proto") : TRUE IN
                       IF h.kind[p] # "object" THEN {x} ELSE {x} \cup Chain(h, p, n - 1)
\* the chain of x never leaves the objects and never ends
ChainLoops(h, x) ==
  \A y \in Chain(h, x, NCellsOf(h)) :
     \E p \in Held(h, y, "proto") : h.kind[p] = "object"

\* iteration over a set / a map starts by sorting the members / the keys;
\* values that are no numbers are ordered by their rendering
Sorted(h, x) == IF h.kind[x] = "set" THEN Held(h, x, "member")
                ELSE IF h.kind[x] = "map" THEN Held(h, x, "key") ELSE {}
Iterate(h, x) == IF \E y \in Sorted(h, x) : Walk(h, "render", y, Fuel(h)) = "error"
                 THEN "error" ELSE "value"

-----------------------------------------------------------------------------
(* The observers: [name, x, y] (y = x for the unary ones).  Outcome class
   "value" | "error"; "any" = the property allows both and the model does not
   say which; "stuck" = a traversal does not end (a host exception or a hang
   in the implementation).                                                   *)
UnaryObs == {"render", "hash", "member", "invoke", "iterate", "iter_grow"}
PairObs == {"equal", "less", "contains", "add", "putkey"}
Obs(name, x, y) == [name |-> name, x |-> x, y |-> y]
ObsOK(h, o) == /\ o.x \in 1..NCellsOf(h) /\ o.y \in 1..NCellsOf(h)
               /\ (o.name \in UnaryObs => o.y = o.x)
               /\ (o.name = "add" => h.kind[o.x] = "set")
               /\ (o.name = "putkey" => h.kind[o.x] = "map")

Ends(h, x) == h.kind[x] # "object" \/ Lookup(h, x, {x}, Fuel(h)) # "stuck"

PredG(h, o) ==
  CASE o.name = "render" -> IF ~Ends(h, o.x) THEN "stuck"          \* an object is asked for `_str_`
                            ELSE Walk(h, "render", o.x, Fuel(h))
    [] o.name = "hash" -> Walk(h, "hash", o.x, Fuel(h))
    [] o.name \in {"add", "putkey"} -> Walk(h, "hash", o.y, Fuel(h))
    [] o.name = "member" -> IF ~Ends(h, o.x) THEN "stuck"
                            ELSE IF h.kind[o.x] = "object" THEN "value" ELSE "error"
    [] o.name = "invoke" -> IF ~Ends(h, o.x) THEN "stuck" ELSE "error"
    [] o.name \in {"iterate", "iter_grow"} -> Iterate(h, o.x)
    [] o.name \in {"equal", "less", "contains"} -> "any"
    [] OTHER -> "stuck"

\* what the case exercises (coverage of the three shapes)
HasCycle(h, o) == CycleReachable(h, "hash", o.x) \/ CycleReachable(h, "hash", o.y)
HasProtoLoop(h, o) == \E x \in {o.x, o.y} : h.kind[x] = "object" /\ ChainLoops(h, x)
HasStale(h, o) == \E p \in h.stale : p[1] \in {o.x, o.y} \cup Below(h, "hash", o.x) \cup Below(h, "hash", o.y)

-----------------------------------------------------------------------------
(* program text *)
Names == <<"a", "b", "c">>
Atom(i) == ToString(i)
InitText(k, i) ==
  "def " \o Names[i] \o " = " \o
  (CASE k = "list" -> "[" \o Atom(i) \o "]"
     [] k = "set" -> "<<" \o Atom(i) \o ">>"
     [] k = "map" -> "<<<'k0' => " \o Atom(i) \o ">>>"
     [] k = "object" -> "<*m0 = " \o Atom(i) \o "*>") \o "; "
\* one more atom in cell x, never one it holds already
GrowText(k, x) ==
  CASE k \in {"list", "set"} -> "append(" \o x \o ", length(" \o x \o ") + 10)"
    [] k = "map" -> x \o "[length(" \o x \o ") + 10] = 9"
    [] k = "object" -> x \o "['g' + length(" \o x \o ")] = 9"
StepText(h, s) ==
  LET x == Names[s.x]  y == Names[s.y] IN
  CASE s.op \in {"append", "add"} -> "append(" \o x \o ", " \o y \o ")"
    [] s.op = "putval" -> x \o "['k'] = " \o y
    [] s.op = "putkey" -> x \o "[" \o y \o "] = 1"
    [] s.op = "field" -> x \o "->f = " \o y
    [] s.op = "proto" -> x \o "['_proto_'] = " \o y
    [] s.op = "grow" -> GrowText(h.kind[s.x], x)
ObsText(h, o) ==
  LET x == Names[o.x]  y == Names[o.y] IN
  CASE o.name = "render" -> "string(" \o x \o ")"
    [] o.name = "hash" -> "<<" \o x \o ">>"
    [] o.name = "member" -> x \o "->zz"
    [] o.name = "invoke" -> x \o "->zz()"
    [] o.name = "iterate" -> "for v in " \o x \o " do v end"
    [] o.name = "iter_grow" ->
         "for v in " \o x \o " do " \o GrowText(h.kind[o.x], x) \o
         (IF h.kind[o.x] = "list" THEN "; if length(" \o x \o ") > 6 then break" ELSE "") \o " end"
    [] o.name = "equal" -> x \o " == " \o y
    [] o.name = "less" -> x \o " < " \o y
    [] o.name = "contains" -> y \o " in " \o x
    [] o.name = "add" -> "append(" \o x \o ", " \o y \o ")"
    [] o.name = "putkey" -> x \o "[" \o y \o "] = 1"

RECURSIVE InitsText(_, _)
InitsText(kinds, n) == IF n = 0 THEN "" ELSE InitsText(kinds, n - 1) \o InitText(kinds[n], n)
RECURSIVE StepsText(_, _, _)
StepsText(kinds, steps, n) ==
  IF n = 0 THEN "" ELSE StepsText(kinds, steps, n - 1) \o StepText(EmptyHeap(kinds), steps[n]) \o "; "
ProgramText(kinds, steps, o) ==
  InitsText(kinds, Len(kinds)) \o StepsText(kinds, steps, Len(steps)) \o ObsText(EmptyHeap(kinds), o)
=============================================================================
