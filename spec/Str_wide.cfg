CONSTANTS
  Sym = {9, 10, 32, 34, 39, 40, 43, 44, 46, 65, 92, 97, 123, 124, 125, 233}
  MaxS = 2
  MaxT = 2
  Export = TRUE
SPECIFICATION Spec
INVARIANT TypeOK
INVARIANT ReplaceInv
INVARIANT ReplaceResult
INVARIANT JoinInv
INVARIANT SplitJoin
INVARIANT ReverseResult
INVARIANT Laws
INVARIANT TemplateLaw
INVARIANT ExportCase
PROPERTY ReplaceProgress
CHECK_DEADLOCK FALSE
