------------------------------- MODULE Repl -------------------------------
(* The read-eval-print loop (src/ckl/repl.py) on top of the parser automaton
   of Parser.tla.  C01 anchors it ("REPL line continuation keys on the
   'Unexpected end of input' message"): the loop parses the buffer after every
   line; an `Unexpected end of input` syntax error - and, in the code, ANY
   other exception of the parser - makes it ask for another line, which it
   appends to the buffer; a program is evaluated, another syntax error is
   printed, and the buffer starts afresh.  A parser that fails with a host
   exception therefore turns into a session that asks for more input for ever:
   the "hang" of the property, seen from the keyboard.

   The model types token classes (action Type) into the incremental parser
   configuration `c` of Parser.tla - the buffer - and presses return (action
   Enter): the verdict is that of the parser on the buffer followed by end of
   input (all data-dependent branches resolved both ways: Finals).  What the
   loop does with the verdict is the transcription of repl.py:

       eof      -> prompt "+", the buffer is kept
       accept   -> evaluate (unless the buffer is the single token `;`), prompt ">"
       syntax   -> print the message, prompt ">"

   Checked here: the loop asks for more only while the parser was really
   waiting for a token at the end of the buffer (MoreOnlyWhenWaiting: the
   session-level reading of EofOnlyAtEnd), every Enter leaves the loop at a
   prompt, and after a verdict other than `eof` the buffer is empty.
   Exported (@@REPL@@): every Enter with the buffer, the line breaks so far and
   the verdict; harness/c01.py replays the line sequences into the real
   ckl.repl.main() and compares the prompts.                                  *)
EXTENDS ParserMC

VARIABLES brk,      \* token counts at which return was pressed since the buffer was started
          prompt,   \* ">" | "+"
          last      \* what the last Enter did: [v |-> "none" | "more" | "eval" | "skip" | "syntax", at |-> errAt]
rvars == <<c, brk, prompt, last>>

\* token classes typed in this model (small: the product with line breaks is explored exhaustively)
SigRepl == {T("int","1"), T("identifier","x")} \cup KWS({"def","do","end","if","then","else","fn","while","for","in"})
           \cup OPS({"=","+"}) \cup IPS({"(",")",";","[","]",","}) \cup IDS({"starts","with"})

\* every way the parser can end on configuration k once the input has ended
RECURSIVE Finals(_)
Finals(k) == IF k.status # "run" THEN {k}
             ELSE IF Ins_(k).op = "choice" THEN Finals(Run(StepF(k, TRUE))) \cup Finals(Run(StepF(k, FALSE)))
             ELSE {}                                   \* cannot be blocked: the end of input is decided
AtEnd(k) == IF k.status = "run" THEN Finals(Run([k EXCEPT !.eof = TRUE])) ELSE {k}

LineStart == IF brk = << >> THEN 0 ELSE brk[Len(brk)]

RInit == c = Run(Init0) /\ brk = << >> /\ prompt = ">" /\ last = [v |-> "none", at |-> 0]

\* a token is typed; once the parser has stopped, the rest of the line is typed all the same
Type(t) == /\ Len(c.toks) < MaxTok
           /\ \/ c.status = "run" /\ Blocked(c) /\ c' = Run([c EXCEPT !.toks = Append(@, t)])
              \/ c.status # "run" /\ c' = [c EXCEPT !.toks = Append(@, t)]
           /\ UNCHANGED <<brk, prompt, last>>

RPick == /\ c.status = "run" /\ ~Blocked(c) /\ Ins_(c).op = "choice"
         /\ \E b \in BOOLEAN : c' = Run(StepF(c, b))
         /\ UNCHANGED <<brk, prompt, last>>

RRec(f, v) == [toks |-> c.toks, brk |-> Append(brk, Len(c.toks)), v |-> v, at |-> f.errAt]

Enter == /\ Len(c.toks) > LineStart                       \* a non-empty line
         /\ ~(c.status = "run" /\ ~Blocked(c))           \* branches are resolved first
         /\ \E f \in AtEnd(c) :
              /\ f.status \in {"eof", "accept", "syntax"}
              /\ LET v == CASE f.status = "eof" -> "more"
                            [] f.status = "syntax" -> "syntax"
                            [] c.toks = <<T("interpunction", ";")>> -> "skip"
                            [] OTHER -> "eval"
                 IN /\ (Export => PrintT("@@REPL@@" \o ToJson(RRec(f, v))))
                    /\ last' = [v |-> v, at |-> f.errAt]
                    /\ IF v = "more"
                       THEN /\ prompt' = "+" /\ c' = c /\ brk' = Append(brk, Len(c.toks))
                       ELSE /\ prompt' = ">" /\ c' = Run(Init0) /\ brk' = << >>

RNext == (\E t \in SigRepl : Type(t)) \/ RPick \/ Enter
RSpec == RInit /\ [][RNext]_rvars

\* the loop asks for more only while the parser is waiting for a token at the end of the buffer
MoreOnlyWhenWaiting == [][last'.v = "more" /\ last' # last => (c.status = "run" /\ Blocked(c))]_rvars
\* ... so a pending continuation always sits on a viable prefix
PlusMeansViable == prompt = "+" => (brk # << >> /\ (Len(c.toks) = LineStart => c.status = "run"))
\* a verdict other than `more` empties the buffer
FreshAfterVerdict == [][(last' # last /\ last'.v \in {"eval", "skip", "syntax"})
                        => (c'.toks = << >> /\ brk' = << >> /\ prompt' = ">")]_rvars
RTypeOK == /\ prompt \in {">", "+"} /\ last.v \in {"none", "more", "eval", "skip", "syntax"}
           /\ c.status \in {"run", "accept", "syntax", "eof", "deep", "stuck"}
=============================================================================
