------------------------------ MODULE StrNum ------------------------------
(* C18 - the number formats of s / sprintf:  #.d  (rounded to d digits behind
   the point) and  #x  (base 16), on negative numbers and on integers of any
   size.

   Numbers are digit sequences (StrOps.tla), so nothing depends on the 32-bit
   integers of TLC.  Init picks either a decimal numeral (-)ip.fp with a
   number of digits d, or an integer; the machine then works as one does on
   paper:

     rounding   Cut     drop the digits behind position d and look at them
                Carry   add one to the digits kept, from the right, while
                        the digit is 9
     base 16    HexStep divide the digit sequence by 16, the remainder is
                        the next digit from the right

   The invariants say that the machines compute the reference operators
   RoundNum / HexOfDigits of StrOps.tla (which Str_Trace.tla uses to judge
   what the implementation returned), that RoundNum is the nearest numeral
   (checked with integer arithmetic on these small numbers, and against the
   second definition RoundUnits), that the sign plays no part, that reading a
   numeral back (ParseNum, also with an exponent) gives the same number, and
   that base 16 converted back gives the integer.  Every case is exported;
   the harness evaluates  s('{v#.d}')  /  s('{n#x}')  on it and has the
   observation validated by Str_Trace.tla. *)
EXTENDS StrOps, TLC, Json, IOUtils

CONSTANTS IPn,     \* integer parts (small naturals)
          FD,      \* digits of the fraction
          MaxF,    \* length of the fraction
          MaxD,    \* d in 0..MaxD
          HexN,    \* integers -HexN..HexN under #x
          Export

FPs == UNION {[1..k -> FD] : k \in 0..MaxF}

\* integers beyond 2^31, 2^53 and 2^64 (digit values)
Bigs == { <<2,1,4,7,4,8,3,6,4,8>>,                           \* 2^31
          <<4,2,9,4,9,6,7,2,9,5>>,                           \* 2^32 - 1
          <<9,0,0,7,1,9,9,2,5,4,7,4,0,9,9,3>>,               \* 2^53 + 1
          <<1,8,4,4,6,7,4,4,0,7,3,7,0,9,5,5,1,6,1,5>>,       \* 2^64 - 1
          <<1,8,4,4,6,7,4,4,0,7,3,7,0,9,5,5,1,6,1,6>>,       \* 2^64
          <<1,0,0,0,0,0,0,0,0,0,0,0,0,0,0,0,0,0,0,0,0,0,0,0,0>>,   \* 10^24
          <<3,4,0,2,8,2,3,6,6,9,2,0,9,3,8,4,6,3,4,6,3,3,7,4,6,0,7,4,3,1,7,6,8,2,1,1,4,5,5>> } \* 2^128 - 1

VARIABLES kind,            \* "round" or "hex"
          neg, ip, fp, d,  \* the numeral and the number of digits (round); hex: ip = the integer
          pc,              \* "cut", "carry", "hex", "done"
          work, i,         \* round: digits kept, carry position; hex: what is left to divide
          hx               \* hex: the digits found so far

vars == <<kind, neg, ip, fp, d, pc, work, i, hx>>

Init ==
  \/ /\ kind = "round" /\ neg \in BOOLEAN
     /\ ip \in {DigitSeqOf(n) : n \in IPn} /\ fp \in FPs /\ d \in 0..MaxD
     /\ ~IsTie(fp, d)
     /\ pc = "cut" /\ work = << >> /\ i = 0 /\ hx = << >>
  \/ /\ kind = "hex" /\ neg \in BOOLEAN
     /\ ip \in {DigitSeqOf(n) : n \in 0..HexN} \cup Bigs
     /\ fp = << >> /\ d = 0
     /\ pc = "hex" /\ work = ip /\ i = 0 /\ hx = << >>

Keep == ip \o Take(fp, d)          \* the digits in front of the cut
FracLen == IF Len(fp) <= d THEN Len(fp) ELSE d

Cut ==
  /\ pc = "cut"
  /\ IF Len(fp) <= d
     THEN /\ work' = ip \o fp /\ pc' = "done" /\ i' = 0
     ELSE LET cut == Drop(fp, d)
              up  == cut[1] > 5 \/ (cut[1] = 5 /\ \E j \in 2..Len(cut) : cut[j] # 0)
          IN /\ work' = Keep /\ i' = Len(Keep)
             /\ pc' = IF up THEN "carry" ELSE "done"
  /\ UNCHANGED <<kind, neg, ip, fp, d, hx>>

Carry ==
  /\ pc = "carry"
  /\ IF i = 0 THEN /\ work' = <<1>> \o work /\ pc' = "done" /\ i' = 0
     ELSE IF work[i] = 9 THEN /\ work' = [work EXCEPT ![i] = 0] /\ i' = i - 1 /\ pc' = "carry"
     ELSE /\ work' = [work EXCEPT ![i] = work[i] + 1] /\ pc' = "done" /\ i' = i
  /\ UNCHANGED <<kind, neg, ip, fp, d, hx>>

HexStep ==
  /\ pc = "hex" /\ work # <<0>>
  /\ LET dm == DivSmall(work, 16, 0)
     IN /\ hx' = <<DigitCh(dm.r)>> \o hx /\ work' = StripZ(dm.q)
  /\ UNCHANGED <<kind, neg, ip, fp, d, pc, i>>

HexDone ==
  /\ pc = "hex" /\ work = <<0>>
  /\ hx' = (IF hx = << >> THEN <<48>> ELSE hx) /\ pc' = "done"
  /\ UNCHANGED <<kind, neg, ip, fp, d, work, i>>

Next == Cut \/ Carry \/ HexStep \/ HexDone

Spec == Init /\ [][Next]_vars

-----------------------------------------------------------------------------
Result == [neg |-> neg, ip |-> Take(work, Len(work) - FracLen),
           fp |-> Drop(work, Len(work) - FracLen)]

TypeOK == /\ pc \in {"cut", "carry", "hex", "done"}
          /\ IsDigitSeq(work) /\ i \in 0..Len(work)

\* while the carry travels: what was added so far plus the carry is one
CarryInv ==
  pc = "carry" => SeqVal(work) + Pow10(Len(work) - i) = SeqVal(Keep) + 1

RoundMachine ==
  (kind = "round" /\ pc = "done") => Result = RoundNum(neg, ip, fp, d)

\* the result is the nearest numeral with d digits: in units of 10^-sc the
\* distance to the number is less than half a unit of 10^-d; and the second
\* definition (RoundUnits) gives the same
RoundNearest ==
  (kind = "round" /\ pc = "done") =>
     LET sc == Len(fp)
         M  == SeqVal(ip \o fp)
         U  == SeqVal(work)
     IN IF sc <= d THEN U = M /\ RoundUnits(M, sc, d) = U * Pow10(d - sc)
        ELSE /\ U = RoundUnits(M, sc, d)
             /\ LET diff == U * Pow10(sc - d) - M
                IN (IF diff < 0 THEN -diff ELSE diff) * 2 < Pow10(sc - d)

\* the text of a numeral and of the same numeral with an exponent
NumText(num) ==
  (IF num.neg THEN <<45>> ELSE << >>)
  \o DigitText(IF num.ip = << >> THEN <<0>> ELSE num.ip)
  \o (IF num.fp = << >> THEN << >> ELSE <<46>> \o DigitText(num.fp))
ExpText(num) ==       \* d.ddd e-k : all digits behind one leading digit
  LET all == num.ip \o num.fp
  IN (IF num.neg THEN <<45>> ELSE << >>) \o DigitText(<<Head(all)>>)
     \o (IF Len(all) > 1 THEN <<46>> \o DigitText(Tail(all)) ELSE << >>)
     \o <<101>> \o (IF Len(num.ip) - 1 < 0 THEN <<45>> ELSE <<43>>)
     \o (LET e == Len(num.ip) - 1 IN RenderInt(IF e < 0 THEN -e ELSE e))

ReadBack ==
  (kind = "round" /\ pc = "done") =>
     /\ NormNum(ParseNum(NumText(Result))) = NormNum(Result)
     /\ NormNum(ParseNum(ExpText(Result))) = NormNum(Result)
     /\ ParseNum(NumText(Result)).ok
     /\ RoundTextOK(NumText(Result), neg, ip, fp, d)
     /\ RoundTextOK(NumText(Result) \o (IF FracLen = 0 THEN <<46, 48>> ELSE <<48>>), neg, ip, fp, d)
     \* one unit more or less is not accepted
     /\ ~RoundTextOK(NumText([Result EXCEPT !.ip = Incr(Result.ip)]), neg, ip, fp, d)
     /\ ~RoundTextOK(NumText([neg |-> neg, ip |-> Take(Incr(work), Len(Incr(work)) - FracLen),
                              fp |-> Drop(Incr(work), Len(Incr(work)) - FracLen)]), neg, ip, fp, d)
     \* the sign: the text without (or with) it stands for another number, except zero
     /\ (NormNum(Result).ip # << >> \/ NormNum(Result).fp # << >>)
           => ~RoundTextOK(NumText([Result EXCEPT !.neg = ~neg]), neg, ip, fp, d)

HexMachine ==
  (kind = "hex" /\ pc = "done") =>
     /\ hx = HexOfDigits(ip)
     /\ FromBase(hx, 16) = ip
     /\ (Len(ip) <= 9 => hx = Digits(SeqVal(ip), 16))
     /\ RenderVal([k |-> "b", n |-> IF neg THEN -1 ELSE 1, ds |-> ip, txt |-> << >>], TRUE)
          = (IF neg /\ ip # <<0>> THEN <<45>> ELSE << >>) \o hx
     /\ (Len(ip) <= 9 =>
           RenderVal([k |-> "i", n |-> IF neg THEN -SeqVal(ip) ELSE SeqVal(ip), txt |-> << >>], TRUE)
             = (IF neg /\ ip # <<0>> THEN <<45>> ELSE << >>) \o hx)

HexInv ==
  (kind = "hex" /\ pc = "hex" /\ work # <<0>>) => HexOfDigits(work) \o hx = HexOfDigits(ip)

-----------------------------------------------------------------------------
B(x) == IF x THEN 1 ELSE 0
Emit(tag, rec) == IF Export THEN PrintT("@@" \o tag \o "@@" \o ToJson(rec)) ELSE TRUE

ExportCase ==
  pc = "done" =>
    Emit("NUM", [kind |-> kind, neg |-> B(neg), ip |-> ip, fp |-> fp, d |-> d])

=============================================================================
