\* C10 round 3, deviation: the module load stack is unwound only for the error
\* classes of the language (UnwindsFor <- UnwindsLang).  TLC must find the
\* counterexample: a load that fails in the host leaves ids on the stack.
CONSTANTS
  Interps = {"i1"}
  UnwindOnFailure = TRUE
  DetachCallerEnv = TRUE
  Mode = "c10"
  ModSeq <- Mods2
  MaxOut = 0
  GenRot = TRUE
  GenBack = "all"
  GenSorted = FALSE
  MaxCtr = 1
  LoadCap = 1
  MaxReq = 0
  CmdsOf <- C10Fails
  UnwindsFor <- UnwindsLang
  Export = FALSE
SPECIFICATION Spec
INVARIANT FailIsIdempotent
INVARIANT FailLeavesNoResidue
CHECK_DEADLOCK FALSE
