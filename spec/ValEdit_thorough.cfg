CONSTANTS
  MaxLen = 3
  MaxInner = 1
  MaxKeys = 2
  Export = TRUE
SPECIFICATION Spec
VIEW View
INVARIANT TypeOK
INVARIANT NoEqualDuplicates
INVARIANT HistoryFree
INVARIANT Distinct
INVARIANT ExportPool
PROPERTY EffectsProp
PROPERTY LocalProp
CHECK_DEADLOCK FALSE
