--------------------------- MODULE Arith_Trace ---------------------------
(* C02, binding B: integer arithmetic at any magnitude.  The harness lets the
   interpreter evaluate `a op b` for operands far beyond 2^63 and logs
   (op, a, b, outcome) with integers as limb records (BigInt.tla); this spec
   accepts an event iff the outcome is the mathematically exact result:
     +, -, *   r = Add/Sub/Mul(a, b)
     /         b = 0: runtime error; else r is a/b truncated toward zero,
               stated without division (IsTruncDiv)
     %         b = 0: runtime error; else |r| < |b| and b divides a - r (IsMod)
     < <= > >= == !=   the boolean equals the comparison of the mathematical values
   All limb arithmetic is done by TLC.  A rejected event is reported (@@BAD@@)
   and the run continues, so every rejected event is listed.                *)
EXTENDS BigInt, TLC, Json, IOUtils

Trace == ndJsonDeserialize(IOEnv.TRACE_FILE)

VARIABLE l
vars == <<l>>

Ev == Trace[l]

Accept(e) ==
  CASE e.op = "+" -> e.ok /\ IsBigInt(e.r) /\ e.r = Add(e.a, e.b)
    [] e.op = "-" -> e.ok /\ IsBigInt(e.r) /\ e.r = Sub(e.a, e.b)
    [] e.op = "*" -> e.ok /\ IsBigInt(e.r) /\ e.r = Mul(e.a, e.b)
    [] e.op = "/" -> IF e.b.sg = 0 THEN ~e.ok
                     ELSE e.ok /\ IsBigInt(e.r) /\ IsTruncDiv(e.a, e.b, e.r)
    [] e.op = "%" -> IF e.b.sg = 0 THEN ~e.ok
                     ELSE e.ok /\ IsBigInt(e.r) /\ IsMod(e.a, e.b, e.r)
    \* comparisons of ints of any magnitude are exact too (rb = the boolean the interpreter returned)
    [] e.op = "<"  -> e.ok /\ e.rb = (Cmp(e.a, e.b) < 0)
    [] e.op = "<=" -> e.ok /\ e.rb = (Cmp(e.a, e.b) <= 0)
    [] e.op = ">"  -> e.ok /\ e.rb = (Cmp(e.a, e.b) > 0)
    [] e.op = ">=" -> e.ok /\ e.rb = (Cmp(e.a, e.b) >= 0)
    [] e.op = "==" -> e.ok /\ e.rb = (Cmp(e.a, e.b) = 0)
    [] e.op = "!=" -> e.ok /\ e.rb = (Cmp(e.a, e.b) # 0)
    [] OTHER -> FALSE

Init == l = 1
Step == /\ l <= Len(Trace)
        /\ l' = l + 1
        /\ (Accept(Ev) \/ PrintT("@@BAD@@" \o ToJson([l |-> l, op |-> Ev.op])))
        /\ (l = Len(Trace) => PrintT("@@DONE@@" \o ToJson([n |-> l])))
Spec == Init /\ [][Step]_vars
Accepted == TLCGet("stats").diameter - 1 = Len(Trace)
=============================================================================
