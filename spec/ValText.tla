----------------------------- MODULE ValText -----------------------------
(* C08 - two state machines around the text form (Val!Render).

   "pat":  a pattern payload is grown code point by code point over an
           alphabet around the delimiter: `/`, the backslash, a quote, plain
           characters.  A pattern is written //payload// and the scanner
           (lexer.py states 5 / 6) takes everything up to the first `//` after
           the opening one VERBATIM: there is no escape.  The invariant states
           exactly which payloads can be written (PatWritable) and that for
           those the text scans back to the payload, whatever follows the
           literal; for the others (empty, `/` at an end, `//` inside) the scan
           ends early - the class of the known findings on patterns.

   "hist": an object graph of two containers - `outer` (a list, a set or a
           map) and `inner` (a list, a map, a set or a string) which outer may
           hold BY REFERENCE at list positions and as map values - driven
           through every mutator the language has (natives that go through the
           methods of the value classes, and the index assignment and
           compound assignment that write into the host container directly),
           on outer and, while outer holds it, on inner.  After every step the
           value is observed: its text must be the text of that value,
           Render(Value), whatever the history - in particular a text
           obtained before the step must not survive it.  Every transition is
           exported; the harness drives one pair of implementation objects
           along a tour through all of them, renders (and compares, sorts,
           hashes) after every step and compares with a freshly evaluated
           literal of the same value.

   Mirrors: lexer.py states 5, 6; parser.py pattern literal; values.py
   ValuePattern.__repr__, ValueList / ValueSet / ValueMap mutators and
   __repr__; nodes.py NodeDerefAssign; functions.py FuncAppend, FuncPut,
   FuncRemove, FuncDeleteAt, FuncInsertAt.                                    *)
EXTENDS Val, TLC, Json, IOUtils, SequencesExt

CONSTANTS Tier,        \* 1 quick, 2 thorough
          MaxPat,      \* bound on the grown pattern payload
          MaxOuter,    \* bound on the size of outer
          MaxInner,    \* bound on the size of inner
          Export

Emit(tag, rec) == IF Export THEN PrintT("@@" \o tag \o "@@" \o ToJson(rec)) ELSE TRUE

-----------------------------------------------------------------------------
(* Patterns. *)
Slash == 47
PatAlphabet == IF Tier = 1 THEN {97, 47, 92, 46, 39}                  \* a / \ . '
               ELSE {97, 47, 92, 46, 39, 32, 35, 100}                 \* + blank # d

PatText(p) == <<Slash, Slash>> \o p \o <<Slash, Slash>>

\* lexer.py state 6: after the opening // every code point is appended to the
\* token; the token ends as soon as it ends with // (the second slash of the
\* opening may be the first of that pair).  used = 0: no end found.
ScanPat(t) ==
  IF Len(t) < 2 \/ t[1] # Slash \/ t[2] # Slash THEN [used |-> 0, payload |-> << >>]
  ELSE LET ends == {i \in 3..Len(t) : t[i] = Slash /\ t[i - 1] = Slash} IN
       IF ends = {} THEN [used |-> 0, payload |-> << >>]
       ELSE LET e == MinOf(ends) IN [used |-> e, payload |-> SubSeq(t, 3, e - 2)]

\* the payloads the pattern syntax can express
PatWritable(p) ==
  /\ p # << >>
  /\ p[1] # Slash /\ p[Len(p)] # Slash
  /\ \A i \in 1..(Len(p) - 1) : ~(p[i] = Slash /\ p[i + 1] = Slash)

PatTails == {<< >>, <<93>>, <<44, 32, 49>>, <<32, 47, 47, 97, 47, 47>>, <<47>>}

-----------------------------------------------------------------------------
(* Object histories. *)
INN == VRef(9)                       \* the place holder of the inner object inside outer

RECURSIVE Deref(_, _)
Deref(v, in) ==
  IF v = INN THEN in
  ELSE IF v.k \in {"list", "set", "map"}
       THEN Mk(v.k, NoN, << >>, [i \in DOMAIN v.items |-> Deref(v.items[i], in)],
               [i \in DOMAIN v.vals |-> Deref(v.vals[i], in)])
       ELSE v

RECURSIVE Holds(_)
Holds(v) == \/ v = INN
            \/ \E i \in DOMAIN v.items : Holds(v.items[i])
            \/ \E i \in DOMAIN v.vals : Holds(v.vals[i])

NoVal == VNull
Step(op, i, x, y, post) == [op |-> op, i |-> i, x |-> x, y |-> y, post |-> post]

\* One mutation of the container (or string) v.  elems: what may be put into a
\* list / set, keys / vals: of a map, chars: into a string, max: size bound.
\* op names the mechanism:
\*   append    append(c, x)        ValueList.addItem / ValueSet.addItem
\*   assign    c[i] = x, c[k] = x  NodeDerefAssign writes the host container directly
\*   addassign c[i] += 1           the same node, value computed by add
\*   insert    insert_at(c, i, x)  ValueList.insertAt
\*   delete    delete_at(c, i)     ValueList.deleteAt
\*   remove    remove(c, x)        removeItem of the three classes
\*   put       put(c, k, x)        ValueMap.addItem
Bumpable(v) == v.k = "int" /\ ~IsBig(v) /\ v.n[1] \in {1, 7}
Bump(v) == VInt(v.n[1] + 1)
Replace(s, i, x) == [s EXCEPT ![i] = x]
PutAt(s, i, x) == SubSeq(s, 1, i) \o <<x>> \o SubSeq(s, i + 1, Len(s))      \* i = 0 .. Len(s)

Steps(v, elems, keys, vals, chars, max) ==
  CASE v.k = "list" ->
         {Step("append", -1, x, NoVal, VList(Append(v.items, x))) : x \in IF Len(v.items) < max THEN elems ELSE {}}
         \cup {Step("assign", i - 1, x, NoVal, VList(Replace(v.items, i, x))) : i \in DOMAIN v.items, x \in elems}
         \cup {Step("addassign", i - 1, NoVal, NoVal, VList(Replace(v.items, i, Bump(v.items[i])))) :
                 i \in {j \in DOMAIN v.items : Bumpable(v.items[j])}}
         \cup {Step("insert", i, x, NoVal, VList(PutAt(v.items, i, x))) :
                 i \in IF Len(v.items) < max THEN 0..Len(v.items) ELSE {}, x \in elems}
         \cup {Step("delete", i - 1, NoVal, NoVal, VList(DropAt(v.items, i))) : i \in DOMAIN v.items}
         \cup {Step("remove", -1, x, NoVal, VList(DropAt(v.items, IndexOf(v.items, x)))) :
                 x \in {e \in elems : Has(v.items, e)}}
    [] v.k = "set" ->
         {Step("append", -1, x, NoVal, SetAdd(v, x)) :
            x \in {e \in elems : e # INN /\ (Len(v.items) < max \/ Has(v.items, e))}}
         \cup {Step("remove", -1, x, NoVal, SetRemove(v, x)) : x \in {e \in elems : e # INN /\ Has(v.items, e)}}
    [] v.k = "map" ->
         {Step("assign", -1, k, x, MapPut(v, k, x)) :
            k \in {e \in keys : Len(v.items) < max \/ MapHas(v, e)}, x \in vals}
         \cup {Step("put", -1, k, x, MapPut(v, k, x)) :
                 k \in {e \in keys : Len(v.items) < max \/ MapHas(v, e)}, x \in vals}
         \cup {Step("addassign", -1, k, NoVal, MapPut(v, k, Bump(MapGet(v, k).v))) :
                 k \in {e \in keys : MapHas(v, e) /\ Bumpable(MapGet(v, e).v)}}
         \cup {Step("remove", -1, k, NoVal, MapRemove(v, k)) : k \in {e \in keys : MapHas(v, e)}}
    [] v.k = "str" ->                      \* s[i] = 'c' changes the string object in place
         {Step("assign", i - 1, VStr(<<c>>), NoVal, VStr(Replace(v.s, i, c))) : i \in DOMAIN v.s, c \in chars}
    [] OTHER -> {}

OElems == IF Tier = 1 THEN {VInt(1), INN} ELSE {VInt(1), VStr(<<97>>), INN}
OSetEl == {VInt(1), VInt(2), VStr(<<97>>)}
OKeys  == {VInt(1), VStr(<<97>>)}
OVals  == IF Tier = 1 THEN {VInt(7), INN} ELSE {VInt(7), VStr(<<120>>), INN}
IElems == {VInt(1), VInt(2)}
IKeys  == IF Tier = 1 THEN {VInt(1)} ELSE {VInt(1), VStr(<<97>>)}
IVals  == {VInt(7), VStr(<<120>>)}
IChars == {97, 39}

OuterInits == {VList(<< >>), VSet(<< >>), VMap(<< >>, << >>)}
InnerInits == {VList(<< >>), VMap(<< >>, << >>), VStr(<<97, 98>>)}
              \cup (IF Tier = 1 THEN {} ELSE {VSet(<< >>)})

-----------------------------------------------------------------------------
VARIABLES mode, pat, outer, inner
vars == <<mode, pat, outer, inner>>

Value == Deref(outer, inner)

Init == \/ mode = "pat" /\ pat = << >> /\ outer = VNull /\ inner = VNull
        \/ mode = "hist" /\ pat = << >> /\ outer \in OuterInits /\ inner \in InnerInits

Grow(c) == /\ mode = "pat" /\ Len(pat) < MaxPat
           /\ pat' = Append(pat, c)
           /\ UNCHANGED <<mode, outer, inner>>

Edge(who, s) ==
  Emit("EDGE", [who |-> who, op |-> s.op, i |-> s.i, x |-> s.x, y |-> s.y,
                pre |-> [o |-> outer, n |-> inner], post |-> [o |-> outer', n |-> inner'],
                val |-> Deref(outer', inner'), txt |-> Render(Deref(outer', inner'))])

OuterStep(op) ==
  /\ mode = "hist"
  /\ \E s \in Steps(outer, IF outer.k = "set" THEN OSetEl ELSE OElems, OKeys, OVals, {}, MaxOuter) :
       /\ s.op = op
       /\ outer' = s.post /\ inner' = inner /\ UNCHANGED <<mode, pat>>
       /\ Edge("outer", s)

\* the inner object is changed through its own name while outer holds it
InnerStep(op) ==
  /\ mode = "hist" /\ Holds(outer)
  /\ \E s \in Steps(inner, IElems, IKeys, IVals, IChars, MaxInner) :
       /\ s.op = op
       /\ inner' = s.post /\ outer' = outer /\ UNCHANGED <<mode, pat>>
       /\ Edge("inner", s)

Ops == {"append", "assign", "addassign", "insert", "delete", "remove", "put"}
Next == \/ \E c \in PatAlphabet : Grow(c)
        \/ \E op \in Ops : OuterStep(op) \/ InnerStep(op)
Spec == Init /\ [][Next]_vars

-----------------------------------------------------------------------------
TypeOK == /\ mode \in {"pat", "hist"}
          /\ mode = "hist" => WF(Value) /\ outer.k \in {"list", "set", "map"}
                              /\ inner.k \in {"list", "set", "map", "str"}
                              /\ ~Holds(Value)

\* the pattern syntax expresses exactly the writable payloads
PatRoundTrip ==
  mode = "pat" =>
    LET t == Render(VPat(pat)) IN
    /\ t = PatText(pat)
    /\ \A tail \in PatTails :
         LET r == ScanPat(t \o tail) IN
         PatWritable(pat) <=> (r.used = Len(t) /\ r.payload = pat)
\* and what the scanner takes instead when it is not
PatEarlyEnd ==
  mode = "pat" /\ ~PatWritable(pat) =>
    LET r == ScanPat(PatText(pat)) IN r.used >= 3 /\ r.used < Len(PatText(pat))

ExportPat ==
  mode = "pat" =>
    LET t == PatText(pat)  r == ScanPat(t) IN
    Emit("PAT", [p |-> pat, txt |-> t, w |-> PatWritable(pat), used |-> r.used, payload |-> r.payload])

\* Same: equal with the same kinds everywhere (ValLaws!Same)
RECURSIVE SameV(_, _)
SameV(x, y) ==
  /\ x.k = y.k
  /\ CASE x.k = "list" -> /\ Len(x.items) = Len(y.items)
                          /\ \A i \in DOMAIN x.items : SameV(x.items[i], y.items[i])
       [] x.k = "set" -> /\ Len(x.items) = Len(y.items)
                         /\ \A i \in DOMAIN x.items : \E j \in DOMAIN y.items : SameV(x.items[i], y.items[j])
       [] x.k = "map" -> /\ Len(x.items) = Len(y.items)
                         /\ \A i \in DOMAIN x.items : \E j \in DOMAIN y.items :
                               SameV(x.items[i], y.items[j]) /\ SameV(x.vals[i], y.vals[j])
       [] OTHER -> x.n = y.n /\ x.s = y.s

Perms(n) == {p \in [1..n -> 1..n] : \A i \in 1..n, j \in 1..n : i # j => p[i] # p[j]}
Reorder(o, p) == IF o.k = "set" THEN VSet([i \in DOMAIN o.items |-> o.items[p[i]]])
                 ELSE IF o.k = "map" THEN VMap([i \in DOMAIN o.items |-> o.items[p[i]]],
                                               [i \in DOMAIN o.items |-> o.vals[p[i]]])
                 ELSE o
\* the text does not depend on the order in which the history inserted the entries
HistOrderFree ==
  mode = "hist" =>
    \A p \in Perms(Len(outer.items)), q \in Perms(Len(inner.items)) :
      Render(Deref(Reorder(outer, p), Reorder(inner, q))) = Render(Value)

\* a step changes the text exactly when it changes the value: a text obtained
\* before the step is not the text after it unless the value is the same
TextFollowsValue ==
  [][mode = "hist" => (Render(Value') = Render(Value) <=> SameV(Value', Value))]_vars

\* the initial object graphs, for the harness
ExportInit ==
  mode = "hist" /\ outer.items = << >> /\ inner \in InnerInits => Emit("ROOT", [o |-> outer, n |-> inner])

=============================================================================
