\* C11 simulation, thorough: random graphs over 5 modules, 4 commands
CONSTANTS
  Interps = {"i1"}
  UnwindOnFailure = TRUE
  DetachCallerEnv = TRUE
  Mode = "c11"
  ModSeq <- Mods5
  MaxOut = 2
  GenRot = FALSE
  GenBack = "first"
  GenSorted = FALSE
  MaxCtr = 1
  LoadCap = 2
  MaxReq = 4
  CmdsOf <- C11Cmds4
  Export = TRUE
SPECIFICATION Spec
INVARIANT TypeOK
INVARIANT StackEmptyBetweenCalls
INVARIANT FailIsIdempotent
INVARIANT LoadOnce
INVARIANT ModuleScopeIsBase
INVARIANT SingleInstance
INVARIANT CycleIsError
INVARIANT ExportState
PROPERTY DefsPersist
PROPERTY Isolation
PROPERTY LoadOnlyInLoadStep
PROPERTY BindsExactly
CHECK_DEADLOCK FALSE
