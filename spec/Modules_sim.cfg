\* C11 simulation: random module graphs (random forms and bumps), random
\* importer programs of 4 commands (run with -simulate)
CONSTANTS
  Interps = {"i1"}
  UnwindOnFailure = TRUE
  DetachCallerEnv = TRUE
  Mode = "c11"
  ModSeq <- Mods3
  MaxOut = 2
  GenRot = FALSE
  GenBack = "first"
  GenSorted = FALSE
  MaxCtr = 1
  LoadCap = 2
  MaxReq = 4
  CmdsOf <- C11Cmds4
  Export = TRUE
SPECIFICATION Spec
INVARIANT TypeOK
INVARIANT StackEmptyBetweenCalls
INVARIANT FailIsIdempotent
INVARIANT LoadOnce
INVARIANT ModuleScopeIsBase
INVARIANT SingleInstance
INVARIANT CycleIsError
INVARIANT ExportState
PROPERTY DefsPersist
PROPERTY Isolation
PROPERTY LoadOnlyInLoadStep
PROPERTY BindsExactly
CHECK_DEADLOCK FALSE
