\* C11 round 3: two interpreters of one process whose module paths name
\* DIFFERENT directories: i1 reads the generated graph over 2 modules, i2 the
\* fixed second directory (AltFS11: same module names, other contents, other
\* shape); every interleaved program of <= 2 commands
CONSTANTS
  Interps = {"i1", "i2"}
  UnwindOnFailure = TRUE
  DetachCallerEnv = TRUE
  Mode = "c11"
  ModSeq <- Mods2
  MaxOut = 1
  GenRot = TRUE
  GenBack = "all"
  GenSorted = FALSE
  MaxCtr = 1
  LoadCap = 2
  MaxReq = 2
  CmdsOf <- C11Two4
  AltFS <- AltFS11
  Export = TRUE
SPECIFICATION Spec
INVARIANT TypeOK
INVARIANT StackEmptyBetweenCalls
INVARIANT FailIsIdempotent
INVARIANT LoadOnce
INVARIANT ModuleScopeIsBase
INVARIANT OwnDirectory11
INVARIANT SingleInstance
INVARIANT CycleIsError
INVARIANT ExportState
PROPERTY DefsPersist
PROPERTY Isolation
PROPERTY LoadOnlyInLoadStep
PROPERTY BindsExactly
CHECK_DEADLOCK FALSE
