------------------------------- MODULE Forms -------------------------------
(* C13 - only language-level errors escape: the model of the syntactic forms.

   Every operator, indexing, slicing, iteration, spread and destructuring form
   of the grammar (parser.py parse_statement .. _deref) is applied to every
   tuple of pool values.  The machine picks a form and its arguments
   (PickForm, PickArg) and applies the form's evaluation rule (Apply), which
   yields the outcome class "value" or "error"; a tuple no rule covers is
   "stuck" - the image of a host exception.  Invariant NotStuck: the rules are
   total.  Every (form, tuple, class) is exported; the harness executes exactly
   these cases on the interpreter (binding A) and the recorded outcomes are
   validated by Natives_Trace (binding B).

   The class prediction mirrors what nodes.py does (after the C13 repairs);
   it is compared as drift only: the property names the host exception and
   non-termination, not which of value / error a form gives.                 *)
EXTENDS FormsOps, TLC, Json

CONSTANTS A3        \* pool indexes explored in forms of arity 3

-----------------------------------------------------------------------------
VARIABLES pc,        \* "form" | "args" | "done"
          form,      \* index into Forms, 0 = not chosen
          args,      \* the pool indexes chosen so far
          class      \* outcome class once applied
vars == <<pc, form, args, class>>

Init == pc = "form" /\ form = 0 /\ args = << >> /\ class = "none"

PickForm(f) == /\ pc = "form"
               /\ form' = f /\ pc' = "args"
               /\ UNCHANGED <<args, class>>

PickArg(i) == /\ pc = "args" /\ Len(args) < Forms[form].ar
              /\ (Forms[form].ar = 3 => i \in A3)
              /\ args' = Append(args, i)
              /\ UNCHANGED <<pc, form, class>>

Slot(n) == IF n <= Len(args) THEN args[n] ELSE 0

Apply == /\ pc = "args" /\ Len(args) = Forms[form].ar
         /\ class' = Predict(form, Slot(1), Slot(2), Slot(3))
         /\ pc' = "done"
         /\ UNCHANGED <<form, args>>

Next == \/ \E f \in 1..NForms : PickForm(f)
        \/ \E i \in 1..NPool : PickArg(i)
        \/ Apply

Spec == Init /\ [][Next]_vars

-----------------------------------------------------------------------------
TypeOK == /\ pc \in {"form", "args", "done"}
          /\ form \in 0..NForms
          /\ class \in {"none", "value", "error", "stuck"}

\* the property: no (form, tuple) is left without an applicable rule
NotStuck == pc = "done" => class \in {"value", "error"}

\* a form is named once
UniqueNames == \A f, g \in 1..NForms : Forms[f].name = Forms[g].name => f = g
ASSUME UniqueNames

Code(c) == IF c = "value" THEN 1 ELSE IF c = "error" THEN 0 ELSE 2
Export == pc = "done" =>
            PrintT("@@CASE@@" \o ToJson(<<form, Slot(1), Slot(2), Slot(3), Code(class)>>))

ASSUME PrintT("@@FORMS@@" \o ToJson(Forms))
ASSUME PrintT("@@POOL@@" \o ToJson([i \in 1..NPool |-> Pool[i].tag]))
=============================================================================
