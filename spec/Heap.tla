------------------------------- MODULE Heap -------------------------------
(* C16 - only documented mutators mutate; aliases see mutations.

   The heap model of checkerlang containers.  `heap` maps references to
   containers (list / set / map / object, see HeapOps.tla), `names` maps the
   four names of a generated alias graph to a cell (an int, NULL, or a
   reference).  The names differ in how a program reaches them:
     a  a variable                       b  a variable reached as a function
     s  a slot inside another container     parameter (`(fn(p) ...)(b)`)
        (`outer[0]`)                     c  a variable captured by closures
                                            created earlier (`getc/setc/withc`)
   Lists, sets, maps and objects are shared by reference: a name holds a
   reference, Alias copies the reference, a container's cell may hold one.

   Actions = the operation alphabet.
   * mutators (the documented ones): append, append_all, insert_at,
     delete_at, remove, put, element assignment `x[i] = v`, member assignment
     `o->m = v`; they replace the content of exactly the reference the target
     name denotes (`Mutate`);
   * non-mutating operations: `+`, `+=`, `-`, `*`, slices, sublist, sorted,
     zip, list()/set()/map()/object() conversions, comprehension copies,
     spread copy and library functions written in the language (reverse,
     chunks, unique, flatten, filter, substitute); they allocate a FRESH
     reference for the result and bind it to a name (`Fresh`); copies are
     shallow (cells are copied, so nested containers stay shared);
   * Alias(n1, n2): `n2 = n1`;
   * reads: `t = n[0]`, `t = n[k]`, `t = n->m` bind a name to the CELL a
     container holds (an int, or - a container holding a container - the very
     reference: an alias reached through a container), `t = n[k, d]` is the
     read with a default: the cell when the key is there, the default when it
     is not, and the container is the same afterwards (`Get`, `GetDefault`);
   * the mutators take their index from both ends (0 and -1), the element
     assignment also in its compound form on a missing key (`n[k, 0] += y`);
     a method found on the prototype chain assigns a member of its RECEIVER
     (`n->f(y)` with `f = fn(self, v) do self->z = v end` one step up the
     chain: `self` is one more route to the container n denotes);
   * a non-mutating operation outside the range its documentation covers
     (`substitute(n, length, x)`, `substitute(n, -1, x)`) has an OPAQUE result
     (kind "any"): the statement does not say what it contains, only that it
     is a new value, so the replay compares such a name only with its own
     previous reading (a later change of the input must not show in it; a
     change of a container NESTED in the input may: copies are shallow);
   * Lit(t): a list or string literal inside a function evaluated once more:
     a fresh value equal to what the program text says.  (The statement does
     not list strings among the values shared by reference, so the model never
     aliases a string: a string reference is held by exactly one name and only
     literal evaluation and `s[0] = ch` act on it.)
   The only bookkeeping variable is the operation counter d that bounds the
   exploration; what happened is not recorded in the state: every transition
   is exported (pre-state, operation, post-state) for binding A, which
   replays it on the interpreter and compares what every name reads.  After
   the last operation of a sequence the model offers one more level of
   "probes" (one documented mutation per container, IsProbe): what a
   non-mutating operation returned can be told apart from an alias of its
   input only by mutating one of the two afterwards.

   A list can be the key of a map (`put(m, l, 1)`: kind "rmap", the map HOLDS
   the list, as "rset" does for a set member): a later change of the list
   shows in the map.  A parameter's default expression is evaluated at every
   call that needs it (`def lit_def(x = [1]) x`): a fresh value, like a
   literal in a function body.

   Mirrors: functions.py FuncAppend/FuncInsertAt/FuncDeleteAt/FuncRemove/
   FuncPut/FuncAdd/FuncSub/FuncMul/FuncSublist/FuncSorted/FuncZip/FuncList/
   FuncSet/FuncMap/FuncObject, nodes.py NodeDerefAssign/NodeDerefSlice/
   NodeListComprehension/NodeSpread/NodeAssign/NodeLiteral/NodeDeref (also with
   a default)/NodeDerefInvoke (self), FuncLambda (default values), modules/list.ckl
   append_all, reverse, unique, flatten, filter, modules/core.ckl chunks,
   substitute.                                                             *)
EXTENDS HeapOps, TLC, Json, IOUtils

CONSTANTS MaxRefs,    \* number of references (containers alive at once)
          MaxLen,     \* bound on the size of a container
          MaxDepth,   \* operation sequences explored: length <= MaxDepth
          Export,     \* TRUE: print every transition
          Variants    \* TRUE: the index of a list operation is also taken from the end, substitute also
                      \* outside the list, default expressions (FALSE keeps the depth-3 runs affordable;
                      \* the depth-2 run and the random walks have them)

Names == {"a", "b", "s", "c"}
Ref   == 1..MaxRefs

VARIABLES heap, names,
          d           \* number of operations so far (bounds the exploration)
vars == <<heap, names, d>>

\* the name a non-mutating operation on n binds its result to
Tgt(n) == CASE n = "a" -> "b" [] n = "b" -> "s" [] n = "s" -> "c" [] OTHER -> "a"

Holds(n, k) == IsRef(names[n]) /\ heap[names[n].v].k = k
\* the first conjunct of every action: Finish (below) decides what is enabled at which depth; these
\* guards only spare TLC the evaluation of an action that Finish would refuse (beyond the depth
\* bound nothing but the probes - HoldsP -, beyond the probe level nothing at all)
HoldsD(n, k) == d < MaxDepth /\ Holds(n, k)
HoldsP(n, k) == d <= MaxDepth /\ Holds(n, k)
C(n)        == heap[names[n].v]
Size(n)     == Len(C(n).items)
NextVal(n)  == Size(n) + 1         \* the value operations write: visible, small
MinOf(S)    == CHOOSE x \in S : \A y \in S : x <= y
MaxOf(S)    == CHOOSE x \in S : \A y \in S : x >= y
Last(s)     == s[Len(s)]

\* storing names[m] into the container of n must not create a cycle
NoCycle(n, m) == /\ m # n /\ IsRef(names[m]) /\ ~Holds(m, "str") /\ ~Holds(m, "any")
                 /\ names[n].v \notin Reach(heap, {names[m].v})

-----------------------------------------------------------------------------
Emit(tag, rec) == IF Export THEN PrintT("@@" \o tag \o "@@" \o ToJson(rec)) ELSE TRUE

OpRec(op, n, m, t, x, y) == [op |-> op, n |-> n, m |-> m, t |-> t, x |-> x, y |-> y]

\* compact projection of a state for the export: a cell is an int (a scalar
\* v >= 0 as v, a reference r as -r), a container <<kind, keys, cells>>
Code(c) == IF IsRef(c) THEN 0 - c.v ELSE c.v
Proj(h, nm) ==
  [h |-> [r \in Ref |-> <<h[r].k, h[r].keys, [i \in DOMAIN h[r].items |-> Code(h[r].items[i])]>>],
   n |-> <<Code(nm.a), Code(nm.b), Code(nm.s), Code(nm.c)>>]

\* Probes: one more documented mutation through every name after the last
\* operation of a sequence.  What a non-mutating operation returned can only be
\* told apart from an alias of its input by a later mutation, so the states at
\* the depth bound are expanded once more, by these operations only.
IsProbe(o) == \/ o.op \in {"append", "put"}
              \/ o.op = "set_member" /\ o.x = 1
              \/ o.op = "set_elem" /\ o.x # 0 - 1
                 /\ (heap[names[o.n].v].k = "str" \/ Len(heap[names[o.n].v].items) = MaxLen)

Finish(h2, nm2, o) ==
  /\ d < MaxDepth \/ (d = MaxDepth /\ IsProbe(o))
  /\ d' = d + 1
  /\ names' = nm2
  /\ heap' = GC(h2, nm2)
  /\ Emit("EDGE", [pre |-> Proj(heap, names), op |-> o, post |-> Proj(heap', names'),
                   probe |-> d >= MaxDepth])

\* a documented mutator: the content of the reference n denotes is replaced
Mutate(n, newc, o) == Finish([heap EXCEPT ![names[n].v] = newc], names, o)

\* a non-mutating operation: the result gets a fresh reference, bound to t
Fresh(t, newc, o) ==
  /\ FreeRefs(heap) # {}
  /\ LET r == MinOf(FreeRefs(heap))
     IN Finish([heap EXCEPT ![r] = newc], [names EXCEPT ![t] = R(r)], o)

-----------------------------------------------------------------------------
(* The documented mutators. *)

DoAppend(n) ==                               \* append(n, x)
  \/ /\ HoldsP(n, "list") /\ Size(n) < MaxLen
     /\ Mutate(n, MkList(Append(C(n).items, I(NextVal(n)))),
               OpRec("append", n, "", "", NextVal(n), 0))
  \/ /\ HoldsP(n, "set") /\ Size(n) < MaxLen
     /\ Mutate(n, MkSet(Elems(C(n)) \cup {NextVal(n)}),
               OpRec("append", n, "", "", NextVal(n), 0))

DoAppendRef(n, m) ==                         \* append(n, m): nests m's container
  /\ HoldsD(n, "list") /\ Size(n) < MaxLen /\ NoCycle(n, m)
  /\ Mutate(n, MkList(Append(C(n).items, names[m])), OpRec("append_ref", n, m, "", 0, 0))

DoAppendRefSet(n, m) ==                      \* append(n, m) on an empty set: the set HOLDS m's list (no copy)
  /\ HoldsD(n, "set") /\ Size(n) = 0 /\ Holds(m, "list") /\ NoCycle(n, m)
  /\ Mutate(n, Mk("rset", << >>, <<names[m]>>), OpRec("append_ref", n, m, "", 0, 0))

DoAppendAll(n, m) ==                         \* append_all(n, m); m may alias n
  /\ m \in {n, Tgt(n)}
  /\ Holds(m, "list") \/ Holds(m, "set")
  /\ \/ /\ HoldsD(n, "list") /\ Size(n) + Size(m) <= MaxLen
        /\ names[n].v \notin Reach(heap, RefsIn(C(m)))
        /\ Mutate(n, MkList(C(n).items \o C(m).items), OpRec("append_all", n, m, "", 0, 0))
     \/ /\ HoldsD(n, "set") /\ AllInts(C(m).items)
        /\ Cardinality(Elems(C(n)) \cup Elems(C(m))) <= MaxLen
        /\ Mutate(n, MkSet(Elems(C(n)) \cup Elems(C(m))), OpRec("append_all", n, m, "", 0, 0))

\* the index of a list operation is taken from both ends: 0 (the first place)
\* and -1 (documented: counted from the end)
DoInsertAt(n, end) ==                        \* insert_at(n, 0, x) | insert_at(n, -1, x)
  /\ HoldsD(n, "list") /\ Size(n) < MaxLen /\ (end => Variants /\ Size(n) > 0)
  /\ Mutate(n, MkList(IF end THEN Append(C(n).items, I(NextVal(n))) ELSE <<I(NextVal(n))>> \o C(n).items),
            OpRec("insert_at", n, "", "", NextVal(n), IF end THEN 0 - 1 ELSE 0))

DoDeleteAt(n, end) ==                        \* delete_at(n, 0) | delete_at(n, -1)
  /\ HoldsD(n, "list") /\ Size(n) > (IF end THEN 1 ELSE 0) /\ (end => Variants)
  /\ Mutate(n, MkList(IF end THEN SubSeq(C(n).items, 1, Size(n) - 1) ELSE Tail(C(n).items)),
            OpRec("delete_at", n, "", "", IF end THEN 0 - 1 ELSE 0, 0))

DoRemove(n) ==                               \* remove(n, x)
  \/ /\ HoldsD(n, "list") /\ Size(n) > 0 /\ ~IsRef(Last(C(n).items))
     /\ LET it == C(n).items
            j  == MinOf({i \in DOMAIN it : it[i] = Last(it)})   \* first occurrence
        IN Mutate(n, MkList(DropIdx(it, j)), OpRec("remove", n, "", "", Last(it).v, 0))
  \/ /\ HoldsD(n, "set") /\ Size(n) > 0
     /\ LET x == MaxOf(Elems(C(n)))
        IN Mutate(n, MkSet(Elems(C(n)) \ {x}), OpRec("remove", n, "", "", x, 0))
  \/ /\ HoldsD(n, "map") /\ Size(n) > 0
     /\ Mutate(n, KeyRemove(C(n), C(n).keys[1]), OpRec("remove", n, "", "", C(n).keys[1], 0))
  \/ /\ HoldsD(n, "obj") /\ Size(n) > 0
     /\ Mutate(n, KeyRemove(C(n), Last(C(n).keys)), OpRec("remove_member", n, "", "", Last(C(n).keys), 0))

DoPut(n) ==                                  \* put(n, x, y)
  /\ HoldsP(n, "map") /\ Size(n) < MaxLen
  /\ Mutate(n, MapPut(C(n), NextVal(n), I(NextVal(n))), OpRec("put", n, "", "", NextVal(n), NextVal(n)))

DoPutRefKey(n, m) ==                         \* put(n, m, 1) on an empty map: the map HOLDS m's list as its key
  /\ HoldsD(n, "map") /\ Size(n) = 0 /\ Holds(m, "list") /\ NoCycle(n, m)
  /\ Mutate(n, Mk("rmap", << >>, <<names[m], I(1)>>), OpRec("put_key_ref", n, m, "", 0, 1))

DoPutRef(n, m) ==                            \* put(n, 1, m)
  /\ HoldsD(n, "map") /\ NoCycle(n, m) /\ (HasKey(C(n), 1) \/ Size(n) < MaxLen)
  /\ Mutate(n, MapPut(C(n), 1, names[m]), OpRec("put_ref", n, m, "", 1, 0))

DoSetElem(n) ==                              \* n[x] = y
  \/ /\ HoldsP(n, "list") /\ Size(n) > 0
     /\ Mutate(n, MkList([C(n).items EXCEPT ![1] = I(NextVal(n))]),
               OpRec("set_elem", n, "", "", 0, NextVal(n)))
  \/ /\ HoldsP(n, "list") /\ Size(n) > 1 /\ Variants     \* n[-1] = y
     /\ Mutate(n, MkList([C(n).items EXCEPT ![Size(n)] = I(NextVal(n))]),
               OpRec("set_elem", n, "", "", 0 - 1, NextVal(n)))
  \/ /\ HoldsP(n, "map") /\ Size(n) > 0
     /\ Mutate(n, MapPut(C(n), C(n).keys[1], I(NextVal(n))),
               OpRec("set_elem", n, "", "", C(n).keys[1], NextVal(n)))
  \/ /\ HoldsP(n, "str") /\ Size(n) > 0     \* n[0] = 'c': strings are never aliased here
     /\ Mutate(n, Mk("str", << >>, [C(n).items EXCEPT ![1] = I(NextVal(n))]),
               OpRec("set_elem", n, "", "", 0, NextVal(n)))

DoSetElemRef(n, m) ==                        \* n[-1] = m
  /\ HoldsD(n, "list") /\ Size(n) > 0 /\ NoCycle(n, m)
  /\ Mutate(n, MkList([C(n).items EXCEPT ![Size(n)] = names[m]]), OpRec("set_elem_ref", n, m, "", -1, 0))

\* the compound element assignment with a default on a key that is not there:
\* `n[9, 0] += y` is an element assignment (the entry 9 => 0 + y appears)
AbsentKey == 9
DoAddAssignElem(n) ==
  /\ HoldsD(n, "map") /\ Size(n) < MaxLen /\ ~HasKey(C(n), AbsentKey)
  /\ Mutate(n, MapPut(C(n), AbsentKey, I(NextVal(n))),
            OpRec("add_assign_elem", n, "", "", AbsentKey, NextVal(n)))

DoSetMember(n, mem) ==                       \* n->mem = y   (member codes 1 m, 2 n, 3 z)
  /\ HoldsP(n, "obj") /\ (HasKey(C(n), mem) \/ Size(n) < MaxLen)
  /\ Mutate(n, ObjSet(C(n), mem, I(NextVal(n))), OpRec("set_member", n, "", "", mem, NextVal(n)))

DoSetMemberRef(n, m) ==                      \* n->n = m
  /\ HoldsD(n, "obj") /\ NoCycle(n, m) /\ (HasKey(C(n), 2) \/ Size(n) < MaxLen)
  /\ Mutate(n, ObjSet(C(n), 2, names[m]), OpRec("set_member_ref", n, m, "", 2, 0))

\* A method: member code 5 (`f`) holds the function `fn(self, v) do self->z = v; NULL end`
\* (cell MethodCell).  `n->f(y)` looks f up along the prototype chain (one step
\* here) and runs it with self = the RECEIVER: the member z of the container n
\* denotes is assigned, the object in which f was found stays as it is.
MethodCell == I(77)
HasMethod(n) ==
  \/ HasKey(C(n), 5)
  \/ /\ HasKey(C(n), 4) /\ IsRef(C(n).items[KeyIdx(C(n), 4)])
     /\ LET p == heap[C(n).items[KeyIdx(C(n), 4)].v] IN p.k = "obj" /\ HasKey(p, 5)
DoMethodSetMember(n) ==
  /\ HoldsD(n, "obj") /\ HasMethod(n) /\ (HasKey(C(n), 3) \/ Size(n) < MaxLen)
  /\ Mutate(n, ObjSet(C(n), 3, I(NextVal(n))), OpRec("method_set_member", n, "", "", 3, NextVal(n)))

-----------------------------------------------------------------------------
(* The non-mutating operations (result bound to Tgt(n), except `+=`). *)

Pure(n, newc, op, x) == Fresh(Tgt(n), newc, OpRec(op, n, "", Tgt(n), x, 0))

DoConcat(n, one) ==                          \* n + [] | n + [x]   (sets: <<>>)
  \/ /\ HoldsD(n, "list") /\ Size(n) < MaxLen
     /\ Pure(n, MkList(C(n).items \o (IF one THEN <<I(NextVal(n))>> ELSE << >>)),
             IF one THEN "concat_one" ELSE "concat_empty", NextVal(n))
  \/ /\ HoldsD(n, "set") /\ Size(n) < MaxLen
     /\ Pure(n, MkSet(Elems(C(n)) \cup (IF one THEN {NextVal(n)} ELSE {})),
             IF one THEN "concat_one" ELSE "concat_empty", NextVal(n))

DoAddAssign(n) ==                            \* n += [x]: n itself is rebound
  /\ HoldsD(n, "list") /\ Size(n) < MaxLen
  /\ Fresh(n, MkList(Append(C(n).items, I(NextVal(n)))), OpRec("add_assign", n, "", n, NextVal(n), 0))

DoMinus(n, one) ==                           \* n - [] | n - [x]
  \/ /\ HoldsD(n, "list") /\ (one => Size(n) > 0 /\ ~IsRef(Last(C(n).items)))
     /\ LET it == C(n).items
        IN Pure(n, MkList(IF one THEN SelectSeq(it, LAMBDA c : c # Last(it)) ELSE it),
                IF one THEN "minus_one" ELSE "minus_empty", IF one THEN Last(it).v ELSE 0)
  \/ /\ HoldsD(n, "set") /\ (one => Size(n) > 0)
     /\ LET x == IF one THEN MaxOf(Elems(C(n))) ELSE 0
        IN Pure(n, MkSet(Elems(C(n)) \ (IF one THEN {x} ELSE {})),
                IF one THEN "minus_one" ELSE "minus_empty", x)

DoRepeat(n, k) ==                            \* n * k
  /\ HoldsD(n, "list") /\ Size(n) * k <= MaxLen
  /\ Pure(n, MkList(IF k = 1 THEN C(n).items ELSE C(n).items \o C(n).items), "repeat", k)

DoSlice(n, full) ==                          \* n[0 to *] | n[0 to 1]
  /\ HoldsD(n, "list")
  /\ Pure(n, MkList(IF full \/ Size(n) = 0 THEN C(n).items ELSE <<C(n).items[1]>>),
          IF full THEN "slice_full" ELSE "slice_head", 0)

DoSublist(n) ==                              \* sublist(n, 0)
  /\ HoldsD(n, "list") /\ Pure(n, MkList(C(n).items), "sublist", 0)

DoSorted(n) ==                               \* sorted(n)
  /\ HoldsD(n, "list") /\ AllInts(C(n).items)
  /\ Pure(n, MkList(SortInts(C(n).items)), "sorted", 0)

DoZip(n) ==                                  \* zip(n, n): the pairs are fresh too
  /\ HoldsD(n, "list")
  /\ LET it == C(n).items
         fr == SortedSeq(FreeRefs(heap))
     IN /\ Len(fr) >= Len(it) + 1
        /\ Finish([r \in Ref |->
                     IF r = fr[1] THEN MkList([i \in DOMAIN it |-> R(fr[i + 1])])
                     ELSE IF \E i \in DOMAIN it : fr[i + 1] = r
                          THEN LET i == CHOOSE i \in DOMAIN it : fr[i + 1] = r
                               IN MkList(<<it[i], it[i]>>)
                          ELSE heap[r]],
                  [names EXCEPT ![Tgt(n)] = R(fr[1])],
                  OpRec("zip", n, "", Tgt(n), 0, 0))

DoToList(n) ==                               \* list(n)
  \/ /\ HoldsD(n, "list") \/ HoldsD(n, "set")
     /\ Pure(n, MkList(C(n).items), "to_list", 0)
  \/ /\ HoldsD(n, "map") /\ AllInts(C(n).items)
     /\ Pure(n, MkList(SortInts(C(n).items)), "to_list", 0)

DoToSet(n) ==                                \* set(n)
  \/ /\ HoldsD(n, "set") \/ (HoldsD(n, "list") /\ AllInts(C(n).items))
     /\ Pure(n, MkSet(Elems(C(n))), "to_set", 0)
  \/ /\ HoldsD(n, "map")
     /\ Pure(n, MkSet(Range(C(n).keys)), "to_set", 0)

DoToMap(n) ==                                \* map(n)
  /\ HoldsD(n, "map") /\ Pure(n, C(n), "to_map", 0)

DoToObj(n) ==                                \* object(n)
  /\ HoldsD(n, "obj") /\ Pure(n, C(n), "to_object", 0)

DoCompr(n) ==                                \* [x for x in n] and the set / map forms
  /\ HoldsD(n, "list") \/ HoldsD(n, "set") \/ HoldsD(n, "map")
  /\ Pure(n, C(n), "comprehension", 0)

DoReverse(n) ==                              \* List->reverse(n)
  /\ HoldsD(n, "list") /\ Pure(n, MkList(Rev(C(n).items)), "reverse", 0)

DoSpread(n) ==                               \* [...n]
  /\ HoldsD(n, "list") /\ Pure(n, MkList(C(n).items), "spread", 0)

(* Library functions written in the language (modules/core.ckl, list.ckl):
   each is documented to return a new list ("a list of pieces", "a filtered
   copy", "the original list remains untouched"), so in the model the result
   - and every piece inside it - is a fresh reference however short the
   argument is. *)

DoChunks(n, whole) ==                        \* chunks(n, MaxLen): one piece | chunks(n, 1): singletons
  /\ HoldsD(n, "list") /\ Size(n) > 0        \* (what chunks gives for an empty list is C19's subject)
  /\ LET it == C(n).items
         k  == IF whole THEN MaxLen ELSE 1
         np == NumPieces(it, k)
         fr == SortedSeq(FreeRefs(heap))
     IN /\ Len(fr) >= np + 1
        /\ Finish([r \in Ref |->
                     IF r = fr[1] THEN MkList([j \in 1..np |-> R(fr[j + 1])])
                     ELSE IF \E j \in 1..np : fr[j + 1] = r
                          THEN LET j == CHOOSE j \in 1..np : fr[j + 1] = r
                               IN MkList(Piece(it, k, j))
                          ELSE heap[r]],
                  [names EXCEPT ![Tgt(n)] = R(fr[1])],
                  OpRec("chunks", n, "", Tgt(n), k, 0))

DoUnique(n) ==                               \* unique(n)
  /\ HoldsD(n, "list") /\ AllInts(C(n).items)
  /\ Pure(n, MkList(FirstOccs(C(n).items)), "unique", 0)

DoFlatten(n) ==                              \* flatten(n): one level; the inner lists' cells are shared
  /\ HoldsD(n, "list") /\ Len(FlatCells(heap, C(n).items)) <= MaxLen
  /\ Pure(n, MkList(FlatCells(heap, C(n).items)), "flatten", 0)

DoFilterAll(n) ==                            \* filter(n, fn(x) TRUE)
  /\ HoldsD(n, "list") /\ Pure(n, MkList(C(n).items), "filter", 0)

\* substitute(n, idx, x): idx inside the list gives the documented list; idx = length or -1 is outside what the documentation
\* covers: the content is left open (Opaque), the result is a new value all the same
\* (a copy is shallow: whatever the result contains, it may share the nested containers of its
\* input - the model keeps their references as the items of the opaque container -, never the
\* input itself)
Opaque(n) == Mk("any", << >>, SelectSeq(C(n).items, IsRef))
SubstOp(n, idx, c) == Fresh(Tgt(n), c, OpRec("substitute", n, "", Tgt(n), NextVal(n), idx))
DoSubstitute(n, v) ==
  /\ HoldsD(n, "list")
  /\ \/ /\ v = 0 /\ Size(n) > 0
        /\ SubstOp(n, 0, MkList(<<I(NextVal(n))>> \o Tail(C(n).items)))
     \/ /\ v = 1 /\ Variants /\ SubstOp(n, Size(n), Opaque(n))
     \/ /\ v = 2 /\ Variants /\ SubstOp(n, 0 - 1, Opaque(n))

(* Reads.  A read binds a name to the cell the container holds: for a nested
   container that is the reference itself (the container is one more holder
   of the value, and the new name an alias of it).  The heap stays as it is -
   also for the read with a default on a key that is not there. *)
Read1(n, cell, op, x, y) ==
  /\ cell # MethodCell
  /\ Finish(heap, [names EXCEPT ![Tgt(n)] = cell], OpRec(op, n, "", Tgt(n), x, y))

DoGet(n) ==                                  \* t = n[0] | t = n[-1] | t = n[k] | t = n->mem
  \/ /\ HoldsD(n, "list") /\ Size(n) > 0 /\ Read1(n, C(n).items[1], "get", 0, 0)
  \/ /\ HoldsD(n, "list") /\ Size(n) > 1 /\ Read1(n, C(n).items[Size(n)], "get", 0 - 1, 0)
  \/ /\ HoldsD(n, "map") /\ Size(n) > 0 /\ Read1(n, Last(C(n).items), "get", Last(C(n).keys), 0)
  \/ /\ HoldsD(n, "obj") /\ Size(n) > 0 /\ Last(C(n).keys) # 4
     /\ Read1(n, Last(C(n).items), "get_member", Last(C(n).keys), 0)

DoGetDefault(n, present) ==                  \* t = n[k, 7]: k there -> the cell; k not there -> 7
  \/ /\ HoldsD(n, "map") /\ present /\ Size(n) > 0
     /\ Read1(n, Last(C(n).items), "get_default", Last(C(n).keys), 7)
  \/ /\ HoldsD(n, "map") /\ ~present /\ ~HasKey(C(n), AbsentKey)
     /\ Read1(n, I(7), "get_default", AbsentKey, 7)
  \/ /\ HoldsD(n, "obj") /\ ~present /\ ~HasKey(C(n), 3) /\ ~HasKey(C(n), 4)
     /\ Read1(n, I(7), "get_member_default", 3, 7)

\* a literal evaluated again (inside a function called once more) is a fresh
\* value equal to what is written: `def lit_list() [1]`, `def lit_str() 'ab'`
LitList == MkList(<<I(1)>>)
LitStr  == Mk("str", << >>, <<I(1), I(2)>>)
\* `def lit_def(x = [1]) x`: the default expression of a parameter is evaluated at every call
\* that does not pass the argument ("lit_default")
DoLit(t, kind) ==
  /\ d < MaxDepth /\ t \in Names /\ (kind = "lit_default" => Variants)
  /\ Fresh(t, IF kind = "lit_str" THEN LitStr ELSE LitList, OpRec(kind, "", "", t, 0, 0))

DoAlias(n1, n2) ==                           \* n2 = n1
  /\ d < MaxDepth /\ n1 # n2 /\ names[n1] # names[n2] /\ ~Holds(n1, "str") /\ ~Holds(n1, "any")
  /\ Finish(heap, [names EXCEPT ![n2] = names[n1]], OpRec("alias", n1, "", n2, 0, 0))

Mutator(n) ==
  \/ DoAppend(n) \/ DoRemove(n) \/ DoPut(n)
  \/ \E end \in BOOLEAN : DoInsertAt(n, end) \/ DoDeleteAt(n, end)
  \/ DoSetElem(n) \/ DoSetMember(n, 1) \/ DoSetMember(n, 3)
  \/ DoAddAssignElem(n) \/ DoMethodSetMember(n)
  \/ \E m \in Names : \/ DoAppendRef(n, m) \/ DoAppendRefSet(n, m) \/ DoAppendAll(n, m) \/ DoPutRef(n, m)
                      \/ DoPutRefKey(n, m) \/ DoSetElemRef(n, m) \/ DoSetMemberRef(n, m)

NonMutating(n) ==
  \/ \E one \in BOOLEAN : DoConcat(n, one) \/ DoMinus(n, one) \/ DoSlice(n, one)
  \/ DoAddAssign(n) \/ DoRepeat(n, 1) \/ DoRepeat(n, 2) \/ DoSublist(n) \/ DoSorted(n)
  \/ DoZip(n) \/ DoToList(n) \/ DoToSet(n) \/ DoToMap(n) \/ DoToObj(n)
  \/ DoCompr(n) \/ DoReverse(n) \/ DoSpread(n)
  \/ DoChunks(n, TRUE) \/ DoChunks(n, FALSE) \/ DoUnique(n) \/ DoFlatten(n)
  \/ DoFilterAll(n) \/ \E v \in 0..2 : DoSubstitute(n, v)
  \/ DoGet(n) \/ DoGetDefault(n, TRUE) \/ DoGetDefault(n, FALSE)
  \/ DoLit(n, "lit_str") \/ DoLit(n, "lit_list") \/ DoLit(n, "lit_default")

Next == \E n \in Names : \/ Mutator(n) \/ NonMutating(n)
                         \/ \E n2 \in Names : DoAlias(n, n2)

-----------------------------------------------------------------------------
(* Generated alias graphs the sequences start from. *)

H(seq) == [r \in Ref |-> IF r <= Len(seq) THEN seq[r] ELSE Free]
NM(a, b, s, c) == [a |-> a, b |-> b, s |-> s, c |-> c]
L(items) == MkList(items)

InitSeq == <<
  \* one list seen through every kind of name
  [h |-> H(<<L(<<I(1), I(2)>>)>>),                 n |-> NM(R(1), R(1), R(1), R(1))],
  \* a list nested in a list, the inner one also held directly
  [h |-> H(<<L(<<I(2), R(2)>>), L(<<I(1)>>)>>),    n |-> NM(R(1), R(2), R(2), R(1))],
  \* a set
  [h |-> H(<<MkSet({1, 2})>>),                     n |-> NM(R(1), Null, R(1), R(1))],
  \* a map holding a list
  [h |-> H(<<Mk("map", <<1, 2>>, <<I(2), R(2)>>), L(<<I(1)>>)>>),
                                                   n |-> NM(R(1), R(2), R(1), R(2))],
  \* an object holding a list
  [h |-> H(<<Mk("obj", <<1, 2>>, <<I(1), R(2)>>), L(<<I(1)>>)>>),
                                                   n |-> NM(R(1), R(1), R(2), R(1))],
  \* an unsorted list and a set
  [h |-> H(<<L(<<I(3), I(1), I(2)>>), MkSet({1})>>), n |-> NM(R(1), R(2), R(2), R(1))],
  \* empty containers
  [h |-> H(<<L(<< >>), Mk("map", << >>, << >>)>>), n |-> NM(R(1), R(2), R(1), R(2))],
  \* the same list twice inside one list
  [h |-> H(<<L(<<R(2), R(2)>>), L(<<I(1)>>)>>),    n |-> NM(R(1), R(2), Null, Null)],
  \* an object and its prototype (member code 4 is `_proto_`): a member assignment through the object
  \* writes the object's own table, never the prototype's
  \* (the prototype also has the method f, member code 5: `a->f(y)` assigns a member of the INSTANCE)
  [h |-> H(<<Mk("obj", <<4>>, <<R(2)>>), Mk("obj", <<1, 3, 5>>, <<I(1), I(2), MethodCell>>)>>),
                                                   n |-> NM(R(1), R(2), R(1), R(2))],
  \* an empty set and a list: the set will hold the list itself
  [h |-> H(<<MkSet({}), L(<<I(1)>>)>>),            n |-> NM(R(1), R(2), R(2), R(1))],
  \* values of literals (the builder obtains them from lit_str() / lit_list())
  [h |-> H(<<LitStr, LitList>>),                   n |-> NM(R(1), R(2), Null, Null)] >>

\* INIT_SEL = "0": all of them; "k": only the k-th (the thorough tier explores
\* one initial graph per TLC run to keep the exported transition lists small)
InitSel == CHOOSE i \in 0..Len(InitSeq) : ToString(i) = IOEnv.INIT_SEL
InitStates == IF InitSel = 0 THEN Range(InitSeq) ELSE {InitSeq[InitSel]}

Init == \E g \in InitStates :
          /\ heap = g.h /\ names = g.n /\ d = 0
          /\ Emit("INIT", Proj(g.h, g.n))

Spec == Init /\ [][Next]_vars


-----------------------------------------------------------------------------
(* Properties. *)

Kinds == {"list", "set", "rset", "map", "rmap", "obj", "str", "any", "free"}
\* "rset": a set whose only member is a list (append(set, list)); "rmap": a map whose only key is a list
\* (put(map, list, 1)): items = <<the key, the value>>; "any": an opaque result (content left open)

TypeOK ==
  /\ DOMAIN names = Names
  /\ \A r \in Ref :
       LET c == heap[r] IN
       /\ c.k \in Kinds
       /\ c.k \in {"list", "set", "rset", "rmap", "str", "any", "free"} => c.keys = << >>
       /\ c.k = "rset" => Len(c.items) = 1 /\ IsRef(c.items[1])
       /\ c.k = "rmap" => Len(c.items) = 2 /\ IsRef(c.items[1]) /\ ~IsRef(c.items[2])
       /\ c.k = "any" => (\A i \in DOMAIN c.items : IsRef(c.items[i]))
                         /\ Cardinality({n \in Names : names[n] = R(r)}) = 1
                         /\ \A q \in Ref : r \notin RefsIn(heap[q])      \* held by one name, never stored
       /\ c.k = "str" => AllInts(c.items)
       /\ c.k \in {"map", "obj"} => Len(c.keys) = Len(c.items)
       /\ c.k = "free" => c.items = << >>
       /\ c.k = "set" => AllInts(c.items) /\ \A i \in 1..(Len(c.items) - 1) : c.items[i].v < c.items[i + 1].v
       /\ c.k = "map" => \A i \in 1..(Len(c.keys) - 1) : c.keys[i] < c.keys[i + 1]
       /\ Len(c.items) <= MaxLen
       /\ \A q \in RefsIn(c) : heap[q].k # "free"            \* no dangling cell
       /\ r \notin Reach(heap, RefsIn(c))                    \* no cycle
       /\ c.k # "free" => r \in Live(heap, names)            \* no garbage kept

\* What a name reads: all names holding the same reference read the same
\* content (this is what the replay compares on the implementation).
Read(n) == IF IsRef(names[n]) THEN heap[names[n].v] ELSE Mk("scalar", << >>, <<names[n]>>)
AliasesAgree == \A n1 \in Names, n2 \in Names : names[n1] = names[n2] => Read(n1) = Read(n2)

\* a step that rebinds a name is a non-mutating operation (or Alias): no
\* allocated reference changes content (it may only become garbage)
PureLeavesHeap ==
  [][names' # names =>
       \A r \in Ref : heap[r].k # "free" => (heap'[r] = heap[r] \/ heap'[r] = Free)]_vars

\* a step that rebinds no name is a mutator: at most one reference changes
\* content, and it is one that a name denotes or reaches (the target)
MutatorTouchesOnlyTarget ==
  [][names' = names =>
       LET ch == {r \in Ref : heap'[r] # heap[r] /\ heap'[r] # Free}
       IN /\ Cardinality(ch) <= 1
          /\ ch \subseteq NameRoots(names)
          /\ OnlyChanged(heap, heap', ch \cup {r \in Ref : heap'[r] = Free})]_vars

\* a name is rebound either to a value that existed (an alias, or a read of a
\* cell some live container holds) or to the result of a non-mutating
\* operation: a reference that was free before the step and that no older
\* container holds after it
FreshResultsIndependent ==
  [][\A n \in Names :
       (names'[n] # names[n] /\ IsRef(names'[n]) /\ names'[n] \notin {names[x] : x \in Names})
       => LET f == names'[n].v
          IN \/ f \in Live(heap, names)
             \/ /\ heap[f] = Free
                /\ \A r \in Ref : (heap[r].k # "free" /\ heap'[r].k # "free") => f \notin RefsIn(heap'[r])]_vars

\* (a read - also the read with a default - rebinds a name: PureLeavesHeap says that it leaves
\* every container as it is)

=============================================================================
