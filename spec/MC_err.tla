---- MODULE MC_err ----
EXTENDS MachineRun
Progs == ErrQuick
====
