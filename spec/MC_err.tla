---- MODULE MC_err ----
EXTENDS MachineRun
Progs == ErrQuick(0)
====
