CONSTANTS
  Tier = 3
  MaxStr = 0
  Export = TRUE
  Need = {"eq", "lt"}
SPECIFICATION Spec
INVARIANT TypeOK
INVARIANT LtIrreflexive
INVARIANT LtAsymmetric
INVARIANT Trichotomy
INVARIANT LtTransitive
INVARIANT LtRespectsEq
INVARIANT NamedOrders
INVARIANT EnumAscending
INVARIANT ExportU
INVARIANT ExportEq
INVARIANT ExportLt
CHECK_DEADLOCK FALSE
