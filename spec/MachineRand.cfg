CONSTANTS
  Names <- NamesR
SPECIFICATION Spec
INVARIANT TypeOK
INVARIANT FinallyOnce
INVARIANT NoStmtAfterFailure
INVARIANT FreshFrames
INVARIANT ExportRuns
CHECK_DEADLOCK FALSE
