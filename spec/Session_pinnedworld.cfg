\* C10 round 5, deviation: the loader remembers the module names it did not find
\* and does not search for them again (RemembersMissing).  TLC must find the
\* counterexample: require late (missing) ; the file appears ; require late.
CONSTANTS
  Interps = {"i1", "i2"}
  UnwindOnFailure = TRUE
  DetachCallerEnv = TRUE
  Mode = "c10"
  ModSeq <- Mods2
  MaxOut = 0
  GenRot = TRUE
  GenBack = "all"
  GenSorted = FALSE
  MaxCtr = 1
  LoadCap = 1
  MaxReq = 0
  CmdsOf <- C10World
  RemembersMissing <- RemembersTrue
  Export = FALSE
SPECIFICATION Spec
PROPERTY MissingOnlyIfAbsent
CHECK_DEADLOCK FALSE
