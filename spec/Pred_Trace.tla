---------------------------- MODULE Pred_Trace ----------------------------
(* C02, binding B: every predicate form `x is not P` is the negation of
   `x is P`.  Events: [word, kind, pos, neg] where kind is the type name of x
   and pos / neg are the outcomes of the two forms: "T", "F" or "E" (runtime
   error).  Accepted iff the outcomes are opposite booleans or both errors,
   and - for the type words - the positive form says exactly whether the type
   name of x is that word (mirror of `type(x) == '<word>'`).                 *)
EXTENDS Sequences, Naturals, TLC, Json, IOUtils

Trace == ndJsonDeserialize(IOEnv.TRACE_FILE)
VARIABLE l
vars == <<l>>
Ev == Trace[l]

TypeWords == {"string", "int", "decimal", "boolean", "pattern", "func", "input",
              "output", "list", "set", "map", "object", "node"}

Negation(e) == <<e.pos, e.neg>> \in {<<"T", "F">>, <<"F", "T">>, <<"E", "E">>}
TypeWordOK(e) == e.word \in TypeWords => e.pos = (IF e.kind = e.word THEN "T" ELSE "F")

Init == l = 1
Step == /\ l <= Len(Trace)
        /\ l' = l + 1
        /\ (Negation(Ev) \/ PrintT("@@BAD@@" \o ToJson([l |-> l, why |-> "negation"])))
        /\ (TypeWordOK(Ev) \/ PrintT("@@BAD@@" \o ToJson([l |-> l, why |-> "typeword"])))
        /\ (l = Len(Trace) => PrintT("@@DONE@@" \o ToJson([n |-> l])))
Spec == Init /\ [][Step]_vars
Accepted == TLCGet("stats").diameter - 1 = Len(Trace)
=============================================================================
