---------------------------- MODULE Seq_Trace ----------------------------
(* C15, binding B: executions recorded from the implementation (one list or
   string object per trace, a `new` event starts a trace) are stepped through
   the Seq model.  State: the model's idea of the object's content.  Every
   event carries the observation the implementation made (result / content
   after the call); an event whose observation differs from the model is
   reported (@@BAD@@) and the model re-synchronises on the logged content so
   the rest of the trace is still checked. *)
EXTENDS SeqOps, TLC, Json, IOUtils

Trace == ndJsonDeserialize(IOEnv.TRACE_FILE)

VARIABLES l, cur
vars == <<l, cur>>

Ev == Trace[l]
Bad(why) == PrintT("@@BAD@@" \o ToJson([l |-> l, why |-> why]))
Check(c, why) == c \/ Bad(why)

Init == l = 1 /\ cur = << >>

Step ==
  /\ l <= Len(Trace)
  /\ l' = l + 1
  /\ CASE Ev.op = "new" -> cur' = Ev.s
       [] Ev.op = "insert_at" ->
            /\ cur' = Ev.post
            /\ Check(Ev.ok /\ Ev.post = InsertAt(cur, Ev.i, Ev.v), "insert_at")
       [] Ev.op = "delete_at" ->
            LET d == DeleteAt(cur, Ev.i) IN
            /\ cur' = Ev.post
            /\ Check(Ev.ok /\ Ev.post = d.l /\ Ev.r = d.r.v, "delete_at")
       [] Ev.op = "assign" ->
            LET d == AssignAt(cur, Ev.i, Ev.v) IN
            /\ cur' = Ev.post
            /\ Check(Ev.ok = d.r /\ Ev.post = d.l, "assign")
       [] Ev.op = "index" ->
            LET r == Index(cur, Ev.i) IN
            /\ cur' = cur
            /\ Check(Ev.ok = r.ok /\ (r.ok => Ev.r = r.v), "index")
       [] Ev.op = "slice" ->
            /\ cur' = cur
            /\ Check(Ev.ok /\ Ev.r = Slice(cur, Ev.a, Ev.b), "slice")
       [] Ev.op = "toend" ->
            /\ cur' = cur
            /\ Check(Ev.ok /\ Ev.r = SliceToEnd(cur, Ev.a), "toend")
       [] Ev.op = "find" ->
            /\ cur' = cur
            /\ Check(Ev.ok /\ Ev.r = Find(cur, Ev.t, Ev.start), "find")
       [] Ev.op = "find_last" ->
            /\ cur' = cur
            /\ Check(Ev.ok /\ Ev.r = FindLast(cur, Ev.t, Ev.start), "find_last")
       [] Ev.op = "length" ->
            /\ cur' = cur
            /\ Check(Ev.ok /\ Ev.r = Len(cur), "length")
       [] Ev.op = "concat_split" ->       \* s[0 to k] + s[k to *] == s
            /\ cur' = cur
            /\ Check(Ev.ok /\ Ev.r = cur, "concat_split")
       [] OTHER -> cur' = cur /\ Bad("unknown-op")
  /\ (l = Len(Trace) => PrintT("@@DONE@@" \o ToJson([n |-> l])))

Spec == Init /\ [][Step]_vars

Accepted == TLCGet("stats").diameter - 1 = Len(Trace)
=============================================================================
