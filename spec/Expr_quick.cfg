CONSTANTS
  Triples <- TripQuick
  Pool <- PoolQuick
  Export = TRUE
SPECIFICATION Spec
INVARIANT MirrorIsRef
INVARIANT ChainIsConjunction
INVARIANT ShortCircuit
INVARIANT ArithLaws
INVARIANT DivModLaws
INVARIANT ExportRuns
CHECK_DEADLOCK FALSE
