CONSTANTS
  Ranges <- FullRange
  Gran = 3
  Export = TRUE
  WithArith = FALSE
SPECIFICATION Spec
INVARIANT TypeOK
INVARIANT Valid
INVARIANT ClosedForm
INVARIANT RoundTrip
INVARIANT LeapSanity
INVARIANT MonthSanity
INVARIANT WholeMonth
INVARIANT ArithLaw
INVARIANT ExportMonths
PROPERTY OneDay
CHECK_DEADLOCK FALSE
