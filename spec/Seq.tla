------------------------------- MODULE Seq -------------------------------
(* C15 - the sequence model of checkerlang strings and lists.

   The system state is one list object `lst` (lists are mutable and shared by
   reference in the implementation: ValueList.value).  The in-place mutators
   insert_at / delete_at / element assignment are the transitions; indexing,
   slicing, substr/sublist, find/find_last are pure reads whose results are
   the operators below and whose laws are invariants over every reachable
   list.  Positions are 0-based as in the language; TLA+ sequences are 1-based,
   hence the +1 everywhere.

   Mirrors: nodes.py NodeDeref / NodeDerefAssign / NodeDerefSlice,
   functions.py FuncSubstr, FuncSublist, FuncFind, FuncFindLast,
   FuncInsertAt, FuncDeleteAt, values.py ValueList.insertAt/deleteAt.       *)
EXTENDS SeqOps, TLC, Json, IOUtils

CONSTANTS K,          \* element alphabet is 1..K
          MaxLen,     \* bound on Len(lst)
          Span,       \* index arguments explored: -Span..Span
          Export      \* TRUE: print every transition and the read table

Sym == 1..K
Lo  == -Span
Hi  == Span
Idx == Lo..Hi
W   == Hi - Lo + 1

VARIABLES lst         \* the list object (what a call returned is carried by
                      \* the exported edge, not by the state: no history
                      \* variable, so the state space is just the lists)

vars == <<lst>>

-----------------------------------------------------------------------------
(* Reference definitions: see SeqOps.tla *)

-----------------------------------------------------------------------------
(* The state machine: one list object driven by the three mutators. *)

Emit(tag, rec) == IF Export THEN PrintT("@@" \o tag \o "@@" \o ToJson(rec)) ELSE TRUE

Init == lst = << >>

DoInsert(i, v) ==
  /\ lst' = InsertAt(lst, i, v)
  /\ Emit("EDGE", [pre |-> lst, op |-> "insert_at", i |-> i, v |-> v,
                   post |-> lst', ok |-> TRUE, r |-> NoVal])

DoDelete(i) ==
  LET d == DeleteAt(lst, i) IN
  /\ lst' = d.l
  /\ Emit("EDGE", [pre |-> lst, op |-> "delete_at", i |-> i, v |-> 0,
                   post |-> lst', ok |-> TRUE, r |-> d.r.v])

DoAssign(i, v) ==
  LET d == AssignAt(lst, i, v) IN
  /\ lst' = d.l
  /\ Emit("EDGE", [pre |-> lst, op |-> "assign", i |-> i, v |-> v,
                   post |-> lst', ok |-> d.r, r |-> NoVal])

Next == \/ \E i \in Idx, v \in Sym : DoInsert(i, v)
        \/ \E i \in Idx : DoDelete(i)
        \/ \E i \in Idx, v \in Sym : DoAssign(i, v)

Spec == Init /\ [][Next]_vars

Bound == Len(lst) <= MaxLen

-----------------------------------------------------------------------------
(* Properties.  Invariants quantify the read operators over every reachable
   list; the action property is "exactly one position changes". *)

IsRun(s, r) == \E p \in 0..Len(s) : Occurs(s, r, p)

\* negative index from the end; defined exactly on -n..n-1
IndexLaw ==
  \A i \in Idx :
    LET n == Len(lst) r == Index(lst, i) IN
      /\ r.ok <=> (-n <= i /\ i < n)
      /\ r.ok /\ i >= 0 => r.v = lst[i + 1]
      /\ r.ok /\ i < 0  => r.v = lst[n + i + 1]

\* slices are contiguous runs, never longer than the distance of the bounds,
\* empty when the bounds cross; never wrap
SliceLaw ==
  \A a \in Idx, b \in Idx :
    LET n == Len(lst) r == Slice(lst, a, b)
        x == Clamp(Norm(a, n), n)  y == Clamp(Norm(b, n), n) IN
      /\ IsRun(lst, r)
      /\ Len(r) = (IF y > x THEN y - x ELSE 0)
      /\ \A k \in 1..Len(r) : r[k] = lst[x + k]

\* s[0 to k] + s[k to *] = s, for every k (also negative and out of range)
SplitLaw ==
  \A k \in Idx : Slice(lst, 0, k) \o SliceToEnd(lst, k) = lst

\* find: result is an occurrence, and no earlier one exists; -1 iff none
FindLaw ==
  \A x \in Sym :
    LET p == FindElem(lst, x)  q == FindLastElem(lst, x, Len(lst) - 1) IN
      /\ (p = -1) <=> (\A k \in 1..Len(lst) : lst[k] # x)
      /\ p >= 0 => lst[p + 1] = x /\ \A k \in 1..p : lst[k] # x
      /\ (q = -1) <=> (p = -1)
      /\ q >= 0 => lst[q + 1] = x /\ \A k \in (q + 2)..Len(lst) : lst[k] # x

\* sub-sequence find agrees with Occurs on all parts of length <= 2
FindSubLaw ==
  \A x \in Sym, y \in Sym :
    LET t == <<x, y>>  p == Find(lst, t, 0)  q == FindLast(lst, t, Len(lst) - 1) IN
      /\ p >= 0 => Occurs(lst, t, p) /\ \A k \in 0..(p - 1) : ~Occurs(lst, t, k)
      /\ q >= 0 => Occurs(lst, t, q) /\ \A k \in (q + 1)..Len(lst) : ~Occurs(lst, t, k)
      /\ (p = -1) <=> (q = -1)

TypeOK == lst \in Seq(Sym)

\* Mutators change exactly one position (or nothing when out of range).
OneChange ==
  LET n == Len(lst) n2 == Len(lst') IN
  \/ lst' = lst
  \/ /\ n2 = n + 1                                   \* insert_at
     /\ \E j \in 0..n : /\ \A k \in 1..j : lst'[k] = lst[k]
                        /\ lst'[j + 1] \in Sym
                        /\ \A k \in (j + 1)..n : lst'[k + 1] = lst[k]
  \/ /\ n2 = n - 1                                   \* delete_at
     /\ \E j \in 0..(n - 1) : /\ \A k \in 1..j : lst'[k] = lst[k]
                              /\ \A k \in (j + 2)..n : lst'[k - 1] = lst[k]
  \/ /\ n2 = n                                       \* element assignment
     /\ \E j \in 1..n : \A k \in 1..n : k # j => lst'[k] = lst[k]

OneChangeProp == [][OneChange]_vars

-----------------------------------------------------------------------------
(* The read table for binding A: for every reachable list, the expected
   result of every read with every argument, computed by TLC from the
   operators above and printed as one JSON record per distinct state. *)

NParts == K + K * K
Part(pi) == IF pi <= K THEN <<pi>>
            ELSE <<((pi - K - 1) \div K) + 1, ((pi - K - 1) % K) + 1>>

ReadRec ==
  [ s     |-> lst,
    lo    |-> Lo,
    index |-> [k \in 1..W |-> LET r == Index(lst, Lo + k - 1) IN
                              IF r.ok THEN r.v ELSE NoVal],
    slice |-> [ka \in 1..W |-> [kb \in 1..W |->
                 Slice(lst, Lo + ka - 1, Lo + kb - 1)]],
    toend |-> [ka \in 1..W |-> SliceToEnd(lst, Lo + ka - 1)],
    parts |-> [pi \in 1..NParts |-> Part(pi)],
    find  |-> [pi \in 1..NParts |-> [st \in 1..(MaxLen + 2) |->
                 <<Find(lst, Part(pi), st - 1), FindLast(lst, Part(pi), st - 1)>>]],
    findlast_default |-> [pi \in 1..NParts |-> FindLast(lst, Part(pi), Len(lst) - 1)] ]

ExportReads == Emit("READ", ReadRec)

=============================================================================
