CONSTANTS
  Sigma <- SigRepl
  MaxTok = 3
  MaxStack = 80
  MaxFuel = 400
  Export = TRUE
SPECIFICATION RSpec
INVARIANT RTypeOK
INVARIANT PlusMeansViable
PROPERTY MoreOnlyWhenWaiting
PROPERTY FreshAfterVerdict
CHECK_DEADLOCK FALSE
