------------------------------ MODULE DateOps ------------------------------
(* C17 - reference operators for dates and day numbers.

   A date is a triple <<y, m, d>> of the proleptic Gregorian calendar; the day
   number is the OLE automation day count the implementation uses
   (src/ckl/date.py): 1899-12-30 is day 0, hence 1900-01-01 = 2 and
   1970-01-01 = 25569 (the constant DAYS_EPOCH, pinned by tests/test_date.py).

   Two independent definitions live here on purpose:
   * the *table* definitions (IsLeap, MonthLen, YearLen) which the calendar
     machine of Date.tla steps with - they mirror is_leap_year / month_days /
     year_days of the implementation;
   * the *closed forms* DayNumber / FromDayNumber, which use no month table
     at all (days-from-civil arithmetic on 400-year eras and the 153-day
     five-month cycle).  Date.tla checks that both agree on every day.      *)
EXTENDS Integers, Sequences

\* ---- the Gregorian rule and the month table (mirror of the code) --------
IsLeap(y) == (y % 4 = 0) /\ ((y % 100 # 0) \/ (y % 400 = 0))

MonthTable == <<31, 28, 31, 30, 31, 30, 31, 31, 30, 31, 30, 31>>

MonthLen(y, m) == IF m = 2 /\ IsLeap(y) THEN 29 ELSE MonthTable[m]

YearLen(y) == IF IsLeap(y) THEN 366 ELSE 365

ValidDate(y, m, d) == /\ m \in 1..12
                      /\ d \in 1..MonthLen(y, m)

\* the successor of a date by one calendar day (what "one calendar day" means)
NextDay(y, m, d) ==
  IF d < MonthLen(y, m) THEN <<y, m, d + 1>>
  ELSE IF m < 12 THEN <<y, m + 1, 1>>
  ELSE <<y + 1, 1, 1>>

\* the predecessor by one calendar day
PrevDay(y, m, d) ==
  IF d > 1 THEN <<y, m, d - 1>>
  ELSE IF m > 1 THEN <<y, m - 1, MonthLen(y, m - 1)>>
  ELSE <<y - 1, 12, 31>>

\* ---- closed forms (no table) ---------------------------------------------
\* Days from 0000-03-01 (a year starts in March so the leap day is last);
\* valid for y >= 1.  All operands are non-negative so \div is plain floor.
DaysFromCivil(y, m, d) ==
  LET yy  == IF m <= 2 THEN y - 1 ELSE y
      era == yy \div 400
      yoe == yy - era * 400                               \* 0..399
      mp  == IF m > 2 THEN m - 3 ELSE m + 9               \* March = 0
      doy == (153 * mp + 2) \div 5 + d - 1                \* 0..365
      doe == yoe * 365 + yoe \div 4 - yoe \div 100 + doy  \* 0..146096
  IN era * 146097 + doe

\* 1899-12-30 has DaysFromCivil = 693899; it is day number 0.
OleShift == 693899

DayNumber(y, m, d) == DaysFromCivil(y, m, d) - OleShift

FromDayNumber(n) ==
  LET z   == n + OleShift
      era == z \div 146097
      doe == z - era * 146097
      yoe == (doe - doe \div 1460 + doe \div 36524 - doe \div 146096) \div 365
      doy == doe - (365 * yoe + yoe \div 4 - yoe \div 100)
      mp  == (5 * doy + 2) \div 153
      d   == doy - (153 * mp + 2) \div 5 + 1
      m   == IF mp < 10 THEN mp + 3 ELSE mp - 9
      y   == yoe + era * 400 + (IF m <= 2 THEN 1 ELSE 0)
  IN <<y, m, d>>

\* ---- date arithmetic in whole days ---------------------------------------
\* "moves a date by k calendar days": the date whose day number is k larger.
AddDays(dt, k) == FromDayNumber(DayNumber(dt[1], dt[2], dt[3]) + k)

DiffDays(a, b) == DayNumber(a[1], a[2], a[3]) - DayNumber(b[1], b[2], b[3])

\* the representable range of the property: 1900-01-01 .. 9999-12-31
FirstDay == 2
LastDay  == 2958465
InRange(n) == FirstDay <= n /\ n <= LastDay

\* offsets for the arithmetic laws: one day, month lengths, year lengths,
\* the 4-, 100- and 400-year cycles (both signs)
StrideMagnitudes == {1, 2, 7, 28, 29, 30, 31, 59, 60, 365, 366, 730, 1461, 36524, 36525, 146097}
Strides == StrideMagnitudes \cup {0 - k : k \in StrideMagnitudes}

SecondsPerDay == 86400
=============================================================================
