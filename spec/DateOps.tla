------------------------------ MODULE DateOps ------------------------------
(* C17 - reference operators for dates and day numbers.

   A date is a triple <<y, m, d>> of the proleptic Gregorian calendar; the day
   number is the OLE automation day count the implementation uses
   (src/ckl/date.py): 1899-12-30 is day 0, hence 1900-01-01 = 2 and
   1970-01-01 = 25569 (the constant DAYS_EPOCH, pinned by tests/test_date.py).

   Two independent definitions live here on purpose:
   * the *table* definitions (IsLeap, MonthLen, YearLen) which the calendar
     machine of Date.tla steps with - they mirror is_leap_year / month_days /
     year_days of the implementation;
   * the *closed forms* DayNumber / FromDayNumber, which use no month table
     at all (days-from-civil arithmetic on 400-year eras and the 153-day
     five-month cycle).  Date.tla checks that both agree on every day.      *)
EXTENDS Integers, Sequences

\* ---- the Gregorian rule and the month table (mirror of the code) --------
IsLeap(y) == (y % 4 = 0) /\ ((y % 100 # 0) \/ (y % 400 = 0))

MonthTable == <<31, 28, 31, 30, 31, 30, 31, 31, 30, 31, 30, 31>>

MonthLen(y, m) == IF m = 2 /\ IsLeap(y) THEN 29 ELSE MonthTable[m]

YearLen(y) == IF IsLeap(y) THEN 366 ELSE 365

ValidDate(y, m, d) == /\ m \in 1..12
                      /\ d \in 1..MonthLen(y, m)

\* the successor of a date by one calendar day (what "one calendar day" means)
NextDay(y, m, d) ==
  IF d < MonthLen(y, m) THEN <<y, m, d + 1>>
  ELSE IF m < 12 THEN <<y, m + 1, 1>>
  ELSE <<y + 1, 1, 1>>

\* the predecessor by one calendar day
PrevDay(y, m, d) ==
  IF d > 1 THEN <<y, m, d - 1>>
  ELSE IF m > 1 THEN <<y, m - 1, MonthLen(y, m - 1)>>
  ELSE <<y - 1, 12, 31>>

\* ---- closed forms (no table) ---------------------------------------------
\* Days from 0000-03-01 (a year starts in March so the leap day is last);
\* valid for y >= 1.  All operands are non-negative so \div is plain floor.
DaysFromCivil(y, m, d) ==
  LET yy  == IF m <= 2 THEN y - 1 ELSE y
      era == yy \div 400
      yoe == yy - era * 400                               \* 0..399
      mp  == IF m > 2 THEN m - 3 ELSE m + 9               \* March = 0
      doy == (153 * mp + 2) \div 5 + d - 1                \* 0..365
      doe == yoe * 365 + yoe \div 4 - yoe \div 100 + doy  \* 0..146096
  IN era * 146097 + doe

\* 1899-12-30 has DaysFromCivil = 693899; it is day number 0.
OleShift == 693899

DayNumber(y, m, d) == DaysFromCivil(y, m, d) - OleShift

FromDayNumber(n) ==
  LET z   == n + OleShift
      era == z \div 146097
      doe == z - era * 146097
      yoe == (doe - doe \div 1460 + doe \div 36524 - doe \div 146096) \div 365
      doy == doe - (365 * yoe + yoe \div 4 - yoe \div 100)
      mp  == (5 * doy + 2) \div 153
      d   == doy - (153 * mp + 2) \div 5 + 1
      m   == IF mp < 10 THEN mp + 3 ELSE mp - 9
      y   == yoe + era * 400 + (IF m <= 2 THEN 1 ELSE 0)
  IN <<y, m, d>>

\* ---- date arithmetic in whole days ---------------------------------------
\* "moves a date by k calendar days": the date whose day number is k larger.
AddDays(dt, k) == FromDayNumber(DayNumber(dt[1], dt[2], dt[3]) + k)

DiffDays(a, b) == DayNumber(a[1], a[2], a[3]) - DayNumber(b[1], b[2], b[3])

\* the representable range of the property: 1900-01-01 .. 9999-12-31
FirstDay == 2
LastDay  == 2958465
InRange(n) == FirstDay <= n /\ n <= LastDay

\* offsets for the arithmetic laws: one day, month lengths, year lengths,
\* the 4-, 100- and 400-year cycles (both signs)
StrideMagnitudes == {1, 2, 7, 28, 29, 30, 31, 59, 60, 365, 366, 730, 1461, 36524, 36525, 146097}
Strides == StrideMagnitudes \cup {0 - k : k \in StrideMagnitudes}

SecondsPerDay == 86400

\* ---- reading a date: the fields "to the second" ---------------------------
\* what string(d), format_date and date_year .. date_second show of the date
\* with day number n and second of day s: <<y, m, d, H, M, S>>
Fields(n, s) ==
  LET dt == FromDayNumber(n)
  IN <<dt[1], dt[2], dt[3], s \div 3600, (s \div 60) % 60, s % 60>>

\* a text of eight digits yyyyMMdd read as three fields (they need not be a date)
TextYear(t)  == t \div 10000
TextMonth(t) == (t \div 100) % 100
TextDay(t)   == t % 100
\* is_valid_date / parse_date: the fields are a date of the years 1..9999
ValidText(t) == /\ TextYear(t) \in 1..9999
                /\ ValidDate(TextYear(t), TextMonth(t), TextDay(t))
TextOf(y, m, d) == y * 10000 + m * 100 + d

\* order of two instants (n1, s1) and (n2, s2) without leaving 32-bit integers
Before(n1, s1, n2, s2) == n1 < n2 \/ (n1 = n2 /\ s1 < s2)

\* ---- the environment of a process: its time zone --------------------------
\* Date values carry no zone, so nothing the property names may depend on the
\* zone of the process (TZ at process start, or changed while it runs).  The
\* zones are POSIX TZ strings (no tz database needed).  std / dst are minutes
\* east of Greenwich; a zone with daylight saving time switches at local hour
\* on[3] of the on[2]-th Sunday (5 = last) of month on[1], and back at local
\* (daylight) hour off[3] of the off[2]-th Sunday of month off[1].
Zones == <<
  [tz |-> "UTC0",                         std |-> 0,    dst |-> 0,    on |-> <<0, 0, 0>>,  off |-> <<0, 0, 0>>],
  [tz |-> "CET-1CEST,M3.5.0,M10.5.0/3",   std |-> 60,   dst |-> 120,  on |-> <<3, 5, 2>>,  off |-> <<10, 5, 3>>],
  [tz |-> "EST5EDT,M3.2.0,M11.1.0",       std |-> -300, dst |-> -240, on |-> <<3, 2, 2>>,  off |-> <<11, 1, 2>>],
  [tz |-> "AEST-10AEDT,M10.1.0,M4.1.0/3", std |-> 600,  dst |-> 660,  on |-> <<10, 1, 2>>, off |-> <<4, 1, 3>>],
  [tz |-> "<+14>-14",                     std |-> 840,  dst |-> 840,  on |-> <<0, 0, 0>>,  off |-> <<0, 0, 0>>],
  [tz |-> "<-12>12",                      std |-> -720, dst |-> -720, on |-> <<0, 0, 0>>,  off |-> <<0, 0, 0>>],
  [tz |-> "NST3:30NDT,M3.2.0,M11.1.0",    std |-> -210, dst |-> -150, on |-> <<3, 2, 2>>,  off |-> <<11, 1, 2>>],
  [tz |-> "<+0545>-5:45",                 std |-> 345,  dst |-> 345,  on |-> <<0, 0, 0>>,  off |-> <<0, 0, 0>>]
>>
NZones == Len(Zones)
HasDst(z) == Zones[z].std # Zones[z].dst

\* day of the week, closed form: day number 0 is 1899-12-30, a Saturday
Weekday(n) == (n + 6) % 7                 \* 0 = Sunday .. 6 = Saturday

\* day of the month of the k-th Sunday of month m (k = 5: the last one)
NthSunday(y, m, k) ==
  LET first == 1 + ((7 - Weekday(DayNumber(y, m, 1))) % 7)
      cand  == first + 7 * (k - 1)
  IN IF cand <= MonthLen(y, m) THEN cand ELSE cand - 7

\* The instants of year y at which a conversion that goes through the clock of
\* the machine (seconds since 1970 in local time) goes wrong in zone z: local
\* times that do not exist (the hour skipped when daylight saving time starts)
\* and local times that occur twice (the hour repeated when it ends).
\* <<y, m, d, second of day>>; the first and the last second of each of the two hours.
HazardsOf(z, y) ==
  IF ~HasDst(z) THEN {}
  ELSE LET on  == Zones[z].on
           off == Zones[z].off
           jump == (Zones[z].dst - Zones[z].std) * 60
       IN {<<y, on[1], NthSunday(y, on[1], on[2]), on[3] * 3600 + x>> : x \in {0, jump - 1}}
          \cup
          {<<y, off[1], NthSunday(y, off[1], off[2]), off[3] * 3600 - jump + x>> : x \in {0, jump - 1}}
=============================================================================
