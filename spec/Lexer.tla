------------------------------ MODULE Lexer ------------------------------
(* The scanner as a state machine fed chunk by chunk (C01 raw noise, C14
   layout/spelling independence at token level, C20 token lines).

   A chunk is a piece of source text: a single character (noise configs), or
   a complete token spelling / separator (structured configs).  `Feed` pushes
   the characters of one chunk through LexerOps!LexStep; `Finish` pushes the
   sentinel blank that Lexer.__init__ appends (script + " ").

   Chunks are records [text, tok, ty, val]: tok = 1 marks a complete token
   spelling that is intended to lex as (ty, val); tok = 0 is a separator or
   noise.  In structured mode a token chunk may only follow a separator
   chunk, so the intended token sequence `want` is well defined and
   SameSignature states layout/spelling independence: whatever separators
   (blank, tab, LF, CRLF, comment) and spellings (hex/binary/underscored
   ints, both quote styles, != / <>) were chosen, the scanner delivers
   exactly the intended (type, value) sequence.                              *)
EXTENDS LexerOps, TLC, Json

CONSTANTS Chunks, MaxChunks, Structured, Export

VARIABLES s,       \* scanner state (LexerOps)
          inp,     \* characters fed so far
          want,    \* intended token signatures (structured mode)
          k,       \* chunks fed
          sep,     \* last chunk was a separator (or nothing fed yet)
          fin      \* sentinel fed

vars == <<s, inp, want, k, sep, fin>>

Init == s = Init0 /\ inp = << >> /\ want = << >> /\ k = 0 /\ sep = TRUE /\ fin = FALSE

Feed(c) ==
  /\ ~fin /\ s.status = "run" /\ k < MaxChunks
  /\ (Structured /\ c.tok = 1) => sep
  /\ s' = LexFrom(s, c.text)
  /\ inp' = inp \o c.text
  /\ want' = IF c.tok = 1 THEN Append(want, <<c.ty, c.val>>) ELSE want
  /\ k' = k + 1
  /\ sep' = (c.tok = 0)
  /\ fin' = FALSE

Finish ==
  /\ ~fin /\ s.status = "run"
  /\ s' = LexStep(s, SP, TRUE)
  /\ fin' = TRUE
  /\ UNCHANGED <<inp, want, k, sep>>

Next == (\E c \in Chunks : Feed(c)) \/ Finish
Spec == Init /\ [][Next]_vars

-----------------------------------------------------------------------------
Text == IF fin THEN Append(inp, SP) ELSE inp

\* C01: the scanner never leaves its own status domain, every loop iteration
\* consumes its character (LexStep is total: TLC would report a CASE without
\* applicable arm), and st stays within the implementation's states
TypeOK ==
  /\ s.status \in {"run", "lexerror"}
  /\ s.st \in {0,1,2,21,3,31,311,312,4,41,411,412,5,6,7,70,71,72,8,9,10}
  /\ s.n = Len(Text) \/ s.status = "lexerror"

\* C20: every token carries the line on which its first character stands
LineIsStartLine ==
  \A i \in 1..Len(s.out) : s.out[i].line = LineOf(Text, s.out[i].si)

\* tokens begin at non-blank characters, in increasing order
StartsOrdered ==
  \A i \in 1..Len(s.out) :
    /\ s.out[i].si \in 1..Len(Text)
    /\ Text[s.out[i].si] \notin WS
    /\ i > 1 => s.out[i - 1].si < s.out[i].si

\* C14 (token level): the delivered signature is the intended one
Norm(sig) == IF sig = <<"operator", <<LT, GT>>>> THEN <<"operator", <<BANG, EQ>>>> ELSE sig
SameSignature ==
  (Structured /\ fin /\ s.status = "run") =>
     /\ Len(s.out) = Len(want)
     /\ \A i \in 1..Len(want) : Norm(<<s.out[i].ty, s.out[i].val>>) = Norm(want[i])

\* binding A: one record per finished (or failed) run
Rec == [inp |-> inp, status |-> s.status,
        toks |-> [i \in 1..Len(s.out) |-> [ty |-> s.out[i].ty, val |-> s.out[i].val,
                                            line |-> s.out[i].line]]]
ExportRuns == (Export /\ (fin \/ s.status # "run")) => PrintT("@@LEX@@" \o ToJson(Rec))

\* the layout / spelling alphabet itself, for the harness of C14 (printed once)
ExportChunks == (Export /\ k = 0 /\ ~fin) =>
                   \A ch \in Chunks : PrintT("@@CHUNK@@" \o ToJson(ch))
=============================================================================
