---------------------------- MODULE Env_Trace ----------------------------
(* C03, binding B: the environment chain as the real interpreter uses it.
   harness/envtrace.py wraps (from outside, nothing in /repo changes)
   Environment.__init__/put/set/get/remove, NodeLambda.evaluate (a closure is
   created) and FuncLambda.execute (a closure is called) and logs one event per
   operation; this module replays them on the model of the chain and checks
   what the property states:

     * a function body runs in a NEW frame whose parent is the frame in which
       the function was CREATED (lexical scoping) - never the caller's;
     * `def` (put) binds in the frame that executes it;
     * assignment (set) updates the NEAREST enclosing frame that binds the
       name and fails when there is none (never creates);
     * a lookup (get) finds the nearest enclosing binding.

   Frames and closures carry sequence numbers given by the harness.  Frames
   created while the base library and modules are loaded are declared with
   `known`; a frame or closure the model does not know (created before the
   recording started) makes the dependent checks vacuous - counted, never
   failed.  Events (NDJSON):
     [e |-> "known",   f, p, xs]    a pre-existing frame with its names
     [e |-> "reset"]                a new program starts: frames and closures created by
                                    the previous one are dropped (those marked persistent stay)
     [e |-> "frame",   f, p]        Environment(parent)
     [e |-> "put",     f, x, g]     environment.put called on frame f stored the name in frame g
                                    (also a direct store into a frame's table: f = g)
     [e |-> "remove",  f, x]
     [e |-> "get",     f, x, g]     lookup from frame f found in frame g (0: not found)
     [e |-> "set",     f, x, g]     assignment from frame f stored in frame g (0: error, nothing stored)
     [e |-> "closure", c, f]        lambda evaluated in frame f
     [e |-> "call",    c]           FuncLambda.execute of closure c begins; the next `frame` is its call frame
     [e |-> "reparent", f, p]       Environment.withParent
     [e |-> "persist", f]           frame f outlives the program (module environment)
   A rejected event is reported (@@BAD@@ with the rule) and the model follows
   the implementation so that later events are still checked.               *)
EXTENDS Integers, Sequences, FiniteSets, TLC, Json, IOUtils

Trace == ndJsonDeserialize(IOEnv.TRACE_FILE)

VARIABLES l,
          par,        \* frame -> parent frame (0 = none)
          defs,       \* frame -> set of names bound there
          clos,       \* closure -> frame it was created in
          keep,       \* frames and closures that survive `reset`
          pend        \* creation frame expected as parent of the next frame (0 = none, -1 = unknown closure)
vars == <<l, par, defs, clos, keep, pend>>

Ev == Trace[l]
Bad(rule) == PrintT("@@BAD@@" \o ToJson([l |-> l, rule |-> rule]))
Check(c, rule) == IF c THEN TRUE ELSE Bad(rule)
Unchecked(why) == PrintT("@@UNCHECKED@@" \o ToJson([l |-> l, why |-> why]))

Known(f) == f \in DOMAIN par

\* nearest frame at or above f that binds x: 0 = none, -1 = the chain leaves the known frames
RECURSIVE Resolve(_, _)
Resolve(f, x) == IF f = 0 THEN 0
                 ELSE IF ~Known(f) THEN -1
                 ELSE IF x \in defs[f] THEN f
                 ELSE Resolve(par[f], x)

Ext(fn, k, v) == [j \in DOMAIN fn \cup {k} |-> IF j = k THEN v ELSE fn[j]]
Restrict(fn, S) == [j \in DOMAIN fn \cap S |-> fn[j]]

Init == /\ l = 1 /\ par = <<>> /\ defs = <<>> /\ clos = <<>> /\ keep = [fr |-> {}, cl |-> {}] /\ pend = 0

Step ==
  /\ l <= Len(Trace)
  /\ l' = l + 1
  /\ LET e == Ev IN
     CASE e.e = "known" ->
            /\ par' = Ext(par, e.f, e.p) /\ defs' = Ext(defs, e.f, {e.xs[k] : k \in 1..Len(e.xs)})
            /\ keep' = [keep EXCEPT !.fr = @ \cup {e.f}]
            /\ UNCHANGED clos
       [] e.e = "reset" ->
            /\ par' = Restrict(par, keep.fr) /\ defs' = Restrict(defs, keep.fr)
            /\ clos' = Restrict(clos, keep.cl)
            /\ UNCHANGED keep
       [] e.e = "persist" ->
            /\ keep' = [keep EXCEPT !.fr = @ \cup {e.f},
                                    !.cl = @ \cup {c \in DOMAIN clos : clos[c] = e.f}]
            /\ UNCHANGED <<par, defs, clos>>
       [] e.e = "frame" ->
            /\ (IF pend > 0 THEN Check(e.p = pend, "call-frame-is-not-a-child-of-the-creating-frame")
                ELSE IF pend = -1 THEN Unchecked("call of a closure created before recording") ELSE TRUE)
            /\ par' = Ext(par, e.f, e.p) /\ defs' = Ext(defs, e.f, {})
            /\ UNCHANGED <<clos, keep>>
       [] e.e = "put" ->
            /\ Check(e.g = e.f, "definition-bound-in-another-frame")
            /\ (IF e.g > 0 /\ Known(e.g) THEN defs' = [defs EXCEPT ![e.g] = @ \cup {e.x}]
                ELSE Unchecked("put into an unknown frame") /\ defs' = defs)
            /\ UNCHANGED <<par, clos, keep>>
       [] e.e = "remove" ->
            /\ (IF Known(e.f) THEN defs' = [defs EXCEPT ![e.f] = @ \ {e.x}] ELSE defs' = defs)
            /\ UNCHANGED <<par, clos, keep>>
       [] e.e = "get" ->
            /\ LET r == Resolve(e.f, e.x) IN
               IF r = -1 THEN Unchecked("lookup through unknown frames")
               ELSE Check(e.g = r, "lookup-did-not-find-the-nearest-binding")
            /\ UNCHANGED <<par, defs, clos, keep>>
       [] e.e = "set" ->
            /\ LET r == Resolve(e.f, e.x) IN
               IF r = -1 THEN Unchecked("assignment through unknown frames")
               ELSE Check(e.g = r, "assignment-did-not-update-the-nearest-binding")
            \* follow the implementation: if it stored somewhere, the name is bound there now
            /\ (IF e.g > 0 /\ Known(e.g) THEN defs' = [defs EXCEPT ![e.g] = @ \cup {e.x}] ELSE defs' = defs)
            /\ UNCHANGED <<par, clos, keep>>
       [] e.e = "closure" ->
            /\ clos' = Ext(clos, e.c, e.f)
            /\ UNCHANGED <<par, defs, keep>>
       [] e.e = "reparent" ->           \* Environment.withParent (Interpreter.interpret with a caller-supplied environment)
            /\ (IF Known(e.f) THEN par' = [par EXCEPT ![e.f] = e.p] ELSE par' = par)
            /\ UNCHANGED <<defs, clos, keep>>
       [] e.e = "call" ->
            /\ UNCHANGED <<par, defs, clos, keep>>
       [] OTHER -> Bad("unknown-event") /\ UNCHANGED <<par, defs, clos, keep>>
  \* a call's first act is opening its frame: anything else in between is reported
  /\ (IF pend > 0 /\ Ev.e # "frame" THEN Bad("call-did-not-open-a-new-frame") ELSE TRUE)
  /\ pend' = IF Ev.e = "call" THEN (IF Ev.c \in DOMAIN clos THEN clos[Ev.c] ELSE -1) ELSE 0
  /\ (l = Len(Trace) => PrintT("@@DONE@@" \o ToJson([n |-> l])))

Spec == Init /\ [][Step]_vars
Accepted == TLCGet("stats").diameter - 1 = Len(Trace)
=============================================================================
