CONSTANTS
  Chunks <- K5
  MaxChunks = 4
  Structured = FALSE
  Export = TRUE
  StampAtEmission = FALSE
SPECIFICATION Spec
INVARIANT TypeOK
INVARIANT LineIsStartLine
INVARIANT StartsOrdered
INVARIANT ExportRuns
CHECK_DEADLOCK FALSE
