------------------------------- MODULE Val -------------------------------
(* C06 / C07 / C08 - the value model of checkerlang: reference definitions of
   equality, order and text form, quoted from the three property statements.
   Pure operators, no state: shared by ValLaws.tla (laws over a finite
   universe), ValCont.tla (set / map objects), ValSort.tla (the sorting
   machine) and Val_Trace.tla (validation of observations recorded from the
   implementation).

   A value is a uniformly typed record (TLC cannot compare values of different
   TLA+ types, so every field is present in every value):

     k      kind: "null" "bool" "int" "dec" "str" "date" "pat" "list" "set" "map"
            and "ref": a value with identity only (function, stream), n = <<id, 1>>
     n      <<num, den>>   numeric payload (bool: <<0|1, 1>>)
              den >= 1 : the exact rational num/den  (ints: den = 1;
                         decimals: den a power of two <= 1024, so the decimal
                         expansion is finite and equals the host's shortest repr)
              den = -1 : negative zero (num = 0), a decimal equal to 0.0
              den = 0  : a big integral value, sign num \in {-1,1}, magnitude
                         the limb sequence s (base 10^4, little endian,
                         Len >= 3, so |value| >= 10^8 > every small value)
     s      Seq(Nat): code points of a string / pattern payload / the 14
            digits YYYYMMDDHHMMSS of a date / the limbs of a big number
     items  Seq(value): list elements; set elements or map keys as the
            sequence of representatives in insertion order, without
            Equal-duplicates (that is what a host hash container keeps)
     vals   Seq(value): map values, parallel to items                        *)
EXTENDS Integers, Sequences, FiniteSets

Mk(k, n, s, items, vals) == [k |-> k, n |-> n, s |-> s, items |-> items, vals |-> vals]
NoN == <<0, 1>>

VNull            == Mk("null", NoN, << >>, << >>, << >>)
VBool(b)         == Mk("bool", <<b, 1>>, << >>, << >>, << >>)     \* b \in {0,1}
VInt(i)          == Mk("int", <<i, 1>>, << >>, << >>, << >>)
VBigInt(sg, l)   == Mk("int", <<sg, 0>>, l, << >>, << >>)
VDec(p, q)       == Mk("dec", <<p, q>>, << >>, << >>, << >>)
VNegZero         == VDec(0, -1)
VBigDec(sg, l)   == Mk("dec", <<sg, 0>>, l, << >>, << >>)         \* integral-valued
VStr(s)          == Mk("str", NoN, s, << >>, << >>)
VDate(s)         == Mk("date", NoN, s, << >>, << >>)
VPat(s)          == Mk("pat", NoN, s, << >>, << >>)
VList(items)    == Mk("list", NoN, << >>, items, << >>)
VSet(items)     == Mk("set", NoN, << >>, items, << >>)
VMap(keys, vs)  == Mk("map", NoN, << >>, keys, vs)
VRef(id)        == Mk("ref", <<id, 1>>, << >>, << >>, << >>)

Kinds == {"null", "bool", "int", "dec", "str", "date", "pat", "list", "set", "map", "ref"}

MinOf(S) == CHOOSE x \in S : \A y \in S : x <= y
MaxOf(S) == CHOOSE x \in S : \A y \in S : x >= y
Abs(x)   == IF x < 0 THEN -x ELSE x
Min2(a, b) == IF a < b THEN a ELSE b

IsNum(v) == v.k \in {"int", "dec"}
IsBig(v) == v.n[2] = 0

\* order kind: ints and decimals are ordered together
Rank(v) == CASE v.k = "null" -> 0 [] v.k = "bool" -> 1 [] v.k = "int" -> 2
             [] v.k = "dec" -> 2 [] v.k = "str" -> 3 [] v.k = "date" -> 4
             [] v.k = "pat" -> 5 [] v.k = "list" -> 6 [] v.k = "set" -> 7
             [] v.k = "map" -> 8 [] v.k = "ref" -> 9
SameKind(a, b) == Rank(a) = Rank(b)

-----------------------------------------------------------------------------
(* Numbers: exact comparison. Small values by cross multiplication (bounded so
   that TLC's 32 bit integers do not overflow), big ones limb-wise. *)

Pow2 == {1, 2, 4, 8, 16, 32, 64, 128, 256, 512, 1024}
SmallMax == 1000000

MagCmp(x, y) ==
  IF Len(x) # Len(y) THEN (IF Len(x) < Len(y) THEN -1 ELSE 1)
  ELSE LET D == {i \in 1..Len(x) : x[i] # y[i]} IN
       IF D = {} THEN 0
       ELSE LET m == MaxOf(D) IN IF x[m] < y[m] THEN -1 ELSE 1

NumCmp(a, b) ==
  CASE IsBig(a) /\ IsBig(b) ->
         IF a.n[1] # b.n[1] THEN (IF a.n[1] < b.n[1] THEN -1 ELSE 1)
         ELSE a.n[1] * MagCmp(a.s, b.s)
    [] IsBig(a) /\ ~IsBig(b) -> a.n[1]
    [] ~IsBig(a) /\ IsBig(b) -> -b.n[1]
    [] OTHER -> LET l == a.n[1] * Abs(b.n[2])
                    r == b.n[1] * Abs(a.n[2])
                IN IF l < r THEN -1 ELSE IF l > r THEN 1 ELSE 0

\* lexicographic order on sequences of naturals, a proper prefix first
SeqLess(x, y) ==
  LET m == Min2(Len(x), Len(y))
      D == {i \in 1..m : x[i] # y[i]}
  IN IF D = {} THEN Len(x) < Len(y)
     ELSE LET i == MinOf(D) IN x[i] < y[i]

-----------------------------------------------------------------------------
(* C06: Equal.  C07: Less.
   Less is defined on ALL pairs so that sorting and rendering are functions:
   - on values of one kind whose order the statement names (numbers, strings,
     booleans, dates, lists) it is that order;
   - on the kinds the statement does not name an order for (NULL, patterns,
     sets, maps) and across kinds it is this model's completion (patterns by
     payload, sets/maps by their sorted content, kinds by Rank). Only the LAWS
     (strict total order, consistent with Equal) are claimed there; the
     harness compares the direction only where Stated(a,b) holds.          *)

RECURSIVE Equal(_, _)

Has(items, v) == \E i \in DOMAIN items : Equal(items[i], v)
IndexOf(items, v) == IF Has(items, v)
                     THEN MinOf({i \in DOMAIN items : Equal(items[i], v)}) ELSE 0

Equal(a, b) ==
  IF IsNum(a) /\ IsNum(b) THEN NumCmp(a, b) = 0
  ELSE IF a.k # b.k THEN FALSE
  ELSE CASE a.k = "null" -> TRUE
         [] a.k = "bool" -> a.n = b.n
         [] a.k = "ref" -> a.n = b.n                     \* identity
         [] a.k \in {"str", "date", "pat"} -> a.s = b.s
         [] a.k = "list" ->
              /\ Len(a.items) = Len(b.items)
              /\ \A i \in 1..Len(a.items) : Equal(a.items[i], b.items[i])
         [] a.k = "set" ->
              /\ \A i \in DOMAIN a.items : Has(b.items, a.items[i])
              /\ \A j \in DOMAIN b.items : Has(a.items, b.items[j])
         [] a.k = "map" ->
              /\ \A i \in DOMAIN a.items : \E j \in DOMAIN b.items :
                    Equal(a.items[i], b.items[j]) /\ Equal(a.vals[i], b.vals[j])
              /\ \A j \in DOMAIN b.items : \E i \in DOMAIN a.items :
                    Equal(a.items[i], b.items[j]) /\ Equal(a.vals[i], b.vals[j])

(* The order is defined in two steps.  Norm(v) is v with the elements of every
   set and the entries of every map inside it enumerated in ascending order
   (bottom up); LessN is the order on such normal forms; Less(a, b) is
   LessN(Norm(a), Norm(b)).  (A model over a universe normalises each value
   once and compares the normal forms.) *)
RECURSIVE LessN(_, _), ItemsLessN(_, _), Norm(_)

\* element-wise lexicographic: the first position holding non-Equal elements
\* decides; when there is none the shorter sequence is first
ItemsLessN(x, y) ==
  LET m == Min2(Len(x), Len(y))
      D == {i \in 1..m : ~Equal(x[i], y[i])}
  IN IF D = {} THEN Len(x) < Len(y)
     ELSE LET i == MinOf(D) IN LessN(x[i], y[i])

\* map entries flattened <<k1, v1, k2, v2, ...>>
Entries(m) == [q \in 1..(2 * Len(m.items)) |->
                 IF q % 2 = 1 THEN m.items[(q + 1) \div 2] ELSE m.vals[q \div 2]]

LessN(a, b) ==
  IF Rank(a) # Rank(b) THEN Rank(a) < Rank(b)
  ELSE CASE a.k = "null" -> FALSE
         [] IsNum(a) -> NumCmp(a, b) < 0                  \* numeric, ints and decimals together
         [] a.k = "bool" -> a.n[1] < b.n[1]               \* FALSE before TRUE
         [] a.k = "ref" -> a.n[1] < b.n[1]
         [] a.k = "str" -> SeqLess(a.s, b.s)              \* code points, prefix first
         [] a.k = "date" -> SeqLess(a.s, b.s)             \* chronological (fixed width stamp)
         [] a.k = "pat" -> SeqLess(a.s, b.s)
         [] a.k = "list" -> ItemsLessN(a.items, b.items)  \* element-wise lexicographic
         [] a.k = "set" -> ItemsLessN(a.items, b.items)   \* (elements already ascending)
         [] a.k = "map" -> ItemsLessN(Entries(a), Entries(b))

\* SortPermN(items)[p] = index in items of the p-th smallest element (items are
\* normal forms, pairwise non-Equal, LessN is total on them: ranks are distinct)
SortPermN(items) ==
  LET n == Len(items)
      R(i) == 1 + Cardinality({j \in 1..n : LessN(items[j], items[i])})
  IN [p \in 1..n |-> CHOOSE i \in 1..n : R(i) = p]

Norm(v) ==
  IF v.k \notin {"list", "set", "map"} THEN v
  ELSE LET its == [i \in 1..Len(v.items) |-> Norm(v.items[i])]
           vs  == [i \in 1..Len(v.vals) |-> Norm(v.vals[i])]
       IN IF v.k = "list" THEN Mk("list", NoN, << >>, its, << >>)
          ELSE LET sp == SortPermN(its) IN
               Mk(v.k, NoN, << >>, [p \in 1..Len(its) |-> its[sp[p]]],
                  [p \in 1..Len(vs) |-> vs[sp[p]]])

Less(a, b) == LessN(Norm(a), Norm(b))
\* the elements of a set / keys of a map in ascending order
SortItems(items) == Norm(VSet(items)).items

\* the pairs whose order the C07 statement names
RECURSIVE Stated(_, _)
Stated(a, b) ==
  /\ SameKind(a, b)
  /\ CASE a.k \in {"int", "dec", "str", "bool", "date"} -> TRUE
       [] a.k = "list" ->
            LET m == Min2(Len(a.items), Len(b.items))
                D == {i \in 1..m : ~Equal(a.items[i], b.items[i])}
            IN D = {} \/ (LET i == MinOf(D) IN Stated(a.items[i], b.items[i]))
       [] OTHER -> FALSE

\* compare(a, b) as the sign
Compare(a, b) == IF Less(a, b) THEN -1 ELSE IF Less(b, a) THEN 1 ELSE 0

\* the enumeration order of every set / map inside v is named by the statement
RECURSIVE OrderStated(_)
OrderStated(v) ==
  /\ v.k \in {"set", "map"} =>
       \A i \in DOMAIN v.items, j \in DOMAIN v.items :
          i # j => Stated(v.items[i], v.items[j])
  /\ \A i \in DOMAIN v.items : OrderStated(v.items[i])
  /\ \A i \in DOMAIN v.vals : OrderStated(v.vals[i])

-----------------------------------------------------------------------------
(* Containers as the host keeps them: insertion-ordered representatives. *)

NoDup(items) == \A i \in DOMAIN items, j \in DOMAIN items :
                   i # j => ~Equal(items[i], items[j])

DropAt(s, i) == SubSeq(s, 1, i - 1) \o SubSeq(s, i + 1, Len(s))

\* adding an element Equal to one already held keeps the old representative
SetAdd(st, v)    == IF Has(st.items, v) THEN st ELSE VSet(Append(st.items, v))
SetRemove(st, v) == LET i == IndexOf(st.items, v) IN
                    IF i = 0 THEN st ELSE VSet(DropAt(st.items, i))
SetDiff(a, b)    == VSet(SelectSeq(a.items, LAMBDA x : ~Has(b.items, x)))
Members(st)      == {st.items[i] : i \in DOMAIN st.items}

\* a put on an Equal key replaces the value and keeps the old key object
MapPut(m, k, x) == LET i == IndexOf(m.items, k) IN
                   IF i = 0 THEN VMap(Append(m.items, k), Append(m.vals, x))
                   ELSE VMap(m.items, [m.vals EXCEPT ![i] = x])
MapHas(m, k)    == Has(m.items, k)
MapGet(m, k)    == LET i == IndexOf(m.items, k) IN
                   IF i = 0 THEN [ok |-> FALSE, v |-> VNull] ELSE [ok |-> TRUE, v |-> m.vals[i]]
MapRemove(m, k) == LET i == IndexOf(m.items, k) IN
                   IF i = 0 THEN m ELSE VMap(DropAt(m.items, i), DropAt(m.vals, i))

\* find(list, x): first position (0-based) holding an Equal element, or -1
ListFind(l, v)  == IndexOf(l.items, v) - 1
ListHas(l, v)   == Has(l.items, v)

-----------------------------------------------------------------------------
(* C08: the text form, as code points. *)

Digit(d) == 48 + d
RECURSIVE NatDigits(_), FracDigits(_, _), Flat(_)
NatDigits(n) == IF n < 10 THEN <<Digit(n)>> ELSE NatDigits(n \div 10) \o <<Digit(n % 10)>>
Pad4(l) == <<Digit(l \div 1000), Digit((l \div 100) % 10), Digit((l \div 10) % 10), Digit(l % 10)>>
Flat(ss) == IF ss = << >> THEN << >> ELSE Head(ss) \o Flat(Tail(ss))
LimbDigits(l) == LET n == Len(l) IN
  NatDigits(l[n]) \o Flat([i \in 1..(n - 1) |-> Pad4(l[n - i])])
\* digits of r/q after the point, 0 <= r < q, q a power of two: finite
FracDigits(r, q) == IF r = 0 THEN << >>
                    ELSE <<Digit((r * 10) \div q)>> \o FracDigits((r * 10) % q, q)

IsNeg(v) == IF IsBig(v) THEN v.n[1] < 0 ELSE (v.n[1] < 0 \/ v.n[2] < 0)
\* the numeral without sign
Numeral(v) ==
  IF v.k = "int" THEN (IF IsBig(v) THEN LimbDigits(v.s) ELSE NatDigits(Abs(v.n[1])))
  ELSE IF IsBig(v) THEN LimbDigits(v.s) \o <<46, 48>>
  ELSE LET q == Abs(v.n[2])  p == Abs(v.n[1])  f == FracDigits(p % q, q) IN
       NatDigits(p \div q) \o <<46>> \o (IF f = << >> THEN <<48>> ELSE f)

\* the five escapes: backslash, quote, CR, LF, TAB
EscChar(c) == CASE c = 92 -> <<92, 92>> [] c = 39 -> <<92, 39>> [] c = 13 -> <<92, 114>>
                [] c = 10 -> <<92, 110>> [] c = 9 -> <<92, 116>> [] OTHER -> <<c>>
Escape(s) == Flat([i \in 1..Len(s) |-> EscChar(s[i])])
Quote(s)  == <<39>> \o Escape(s) \o <<39>>

TxtNULL  == <<78, 85, 76, 76>>
TxtTRUE  == <<84, 82, 85, 69>>
TxtFALSE == <<70, 65, 76, 83, 69>>
TxtSep   == <<44, 32>>            \* ", "
TxtArrow == <<32, 61, 62, 32>>    \* " => "

RECURSIVE RenderN(_), Join(_, _)
Join(ts, sep) == IF Len(ts) = 0 THEN << >>
                 ELSE IF Len(ts) = 1 THEN ts[1]
                 ELSE ts[1] \o sep \o Join(Tail(ts), sep)

\* a set or map whose content text begins with "<" or ends with ">" is padded
\* with one space, otherwise "<<" "<<" would fuse into "<<<" "<" when read back
Pad(open, inner, close) ==
  LET l == IF inner # << >> /\ inner[1] = 60 THEN <<32>> ELSE << >>
      r == IF inner # << >> /\ inner[Len(inner)] = 62 THEN <<32>> ELSE << >>
  IN open \o l \o inner \o r \o close

\* text of a normal form: sets and maps are written in their (ascending) order
RenderN(v) ==
  CASE v.k = "null" -> TxtNULL
    [] v.k = "bool" -> IF v.n[1] = 1 THEN TxtTRUE ELSE TxtFALSE
    [] IsNum(v) -> (IF IsNeg(v) THEN <<45>> ELSE << >>) \o Numeral(v)
    [] v.k = "str" -> Quote(v.s)
    [] v.k = "date" -> v.s
    [] v.k = "pat" -> <<47, 47>> \o v.s \o <<47, 47>>
    [] v.k = "ref" -> <<60, 35>> \o NatDigits(v.n[1]) \o <<62>>    \* not a data value
    [] v.k = "list" ->
         <<91>> \o Join([i \in 1..Len(v.items) |-> RenderN(v.items[i])], TxtSep) \o <<93>>
    [] v.k = "set" ->
         Pad(<<60, 60>>, Join([i \in 1..Len(v.items) |-> RenderN(v.items[i])], TxtSep), <<62, 62>>)
    [] v.k = "map" ->
         Pad(<<60, 60, 60>>,
             Join([p \in 1..Len(v.items) |->
                     RenderN(v.items[p]) \o TxtArrow \o RenderN(v.vals[p])], TxtSep),
             <<62, 62, 62>>)
Render(v) == RenderN(Norm(v))

\* The token sequence the scanner must deliver for the text: [t: type, s: payload]
Tok(t, s) == [t |-> t, s |-> s]
TComma == Tok("interpunction", <<44>>)
RECURSIVE TokensN(_), JoinT(_, _)
JoinT(ts, sep) == IF Len(ts) = 0 THEN << >>
                  ELSE IF Len(ts) = 1 THEN ts[1]
                  ELSE ts[1] \o sep \o JoinT(Tail(ts), sep)
TokensN(v) ==
  CASE v.k = "null" -> <<Tok("identifier", TxtNULL)>>
    [] v.k = "bool" -> <<Tok("boolean", IF v.n[1] = 1 THEN TxtTRUE ELSE TxtFALSE)>>
    [] IsNum(v) -> (IF IsNeg(v) THEN <<Tok("operator", <<45>>)>> ELSE << >>)
                   \o <<Tok(IF v.k = "int" THEN "int" ELSE "decimal", Numeral(v))>>
    [] v.k = "str" -> <<Tok("string", v.s)>>            \* payload: the string itself
    [] v.k = "date" -> <<Tok("int", v.s)>>
    [] v.k = "pat" -> <<Tok("pattern", <<47, 47>> \o v.s \o <<47, 47>>)>>
    [] v.k = "ref" -> <<Tok("ref", NatDigits(v.n[1]))>>
    [] v.k = "list" ->
         <<Tok("interpunction", <<91>>)>>
         \o JoinT([i \in 1..Len(v.items) |-> TokensN(v.items[i])], <<TComma>>)
         \o <<Tok("interpunction", <<93>>)>>
    [] v.k = "set" ->
         <<Tok("interpunction", <<60, 60>>)>>
         \o JoinT([i \in 1..Len(v.items) |-> TokensN(v.items[i])], <<TComma>>)
         \o <<Tok("interpunction", <<62, 62>>)>>
    [] v.k = "map" ->
         <<Tok("interpunction", <<60, 60, 60>>)>>
         \o JoinT([p \in 1..Len(v.items) |->
                     TokensN(v.items[p]) \o <<Tok("interpunction", <<61, 62>>)>>
                     \o TokensN(v.vals[p])], <<TComma>>)
         \o <<Tok("interpunction", <<62, 62, 62>>)>>
Tokens(v) == TokensN(Norm(v))

-----------------------------------------------------------------------------
(* Reading a quoted string back: the scanner's single-quote states (lexer.py
   states 4, 41, 411, 412).  ScanStr(t) scans t, which must begin with the
   opening quote, and returns the payload and how many code points were
   consumed (0 = no closing quote). *)

HexVal(c) == IF c >= 48 /\ c <= 57 THEN c - 48
             ELSE IF c >= 97 /\ c <= 102 THEN c - 87
             ELSE IF c >= 65 /\ c <= 70 THEN c - 55 ELSE -1

RECURSIVE ScanStrFrom(_, _, _, _)
\* st: 4 = in string, 41 = after backslash
ScanStrFrom(t, i, st, acc) ==
  IF i > Len(t) THEN [payload |-> acc, used |-> 0]
  ELSE LET c == t[i] IN
    IF st = 4 THEN
      IF c = 39 THEN [payload |-> acc, used |-> i]
      ELSE IF c = 92 THEN ScanStrFrom(t, i + 1, 41, acc)
      ELSE ScanStrFrom(t, i + 1, 4, Append(acc, c))
    ELSE
      IF c = 110 THEN ScanStrFrom(t, i + 1, 4, Append(acc, 10))
      ELSE IF c = 114 THEN ScanStrFrom(t, i + 1, 4, Append(acc, 13))
      ELSE IF c = 116 THEN ScanStrFrom(t, i + 1, 4, Append(acc, 9))
      ELSE IF c = 120 THEN
        (IF i + 2 > Len(t) \/ HexVal(t[i + 1]) < 0 \/ HexVal(t[i + 2]) < 0
         THEN [payload |-> acc, used |-> 0]
         ELSE ScanStrFrom(t, i + 3, 4, Append(acc, 16 * HexVal(t[i + 1]) + HexVal(t[i + 2]))))
      ELSE ScanStrFrom(t, i + 1, 4, Append(acc, c))
ScanStr(t) == IF t = << >> \/ t[1] # 39 THEN [payload |-> << >>, used |-> 0]
              ELSE ScanStrFrom(t, 2, 4, << >>)

\* numeral shapes: digits, and digits "." digits
IsDigits(t) == t # << >> /\ \A i \in DOMAIN t : t[i] >= 48 /\ t[i] <= 57
IsIntNumeral(t) == IsDigits(t)
IsDecNumeral(t) == \E d \in DOMAIN t :
                      /\ t[d] = 46
                      /\ IsDigits(SubSeq(t, 1, d - 1))
                      /\ IsDigits(SubSeq(t, d + 1, Len(t)))

-----------------------------------------------------------------------------
(* Well-formedness of an encoded value (checked on everything the harness
   sends, so that an encoding slip cannot pass as agreement). *)
RECURSIVE WF(_)
WF(v) ==
  /\ v.k \in Kinds
  /\ Len(v.n) = 2
  /\ v.k \notin {"int", "dec", "bool", "ref"} => v.n = NoN
  /\ v.k = "ref" => v.n[2] = 1 /\ v.n[1] >= 0
  /\ v.k = "bool" => v.n \in {<<0, 1>>, <<1, 1>>}
  /\ IsNum(v) =>
       \/ v.n[2] = 0 /\ v.n[1] \in {-1, 1} /\ Len(v.s) >= 3 /\ v.s[Len(v.s)] > 0
          /\ \A i \in DOMAIN v.s : v.s[i] >= 0 /\ v.s[i] <= 9999
       \/ v.n[2] = 1 /\ Abs(v.n[1]) <= SmallMax /\ v.s = << >>
       \/ v.k = "dec" /\ v.n[2] \in Pow2 /\ Abs(v.n[1]) <= SmallMax /\ v.s = << >>
       \/ v.k = "dec" /\ v.n = <<0, -1>> /\ v.s = << >>
  /\ v.k = "date" => Len(v.s) = 14 /\ IsDigits(v.s)
  /\ v.k \in {"list", "set", "map"} => v.s = << >>
  /\ v.k \notin {"list", "set", "map"} => v.items = << >>
  /\ v.k = "map" => Len(v.vals) = Len(v.items)
  /\ v.k # "map" => v.vals = << >>
  /\ \A i \in DOMAIN v.items : WF(v.items[i])
  /\ \A i \in DOMAIN v.vals : WF(v.vals[i])
  /\ v.k \in {"set", "map"} => NoDup(v.items)

=============================================================================
