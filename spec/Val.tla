------------------------------- MODULE Val -------------------------------
(* C06 / C07 / C08 - the value model of checkerlang: reference definitions of
   equality, order and text form, quoted from the three property statements.
   Pure operators, no state: shared by ValLaws.tla (laws over a finite
   universe), ValCont.tla (set / map objects), ValSort.tla (the sorting
   machine) and Val_Trace.tla (validation of observations recorded from the
   implementation).

   A value is a uniformly typed record (TLC cannot compare values of different
   TLA+ types, so every field is present in every value):

     k      kind: "null" "bool" "int" "dec" "str" "date" "pat" "list" "set" "map"
            and "ref": a value with identity only (function, stream), n = <<id, 1>>
     n      <<num, den>>   numeric payload (bool: <<0|1, 1>>)
              den >= 1 : the exact rational num/den  (ints: den = 1;
                         decimals: den a power of two <= 1024, so the decimal
                         expansion is finite and equals the host's shortest repr)
              den = -1 : negative zero (num = 0), a decimal equal to 0.0
              den = 0  : a big integral value, sign num \in {-1,1}, magnitude
                         the limb sequence s (base 10^4, little endian,
                         Len >= 3, so |value| >= 10^8 > every small value)
              den <= -1, num \in {-1,1} : a "fine" decimal, any double that is
                         neither of the above (0.3, 0.1 + 0.2, 1 + 2^-52):
                         sign num, value = M / 2^(-den) with M the odd natural
                         whose limbs are s - exact, so that neighbouring
                         doubles are different values of the model
     s      Seq(Nat): code points of a string / pattern payload / the limbs
            of a big or fine number / the seven fields <<year, month, day,
            hour, minute, second, microsecond>> of a date (an instant to the
            resolution the implementation stores; not its rendered text: two
            dates inside one second are different values, and the order below
            is chronological by construction, whatever the text looks like)
     items  Seq(value): list elements; set elements or map keys as the
            sequence of representatives in insertion order, without
            Equal-duplicates (that is what a host hash container keeps)
     vals   Seq(value): map values, parallel to items                        *)
EXTENDS Integers, Sequences, FiniteSets

Mk(k, n, s, items, vals) == [k |-> k, n |-> n, s |-> s, items |-> items, vals |-> vals]
NoN == <<0, 1>>

VNull            == Mk("null", NoN, << >>, << >>, << >>)
VBool(b)         == Mk("bool", <<b, 1>>, << >>, << >>, << >>)     \* b \in {0,1}
VInt(i)          == Mk("int", <<i, 1>>, << >>, << >>, << >>)
VBigInt(sg, l)   == Mk("int", <<sg, 0>>, l, << >>, << >>)
VDec(p, q)       == Mk("dec", <<p, q>>, << >>, << >>, << >>)
VNegZero         == VDec(0, -1)
VBigDec(sg, l)   == Mk("dec", <<sg, 0>>, l, << >>, << >>)         \* integral-valued
VFine(sg, l, e)  == Mk("dec", <<sg, -e>>, l, << >>, << >>)        \* sg * l / 2^e, l odd, e >= 1
VStr(s)          == Mk("str", NoN, s, << >>, << >>)
VDate(s)         == Mk("date", NoN, s, << >>, << >>)
VPat(s)          == Mk("pat", NoN, s, << >>, << >>)
VList(items)    == Mk("list", NoN, << >>, items, << >>)
VSet(items)     == Mk("set", NoN, << >>, items, << >>)
VMap(keys, vs)  == Mk("map", NoN, << >>, keys, vs)
VRef(id)        == Mk("ref", <<id, 1>>, << >>, << >>, << >>)

Kinds == {"null", "bool", "int", "dec", "str", "date", "pat", "list", "set", "map", "ref"}

MinOf(S) == CHOOSE x \in S : \A y \in S : x <= y
MaxOf(S) == CHOOSE x \in S : \A y \in S : x >= y
Abs(x)   == IF x < 0 THEN -x ELSE x
Min2(a, b) == IF a < b THEN a ELSE b

IsNum(v) == v.k \in {"int", "dec"}
IsBig(v) == v.n[2] = 0
IsFine(v) == v.n[2] < 0 /\ v.n[1] # 0          \* (<<0, -1>> is negative zero)

\* order kind: ints and decimals are ordered together
Rank(v) == CASE v.k = "null" -> 0 [] v.k = "bool" -> 1 [] v.k = "int" -> 2
             [] v.k = "dec" -> 2 [] v.k = "str" -> 3 [] v.k = "date" -> 4
             [] v.k = "pat" -> 5 [] v.k = "list" -> 6 [] v.k = "set" -> 7
             [] v.k = "map" -> 8 [] v.k = "ref" -> 9
SameKind(a, b) == Rank(a) = Rank(b)

-----------------------------------------------------------------------------
(* Numbers: exact comparison. Small values by cross multiplication (bounded so
   that TLC's 32 bit integers do not overflow), big ones limb-wise. *)

Pow2 == {1, 2, 4, 8, 16, 32, 64, 128, 256, 512, 1024}
SmallMax == 1000000

MagCmp(x, y) ==
  IF Len(x) # Len(y) THEN (IF Len(x) < Len(y) THEN -1 ELSE 1)
  ELSE LET D == {i \in 1..Len(x) : x[i] # y[i]} IN
       IF D = {} THEN 0
       ELSE LET m == MaxOf(D) IN IF x[m] < y[m] THEN -1 ELSE 1

(* Every number is sign * M / 2^e with a natural M (as limbs) and e >= 0:
   small p/q (q = 2^e), big (e = 0), fine.  Two numbers of one sign compare
   as their numerators over the common denominator 2^max(e). *)
RECURSIVE MulCarry(_, _, _), Shl(_, _)
\* the limbs of l * k + c (k <= 8192, c < 10^4: no 32 bit overflow)
MulCarry(l, k, c) ==
  IF l = << >> THEN (IF c = 0 THEN << >> ELSE <<c>>)
  ELSE LET t == Head(l) * k + c IN <<t % 10000>> \o MulCarry(Tail(l), k, t \div 10000)
\* l * 2^e
Shl(l, e) == IF e = 0 THEN l
             ELSE IF e >= 13 THEN Shl(MulCarry(l, 8192, 0), e - 13)
             ELSE Shl(MulCarry(l, 2, 0), e - 1)
NatLimbs(n) == IF n = 0 THEN << >>
               ELSE IF n < 10000 THEN <<n>>
               ELSE IF n < 100000000 THEN <<n % 10000, n \div 10000>>
               ELSE <<n % 10000, (n \div 10000) % 10000, n \div 100000000>>
Log2(q) == CHOOSE e \in 0..10 : 2^e = q
SignOf(v) == IF IsBig(v) \/ IsFine(v) THEN v.n[1]
             ELSE IF v.n[1] < 0 THEN -1 ELSE IF v.n[1] > 0 THEN 1 ELSE 0
MantOf(v) == IF IsBig(v) \/ IsFine(v) THEN v.s ELSE NatLimbs(Abs(v.n[1]))
Exp2Of(v) == IF IsBig(v) THEN 0 ELSE IF IsFine(v) THEN -v.n[2]
             ELSE IF v.n[2] < 0 THEN 0 ELSE Log2(v.n[2])
NumCmpG(a, b) ==
  LET sa == SignOf(a)  sb == SignOf(b) IN
  IF sa # sb THEN (IF sa < sb THEN -1 ELSE 1)
  ELSE IF sa = 0 THEN 0
  ELSE LET ea == Exp2Of(a)  eb == Exp2Of(b)
           m  == IF ea > eb THEN ea ELSE eb
       IN sa * MagCmp(Shl(MantOf(a), m - ea), Shl(MantOf(b), m - eb))

NumCmp(a, b) ==
  CASE IsFine(a) \/ IsFine(b) -> NumCmpG(a, b)
    [] IsBig(a) /\ IsBig(b) ->
         IF a.n[1] # b.n[1] THEN (IF a.n[1] < b.n[1] THEN -1 ELSE 1)
         ELSE a.n[1] * MagCmp(a.s, b.s)
    [] IsBig(a) /\ ~IsBig(b) -> a.n[1]
    [] ~IsBig(a) /\ IsBig(b) -> -b.n[1]
    [] OTHER -> LET l == a.n[1] * Abs(b.n[2])
                    r == b.n[1] * Abs(a.n[2])
                IN IF l < r THEN -1 ELSE IF l > r THEN 1 ELSE 0

\* lexicographic order on sequences of naturals, a proper prefix first
SeqLess(x, y) ==
  LET m == Min2(Len(x), Len(y))
      D == {i \in 1..m : x[i] # y[i]}
  IN IF D = {} THEN Len(x) < Len(y)
     ELSE LET i == MinOf(D) IN x[i] < y[i]

-----------------------------------------------------------------------------
(* Dates: an instant <<year, month, day, hour, minute, second, microsecond>>
   of the proleptic Gregorian calendar (values.py ValueDate wraps a host
   datetime).  The fields run from the most to the least significant and each
   has a fixed range, so the lexicographic order of the field sequence is the
   chronological order; DayNo / Instant restate it through the day count. *)
IsLeap(y) == y % 4 = 0 /\ (y % 100 # 0 \/ y % 400 = 0)
DaysIn(y, m) == IF m = 2 THEN (IF IsLeap(y) THEN 29 ELSE 28)
                ELSE IF m \in {4, 6, 9, 11} THEN 30 ELSE 31
DateWF(s) == /\ Len(s) = 7
             /\ s[1] \in 1..9999 /\ s[2] \in 1..12 /\ s[3] >= 1 /\ s[3] <= DaysIn(s[1], s[2])
             /\ s[4] \in 0..23 /\ s[5] \in 0..59 /\ s[6] \in 0..59 /\ s[7] \in 0..999999
CumDays == <<0, 31, 59, 90, 120, 151, 181, 212, 243, 273, 304, 334>>
\* day number (0001-01-01 = 1), second of the day, microsecond
DayNo(s) == LET y == s[1] - 1 IN
            365 * y + y \div 4 - y \div 100 + y \div 400
            + CumDays[s[2]] + (IF s[2] > 2 /\ IsLeap(s[1]) THEN 1 ELSE 0) + s[3]
Instant(s) == <<DayNo(s), 3600 * s[4] + 60 * s[5] + s[6], s[7]>>
\* the same instant without its sub-second part
WholeSecond(s) == [s EXCEPT ![7] = 0]

-----------------------------------------------------------------------------
(* C06: Equal.  C07: Less.
   Less is defined on ALL pairs so that sorting and rendering are functions:
   - on values of one kind whose order the statement names (numbers, strings,
     booleans, dates, lists) it is that order;
   - on the kinds the statement does not name an order for (NULL, patterns,
     sets, maps) and across kinds it is this model's completion (patterns by
     payload, sets/maps by their sorted content, kinds by Rank). Only the LAWS
     (strict total order, consistent with Equal) are claimed there; the
     harness compares the direction only where Stated(a,b) holds.          *)

RECURSIVE Equal(_, _)

Has(items, v) == \E i \in DOMAIN items : Equal(items[i], v)
IndexOf(items, v) == IF Has(items, v)
                     THEN MinOf({i \in DOMAIN items : Equal(items[i], v)}) ELSE 0

Equal(a, b) ==
  IF IsNum(a) /\ IsNum(b) THEN NumCmp(a, b) = 0
  ELSE IF a.k # b.k THEN FALSE
  ELSE CASE a.k = "null" -> TRUE
         [] a.k = "bool" -> a.n = b.n
         [] a.k = "ref" -> a.n = b.n                     \* identity
         [] a.k \in {"str", "date", "pat"} -> a.s = b.s
         [] a.k = "list" ->
              /\ Len(a.items) = Len(b.items)
              /\ \A i \in 1..Len(a.items) : Equal(a.items[i], b.items[i])
         [] a.k = "set" ->
              /\ \A i \in DOMAIN a.items : Has(b.items, a.items[i])
              /\ \A j \in DOMAIN b.items : Has(a.items, b.items[j])
         [] a.k = "map" ->
              /\ \A i \in DOMAIN a.items : \E j \in DOMAIN b.items :
                    Equal(a.items[i], b.items[j]) /\ Equal(a.vals[i], b.vals[j])
              /\ \A j \in DOMAIN b.items : \E i \in DOMAIN a.items :
                    Equal(a.items[i], b.items[j]) /\ Equal(a.vals[i], b.vals[j])

(* The order is defined in two steps.  Norm(v) is v with the elements of every
   set and the entries of every map inside it enumerated in ascending order
   (bottom up); LessN is the order on such normal forms; Less(a, b) is
   LessN(Norm(a), Norm(b)).  (A model over a universe normalises each value
   once and compares the normal forms.) *)
RECURSIVE LessN(_, _), ItemsLessN(_, _), Norm(_)

\* element-wise lexicographic: the first position holding non-Equal elements
\* decides; when there is none the shorter sequence is first
ItemsLessN(x, y) ==
  LET m == Min2(Len(x), Len(y))
      D == {i \in 1..m : ~Equal(x[i], y[i])}
  IN IF D = {} THEN Len(x) < Len(y)
     ELSE LET i == MinOf(D) IN LessN(x[i], y[i])

\* map entries flattened <<k1, v1, k2, v2, ...>>
Entries(m) == [q \in 1..(2 * Len(m.items)) |->
                 IF q % 2 = 1 THEN m.items[(q + 1) \div 2] ELSE m.vals[q \div 2]]

LessN(a, b) ==
  IF Rank(a) # Rank(b) THEN Rank(a) < Rank(b)
  ELSE CASE a.k = "null" -> FALSE
         [] IsNum(a) -> NumCmp(a, b) < 0                  \* numeric, ints and decimals together
         [] a.k = "bool" -> a.n[1] < b.n[1]               \* FALSE before TRUE
         [] a.k = "ref" -> a.n[1] < b.n[1]
         [] a.k = "str" -> SeqLess(a.s, b.s)              \* code points, prefix first
         [] a.k = "date" -> SeqLess(a.s, b.s)             \* chronological (fields, most significant first)
         [] a.k = "pat" -> SeqLess(a.s, b.s)
         [] a.k = "list" -> ItemsLessN(a.items, b.items)  \* element-wise lexicographic
         [] a.k = "set" -> ItemsLessN(a.items, b.items)   \* (elements already ascending)
         [] a.k = "map" -> ItemsLessN(Entries(a), Entries(b))

\* SortPermN(items)[p] = index in items of the p-th smallest element (items are
\* normal forms, pairwise non-Equal, LessN is total on them: ranks are distinct)
SortPermN(items) ==
  LET n == Len(items)
      R(i) == 1 + Cardinality({j \in 1..n : LessN(items[j], items[i])})
  IN [p \in 1..n |-> CHOOSE i \in 1..n : R(i) = p]

Norm(v) ==
  IF v.k \notin {"list", "set", "map"} THEN v
  ELSE LET its == [i \in 1..Len(v.items) |-> Norm(v.items[i])]
           vs  == [i \in 1..Len(v.vals) |-> Norm(v.vals[i])]
       IN IF v.k = "list" THEN Mk("list", NoN, << >>, its, << >>)
          ELSE LET sp == SortPermN(its) IN
               Mk(v.k, NoN, << >>, [p \in 1..Len(its) |-> its[sp[p]]],
                  [p \in 1..Len(vs) |-> vs[sp[p]]])

Less(a, b) == LessN(Norm(a), Norm(b))
\* the elements of a set / keys of a map in ascending order
SortItems(items) == Norm(VSet(items)).items

\* the pairs whose order the C07 statement names
RECURSIVE Stated(_, _)
Stated(a, b) ==
  /\ SameKind(a, b)
  /\ CASE a.k \in {"int", "dec", "str", "bool", "date"} -> TRUE
       [] a.k = "list" ->
            LET m == Min2(Len(a.items), Len(b.items))
                D == {i \in 1..m : ~Equal(a.items[i], b.items[i])}
            IN D = {} \/ (LET i == MinOf(D) IN Stated(a.items[i], b.items[i]))
       [] OTHER -> FALSE

\* compare(a, b) as the sign
Compare(a, b) == IF Less(a, b) THEN -1 ELSE IF Less(b, a) THEN 1 ELSE 0

\* the enumeration order of every set / map inside v is named by the statement
RECURSIVE OrderStated(_)
OrderStated(v) ==
  /\ v.k \in {"set", "map"} =>
       \A i \in DOMAIN v.items, j \in DOMAIN v.items :
          i # j => Stated(v.items[i], v.items[j])
  /\ \A i \in DOMAIN v.items : OrderStated(v.items[i])
  /\ \A i \in DOMAIN v.vals : OrderStated(v.vals[i])

-----------------------------------------------------------------------------
(* Containers as the host keeps them: insertion-ordered representatives. *)

NoDup(items) == \A i \in DOMAIN items, j \in DOMAIN items :
                   i # j => ~Equal(items[i], items[j])

DropAt(s, i) == SubSeq(s, 1, i - 1) \o SubSeq(s, i + 1, Len(s))

\* adding an element Equal to one already held keeps the old representative
SetAdd(st, v)    == IF Has(st.items, v) THEN st ELSE VSet(Append(st.items, v))
SetRemove(st, v) == LET i == IndexOf(st.items, v) IN
                    IF i = 0 THEN st ELSE VSet(DropAt(st.items, i))
SetDiff(a, b)    == VSet(SelectSeq(a.items, LAMBDA x : ~Has(b.items, x)))
Members(st)      == {st.items[i] : i \in DOMAIN st.items}

\* a put on an Equal key replaces the value and keeps the old key object
MapPut(m, k, x) == LET i == IndexOf(m.items, k) IN
                   IF i = 0 THEN VMap(Append(m.items, k), Append(m.vals, x))
                   ELSE VMap(m.items, [m.vals EXCEPT ![i] = x])
MapHas(m, k)    == Has(m.items, k)
MapGet(m, k)    == LET i == IndexOf(m.items, k) IN
                   IF i = 0 THEN [ok |-> FALSE, v |-> VNull] ELSE [ok |-> TRUE, v |-> m.vals[i]]
MapRemove(m, k) == LET i == IndexOf(m.items, k) IN
                   IF i = 0 THEN m ELSE VMap(DropAt(m.items, i), DropAt(m.vals, i))

\* find(list, x): first position (0-based) holding an Equal element, or -1
ListFind(l, v)  == IndexOf(l.items, v) - 1
ListHas(l, v)   == Has(l.items, v)

-----------------------------------------------------------------------------
(* C06: values with a history.  A list, a set, a map and a string are objects
   that programs change in place: `l[i] = e`, append, insert_at, delete_at,
   remove, put / `m[k] = x`, `s[i] = c`, and the same one or more levels down
   (an element of a list, a value of a map).  The statement speaks of VALUES:
   "whichever equal representative is used" includes a representative that was
   a set member or map key before (its hash was taken) and was edited into its
   present content afterwards.  ApplyEdit is the effect of one edit on the
   content; every read (Equal, Has, MapGet, ...) is a function of the content
   alone, so nothing about the past of a value can influence them.

   op = [name, i, e, x]: i a 1-based position (0 when unused), e / x values
   (VNull when unused).  A path step is [i, key]: position i of a list, or
   (i = 0) the value stored under `key` in a map.                            *)
EOp(name, i, e, x) == [name |-> name, i |-> i, e |-> e, x |-> x]
PStep(i, key) == [i |-> i, key |-> key]

EditOK(v, op) ==
  CASE op.name = "setat"    -> v.k = "list" /\ op.i \in 1..Len(v.items)
    [] op.name = "append"   -> v.k \in {"list", "set"}
    [] op.name = "insertat" -> v.k = "list" /\ op.i \in 1..(Len(v.items) + 1)
    [] op.name = "deleteat" -> v.k = "list" /\ op.i \in 1..Len(v.items)
    [] op.name = "remove"   -> v.k \in {"list", "set", "map"} /\ Has(v.items, op.e)
    [] op.name = "put"      -> v.k = "map"
    [] op.name = "setchar"  -> v.k = "str" /\ op.i \in 1..Len(v.s)
                               /\ op.e.k = "str" /\ Len(op.e.s) = 1
    [] OTHER -> FALSE

ApplyEdit(v, op) ==
  CASE op.name = "setat"    -> VList([v.items EXCEPT ![op.i] = op.e])
    [] op.name = "append"   -> IF v.k = "set" THEN SetAdd(v, op.e) ELSE VList(Append(v.items, op.e))
    [] op.name = "insertat" -> VList(SubSeq(v.items, 1, op.i - 1) \o <<op.e>>
                                     \o SubSeq(v.items, op.i, Len(v.items)))
    [] op.name = "deleteat" -> VList(DropAt(v.items, op.i))
    [] op.name = "remove"   -> IF v.k = "list" THEN VList(DropAt(v.items, IndexOf(v.items, op.e)))
                               ELSE IF v.k = "set" THEN SetRemove(v, op.e) ELSE MapRemove(v, op.e)
    [] op.name = "put"      -> MapPut(v, op.e, op.x)
    [] op.name = "setchar"  -> VStr([v.s EXCEPT ![op.i] = op.e.s[1]])

RECURSIVE PathOK(_, _), SubAt(_, _), EditAt(_, _, _)
StepIdx(v, st) == IF st.i > 0 THEN st.i ELSE IndexOf(v.items, st.key)
PathOK(v, path) ==
  IF path = << >> THEN TRUE
  ELSE LET st == Head(path) IN
       /\ (st.i > 0 /\ v.k = "list" /\ st.i <= Len(v.items)) \/ (st.i = 0 /\ v.k = "map" /\ Has(v.items, st.key))
       /\ PathOK(IF v.k = "list" THEN v.items[st.i] ELSE v.vals[StepIdx(v, st)], Tail(path))
SubAt(v, path) ==
  IF path = << >> THEN v
  ELSE LET st == Head(path) IN
       SubAt(IF v.k = "list" THEN v.items[st.i] ELSE v.vals[StepIdx(v, st)], Tail(path))
EditAt(v, path, op) ==
  IF path = << >> THEN ApplyEdit(v, op)
  ELSE LET st == Head(path)  q == StepIdx(v, st) IN
       IF v.k = "list" THEN VList([v.items EXCEPT ![q] = EditAt(v.items[q], Tail(path), op)])
       ELSE VMap(v.items, [v.vals EXCEPT ![q] = EditAt(v.vals[q], Tail(path), op)])

(* C06: the resolution of dates.  The statement does not say whether two dates
   inside one second are equal; it does say that WHATEVER equality answers,
   hashing, membership, lookup and container equality follow it.  Coarse(v) is
   v with every date cut to the whole second: a pair that is unequal only
   through sub-second parts is judged on consistency alone.  (C07 does name
   the order of dates - chronological - so there the instants decide.)      *)
RECURSIVE Coarse(_)
Coarse(v) ==
  IF v.k = "date" THEN VDate(WholeSecond(v.s))
  ELSE IF v.k \in {"list", "set", "map"}
       THEN Mk(v.k, NoN, << >>, [i \in DOMAIN v.items |-> Coarse(v.items[i])],
               [i \in DOMAIN v.vals |-> Coarse(v.vals[i])])
       ELSE v
ResolutionOnly(a, b) == ~Equal(a, b) /\ Equal(Coarse(a), Coarse(b))

-----------------------------------------------------------------------------
(* C07: min / max, and the enumerations of a set / a map.
   "`min` and `max` are consistent with it": the result is an element no other
   element is below (above).  The loop of core.ckl replaces its candidate only
   by a strictly smaller (greater) one, so among Equal extremes it returns the
   first; the statement does not name which one (compared as drift).        *)
IsLeastAt(keys, i)    == i \in DOMAIN keys /\ \A j \in DOMAIN keys : ~Less(keys[j], keys[i])
IsGreatestAt(keys, i) == i \in DOMAIN keys /\ \A j \in DOMAIN keys : ~Less(keys[i], keys[j])
FirstLeast(keys)    == MinOf({i \in DOMAIN keys : IsLeastAt(keys, i)})
FirstGreatest(keys) == MinOf({i \in DOMAIN keys : IsGreatestAt(keys, i)})

\* what a program sees when it enumerates a set / a map in one of the ways the
\* language offers: the elements / keys ascending, the values and the entries
\* in the order of their keys
EnumKeys(v)    == Norm(v).items
EnumVals(v)    == LET nv == Norm(VMap(v.items, v.vals)) IN nv.vals
EnumEntries(v) == LET nv == Norm(VMap(v.items, v.vals)) IN
                  [p \in DOMAIN nv.items |-> VList(<<nv.items[p], nv.vals[p]>>)]
\* Norm normalises the values too; the enumeration yields the values themselves:
\* compare enumerated values with Equal, not with =

-----------------------------------------------------------------------------
(* C08: the text form, as code points. *)

Digit(d) == 48 + d
RECURSIVE NatDigits(_), FracDigits(_, _), Flat(_)
NatDigits(n) == IF n < 10 THEN <<Digit(n)>> ELSE NatDigits(n \div 10) \o <<Digit(n % 10)>>
Pad4(l) == <<Digit(l \div 1000), Digit((l \div 100) % 10), Digit((l \div 10) % 10), Digit(l % 10)>>
Flat(ss) == IF ss = << >> THEN << >> ELSE Head(ss) \o Flat(Tail(ss))
Pad2(x) == <<Digit(x \div 10), Digit(x % 10)>>
\* the 14 digits YYYYMMDDHHMMSS a date is written with (whole seconds)
Stamp(s) == Pad4(s[1]) \o Pad2(s[2]) \o Pad2(s[3]) \o Pad2(s[4]) \o Pad2(s[5]) \o Pad2(s[6])
LimbDigits(l) == LET n == Len(l) IN
  NatDigits(l[n]) \o Flat([i \in 1..(n - 1) |-> Pad4(l[n - i])])
\* digits of r/q after the point, 0 <= r < q, q a power of two: finite
FracDigits(r, q) == IF r = 0 THEN << >>
                    ELSE <<Digit((r * 10) \div q)>> \o FracDigits((r * 10) % q, q)

IsNeg(v) == IF IsBig(v) \/ IsFine(v) THEN v.n[1] < 0 ELSE (v.n[1] < 0 \/ v.n[2] < 0)
\* a fine decimal M / 2^e is M * 5^e / 10^e: its exact (finite) expansion.  This
\* is NOT the host's shortest round-trip numeral (0.1 + 0.2 is written
\* 0.30000000000000004, not 0.3000000000000000444089209850062616169452667236328125):
\* the text of a fine decimal is defined so that Render is total and injective,
\* but it is not exported for comparison with the implementation (C08 compares
\* such decimals through its Python-driven path).
RECURSIVE Mul5(_, _)
Mul5(l, e) == IF e = 0 THEN l
              ELSE IF e >= 5 THEN Mul5(MulCarry(l, 3125, 0), e - 5)
              ELSE Mul5(MulCarry(l, 5, 0), e - 1)
FineNumeral(v) ==
  LET e == -v.n[2]
      d == LimbDigits(Mul5(v.s, e))
      p == IF Len(d) > e THEN d ELSE [i \in 1..(e + 1 - Len(d)) |-> 48] \o d
  IN SubSeq(p, 1, Len(p) - e) \o <<46>> \o SubSeq(p, Len(p) - e + 1, Len(p))
\* the numeral without sign
Numeral(v) ==
  IF v.k = "int" THEN (IF IsBig(v) THEN LimbDigits(v.s) ELSE NatDigits(Abs(v.n[1])))
  ELSE IF IsFine(v) THEN FineNumeral(v)
  ELSE IF IsBig(v) THEN LimbDigits(v.s) \o <<46, 48>>
  ELSE LET q == Abs(v.n[2])  p == Abs(v.n[1])  f == FracDigits(p % q, q) IN
       NatDigits(p \div q) \o <<46>> \o (IF f = << >> THEN <<48>> ELSE f)

\* the five escapes: backslash, quote, CR, LF, TAB
EscChar(c) == CASE c = 92 -> <<92, 92>> [] c = 39 -> <<92, 39>> [] c = 13 -> <<92, 114>>
                [] c = 10 -> <<92, 110>> [] c = 9 -> <<92, 116>> [] OTHER -> <<c>>
Escape(s) == Flat([i \in 1..Len(s) |-> EscChar(s[i])])
Quote(s)  == <<39>> \o Escape(s) \o <<39>>

TxtNULL  == <<78, 85, 76, 76>>
TxtTRUE  == <<84, 82, 85, 69>>
TxtFALSE == <<70, 65, 76, 83, 69>>
TxtSep   == <<44, 32>>            \* ", "
TxtArrow == <<32, 61, 62, 32>>    \* " => "

RECURSIVE RenderN(_), Join(_, _)
Join(ts, sep) == IF Len(ts) = 0 THEN << >>
                 ELSE IF Len(ts) = 1 THEN ts[1]
                 ELSE ts[1] \o sep \o Join(Tail(ts), sep)

\* a set or map whose content text begins with "<" or ends with ">" is padded
\* with one space, otherwise "<<" "<<" would fuse into "<<<" "<" when read back
Pad(open, inner, close) ==
  LET l == IF inner # << >> /\ inner[1] = 60 THEN <<32>> ELSE << >>
      r == IF inner # << >> /\ inner[Len(inner)] = 62 THEN <<32>> ELSE << >>
  IN open \o l \o inner \o r \o close

\* text of a normal form: sets and maps are written in their (ascending) order
RenderN(v) ==
  CASE v.k = "null" -> TxtNULL
    [] v.k = "bool" -> IF v.n[1] = 1 THEN TxtTRUE ELSE TxtFALSE
    [] IsNum(v) -> (IF IsNeg(v) THEN <<45>> ELSE << >>) \o Numeral(v)
    [] v.k = "str" -> Quote(v.s)
    [] v.k = "date" -> Stamp(v.s)
    [] v.k = "pat" -> <<47, 47>> \o v.s \o <<47, 47>>
    [] v.k = "ref" -> <<60, 35>> \o NatDigits(v.n[1]) \o <<62>>    \* not a data value
    [] v.k = "list" ->
         <<91>> \o Join([i \in 1..Len(v.items) |-> RenderN(v.items[i])], TxtSep) \o <<93>>
    [] v.k = "set" ->
         Pad(<<60, 60>>, Join([i \in 1..Len(v.items) |-> RenderN(v.items[i])], TxtSep), <<62, 62>>)
    [] v.k = "map" ->
         Pad(<<60, 60, 60>>,
             Join([p \in 1..Len(v.items) |->
                     RenderN(v.items[p]) \o TxtArrow \o RenderN(v.vals[p])], TxtSep),
             <<62, 62, 62>>)
Render(v) == RenderN(Norm(v))

\* The token sequence the scanner must deliver for the text: [t: type, s: payload]
Tok(t, s) == [t |-> t, s |-> s]
TComma == Tok("interpunction", <<44>>)
RECURSIVE TokensN(_), JoinT(_, _)
JoinT(ts, sep) == IF Len(ts) = 0 THEN << >>
                  ELSE IF Len(ts) = 1 THEN ts[1]
                  ELSE ts[1] \o sep \o JoinT(Tail(ts), sep)
TokensN(v) ==
  CASE v.k = "null" -> <<Tok("identifier", TxtNULL)>>
    [] v.k = "bool" -> <<Tok("boolean", IF v.n[1] = 1 THEN TxtTRUE ELSE TxtFALSE)>>
    [] IsNum(v) -> (IF IsNeg(v) THEN <<Tok("operator", <<45>>)>> ELSE << >>)
                   \o <<Tok(IF v.k = "int" THEN "int" ELSE "decimal", Numeral(v))>>
    [] v.k = "str" -> <<Tok("string", v.s)>>            \* payload: the string itself
    [] v.k = "date" -> <<Tok("int", Stamp(v.s))>>
    [] v.k = "pat" -> <<Tok("pattern", <<47, 47>> \o v.s \o <<47, 47>>)>>
    [] v.k = "ref" -> <<Tok("ref", NatDigits(v.n[1]))>>
    [] v.k = "list" ->
         <<Tok("interpunction", <<91>>)>>
         \o JoinT([i \in 1..Len(v.items) |-> TokensN(v.items[i])], <<TComma>>)
         \o <<Tok("interpunction", <<93>>)>>
    [] v.k = "set" ->
         <<Tok("interpunction", <<60, 60>>)>>
         \o JoinT([i \in 1..Len(v.items) |-> TokensN(v.items[i])], <<TComma>>)
         \o <<Tok("interpunction", <<62, 62>>)>>
    [] v.k = "map" ->
         <<Tok("interpunction", <<60, 60, 60>>)>>
         \o JoinT([p \in 1..Len(v.items) |->
                     TokensN(v.items[p]) \o <<Tok("interpunction", <<61, 62>>)>>
                     \o TokensN(v.vals[p])], <<TComma>>)
         \o <<Tok("interpunction", <<62, 62, 62>>)>>
Tokens(v) == TokensN(Norm(v))

-----------------------------------------------------------------------------
(* Reading a quoted string back: the scanner's single-quote states (lexer.py
   states 4, 41, 411, 412).  ScanStr(t) scans t, which must begin with the
   opening quote, and returns the payload and how many code points were
   consumed (0 = no closing quote). *)

HexVal(c) == IF c >= 48 /\ c <= 57 THEN c - 48
             ELSE IF c >= 97 /\ c <= 102 THEN c - 87
             ELSE IF c >= 65 /\ c <= 70 THEN c - 55 ELSE -1

RECURSIVE ScanStrFrom(_, _, _, _)
\* st: 4 = in string, 41 = after backslash
ScanStrFrom(t, i, st, acc) ==
  IF i > Len(t) THEN [payload |-> acc, used |-> 0]
  ELSE LET c == t[i] IN
    IF st = 4 THEN
      IF c = 39 THEN [payload |-> acc, used |-> i]
      ELSE IF c = 92 THEN ScanStrFrom(t, i + 1, 41, acc)
      ELSE ScanStrFrom(t, i + 1, 4, Append(acc, c))
    ELSE
      IF c = 110 THEN ScanStrFrom(t, i + 1, 4, Append(acc, 10))
      ELSE IF c = 114 THEN ScanStrFrom(t, i + 1, 4, Append(acc, 13))
      ELSE IF c = 116 THEN ScanStrFrom(t, i + 1, 4, Append(acc, 9))
      ELSE IF c = 120 THEN
        (IF i + 2 > Len(t) \/ HexVal(t[i + 1]) < 0 \/ HexVal(t[i + 2]) < 0
         THEN [payload |-> acc, used |-> 0]
         ELSE ScanStrFrom(t, i + 3, 4, Append(acc, 16 * HexVal(t[i + 1]) + HexVal(t[i + 2]))))
      ELSE ScanStrFrom(t, i + 1, 4, Append(acc, c))
ScanStr(t) == IF t = << >> \/ t[1] # 39 THEN [payload |-> << >>, used |-> 0]
              ELSE ScanStrFrom(t, 2, 4, << >>)

\* numeral shapes: digits, and digits "." digits
IsDigits(t) == t # << >> /\ \A i \in DOMAIN t : t[i] >= 48 /\ t[i] <= 57
IsIntNumeral(t) == IsDigits(t)
IsDecNumeral(t) == \E d \in DOMAIN t :
                      /\ t[d] = 46
                      /\ IsDigits(SubSeq(t, 1, d - 1))
                      /\ IsDigits(SubSeq(t, d + 1, Len(t)))

-----------------------------------------------------------------------------
(* Well-formedness of an encoded value (checked on everything the harness
   sends, so that an encoding slip cannot pass as agreement). *)
RECURSIVE WF(_)
WF(v) ==
  /\ v.k \in Kinds
  /\ Len(v.n) = 2
  /\ v.k \notin {"int", "dec", "bool", "ref"} => v.n = NoN
  /\ v.k = "ref" => v.n[2] = 1 /\ v.n[1] >= 0
  /\ v.k = "bool" => v.n \in {<<0, 1>>, <<1, 1>>}
  /\ IsNum(v) =>
       \/ v.n[2] = 0 /\ v.n[1] \in {-1, 1} /\ Len(v.s) >= 3 /\ v.s[Len(v.s)] > 0
          /\ \A i \in DOMAIN v.s : v.s[i] >= 0 /\ v.s[i] <= 9999
       \/ v.n[2] = 1 /\ Abs(v.n[1]) <= SmallMax /\ v.s = << >>
       \/ v.k = "dec" /\ v.n[2] \in Pow2 /\ Abs(v.n[1]) <= SmallMax /\ v.s = << >>
       \/ v.k = "dec" /\ v.n = <<0, -1>> /\ v.s = << >>
       \/ v.k = "dec" /\ v.n[1] \in {-1, 1} /\ v.n[2] < 0 /\ v.n[2] >= -1100
          /\ Len(v.s) >= 1 /\ v.s[Len(v.s)] > 0 /\ v.s[1] % 2 = 1       \* lowest terms
          /\ (v.n[2] < -10 \/ MagCmp(v.s, <<0, 100>>) > 0)               \* not a small rational
          /\ \A i \in DOMAIN v.s : v.s[i] >= 0 /\ v.s[i] <= 9999
  /\ v.k = "date" => DateWF(v.s)
  /\ v.k \in {"list", "set", "map"} => v.s = << >>
  /\ v.k \notin {"list", "set", "map"} => v.items = << >>
  /\ v.k = "map" => Len(v.vals) = Len(v.items)
  /\ v.k # "map" => v.vals = << >>
  /\ \A i \in DOMAIN v.items : WF(v.items[i])
  /\ \A i \in DOMAIN v.vals : WF(v.vals[i])
  /\ v.k \in {"set", "map"} => NoDup(v.items)

=============================================================================
