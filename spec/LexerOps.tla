---------------------------- MODULE LexerOps ----------------------------
(* The scanner of checkerlang-py (src/ckl/lexer.py, Lexer.scan) as a pure
   character-driven transducer.  One call of LexStep is one iteration of the
   `while pos < len(self.script)` loop; the "unread" of the implementation
   (pos -= 1; updatepos = False; state = ...) is the recursive call with
   upd = FALSE, i.e. the same character is dispatched again without moving the
   position counters.  State numbers are those of the implementation.

   Characters are code points (TLC strings are atomic).  A scanner state is

     [st, tok, tmp, n, line, tl, si, out, status]

   st     scanner state (0,1,2,21,3,31,311,312,4,41,411,412,5,6,7,70,71,72,8,9,10)
   tok    code points of the token under construction      (`token`)
   tmp    first hex digit of a \x escape                   (`tempbuf`)
   n      number of characters consumed                    (`pos`)
   line   the implementation's line counter                (`line`)
   tl     line latched when the token began                (token position)
   si     value of n when the token began (index of its first character)
   out    emitted tokens [ty, val, line, si]
   status "run" | "lexerror" (CklSyntaxError raised by scan)

   StampAtEmission = TRUE is the named deviation of the pinned tree: the token
   is stamped with the line counter at *emission* time, which has already
   moved past a terminating line break (property C20 fails, see Lexer.cfg
   variants).  FALSE mirrors the repaired scanner (line of the first
   character).                                                               *)
EXTENDS Integers, Sequences

CONSTANT StampAtEmission

TAB == 9   LF == 10   CR == 13   SP == 32
BANG == 33 DQ == 34 HASH == 35 PCT == 37 SQ == 39 LPAR == 40 RPAR == 41
STAR == 42 PLUS == 43 COMMA == 44 MINUS == 45 DOT == 46 SLASH == 47
ZERO == 48 ONE == 49 NINE == 57 SEMI == 59 LT == 60 EQ == 61 GT == 62
LBRK == 91 BSL == 92 RBRK == 93 USC == 95
LOWb == 98 LOWn == 110 LOWr == 114 LOWt == 116 LOWx == 120

Digits   == 48..57
HexDig   == Digits \cup (65..70) \cup (97..102)
WS       == {SP, TAB, CR, LF}
\* "()+-*/%[]<>=,;!\"' \t\r\n#"   - what ends a word in state 1
Delim1   == {LPAR, RPAR, PLUS, MINUS, STAR, SLASH, PCT, LBRK, RBRK, LT, GT, EQ,
             COMMA, SEMI, BANG, DQ, SQ, SP, TAB, CR, LF, HASH}
\* "()[]<>=! \t\n\r+-*/%,;#"      - what ends a number in states 7,71,72,8
DelimNum == {LPAR, RPAR, LBRK, RBRK, LT, GT, EQ, BANG, SP, TAB, LF, CR, PLUS,
             MINUS, STAR, SLASH, PCT, COMMA, SEMI, HASH}

\* the 24 keywords and the two boolean words, as code point sequences
KW == { <<105,102>>, <<116,104,101,110>>, <<101,108,105,102>>, <<101,108,115,101>>,
        <<97,110,100>>, <<111,114>>, <<110,111,116>>, <<105,115>>, <<105,110>>,
        <<100,101,102>>, <<102,110>>, <<102,111,114>>, <<119,104,105,108,101>>,
        <<100,111>>, <<101,110,100>>, <<102,105,110,97,108,108,121>>,
        <<99,97,116,99,104>>, <<98,114,101,97,107>>,
        <<99,111,110,116,105,110,117,101>>, <<114,101,116,117,114,110>>,
        <<101,114,114,111,114>>, <<114,101,113,117,105,114,101>>, <<97,115>>,
        <<97,108,115,111>> }
WTRUE  == <<84,82,85,69>>
WFALSE == <<70,65,76,83,69>>

Init0 == [st |-> 0, tok |-> << >>, tmp |-> 0, n |-> 0, line |-> 1, tl |-> 1,
          si |-> 0, out |-> << >>, status |-> "run"]

-----------------------------------------------------------------------------
(* numerals *)
RECURSIVE NoUsc(_)
NoUsc(t) == IF t = << >> THEN << >>
            ELSE IF Head(t) = USC THEN NoUsc(Tail(t)) ELSE <<Head(t)>> \o NoUsc(Tail(t))

HexDigitVal(c) == IF c \in Digits THEN c - 48 ELSE IF c \in 65..70 THEN c - 55 ELSE c - 87

RECURSIVE BaseVal(_, _, _)
BaseVal(t, base, acc) == IF t = << >> THEN acc
                         ELSE BaseVal(Tail(t), base, acc * base + HexDigitVal(Head(t)))

RECURSIVE DecDigits(_)
DecDigits(v) == IF v < 10 THEN <<48 + v>> ELSE DecDigits(v \div 10) \o <<48 + (v % 10)>>

-----------------------------------------------------------------------------
Emit(s, ty, val) ==
  [s EXCEPT !.out = Append(@, [ty |-> ty, val |-> val,
                                line |-> IF StampAtEmission THEN s.line ELSE s.tl,
                                si |-> s.si]),
            !.tok = << >>]

Begin(s) == [s EXCEPT !.tl = s.line, !.si = s.n]       \* a token starts at this character
Err(s)   == [s EXCEPT !.status = "lexerror"]

\* state 1 reached a delimiter: classify the collected word
Word(s) == IF s.tok = WTRUE THEN Emit(s, "boolean", WTRUE)
           ELSE IF s.tok = WFALSE THEN Emit(s, "boolean", WFALSE)
           ELSE IF s.tok \in KW THEN Emit(s, "keyword", s.tok)
           ELSE IF s.tok # << >> THEN Emit(s, "identifier", s.tok)
           ELSE s

RECURSIVE LexStep(_, _, _)
LexStep(s0, ch, upd) ==
  LET s == IF upd THEN [s0 EXCEPT !.n = @ + 1, !.line = IF ch = LF THEN @ + 1 ELSE @]
           ELSE s0
      Unread(t) == LexStep(t, ch, FALSE)
  IN
  CASE s.st = 0 ->
         IF ch = HASH THEN [s EXCEPT !.st = 9]
         ELSE IF ch \in {PLUS, MINUS, STAR, PCT}
              THEN [Begin(s) EXCEPT !.tok = <<ch>>, !.st = 10]
         ELSE IF ch \in {LPAR, RPAR, LBRK, RBRK, COMMA, SEMI}
              THEN Emit(Begin(s), "interpunction", <<ch>>)
         ELSE IF ch = SLASH THEN [Begin(s) EXCEPT !.st = 5]
         ELSE IF ch \in {LT, GT, EQ, BANG}
              THEN [Begin(s) EXCEPT !.tok = <<ch>>, !.st = 2]
         ELSE IF ch = DQ THEN [Begin(s) EXCEPT !.st = 3]
         ELSE IF ch = SQ THEN [Begin(s) EXCEPT !.st = 4]
         ELSE IF ch = ZERO THEN [Begin(s) EXCEPT !.st = 70]
         ELSE IF ch \in Digits THEN [Begin(s) EXCEPT !.tok = <<ch>>, !.st = 7]
         ELSE IF ch \notin WS THEN [Begin(s) EXCEPT !.tok = <<ch>>, !.st = 1]
         ELSE s
    [] s.st = 1 ->
         IF ch \in Delim1 THEN Unread([Word(s) EXCEPT !.st = 0])
         ELSE LET t == Append(s.tok, ch) IN
              IF t = <<DOT, DOT, DOT>>
              THEN [Emit([s EXCEPT !.tok = t], "interpunction", t) EXCEPT !.st = 0]
              ELSE [s EXCEPT !.tok = t]
    [] s.st = 2 ->
         IF ch = EQ THEN [Emit(s, "operator", Append(s.tok, ch)) EXCEPT !.st = 0]
         ELSE IF ch = GT /\ s.tok = <<EQ>> THEN [Emit(s, "interpunction", <<EQ, GT>>) EXCEPT !.st = 0]
         ELSE IF ch = GT /\ s.tok = <<LT>> THEN [Emit(s, "operator", <<LT, GT>>) EXCEPT !.st = 0]
         ELSE IF ch = LT /\ s.tok = <<LT>> THEN [s EXCEPT !.tok = <<LT, LT>>, !.st = 21]
         ELSE IF ch = GT /\ s.tok = <<GT>> THEN [s EXCEPT !.tok = <<GT, GT>>, !.st = 21]
         ELSE IF ch = GT /\ s.tok = <<BANG>> THEN [Emit(s, "operator", <<BANG, GT>>) EXCEPT !.st = 0]
         ELSE IF ch = STAR /\ s.tok = <<LT>> THEN [Emit(s, "interpunction", <<LT, STAR>>) EXCEPT !.st = 0]
         ELSE Unread([Emit(s, "operator", s.tok) EXCEPT !.st = 0])
    [] s.st = 21 ->
         IF ch = LT /\ s.tok = <<LT, LT>> THEN [Emit(s, "interpunction", <<LT, LT, LT>>) EXCEPT !.st = 0]
         ELSE IF ch = GT /\ s.tok = <<GT, GT>> THEN [Emit(s, "interpunction", <<GT, GT, GT>>) EXCEPT !.st = 0]
         ELSE Unread([Emit(s, "interpunction", s.tok) EXCEPT !.st = 0])
    [] s.st \in {3, 4} ->
         LET q == IF s.st = 3 THEN DQ ELSE SQ IN
         IF ch = q THEN [Emit(s, "string", s.tok) EXCEPT !.st = 0]
         ELSE IF ch = BSL THEN [s EXCEPT !.st = s.st * 10 + 1]
         ELSE [s EXCEPT !.tok = Append(@, ch)]
    [] s.st \in {31, 41} ->
         LET back == s.st \div 10 IN
         IF ch = LOWn THEN [s EXCEPT !.tok = Append(@, LF), !.st = back]
         ELSE IF ch = LOWr THEN [s EXCEPT !.tok = Append(@, CR), !.st = back]
         ELSE IF ch = LOWt THEN [s EXCEPT !.tok = Append(@, TAB), !.st = back]
         ELSE IF ch = LOWx THEN [s EXCEPT !.st = s.st * 10 + 1]
         ELSE [s EXCEPT !.tok = Append(@, ch), !.st = back]
    [] s.st \in {311, 411} -> [s EXCEPT !.tmp = ch, !.st = @ + 1]
    [] s.st \in {312, 412} ->
         IF s.tmp \in HexDig /\ ch \in HexDig
         THEN [s EXCEPT !.tok = Append(@, 16 * HexDigitVal(s.tmp) + HexDigitVal(ch)),
                        !.tmp = 0, !.st = s.st \div 100]
         ELSE Err(s)                       \* invalid \x escape: syntax error
    [] s.st = 5 ->
         IF ch = SLASH THEN [s EXCEPT !.tok = <<SLASH, SLASH>>, !.st = 6]
         ELSE IF ch = EQ THEN [Emit(s, "operator", <<SLASH, EQ>>) EXCEPT !.st = 0]
         ELSE Unread([Emit(s, "operator", <<SLASH>>) EXCEPT !.st = 0])
    [] s.st = 6 ->
         LET t == Append(s.tok, ch)  k == Len(t) IN
         IF t[k] = SLASH /\ t[k - 1] = SLASH
         THEN [Emit([s EXCEPT !.tok = t], "pattern", t) EXCEPT !.st = 0]
         ELSE [s EXCEPT !.tok = t]
    [] s.st = 7 ->
         IF ch = DOT THEN [s EXCEPT !.tok = Append(@, ch), !.st = 8]
         ELSE IF ch \in Digits \cup {USC} THEN [s EXCEPT !.tok = Append(@, ch)]
         ELSE IF ch \in DelimNum THEN Unread([Emit(s, "int", NoUsc(s.tok)) EXCEPT !.st = 0])
         ELSE [s EXCEPT !.tok = Append(@, ch), !.st = 1]
    [] s.st = 70 ->
         IF ch = LOWx THEN [s EXCEPT !.st = 71]
         ELSE IF ch = LOWb THEN [s EXCEPT !.st = 72]
         ELSE Unread([s EXCEPT !.tok = Append(@, ZERO), !.st = 7])
    [] s.st = 71 ->
         IF ch \in HexDig \cup {USC} THEN [s EXCEPT !.tok = Append(@, ch)]
         ELSE IF ch \in DelimNum
              THEN IF NoUsc(s.tok) = << >> THEN Err(s)      \* `0x` without digits
                   ELSE Unread([Emit(s, "int", DecDigits(BaseVal(NoUsc(s.tok), 16, 0))) EXCEPT !.st = 0])
         ELSE [s EXCEPT !.tok = Append(@, ch), !.st = 1]
    [] s.st = 72 ->
         IF ch \in {ZERO, ONE, USC} THEN [s EXCEPT !.tok = Append(@, ch)]
         ELSE IF ch \in DelimNum
              THEN IF NoUsc(s.tok) = << >> THEN Err(s)      \* `0b` without digits
                   ELSE Unread([Emit(s, "int", DecDigits(BaseVal(NoUsc(s.tok), 2, 0))) EXCEPT !.st = 0])
         ELSE [s EXCEPT !.tok = Append(@, ch), !.st = 1]
    [] s.st = 8 ->
         IF ch \in Digits \cup {USC} THEN [s EXCEPT !.tok = Append(@, ch)]
         ELSE IF ch \in DelimNum THEN Unread([Emit(s, "decimal", NoUsc(s.tok)) EXCEPT !.st = 0])
         ELSE [s EXCEPT !.tok = Append(@, ch), !.st = 1]
    [] s.st = 9 -> IF ch = LF THEN [s EXCEPT !.st = 0] ELSE s
    [] s.st = 10 ->
         IF ch = EQ THEN [Emit(s, "operator", Append(s.tok, ch)) EXCEPT !.st = 0]
         ELSE IF s.tok = <<MINUS>> /\ ch = GT THEN [Emit(s, "operator", <<MINUS, GT>>) EXCEPT !.st = 0]
         ELSE IF s.tok = <<STAR>> /\ ch = GT THEN [Emit(s, "interpunction", <<STAR, GT>>) EXCEPT !.st = 0]
         ELSE Unread([Emit(s, "operator", s.tok) EXCEPT !.st = 0])

\* scan(text): fold LexStep over the text followed by the sentinel blank
RECURSIVE LexFrom(_, _)
LexFrom(s, text) == IF text = << >> \/ s.status # "run" THEN s
                    ELSE LexFrom(LexStep(s, Head(text), TRUE), Tail(text))
Lex(text) == LexFrom(Init0, Append(text, SP))

\* reference: 1-based line of the character with index i (1-based) of text
RECURSIVE CountLF(_, _)
CountLF(text, k) == IF k = 0 THEN 0
                    ELSE CountLF(text, k - 1) + (IF text[k] = LF THEN 1 ELSE 0)
LineOf(text, i) == 1 + CountLF(text, i - 1)
=============================================================================
