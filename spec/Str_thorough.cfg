CONSTANTS
  Sym = {9, 10, 39, 43, 46, 65, 92, 97, 124, 233}
  MaxS = 3
  MaxT = 2
  Export = TRUE
SPECIFICATION Spec
INVARIANT TypeOK
INVARIANT ReplaceInv
INVARIANT ReplaceResult
INVARIANT JoinInv
INVARIANT SplitJoin
INVARIANT ReverseResult
INVARIANT Laws
INVARIANT TemplateLaw
INVARIANT ExportCase
PROPERTY ReplaceProgress
CHECK_DEADLOCK FALSE
