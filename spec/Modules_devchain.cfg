\* C11 round 3, deviation (must give TLC a counterexample of BindsExactly):
\* the symbols of an import list are resolved like variables, through the
\* module's environment chain (ImportScopeChain): names of the base environment
\* can be "imported" from any module
CONSTANTS
  Interps = {"i1"}
  UnwindOnFailure = TRUE
  DetachCallerEnv = TRUE
  Mode = "c11"
  ModSeq <- Mods2
  MaxOut = 1
  GenRot = TRUE
  GenBack = "all"
  GenSorted = FALSE
  MaxCtr = 1
  LoadCap = 2
  MaxReq = 2
  CmdsOf <- C11Cmds3
  Export = FALSE
  ImportScope <- ImportScopeChain
SPECIFICATION Spec
INVARIANT TypeOK
PROPERTY BindsExactly
CHECK_DEADLOCK FALSE
