CONSTANTS
  NCells = 2
  MaxSteps = 3
SPECIFICATION Spec
INVARIANT TypeOK
INVARIANT HeapIsFold
INVARIANT Total
INVARIANT WalkIsCycle
INVARIANT LookupEnds
INVARIANT OldLookupLoops
INVARIANT Export
CHECK_DEADLOCK FALSE
