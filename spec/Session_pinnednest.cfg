\* C10 round 3, deviation: the pinned interpret() (root of the caller chain never
\* detached) with caller environments that have a parent of their own: TLC must
\* find the counterexample (outer stays hung under the session of its first user).
CONSTANTS
  Interps = {"i1", "i2"}
  UnwindOnFailure = TRUE
  DetachCallerEnv = FALSE
  Mode = "c10"
  ModSeq <- Mods2
  MaxOut = 0
  GenRot = TRUE
  GenBack = "all"
  GenSorted = FALSE
  MaxCtr = 1
  LoadCap = 1
  MaxReq = 0
  CmdsOf <- C10Nest
  Export = FALSE
SPECIFICATION Spec
INVARIANT CallerEnvDetached
CHECK_DEADLOCK FALSE
