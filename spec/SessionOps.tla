----------------------------- MODULE SessionOps -----------------------------
(* C10 / C11 - pure reference operators shared by Session.tla (the machine)
   and its configurations: abstract values, the naming scheme of generated
   modules, module files (FS), and the reading of the C11 statement: which
   names a require form denotes (Denotes) and what a module object exposes
   (Exposed).  Nothing here has state.

   Abstract values are uniformly typed records [k, id, n, v]:
     int  : an integer v                       (def x = 1)
     fn   : a function defined in the session  (def f() x)
     mod  : the module object of module id     (bound by `require id [as n]`)
     sym  : the top-level symbol n of module id (bound by import / unqualified,
            and what module environments hold)                                *)
EXTENDS Naturals, Sequences, FiniteSets, TLC

IntV(v)    == [k |-> "int", id |-> "", n |-> "", v |-> v]
FnV(n)     == [k |-> "fn",  id |-> "", n |-> n,  v |-> 0]
ModV(m)    == [k |-> "mod", id |-> m,  n |-> "", v |-> 0]
SymV(m, n) == [k |-> "sym", id |-> m,  n |-> n,  v |-> 0]
ObjV(v)    == [k |-> "obj", id |-> "", n |-> "", v |-> v]    \* round 3: an object made by `def class` (member m = v)
NoBind     == [x \in {} |-> IntV(0)]          \* the empty scope

Range(s) == {s[i] : i \in DOMAIN s}
Min(a, b) == IF a < b THEN a ELSE b

-----------------------------------------------------------------------------
(* Naming scheme.  Every generated module m starts with a fixed prelude:
     append(loadlog, 'm')           the load counter (loadlog lives in base)
     def _m_st = [0]                private mutable state
     def m_bump()  ... _m_st[0] += 1
     def m_get()   _m_st[0]
     def m_sees()  do secret catch all 0 end     probe at call time
     def m_top =   do secret catch all 0 end     probe at load time
   and the importer forms use fixed aliases derived from the module id.      *)
NSt(m)   == "_" \o m \o "_st"
NBump(m) == m \o "_bump"
NGet(m)  == m \o "_get"
NSees(m) == m \o "_sees"
NTop(m)  == m \o "_top"
Alias(m) == "a_" \o m                 \* require m as a_m
IGet(m)  == "i_" \o m \o "_get"       \* require m import [m_get as i_m_get,
ISt(m)   == "i_" \o m \o "_st"        \*     _m_st as i_m_st, m_top]

JGet(m)  == "j_" \o m \o "_get"       \* ... import [m_get as i_m_get, m_get as j_m_get, m_top]

Forms == <<"plain", "as", "imp", "unq">>
\* forms used by importer programs only (module files keep to Forms: their
\* reader functions need a binding to reach the required module through):
\*   imp0  require m import []                       - the empty list
\*   impd  require m import [m_get as i_m_get, m_get as j_m_get, m_top]
\*                                                   - one symbol listed twice
IForms == Forms \o <<"imp0", "impd">>
ImpForms == {"imp", "imp0", "impd", "impx" (* round 3 (C11) *)}

(* ---- Round 3 (C11) begin: names that collide, names the module does not have --
   Every generated module of C11 also defines `common` (the same name in every
   module, another value in each), and two importer forms bind a name that
   does not depend on the module:
     asx   require m as shared
     impx  require m import [common, m_get as shared, length as i_m_len, MAXINT,
                             secret as i_m_sec, nosuch as i_m_no]
   so that a require re-binds names that already hold something else (another
   module's symbol or module object, the importer's own `def common = 0`).
   The list of impx also names symbols the module does NOT have: two names of
   the base environment, which is the parent of every module's scope
   (BaseNames: a native and a constant), the importer's own variable `secret`
   and a name nobody has.  An import list is resolved in the module's OWN
   top-level scope (ImportScope; the deviation ImportScopeChain resolves it the
   way a variable is looked up, through the chain of environments), so these
   four bind nothing.                                                        *)
NCommon  == "common"
NShared  == "shared"
BaseNames == {"length", "MAXINT"}
ILen(m)  == "i_" \o m \o "_len"
ISec(m)  == "i_" \o m \o "_sec"
INo(m)   == "i_" \o m \o "_no"
ImpListX(m) == {<<NCommon, NCommon>>, <<NGet(m), NShared>>, <<"length", ILen(m)>>, <<"MAXINT", "MAXINT">>,
                <<"secret", ISec(m)>>, <<"nosuch", INo(m)>>}
IForms3 == IForms \o <<"impx", "asx">>
AsForms == {"as", "asx"}              \* forms that bind the module object under another name
(* ---- Round 3 (C11) end ---------------------------------------------------- *)

\* the import list of the "imp" form for module m: pairs <<symbol, alias>>
ImpList(m) == {<<NGet(m), IGet(m)>>, <<NSt(m), ISt(m)>>, <<NTop(m), NTop(m)>>}
ImpListOf(form, m) ==
  CASE form = "imp0" -> {}
    [] form = "impd" -> {<<NGet(m), IGet(m)>>, <<NGet(m), JGet(m)>>, <<NTop(m), NTop(m)>>}
    [] form = "impx" -> ImpListX(m)         \* round 3 (C11)
    [] OTHER         -> ImpList(m)

\* the name through which code that required d with `form` reaches d
BindName(form, d) == CASE form = "plain" -> d
                       [] form = "as"    -> Alias(d)
                       [] form = "imp"   -> IGet(d)
                       [] form = "asx"   -> NShared     \* round 3 (C11): require d as shared
                       [] OTHER          -> NGet(d)

\* module code resolves free names in its own scope and then in the base
\* environment (nodes.py:1738 `environment.getBase().newEnv()`), never in the
\* importer: the base holds none of the session's names.
NamesVisibleToModuleCode(importerScope) == {}
Probe(importerScope) == IF "secret" \in NamesVisibleToModuleCode(importerScope) THEN 1 ELSE 0

StdEnv(m, importerScope) ==
  (NSt(m)   :> SymV(m, NSt(m)))   @@ (NBump(m) :> SymV(m, NBump(m))) @@
  (NGet(m)  :> SymV(m, NGet(m)))  @@ (NSees(m) :> SymV(m, NSees(m))) @@
  (NTop(m)  :> IntV(Probe(importerScope)))

-----------------------------------------------------------------------------
(* Module files.  FS: id -> [syn, body, priv]; an id outside DOMAIN FS has no
   file.  body is a sequence of statements [op, n, id, form]:
     def  n          def n = 7
     req  id form    require id <form>
     rdr  n id form  def n() <d_get reached through the binding `form` made>
     poke id form    call d_bump through the binding `form` made (at load time)
     fail            error 'boom'                                            *)
SDef(n)          == [op |-> "def",  n |-> n,  id |-> "", form |-> ""]
SReq(d, f)       == [op |-> "req",  n |-> "", id |-> d,  form |-> f]
SRdr(n, d, f)    == [op |-> "rdr",  n |-> n,  id |-> d,  form |-> f]
SPoke(d, f)      == [op |-> "poke", n |-> "", id |-> d,  form |-> f]
SFail            == [op |-> "fail", n |-> "", id |-> "", form |-> ""]

File(body, priv) == [syn |-> FALSE, body |-> body, priv |-> priv]

\* the fixed file system of C10
FS10 ==
  ("good"   :> File(<<SDef("good_a"), SDef("_good_p")>>, {NSt("good"), "_good_p"})) @@
  ("good2"  :> File(<<SReq("good", "plain"), SRdr("good2_r1", "good", "plain"),
                      SDef("good2_b")>>, {NSt("good2")})) @@
  ("broken" :> File(<<SDef("broken_x"), SReq("good", "plain"), SFail,
                      SDef("broken_y")>>, {NSt("broken")})) @@
  ("synbad" :> [syn |-> TRUE, body |-> << >>, priv |-> {}]) @@
  ("cyca"   :> File(<<SDef("cyca_x"), SReq("cycb", "plain"), SDef("cyca_y")>>, {NSt("cyca")})) @@
  ("cycb"   :> File(<<SReq("cyca", "plain"), SDef("cycb_y")>>, {NSt("cycb")}))

(* ---- Round 3 (C10) begin: further module files ---------------------------
   (a) Module files whose load fails with something that is not an error of
       the language: a file that cannot be read as text at all (Unreadable:
       id -> how: "bytes" = not UTF-8, "dir" = a directory of that name) and
       a file whose top level exhausts the host's stack (statement `deep`:
       def m_f(n) m_f(n + 1); m_f(0)) or does not end and is interrupted by
       the user (statement `spin`: while TRUE do 1; end - the host delivers
       KeyboardInterrupt, as Ctrl-C does in the REPL).  wrapu / wrapd / wraps
       are sound modules that require one of them between two definitions, so
       that the ids of the modules that were loading it are on the stack when
       it fails.
   (b) A second module directory (FS10B) for configurations in which the
       interpreters have different module paths: it holds a module `good`
       with the same public names but another value (def8: def n = 8), a
       module `solo` that only this directory has, and no `good2`.          *)
SDef8(n)         == [op |-> "def8", n |-> n,  id |-> "", form |-> ""]
SDeep            == [op |-> "deep", n |-> "", id |-> "", form |-> ""]
SSpin            == [op |-> "spin", n |-> "", id |-> "", form |-> ""]
DefOps           == {"def", "def8"}        \* statements that define one public int

Unreadable == ("undec" :> "bytes") @@ ("isdir" :> "dir")
FS10R3 ==
  ("undec"   :> File(<< >>, {})) @@
  ("isdir"   :> File(<< >>, {})) @@
  ("deeprec" :> File(<<SDef("deeprec_x"), SDeep, SDef("deeprec_y")>>, {NSt("deeprec")})) @@
  ("wrapu"   :> File(<<SDef("wrapu_x"), SReq("undec", "plain"), SDef("wrapu_y")>>, {NSt("wrapu")})) @@
  ("wrapd"   :> File(<<SDef("wrapd_x"), SReq("deeprec", "plain"), SDef("wrapd_y")>>, {NSt("wrapd")})) @@
  ("spin"    :> File(<<SDef("spin_x"), SSpin, SDef("spin_y")>>, {NSt("spin")})) @@
  ("wraps"   :> File(<<SDef("wraps_x"), SReq("spin", "plain"), SDef("wraps_y")>>, {NSt("wraps")}))
C10Files == FS10 @@ FS10R3

FS10B ==
  ("good"   :> File(<<SDef8("good_a"), SDef("_good_p")>>, {NSt("good"), "_good_p"})) @@
  ("solo"   :> File(<<SDef("solo_a")>>, {NSt("solo")}))
(* ---- Round 3 (C10) end --------------------------------------------------- *)

(* ---- Round 3 (C11) begin: public definitions of every kind of value ---------
   The statement `vals` (first statement of every generated C11 module) stands
   for one definition per kind of value a module can export, next to the ints
   and functions of the prelude:
     def common = <pos>            (NCommon: the same name in every module)
     def m_objv = <* w = 3 *>      a plain object (not a module object)
     def m_lstv = [4]              def m_mapv = <<< 'w' => 5 >>>
     def m_strv = 'ssssss'         def m_null = NULL
     def m_bool = TRUE             def m_zero = 0
   All are public top-level definitions: the module object exposes them, and
   `unqualified` / an import list bind them, like any other.  A module of the
   second directory (variant "alt", FSOfAlt) has the same names with other
   contents (ValR).  n = the position of the module among AllMods (as text; it
   is the value of `common`), id = the variant.                               *)
AllMods   == <<"ma", "mb", "mc", "md", "me">>
ModPos(m) == CHOOSE k \in DOMAIN AllMods : AllMods[k] = m
ValKinds  == {"objv", "lstv", "mapv", "strv", "null", "bool", "zero", "cnt" (* round 4 (C11): NCnt *)}
NVal(m, kd) == m \o "_" \o kd
SVals(m, variant) == [op |-> "vals", n |-> ToString(ModPos(m)), id |-> variant, form |-> ""]
ValNames(m) == {NCommon} \cup {NVal(m, kd) : kd \in ValKinds}
ValsEnv(m)  == [n \in ValNames(m) |-> SymV(m, n)]
\* what the observer finds in such a definition: the int w / the element / the
\* value under 'w' / the length of the text / 0 / 1 for TRUE / the int itself
ValR(kd, m, variant) ==
  LET a == IF variant = "alt" THEN 10 ELSE 0 IN
  CASE kd = "common" -> ModPos(m) + a
    [] kd = "objv"   -> 3 + a
    [] kd = "lstv"   -> 4 + a
    [] kd = "mapv"   -> 5 + a
    [] kd = "strv"   -> 6 + a
    [] kd = "bool"   -> IF variant = "alt" THEN 0 ELSE 1
    [] OTHER (* null, zero *) -> 0
ValKindOf(m, n) == IF n = NCommon THEN "common" ELSE CHOOSE kd \in ValKinds : NVal(m, kd) = n

\* The second module directory of C11 (the interpreters named by AltFS11 in
\* Session.tla read it): the same module names as the generated graph, other
\* contents - variant "alt" of the values, m_x = 8, a public m_w instead of
\* m_z and the private _m_y - and a fixed shape: every module requires the
\* next one of seq `as shared` (the form asx: every module of the chain binds
\* its neighbour under the SAME name, so the name a module is bound under
\* says nothing about which module it is), the last one requires nothing.
RECURSIVE AltChain(_, _)
AltChain(seq, k) ==
  IF k > Len(seq) THEN [x \in {} |-> 0]
  ELSE (seq[k] :> [syn |-> FALSE, priv |-> {NSt(seq[k])},
                   body |-> <<SVals(seq[k], "alt"), SDef8(seq[k] \o "_x")>>
                            \o (IF k < Len(seq)
                                THEN <<[op |-> "req", n |-> "", id |-> seq[k + 1], form |-> "asx"],
                                       [op |-> "rdr", n |-> seq[k] \o "_r1", id |-> seq[k + 1], form |-> "asx"]>>
                                ELSE << >>)
                            \o <<[op |-> "def", n |-> seq[k] \o "_w", id |-> "", form |-> ""]>>])
       @@ AltChain(seq, k + 1)
FSOfAlt(seq) == AltChain(seq, 1)

\* String spellings of a user module.  `require <expression>` takes the name
\* of the module from a string as well: the file is the last path component
\* (a directory part is ignored, `.ckl` may be written out), the module - what
\* is cached, loaded once, bound - is that file:  'ma'  'ma.ckl'  'lib/ma'
\* './ma.ckl'  all denote the module ma and bind the name ma (or the `as` name).
SpellKinds == {"str", "ext", "dir", "dot"}
SpellOf(kd, m) == CASE kd = "str" -> "'" \o m \o "'"
                    [] kd = "ext" -> "'" \o m \o ".ckl'"
                    [] kd = "dir" -> "'lib/" \o m \o "'"
                    [] OTHER      -> "'./" \o m \o ".ckl'"
UserSpell == [sp \in {SpellOf(kd, m) : kd \in SpellKinds, m \in Range(AllMods)} |->
                CHOOSE m \in Range(AllMods) : \E kd \in SpellKinds : SpellOf(kd, m) = sp]
(* ---- Round 3 (C11) end ---------------------------------------------------- *)

(* ---- Round 4 (C11) begin: a public definition that is reassigned -------------
   The statement `vals` also stands for
     def m_cnt = 0                 (NCnt: kind "cnt" of ValKinds)
   and m_bump() of a C11 module reassigns it next to the private state:
     _m_st[0] = _m_st[0] + 1; m_cnt = m_cnt + 1
   so the module's own m_cnt is always the number of bumps (Session: ctr).
   What an importer gets of it is its value at the moment of the binding:
     * `require m unqualified` / an import list bind the VALUE the definition
       has then (an int: a later bump does not show in the importer's name);
     * `require m` / `as` bind a module object "exposing the module's public
       top-level definitions": the definitions as they are when THIS require
       binds - every qualified require makes the object anew, so the member
       m->m_cnt of the object bound now is the module's value now, whatever an
       earlier require (of this importer, of another module) bound, and
       whatever an importer assigned to a member of ITS object (`m->m_cnt = 5`
       changes that object, not the module, and no object bound later).
   In a scope a sym m_cnt and a module object of m carry that value in the
   field v.  nowvars = the module's top-level scope with m_cnt at its present
   value (Session.NowVars).                                                  *)
NCnt(m) == NVal(m, "cnt")
CntOf(d, nowvars) == IF NCnt(d) \in DOMAIN nowvars THEN nowvars[NCnt(d)].v ELSE 0
\* the module object a qualified require of d binds now
ModOf(d, nowvars) == [ModV(d) EXCEPT !.v = CntOf(d, nowvars)]
\* deviation (a configuration that substitutes it for Session.ModObj must
\* violate BindsExactly): the object is made once, when the module has been
\* loaded, and handed out by every require
ModAtLoad(d, nowvars) == ModV(d)
MSetVal == 5                          \* importer command  n->m_cnt = 5
(* ---- Round 4 (C11) end ---------------------------------------------------- *)

(* ---- Round 5 (C10) begin ------------------------------------------------------
   (a) A world that changes between two commands.  The module directory of the
       interpreters is not fixed: a module file that is not there at the start
       appears (FSLate: `late`) and disappears again, a file changes its content
       before it was ever loaded successfully (`flaky`: version 0 fails at its
       top level, version 1 is not well-formed, version 2 is sound), and a
       program appends a second directory (ExtraDir) to its OWN interpreter's
       module path.  A failed `require` leaves nothing: once the module can be
       loaded, the next require loads it, exactly as on an interpreter that
       never saw the failed attempt (no record of "not found", of the error, of
       the parsed text survives the call).
   (b) Bundled modules are modules like the others: an interpreter evaluates
       its own instance under its OWN base environment.  Two of them have
       contents the model follows, through what depends on that base:
         list   first(lst) asks the base-level function is_list - a program
                that reassigns it (`is_list = fn(obj) FALSE`, the assignment
                reaches the base environment of ITS interpreter) breaks
                List->first in that interpreter and in no other;
         io     read_file exists in an interpreter that is not in secure mode
                (Session.Insecure) and in no other.
   (c) NullV: the value NULL in a scope (`"doc" def dn = NULL`); the doc string
       of a definition belongs to that definition of that interpreter.       *)
FSLate   == ("late" :> File(<<SDef("late_a")>>, {NSt("late")}))
FlakyV(k) == CASE k = 0 -> File(<<SDef("flaky_x"), SFail, SDef("flaky_y")>>, {NSt("flaky")})
               [] k = 1 -> [syn |-> TRUE, body |-> << >>, priv |-> {}]
               [] OTHER -> File(<<SDef("flaky_x"), SDef("flaky_y")>>, {NSt("flaky")})
FSWorld0 == ("flaky" :> FlakyV(0))            \* (what the directory holds of them at the start)
ExtraDir == FS10B                             \* the directory `addpath` appends: good (other contents), solo
NullV    == [k |-> "null", id |-> "", n |-> "", v |-> 0]
C10Files5 == C10Files @@ FSWorld0             \* the module directory of C10 at the start
(* ---- Round 5 (C10) end ------------------------------------------------------ *)

\* Bundled modules (src/ckl/modules/*.ckl) are found whatever the case of the
\* name used (nodes.py: "modules/" + basename.lower()); the start-up code
\* requires Sys (modules/base.ckl), so `sys` is loaded in every interpreter
\* before the first command.  Their contents are not modelled (a module
\* object of a bundled module is observed for what it is and for which
\* instance it shows, not for its members).
Spell == ("Sys" :> "sys") @@ ("Stat" :> "stat") @@ ("STAT" :> "stat")
         @@ ("List" :> "list") @@ ("IO" :> "io")          \* round 5 (C10)
Canon(sp) == IF sp \in DOMAIN Spell THEN Spell[sp]              \* spelling -> file
             ELSE IF sp \in DOMAIN UserSpell THEN UserSpell[sp]   \* round 3 (C11): a string
             ELSE sp
\* round 3 (C11): the name a plain require binds = the module name as spelled;
\* for a string that is the file's name without directory and extension
BindNm(sp) == IF sp \in DOMAIN UserSpell THEN UserSpell[sp] ELSE sp
BundledFS == ("sys" :> File(<< >>, {})) @@ ("stat" :> File(<< >>, {}))
             @@ ("list" :> File(<< >>, {})) @@ ("io" :> File(<< >>, {}))      \* round 5 (C10)
Bundled == DOMAIN BundledFS
Preloaded == {"sys"}

\* generated file systems of C11: gen is a sequence of edges [m, d, form, poke]
\* (module m requires d with form, optionally bumping d at load time); every
\* module of Ids exists, has one public and one private definition before its
\* requires and one public definition after them.
RECURSIVE EdgeStmts(_, _, _)
EdgeStmts(gen, m, k) ==
  IF k > Len(gen) THEN << >>
  ELSE IF gen[k].m # m THEN EdgeStmts(gen, m, k + 1)
  ELSE <<SReq(gen[k].d, gen[k].form),
         SRdr(m \o "_r" \o ToString(k), gen[k].d, gen[k].form)>>
       \o (IF gen[k].poke THEN <<SPoke(gen[k].d, gen[k].form)>> ELSE << >>)
       \o EdgeStmts(gen, m, k + 1)

FSOf(gen, Ids) ==
  [m \in Ids |-> File(<<SVals(m, "") (* round 3 (C11) *), SDef(m \o "_x"), SDef("_" \o m \o "_y")>>
                        \o EdgeStmts(gen, m, 1) \o <<SDef(m \o "_z")>>,
                      {NSt(m), "_" \o m \o "_y"})]

IsPrivate(fs, n) == \E m \in DOMAIN fs : n \in fs[m].priv

\* what kind of thing the symbol n of module m is (for rendering observations)
SymStmt(fs, m, n) == CHOOSE i \in DOMAIN fs[m].body : fs[m].body[i].n = n /\ fs[m].body[i].op \in {"def", "rdr", "def8"}
SymKind(fs, m, n) ==
  CASE n = NSt(m)   -> "st"
    [] n = NBump(m) -> "bump"
    [] n = NGet(m)  -> "get"
    [] n = NSees(m) -> "sees"
    [] n \in ValNames(m) -> "vals"          \* round 3 (C11): defined by the statement `vals`
    [] OTHER        -> fs[m].body[SymStmt(fs, m, n)].op

-----------------------------------------------------------------------------
(* The reading of the C11 statement. vars = the module's top-level scope.
   "public symbols" = the names of that scope that do not start with an
   underscore.  The module object exposes the public symbols that are not
   themselves module objects (nodes.py:1797 "do not re-modules").           *)
PubSyms(fs, vars) == {n \in DOMAIN vars : ~IsPrivate(fs, n)}
Exposed(fs, vars) == {n \in PubSyms(fs, vars) : vars[n].k # "mod"}

\* the set of names `require nm <form>` adds to / rebinds in the importer
\* scope (nm = the name as spelled in the statement; it differs from the
\* module's identity d only for bundled modules, see Canon)
Denotes(fs, form, nm, vars) ==
  CASE form = "plain"    -> {nm}
    [] form = "as"       -> {Alias(nm)}
    [] form = "asx"      -> {NShared}                                   \* round 3 (C11)
    [] form \in ImpForms -> {p[2] : p \in {q \in ImpListOf(form, nm) : q[1] \in PubSyms(fs, vars)}}
    [] OTHER             -> PubSyms(fs, vars)

\* and the value each of them gets: every listed alias of a symbol gets that
\* symbol, the module object is the one instance of d
BoundValue(fs, form, d, vars, name) ==
  CASE form \in {"plain", "as", "asx" (* round 3 (C11) *)} -> ModOf(d, vars)  \* round 4 (C11): vars = the definitions as they are now
    [] form \in ImpForms -> vars[(CHOOSE p \in ImpListOf(form, d) : p[2] = name /\ p[1] \in DOMAIN vars)[1]]
    [] OTHER        -> vars[name]

(* ---- Round 3 (C11) begin: where the symbols of an import list are looked up --
   In the module's own top-level scope (`vars`), never further up: the base
   environment behind it (the parent of every module scope) holds the natives
   and everything the start-up code defined, none of which the module exports.
   ImportScopeChain is the deviation "resolved like a variable": a
   configuration that substitutes it for ImportScope must violate BindsExactly. *)
BaseScope == [n \in BaseNames |-> FnV(n)]
ImportScope(vars)      == vars
ImportScopeChain(vars) == vars @@ BaseScope
\* A require re-binds a name that is already bound (Rebind: the new bindings
\* win); the deviation RebindKeep keeps what the importer already had.
Rebind(new, old)     == new @@ old
RebindKeep(new, old) == old @@ new
(* ---- Round 3 (C11) end ---------------------------------------------------- *)

=============================================================================
