CONSTANTS
  MaxList = 4
  MaxPerm = 6
  Span = 20
  MaxShift = 40
  Fams = {"pair", "flat", "range", "func", "perm", "num", "bits", "wide", "xperm", "pow", "powbig"}
  MaxWide = 3
  MaxWideB = 2
  MaxXPerm = 4
  PowExps = {6, 31, 32, 33, 53, 63, 64, 65, 100, 127, 128, 255, 256, 400, 512}
  Export = TRUE
SPECIFICATION Spec
INVARIANT TypeOK
INVARIANT SetLaws
INVARIANT UniqueLaw
INVARIANT StructLaws
INVARIANT FlattenLaw
INVARIANT RangeLaws
INVARIANT FuncLaws
INVARIANT PermLaws
INVARIANT NumLaws
INVARIANT BitLaws
INVARIANT WideLaws
INVARIANT XPermLaws
INVARIANT AgreeLaws
INVARIANT PowLaws
CHECK_DEADLOCK FALSE
