------------------------------ MODULE Parser ------------------------------
(* The recursive-descent parser of checkerlang-py (src/ckl/parser.py) as a
   pushdown automaton over token classes (C01; error positions for C20).

   parser.py is a set of mutually recursive functions that talk to the token
   cursor of lexer.py (hasNext/next/peek/peekn/matchIf/match/matchIdentifier/
   eat/previous).  ParserTable.tla (generated from the transcription in
   tools/parser_table.py, one row per cursor call or control transfer of
   parser.py) holds, per parse function, a sequence of instructions; this
   module is the engine that interprets them: program counter (fn, ip), a
   stack of return addresses (the Python call stack), the cursor position i
   (Lexer.nextToken) and the token list.

   Lazy input: the token list is not fixed in advance.  A `Feed` step appends
   one token class (or end of input) only when the instruction at hand looks
   past what exists, so TLC explores one branch per continuation the parser
   can *distinguish*, not |Sigma|^N strings, and every run ends at the first
   syntax error - all states are viable prefixes plus one offending token.

   A token class is a record [ty, v]: ty the lexer's token type, v the token
   text for keywords/operators/interpunction/identifiers the parser matches by
   value, and a representative text for literals.

   Outcome: status \in {"run","accept","syntax","eof","deep","stuck"} and for
   errors errAt, the 1-based index of the token whose position the raised
   CklSyntaxError carries (0: no token).  "eof" is a syntax error with the
   message `Unexpected end of input` (what the REPL keys on).  "deep" marks
   nesting beyond MaxStack (out of scope by the property statement).         *)
EXTENDS Integers, Sequences, FiniteSets, TLC, Json, ParserTable

CONSTANTS Sigma,      \* token classes offered by Feed
          MaxTok,     \* longest input
          MaxStack,   \* deepest call stack explored
          MaxFuel,    \* most engine steps between two cursor advances
          Export

VARIABLE c      \* the parser configuration, a record:
                \*   toks, eof     token classes fed so far / end of input decided
                \*   i             Lexer.nextToken (tokens consumed)
                \*   fn, ip, stack program counter and return addresses
                \*   status, errAt outcome
                \*   reg           last token read into a local variable
                \*   fuel          engine steps since the cursor last advanced

vars == <<c>>

NoTok == [ty |-> "", v |-> ""]

Init0 == [toks |-> << >>, eof |-> FALSE, i |-> 0, fn |-> "parse", ip |-> 1,
          stack |-> << >>, status |-> "run", errAt |-> 0, reg |-> NoTok, fuel |-> 0]

Ins_(k) == Prog[k.fn][k.ip]

\* peekn(n, v, ty): ty = "" means "identifier or keyword" (tokentype None)
Matches(t, v, ty) == /\ t.v = v
                     /\ IF ty = "" THEN t.ty \in {"identifier", "keyword"} ELSE t.ty = ty

\* how far the instruction at hand looks ahead (0 = not at all)
Need(k) == LET I == Ins_(k) IN
           CASE I.op = "ifpeek" -> I.n
             [] I.op \in {"matchif", "match", "matchident", "next", "peek", "ifhasnext",
                          "ifpeekty", "ifpeekvt"} -> 1
             [] OTHER -> 0

Known(k, j) == j <= Len(k.toks) \/ k.eof     \* is position j decided yet
Blocked(k)  == Need(k) > 0 /\ ~Known(k, k.i + Need(k))

\* one instruction (deterministic; `choice` is resolved by the argument pick)
StepF(k, pick) ==
  LET I == Ins_(k)
      i == k.i
      toks == k.toks
      Have(j) == j <= Len(toks)
      Stop(st, at) == [k EXCEPT !.status = st, !.errAt = at]
      Goto(l) == [k EXCEPT !.ip = l, !.fuel = @ + 1]
      Advance(n, l, r) == [k EXCEPT !.i = @ + n, !.ip = l, !.reg = r, !.fuel = 0]
  IN
  IF k.fuel >= MaxFuel THEN Stop("stuck", i)
  ELSE
  CASE I.op = "call" ->
         IF Len(k.stack) >= MaxStack THEN Stop("deep", i)
         ELSE [k EXCEPT !.stack = Append(@, <<k.fn, k.ip + 1>>), !.fn = I.v, !.ip = 1, !.fuel = @ + 1]
    [] I.op = "ret" ->
         [k EXCEPT !.fn = k.stack[Len(k.stack)][1], !.ip = k.stack[Len(k.stack)][2],
                   !.stack = SubSeq(@, 1, Len(@) - 1), !.fuel = @ + 1]
    [] I.op = "jmp" -> Goto(I.l)
    [] I.op = "ifpeek" ->
         IF Have(i + I.n) /\ Matches(toks[i + I.n], I.v, I.ty) THEN Goto(I.l) ELSE Goto(k.ip + 1)
    [] I.op = "matchif" ->
         IF Have(i + 1) /\ Matches(toks[i + 1], I.v, I.ty)
         THEN Advance(1, I.l, k.reg) ELSE Goto(k.ip + 1)
    [] I.op = "ifhasnext" -> IF Have(i + 1) THEN Goto(I.l) ELSE Goto(k.ip + 1)
    [] I.op = "match" ->
         IF ~Have(i + 1) THEN Stop("eof", i)
         ELSE IF toks[i + 1].v = I.v /\ toks[i + 1].ty = I.ty
              THEN Advance(1, k.ip + 1, k.reg) ELSE Stop("syntax", i + 1)
    [] I.op = "matchident" ->
         IF ~Have(i + 1) THEN Stop("eof", i)
         ELSE IF toks[i + 1].ty = "identifier"
              THEN Advance(1, k.ip + 1, toks[i + 1]) ELSE Stop("syntax", i + 1)
    [] I.op = "next" ->
         IF ~Have(i + 1) THEN Stop("eof", i) ELSE Advance(1, k.ip + 1, toks[i + 1])
    [] I.op = "peek" ->
         IF ~Have(i + 1) THEN Stop("eof", i)
         ELSE [k EXCEPT !.reg = toks[i + 1], !.ip = @ + 1, !.fuel = @ + 1]
    [] I.op = "ifpeekty" ->              \* lexer.peek().type in S  (peek is checked)
         IF ~Have(i + 1) THEN Stop("eof", i)
         ELSE IF toks[i + 1].ty \in I.s THEN Goto(I.l) ELSE Goto(k.ip + 1)
    [] I.op = "ifpeekvt" ->              \* peek().value in S and peek().type in T
         IF ~Have(i + 1) THEN Stop("eof", i)
         ELSE IF toks[i + 1].v \in I.s /\ toks[i + 1].ty \in I.t THEN Goto(I.l) ELSE Goto(k.ip + 1)
    [] I.op = "eoferr" -> Stop("eof", i)
    [] I.op = "mark" ->                  \* remember the index of the token just consumed
         [k EXCEPT !.stack = Append(@, <<"@", i>>), !.ip = @ + 1, !.fuel = @ + 1]
    [] I.op = "unmark" ->
         [k EXCEPT !.stack = SubSeq(@, 1, Len(@) - 1), !.ip = @ + 1, !.fuel = @ + 1]
    [] I.op = "failmark" -> Stop("syntax", k.stack[Len(k.stack)][2])
    [] I.op = "setreg" ->
         [k EXCEPT !.reg = [ty |-> "@flag", v |-> I.v], !.ip = @ + 1, !.fuel = @ + 1]
    [] I.op = "ifregty" -> IF k.reg.ty \in I.s THEN Goto(I.l) ELSE Goto(k.ip + 1)
    [] I.op = "ifregv"  -> IF k.reg.v \in I.s THEN Goto(I.l) ELSE Goto(k.ip + 1)
    [] I.op = "eat"  -> Advance(I.n, k.ip + 1, k.reg)
    [] I.op = "prev" -> IF i = 0 THEN Stop("syntax", 1)
                        ELSE [k EXCEPT !.i = @ - 1, !.ip = @ + 1, !.fuel = @ + 1]
    [] I.op = "fail" -> Stop("syntax", i + I.n)
    [] I.op = "choice" -> IF pick THEN Goto(I.l) ELSE Goto(k.ip + 1)
    [] I.op = "accept" -> Stop("accept", 0)

\* run the deterministic instructions up to the next point where the parser
\* looks at an undecided position, meets a data-dependent branch, or stops
RECURSIVE Run(_)
Run(k) == IF k.status # "run" \/ Blocked(k) \/ Ins_(k).op = "choice" THEN k
          ELSE Run(StepF(k, FALSE))

Init == c = Run(Init0)

\* the parser looks at a position that is not decided yet: decide it
Feed(t) == /\ c.status = "run" /\ Blocked(c) /\ Len(c.toks) < MaxTok
           /\ c' = Run([c EXCEPT !.toks = Append(@, t)])

FeedEOF == /\ c.status = "run" /\ Blocked(c)
           /\ c' = Run([c EXCEPT !.eof = TRUE])

\* a branch that depends on the syntax tree built so far (not modelled)
Pick == /\ c.status = "run" /\ ~Blocked(c) /\ Ins_(c).op = "choice"
        /\ \E b \in BOOLEAN : c' = Run(StepF(c, b))

Next == (\E t \in Sigma : Feed(t)) \/ FeedEOF \/ Pick
Spec == Init /\ [][Next]_vars

-----------------------------------------------------------------------------
TypeOK ==
  /\ c.status \in {"run", "accept", "syntax", "eof", "deep", "stuck"}
  /\ c.fn \in DOMAIN Prog /\ c.ip \in 1..Len(Prog[c.fn])
  /\ c.i \in 0..Len(c.toks)
  /\ c.errAt \in 0..(Len(c.toks) + 1)

\* C01: the cursor is never read out of range without a syntax error (the
\* engine has no other way to fail), and the parser always makes progress:
\* at most MaxFuel engine steps between two cursor advances ("stuck" is the
\* class-body loop of the pinned tree)
NoStuck == c.status # "stuck"

\* an error position always names an existing token (or none when empty)
ErrAtWithinInput ==
  c.status \in {"syntax", "eof"} => c.errAt <= Len(c.toks) /\ (Len(c.toks) > 0 => c.errAt >= 1)

\* "Unexpected end of input" is reported only when the input really ended
EofOnlyAtEnd == c.status = "eof" => c.eof /\ c.i = Len(c.toks)

\* acceptance consumes the whole input
AcceptConsumesAll == c.status = "accept" => c.eof /\ c.i = Len(c.toks)

\* The REPL (repl.py) keeps reading lines while the parser says `Unexpected end
\* of input`: ending the input must never produce any *other* syntax error -
\* a viable prefix is reported as incomplete, not as wrong.
\* NOT one of the listed properties and it does NOT hold (Parser_repl.cfg shows
\* the counterexample `x starts <end of input>`: the multi-word predicates
\* `starts with`, `ends with`, `date with hour` are matched with bounded
\* look-ahead, a truncated one falls through to "Expected end of input");
\* recorded as an observation in DESIGN.md, not used by any check.
EndOfInputIsEof == [][(c'.eof /\ ~c.eof) => c'.status \in {"run", "accept", "eof", "deep"}]_c

Terminal == c.status # "run"
Rec == [toks |-> c.toks, status |-> c.status, errAt |-> c.errAt, depth |-> Len(c.stack)]
ExportRuns == (Export /\ Terminal) => PrintT("@@PARSE@@" \o ToJson(Rec))
=============================================================================
