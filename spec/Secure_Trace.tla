--------------------------- MODULE Secure_Trace ---------------------------
(* C09, binding B (and the observations of binding A): what secure
   interpreters were seen doing is stepped through the Secure model.

   A `new` event starts an interpreter: `via` says how it was obtained - the
   constructor Interpreter(secure, legacy) ("ctor") or a command line front
   end ("run", "repl") - and `opts` which of the options secure / legacy were
   given.  The model's flag is SecureOps!CliSecure(opts) from then on
   (Secure!FlagImmutable, Secure!FlagIsConfig); only interpreters that were
   asked to be secure are judged.  Every `obs` event is what the harness
   observed after one thing was done to that interpreter (its construction -
   possibly with other interpreters constructed by the host before or after
   it -, one replayed model action, one invocation of a module symbol with
   the argument tuples of SecureOps!CallShapes, one `require` of a
   SecureOps!ForeignSpecs module spec, one direct call of the binder, one run
   of a probe program by a front end):
     os     - the operating-system events recorded while it ran
              (audit hook + stat-family wrappers): [kind, cls, req]
     flag   - checkerlang_secure_mode in the base environment afterwards
     nbad   - number of forbidden natives (OS-touching or declared not secure)
              among the function values reachable from all environments,
              module environments, objects, closures and the returned value
     canary - the canary directory is unchanged
     ran    - a script file that is no module (the canary's script) was run
     n      - how many times in a row this very observation was made (identical
              records are folded; the verdict holds for each of them)
   An observation the property forbids is reported (@@BAD@@ with the clause)
   and the walk goes on, so every offending event is listed. *)
EXTENDS SecureOps, TLC, Json, IOUtils

Trace == ndJsonDeserialize(IOEnv.TRACE_FILE)

VARIABLES l, flag
vars == <<l, flag>>

Ev == Trace[l]
Bad(why) == PrintT("@@BAD@@" \o ToJson([l |-> l, why |-> why]))
Check(c, why) == c \/ Bad(why)

Init == l = 1 /\ flag = TRUE

OsOk(o) == PermittedOs(o.kind, o.cls, o.req)

Step ==
  /\ l <= Len(Trace)
  /\ l' = l + 1
  /\ CASE Ev.op = "new" -> flag' = CliSecure(Elems(Ev.opts))
       [] Ev.op = "obs" ->
            /\ flag' = flag                                   \* FlagImmutable
            /\ Check(Ev.n >= 1, "malformed")
            /\ flag =>
                 /\ Check(Ev.flag = "TRUE",                     \* FlagIsConfig / FlagImmutable
                          IF Ev.phase = "cli" THEN "front-end-not-secure" ELSE "flag-changed")
                 /\ Check(Ev.nbad = 0, "forbidden-native-reachable")   \* NoInsecureBound
                 /\ Check(Ev.canary, "canary-changed")
                 /\ Check(~Ev.ran, "script-file-run")
                 /\ Check(\A i \in DOMAIN Ev.os : OsOk(Ev.os[i]), "os-event")
       [] OTHER -> flag' = flag /\ Bad("unknown-op")
  /\ (l = Len(Trace) => PrintT("@@DONE@@" \o ToJson([n |-> l])))

Spec == Init /\ [][Step]_vars

Accepted == TLCGet("stats").diameter - 1 = Len(Trace)
=============================================================================
