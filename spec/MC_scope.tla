---- MODULE MC_scope ----
EXTENDS MachineRun
Progs == ScopeParams(0)
====
