------------------------------ MODULE FormsOps ------------------------------
(* C13 - reference operators shared by Forms.tla (the model of the syntactic
   forms) and Natives_Trace.tla (validation of recorded outcomes).

   The value pool, the table of syntactic forms, and - per form - the outcome
   class "value" / "error" as a function of the argument tuple, written as the
   explicit type preconditions the evaluation nodes of nodes.py test (and the
   operator natives add/sub/mul/div/mod/... they call).  A tuple for which no
   rule of a form is applicable is "stuck": that is how a host exception (an
   unguarded int(idx.value), a loop over None, a missing dictionary key) shows
   up in the model.  The property is that no (form, tuple) is stuck.          *)
EXTENDS Naturals, Integers, Sequences, FiniteSets

\* proxies for magnitudes that only matter relative to lengths / regex limits
BigInt == 1073741824          \* stands for 2^70 in index and count positions
NoDigits == -2                \* the text of the value is not a run of digits
EmptyText == -1               \* the text of the value is empty
TooManyReps == 1000000        \* a digit text beyond the regex engine's repeat limit

(* One record per pool value.  k = what type() says; len = number of
   characters / elements / entries; iv = the int itself; dg = the value's text
   read as a repeat count inside a regular expression quantifier.            *)
V(tag, k, len, iv, big, dg) ==
  [tag |-> tag, k |-> k, len |-> len, iv |-> iv, big |-> big, dg |-> dg]

Pool == <<
  V("null",     "null",    0, 0,  FALSE, NoDigits),
  V("true",     "boolean", 0, 0,  FALSE, NoDigits),
  V("i0",       "int",     0, 0,  FALSE, 0),
  V("ineg",     "int",     0, -1, FALSE, NoDigits),
  V("i2",       "int",     0, 2,  FALSE, 2),
  V("big",      "int",     0, BigInt, TRUE, TooManyReps),
  V("d0",       "decimal", 0, 0,  FALSE, NoDigits),
  V("dneg",     "decimal", 0, -1, FALSE, NoDigits),
  V("sempty",   "string",  0, 0,  FALSE, EmptyText),
  V("sa",       "string",  1, 0,  FALSE, NoDigits),
  V("s12",      "string",  2, 0,  FALSE, 12),
  V("date",     "date",    0, 0,  FALSE, TooManyReps),
  V("pat",      "pattern", 0, 0,  FALSE, NoDigits),
  V("lempty",   "list",    0, 0,  FALSE, NoDigits),
  V("l2",       "list",    2, 0,  FALSE, NoDigits),
  V("setempty", "set",     0, 0,  FALSE, NoDigits),
  V("set1",     "set",     1, 0,  FALSE, NoDigits),
  V("mapempty", "map",     0, 0,  FALSE, NoDigits),
  V("map1",     "map",     1, 0,  FALSE, NoDigits),
  V("obj",      "object",  1, 0,  FALSE, NoDigits),
  V("lambda",   "func",    0, 0,  FALSE, NoDigits),
  V("native",   "func",    0, 0,  FALSE, NoDigits),
  V("input",    "input",   0, 0,  FALSE, NoDigits),
  V("output",   "output",  0, 0,  FALSE, NoDigits),
  \* round 3: the second boolean (appended, so the indexes above keep their meaning).  With TRUE alone
  \* `p0 or p1` never evaluated its second operand and no loop ended because of its condition.
  V("false",    "boolean", 0, 0,  FALSE, NoDigits) >>

NPool == Len(Pool)
None == V("none", "none", 0, 0, FALSE, NoDigits)      \* an unused argument slot
ByTag(t) == IF \E i \in 1..NPool : Pool[i].tag = t
            THEN Pool[CHOOSE i \in 1..NPool : Pool[i].tag = t] ELSE None

-----------------------------------------------------------------------------
(* kind tests, as values.py defines them *)
IsNum(v)     == v.k \in {"int", "decimal"}
IsAtomic(v)  == v.k \in {"string", "int", "decimal", "boolean", "date", "pattern", "null"}
IsColl(v)    == v.k \in {"list", "set"}
Iterable(v)  == v.k \in {"list", "set", "map", "object", "string"}    \* getCollectionValue
Loopable(v)  == Iterable(v) \/ v.k = "input"                            \* NodeFor
Spreadable(v) == v.k \in {"list", "set", "map"}                         \* invoke / NodeList
HasAsString(v) == v.k # "output"             \* ValueOutput alone defines no asString
HasAsList(v) == v.k \in {"boolean", "date", "decimal", "int", "list", "map", "object",
                         "pattern", "set", "string"}
\* asDecimal: numbers, booleans, and strings that read as a number
HasAsDecimal(v) == IsNum(v) \/ v.k = "boolean" \/ v.tag = "s12"
HasAsPattern(v) == v.k \in {"string", "pattern", "boolean"}
HasKeyA(v) == v.tag \in {"map1", "obj"}
\* == on two freshly built values: functions defined twice and streams are
\* equal by identity only, 0 == 0.0
Equal(a, b) == \/ a.tag = b.tag /\ a.tag \notin {"lambda", "input", "output"}
               \/ {a.tag, b.tag} = {"i0", "d0"}
IsIndex(i) == i.k = "int"
InBounds(v, i) == IsIndex(i) /\ ~i.big /\ -v.len <= i.iv /\ i.iv < v.len

IsTrue(v) == v.tag = "true"
IsFalse(v) == v.tag = "false"
IsBool(v) == v.k = "boolean"

C(ok) == IF ok THEN "value" ELSE "error"

-----------------------------------------------------------------------------
(* the operator natives, by kind.  Each returns the kind of the result or
   "err"; the left operand is given by kind alone (it may be an element that
   is not a pool value), the right operand is a pool value.                  *)
AddK(ka, b) ==
  CASE ka = "null" \/ b.k = "null" -> "null"
    [] ka = "int" /\ b.k = "int" -> "int"
    [] ka \in {"int", "decimal"} /\ IsNum(b) -> "decimal"
    [] ka = "list" -> "list"
    [] ka = "set" -> "set"
    [] b.k = "list" -> "list"
    [] b.k = "set" -> "set"
    [] ka = "date" /\ IsNum(b) -> IF b.big THEN "err" ELSE "date"   \* no such day
    [] ka = "string" /\ IsAtomic(b) -> "string"
    [] ka \in {"int", "decimal", "boolean", "date", "pattern"} /\ b.k = "string" -> "string"
    [] OTHER -> "err"

SubK(a, b) ==
  CASE a.k = "list" -> IF a.len = 0 \/ HasAsList(b) THEN "list" ELSE "err"  \* b is converted per element of a
    [] a.k = "set" -> "set"
    [] a.k = "date" -> IF b.k = "date" THEN "int"
                       ELSE IF HasAsDecimal(b) /\ ~b.big THEN "date" ELSE "err"
    [] a.k = "null" \/ b.k = "null" -> "null"
    [] a.k = "int" /\ b.k = "int" -> "int"
    [] IsNum(a) /\ IsNum(b) -> "decimal"
    [] OTHER -> "err"

MulK(a, b) ==
  CASE a.k = "null" \/ b.k = "null" -> "null"
    [] a.k = "string" /\ b.k = "int" -> IF b.big THEN "err" ELSE "string"
    [] a.k = "list" /\ b.k = "int" -> IF b.big THEN "err" ELSE "list"
    [] a.k = "int" /\ b.k = "int" -> "int"
    [] IsNum(a) /\ IsNum(b) -> "decimal"
    [] OTHER -> "err"

IsZero(v) == v.tag \in {"i0", "d0"}
DivK(a, b) ==
  CASE a.k = "null" \/ b.k = "null" -> "null"
    [] a.k = "int" /\ b.k = "int" -> IF IsZero(b) THEN "err" ELSE "int"
    [] IsNum(a) /\ IsNum(b) -> IF IsZero(b) THEN "err" ELSE "decimal"
    [] OTHER -> "err"

Arith(op, a, b) == CASE op = "add" -> AddK(a.k, b)
                     [] op = "sub" -> SubK(a, b)
                     [] op = "mul" -> MulK(a, b)
                     [] op = "div" -> DivK(a, b)
                     [] op = "mod" -> DivK(a, b)

\* a function value applied to positional arguments (lambda = fn(x) x,
\* native = length): "value" / "error"
Length(v) == C(v.k \in {"string", "list", "set", "map", "object"})
Call1(f, x) == CASE f.tag = "lambda" -> "value"
                 [] f.tag = "native" -> Length(x)
                 [] OTHER -> "error"

\* '^[0-9]{' + lo + ',' + hi + '}$' compiled as a regular expression:
\* both texts must concatenate to a string, and when both read as repeat
\* counts the engine checks them
Glue(v) == IsAtomic(v) /\ v.k # "null"
Quant(lo, hi) ==
  IF lo = NoDigits \/ hi = NoDigits THEN TRUE          \* not a quantifier: literal text
  ELSE LET l == IF lo = EmptyText THEN 0 ELSE lo
           h == IF hi = EmptyText THEN TooManyReps - 1 ELSE hi
       IN l < TooManyReps /\ h < TooManyReps /\ l <= h
LenPred(x, lo, hi, dlo, dhi) == C(HasAsString(x) /\ lo /\ hi /\ Quant(dlo, dhi))

-----------------------------------------------------------------------------
(* NodeDeref / NodeDerefAssign / NodeDerefSlice, by container kind *)
\* kind of the value x[i] (no default), or "err"
DerefK(x, i) ==
  CASE x.k = "null" -> "null"
    [] x.k = "string" -> IF InBounds(x, i) THEN "string" ELSE "err"
    [] x.k = "list" -> IF InBounds(x, i)
                       THEN (IF i.iv = 0 THEN "int" ELSE "string")     \* [1, 'a']
                       ELSE "err"
    [] x.k = "map" -> IF x.tag = "map1" /\ i.tag = "sa" THEN "int" ELSE "err"
    [] x.k = "object" -> IF ~HasAsString(i) THEN "err"
                         ELSE IF i.tag \in {"sa", "pat"} THEN "int" ELSE "null"   \* text 'a' 
    [] OTHER -> "err"

\* x[i] = v where v has kind kv
AssignOK(x, i, kv) ==
  CASE x.k = "string" -> InBounds(x, i) /\ kv = "string"
    [] x.k = "list" -> InBounds(x, i)
    [] x.k = "map" -> TRUE
    [] x.k = "object" -> HasAsString(i)
    [] OTHER -> FALSE

SliceOK(x, a, b, hasEnd) ==
  CASE x.k = "null" -> TRUE
    [] x.k \in {"string", "list"} -> IsIndex(a) /\ (hasEnd => IsIndex(b))
    [] OTHER -> FALSE

\* destructuring loop variables: every element must be a list or a set (the
\* pool's collections hold no such element; the entries of a map / object do)
DestrLoop(x, what) ==
  CASE x.k = "input" -> FALSE               \* a line is a string
    [] x.k = "string" -> TRUE               \* binds the first variable only
    [] x.k \in {"list", "set"} -> x.len = 0
    [] x.k \in {"map", "object"} -> x.len = 0 \/ what = "entries"
    [] OTHER -> FALSE

(* Loops whose body changes the collection they run over.  A loop over a set,
   a map, an object or a string runs over the members present when it starts
   (a snapshot: additions and removals do not reach the loop); a loop over a
   list follows the list as it grows (the form ends it with `break`).  The
   body runs at least once iff the collection is not empty (the pool's input
   holds two lines); then the outcome is the outcome of the body's statement. *)
BodyRuns(x) == x.k = "input" \/ x.len > 0
Snapshot(x) == x.k \in {"set", "map", "object", "string"}
MutLoop(x, bodyOK) == C(Loopable(x) /\ (~BodyRuns(x) \/ bodyOK))
PutTextKey(x) == x.k \in {"map", "object"}                 \* x['zz'] = 1, x[k + 'x'] = 1
Removable(x) == x.k \in {"list", "set", "map", "object"}    \* remove(x, k)
Appendable(x) == IsColl(x)                                  \* append(x, v)

\* spreading x into (fn(a, b = 0) a)(...x) and into (fn(a...) a...)(...x)
SpreadFixed(x) == x.tag \in {"l2", "set1", "map1"}
SpreadRest(x) == Spreadable(x) /\ x.tag # "map1"     \* a named argument the lambda lacks

StrPred(a, b) == C(a.k = "null" \/ (a.k = "string" /\ b.k = "string"))
Contains(a, b) == C(a.k \in {"null", "list", "set", "map", "object"} \/ b.k = "string")
Matches(a, b) == C(a.k = "null" \/ (a.k = "string" /\ HasAsPattern(b)))

Compr1(x) == C(Iterable(x))
ComprIf(x, c) == C(Iterable(x) /\ (x.len = 0 \/ c.k = "boolean"))
Compr2(x, y) == C(Iterable(x) /\ Iterable(y))

\* s('{p0#spec}')
\* the text of the value must read as a number (a date renders as 14 digits)
FmtHex(x) == C(x.k \in {"int", "date"} \/ x.tag = "s12")
FmtDigits(x) == C(IsNum(x) \/ x.k = "date" \/ x.tag = "s12")

TypeWords == {"string", "int", "decimal", "boolean", "pattern", "None", "func", "input",
              "output", "list", "set", "map", "object", "node"}
TextWords == {"numerical", "alphanumerical", "date_with_hour", "date", "time"}
AlwaysWords == {"empty", "zero", "negative"}

-----------------------------------------------------------------------------
(* The table of syntactic forms (parser.py parse_statement .. _deref): name,
   number of pool arguments, program text over p0, p1, p2.                   *)
\* rule = which evaluation rule applies, w = its parameter (TLC strings are
\* atomic, so the rule is not derived from the name)
G(name, ar, text, rule, w) == [name |-> name, ar |-> ar, text |-> text, rule |-> rule, w |-> w]
F(name, ar, text) == G(name, ar, text, name, "")

Words == <<"empty", "zero", "negative", "numerical", "alphanumerical", "date_with_hour",
           "date", "time", "string", "int", "decimal", "boolean", "pattern", "None", "func",
           "input", "output", "list", "set", "map", "object", "node">>
WordText(w) == IF w = "date_with_hour" THEN "date with hour" ELSE w
IsForms == [i \in 1..Len(Words) |->
              G("is_" \o Words[i], 1, "p0 is " \o WordText(Words[i]), "word", Words[i])]
IsNotForms == [i \in 1..Len(Words) |->
                 G("isnot_" \o Words[i], 1, "p0 is not " \o WordText(Words[i]), "word", Words[i])]

Whats == <<"keys", "values", "entries">>
ForWhat == [i \in 1..3 |-> F("for_" \o Whats[i], 1, "for v in " \o Whats[i] \o " p0 do v end")]
LcWhat == [i \in 1..3 |-> F("lc_" \o Whats[i], 1, "[v for v in " \o Whats[i] \o " p0]")]
ScWhat == [i \in 1..3 |-> F("sc_" \o Whats[i], 1, "<<v for v in " \o Whats[i] \o " p0>>")]
McWhat == [i \in 1..3 |-> F("mc_" \o Whats[i], 1, "<<<v => v for v in " \o Whats[i] \o " p0>>>")]

BinOps == << <<"add", "+">>, <<"sub", "-">>, <<"mul", "*">>, <<"div", "/">>, <<"mod", "%">>,
             <<"eq", "==">>, <<"ne", "!=">>, <<"ne2", "<>">>, <<"lt", "<">>, <<"le", "<=">>,
             <<"gt", ">">>, <<"ge", ">=">>, <<"and", "and">>, <<"or", "or">>, <<"in", "in">>,
             <<"notin", "not in">>, <<"is", "is">>, <<"isnot", "is not">>,
             <<"isin", "is in">>, <<"isnotin", "is not in">>,
             <<"startswith", "starts with">>, <<"startsnotwith", "starts not with">>,
             <<"endswith", "ends with">>, <<"endsnotwith", "ends not with">>,
             <<"contains", "contains">>, <<"containsnot", "contains not">>,
             <<"matches", "matches">>, <<"matchesnot", "matches not">> >>
BinForms == [i \in 1..Len(BinOps) |->
               G(BinOps[i][1], 2, "p0 " \o BinOps[i][2] \o " p1", "bin", BinOps[i][1])]
CompoundOps == << <<"add", "+=">>, <<"sub", "-=">>, <<"mul", "*=">>, <<"div", "/=">>,
                  <<"mod", "%=">> >>
CompoundForms == [i \in 1..5 |-> G("assign_" \o CompoundOps[i][1], 2,
                                   "def x = p0; x " \o CompoundOps[i][2] \o " p1",
                                   "bin", CompoundOps[i][1])]

(* Round 3 - guards reached on a later pass.  A node that evaluates an expression once per pass (the
   condition of a loop, of a comprehension, the next operand of `and` / `or`, the next `elif`, the next
   element to destructure, the next spread argument) guards EVERY evaluation.  A form that feeds the pool
   value to the first evaluation only (`while p0 do break end`) exercises the first guard and no other;
   deleting the second as "a duplicate" went unnoticed.  In each form below the first evaluation is fed a
   proper value and the pool value arrives at the second (or third) one; the rule is the rule of the
   guard, whichever pass it is tested on: that is the point.                                            *)
LaterForms ==
  << G("while_later", 1, "def l = [TRUE, p0, FALSE]; def i = 0; while l[i] do i += 1 end", "guard_bool", ""),
     G("while_later_continue", 1, "def l = [TRUE, p0, FALSE]; def i = 0; while l[i] do i += 1; continue end",
       "guard_bool", ""),
     G("while_return", 1, "(fn() do while p0 do return 1 end; 0 end)()", "guard_bool", ""),
     G("and_third", 1, "TRUE and TRUE and p0", "guard_bool", ""),
     G("or_third", 1, "FALSE or FALSE or p0", "guard_bool", ""),
     G("elif_later", 1, "if FALSE then 1 elif p0 then 2 else 3", "guard_bool", ""),
     G("lc_if_later", 1, "[v for v in [TRUE, p0] if v]", "guard_bool", ""),
     G("sc_if_later", 1, "<<v for v in [TRUE, p0] if v>>", "guard_bool", ""),
     G("mc_if_later", 1, "<<<v => 1 for v in [TRUE, p0] if v>>>", "guard_bool", ""),
     G("lc_product_if_later", 1, "[a for a in [TRUE, p0] for b in [1] if a]", "guard_bool", ""),
     G("lc_parallel_if_later", 1, "[a for a in [TRUE, p0] also for b in [1, 2] if a]", "guard_bool", ""),
     G("sc_product_if_later", 1, "<<a for a in [TRUE, p0] for b in [1] if a>>", "guard_bool", ""),
     G("sc_parallel_if_later", 1, "<<a for a in [TRUE, p0] also for b in [1, 2] if a>>", "guard_bool", ""),
     G("for_destr_later", 1, "for [a, b] in [[1, 2], p0] do a end", "guard_coll", ""),
     G("spread_list_later", 1, "[...[1], ...p0]", "spread_list", ""),
     G("spread_call_later", 1, "(fn(a...) a...)(...[1], ...p0)", "spread_call", ""),
     F("spread_set", 1, "<<...p0>>"),              \* a set literal takes `...x` as the value x
     F("assign_undefined", 1, "zz = p0"),
     F("assign_destr_undefined", 1, "[zz, b] = p0"),
     F("require_variable", 1, "def m = p0; require m"),
     F("require_expression", 1, "require [p0][0]") >>

(* Round 5: walks during which the program itself runs - the key function of find / find_last / sorted, the
   `_str_` member of an object that is rendered - and changes the collection being walked (the same class as
   for_put / for_append above, for the walks inside the built-in functions and inside the rendering), and
   names a built-in looks up in the environment (`compare`, `identity`, `checkerlang_module_path`) bound by
   the program to the pool value.  The walk ends with a value whatever the function did to the collection
   (`always_value`); a name bound to something unusable is an error of the program (`always_error`).        *)
WalkForms ==
  << G("find_key_shrinks", 1, "def l = [1, 2, 3]; find(l, p0, key = fn(x) do delete_at(l, 0); x end)", "always_value", ""),
     G("find_key_grows", 1, "def l = [1, 2, 3]; find(l, p0, key = fn(x) do if length(l) < 9 then append(l, 0); x end)",
       "always_value", ""),
     G("find_last_key_shrinks", 1,
       "def l = [1, 2, 3, 4, 5]; find_last(l, p0, key = fn(x) do delete_at(l, 0); delete_at(l, 0); x end)", "always_value", ""),
     G("sorted_key_shrinks", 1, "def l = [3, 1, 2]; sorted(l, key = fn(x) do delete_at(l, 0); x end); p0", "always_value", ""),
     G("str_adds_member", 1,
       "def o = <*a = p0*>; o->b = <*_str_ = fn(self) do o->zz = 1; 'x' end*>; string(o)", "always_value", ""),
     G("str_removes_member", 1,
       "def o = <*a = 1*>; o->b = <*_str_ = fn(self) do remove(o, 'a'); 'x' end*>; o->c = p0; string(o)", "always_value", ""),
     G("str_builtin_member", 1, "string(<*a = p0, _str_ = type*>)", "always_value", ""),
     G("module_path_shadowed", 1, "def checkerlang_module_path = p0; require Nosuchmodule5", "always_error", ""),
     G("module_path_entry_shadowed", 1, "def checkerlang_module_path = [p0]; require Nosuchmodule5", "always_error", "") >>

Forms ==
  << F("neg", 1, "-p0"), F("pos", 1, "+p0"), F("not", 1, "not p0") >>
  \o IsForms \o IsNotForms \o
  << F("if", 1, "if p0 then 1 else 2"),
     F("while", 1, "while p0 do break end"),
     F("error", 1, "error p0"),
     F("catch_all", 1, "do error p0 catch all 1 end"),
     F("for", 1, "for v in p0 do v end") >> \o ForWhat \o
  << F("for_destr", 1, "for [a, b] in p0 do a end"),
     F("for_destr_entries", 1, "for [a, b] in entries p0 do a end"),
     F("for_reuse", 1, "for v in p0 do for v in p0 do v end end"),
     \* round 3: the ways a body leaves a pass of the loop
     F("for_continue", 1, "for v in p0 do continue end"),
     F("for_break", 1, "for v in p0 do break end"),
     F("for_return", 1, "(fn() do for v in p0 do return v end; 0 end)()"),
     \* round 2: loops whose body changes the collection they run over
     F("for_put", 1, "for v in p0 do p0['zz'] = 1 end"),
     F("for_keys_put", 1, "for k in keys p0 do p0[k + 'x'] = 1 end"),
     F("for_keys_remove", 1, "for k in keys p0 do remove(p0, k) end"),
     F("for_append", 1, "for v in p0 do append(p0, v); if length(p0) > 6 then break end"),
     F("lc_remove", 1, "[remove(p0, k) for k in keys p0]"),
     F("lc", 1, "[v for v in p0]") >> \o LcWhat \o
  << F("sc", 1, "<<v for v in p0>>") >> \o ScWhat \o
  << F("mc", 1, "<<<v => v for v in p0>>>") >> \o McWhat \o
  << F("spread_list", 1, "[0, ...p0]"),
     F("spread_call", 1, "(fn(a...) a...)(...p0)"),
     F("spread_call_fixed", 1, "(fn(a, b = 0) a)(...p0)"),
     F("def_destr", 1, "def [a, b] = p0; a"),
     F("assign_destr", 1, "def a = 0; def b = 0; [a, b] = p0; a"),
     F("member", 1, "p0->a"),
     F("member_invoke", 1, "p0->a()"),
     F("member_missing", 1, "p0->zz"),             \* no object of the `_proto_` chain has it
     F("member_missing_invoke", 1, "p0->zz()"),
     F("call0", 1, "p0()"),
     F("set_lit", 1, "<<p0>>"),
     F("map_lit_key", 1, "<<<p0 => 1>>>"),
     F("obj_lit", 1, "<*a = p0*>"),
     F("require", 1, "require p0"),
     F("fmt_plain", 1, "s('{p0}')"),
     F("fmt_width", 1, "s('{p0#5}')"),
     F("fmt_left", 1, "s('{p0#-5}')"),
     F("fmt_zero", 1, "s('{p0#05}')"),
     F("fmt_digits", 1, "s('{p0#.2}')"),
     F("fmt_hex", 1, "s('{p0#x}')"),
     F("fmt_wide", 1, "s('{p0#4000000}')"),        \* padding is linear in the width
     F("fmt_bad", 1, "s('{p0#q}')") >>
  \o LaterForms \o WalkForms \o BinForms \o CompoundForms \o
  << F("elif", 2, "if p0 then 1 elif p1 then 2 else 3"),
     F("catch_second", 2, "do error p0 catch 'zz' 1 catch p1 2 end"),
     G("lc_product_if", 2, "[[a, b] for a in p0 for b in [1] if p1]", "compr_if_each", ""),
     G("sc_product_if", 2, "<<[a, b] for a in p0 for b in [1] if p1>>", "compr_if_each", ""),
     G("lc_parallel_if", 2, "[[a, b] for a in p0 also for b in [1] if p1]", "compr_if_once", ""),
     G("sc_parallel_if", 2, "<<[a, b] for a in p0 also for b in [1] if p1>>", "compr_if_once", ""),
     F("numerical_min", 2, "p0 is numerical min_len p1"),
     F("numerical_max", 2, "p0 is not numerical max_len p1"),
     F("alphanumerical_exact", 2, "p0 is alphanumerical exact_len p1"),
     F("deref", 2, "p0[p1]"),
     F("slice_to_end", 2, "p0[p1 to *]"),
     F("member_assign", 2, "p0->a = p1"),
     G("member_assign_add", 2, "p0->a += p1", "member_cassign", "add"),
     G("member_assign_sub", 2, "p0->a -= p1", "member_cassign", "sub"),
     G("member_assign_mul", 2, "p0->a *= p1", "member_cassign", "mul"),
     G("member_assign_div", 2, "p0->a /= p1", "member_cassign", "div"),
     G("member_assign_mod", 2, "p0->a %= p1", "member_cassign", "mod"),
     F("member_invoke1", 2, "p0->a(p1)"),
     F("call1", 2, "p0(p1)"),
     F("call_named", 2, "p0(x = p1)"),
     F("pipe0", 2, "p0 !> p1()"),
     F("catch_value", 2, "do error p0 catch p1 1 end"),
     F("lc_if", 2, "[v for v in p0 if p1]"),
     F("lc_product", 2, "[[a, b] for a in p0 for b in p1]"),
     F("lc_parallel", 2, "[[a, b] for a in p0 also for b in p1]"),
     F("sc_if", 2, "<<v for v in p0 if p1>>"),
     F("sc_product", 2, "<<[a, b] for a in p0 for b in p1>>"),
     F("sc_parallel", 2, "<<[a, b] for a in p0 also for b in p1>>"),
     F("mc_if", 2, "<<<v => v for v in p0 if p1>>>"),
     F("set_lit2", 2, "<<p0, p1>>"),
     F("map_lit", 2, "<<<p0 => p1>>>"),
     F("deref_default", 3, "p0[p1, p2]"),
     F("slice", 3, "p0[p1 to p2]"),
     F("deref_assign", 3, "p0[p1] = p2"),
     G("deref_assign_add", 3, "p0[p1] += p2", "deref_cassign", "add"),
     G("deref_assign_sub", 3, "p0[p1] -= p2", "deref_cassign", "sub"),
     G("deref_assign_mul", 3, "p0[p1] *= p2", "deref_cassign", "mul"),
     G("deref_assign_div", 3, "p0[p1] /= p2", "deref_cassign", "div"),
     G("deref_assign_mod", 3, "p0[p1] %= p2", "deref_cassign", "mod"),
     F("pipe1", 3, "p0 !> p1(p2)"),
     F("chain", 3, "p0 < p1 <= p2"),
     F("numerical_min_max", 3, "p0 is numerical min_len p1 max_len p2") >>

NForms == Len(Forms)

-----------------------------------------------------------------------------
(* The evaluation rule of each form: outcome class of the form applied to the
   pool values a, b, c (None where the form has fewer arguments).            *)
WordRule(w, a) ==
  CASE w \in AlwaysWords -> "value"                 \* is_empty / is_zero / is_negative
    [] w \in TextWords -> C(HasAsString(a))         \* string(x) first, then a text test
    [] w \in TypeWords -> "value"                   \* type(x) == '<word>'
    [] OTHER -> "stuck"

\* NodeAnd / NodeOr evaluate operand after operand, test each for a boolean, and stop at the
\* first FALSE / TRUE
AndRule(a, b) == C(IsBool(a) /\ (IsFalse(a) \/ IsBool(b)))
OrRule(a, b)  == C(IsBool(a) /\ (IsTrue(a) \/ IsBool(b)))

BinRule(name, a, b) ==
  CASE name \in {"add", "sub", "mul", "div", "mod"} -> C(Arith(name, a, b) # "err")
    [] name \in {"eq", "ne", "ne2", "lt", "le", "gt", "ge", "is", "isnot"} -> "value"
    [] name \in {"in", "notin", "isin", "isnotin"} -> "value"
    [] name = "and" -> AndRule(a, b)
    [] name = "or" -> OrRule(a, b)
    [] name \in {"startswith", "startsnotwith", "endswith", "endsnotwith"} -> StrPred(a, b)
    [] name \in {"contains", "containsnot"} -> Contains(a, b)
    [] name \in {"matches", "matchesnot"} -> Matches(a, b)
    [] OTHER -> "stuck"

\* x[i] op= v : NodeDerefAssign(x, i, op(NodeDeref(x, i), v)); the element read
\* stands in as the left operand by its kind
Elem(k) == V("elem", k, 1, 1, FALSE, NoDigits)
CAssign(op, x, i, v) ==
  LET r == DerefK(x, i) IN
    IF r = "err" THEN "error"
    ELSE LET k == Arith(op, Elem(r), v) IN C(k # "err" /\ AssignOK(x, i, k))

Rule(name, w, a, b, c) ==
  CASE name = "word" -> WordRule(w, a)
    [] name = "bin" -> BinRule(w, a, b)
    [] name = "neg" -> C(a.k \in {"null", "int", "decimal"})        \* sub(0, x)
    [] name = "pos" -> "value"
    [] name = "not" -> C(a.k = "boolean")
    [] name = "if" -> C(a.k = "boolean")
    [] name = "while" -> C(a.k = "boolean")
    [] name = "error" -> "error"
    [] name = "catch_all" -> "value"
    [] name = "always_value" -> "value"
    [] name = "always_error" -> "error"
    [] name = "guard_bool" -> C(IsBool(a))          \* a condition, on whichever pass it is evaluated
    [] name = "guard_coll" -> C(IsColl(a))          \* an element to destructure, whichever it is
    [] name = "elif" -> C(IsBool(a) /\ (IsTrue(a) \/ IsBool(b)))
    [] name = "catch_second" -> C(Equal(a, b))
    [] name = "compr_if_each" -> ComprIf(a, b)                   \* the condition is met once per pair
    [] name = "compr_if_once" -> C(Iterable(a) /\ IsBool(b))     \* the second list has an element: one pass at least
    [] name \in {"for", "for_keys", "for_values", "for_entries", "for_reuse",
                 "for_continue", "for_break", "for_return"} -> C(Loopable(a))
    [] name = "spread_set" -> "value"
    [] name \in {"assign_undefined", "assign_destr_undefined", "require_variable",
                 "require_expression"} -> "error"
    [] name \in {"for_put", "for_keys_put"} -> MutLoop(a, PutTextKey(a))
    [] name = "for_keys_remove" -> MutLoop(a, Removable(a))
    [] name = "for_append" -> MutLoop(a, Appendable(a))
    [] name = "lc_remove" -> C(Iterable(a) /\ (a.len = 0 \/ Removable(a)))
    [] name = "for_destr" -> C(DestrLoop(a, "values"))
    [] name = "for_destr_entries" -> C(DestrLoop(a, "entries"))
    [] name \in {"lc", "lc_keys", "lc_values", "lc_entries", "sc", "sc_keys", "sc_values",
                 "sc_entries", "mc", "mc_keys", "mc_values", "mc_entries"} -> Compr1(a)
    [] name = "spread_list" -> C(Spreadable(a))
    [] name = "spread_call" -> C(SpreadRest(a))
    [] name = "spread_call_fixed" -> C(SpreadFixed(a))
    [] name \in {"def_destr", "assign_destr"} -> C(IsColl(a))
    [] name = "member" -> C(DerefK(a, ByTag("sa")) # "err")
    [] name = "member_invoke" -> "error"     \* no pool value has a function member
    [] name = "member_missing" -> C(a.k \in {"null", "object"})    \* NULL: not found along `_proto_`
    [] name = "member_missing_invoke" -> "error"
    [] name = "call0" -> "error"             \* the pool's functions take one argument
    [] name \in {"set_lit", "map_lit_key", "obj_lit"} -> "value"
    [] name = "require" -> "error"           \* no pool value names a module
    [] name \in {"fmt_plain", "fmt_width", "fmt_left", "fmt_zero", "fmt_wide"} -> C(HasAsString(a))
    [] name = "fmt_digits" -> FmtDigits(a)
    [] name = "fmt_hex" -> FmtHex(a)
    [] name = "fmt_bad" -> "error"
    [] name = "numerical_min" -> LenPred(a, Glue(b), TRUE, b.dg, 9999)
    [] name = "numerical_max" -> LenPred(a, TRUE, Glue(b), 0, b.dg)
    [] name = "alphanumerical_exact" -> LenPred(a, Glue(b), TRUE, b.dg, b.dg)
    [] name = "deref" -> C(DerefK(a, b) # "err")
    [] name = "slice_to_end" -> C(SliceOK(a, b, None, FALSE))
    [] name = "member_assign" -> C(AssignOK(a, ByTag("sa"), b.k))
    [] name = "member_cassign" -> CAssign(w, a, ByTag("sa"), b)
    [] name = "member_invoke1" -> "error"
    [] name = "call1" -> Call1(a, b)
    [] name = "call_named" -> C(a.tag = "lambda")   \* fn(x): the native has no argument x
    [] name = "pipe0" -> Call1(b, a)
    [] name = "catch_value" -> C(Equal(a, b))
    [] name \in {"lc_if", "sc_if", "mc_if"} -> ComprIf(a, b)
    [] name \in {"lc_product", "lc_parallel", "sc_product", "sc_parallel"} -> Compr2(a, b)
    [] name \in {"set_lit2", "map_lit"} -> "value"
    [] name = "deref_default" ->
         CASE a.k = "null" -> "value"
           [] a.k \in {"string", "list"} -> "error"       \* no default allowed there
           [] a.k = "map" -> "value"
           [] a.k = "object" -> C(HasAsString(b))
           [] OTHER -> "error"
    [] name = "slice" -> C(SliceOK(a, b, c, TRUE))
    [] name = "deref_assign" -> C(AssignOK(a, b, c.k))
    [] name = "deref_cassign" -> CAssign(w, a, b, c)
    [] name = "pipe1" -> "error"             \* two arguments to a one-argument function
    [] name = "chain" -> "value"
    [] name = "numerical_min_max" -> LenPred(a, Glue(b), Glue(c), b.dg, c.dg)
    [] OTHER -> "stuck"

\* the rule of form f on pool indexes (0 = unused slot)
Arg(i) == IF i = 0 THEN None ELSE Pool[i]
Predict(f, i, j, k) == Rule(Forms[f].rule, Forms[f].w, Arg(i), Arg(j), Arg(k))


\* the same by form name and value tags (trace validation)
FormNamed(n) == CHOOSE f \in 1..NForms : Forms[f].name = n
IsForm(n) == \E f \in 1..NForms : Forms[f].name = n
TagAt(tags, i) == IF i <= Len(tags) THEN ByTag(tags[i]) ELSE None
PredictTags(n, tags) == LET f == FormNamed(n) IN
  Rule(Forms[f].rule, Forms[f].w, TagAt(tags, 1), TagAt(tags, 2), TagAt(tags, 3))
=============================================================================
