\* C10 with the deviation switch mirroring the pinned code (no unwinding of the
\* module stack on failure): TLC must find the counterexample.
CONSTANTS
  Interps = {"i1"}
  UnwindOnFailure = FALSE
  DetachCallerEnv = TRUE
  Mode = "c10"
  ModSeq <- Mods2
  MaxOut = 0
  GenRot = TRUE
  GenBack = "all"
  GenSorted = FALSE
  MaxCtr = 1
  LoadCap = 1
  MaxReq = 0
  CmdsOf <- C10Core
  Export = FALSE
SPECIFICATION Spec
INVARIANT FailIsIdempotent
INVARIANT FailLeavesNoResidue
CHECK_DEADLOCK FALSE
