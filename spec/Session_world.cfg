\* C10 round 5: the world changes between two commands - a module file appears,
\* disappears, changes its content before it was ever loaded successfully; a
\* program appends a directory to the module path of its own interpreter
CONSTANTS
  Interps = {"i1", "i2"}
  UnwindOnFailure = TRUE
  DetachCallerEnv = TRUE
  Mode = "c10"
  ModSeq <- Mods2
  MaxOut = 0
  GenRot = TRUE
  GenBack = "all"
  GenSorted = FALSE
  MaxCtr = 1
  LoadCap = 1
  MaxReq = 0
  CmdsOf <- C10World
  Export = TRUE
SPECIFICATION Spec
INVARIANT TypeOK
INVARIANT StackEmptyBetweenCalls
INVARIANT FailIsIdempotent
INVARIANT FailLeavesNoResidue
INVARIANT CallerEnvDetached
INVARIANT SessionsIsolated
INVARIANT LoadOnce
INVARIANT ModuleScopeIsBase
INVARIANT ModulesFromOwnDirectory
INVARIANT SingleInstance
INVARIANT CycleIsError
INVARIANT ExportState
PROPERTY DefsPersist
PROPERTY Isolation
PROPERTY LoadOnlyInLoadStep
PROPERTY BindsExactly
PROPERTY FailedDefinerDefinesNothing
PROPERTY MissingOnlyIfAbsent
PROPERTY WorldTouchesNoInterpreter
PROPERTY BaseIsOwn
PROPERTY Terminates
CHECK_DEADLOCK FALSE
