CONSTANTS
  Tier = 2
  MaxStr = 0
  Export = TRUE
  Need = {"eq"}
SPECIFICATION Spec
INVARIANT TypeOK
INVARIANT EqReflexive
INVARIANT EqSymmetric
INVARIANT EqTransitive
INVARIANT CrossKindNeverEqual
INVARIANT IntDecNumeric
INVARIANT OrderFree
INVARIANT ListStructural
INVARIANT SetExtensional
INVARIANT Interchangeable
INVARIANT ExportU
INVARIANT ExportEq
CHECK_DEADLOCK FALSE
