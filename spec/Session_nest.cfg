\* C10 round 3: interpret with caller environments that have a parent of their
\* own (chain outer <- inner <- leaf kept by the caller), handed to two interpreters
CONSTANTS
  Interps = {"i1", "i2"}
  UnwindOnFailure = TRUE
  DetachCallerEnv = TRUE
  Mode = "c10"
  ModSeq <- Mods2
  MaxOut = 0
  GenRot = TRUE
  GenBack = "all"
  GenSorted = FALSE
  MaxCtr = 1
  LoadCap = 1
  MaxReq = 0
  CmdsOf <- C10Nest
  Export = TRUE
SPECIFICATION Spec
INVARIANT TypeOK
INVARIANT StackEmptyBetweenCalls
INVARIANT FailIsIdempotent
INVARIANT FailLeavesNoResidue
INVARIANT CallerEnvDetached
INVARIANT SessionsIsolated
INVARIANT LoadOnce
INVARIANT ModuleScopeIsBaseBorn
INVARIANT ModulesFromOwnDirectory
INVARIANT SingleInstance
INVARIANT CycleIsError
INVARIANT ExportState
PROPERTY DefsPersist
PROPERTY Isolation
PROPERTY LoadOnlyInLoadStep
PROPERTY BindsExactly
PROPERTY FailedDefinerDefinesNothing
PROPERTY Terminates
CHECK_DEADLOCK FALSE
