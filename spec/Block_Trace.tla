--------------------------- MODULE Block_Trace ---------------------------
(* C05, binding B: the life of do/catch/finally blocks as the real evaluator
   runs them.  The harness (harness/blocktrace.py) wraps, after parsing, every
   block of every program - including the library code of the bundled modules -
   and the block's statements, clause values, handlers and finally statements in
   logging proxies; the unmodified NodeBlock.evaluate drives them.  This module
   is the automaton a block instance has to follow, stated from the property:

     enter -> statements in order, stopping at the first that does not yield a
     plain value -> on an error: the clause values are evaluated in order up to
     the first that equals the error value (or `all`), exactly that handler runs
     -> the finally statements, all of them, in order, exactly once, whichever
     way the body ended -> leave.

   Block instances nest (a stack).  Events (NDJSON, one program after the other,
   each started by `new`):
     [e |-> "new"]
     [e |-> "enter", b, n, c, f, all]   n statements, c clauses, f finally statements;
                                        all = indices of the `catch all` clauses
     [e |-> "stmt", b, i]   [e |-> "stmtend", b, i, o, v]      o = "val" | "sig" | "err", v = rendered error value
     [e |-> "ctest", b, j, o, v]        clause value j evaluated: o = "val" (v its rendering) | "err"
     [e |-> "handler", b, j]  [e |-> "handlerend", b, j, o]
     [e |-> "fin", b, i]  [e |-> "finend", b, i, o]
     [e |-> "leave", b, o]
   Equality of error value and clause value is observed through renderings:
   equal renderings of equal kinds mean equal values, so "a clause with the
   same rendering exists => the first such (or an earlier `all`) must handle"
   is enforced; a handler after unequal renderings is allowed (1 and 1.0).
   A rejected event is reported (@@BAD@@, with the rule) and the automaton
   re-synchronises by trusting the event.                                    *)
EXTENDS Integers, Sequences, FiniteSets, TLC, Json, IOUtils

Trace == ndJsonDeserialize(IOEnv.TRACE_FILE)

VARIABLES l, stk
vars == <<l, stk>>

Ev == Trace[l]
Top == stk[Len(stk)]
Bad(rule) == PrintT("@@BAD@@" \o ToJson([l |-> l, rule |-> rule]))
Check(c, rule) == IF c THEN TRUE ELSE Bad(rule)

\* a block instance: phase "body" | "raised" | "handling" | "ended" (body or handler finished, or
\* unmatched / failing clause: ready for finally) | "fin" | "finerr"
Frame(e) == [b |-> e.b, n |-> e.n, c |-> e.c, f |-> e.f, all |-> e.all,
             phase |-> IF e.n = 0 THEN "ended" ELSE "body", next |-> 1, err |-> "", tested |-> 0, texts |-> << >>,
             fnext |-> 1, stmtopen |-> FALSE]

Pop == SubSeq(stk, 1, Len(stk) - 1)
SetTop(fr) == [stk EXCEPT ![Len(stk)] = fr]

IsAll(fr, j) == j \in {fr.all[k] : k \in 1..Len(fr.all)}
\* the clause that has to handle: the first `all` or the first clause whose rendering equals the error's
MustHandle(fr, j) == IsAll(fr, j) \/ (j <= Len(fr.texts) /\ fr.texts[j] = fr.err)

Step ==
  /\ l <= Len(Trace)
  /\ l' = l + 1
  /\ LET e == Ev IN
     CASE e.e = "new" ->
            /\ Check(stk = << >>, "program-ended-with-open-blocks")
            /\ stk' = << >>
       [] e.e = "enter" -> stk' = Append(stk, Frame(e))
       [] stk = << >> -> Bad("event-outside-any-block") /\ stk' = stk
       [] e.b # Top.b ->                                \* an event of a block that is not the innermost open one
            /\ Bad("not-innermost-block")
            /\ stk' = stk
       [] e.e = "stmt" ->
            /\ Check(Top.phase = "body" /\ e.i = Top.next /\ ~Top.stmtopen, "statement-out-of-order-or-after-failure")
            /\ stk' = SetTop([Top EXCEPT !.stmtopen = TRUE])
       [] e.e = "stmtend" ->
            /\ Check(Top.phase = "body" /\ Top.stmtopen /\ e.i = Top.next, "statement-end-unexpected")
            /\ stk' = SetTop([Top EXCEPT !.stmtopen = FALSE, !.next = e.i + 1,
                                         !.phase = IF e.o = "err" THEN "raised"
                                                   ELSE IF e.o = "sig" \/ e.i = Top.n THEN "ended" ELSE "body",
                                         !.err = IF e.o = "err" THEN e.v ELSE ""])
       [] e.e = "ctest" ->
            /\ Check(Top.phase = "raised" /\ e.j = Top.tested + 1 /\ e.j <= Top.c /\ ~IsAll(Top, e.j),
                     "clause-test-out-of-order")
            /\ Check(\A k \in 1..Len(Top.texts) : Top.texts[k] # Top.err, "clause-tested-after-an-equal-one")
            /\ stk' = SetTop([Top EXCEPT !.tested = e.j,
                                         !.texts = Append(@, IF e.o = "val" THEN e.v ELSE "<failed>"),
                                         !.phase = IF e.o = "err" THEN "ended" ELSE "raised"])
       [] e.e = "handler" ->
            /\ Check(Top.phase = "raised", "handler-without-error")
            /\ Check(IF IsAll(Top, e.j) THEN Top.tested = e.j - 1 ELSE Top.tested = e.j, "handler-not-the-clause-just-tested")
            /\ Check(\A k \in 1..(e.j - 1) : ~MustHandle(Top, k), "handler-is-not-the-first-matching-clause")
            /\ stk' = SetTop([Top EXCEPT !.phase = "handling", !.tested = e.j])
       [] e.e = "handlerend" ->
            /\ Check(Top.phase = "handling", "handler-end-unexpected")
            /\ stk' = SetTop([Top EXCEPT !.phase = "ended"])
       [] e.e = "fin" ->
            /\ Check(Top.phase \in {"ended", "fin"} \/ (Top.phase = "raised" /\ Top.tested = Top.c), "finally-before-the-block-ended")
            /\ Check(Top.phase = "raised" => \A k \in 1..Top.c : ~MustHandle(Top, k), "error-left-unhandled-although-a-clause-matches")
            /\ Check(e.i = Top.fnext, "finally-statement-out-of-order-or-repeated")
            /\ stk' = SetTop([Top EXCEPT !.phase = "fin"])
       [] e.e = "finend" ->
            /\ Check(Top.phase = "fin" /\ e.i = Top.fnext, "finally-end-unexpected")
            /\ stk' = SetTop([Top EXCEPT !.fnext = e.i + 1, !.phase = IF e.o = "err" THEN "finerr" ELSE "fin"])
       [] e.e = "leave" ->
            /\ Check(~Top.stmtopen, "left-inside-a-statement")
            /\ Check(Top.phase # "body" \/ Top.n = 0, "left-before-the-body-ended")
            /\ Check(Top.phase = "raised" => (Top.tested = Top.c /\ \A k \in 1..Top.c : ~MustHandle(Top, k)),
                     "left-with-an-error-a-clause-matches")
            /\ Check(Top.phase = "finerr" \/ Top.fnext = Top.f + 1, "finally-did-not-run-completely")
            /\ stk' = Pop
       [] OTHER -> Bad("unknown-event") /\ stk' = stk
  /\ (l = Len(Trace) => PrintT("@@DONE@@" \o ToJson([n |-> l, open |-> Len(stk')])))

Init == l = 1 /\ stk = << >>
Spec == Init /\ [][Step]_vars
Accepted == TLCGet("stats").diameter - 1 = Len(Trace)
=============================================================================
