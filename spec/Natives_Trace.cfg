SPECIFICATION Spec
POSTCONDITION Consumed
CHECK_DEADLOCK FALSE
