#!/venv/bin/python
"""addfixed.py <property> <commit subject substring> <what failed>  - record a repaired defect"""
import json, subprocess, sys
pid, sub, what = sys.argv[1:4]
log = subprocess.run(["git", "-C", "/repo", "log", "--format=%h %s"], capture_output=True, text=True).stdout.splitlines()
hits = [l for l in log if sub in l and " fix:" in l]
assert len(hits) == 1, hits
h = hits[0].split()[0]
p = "/verif/known_findings.json"
k = json.load(open(p))
line = f"fixed: property={pid} {h} {what}"
k["fixed"] = [x for x in k["fixed"] if what not in x] + [line]
json.dump(k, open(p, "w"), indent=1)
print(line)
