#!/venv/bin/python
"""muttest.py <prop[,prop]> <file> <old> <new>  - apply a one-place mutation in a scratch worktree, run pytest and the quick checks"""
import subprocess, sys, os
props, f, old, new = sys.argv[1:5]
wt = "/tmp/mut"
head = subprocess.run(["git", "-C", "/repo", "rev-parse", "HEAD"], capture_output=True, text=True).stdout.strip()
if not os.path.isdir(wt):
    subprocess.run(["git", "-C", "/repo", "worktree", "add", "-q", "--detach", wt, head], check=True)
subprocess.run(["git", "-C", wt, "checkout", "-q", "--detach", head], check=True)
subprocess.run(["git", "-C", wt, "checkout", "-q", "--", "."], check=True)
p = os.path.join(wt, f)
s = open(p).read()
old = old.encode().decode("unicode_escape"); new = new.encode().decode("unicode_escape")
assert s.count(old) >= 1, "pattern not found"
open(p, "w").write(s.replace(old, new, 1))
t = subprocess.run(["/venv/bin/python", "-m", "pytest", "-q", "-p", "no:cacheprovider", "-x"], cwd=wt, capture_output=True, text=True, env=dict(os.environ, PYTHONPATH=wt + "/src"))
print("pytest:", t.stdout.strip().splitlines()[-1])
env = dict(os.environ, VERIF_REPO=wt)
for pr in props.split(","):
    r = subprocess.run(["./check", pr, "--tier", "quick"], cwd="/verif", env=env, capture_output=True, text=True)
    lines = r.stdout.strip().splitlines()
    print(pr, "exit", r.returncode, "|", lines[-1] if lines else r.stderr[-300:])
    cats = [l for l in lines if l.startswith("  category")][:3]
    for c in cats: print("   ", c[:160])
subprocess.run(["git", "-C", wt, "checkout", "-q", "--", "."], check=True)
