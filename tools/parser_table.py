#!/venv/bin/python
"""Transcription of /repo/src/ckl/parser.py into the instruction table of
spec/Parser.tla.  Every cursor call of the parser (peekn / matchIf / match /
matchIdentifier / next / peek / hasNext / eat / previous) and every control
transfer between parse functions is one row; AST construction is left out
(data-dependent branches are `Choice`).  Running this file rewrites
spec/ParserTable.tla.  The comments name the parser.py function and, where it
helps, the line being mirrored (line numbers of the pinned tree).
"""
import os

KW, OP, IP, ID = "keyword", "operator", "interpunction", "identifier"


# ----------------------------------------------------------------- conditions
class P:          # lexer.peekn(n, v, ty)
    def __init__(self, n, v, ty): self.n, self.v, self.ty = n, v, ty
class M:          # lexer.matchIf(v, ty)      (single token)
    def __init__(self, v, ty): self.v, self.ty = v, ty
class MS:         # lexer.matchIf([v..], [ty..])
    def __init__(self, vs, tys):
        self.vs = vs
        self.tys = tys if isinstance(tys, list) else [tys] * len(vs)
class HasNext: pass
class PeekTy:     # lexer.peek().type in S    (checked peek)
    def __init__(self, s): self.s = s
class PeekVT:     # lexer.peek().value in S and lexer.peek().type in T
    def __init__(self, s, t): self.s, self.t = s, t
class RegTy:
    def __init__(self, s): self.s = s
class RegV:
    def __init__(self, s): self.s = s
class Choice: pass
class Not:
    def __init__(self, c): self.c = c
class And:
    def __init__(self, *cs): self.cs = cs
class Or:
    def __init__(self, *cs): self.cs = cs


class Label:
    def __init__(self): self.at = None


class Fn:
    def __init__(self, name):
        self.name = name
        self.code = []

    def emit(self, op, n=0, v="", ty="", l=None, s=(), t=()):
        self.code.append(dict(op=op, n=n, v=v, ty=ty, l=l, s=tuple(s), t=tuple(t)))

    def place(self, lab):
        lab.at = len(self.code) + 1

    # -- conditions -> jumps
    def cond(self, c, lt, lf):
        if isinstance(c, P):
            self.emit("ifpeek", n=c.n, v=c.v, ty=c.ty, l=lt); self.emit("jmp", l=lf)
        elif isinstance(c, M):
            self.emit("matchif", v=c.v, ty=c.ty, l=lt); self.emit("jmp", l=lf)
        elif isinstance(c, MS):
            for k, (v, ty) in enumerate(zip(c.vs, c.tys)):
                nxt = Label()
                self.emit("ifpeek", n=k + 1, v=v, ty=ty, l=nxt); self.emit("jmp", l=lf)
                self.place(nxt)
            self.emit("eat", n=len(c.vs)); self.emit("jmp", l=lt)
        elif isinstance(c, HasNext):
            self.emit("ifhasnext", l=lt); self.emit("jmp", l=lf)
        elif isinstance(c, PeekTy):
            self.emit("ifpeekty", s=c.s, l=lt); self.emit("jmp", l=lf)
        elif isinstance(c, PeekVT):
            self.emit("ifpeekvt", s=c.s, t=c.t, l=lt); self.emit("jmp", l=lf)
        elif isinstance(c, RegTy):
            self.emit("ifregty", s=c.s, l=lt); self.emit("jmp", l=lf)
        elif isinstance(c, RegV):
            self.emit("ifregv", s=c.s, l=lt); self.emit("jmp", l=lf)
        elif isinstance(c, Choice):
            self.emit("choice", l=lt); self.emit("jmp", l=lf)
        elif isinstance(c, Not):
            self.cond(c.c, lf, lt)
        elif isinstance(c, And):
            for sub in c.cs[:-1]:
                mid = Label(); self.cond(sub, mid, lf); self.place(mid)
            self.cond(c.cs[-1], lt, lf)
        elif isinstance(c, Or):
            for sub in c.cs[:-1]:
                mid = Label(); self.cond(sub, lt, mid); self.place(mid)
            self.cond(c.cs[-1], lt, lf)
        else:
            raise TypeError(c)

    # -- structured statements
    def if_(self, *arms):
        """if_((cond, body), (cond, body), ..., (None, elsebody))"""
        end = Label()
        for c, body in arms:
            if c is None:
                body()
                break
            lt, lf = Label(), Label()
            self.cond(c, lt, lf)
            self.place(lt)
            body()
            self.emit("jmp", l=end)
            self.place(lf)
        self.place(end)

    def while_(self, c, body):
        top, lt, out = Label(), Label(), Label()
        self.place(top)
        self.cond(c, lt, out)
        self.place(lt)
        body(out)                 # body may jump to `out` (break)
        self.emit("jmp", l=top)
        self.place(out)

    def brk(self, out): self.emit("jmp", l=out)
    def call(self, f): self.emit("call", v=f)
    def ret(self): self.emit("ret")
    def match(self, v, ty): self.emit("match", v=v, ty=ty)
    def matchident(self): self.emit("matchident")
    def next(self): self.emit("next")
    def peek(self): self.emit("peek")
    def eat(self, n): self.emit("eat", n=n)
    def prev(self): self.emit("prev")
    def fail(self, n): self.emit("fail", n=n)      # 0: token just consumed, 1: next token
    def eoferr(self): self.emit("eoferr")
    def mark(self): self.emit("mark")
    def unmark(self): self.emit("unmark")
    def failmark(self): self.emit("failmark")
    def setreg(self, v): self.emit("setreg", v=v)

    def chk_kw(self):        # check_redefine_keyword(token)
        self.if_((RegTy([KW]), lambda: self.fail(0)))

    def chk_ident(self):     # check_expected_identifier(token)
        self.if_((Not(RegTy([ID])), lambda: self.fail(0)))


FNS = {}


def fn(name):
    def deco(f):
        a = Fn(name)
        f(a)
        a.emit("ret")            # safety net: never fall off the end
        FNS[name] = a
        return f
    return deco


def block_or(a, other):
    """if lexer.peekn(1, "do", "keyword"): parse_block else: <other>"""
    a.if_((P(1, "do", KW), lambda: a.call("parse_block")),
          (None, lambda: a.call(other)))


END3 = Or(P(1, "end", KW), P(1, "catch", KW), P(1, "finally", KW))


@fn("parse")                                  # parser.py parse()
def _(a):
    a.if_((Not(HasNext()), lambda: a.emit("accept")))
    a.call("parse_bare_block")
    a.if_((HasNext(), lambda: (a.next(), a.fail(0))))      # Expected end of input
    a.emit("accept")


@fn("parse_bare_block")
def _(a):
    block_or(a, "parse_statement")
    a.if_((Not(HasNext()), a.ret))

    def body(out):
        a.if_((Not(HasNext()), lambda: a.brk(out)))
        block_or(a, "parse_statement")
    a.while_(M(";", IP), body)
    a.ret()


@fn("parse_block")
def _(a):
    a.match("do", KW)

    def stmts(out):
        block_or(a, "parse_statement")
        a.if_((END3, lambda: a.brk(out)))
        a.match(";", IP)
        a.if_((END3, lambda: a.brk(out)))
    a.while_(Not(END3), stmts)

    def catches(out):
        a.if_((M("all", ID), lambda: None), (None, lambda: a.call("parse_expression")))
        block_or(a, "parse_statement")
        a.if_((P(1, ";", IP), lambda: a.eat(1)))
    a.while_(M("catch", KW), catches)

    def fin():
        def fbody(out):
            block_or(a, "parse_statement")
            a.if_((P(1, "end", KW), lambda: a.brk(out)))
            a.match(";", IP)
        a.while_(Not(P(1, "end", KW)), fbody)
    a.if_((M("finally", KW), fin))
    a.match("end", KW)
    a.ret()


def ident_list(a, chk_kw):
    """while not peekn(']'): token = next(); checks; if not peekn(']'): match(',')"""
    def body(out):
        a.next()
        if chk_kw:
            a.chk_kw()
        a.chk_ident()
        a.if_((Not(P(1, "]", IP)), lambda: a.match(",", IP)))
    a.while_(Not(P(1, "]", IP)), body)
    a.match("]", IP)


def what(a):
    a.if_((M("keys", ID), lambda: None), (M("values", ID), lambda: None),
          (M("entries", ID), lambda: None))


@fn("parse_statement")
def _(a):
    a.if_((Not(HasNext()), a.eoferr))
    a.if_((And(PeekTy(["string"]), P(2, "def", KW)), a.next))      # doc comment

    def require():
        a.call("parse_expression")

        def imports():
            def body(out):
                a.matchident()
                a.if_((M("as", KW), a.matchident))
                a.if_((Not(P(1, "]", IP)), lambda: a.match(",", IP)))
            a.while_(Not(P(1, "]", IP)), body)
            a.match("]", IP)
        a.if_((M("unqualified", ID), lambda: None),
              (MS(["import", "["], [ID, IP]), imports),
              (M("as", KW), a.matchident))
        a.ret()
    a.if_((M("require", KW), require))

    def define():
        def destructuring():
            ident_list(a, True)
            a.match("=", OP)
            a.call("parse_expression")
            a.ret()
        a.if_((M("[", IP), destructuring))
        a.next()                                                   # token = lexer.next()

        def klass():
            a.next(); a.chk_kw(); a.chk_ident()
            a.match("do", KW)

            def members(out):
                def member():
                    a.next(); a.chk_kw(); a.chk_ident()
                    a.if_((P(1, "(", IP), lambda: a.call("parse_fn")),
                          (None, lambda: (a.match("=", OP), a.call("parse_expression"))))
                    a.if_((P(1, ";", IP), lambda: a.match(";", IP)))
                a.if_((M("def", KW), member),
                      (None, lambda: (a.peek(), a.fail(1))))       # Expected def or end
            a.while_(Not(P(1, "end", KW)), members)
            a.match("end", KW)
            a.ret()
        a.if_((And(RegTy([ID]), RegV(["class"]), PeekTy([ID])), klass))
        a.chk_kw(); a.chk_ident()
        a.if_((P(1, "(", IP), lambda: (a.call("parse_fn"), a.ret())))
        a.match("=", OP)
        a.call("parse_expression")
        a.ret()
    a.if_((M("def", KW), define))

    def for_():
        a.if_((M("[", IP), lambda: ident_list(a, False)),
              (None, lambda: (a.next(), a.chk_ident())))
        a.match("in", KW)
        what(a)
        a.call("parse_expression")
        a.if_((P(1, "do", KW), lambda: (a.call("parse_block"), a.ret())))
        a.call("parse_expression")
        a.ret()
    a.if_((M("for", KW), for_))

    def while_():
        a.call("parse_or_expr")
        a.call("parse_block")
        a.ret()
    a.if_((M("while", KW), while_))
    a.call("parse_expression")
    a.ret()


@fn("parse_expression")
def _(a):
    def iff():
        def arm(out):
            a.call("parse_or_expr")
            a.match("then", KW)
            block_or(a, "parse_or_expr")
        a.while_(Or(M("if", KW), M("elif", KW)), arm)
        a.if_((M("else", KW), lambda: block_or(a, "parse_or_expr")))
        a.ret()
    a.if_((P(1, "if", KW), iff))
    a.call("parse_or_expr")
    a.ret()


def chain(name, sub, word):
    @fn(name)
    def _(a):
        a.call(sub)
        a.if_((P(1, word, KW),
               lambda: a.while_(M(word, KW), lambda out: a.call(sub))))
        a.ret()


chain("parse_or_expr", "parse_and_expr", "or")
chain("parse_and_expr", "parse_not_expr", "and")


@fn("parse_not_expr")
def _(a):
    a.if_((M("not", KW), lambda: (a.call("parse_rel_expr"), a.ret())))
    a.call("parse_rel_expr")
    a.ret()


RELOPS = ["==", "!=", "<>", "<", "<=", ">", ">=", "is"]
ALLTY = ["keyword", "operator", "interpunction", "identifier", "int", "decimal",
         "string", "boolean", "pattern"]


@fn("parse_rel_expr")
def _(a):
    a.call("parse_add_expr")
    a.if_((Or(Not(HasNext()), Not(PeekVT(RELOPS, [OP, KW]))), a.ret))

    def body(out):
        a.next()                                          # relop = lexer.next().value
        a.if_((And(RegV(["is"]), PeekVT(["not"], ALLTY)), lambda: a.eat(1)))
        a.call("parse_add_expr")
    a.while_(And(HasNext(), PeekVT(RELOPS, [OP, KW])), body)
    a.ret()


def binary(name, sub, ops):
    @fn(name)
    def _(a):
        a.call(sub)

        def body(out):
            a.if_(*[(M(o, OP), (lambda: a.call(sub))) for o in ops])
        a.while_(Or(*[P(1, o, OP) for o in ops]), body)
        a.ret()


binary("parse_add_expr", "parse_mul_expr", ["+", "-"])
binary("parse_mul_expr", "parse_unary_expr", ["*", "/", "%"])


@fn("parse_unary_expr")
def _(a):
    a.if_((M("+", OP), lambda: (a.call("parse_pred_expr"), a.ret())))
    a.if_((M("-", OP), lambda: (a.peek(), a.call("parse_pred_expr"), a.ret())))
    a.call("parse_pred_expr")
    a.ret()


TYPEWORDS = ["string", "int", "decimal", "boolean", "pattern", "date", "None", "func",
             "input", "output", "list", "set", "map", "object", "node"]


def predicate_words(a):
    """the arms shared by `is` and `is not` after `in`"""
    arms = []
    for w in ["empty", "zero", "negative"]:
        arms.append((M(w, ID), a.ret))
    for w in ["numerical", "alphanumerical"]:
        arms.append((M(w, ID), lambda: (a.call("collect_minmax"), a.ret())))
    arms.append((MS(["date", "with", "hour"], [ID, ID, ID]), a.ret))
    arms.append((M("date", ID), a.ret))
    arms.append((M("time", ID), a.ret))
    for w in TYPEWORDS:
        arms.append((M(w, ID), a.ret))
    return arms


@fn("parse_pred_expr")
def _(a):
    a.call("parse_primary_expr")
    prim_ret = lambda: (a.call("parse_primary_expr"), a.ret())      # noqa: E731

    def is_():
        def isnot():
            a.if_((M("in", ""), prim_ret), *predicate_words(a),
                  (None, lambda: (a.prev(), a.prev(), a.ret())))
        a.if_((M("not", KW), isnot))
        a.if_((M("in", KW), prim_ret), *predicate_words(a))
        a.prev()
        a.ret()
    a.if_((M("is", KW), is_),
          (MS(["not", "in"], KW), prim_ret),
          (M("in", KW), prim_ret),
          (MS(["starts", "not", "with"], [ID, KW, ID]), prim_ret),
          (MS(["starts", "with"], [ID, ID]), prim_ret),
          (MS(["ends", "not", "with"], [ID, KW, ID]), prim_ret),
          (MS(["ends", "with"], [ID, ID]), prim_ret),
          (MS(["contains", "not"], [ID, KW]), prim_ret),
          (M("contains", ID), prim_ret),
          (MS(["matches", "not"], [ID, KW]), prim_ret),
          (M("matches", ID), prim_ret))
    a.ret()


@fn("collect_minmax")                         # collect_predicate_min_max_exact
def _(a):
    for w in ["min_len", "max_len", "exact_len"]:
        a.if_((M(w, ID), lambda: a.call("parse_primary_expr")))
    a.ret()


COMPOUND = ["+=", "-=", "*=", "/=", "%="]


@fn("parse_primary_expr")
def _(a):
    a.if_((Not(HasNext()), a.eoferr))
    a.next()                                                       # token = lexer.next()

    def paren():
        a.call("parse_bare_block")
        a.match(")", IP)
        a.call("deref_or_call_or_invoke")
        a.ret()
    a.if_((And(RegV(["("]), RegTy([IP])), paren))

    def ident():
        assign = lambda: (a.call("parse_expression"), a.ret())      # noqa: E731
        a.if_((M("=", OP), assign), *[(M(o, OP), assign) for o in COMPOUND])
        a.call("deref_or_call_or_invoke")
        a.ret()
    a.if_((RegTy([ID]), ident))
    a.if_((RegTy(["string"]), lambda: (a.call("deref_or_invoke"), a.ret())))
    a.if_((RegTy(["int", "decimal", "boolean", "pattern"]), lambda: (a.call("invoke"), a.ret())))

    def kw(v):
        return And(RegV([v]), RegTy([KW]))

    def ip(v):
        return And(RegV([v]), RegTy([IP]))

    def ret_():
        a.if_((P(1, ";", IP), a.ret))
        a.call("parse_expression")
        a.ret()

    def listlit():
        a.mark()
        a.call("parse_list_literal")

        def destr():
            # every item must be an identifier (data-dependent): else syntax error at '['
            a.if_((Choice(), a.failmark))
            a.match("=", OP)
            a.call("parse_expression")
        a.if_((P(1, "=", OP), destr))
        a.unmark()
        a.ret()

    def spread():
        a.next()
        a.if_((ip("["), lambda: a.call("parse_list_literal")),
              (ip("<<<"), lambda: a.call("parse_map_literal")),
              (RegTy([ID]), lambda: None),
              (None, lambda: a.fail(0)))
        a.ret()
    a.if_((kw("fn"), lambda: (a.call("parse_fn"), a.ret())),
          (kw("break"), a.ret),
          (kw("continue"), a.ret),
          (kw("return"), ret_),
          (kw("error"), lambda: (a.call("parse_expression"), a.ret())),
          (kw("do"), lambda: (a.prev(), a.call("parse_block"), a.ret())),
          (ip("["), listlit),
          (ip("<<"), lambda: (a.call("parse_set_literal"), a.ret())),
          (ip("<<<"), lambda: (a.call("parse_map_literal"), a.ret())),
          (ip("<*"), lambda: (a.call("parse_object_literal"), a.ret())),
          (ip("..."), spread),
          (None, lambda: a.fail(0)))                                  # Invalid syntax at


def comprehension_tail(a, closer, allow_second):
    """after `expr for`: identifier in [what] or_expr [for.. | also for..] [if ..] closer"""
    def one():
        a.matchident()
        a.match("in", KW)
        what(a)
        a.call("parse_or_expr")

    def finish():
        a.if_((M("if", KW), lambda: a.call("parse_or_expr")))
        a.match(closer, IP)
        a.call("deref_or_invoke")
        a.ret()
    one()
    if allow_second:
        a.if_((M("for", KW), lambda: (one(), finish())),
              (MS(["also", "for"], KW), lambda: (one(), finish())))
    finish()


@fn("parse_list_literal")
def _(a):
    a.if_((M("]", IP), lambda: (a.call("deref_or_invoke"), a.ret())))
    a.call("parse_expression")
    a.if_((M("for", KW), lambda: comprehension_tail(a, "]", True)))

    def items(out):
        def more():
            a.match(",", IP)
            a.if_((Not(P(1, "]", IP)), lambda: a.call("parse_expression")))
        a.if_((Not(P(1, "]", IP)), more))
    a.while_(Not(P(1, "]", IP)), items)
    a.match("]", IP)
    a.call("deref_or_invoke")
    a.ret()


@fn("parse_set_literal")
def _(a):
    a.if_((M(">>", IP), lambda: (a.call("deref_or_invoke"), a.ret())))
    a.call("parse_expression")
    a.if_((M("for", KW), lambda: comprehension_tail(a, ">>", True)))
    a.if_((Not(P(1, ">>", IP)), lambda: a.match(",", IP)))

    def items(out):
        a.call("parse_expression")
        a.if_((Not(P(1, ">>", IP)), lambda: a.match(",", IP)))
    a.while_(Not(P(1, ">>", IP)), items)
    a.match(">>", IP)
    a.call("deref_or_invoke")
    a.ret()


@fn("parse_map_literal")
def _(a):
    a.if_((M(">>>", IP), lambda: (a.call("deref_or_invoke"), a.ret())))
    a.call("parse_expression")
    a.match("=>", IP)
    a.call("parse_expression")
    a.if_((M("for", KW), lambda: comprehension_tail(a, ">>>", False)))
    a.if_((Not(P(1, ">>>", IP)), lambda: a.match(",", IP)))

    def items(out):
        a.call("parse_expression")
        a.match("=>", IP)
        a.call("parse_expression")
        a.if_((Not(P(1, ">>>", IP)), lambda: a.match(",", IP)))
    a.while_(Not(P(1, ">>>", IP)), items)
    a.match(">>>", IP)
    a.call("deref_or_invoke")
    a.ret()


@fn("parse_object_literal")
def _(a):
    def members(out):
        a.matchident()
        a.if_((P(1, "(", IP), lambda: a.call("parse_fn")),
              (None, lambda: (a.match("=", OP), a.call("parse_expression"))))
        a.if_((Not(P(1, "*>", IP)), lambda: a.match(",", IP)))
    a.while_(Not(P(1, "*>", IP)), members)
    a.match("*>", IP)
    a.call("deref_or_invoke")
    a.ret()


@fn("parse_fn")
def _(a):
    a.match("(", IP)

    def params(out):
        a.next(); a.chk_kw(); a.chk_ident()

        def rest():
            # argname.endswith("...") and not peekn(")") -> error at the name
            a.mark()
            a.if_((M("=", OP), lambda: a.call("parse_expression")))
            a.if_((Not(P(1, ")", IP)), a.failmark))
            a.unmark()

        def plain():
            a.if_((M("=", OP), lambda: a.call("parse_expression")))
            a.if_((Not(P(1, ")", IP)), lambda: a.match(",", IP)))
        a.if_((RegV(["rest..."]), rest), (None, plain))
    a.while_(Not(M(")", IP)), params)
    block_or(a, "parse_expression")
    a.ret()


def arglist(a):
    """while not peekn(')'): [name =] expression [,]   then eat(1)"""
    def body(out):
        a.if_((And(PeekTy([ID]), P(2, "=", OP)),
               lambda: (a.matchident(), a.match("=", OP), a.call("parse_expression"))),
              (None, lambda: a.call("parse_expression")))
        a.if_((Not(P(1, ")", IP)), lambda: a.match(",", IP)))
    a.while_(Not(P(1, ")", IP)), body)
    a.eat(1)


@fn("_invoke")
def _(a):
    def inv():
        a.if_((MS(["(", "fn"], [IP, KW]), lambda: (a.call("parse_fn"), a.match(")", IP))),
              (None, lambda: (a.matchident(),
                              a.while_(M("->", OP), lambda out: a.matchident()))))
        a.match("(", IP)
        arglist(a)
    a.if_((M("!>", OP), inv))
    a.ret()


@fn("_call")
def _(a):
    a.if_((M("(", IP), lambda: arglist(a)))
    a.ret()


@fn("_deref")                                  # leaves reg = @flag 1 when `interrupt`
def _(a):
    interrupt = lambda: (a.call("parse_expression"), a.setreg("1"), a.ret())   # noqa: E731

    def member():
        a.matchident()
        a.if_((M("=", OP), interrupt),
              (M("(", IP), lambda: arglist(a)),
              *[(M(o, OP), interrupt) for o in COMPOUND])
        a.setreg("0")
        a.ret()

    def index():
        a.call("parse_expression")

        def slice_():
            a.if_((Not(M("*", OP)), lambda: a.call("parse_expression")))
            a.match("]", IP)
            a.setreg("0")
            a.ret()
        a.if_((M("to", ID), slice_))
        a.if_((M(",", IP), lambda: a.call("parse_expression")))
        a.if_((MS(["]", "="], [IP, OP]), interrupt),
              *[(MS(["]", o], [IP, OP]), interrupt) for o in COMPOUND])
        a.match("]", IP)
        a.setreg("0")
        a.ret()
    a.if_((M("->", OP), member), (M("[", IP), index))
    a.setreg("0")
    a.ret()


def postfix_loop(name, with_call):
    @fn(name)
    def _(a):
        conds = [P(1, "!>", OP), P(1, "[", IP)] + ([P(1, "(", IP)] if with_call else []) + [P(1, "->", OP)]

        def body(out):
            arms = [(P(1, "!>", OP), lambda: a.call("_invoke"))]
            if with_call:
                arms.append((P(1, "(", IP), lambda: a.call("_call")))
            arms.append((Or(P(1, "[", IP), P(1, "->", OP)),
                         lambda: (a.call("_deref"), a.if_((RegV(["1"]), lambda: a.brk(out))))))
            a.if_(*arms)
        a.while_(Or(*conds), body)
        a.ret()


postfix_loop("deref_or_call_or_invoke", True)
postfix_loop("deref_or_invoke", False)


@fn("invoke")
def _(a):
    a.while_(P(1, "!>", OP), lambda out: a.call("_invoke"))
    a.ret()


# ------------------------------------------------------------------ emission
def tla_set(xs):
    return "{" + ", ".join('"%s"' % x for x in xs) + "}"


def resolve(l):
    if l is None:
        return 0
    if isinstance(l, Label):
        assert l.at is not None
        return l.at
    return l


def main():
    out = ["--------------------------- MODULE ParserTable ---------------------------",
           "(* GENERATED by tools/parser_table.py from the transcription of",
           "   src/ckl/parser.py - do not edit by hand.  Prog[fn] is the instruction",
           "   sequence of parse function fn; see Parser.tla for the meaning of the",
           "   instructions. *)",
           "EXTENDS Integers, Sequences", "",
           'Ins(op, n, v, ty, l, s, t) == [op |-> op, n |-> n, v |-> v, ty |-> ty, l |-> l, s |-> s, t |-> t]',
           ""]
    names = sorted(FNS)
    total = 0
    for name in names:
        code = FNS[name].code
        total += len(code)
        out.append(f"P_{name} == <<")
        rows = []
        for k, ins in enumerate(code):
            rows.append('  Ins("%s", %d, "%s", "%s", %d, %s, %s)' % (
                ins["op"], ins["n"], ins["v"], ins["ty"], resolve(ins["l"]),
                tla_set(ins["s"]), tla_set(ins["t"])))
        out.append(",\n".join(rows))
        out.append(">>\n")
    out.append("Prog == [f \\in {" + ", ".join('"%s"' % n for n in names) + "} |->")
    out.append("  CASE " + "\n    [] ".join(f'f = "{n}" -> P_{n}' for n in names) + "]")
    out.append("")
    out.append("=============================================================================")
    path = os.path.join(os.path.dirname(os.path.dirname(os.path.abspath(__file__))), "spec", "ParserTable.tla")
    with open(path, "w") as f:
        f.write("\n".join(out) + "\n")
    print("ParserTable.tla:", len(names), "functions,", total, "instructions")


if __name__ == "__main__":
    main()
