#!/venv/bin/python
"""Run every check registered in MANIFEST.json (quick by default) against /repo; print a summary."""
import json, subprocess, sys, time
tier = sys.argv[1] if len(sys.argv) > 1 else "quick"
only = sys.argv[2].split(",") if len(sys.argv) > 2 else None
man = json.load(open("/verif/MANIFEST.json"))
bad = 0
for c in man["checks"]:
    pid = c["property_id"]
    if only and pid not in only:
        continue
    t0 = time.time()
    r = subprocess.run(["./check", pid, "--tier", tier], cwd="/verif", capture_output=True, text=True)
    last = r.stdout.strip().splitlines()[-1] if r.stdout.strip() else r.stderr[-200:]
    print(f"{pid} exit={r.returncode} {time.time()-t0:5.0f}s  {last}", flush=True)
    bad += r.returncode != 0
sys.exit(1 if bad else 0)
