#!/venv/bin/python
"""Regenerate MANIFEST.json from the table below (kept valid at all times)."""
import json
import os

ROOT = os.path.dirname(os.path.dirname(os.path.abspath(__file__)))
ALL = ["C%02d" % i for i in range(1, 21)]

BASELINE_OFF = ("cd /repo && /venv/bin/python -m pytest -ra -q -p no:cacheprovider --timeout=900 "
                "--continue-on-collection-errors")

# property id -> (engine/spec modules, technique, level text, level note, design ref)
CHECKS = {
    "C01": (["LexerOps.tla", "Lexer.tla", "LexerMC.tla", "Parser.tla", "ParserTable.tla", "ParserMC.tla", "Repl.tla"],
            "TLA+ scanner transducer and parser pushdown automaton (lazy input) model-checked by TLC; every terminal state, "
            "one-token edit and lexeme variant replayed on parse_script under a watchdog",
            "TLC explores the scanner over four character alphabets (all strings <= 4, thorough 5) and the parser automaton over "
            "the full ~105-class token alphabet (all sequences <= 2, thorough 3) and four construct alphabets (<= 4, thorough 5), "
            "checking totality/progress/error-position invariants; each terminal state (>300k texts quick), every one-token "
            "deletion/insertion/substitution and lexeme variant of sampled accepted programs and nestings to 40 are parsed twice "
            "by the real parser: only a node or a CklSyntaxError with message and position may come out, within 5 s, both times equal. "
            "Repl.tla puts the read-eval-print loop on top of the parser automaton (every way of typing <= 3, thorough 4, tokens in "
            "lines; MoreOnlyWhenWaiting, PlusMeansViable, FreshAfterVerdict) and its ~19k behaviours are replayed into the real "
            "ckl.repl.main(): the continuation prompts must follow the parser's verdict and no parser failure may keep the loop asking.",
            "Trusted: TLC; the transcription tools/parser_table.py (its predictions are compared with the code as drift: 0 "
            "disagreements on 132k inputs); rendering of token classes to lexemes. Data-dependent parser branches are not modelled.",
            "DESIGN.md 4 C01"),
    "C16": (["HeapOps.tla", "Heap.tla", "Heap_Trace.tla"],
            "TLA+ alias-graph / heap model (containers by reference, 13 mutator and 17 non-mutating actions, TLC: PureLeavesHeap, "
            "MutatorTouchesOnlyTarget, FreshResultsIndependent, AliasesAgree); every exported transition replayed as a program with "
            "all names re-read; TLC trace validation of a before/after sweep over every base and module function",
            "TLC explores all operation sequences <= 2 (+1 probing mutation; thorough <= 3) plus random walks over nine initial alias "
            "graphs of four names (variable, parameter, slot in another container, closure variable) and checks that only documented "
            "mutators change the heap, only their target, and that results of non-mutating operations share nothing; 55k exported "
            "transitions are replayed on the interpreter (every name rendered after every step), and 27k recorded calls of 250 "
            "functions/operator forms (arguments rendered before and after) are validated by Heap_Trace.",
            "Trusted: TLC, HeapOps' documented-mutator table (append, append_all, insert_at, delete_at, remove, put, element and member "
            "assignment). Strings are not modelled as shared (the statement does not say they are). Functions returning one of their "
            "arguments (identity, if_null, min, max) are drift.",
            "DESIGN.md 4 C16"),
    "C17": (["DateOps.tla", "Date.tla", "DateArith.tla", "Date_Trace.tla", "DateProc.tla"],
            "TLA+ calendar machine (TickDay / TickMonth / TickYear with n' = n + 1) with closed-form day number, round trip, leap "
            "and month-length invariants, and an arithmetic machine for the (d + n) - n laws, model-checked by TLC; exported month / "
            "year / arithmetic records replayed on to_oa_date / to_date / int(date) / date(n) / date +- n; TLC trace validation of "
            "recorded conversions with random times of day",
            "TLC walks the calendar over the configured year ranges (thorough: every one of the 2 958 464 days from 1900-01-01 to "
            "9999-12-31) checking ClosedForm, RoundTrip, LeapSanity, MonthSanity, OneDay; the exported month table gives the predicted "
            "day number of every day; the harness calls the real conversions on the first/last days of every month, all year "
            "boundaries and 20k random days (thorough: all days, 7.69M evaluations) and validates 12 kinds of recorded events "
            "(to the second) against Date_Trace.",
            "Trusted: TLC, DateOps (OLE epoch 1899-12-30 = 0, as tests/test_date.py pins); decimals compared within 1e-9 days.",
            "DESIGN.md 4 C17"),
    "C18": (["StrOps.tla", "Str.tla", "Str_Trace.tla", "StrNum.tla"],
            "TLA+ string algebra (reference operators over code-point sequences + driver machine mirroring the replace/join/"
            "reverse loops of string.ckl) model-checked by TLC; exported cases replayed on the interpreter; TLC trace validation "
            "of recorded calls on random adversarial strings",
            "TLC checks the laws of the statement (split/join inverse, replace = leftmost non-overlapping, reverse involution, "
            "idempotence of case mapping and trim, contains <=> find >= 0 <=> decomposition, starts/ends_with vs substrings, "
            "chr/ord, interpolation padding) on all (s, t, r) over an adversarial alphabet up to the configured lengths and exports "
            "33k cases replayed on the interpreter; 36k recorded calls on random strings of length 0..12 (separators, regex "
            "metacharacters, quotes, backslash, tab, newline, braces, non-ASCII) are accepted by Str_Trace only if equal to StrOps.",
            "Trusted: TLC, StrOps as the reading of the statement; the regex engine is not modelled (split only via escape_pattern); "
            "rounding compared numerically; case mapping on ASCII + e-acute only.",
            "DESIGN.md 4 C18"),
    "C19": (["LibOps.tla", "Bits32.tla", "BigInt.tla", "Lib.tla", "Lib_Trace.tla", "BigIntTest.tla"],
            "TLA+ reference operators for the collection/statistics/integer/bitwise library with a driver machine whose invariants "
            "are the laws (TLC exhaustive on small lists, all permutations), exported cases replayed on the interpreter; TLC trace "
            "validation of recorded calls (big ints as limbs, 32-bit words as halves)",
            "TLC checks set algebra on equality classes (1 = 1.0), unique-keeps-first, textbook definitions of reverse/flatten/zip/"
            "enumerate/range/chunks/pairs/grouped/sum/prod, permutation invariance of mean/median*/min/max over all permutations of "
            "multisets <= 5, exactness of pow/gcd/lcm/abs/sign against BigInt, and the 32-bit word x word and word x shift 0..40 grid; "
            "~24k exported cases and 10k recorded events (ints to 2^80) are compared with / validated against the model.",
            "Trusted: TLC, LibOps/Bits32/BigInt as the reading of the statement (bitwise domain: unsigned 32-bit words per the doc "
            "strings); float accuracy of means is compared with tolerance; chunks([]) , prod([]), range step 0, pow with negative "
            "exponent are drift only.",
            "DESIGN.md 4 C19"),
    "C20": (["LexerOps.tla", "Lexer.tla", "LexerMC.tla", "Parser.tla", "ParserTable.tla"],
            "TLC-checked scanner line invariant (LineIsStartLine vs reference LineOf) + replay of exported token lines; parser "
            "automaton names the offending token of syntax faults; planted runtime/module faults under random multi-line layouts",
            "TLC proves on the scanner mirror that every token carries the line of its first character for every text of the "
            "explored alphabets (with the pinned stamping rule switched on it produces the counterexample); the exported per-token "
            "lines are compared with the real Lexer for ~150k texts; 5k syntax-fault renderings (token named by the parser model), "
            "600 runtime-fault renderings incl. stack-trace frames and 50 module faults are checked for file name and line.",
            "Trusted: TLC, LexerOps.LineOf as the reading of 'line on which the token begins', the fault templates' marked tokens; "
            "for operator faults/calls the operator's or the construct's first line is accepted. Columns are not compared.",
            "DESIGN.md 4 C20"),
    "C02": (["ExprOps.tla", "Expr.tla", "ExprMC.tla", "BigInt.tla", "Arith_Trace.tla", "Pred_Trace.tla"],
            "TLA+ mirror of the precedence-climbing parser vs. reference precedence table and evaluation rules (TLC: all operator "
            "pairs/unary combinations/chains), replayed on parser+interpreter; TLC trace validation of big-int arithmetic (limb "
            "arithmetic in BigInt.tla) and of is/is-not predicate pairs",
            "TLC checks MirrorIsRef (tree built by the climbing functions = tree of the precedence table), chain = conjunction, "
            "short circuit, NULL propagation, int-iff-both-int, truncating division and modulus laws on ~7k (thorough ~20k) "
            "generated expressions; each is rendered and the real parser's tree and the interpreter's value/error are compared "
            "with the model's; 3.8k (thorough 200k) big-int events up to 130 bits are accepted by Arith_Trace only when exact; "
            "~800 predicate pairs must be opposite booleans (and type words must answer the type).",
            "Trusted: TLC, BigInt.tla (itself model-checked against native arithmetic in BigIntTest), the reading of the language "
            "rules in ExprOps (decimal results compared with 1e-9 tolerance; combinations marked skip are tree-checked only).",
            "DESIGN.md 4 C02"),
    "C03": (["Machine.tla", "MachineGen.tla", "MachineRun.tla"],
            "definitional interpreter of the evaluator in TLA+ (mirror of nodes.py evaluate / Environment / FuncLambda.execute / "
            "Args.setArgs), generated program families model-checked by TLC (history invariants) and replayed on the interpreter "
            "(result, error value and in-program log compared)",
            "Families: who-sees-which-x under definition/shadowing/assignment, counters and curried closures outliving their frame, assignment to undefined names, recursion, 5 signatures x 15 argument lists (positional, named, default, rest, spread list/map/set), pipeline, method calls over a prototype chain. TLC runs every program of the family (116 quick) on the model, checks FinallyOnce / NoStmtAfterFailure / "
            "BlocksBalanced / HandlerAfterRaise / FreshFrames (and ComprEqualsLoop) on the ghost history, and exports program, "
            "outcome and log; each program is rendered to source and run on the real interpreter, whose result or error value "
            "and log must equal the model's.",
            "Trusted: TLC, Machine.tla as the reading of the language rules the statement lists, the renderer "
            "(harness/machine.py). The families are finite and hand-designed; values are ints, booleans, strings, lists, sets, "
            "maps, objects and closures.",
            "DESIGN.md 4 C03"),
    "C04": (["Machine.tla", "MachineGen.tla", "MachineRun.tla"],
            "definitional interpreter of the evaluator in TLA+ (mirror of nodes.py evaluate / Environment / FuncLambda.execute / "
            "Args.setArgs), generated program families model-checked by TLC (history invariants) and replayed on the interpreter "
            "(result, error value and in-program log compared)",
            "Families: one loop over each iterable kind (list, set, map keys/values/entries, string, empty) with break/continue/return/error guarded by four conditions before and after the logging statement, in a function and at top level; nested loops with exits in either loop; destructuring loops; while with logging condition; if ladders with logging conditions; list/set/map comprehensions and their explicit loops. TLC runs every program of the family (408 quick) on the model, checks FinallyOnce / NoStmtAfterFailure / "
            "BlocksBalanced / HandlerAfterRaise / FreshFrames (and ComprEqualsLoop) on the ghost history, and exports program, "
            "outcome and log; each program is rendered to source and run on the real interpreter, whose result or error value "
            "and log must equal the model's.",
            "Trusted: TLC, Machine.tla as the reading of the language rules the statement lists, the renderer "
            "(harness/machine.py). The families are finite and hand-designed; values are ints, booleans, strings, lists, sets, "
            "maps, objects and closures.",
            "DESIGN.md 4 C04"),
    "C05": (["Machine.tla", "MachineGen.tla", "MachineRun.tla"],
            "definitional interpreter of the evaluator in TLA+ (mirror of nodes.py evaluate / Environment / FuncLambda.execute / "
            "Args.setArgs), generated program families model-checked by TLC (history invariants) and replayed on the interpreter "
            "(result, error value and in-program log compared)",
            "Families: a block with two statements (plain / five kinds of failure / return) x 11 catch-clause sets (value, all, several clauses, raising and returning handlers, failing clause value) x 4 finally parts, at top level, inside a called function and inside a loop; an inner block as first or second statement of an outer block; break/continue through catch and finally. TLC runs every program of the family (4880 quick, ~40k thorough) on the model, checks FinallyOnce / NoStmtAfterFailure / "
            "BlocksBalanced / HandlerAfterRaise / FreshFrames (and ComprEqualsLoop) on the ghost history, and exports program, "
            "outcome and log; each program is rendered to source and run on the real interpreter, whose result or error value "
            "and log must equal the model's.",
            "Trusted: TLC, Machine.tla as the reading of the language rules the statement lists, the renderer "
            "(harness/machine.py). The families are finite and hand-designed; values are ints, booleans, strings, lists, sets, "
            "maps, objects and closures.",
            "DESIGN.md 4 C05"),
    "C06": (["Val.tla", "ValLaws.tla", "ValCont.tla", "Val_Trace.tla", "ValEdit.tla"],
            "TLA+ value model (Equal / Members / map lookup) with the equivalence and congruence laws model-checked by TLC over a "
            "value universe and all insertion orders; pair tables and container scenarios replayed through ckl.values and through "
            "interpreted programs; TLC trace validation of recorded relations on random values",
            "TLC checks reflexivity, symmetry, transitivity, cross-kind inequality, int/decimal numeric equality and "
            "insertion-order independence of set/map equality, membership, lookup and removal on a universe of scalars, dates, "
            "patterns and nested lists/sets/maps; every pair and container scenario is evaluated on the implementation (==, !=, hash "
            "congruence, in, m[k], remove, set difference, equals/not_equals, find), each value built via constructors and literals "
            "in several insertion orders; comparison must terminate (stdout == stdout).",
            "Trusted: TLC, Val.tla as the reading of the statement; hash congruence is checked on the code only (a host notion).",
            "DESIGN.md 4 C06"),
    "C07": (["Val.tla", "ValLaws.tla", "ValSort.tla", "Val_Trace.tla"],
            "TLA+ per-kind total order (Less) with order laws model-checked by TLC; the insertion sort of `sorted` mirrored as a "
            "state machine with 'ordered stable permutation' as its property; pair tables and sort cases replayed; TLC trace "
            "validation of recorded comparisons and sorts",
            "TLC checks irreflexivity, asymmetry, transitivity and trichotomy with Equal on all same-kind triples (ints and decimals "
            "mixed, strings over code points around the quote, booleans, dates, lists) and that the mirrored insertion sort returns "
            "an ordered stable permutation for all lists <= 5 with duplicate keys, with key and cmp; the implementation's <, <=, >, >=, "
            "compare, min, max, sorted and the enumeration order of sets and map keys are compared with the model.",
            "Trusted: TLC, Val.tla. Order between sets/maps (rendered-text order) is outside the statement: drift.",
            "DESIGN.md 4 C07"),
    "C08": (["Val.tla", "ValLaws.tla", "ValText.tla", "LexerOps.tla", "Val_Trace.tla"],
            "TLA+ canonical rendering (Render) with order-independence and escape rules model-checked by TLC; rendered text of every "
            "value compared across construction orders, lexed by the real lexer against the predicted token shape, re-evaluated and "
            "re-rendered",
            "TLC checks that Render is independent of insertion order and escapes the five special characters for all strings <= 4 over "
            "an adversarial alphabet and nested collections; on the implementation every value (adversarial strings, negative "
            "numbers, decimals from 1e-320 to 1e308, empty and nested collections, patterns) is rendered in all construction orders, "
            "must lex to the predicted token kinds, evaluate back to an Equal value of the same type and render identically again.",
            "Trusted: TLC, Val.tla; repr(float) digits are not modelled (shape and round trip only); inf/nan out of scope. "
            "12 known findings (pattern payloads that the pattern syntax cannot express, NULL as map key, equal representatives such "
            "as <<1, 1.0>>) are listed in known_findings.json.",
            "DESIGN.md 4 C08"),
    "C09": (["SecureOps.tla", "Secure.tla", "Secure_Trace.tla", "SecureCases.tla"],
            "TLA+ model of the capability gate (bind_native guard, module binding, flag shadowing/assignment, run registration) with "
            "the native table extracted from the current tree; TLC checks NoInsecureBound, FlagImmutable, OsTouchingImpliesInsecure; "
            "every transition replayed on secure interpreters with reachability / flag / audit-event / canary projection; TLC trace "
            "validation of the OS events of a sweep over every base and module symbol",
            "The per-native `secure` attribute and a *measured* osTouching classification (each native executed behind the gate with "
            "path-like and command-like arguments in a canary directory under an audit hook and stat-family wrappers) are fed to TLC, "
            "which explores all action sequences <= 2 (thorough 3) in legacy and non-legacy bases; 9.4k behaviours are replayed and "
            "38k invocations of every symbol of the base environment and the 16 bundled modules are recorded; Secure_Trace accepts only "
            "module-source reads during require.",
            "Trusted: TLC, the audit-hook/stat-wrapper instrumentation as the definition of 'touches the OS'; directories named by "
            "checkerlang_module_path count as module source directories; get_env and os.getcwd are drift.",
            "DESIGN.md 4 C09"),
    "C13": (["FormsOps.tla", "Forms.tla", "FormsGraphOps.tla", "FormsGraph.tla", "Natives_Trace.tla", "FormsCallOps.tla", "FormsCall.tla"],
            "TLA+ table of 158 syntactic forms with value/error rules over a 24-value pool (TLC: NotStuck, exports the case list); "
            "every case and an arity <= 3 sweep of all 601 live function sites executed under a watchdog; TLC trace validation in "
            "which host exceptions, timeouts, non-Value error values and uncatchable errors are accepted by no action",
            "TLC enumerates every (form, argument tuple) and checks the model is total; the harness runs exactly that list (50k form "
            "cases quick) plus 194k calls (arity 0-2 exhaustive, arity 3 sampled; thorough 3.77M, exhaustive) of every function of the "
            "base, legacy base and all bundled modules (non-secure natives in a sandbox) in 16 worker processes with per-call alarms; "
            "each erroring case is re-run inside `catch all`; Natives_Trace rejects anything but a value or a runtime error carrying a "
            "Value.",
            "Trusted: TLC, the 2 s per-call bound (a timeout is re-run in isolation with 10 s); calls whose work is proportional to a "
            "2^70 argument are accepted only if the same call with 10^4 behaves (AcceptScaled).",
            "DESIGN.md 4 C13"),
    "C10": (["SessionOps.tla", "Session.tla"],
            "TLA+ model of interpreter sessions (session scope, module cache, module load stack; require as sub-steps so that a "
            "failure can strike between push and pop; named deviation UnwindOnFailure) model-checked by TLC; the state graph replayed "
            "on real interpreters (fork at branch points), outcomes of every interpret call compared",
            "TLC checks StackEmptyBetweenCalls, DefsPersist, FailIsIdempotent, Isolation and termination for all histories <= 4 over "
            "the command alphabet (define, assign, read, call, failing expression, syntax error, require of good / missing / broken / "
            "syntax-bad / cyclic modules, loop aborted by an error) for one and two interleaved interpreters, and reproduces the pinned "
            "defect as a counterexample when UnwindOnFailure = FALSE (a self-test of every run); 45k commands are replayed: outcome of "
            "each call, visibility of earlier definitions, same error on repetition, the other instance untouched.",
            "Trusted: TLC, SessionOps as the reading of the statement; the module path is put into the base environment (DESIGN 5.4); "
            "an aborted for-loop's variable is a soft name (drift).",
            "DESIGN.md 4 C10"),
    "C11": (["SessionOps.tla", "Session.tla"],
            "the same Session model in module-graph mode: TLC enumerates module graphs (public/private names, load counters, mutable "
            "state, acyclic and cyclic edges) and importer programs over every import form; each is materialised on disk and run; "
            "bound names, counters, shared state and cycle errors compared",
            "TLC checks LoadOnce, BindsExactly (names added = the set the form denotes, never `_` names), ModuleScopeIsBase and "
            "CycleIsError over generated graphs of <= 3 modules (thorough 5, plus simulation) and importers with <= 4 requires in every "
            "form and order; 11.8k commands are replayed on fresh interpreters with the module files written to a temp directory.",
            "Trusted: TLC, SessionOps; bundled modules, ~/.ckl/modules and path-like module specs are not modelled.",
            "DESIGN.md 4 C11"),
    "C12": (["OrderOps.tla", "Order.tla", "Order_Trace.tla", "Order_Rng.tla"],
            "TLA+ model of the enumeration sites with the internal order of sets/maps as nondeterminism (TLC: OrderIndependence over "
            "all permutations); the per-site sorted/raw table is derived from observation; 216 program templates executed in fresh "
            "processes under 8 (thorough 32) PYTHONHASHSEED values and 3 construction orders; TLC trace validation against the "
            "model's deterministic prediction",
            "In Order.tla every set/map carries an arbitrary permutation re-chosen on insertion; with all 21 enumeration sites sorted "
            "TLC proves every one of the 38 model programs (direct and composite) observation-independent of that permutation "
            "(N=4, all 24 permutations), with a raw site it yields the counterexample permutation. 216 templates covering iteration, "
            "the comprehension forms, conversions, spread, destructuring, rendering, set arithmetic and the bundled collection "
            "functions run in 480 (thorough 10k) fresh `python -m ckl.run` processes; stdout, result and error must be identical "
            "across seeds and construction orders, and equal the model's prediction for the 110 templates the model covers.",
            "Trusted: TLC, the mapping of templates to model programs; seeds 0..7 (thorough 0..31) stand for 'every seed'.",
            "DESIGN.md 4 C12"),
    "C14": (["LexerOps.tla", "Lexer.tla", "LexerMC.tla", "ExprOps.tla", "Expr.tla"],
            "TLC-checked SameSignature invariant of the scanner mirror over separators x literal spellings; programs re-rendered "
            "from the model's separator/spelling alphabet and interpreted, observations compared",
            "TLC shows exhaustively for all sequences of <= 3 (thorough 4) token spellings and separators that the scanner mirror "
            "delivers the intended (type, value) sequence whatever layout and spelling; ~340 programs (thorough ~10k: generated "
            "expressions, fault templates, statement programs with output) are each re-rendered >= 10 times with those "
            "separators/spellings, redundant parentheses and trailing semicolons; value, output and error value must not change.",
            "Trusted: TLC; the real lexer is used to tokenise the canonical text; re-renderings are random (seeded), not exhaustive.",
            "DESIGN.md 4 C14"),
    "C15": (["SeqOps.tla", "Seq.tla", "Seq_Trace.tla"],
            "TLA+ list-object state machine (TLC exhaustive) + TLC-generated case replay + TLC trace validation of recorded calls",
            "TLC checks the index/slice/find/insert/delete laws on every list of length <= 3 (thorough 6) over 3 symbols and every "
            "index in -9..9; every reachable state's read table and every transition are replayed on the interpreter for strings "
            "and lists, and random call sequences on longer objects are recorded and validated by TLC against Seq_Trace.",
            "Trusted: TLC, the SeqOps reference operators (the reading of the property in DESIGN 4/C15), the a..e <-> 1..5 symbol mapping.",
            "DESIGN.md 4 C15"),
}

C05_EXTRA = (" Binding B: every block of ~2 500 generated programs and of the repository's own ~760 test programs "
             "(library code included) is wrapped in logging proxies after parsing; the unmodified NodeBlock.evaluate drives "
             "them and Block_Trace.tla validates the ~75k events against the block life-cycle automaton (statements in order, "
             "none after a failure, clause values tested in order up to the first equal one, exactly that handler, every finally "
             "statement exactly once, proper nesting).")

C03_EXTRA = (" Binding B: every Environment operation of ~1 200 generated programs and of the repository's own ~760 test "
             "programs (library code included) is recorded from outside (frame creation, put, set, get, remove, closure "
             "creation, closure call) and Env_Trace.tla validates the ~50k events against the model of the chain: a call "
             "frame is a new child of the frame the function was created in, a definition binds in the executing frame, "
             "an assignment updates and a lookup reads the nearest enclosing binding.")

C04_EXTRA = (" Binding B: every NodeIf / NodeFor / NodeWhile and every function body of ~1 500 generated programs, "
             "17 hand-written programs over sets / maps / strings / destructured entries and the repository's own ~760 test "
             "programs (library code included) is wrapped in logging proxies after parsing; Flow_Trace.tla validates the "
             "~37k events against the automaton of each construct: conditions in order up to the first TRUE one and exactly "
             "that branch; list elements and characters in order, set elements and map keys in ascending order (int and "
             "string keys; other kinds counted as unchecked), each once; break consumed by the innermost loop, return passed "
             "on, the while condition re-tested before every iteration; a call yields the returned value.")

ADDENDA = {
    "C01": " Outcomes are compared across fresh processes with other string-hash seeds and reversed parse order; lexeme variants "
           "cover what the host's int()/float()/isdigit() tolerate but the language does not; a Unicode character alphabet (K5).",
    "C02": " A two-operand family over every ORDERED pair of an 18-value pool (NULL on either side, TRUE memberships, whole decimal "
           "quotients, int against decimal) and n-ary and/or; Arith_Trace also validates < <= > >= == != on ints of any magnitude.",
    "C03": " Destructuring assignment / definition, the compound-assignment spelling, NULL passed as an argument, receivers that are "
           "expressions with effects and three-link prototype chains are part of the model's families.",
    "C04": " Families also hold loops in the tail position of a function ending in `return`, three-deep nests, map comprehensions "
           "whose keys repeat, and sets / maps changed between two loops over them.",
    "C05": " Families e5 (a clause value that is a variable, in a block run twice), e6 (an error crossing a call whose argument's "
           "_str_ fails) and contexts 4 / 5 (loop over an input, code handed to eval as text).",
    "C08": " Round 2: numbers manufactured by natives (table Make, invariants MakerShape / MakerLaws) are judged by their own type(). "
           "Round 3: ValText.tla - pattern payloads around `/` and the backslash with the scanner's pattern state (PatRoundTrip, "
           "PatEarlyEnd), and histories of an outer container and an inner object driven through every mutator (TextFollowsValue); "
           "eight rendering observers (string, '' + v, s('{v}'), join, print ...) must agree with the value's text (RenderObserverFree); "
           "known findings are matched by key AND symptom.",
    "C10": " Round 2: caller-supplied environments (fresh / kept / child of the session; CallerEnvDetached, SessionsIsolated; "
           "Session_pinnedenv.cfg must yield TLC's counterexample).",
    "C11": " Round 2: the empty and the repeated-source import list, spellings of bundled module names (Modules_spell.cfg), "
           "importer programs run through the command-line runner.",
    "C12": " Round 2: elements that render alike (functions, streams, objects differing in hidden members, sets / maps of them): "
           "RelationsOK, StableSortOK, 130 more templates.",
    "C13": " Round 2: FormsGraph.tla enumerates short programs that build collections holding themselves, `_proto_` loops and "
           "changed keys, each ending in one of eleven observers (18.8k programs quick); REPL sessions evaluate failing lines.",
    "C14": " Spellings cover digit separators in every numeral form, both quote styles with the other quote escaped, \\xNN in either "
           "case; optional semicolons before end / catch / finally; comments that look like code; 16 re-renderings per program.",
    "C15": " find with a start on lists; reads through a variable index, twice, and through one function applied to two sequences; "
           "lists whose equal elements are spelled as ints and as decimals.",
    "C16": " Round 2: five non-mutating library actions and the ResultIndependent rule (which argument containers a result is or "
           "holds); an object with a prototype; a set that holds a list.",
    "C19": " Round 2: every law also in the legacy environment; chunks yields no empty piece and no piece for an empty input.",
    "C20": " 56 runtime-fault templates (one per kind of raising node), scanner errors at the line of the rejected lexeme, syntax "
           "faults inside modules, several file names.",
}

ADDENDA3 = {
    "C13": " Round 3: FormsCall.tla models positional / named / rest binding (every function is also called in the shapes its parameter list admits, 1 910 calls on a probe function compared with the model), 196 forms incl. guards reached on a later pass, processor-time bounds and two-point scaled re-runs (a stand-in run must end AND the result must grow).",
    "C17": " Round 3: DateProc.tla - the life of one process over the whole date vocabulary under eight time zones with their daylight-saving rules (ZoneBlind, BystandersKeep, ArithMoves); ~3 000 real new processes per quick run, hazard instants, CPU-time watchdogs (a conversion that never returns is reported).",
    "C06": " Round 3: every non-integral double is an exact model value (neighbours one ulp apart), dates are instants with microseconds; ValEdit.tla edits an object whose hash was taken and compares it with fresh values; 34 program- and API-level answers to 'same value?' must agree.",
    "C07": " Round 3: the list forms of min / max (with key) as modelled scans in ValSort.tla, eleven enumeration sites each for sets and maps, dates below year 1000 and inside one second, composing characters, cmp functions returning any negative / positive int.",
    "C09": " Round 3: the argument family is part of the spec (CallShapes: every path-like argument in every position beside every companion), names the binder knows are found by trying, another interpreter constructed before / after (OthersChangeNothing), 2 400 module specs that name no module, the command-line front ends with --secure.",
    "C10": " Round 3: one module directory per interpreter, nested caller environments, loads that fail in the host, defining statements that fail themselves, interpreters constructed mid-history.",
    "C12": " Round 3: near-duplicate strings (case, blanks, accents), 247 natives applied to sets and maps in every argument position, the seeded generator as its own machine (Order_Rng.tla, Determinism), stack-trace lines of failing calls.",
    "C16": " Round 3: reads (with and without default) and compound element assignment as actions, opaque results, a map keyed by a list, default expressions, methods found on the prototype; non-secure natives swept in a sandbox; every function of three or more places executed at full arity.",
    "C18": " Round 3: digit-sequence integers of any size, a template scanner S(tpl, env) (unclosed braces, digits and two-digit argument numbers are plain text), rounding with sign and magnitude (StrNum.tla), table-free laws for trim / upper / lower on 51 special code points.",
}

NOT_YET = "check not built yet in this round (planned, see DESIGN.md section 4)"

ADDENDA4 = {
    "C01": " Round 4: one of the fresh processes of the cross-process comparison runs with the host's warnings turned into errors (pattern literals the host compiles with a FutureWarning).",
    "C05": " Round 4: family e7 - the error value is an object with a _str_ member that fails or writes to the log (nothing renders an error value on its way to the handler), and fixed programs whose error value holds itself.",
    "C11": " Round 4: a module object is a snapshot of the module's public definitions at the binding (ModOf / NowVars in Session.tla), generated modules reassign a public definition, importers assign to members of their module object (command mset); Modules_devsnap.cfg (object made once per module) must give TLC a counterexample.",
    "C12": " Round 4: site class rawbig (a site that walks the raw host container only above a size), invariants SmallBlind / BigOnly (Order_bigraw.cfg), four pools of 120 / 1 100 members, sorted-head oracle for stack-trace excerpts; maps whose values tie (1 and 1.0) through every enumeration form and function in 24 construction orders.",
    "C13": " Round 4: the host's own streams (an interpreter nobody redirected) and a decimal at the edge of the range as values of the wide pool, with the partners they need.",
    "C14": " Round 4: redundant parentheses directly behind a sign (three known findings: the parser folds sign and numeral into one literal).",
    "C18": " Round 4: split / lines / words called again after the caller changed their result in place.",
    "C19": " Round 4: every call whose result is a collection is repeated after the caller changed that result in place (the first 40 calls of every function, then every 6th).",
    "C20": " Round 4: a module's syntax fault must carry the module's name and line whatever class of error reports it.",
}

ADDENDA5 = {
    "C01": " Round 5: a REPL that asks for more input on a buffer the real parser has decided (a syntax error other than 'Unexpected end of input', or a program) is a violation.",
    "C03": " Round 5: family a4 - pipelines into own and inherited members of an object.",
    "C06": " Round 5: values made by natives from texts the host's readers turn into nan / inf must be equal to themselves.",
    "C08": " Round 5: strings outside the Unicode normal forms.",
    "C10": " Round 5: Session_world.cfg (module files appear, vanish and change between commands, the module path grows: MissingOnlyIfAbsent, WorldTouchesNoInterpreter; Session_pinnedworld.cfg must give a counterexample), Session_base.cfg (a non-secure and a secure interpreter, base-level functions reassigned, bundled modules per interpreter: BaseIsOwn).",
    "C11": " Round 5: command envreq - require from a caller-supplied environment; LoadOnce / SingleInstance / ModuleScopeIsBase over session and caller-environment importers (Modules_env.cfg, Modules_envwide.cfg).",
    "C12": " Round 5: collections as members and keys of collections (a twin built in the reverse order beside every set and map: Order!OneMember), enumeration of names (sites names.module / names.import / names.ls / names.object).",
    "C13": " Round 5: callbacks that shrink, clear or grow the collection a native walks; every function as the _str_ member of an object; names of defaults shadowed by non-functions; ckl.run.main() and ckl.repl.main() driven with scripts whose results and error values cannot be rendered; host streams of their own per case.",
    "C14": " Round 5: an int beyond the host's one-piece conversion limit in every spelling; Latin-1 strings with every character as an escape.",
    "C15": " Round 5: a slice or sublist is a new list also when it covers the whole list (edit one, read the other).",
    "C18": " Round 5: PadNum (zero padding of negative numbers), the start parameter of s, placeholders naming variables of the caller, one-pass ReplaceScan / SplitScan checked against ReplaceAll / SplitLit and driven with hundreds of occurrences.",
    "C19": " Round 5: flatten over members of every kind; sums of ints beyond 2^53 and decimals whose exact value is a double (exact-rational oracle).",
    "C20": " Round 5: module faults under every import form (the error names the module, not the importer's alias).",
}

ADDENDA6 = {
    "C01": " Inline pattern flags the host's compiler refuses with an exception of its own.",
    "C02": " Comparison chains evaluated repeatedly from one parse: all 36 operator pairs inside a function, a loop, a comprehension and a while loop (an evaluation that stopped early must not leak into the next).",
    "C03": " The same use of a name evaluated again under a nearer binding (conditional def, def after a closure was called, a built-in shadowed after its first use).",
    "C04": " Comprehensions re-entered by recursion from their source, value and condition.",
    "C06": " NULL, booleans and numbers made by natives from text (parse_json) and arithmetic at the edge of the decimal range are reflexive and symmetric towards the constants.",
    "C08": " The text of a value whose earlier rendering was interrupted (a member whose _str_ failed and was removed since; a rendering begun when the stack was nearly used up).",
    "C09": " Closures over the binder made in a caller-supplied environment and called after that call ended (by the host rendering the result, by a later program).",
    "C11": " One require statement evaluated several times with a module spec held in a variable (loop, function body, while loop; every form; load log).",
    "C12": " Seeded draws over spans beyond the generator's number of states.",
    "C14": " Line breaks and tabs written raw inside string literals; programs typed at the REPL over several lines.",
    "C15": " find / find_last under names the library uses for its defaults, bound by the caller.",
    "C18": " Interpolation is re-entrant (a placeholder whose expression interpolates again).",
    "C19": " Collections that were walked, then edited in place by a documented mutator, then handed to the functions.",
}


def main():
    checks = []
    engines = []
    for pid in ALL:
        if pid not in CHECKS:
            continue
        mods, tech, text, note, ref = CHECKS[pid]
        text = text + ADDENDA.get(pid, "") + ADDENDA3.get(pid, "") + ADDENDA4.get(pid, "") + ADDENDA5.get(pid, "") + ADDENDA6.get(pid, "")
        if pid == "C03":
            mods = mods + ["Env_Trace.tla"]
            text = text + C03_EXTRA
            tech = tech + "; TLC trace validation (Env_Trace) of environment-chain events recorded from the real interpreter"
        if pid == "C04":
            mods = mods + ["Flow_Trace.tla"]
            text = text + C04_EXTRA
            tech = tech + "; TLC trace validation (Flow_Trace) of control-flow events recorded from the real evaluator"
        if pid == "C05":
            mods = mods + ["Block_Trace.tla"]
            text = text + C05_EXTRA
            tech = tech + "; TLC trace validation (Block_Trace) of block life-cycle events recorded from the real evaluator"
        checks.append({
            "property_id": pid,
            "quick_cmd": f"./check {pid} --tier quick",
            "thorough_cmd": f"./check {pid} --tier thorough",
            "evidence_file": f"/verif/evidence/{pid}.json",
            "replay_cmd_template": f"./check {pid} --replay {{path}}",
            "engine": "tlc:" + ",".join(mods),
            "level_claimed": {"category": "model_checking", "text": text, "design_ref": ref},
            "level_note": note,
            "technique": tech,
        })
        for m in mods:
            e = next((x for x in engines if x["name"] == m), None)
            if e is None:
                e = {"name": m, "path": "/verif/spec/" + m, "serves_properties": [],
                     "kind_free_text": "TLA+ specification checked with TLC 1.8"}
                engines.append(e)
            e["serves_properties"].append(pid)
    man = {
        "version": 1,
        "setup_cmd": "./check --setup",
        "hooks": {
            "guard": "CKL_VERIF",
            "enable": "no source hooks: instrumentation is applied from outside (wrapping, audit hooks); checks import ckl from /repo/src",
            "baseline_off_cmd": BASELINE_OFF,
            "source_commits": [],
            "add_only": True,
        },
        "engines": engines,
        "checks": checks,
        "notes": "Model-based verification with explicit TLA+ specs under /verif/spec; see DESIGN.md.",
        "not_applicable": [{"property_id": p, "reason": NOT_YET} for p in ALL if p not in CHECKS],
    }
    with open(os.path.join(ROOT, "MANIFEST.json"), "w") as f:
        json.dump(man, f, indent=1)
    print("MANIFEST.json:", len(checks), "checks,", len(man["not_applicable"]), "not applicable")


if __name__ == "__main__":
    main()
