#!/venv/bin/python
"""Regenerate MANIFEST.json from the table below (kept valid at all times)."""
import json
import os

ROOT = os.path.dirname(os.path.dirname(os.path.abspath(__file__)))
ALL = ["C%02d" % i for i in range(1, 21)]

BASELINE_OFF = ("cd /repo && /venv/bin/python -m pytest -ra -q -p no:cacheprovider --timeout=900 "
                "--continue-on-collection-errors")

# property id -> (engine/spec modules, technique, level text, level note, design ref)
CHECKS = {
    "C15": (["SeqOps.tla", "Seq.tla", "Seq_Trace.tla"],
            "TLA+ list-object state machine (TLC exhaustive) + TLC-generated case replay + TLC trace validation of recorded calls",
            "TLC checks the index/slice/find/insert/delete laws on every list of length <= 3 (thorough 6) over 3 symbols and every "
            "index in -9..9; every reachable state's read table and every transition are replayed on the interpreter for strings "
            "and lists, and random call sequences on longer objects are recorded and validated by TLC against Seq_Trace.",
            "Trusted: TLC, the SeqOps reference operators (the reading of the property in DESIGN 4/C15), the a..e <-> 1..5 symbol mapping.",
            "DESIGN.md 4 C15"),
}

NOT_YET = "check not built yet in this round (planned, see DESIGN.md section 4)"


def main():
    checks = []
    engines = []
    for pid in ALL:
        if pid not in CHECKS:
            continue
        mods, tech, text, note, ref = CHECKS[pid]
        checks.append({
            "property_id": pid,
            "quick_cmd": f"./check {pid} --tier quick",
            "thorough_cmd": f"./check {pid} --tier thorough",
            "evidence_file": f"/verif/evidence/{pid}.json",
            "replay_cmd_template": f"./check {pid} --replay {{path}}",
            "engine": "tlc:" + ",".join(mods),
            "level_claimed": {"category": "model_checking", "text": text, "design_ref": ref},
            "level_note": note,
            "technique": tech,
        })
        for m in mods:
            e = next((x for x in engines if x["name"] == m), None)
            if e is None:
                e = {"name": m, "path": "/verif/spec/" + m, "serves_properties": [],
                     "kind_free_text": "TLA+ specification checked with TLC 1.8"}
                engines.append(e)
            e["serves_properties"].append(pid)
    man = {
        "version": 1,
        "setup_cmd": "./check --setup",
        "hooks": {
            "guard": "CKL_VERIF",
            "enable": "no source hooks: instrumentation is applied from outside (wrapping, audit hooks); checks import ckl from /repo/src",
            "baseline_off_cmd": BASELINE_OFF,
            "source_commits": [],
            "add_only": True,
        },
        "engines": engines,
        "checks": checks,
        "notes": "Model-based verification with explicit TLA+ specs under /verif/spec; see DESIGN.md.",
        "not_applicable": [{"property_id": p, "reason": NOT_YET} for p in ALL if p not in CHECKS],
    }
    with open(os.path.join(ROOT, "MANIFEST.json"), "w") as f:
        json.dump(man, f, indent=1)
    print("MANIFEST.json:", len(checks), "checks,", len(man["not_applicable"]), "not applicable")


if __name__ == "__main__":
    main()
