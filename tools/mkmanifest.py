#!/venv/bin/python
"""Regenerate MANIFEST.json from the table below (kept valid at all times)."""
import json
import os

ROOT = os.path.dirname(os.path.dirname(os.path.abspath(__file__)))
ALL = ["C%02d" % i for i in range(1, 21)]

BASELINE_OFF = ("cd /repo && /venv/bin/python -m pytest -ra -q -p no:cacheprovider --timeout=900 "
                "--continue-on-collection-errors")

# property id -> (engine/spec modules, technique, level text, level note, design ref)
CHECKS = {
    "C01": (["LexerOps.tla", "Lexer.tla", "LexerMC.tla", "Parser.tla", "ParserTable.tla", "ParserMC.tla"],
            "TLA+ scanner transducer and parser pushdown automaton (lazy input) model-checked by TLC; every terminal state, "
            "one-token edit and lexeme variant replayed on parse_script under a watchdog",
            "TLC explores the scanner over four character alphabets (all strings <= 4, thorough 5) and the parser automaton over "
            "the full ~105-class token alphabet (all sequences <= 2, thorough 3) and four construct alphabets (<= 4, thorough 5), "
            "checking totality/progress/error-position invariants; each terminal state (>300k texts quick), every one-token "
            "deletion/insertion/substitution and lexeme variant of sampled accepted programs and nestings to 40 are parsed twice "
            "by the real parser: only a node or a CklSyntaxError with message and position may come out, within 5 s, both times equal.",
            "Trusted: TLC; the transcription tools/parser_table.py (its predictions are compared with the code as drift: 0 "
            "disagreements on 132k inputs); rendering of token classes to lexemes. Data-dependent parser branches are not modelled.",
            "DESIGN.md 4 C01"),
    "C20": (["LexerOps.tla", "Lexer.tla", "LexerMC.tla", "Parser.tla", "ParserTable.tla"],
            "TLC-checked scanner line invariant (LineIsStartLine vs reference LineOf) + replay of exported token lines; parser "
            "automaton names the offending token of syntax faults; planted runtime/module faults under random multi-line layouts",
            "TLC proves on the scanner mirror that every token carries the line of its first character for every text of the "
            "explored alphabets (with the pinned stamping rule switched on it produces the counterexample); the exported per-token "
            "lines are compared with the real Lexer for ~150k texts; 5k syntax-fault renderings (token named by the parser model), "
            "600 runtime-fault renderings incl. stack-trace frames and 50 module faults are checked for file name and line.",
            "Trusted: TLC, LexerOps.LineOf as the reading of 'line on which the token begins', the fault templates' marked tokens; "
            "for operator faults/calls the operator's or the construct's first line is accepted. Columns are not compared.",
            "DESIGN.md 4 C20"),
    "C15": (["SeqOps.tla", "Seq.tla", "Seq_Trace.tla"],
            "TLA+ list-object state machine (TLC exhaustive) + TLC-generated case replay + TLC trace validation of recorded calls",
            "TLC checks the index/slice/find/insert/delete laws on every list of length <= 3 (thorough 6) over 3 symbols and every "
            "index in -9..9; every reachable state's read table and every transition are replayed on the interpreter for strings "
            "and lists, and random call sequences on longer objects are recorded and validated by TLC against Seq_Trace.",
            "Trusted: TLC, the SeqOps reference operators (the reading of the property in DESIGN 4/C15), the a..e <-> 1..5 symbol mapping.",
            "DESIGN.md 4 C15"),
}

NOT_YET = "check not built yet in this round (planned, see DESIGN.md section 4)"


def main():
    checks = []
    engines = []
    for pid in ALL:
        if pid not in CHECKS:
            continue
        mods, tech, text, note, ref = CHECKS[pid]
        checks.append({
            "property_id": pid,
            "quick_cmd": f"./check {pid} --tier quick",
            "thorough_cmd": f"./check {pid} --tier thorough",
            "evidence_file": f"/verif/evidence/{pid}.json",
            "replay_cmd_template": f"./check {pid} --replay {{path}}",
            "engine": "tlc:" + ",".join(mods),
            "level_claimed": {"category": "model_checking", "text": text, "design_ref": ref},
            "level_note": note,
            "technique": tech,
        })
        for m in mods:
            e = next((x for x in engines if x["name"] == m), None)
            if e is None:
                e = {"name": m, "path": "/verif/spec/" + m, "serves_properties": [],
                     "kind_free_text": "TLA+ specification checked with TLC 1.8"}
                engines.append(e)
            e["serves_properties"].append(pid)
    man = {
        "version": 1,
        "setup_cmd": "./check --setup",
        "hooks": {
            "guard": "CKL_VERIF",
            "enable": "no source hooks: instrumentation is applied from outside (wrapping, audit hooks); checks import ckl from /repo/src",
            "baseline_off_cmd": BASELINE_OFF,
            "source_commits": [],
            "add_only": True,
        },
        "engines": engines,
        "checks": checks,
        "notes": "Model-based verification with explicit TLA+ specs under /verif/spec; see DESIGN.md.",
        "not_applicable": [{"property_id": p, "reason": NOT_YET} for p in ALL if p not in CHECKS],
    }
    with open(os.path.join(ROOT, "MANIFEST.json"), "w") as f:
        json.dump(man, f, indent=1)
    print("MANIFEST.json:", len(checks), "checks,", len(man["not_applicable"]), "not applicable")


if __name__ == "__main__":
    main()
