#!/venv/bin/python
"""seedeval.py <seed id> <patch dir (contains patch.diff, demo.py, notes.md)> <property[,property...]>
Confirm a seeded defect in a scratch worktree of /repo HEAD (patch applies, repo tests pass, the demo fails with
the patch and passes without) and run the quick checks of the named properties against it.  Stores the seed under
/verif/seeded/<seed id>/ with meta.json."""
import json, os, shutil, subprocess, sys, time

sid, pdir, props = sys.argv[1:4]
pdir = os.path.abspath(pdir)
wt = os.environ.get("SEED_WT", "/tmp/mut")
head = subprocess.run(["git", "-C", "/repo", "rev-parse", os.environ.get("SEED_BASE", "HEAD")], capture_output=True, text=True).stdout.strip()
if not os.path.isdir(wt):
    subprocess.run(["git", "-C", "/repo", "worktree", "add", "-q", "--detach", wt, head], check=True)
subprocess.run(["git", "-C", wt, "checkout", "-q", "--detach", head], check=True)
subprocess.run(["git", "-C", wt, "checkout", "-q", "--", "."], check=True)
subprocess.run(["git", "-C", wt, "clean", "-fdq"], check=True)
patch = os.path.join(pdir, "patch.diff")
demo = os.path.join(pdir, "demo.py")
env = dict(os.environ, PYTHONPATH=wt + "/src")

def rundemo():
    return subprocess.run(["/venv/bin/python", demo], env=env, capture_output=True, text=True, timeout=300).returncode

meta = {"seed": sid, "repo_head": head, "properties_checked": props.split(",")}
meta["demo_without_patch"] = rundemo()
a = subprocess.run(["git", "-C", wt, "apply", patch], capture_output=True, text=True)
if a.returncode != 0:      # context moved: let git merge it
    a = subprocess.run(["git", "-C", wt, "apply", "--3way", patch], capture_output=True, text=True)
    subprocess.run(["git", "-C", wt, "reset", "-q"], capture_output=True)
    if a.returncode == 0:
        meta["note"] = "applied with --3way (later fix commits moved the context)"
old_meta = os.path.join("/verif/seeded", sid, "meta.json")
if a.returncode != 0 and os.path.exists(old_meta):
    # the repository moved on (later fix commits touch the same lines): confirm the seed on the commit it was written for
    head = json.load(open(old_meta))["repo_head"]
    meta["repo_head"] = head
    meta["note"] = "patch no longer applies to /repo HEAD; evaluated on the commit it was written against"
    subprocess.run(["git", "-C", wt, "checkout", "-q", "--detach", head], check=True)
    meta["demo_without_patch"] = rundemo()
    a = subprocess.run(["git", "-C", wt, "apply", patch], capture_output=True, text=True)
meta["patch_applies"] = a.returncode == 0
if a.returncode != 0:
    print("patch does not apply:", a.stderr[:300]); print(json.dumps(meta)); sys.exit(2)
t = subprocess.run(["/venv/bin/python", "-m", "pytest", "-q", "-p", "no:cacheprovider"], cwd=wt, capture_output=True, text=True, env=env)  # env: PYTHONPATH=<worktree>/src, else the editable install of /repo would be tested
meta["repo_tests"] = t.stdout.strip().splitlines()[-1]
meta["demo_with_patch"] = rundemo()
meta["checks"] = {}
for pr in props.split(","):
    t0 = time.time()
    r = subprocess.run(["./check", pr, "--tier", "quick"], cwd="/verif", env=dict(os.environ, VERIF_REPO=wt), capture_output=True, text=True)
    lines = r.stdout.strip().splitlines()
    cats = [l.strip()[:200] for l in lines if l.startswith("  category")][:4]
    first = [l.strip()[:300] for l in lines if l.startswith("  ") and "category" not in l][:2]
    meta["checks"][pr] = {"exit": r.returncode, "summary": lines[-1] if lines else r.stderr[-200:], "categories": cats,
                          "first_violations": first, "wall_s": round(time.time() - t0, 1)}
    print(pr, "exit", r.returncode, lines[-1] if lines else "")
    for c in cats: print("    ", c)
subprocess.run(["git", "-C", wt, "checkout", "-q", "--", "."], check=True)
subprocess.run(["git", "-C", wt, "clean", "-fdq"], check=True)
valid = meta["demo_without_patch"] == 0 and meta["demo_with_patch"] != 0 and "passed" in meta["repo_tests"] and "failed" not in meta["repo_tests"]
meta["valid_seed"] = valid
meta["caught_by"] = [p for p, c in meta["checks"].items() if c["exit"] == 1]
print("valid seed:", valid, "| caught by:", meta["caught_by"])
if valid:
    out = os.path.join("/verif/seeded", sid)
    os.makedirs(out, exist_ok=True)
    for f in ("patch.diff", "demo.py", "notes.md"):
        if os.path.exists(os.path.join(pdir, f)) and os.path.abspath(pdir) != os.path.abspath(out):
            shutil.copy(os.path.join(pdir, f), out)
    meta["what_it_needs"] = "see notes.md"
    meta["ran"] = f"tools/seedeval.py {sid} {pdir} {props} (scratch worktree of /repo HEAD via VERIF_REPO; checks = quick tier)"
    json.dump(meta, open(os.path.join(out, "meta.json"), "w"), indent=1)
# restore evidence of the checks run (they were overwritten by the mutated run)
