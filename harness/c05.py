"""C05 - see harness/machine.py, spec/Machine.tla, spec/MachineGen.tla, spec/MachineRun.tla."""
from . import machine

FAMILY = "err"


def run(run):
    quick = run.tier == "quick"
    cfgs = machine.CONFIGS[FAMILY]["quick" if quick else "thorough"]
    n = 0
    for cfg in cfgs:
        n += machine.check_family(run, cfg, f"Machine ({cfg})")
    nr = machine.check_random(run, FAMILY, 4000 if quick else 30000, "MachineRand: seeded random programs")
    run.cov["random_programs"] = nr
    n += nr
    n += stack_programs(run)
    nb = block_traces(run, quick)
    run.cov["block_trace_programs"] = nb
    n += nb
    run.cov["traces_validated_against_impl"] = n
    run.cov["evaluations"] = n
    run.cov["distinct_nontrivial"] = n
    run.cov["rule"] = "distinct programs (parameter tuples of MachineGen, and seeded random syntax trees of harness/proggen.py evaluated by MachineRand) whose model run terminated; each rendered and executed once"
    run.cov["exhaustive"] = True
    run.assumptions += machine.ASSUMPTIONS


# The runtime's own error for an exhausted host stack ('ERROR', "Recursion too deep") is an error like any other:
# it reaches the innermost matching handler.  Machine.tla has fuel but no host stack (such programs end its run
# undecided), so these few programs carry their expected results with them.
STACK_PROGRAMS = [
    ("def f(n) f(n + 1); do f(0) catch 'ERROR' 'h' end", "'h'"),
    ("def f(n) f(n + 1); do do f(0) catch all 'inner' end catch all 'outer' end", "'inner'"),
    ("def f(n) f(n + 1); do do f(0) catch 'other' 'inner' end catch 'ERROR' 'outer' end", "'outer'"),
    ("def f(n) f(n + 1); def r = []; do do f(0) finally append(r, 'fin') end catch all append(r, 'h') end; r", "['fin', 'h']"),
    ("def f(n) f(n + 1); def g() do f(0) catch 'ERROR' 'in-g' end; g()", "'in-g'"),
    ("def l = []; append(l, l); do string(l) catch all 'cyclic' end", "'cyclic'"),
    # "the innermost catch whose value EQUALS the error value": equality is the language's, across int and decimal
    ("do error 1 catch 1.0 'h' end", "'h'"),
    ("do error 1.0 catch 2 'no' catch 1 'h' end", "'h'"),
    ("do error [1, 2.0] catch [1.0, 2] 'h' end", "'h'"),
    ("do do error 2 catch 2.5 'inner' end catch 2.0 'outer' end", "'outer'"),
    ("do error <<1, 2>> catch <<2.0, 1.0>> 'h' end", "'h'"),
    # a value that holds itself is an error value like any other: nothing renders it while it travels
    ("def l = [1]; append(l, l); do error l catch 'ERROR' 'wrong' catch all 'right' end", "'right'"),
    ("def l = [1]; append(l, l); def r = []; do do error l finally append(r, 'fin') end catch 'ERROR' append(r, 'wrong') "
     "catch all append(r, 'h') end; r", "['fin', 'h']"),
]


def stack_programs(run):
    from ckl.interpreter import Interpreter
    from . import absval
    n = 0
    for src, want in STACK_PROGRAMS:
        it = Interpreter(True, False)
        o = absval.outcome(lambda: it.interpret(src, "c05"), limit=60)
        w = absval.outcome(lambda: Interpreter(True, False).interpret(want, "c05"))
        n += 1
        if o[0] != "val" or w[0] != "val" or not absval.strict_eq(absval.to_py(o[1]), absval.to_py(w[1])):
            got = absval.to_py(o[1]) if o[0] in ("val", "err") else o[1:]
            run.violation("stack:" + src, f"handler-selection: {src!r} should yield {want}, got {o[0]} {got!r}",
                          {"kind": "stack", "src": src, "want": want})
    return n


def repo_test_programs():
    """the checkerlang programs of the repository's own tests (string literals handed to the test helpers)"""
    import ast
    import os
    from .common import REPO
    out = []
    for fname in ("test_infotests.py", "test_interpreter.py"):
        path = os.path.join(REPO, "tests", fname)
        try:
            tree = ast.parse(open(path).read())
        except (OSError, SyntaxError):
            continue
        for node in ast.walk(tree):
            if isinstance(node, ast.Call) and node.args and isinstance(node.args[0], ast.Constant) \
                    and isinstance(node.args[0].value, str):
                out.append(node.args[0].value)
    return sorted(set(out))


def block_traces(run, quick):
    """binding B: the life cycle of every block the real evaluator runs (generated programs, the
    repository's own test programs, the library code they call) validated by Block_Trace.tla"""
    import random
    import signal
    from . import blocktrace as bt
    rng = random.Random(run.seed + 5)
    gen = sorted(set(machine.SOURCES))
    gen = rng.sample(gen, min(len(gen), 2500 if quick else 20000))
    progs = [(machine.PRELUDE + g, True) for g in gen] + [(t, False) for t in repo_test_programs()] \
        + [(t, True) for t, _ in STACK_PROGRAMS]
    bt.install()
    try:
        from ckl.interpreter import Interpreter
        from ckl.values import StringOutput
        sec = Interpreter(True, False)
        leg = Interpreter(False, True)
        for it_ in (sec, leg):
            it_.setStandardOutput(StringOutput())        # the test programs print
        bt.ENABLED[0] = True
        bt.EVENTS.clear()
        metas = []

        def _alarm(signum, frame):
            raise TimeoutError()
        signal.signal(signal.SIGALRM, _alarm)
        for text, generated in progs:
            it = sec if generated else leg
            it.environment = it.base_environment.newEnv()
            bt.EVENTS.append({"e": "new"})
            signal.alarm(20)
            try:
                it.interpret(text, "blk")
            except BaseException:  # noqa: BLE001 - outcomes are judged by C05's binding A / C13; here only the events count
                pass
            finally:
                signal.alarm(0)
            metas += [text] * (len(bt.EVENTS) - len(metas))
        bt.EVENTS.append({"e": "new"})
        metas.append("<end>")
        bt.ENABLED[0] = False
        events = list(bt.EVENTS)
    finally:
        bt.ENABLED[0] = False
        bt.uninstall()
    run.cov["block_trace_events"] = len(events)
    run.cov["block_instances"] = sum(1 for e in events if e["e"] == "enter")
    run.sample({"block_trace": events[1:12], "of": metas[1][:200]})
    bt.validate(run, events, metas, "Block_Trace: life cycle of every block instance run by the real evaluator")
    return len(progs)


def replay(run, case):
    if case.get("kind") == "stack":
        global STACK_PROGRAMS
        keep = STACK_PROGRAMS
        STACK_PROGRAMS = [(case["src"], case["want"])]
        try:
            stack_programs(run)
        finally:
            STACK_PROGRAMS = keep
        run.sample(case)
        return
    if case.get("kind") == "blocktrace":
        from . import blocktrace as bt
        bt.install()
        try:
            from ckl.interpreter import Interpreter
            it = Interpreter(False, True)
            bt.ENABLED[0] = True
            bt.EVENTS.clear()
            bt.EVENTS.append({"e": "new"})
            try:
                it.interpret(case["src"], "blk")
            except BaseException:  # noqa: BLE001
                pass
            bt.EVENTS.append({"e": "new"})
            bt.ENABLED[0] = False
            ev = list(bt.EVENTS)
        finally:
            bt.ENABLED[0] = False
            bt.uninstall()
        bt.validate(run, ev, [case["src"]] * len(ev), "replay")
    else:
        machine.replay(run, case)
