"""C05 - see harness/machine.py, spec/Machine.tla, spec/MachineGen.tla, spec/MachineRun.tla."""
from . import machine

FAMILY = "err"


def run(run):
    quick = run.tier == "quick"
    cfgs = machine.CONFIGS[FAMILY]["quick" if quick else "thorough"]
    n = 0
    for cfg in cfgs:
        n += machine.check_family(run, cfg, f"Machine ({cfg})")
    nr = machine.check_random(run, FAMILY, 4000 if quick else 30000, "MachineRand: seeded random programs")
    run.cov["random_programs"] = nr
    n += nr
    nb = block_traces(run, quick)
    run.cov["block_trace_programs"] = nb
    n += nb
    run.cov["traces_validated_against_impl"] = n
    run.cov["evaluations"] = n
    run.cov["distinct_nontrivial"] = n
    run.cov["rule"] = "distinct programs (parameter tuples of MachineGen, and seeded random syntax trees of harness/proggen.py evaluated by MachineRand) whose model run terminated; each rendered and executed once"
    run.cov["exhaustive"] = True
    run.assumptions += machine.ASSUMPTIONS


def repo_test_programs():
    """the checkerlang programs of the repository's own tests (string literals handed to the test helpers)"""
    import ast
    import os
    from .common import REPO
    out = []
    for fname in ("test_infotests.py", "test_interpreter.py"):
        path = os.path.join(REPO, "tests", fname)
        try:
            tree = ast.parse(open(path).read())
        except (OSError, SyntaxError):
            continue
        for node in ast.walk(tree):
            if isinstance(node, ast.Call) and node.args and isinstance(node.args[0], ast.Constant) \
                    and isinstance(node.args[0].value, str):
                out.append(node.args[0].value)
    return sorted(set(out))


def block_traces(run, quick):
    """binding B: the life cycle of every block the real evaluator runs (generated programs, the
    repository's own test programs, the library code they call) validated by Block_Trace.tla"""
    import random
    import signal
    from . import blocktrace as bt
    rng = random.Random(run.seed + 5)
    gen = sorted(set(machine.SOURCES))
    gen = rng.sample(gen, min(len(gen), 2500 if quick else 20000))
    progs = [(machine.PRELUDE + g, True) for g in gen] + [(t, False) for t in repo_test_programs()]
    bt.install()
    try:
        from ckl.interpreter import Interpreter
        from ckl.values import StringOutput
        sec = Interpreter(True, False)
        leg = Interpreter(False, True)
        for it_ in (sec, leg):
            it_.setStandardOutput(StringOutput())        # the test programs print
        bt.ENABLED[0] = True
        bt.EVENTS.clear()
        metas = []

        def _alarm(signum, frame):
            raise TimeoutError()
        signal.signal(signal.SIGALRM, _alarm)
        for text, generated in progs:
            it = sec if generated else leg
            it.environment = it.base_environment.newEnv()
            bt.EVENTS.append({"e": "new"})
            signal.alarm(20)
            try:
                it.interpret(text, "blk")
            except BaseException:  # noqa: BLE001 - outcomes are judged by C05's binding A / C13; here only the events count
                pass
            finally:
                signal.alarm(0)
            metas += [text] * (len(bt.EVENTS) - len(metas))
        bt.EVENTS.append({"e": "new"})
        metas.append("<end>")
        bt.ENABLED[0] = False
        events = list(bt.EVENTS)
    finally:
        bt.ENABLED[0] = False
        bt.uninstall()
    run.cov["block_trace_events"] = len(events)
    run.cov["block_instances"] = sum(1 for e in events if e["e"] == "enter")
    run.sample({"block_trace": events[1:12], "of": metas[1][:200]})
    bt.validate(run, events, metas, "Block_Trace: life cycle of every block instance run by the real evaluator")
    return len(progs)


def replay(run, case):
    if case.get("kind") == "blocktrace":
        from . import blocktrace as bt
        bt.install()
        try:
            from ckl.interpreter import Interpreter
            it = Interpreter(False, True)
            bt.ENABLED[0] = True
            bt.EVENTS.clear()
            bt.EVENTS.append({"e": "new"})
            try:
                it.interpret(case["src"], "blk")
            except BaseException:  # noqa: BLE001
                pass
            bt.EVENTS.append({"e": "new"})
            bt.ENABLED[0] = False
            ev = list(bt.EVENTS)
        finally:
            bt.ENABLED[0] = False
            bt.uninstall()
        bt.validate(run, ev, [case["src"]] * len(ev), "replay")
    else:
        machine.replay(run, case)
