"""C06 - value equality is an equivalence that sets and maps respect.

Spec: spec/Val.tla (Equal, Has, SetAdd, MapPut, ... quoted from the
statement), spec/ValLaws.tla (the laws over a finite universe, checked by
TLC), spec/ValCont.tla (a set / a map object driven by its mutators),
spec/Val_Trace.tla (validation of recorded observations).

Binding A: TLC exports the universe with the Equal table, and every reachable
container of ValCont with its transitions and reads.  Each abstract value is
built in the implementation twice - through the ckl.values constructors and
by evaluating a literal - and `==`, `!=`, hash, `in`, lookup, removal, set
difference, equals / not_equals, find, container `==` are compared with the
table, through the Python API and through interpreted programs.
Binding B: random values to depth 3 (ints beyond 2^53 as limbs, decimals as
exact rationals), equal variants and near misses; the relations and
container histories the implementation produced are validated by TLC.
"""
import random

from .common import MachineryError
from . import valmodel as M
from .valmodel import V

STR77 = "zz77"


def lit_key(a):
    return M.literal(a)


class Ctx:
    def __init__(self, run):
        self.run = run
        self.im = M.Impl()
        self.n_eval = 0

    def vio(self, key, what, case):
        self.run.violation(key, what, case)


def expect_host(cx, o, key, what, case):
    """o: result of valmodel.host / Impl.run.  A host exception while comparing
    values is a failure to terminate / answer: reported."""
    if o[0] == "host":
        cx.vio(key + " !" + o[1], f"host-exception: {what} raised {o[1]} {o[2]}", case)
        return False
    return True


def build_universe(cx, u):
    """values 1..n built by constructors (A) and by literals (L)"""
    im = cx.im
    n = u["n"]
    A = [None] * (n + 1)
    L = [None] * (n + 1)
    for i in range(1, n + 1):
        a = u["v"][i]
        A[i] = M.build(a, im.refs)
        o = im.run("def l%d = %s" % (i, M.literal(a)))
        if o[0] != "val" or M.vkey(o[1], im.refs) != M.akey(a):
            cx.run.drift("literal-does-not-evaluate-to-value", {"lit": M.literal(a), "got": str(o)[:80]})
            L[i] = M.build(a, im.refs)
            im.put("l%d" % i, L[i])
        else:
            L[i] = o[1]
        im.put("a%d" % i, A[i])
    ua = V.ValueList()
    ul = V.ValueList()
    for i in range(1, n + 1):
        ua.addItem(A[i])
        ul.addItem(L[i])
    im.put("UA", ua)
    im.put("UL", ul)
    return A, L


def check_pair_api(cx, u, A, L, i, j):
    """one pair through the Python API of ckl.values"""
    a, b = u["v"][i], u["v"][j]
    eq = u["eq"][i][j]
    x, y = A[i], L[j]
    key = f"{lit_key(a)} ~ {lit_key(b)}"
    case = {"kind": "pair", "a": a, "b": b, "eq": eq}
    cx.n_eval += 1
    o = M.host(lambda: x == y)
    if not expect_host(cx, o, "eq:" + key, "==", case):
        return
    if bool(o[1]) != eq:
        cx.vio("eq:" + key, f"equality: {lit_key(a)} == {lit_key(b)} is {o[1]}, the model says {eq}", case)
    o = M.host(lambda: x != y)
    if expect_host(cx, o, "ne:" + key, "!=", case) and bool(o[1]) != (not eq):
        cx.vio("ne:" + key, f"inequality: {lit_key(a)} != {lit_key(b)} is {o[1]}, the model says {not eq}", case)
    if a["k"] == "ref" or b["k"] == "ref":
        pass
    o = M.host(lambda: (hash(x), hash(y)))
    if not expect_host(cx, o, "hash:" + key, "hash", case):
        return
    if eq and o[1][0] != o[1][1]:
        cx.vio("hash:" + key, f"hash: {lit_key(a)} == {lit_key(b)} but their hashes differ", case)

    def containers():
        s = V.ValueSet().addItem(x)
        r = {"set_has": s.hasItem(y)}
        s.addItem(y)
        r["set_len"] = len(s.value)
        m = V.ValueMap().addItem(x, V.ValueInt(7))
        r["map_has"] = m.hasItem(y)
        r["map_get"] = M.vkey(m.getItem(y)) if r["map_has"] else None
        m.addItem(y, V.ValueInt(8))
        r["map_len"] = len(m.value)
        lst = V.ValueList().addItem(x)
        r["find"] = lst.findItem(y)
        r["set_eq"] = V.ValueSet().addItem(x) == V.ValueSet().addItem(y)
        r["list_eq"] = V.ValueList().addItem(x) == V.ValueList().addItem(y)
        r["map_eq"] = (V.ValueMap().addItem(V.ValueInt(1), x) == V.ValueMap().addItem(V.ValueInt(1), y))
        r["key_eq"] = (V.ValueMap().addItem(x, V.ValueInt(1)) == V.ValueMap().addItem(y, V.ValueInt(1)))
        return r

    o = M.host(containers)
    if not expect_host(cx, o, "cont:" + key, "container operations", case):
        return
    want = {"set_has": eq, "set_len": 1 if eq else 2, "map_has": eq,
            "map_get": ("int", 7) if eq else None, "map_len": 1 if eq else 2,
            "find": 0 if eq else -1, "set_eq": eq, "list_eq": eq, "map_eq": eq, "key_eq": eq}
    for f, w in want.items():
        if o[1][f] != w:
            cx.vio(f"{f}:{key}", f"interchangeable: {f} with element {lit_key(a)} and probe "
                                 f"{lit_key(b)} gives {o[1][f]!r}, the model says {w!r}", case)


ROW_SRC = ("do def x = %s; def lx = [x]; def sx = set(lx); def mx = <<<>>>; mx[x] = 7; "
           "[[x == y, x != y, equals(x, y), not_equals(x, y), y in lx, find(lx, y), y in sx, y in mx] "
           "for y in %s]; end")
ROW_OPS = ["==", "!=", "equals", "not_equals", "in-list", "find", "in-set", "in-map"]


def row_want(eq):
    return [eq, not eq, eq, not eq, eq, 0 if eq else -1, eq, eq]


def check_row_interp(cx, u, i, xs, ys, names):
    """row i of the table through one interpreted program"""
    n = u["n"]
    o = cx.im.run(ROW_SRC % (xs % i, ys))
    a = u["v"][i]
    if o[0] == "val":
        rows = M.bools(o[1])
        cx.n_eval += n
        for j in range(1, n + 1):
            got = rows[j - 1]
            want = row_want(u["eq"][i][j])
            if got != want:
                b = u["v"][j]
                for f, g, w in zip(ROW_OPS, got, want):
                    if g != w:
                        cx.vio(f"prog {f}:{lit_key(a)} ~ {lit_key(b)}",
                               f"equality: program `{f}` on {lit_key(a)} and {lit_key(b)} gives {g!r}, "
                               f"the model says {w!r} ({names})",
                               {"kind": "pair-prog", "a": a, "b": b, "eq": u["eq"][i][j]})
        return
    # the row failed as a whole: localise pair by pair
    for j in range(1, n + 1):
        b = u["v"][j]
        src = ROW_SRC % (xs % i, "[" + {"UA": "a", "UL": "l"}[ys] + "%d" % j + "]")
        oo = cx.im.run(src)
        cx.n_eval += 1
        key = f"prog:{lit_key(a)} ~ {lit_key(b)}"
        case = {"kind": "pair-prog", "a": a, "b": b, "eq": u["eq"][i][j]}
        if oo[0] == "host":
            cx.vio(key + " !" + oo[1], f"host-exception: comparing {lit_key(a)} with {lit_key(b)} in a "
                                       f"program raised {oo[1]}", case)
        elif oo[0] != "val":
            cx.vio(key + " !error", f"error: comparing {lit_key(a)} with {lit_key(b)} in a program "
                                    f"failed: {oo[1]}", case)
        elif M.bools(oo[1])[0] != row_want(u["eq"][i][j]):
            cx.vio(key, f"equality: program on {lit_key(a)} and {lit_key(b)} gives {M.bools(oo[1])[0]}", case)


EQ_SRC = ("do def x = %s; def y = %s; def m = <<<>>>; m[x] = 5; def m2 = <<<>>>; m2[x] = 5; "
          "[length(remove(<< x, 'zz77' >>, y)), length(<< x, 'zz77' >> - << y >>), length([x, 'zz77'] - [y]), "
          "length(remove([x], y)), m[y], length(remove(m2, y)), << x >> == << y >>, [x] == [y], "
          "<<< 1 => x >>> == <<< 1 => y >>>, length(<< x, y >>), length(set([x, y])), "
          "equals(<< x, 'zz77' >>, << 'zz77', y >>), length(append(<< x >>, y))]; end")
EQ_WANT = [1, 1, 1, 0, 5, 0, True, True, True, 1, 1, True, 1]
EQ_OPS = ["remove-from-set", "set-difference", "list-difference", "remove-from-list", "map-lookup",
          "remove-from-map", "set==", "list==", "map==", "set-literal-size", "set()-size",
          "set==-other-order", "append-size"]
NE_SRC = ("do def x = %s; def y = %s; [length(<< x, y >>), << x >> == << y >>, [x] == [y], "
          "length(<< x, 'zz77' >> - << y >>), <<< x => 1 >>> == <<< y => 1 >>>]; end")
NE_WANT = [2, False, False, 2, False]


def check_equal_pair_prog(cx, u, i, j):
    a, b = u["v"][i], u["v"][j]
    key = f"{lit_key(a)} ~ {lit_key(b)}"
    case = {"kind": "eqpair", "a": a, "b": b}
    o = cx.im.run(EQ_SRC % ("a%d" % i, "l%d" % j))
    cx.n_eval += 1
    if o[0] == "host":
        cx.vio("swap:" + key + " !" + o[1], f"host-exception: using {lit_key(b)} in place of the equal "
                                            f"{lit_key(a)} raised {o[1]} {o[2]}", case)
        return
    if o[0] != "val":
        cx.vio("swap:" + key + " !error", f"error: using {lit_key(b)} in place of the equal "
                                          f"{lit_key(a)} failed: {o[1]}", case)
        return
    got = M.bools(o[1])
    for f, g, w in zip(EQ_OPS, got, EQ_WANT):
        if g != w:
            cx.vio(f"swap {f}:{key}", f"interchangeable: {f} with {lit_key(a)} held and the equal "
                                      f"{lit_key(b)} used gives {g!r}, expected {w!r}", case)


def check_unequal_pair_prog(cx, u, i, j):
    a, b = u["v"][i], u["v"][j]
    key = f"{lit_key(a)} ~ {lit_key(b)}"
    o = cx.im.run(NE_SRC % ("a%d" % i, "l%d" % j))
    cx.n_eval += 1
    case = {"kind": "nepair", "a": a, "b": b}
    if o[0] == "host":
        cx.vio("distinct:" + key + " !" + o[1], f"host-exception: {o[1]}", case)
    elif o[0] == "val" and M.bools(o[1]) != NE_WANT:
        cx.vio("distinct:" + key, f"equality: containers of the unequal {lit_key(a)}, {lit_key(b)} "
                                  f"give {M.bools(o[1])}, expected {NE_WANT}", case)


# ------------------------------------------------------------ ValCont replay
def cont_abs(pool, c):
    ks = [pool["e"][i - 1] for i in c["ks"]]
    if c["k"] == "set":
        return M.a_set(ks)
    return M.a_map(ks, [pool["x"][i - 1] for i in c["vs"]])


def ckey(c):
    return (c["k"], tuple(c["ks"]), tuple(c["vs"]))


def observe_container(cx, cv, probes):
    """membership and lookup of every probe through the API"""
    has = [cv.hasItem(p) for p in probes]
    get = [M.vkey(cv.getItem(p)) if (isinstance(cv, V.ValueMap) and h) else None
           for p, h in zip(probes, has)]
    return len(cv.value), has, get


def check_reads(cx, pool, reads, use_prog):
    im = cx.im
    probes_a = pool["e"]
    probes = [M.build(p, im.refs) for p in probes_a]
    pl = V.ValueList()
    for p in probes:
        pl.addItem(p)
    im.put("PR", pl)
    nprog = 0
    for rk, r in reads.items():
        ca = cont_abs(pool, r["obj"])
        want_has = r["has"]
        want_get = [M.akey(g["v"]) if g["ok"] else None for g in r["get"]]
        lk = lit_key(ca)
        case = {"kind": "read", "cont": ca, "pool": probes_a}
        cv = M.build(ca, im.refs)
        cx.n_eval += 1
        o = M.host(lambda: observe_container(cx, cv, probes))
        if not expect_host(cx, o, "read:" + lk, "container reads", case):
            continue
        n, has, get = o[1]
        if n != len(ca["items"]):
            cx.vio("size:" + lk, f"no-equal-duplicates: container built by inserting {lk} holds {n} "
                                 f"entries, the model {len(ca['items'])}", case)
        for p, h, w in zip(probes_a, has, want_has):
            if h != w:
                cx.vio(f"member:{lit_key(p)} in {lk}", f"membership: {lit_key(p)} in {lk} is {h}, "
                                                        f"the model says {w}", case)
        for p, g, w in zip(probes_a, get, want_get):
            if g != w:
                cx.vio(f"lookup:{lk}[{lit_key(p)}]", f"lookup: {lk}[{lit_key(p)}] gives {g}, "
                                                      f"the model says {w}", case)
        if use_prog(nprog):
            src = "do def c = %s; [length(c), [p in c for p in PR]%s]; end" % (
                M.literal(ca), ", [if p in c then c[p] else NULL for p in PR]" if ca["k"] == "map" else "")
            oo = im.run(src)
            cx.n_eval += 1
            if oo[0] == "host":
                cx.vio("read-prog:" + lk + " !" + oo[1], f"host-exception: reading {lk} raised {oo[1]}", case)
            elif oo[0] == "val":
                res = oo[1].value
                if res[0].value != len(ca["items"]):
                    cx.vio("size-lit:" + lk, f"no-equal-duplicates: literal {lk} holds {res[0].value} "
                                             f"entries, the model {len(ca['items'])}", case)
                if M.bools(res[1]) != want_has:
                    cx.vio("member-prog:" + lk, f"membership: `p in {lk}` over the probes gives "
                                                f"{M.bools(res[1])}, the model {want_has}", case)
                if ca["k"] == "map":
                    g2 = [M.vkey(x) if h else None for x, h in zip(res[2].value, want_has)]
                    if g2 != want_get:
                        cx.vio("lookup-prog:" + lk, f"lookup: {lk}[p] over the probes gives {g2}, "
                                                    f"the model {want_get}", case)
            else:
                cx.vio("read-prog:" + lk + " !error", f"error: reading {lk} failed: {oo[1]}", case)
        nprog += 1


def check_edges(cx, pool, reads, edges, use_prog):
    im = cx.im
    probes_a = pool["e"]
    probes = [M.build(p, im.refs) for p in probes_a]
    k = 0
    for e in edges:
        pre = cont_abs(pool, e["pre"])
        post = cont_abs(pool, e["post"])
        rd = reads.get(ckey(e["post"]))
        if rd is None:
            raise MachineryError("ValCont edge leads to a container without a READ record")
        arg = probes_a[e["e"] - 1]
        xv = pool["x"][e["x"] - 1] if e["x"] else None
        want_has = rd["has"]
        want_get = [M.akey(g["v"]) if g["ok"] else None for g in rd["get"]]
        desc = f"{e['op']}({lit_key(pre)}, {lit_key(arg)}" + (f", {lit_key(xv)})" if xv else ")")
        case = {"kind": "edge", "pre": pre, "op": e["op"], "arg": arg, "x": xv, "post": post, "pool": probes_a}
        cv = M.build(pre, im.refs)
        av = M.build(arg, im.refs)

        def step():
            if e["op"] == "append":
                cv.addItem(av)
            elif e["op"] == "remove":
                cv.removeItem(av)
            else:
                cv.addItem(av, M.build(xv, im.refs))
            return observe_container(cx, cv, probes)

        cx.n_eval += 1
        o = M.host(step)
        if expect_host(cx, o, "edge:" + desc, desc, case):
            n, has, get = o[1]
            if n != len(post["items"]) or has != want_has or get != want_get:
                cx.vio("edge:" + desc, f"container-step: after {desc} size/membership/lookups are "
                                       f"{n}/{has}/{get}, the model says "
                                       f"{len(post['items'])}/{want_has}/{want_get}", case)
            elif M.vkey(cv) != M.akey(post):
                cx.run.drift("kept-representative", {"step": desc, "impl": str(cv), "model": lit_key(post)})
        if use_prog(k):
            if e["op"] == "append":
                call = "append(c, %s)" % M.literal(arg)
            elif e["op"] == "remove":
                call = "remove(c, %s)" % M.literal(arg)
            elif k % 2:
                call = "put(c, %s, %s)" % (M.literal(arg), M.literal(xv))
            else:
                call = "c[%s] = %s" % (M.literal(arg), M.literal(xv))
            src = "do def c = %s; %s; [length(c), [p in c for p in PR]%s]; end" % (
                M.literal(pre), call,
                ", [if p in c then c[p] else NULL for p in PR]" if pre["k"] == "map" else "")
            oo = im.run(src)
            cx.n_eval += 1
            if oo[0] == "host":
                cx.vio("edge-prog:" + desc + " !" + oo[1], f"host-exception: {desc} raised {oo[1]}", case)
            elif oo[0] != "val":
                cx.vio("edge-prog:" + desc + " !error", f"error: {desc} failed: {oo[1]}", case)
            else:
                res = oo[1].value
                g2 = want_get
                if pre["k"] == "map":
                    g2 = [M.vkey(x) if h else None for x, h in zip(res[2].value, want_has)]
                if res[0].value != len(post["items"]) or M.bools(res[1]) != want_has or g2 != want_get:
                    cx.vio("edge-prog:" + desc, f"container-step: program {src} gives "
                                                f"{res[0].value}/{M.bools(res[1])}/{g2}, the model says "
                                                f"{len(post['items'])}/{want_has}/{want_get}", case)
        k += 1


def check_orders(cx, pool, reads, rng):
    """container == and hash do not depend on the insertion order"""
    im = cx.im
    for rk, r in reads.items():
        ca = cont_abs(pool, r["obj"])
        if len(ca["items"]) < 2:
            continue
        base = M.build(ca, im.refs)
        for pa in M.perms_of(ca, rng, 5):
            pv = M.build(pa, im.refs)
            cx.n_eval += 1
            o = M.host(lambda: (base == pv, pv == base, hash(base) == hash(pv), base != pv))
            case = {"kind": "order", "a": ca, "b": pa}
            key = f"order:{lit_key(ca)} ~ {lit_key(pa)}"
            if expect_host(cx, o, key, "container ==", case) and o[1] != (True, True, True, False):
                cx.vio(key, f"insertion-order: {lit_key(ca)} and {lit_key(pa)} give ==/==/hash==/!= "
                            f"{o[1]}", case)


# ---------------------------------------------------------------- binding B
def rel_event(cx, a, b, ord_=False):
    im = cx.im
    x = M.build(a, im.refs)
    y = M.build(b, im.refs)
    o = M.host(lambda: (x == y, x != y, hash(x) == hash(y)))
    if o[0] == "host":
        cx.vio(f"rel:{lit_key(a)} ~ {lit_key(b)} !{o[1]}", f"host-exception: comparing raised {o[1]}",
               {"kind": "pair", "a": a, "b": b, "eq": None})
        return None
    eq, ne, hq = o[1]
    return {"op": "rel", "a": a, "b": b, "eq": bool(eq), "ne": bool(ne), "hq": bool(hq), "ord": False,
            "lt": False, "le": False, "gt": False, "ge": False, "cmp": 0, "mn": 0, "mx": 0}


def tri_event(cx, a, b, c):
    im = cx.im
    x, y, z = (M.build(t, im.refs) for t in (a, b, c))
    o = M.host(lambda: (x == y, y == z, x == z))
    if o[0] == "host":
        return None
    return {"op": "tri", "a": a, "b": b, "c": c, "eab": bool(o[1][0]), "ebc": bool(o[1][1]),
            "eac": bool(o[1][2]), "ab": False, "bc": False, "ac": False, "ba": False, "ord": False}


def cont_trace(cx, rng, events, meta, elem_pool):
    """one random history of a set or a map object, driven through
    interpreted programs; every call logged with what it returned"""
    im = cx.im
    kind = rng.choice(["set", "map"])
    im.run("def c = " + ("<<>>" if kind == "set" else "<<<>>>"))
    events.append({"op": "cnew", "kind": kind})
    meta.append("def c = " + ("<<>>" if kind == "set" else "<<<>>>"))
    held = []           # abstract values the harness believes are in (for choosing removals)
    for _ in range(rng.randint(4, 10)):
        op = rng.choice(["add", "add", "has", "has", "rem", "eq", "diff"] if kind == "set"
                        else ["put", "put", "has", "get", "get", "rem", "eq"])
        v = rng.choice(elem_pool)
        if rng.random() < 0.4 and held:
            v = M.equal_variant(rng, rng.choice(held))
        lv = M.literal(v)
        if op == "add":
            src = f"length(append(c, {lv}))"
            o = im.run(src)
            if o[0] == "val":
                events.append({"op": "cadd", "v": v, "n": o[1].value})
                held.append(v)
        elif op == "put":
            xv = M.a_int(rng.randint(0, 9))
            src = (f"length(put(c, {lv}, {M.literal(xv)}))" if rng.random() < 0.5
                   else f"do c[{lv}] = {M.literal(xv)}; length(c); end")
            o = im.run(src)
            if o[0] == "val":
                events.append({"op": "cput", "k": v, "x": xv, "n": o[1].value})
                held.append(v)
        elif op == "has":
            src = f"{lv} in c"
            o = im.run(src)
            if o[0] == "val":
                events.append({"op": "chas", "v": v, "r": bool(o[1].value)})
        elif op == "get":
            src = f"if {lv} in c then [c[{lv}]] else []"
            o = im.run(src)
            if o[0] == "val":
                got = o[1].value
                try:
                    r = M.to_abs(got[0], im.refs) if got else M.a_null()
                except M.Unencodable:
                    continue
                events.append({"op": "cget", "k": v, "okk": bool(got), "r": r})
        elif op == "rem":
            # removal of an absent element is an error (C13); only present ones are recorded
            o = im.run(f"{lv} in c")
            if not (o[0] == "val" and o[1].value):
                continue
            src = f"length(remove(c, {lv}))"
            o = im.run(src)
            if o[0] == "val":
                events.append({"op": "crem", "v": v, "okk": True, "n": o[1].value})
                cv = M.canon(v)
                held = [h for h in held if M.canon(h) != cv]
            elif o[0] == "host":
                events.append({"op": "crem", "v": v, "okk": False, "n": -1})
        elif op == "eq":
            # the same content (as the harness tracks it) in another order and with other representatives
            seen = {}
            for h in held:
                seen.setdefault(M.canon(h), h)
            other_items = [M.equal_variant(rng, h) for h in seen.values()]
            rng.shuffle(other_items)
            if kind == "set":
                other = M.a_set(other_items)
            else:
                continue
            src = f"c == {M.literal(other)}"
            o = im.run(src)
            if o[0] == "val":
                events.append({"op": "ceq", "other": other, "r": bool(o[1].value)})
        else:
            src = f"length(c - << {lv} >>)"
            o = im.run(src)
            if o[0] == "val":
                events.append({"op": "cdiff", "v": v, "n": o[1].value})
        if o[0] == "host":
            cx.vio(f"trace:{kind}:{src} !{o[1]}", f"host-exception: {src} raised {o[1]} {o[2]}",
                   {"kind": "prog", "src": src})
        cx.n_eval += 1
        while len(meta) < len(events):
            meta.append(src)


def binding_b(cx, rng, npairs, ntraces):
    events, meta = [], []
    for _ in range(npairs):
        a = M.gen_value(rng, rng.choice([0, 1, 2, 3]))
        r = rng.random()
        b = M.equal_variant(rng, a) if r < 0.45 else (M.mutate(rng, a) if r < 0.8 else M.gen_value(rng, 2))
        e = rel_event(cx, a, b)
        if e:
            events.append(e)
            meta.append(f"{lit_key(a)} ~ {lit_key(b)}")
        if rng.random() < 0.3:
            c = M.equal_variant(rng, b) if rng.random() < 0.6 else M.mutate(rng, b)
            e = tri_event(cx, a, b, c)
            if e:
                events.append(e)
                meta.append(f"{lit_key(a)} ~ {lit_key(b)} ~ {lit_key(c)}")
        cx.n_eval += 1
    pool = [M.gen_value(rng, 1) for _ in range(6)] + [M.a_int(1), M.a_dec(1.0), M.a_dec(0.0), M.a_dec(-0.0),
                                                      M.a_int(2 ** 53), M.a_dec(2.0 ** 53), M.a_int(2 ** 53 + 1)]
    for _ in range(ntraces):
        pl = pool + [M.gen_value(rng, 2) for _ in range(3)]
        cont_trace(cx, rng, events, meta, pl)
    bad = M.validate(cx.run, events, "Val_Trace validation of recorded relations and container histories")
    for k, why in bad:
        if why.startswith("wf"):
            raise MachineryError(f"harness sent an ill-formed value: {meta[k]}")
        j = k
        if events[k]["op"].startswith("c"):
            while events[j]["op"] != "cnew":
                j -= 1
        cx.vio(f"trace:{meta[k]} @{why}", f"{why}: recorded observation {meta[k]} rejected by Val_Trace "
                                          f"at clause {why}: {_brief(events[k])}",
               {"kind": "trace", "events": events[j:k + 1], "meta": meta[j:k + 1]})
    return len(events)


def _brief(e):
    return {k: v for k, v in e.items() if k not in ("a", "b", "c", "v", "k", "x", "other", "r") or isinstance(v, (bool, int))}


def run(run):
    quick = run.tier == "quick"
    rng = random.Random(run.seed)
    cx = Ctx(run)
    res_u, res = M.tlc_parallel([
        ("ValLaws", "ValLaws_c06_quick" if quick else "ValLaws_c06_thorough", dict(coverage=False, timeout=3000)),
        ("ValCont", "ValCont_quick" if quick else "ValCont_thorough", dict(coverage=True, timeout=3000))])
    u = M.load_universe(run, None, "ValLaws: equality laws over the universe", res_u)
    n = u["n"]
    A, L = build_universe(cx, u)
    neq = 0
    for i in range(1, n + 1):
        for j in range(1, n + 1):
            check_pair_api(cx, u, A, L, i, j)
            neq += u["eq"][i][j]
    for i in range(1, n + 1):
        check_row_interp(cx, u, i, "a%d", "UL", "constructor-built against literal-built")
        if not quick or i % 4 == 0:
            check_row_interp(cx, u, i, "l%d", "UA", "literal-built against constructor-built")
    nun = 0
    for i in range(1, n + 1):
        for j in range(1, n + 1):
            if u["eq"][i][j]:
                check_equal_pair_prog(cx, u, i, j)
            elif rng.random() < (0.02 if quick else 0.1):
                check_unequal_pair_prog(cx, u, i, j)
                nun += 1
    run.sample({"PAIR": {"a": M.literal(u["v"][5]), "b": M.literal(u["v"][6]), "Equal": u["eq"][5][6]}})

    run.add_tlc(res, "ValCont: set / map object machine")
    pools = res.records("POOL")
    if not pools:
        raise MachineryError("ValCont exported no pool")
    pool = pools[0]
    reads = {}
    for r in res.records("READ"):
        reads.setdefault(ckey(r["obj"]), r)
    edges = {}
    for e in res.records("EDGE"):
        edges.setdefault((ckey(e["pre"]), e["op"], e["e"], e["x"]), e)
    if not reads or not edges:
        raise MachineryError("ValCont exported no cases")
    check_reads(cx, pool, reads, lambda k: True if not quick else k % 3 == 0)
    check_edges(cx, pool, reads, list(edges.values()), lambda k: k % (7 if quick else 2) == 0)
    check_orders(cx, pool, reads, rng)
    ek = next(iter(edges.values()))
    run.sample({"EDGE": {"pre": M.literal(cont_abs(pool, ek["pre"])), "op": ek["op"],
                         "arg": M.literal(pool["e"][ek["e"] - 1]),
                         "post": M.literal(cont_abs(pool, ek["post"]))}})

    nev = binding_b(cx, rng, 1500 if quick else 30000, 150 if quick else 3000)
    run.cov["traces_validated_against_impl"] = n * n + len(reads) + len(edges) + nev
    run.cov["evaluations"] = cx.n_eval + cx.im.n
    run.cov["distinct_nontrivial"] = n * n + len(reads) + len(edges) + nev
    run.cov["rule"] = ("binding A: one case per ordered pair of the ValLaws universe (|U|^2, each through the "
                       "API and through programs, constructor-built against literal-built), one per reachable "
                       "container of ValCont (reads) and one per distinct transition; binding B: one per "
                       "recorded event accepted by Val_Trace")
    run.cov["exhaustive"] = True
    run.cov["universe"] = n
    run.cov["equal_pairs"] = neq
    run.cov["unequal_pairs_through_container_programs"] = nun
    run.cov["bounds"] = {"universe": n, "containers": len(reads), "transitions": len(edges), "trace_events": nev}
    run.assumptions += [
        "hash is a host notion: `equal implies same hash` is checked on the code (and by Val_Trace clause "
        "`hash` on recorded pairs), not stated in the spec",
        "which of two equal representatives a container keeps is not part of the property: compared as drift",
        "removal of an absent element raises a host exception (C13); only removals of present elements are compared",
        "identity-only values (stdout, stdin, console) stand for the kind `ref`; functions and objects are not generated",
        "decimals are generated as exact dyadic rationals (denominator <= 1024) or integral values >= 10^8; "
        "inf/nan are out of scope",
    ]


def replay(run, case):
    cx = Ctx(run)
    k = case["kind"]
    if k in ("pair", "pair-prog", "eqpair", "nepair", "order"):
        a, b = case["a"], case["b"]
        u = {"n": 2, "v": [None, a, b], "os": [None, True, True]}
        events = []
        for x in (a, b):
            for y in (a, b):
                e = rel_event(cx, x, y)
                if e is None:
                    return
                events.append(e)
        bad = M.validate(run, events, "replay")
        eq = [[None, None, None], [None, events[0]["eq"], events[1]["eq"]], [None, events[2]["eq"], events[3]["eq"]]]
        # the model's verdict: an event is accepted iff eq was right
        wrong = {kk for kk, why in bad if why in ("eq", "ne")}
        for idx in wrong:
            i, j = divmod(idx, 2)
            eq[i + 1][j + 1] = not eq[i + 1][j + 1]
        for kk, why in bad:
            run.violation(f"replay:{lit_key(a)} ~ {lit_key(b)} @{why}", f"{why}: rejected by Val_Trace", case)
        u["eq"] = eq
        A, L = build_universe(cx, u)
        for i in (1, 2):
            for j in (1, 2):
                check_pair_api(cx, u, A, L, i, j)
            check_row_interp(cx, u, i, "a%d", "UL", "replay")
        for i in (1, 2):
            for j in (1, 2):
                if eq[i][j]:
                    check_equal_pair_prog(cx, u, i, j)
    elif k == "trace":
        bad = M.validate(run, case["events"], "replay")
        for kk, why in bad:
            run.violation(f"replay-trace:{case['meta'][kk]} @{why}", f"{why}: rejected by Val_Trace", case)
    elif k == "prog":
        o = cx.im.run(case["src"])
        if o[0] == "host":
            run.violation("replay:" + case["src"], f"host-exception: {o[1]}", case)
    elif k in ("read", "edge"):
        replay_container(cx, case)


def replay_container(cx, case):
    """a container case as a history validated by Val_Trace: build it entry by
    entry through the API, apply the step, probe everything"""
    im = cx.im
    ca = case["cont"] if case["kind"] == "read" else case["pre"]
    kind = ca["k"]
    cv = V.ValueSet() if kind == "set" else V.ValueMap()
    events = [{"op": "cnew", "kind": kind}]
    for idx, it in enumerate(ca["items"]):
        if kind == "set":
            cv.addItem(M.build(it, im.refs))
            events.append({"op": "cadd", "v": it, "n": len(cv.value)})
        else:
            cv.addItem(M.build(it, im.refs), M.build(ca["vals"][idx], im.refs))
            events.append({"op": "cput", "k": it, "x": ca["vals"][idx], "n": len(cv.value)})
    if case["kind"] == "edge":
        av = M.build(case["arg"], im.refs)
        if case["op"] == "append":
            cv.addItem(av)
            events.append({"op": "cadd", "v": case["arg"], "n": len(cv.value)})
        elif case["op"] == "remove":
            o = M.host(lambda: cv.removeItem(av))
            events.append({"op": "crem", "v": case["arg"], "okk": o[0] == "val", "n": len(cv.value)})
        else:
            cv.addItem(av, M.build(case["x"], im.refs))
            events.append({"op": "cput", "k": case["arg"], "x": case["x"], "n": len(cv.value)})
    for p in case["pool"]:
        pv = M.build(p, im.refs)
        o = M.host(lambda: cv.hasItem(pv))
        if o[0] != "val":
            cx.vio("replay-container !" + o[1], f"host-exception: {o[1]}", case)
            return
        events.append({"op": "chas", "v": p, "r": bool(o[1])})
        if kind == "map":
            got = cv.getItem(pv) if o[1] else None
            events.append({"op": "cget", "k": p, "okk": bool(o[1]),
                           "r": M.to_abs(got, im.refs) if got is not None else M.a_null()})
    for kk, why in M.validate(cx.run, events, "replay"):
        cx.vio(f"replay-container @{why} #{kk}", f"{why}: rejected by Val_Trace: {_brief(events[kk])}", case)
